#!/usr/bin/env python3
"""bin/integrate.py <ID> : (coordinator tool) merge notes/<ID>-findings.json into KNOWN_FINDINGS.json, remap
branch SHAs in 'fixed:' lines to the SHAs on /repo main (matched by commit subject), register in MANIFEST.json."""
import json, subprocess, sys, re, os
pid = sys.argv[1]
os.chdir(os.path.dirname(os.path.dirname(os.path.abspath(__file__))))
def git(*a): return subprocess.run(["git", "-C", "/repo"] + list(a), capture_output=True, text=True).stdout
main = {}
for line in git("log", "--format=%h\t%s", "main").splitlines():
    h, s = line.split("\t", 1); main.setdefault(s, h)
allc = {}
for line in git("log", "--all", "--format=%h\t%s").splitlines():
    h, s = line.split("\t", 1); allc[h] = s
kf = json.load(open("KNOWN_FINDINGS.json"))
fp = "notes/%s-findings.json" % pid
if os.path.exists(fp):
    d = json.load(open(fp))
    if isinstance(d, list): d = {"findings": d, "fixed": []}
    for e in d.get("findings", []):
        if not any(x.get("id") == e.get("id") for x in kf["findings"]): kf["findings"].append(e)
    for f in d.get("fixed", []):
        if f not in kf["fixed"]: kf["fixed"].append(f)
def remap(line):
    def rep(m):
        h = m.group(0)
        for k, s in allc.items():
            if k.startswith(h) or h.startswith(k):
                return main.get(s, h)
        return h
    return re.sub(r"\b[0-9a-f]{7,12}\b", rep, line, count=1)
kf["fixed"] = [remap(x) for x in kf["fixed"]]
json.dump(kf, open("KNOWN_FINDINGS.json", "w"), indent=1)
m = json.load(open("MANIFEST.json"))
if not any(c["property_id"] == pid for c in m["checks"]):
    m["checks"].append({"property_id": pid, "quick_cmd": "bin/check %s quick" % pid, "thorough_cmd": "bin/check %s thorough" % pid,
        "evidence_file": "evidence/%s.json" % pid, "replay_cmd_template": "bin/check --replay {path}", "engine": "coq-proof+correspondence",
        "level_claimed": {"category": "proof", "text": "Coq theorems (coq/Props/%s.v) over an executable Gallina model of the anchored Go functions against a Gallina specification of the format; the model is tied to the code on every run by a differential correspondence check (extracted model vs Go built from the working tree)." % pid, "design_ref": "DESIGN.md §5 %s" % pid},
        "level_note": "Trusted: Coq kernel, the hand-written model and spec, extraction (ExtrOcamlBasic only), OCaml driver, Go harness; the tie model<->code is differential testing. See notes/%s-report.md." % pid,
        "technique": "machine-checked proof in Coq (model + spec theorems) with extracted-model correspondence check"})
m["not_applicable"] = [x for x in m["not_applicable"] if x["property_id"] != pid]
m["checks"].sort(key=lambda c: c["property_id"])
m["engines"][0]["serves_properties"] = sorted(c["property_id"] for c in m["checks"])
hooks = [l.split()[0] for l in git("log", "--format=%h %s", "main").splitlines() if l.split(" ", 1)[1].startswith("verif:")]
m["hooks"]["source_commits"] = sorted(set(hooks))
json.dump(m, open("MANIFEST.json", "w"), indent=1)
print("integrated", pid, "fixed:", len(kf["fixed"]), "findings:", len(kf["findings"]))
