#!/usr/bin/env python3
"""bin/seedtable.py : (coordinator tool) regenerate notes/SEEDED.md from seeded/*/meta.json"""
import json, os, glob
os.chdir(os.path.dirname(os.path.dirname(os.path.abspath(__file__))))
rows = []
for d in sorted(glob.glob("seeded/*/")):
    try:
        m = json.load(open(d + "meta.json"))
    except Exception:
        continue
    c = m.get("confirmed_by_coordinator", {})
    ok = all(c.get(k) for k in ("demo_clean_passes", "applies", "demo_fails_with_change", "suite_passes_with_change"))
    det = "yes, with a failing input" if c.get("detected_with_failing_input") else ("yes, no-failing-input-found" if c.get("detected") else "NO")
    first = (c.get("check_output") or [""])
    v = [l for l in first if l.startswith("VIOLATION")]
    rows.append((os.path.basename(d.rstrip("/")), m.get("property", "?"), m.get("summary", "").replace("|", "/"), m.get("needs", "").replace("|", "/"),
                 "confirmed" if ok else "NOT confirmed", det, (v[0].split("replay=")[-1].replace("/verif/", "") if v else ""), m.get("history", "")))
out = ["# Seeded changes (written by independent sub-agents that saw only the property text) and which check catches them",
       "", "Each directory `seeded/<id>/` holds `patch.diff`, the demonstration test `zz_seed_demo_test.go` and `meta.json`.",
       "Confirmation = the patch applies to /repo HEAD, `go build ./...` and the existing suite pass with it, the demo test fails with it and passes without it.",
       "Detection = exit 1 and a VIOLATION line of `bin/check <property> quick` run against a scratch worktree with the patch applied.", "",
       "| seed | property | change | needs | confirmation | detected by bin/check <property> quick | first replay | note |", "|---|---|---|---|---|---|---|---|"]
for r in rows:
    out.append("| " + " | ".join(r) + " |")
n = len(rows); d = sum(1 for r in rows if r[5].startswith("yes"))
out += ["", "%d seeded changes, %d detected." % (n, d)]
open("notes/SEEDED.md", "w").write("\n".join(out) + "\n")
print("%d seeded, %d detected" % (n, d))
