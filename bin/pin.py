#!/usr/bin/env python3
"""bin/pin.py : (coordinator tool) record the content hashes of the repository's non-test Go sources at the HEAD the checks
were calibrated on, in cfg/pins.json.  bin/check compares the working tree against them (change-directed deepening)."""
import importlib.machinery, importlib.util, json, os, subprocess
root = os.path.dirname(os.path.dirname(os.path.abspath(__file__)))
loader = importlib.machinery.SourceFileLoader("check", os.path.join(root, "bin", "check"))
spec = importlib.util.spec_from_loader("check", loader); chk = importlib.util.module_from_spec(spec); loader.exec_module(chk)
head = subprocess.run(["git", "-C", "/repo", "rev-parse", "--short", "HEAD"], capture_output=True, text=True).stdout.strip()
dirty = subprocess.run(["git", "-C", "/repo", "status", "--porcelain"], capture_output=True, text=True).stdout.strip()
assert not dirty, "pin only a clean tree"
json.dump({"repo_head": head, "files": chk.go_sources("/repo")}, open(os.path.join(root, "cfg", "pins.json"), "w"), indent=1, sort_keys=True)
print("pinned", head)
