#!/usr/bin/env python3
"""bin/seedrun.py <PID> <srcdir> [<PID> <srcdir> ...]   (coordinator tool)
For each seeded change (patch.diff, zz_seed_demo_test.go, meta.json): confirm it in a scratch worktree of /repo
(applies, builds, existing suite passes, demo fails with / passes without the change), run the property's quick
check against that worktree (VERIF_REPO), store everything under /verif/seeded/<PID>-<n>/ and remove the worktree."""
import json, os, shutil, subprocess, sys, time
ROOT = os.path.dirname(os.path.dirname(os.path.abspath(__file__)))   # /verif, or a snapshot of it (vp run)
ENV = dict(os.environ, GOFLAGS="-mod=mod", GOPROXY="off")
def sh(cmd, cwd=None, env=ENV, timeout=3600):
    p = subprocess.run(cmd, shell=True, cwd=cwd, env=env, stdout=subprocess.PIPE, stderr=subprocess.STDOUT, text=True, errors="replace", timeout=timeout)
    return p.returncode, p.stdout
def one(pid, src):
    base = os.path.basename(src.rstrip("/"))
    name = base if base.startswith(pid + "-") else "%s-%s" % (pid, base)
    dst = os.path.join(ROOT, "seeded", name)
    w = "/tmp/seedverify-%s-%d" % (name, os.getpid())
    sh("git -C /repo worktree add -q --detach %s HEAD" % w)
    res = {}
    try:
        shutil.copy(os.path.join(src, "zz_seed_demo_test.go"), os.path.join(w, "pgdump"))
        rc, out = sh("go test -vet=off -count=1 -run 'TestSeedDemo$' ./pgdump/", cwd=w); res["demo_clean_passes"] = rc == 0
        rc, out = sh("git apply %s" % os.path.join(src, "patch.diff"), cwd=w); res["applies"] = rc == 0
        if rc != 0:
            res["note"] = out[-500:]
        else:
            rc, out = sh("go test -vet=off -count=1 -run 'TestSeedDemo$' ./pgdump/", cwd=w); res["demo_fails_with_change"] = rc != 0
            os.remove(os.path.join(w, "pgdump", "zz_seed_demo_test.go"))
            rc, out = sh("go build ./... && go test -vet=off -count=1 ./...", cwd=w); res["suite_passes_with_change"] = rc == 0
            t0 = time.time()
            rc, out = sh("bin/check %s quick" % pid, cwd=ROOT, env=dict(ENV, VERIF_REPO=w))
            lines = [l for l in out.splitlines() if l.startswith(("VIOLATION", "property=", "KNOWN-FINDING"))]
            res["check_exit"] = rc; res["check_output"] = lines[:8]; res["check_wall_s"] = round(time.time() - t0, 1)
            res["detected"] = rc == 1 and any(l.startswith("VIOLATION") for l in lines)
            res["detected_with_failing_input"] = any(l.startswith("VIOLATION") and "no-failing-input-found" not in l for l in lines)
    finally:
        sh("git -C /repo worktree remove --force %s" % w)
        shutil.rmtree(ROOT + "/build/harness-%s-%s" % (__import__("hashlib").sha1(w.encode()).hexdigest()[:8], pid), ignore_errors=True)
    os.makedirs(dst, exist_ok=True)
    for f in ("patch.diff", "zz_seed_demo_test.go"):
        if os.path.abspath(src) != os.path.abspath(dst):
            shutil.copy(os.path.join(src, f), dst)
    meta = {}
    try:
        meta = json.load(open(os.path.join(src, "meta.json")))
    except Exception as e:
        meta = {"property": pid, "summary": "(meta.json of the seeding agent unreadable)"}
    meta["property"] = pid
    meta["confirmed_by_coordinator"] = res
    meta["what_was_run"] = "bin/seedrun.py: scratch worktree of /repo HEAD; demo test clean / with change; go build + existing suite with change; VERIF_REPO=<worktree> bin/check %s quick" % pid
    json.dump(meta, open(os.path.join(dst, "meta.json"), "w"), indent=1)
    print(name, json.dumps({k: v for k, v in res.items() if k != "check_output"}), flush=True)
    for l in res.get("check_output", [])[:3]:
        print("   ", l, flush=True)
args = sys.argv[1:]
if args and args[0] == "--all":
    # re-run every stored seed against the current /repo HEAD and the current checks (optionally only some properties)
    only = set(args[1:])
    import glob
    for d in sorted(glob.glob(os.path.join(ROOT, "seeded", "*", ""))):
        name = os.path.basename(d.rstrip("/"))
        pid, k = name.rsplit("-", 1)
        if only and pid not in only:
            continue
        one(pid, d.rstrip("/"))
else:
    for i in range(0, len(args), 2):
        one(args[i], args[i + 1])
