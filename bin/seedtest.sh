#!/bin/sh
# bin/seedtest.sh <property> <dir with patch.diff + zz_seed_demo_test.go>   (coordinator tool)
# Confirms a seeded change in a scratch worktree (compiles, existing suite passes, demo fails with / passes without),
# then applies it to /repo, runs the property's quick check, and reverts.
set -u
P=$1; D=$2
export GOFLAGS=-mod=mod GOPROXY=off
W=/tmp/seedverify-$$
git -C /repo worktree add -q --detach $W HEAD || exit 2
cd $W
cp $D/zz_seed_demo_test.go pgdump/
echo "== demo on clean tree"; go test -vet=off -count=1 -run 'TestSeedDemo$' ./pgdump/ 2>&1 | tail -2
git apply $D/patch.diff || { echo "PATCH DOES NOT APPLY"; cd /; git -C /repo worktree remove --force $W; exit 3; }
echo "== demo with change"; go test -vet=off -count=1 -run 'TestSeedDemo$' ./pgdump/ 2>&1 | tail -3
rm pgdump/zz_seed_demo_test.go
echo "== existing suite with change"; go build ./... && go test -vet=off -count=1 ./... 2>&1 | grep -v "no test files" | tail -2
cd /; git -C /repo worktree remove --force $W
echo "== check on /repo with change"
git -C /repo apply $D/patch.diff && (cd /verif && bin/check $P quick | tail -4); git -C /repo checkout -- . ; git -C /repo status --short | head -3
