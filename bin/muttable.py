#!/usr/bin/env python3
"""bin/muttable.py: notes/MUTATION.md from notes/mutation/*.jsonl (bin/mutate.py) and notes/mutation/classification.json
(hand-written verdicts on the survivors)."""
import json, glob, os, collections
ROOT = os.path.dirname(os.path.dirname(os.path.abspath(__file__)))
cls = json.load(open(ROOT + "/notes/mutation/classification.json")) if os.path.exists(ROOT + "/notes/mutation/classification.json") else {}
rows = collections.defaultdict(collections.Counter)
surv, re = [], []
for p in sorted(glob.glob(ROOT + "/notes/mutation/C*.jsonl")):
    for l in open(p):
        r = json.loads(l)
        rows[r["property"]][r["result"]] += 1
        if r["result"] == "survived":
            surv.append(r)
if os.path.exists(ROOT + "/notes/mutation/recheck.jsonl"):
    re = [json.loads(l) for l in open(ROOT + "/notes/mutation/recheck.jsonl")]
with open(ROOT + "/notes/MUTATION.md", "w") as f:
    f.write("# Mechanical mutation sweep (bin/mutate.py)\n\nSingle-token mutants (relational, logical, shift and arithmetic operators, integer literals) of the lines each property is\nanchored in (ranges of properties.jsonl widened by 12 lines), applied to a scratch worktree of /repo HEAD. Mutants that do not\nbuild are dropped; mutants the repository's own test suite rejects are counted but not run; for the rest the property's quick\ncheck runs against the worktree. This complements the hand-made seeded changes of notes/SEEDED.md: it is cheap and blind.\n\n")
    f.write("| property | killed by the check | survived | rejected by the existing test suite |\n|---|---|---|---|\n")
    tk = ts = tr = 0
    for pid in sorted(rows):
        c = rows[pid]
        f.write("| %s | %d | %d | %d |\n" % (pid, c["killed"], c["survived"], c["rejected-by-suite"]))
        tk += c["killed"]; ts += c["survived"]; tr += c["rejected-by-suite"]
    f.write("| all | %d | %d | %d |\n\n" % (tk, ts, tr))
    f.write("## Survivors, each looked at by hand\n\n| property | site | mutation | verdict |\n|---|---|---|---|\n")
    for r in surv:
        key = "%s:%d:%s" % (r["file"], r["line"], r["after"])
        f.write("| %s | %s:%d | `%s` -> `%s` | %s |\n" % (r["property"], r["file"], r["line"], r["before"].replace("|", "\\|")[:90], r["after"].replace("|", "\\|")[:90], cls.get(key, "not yet classified")))
    f.write("\n## Survivors that belong to another property's code, re-run under the check of that property\n\n| owning property | site | mutation | result |\n|---|---|---|---|\n")
    for r in re:
        f.write("| %s | %s:%d | `%s` | %s |\n" % (r["property"], r["file"], r["line"], r["after"].replace("|", "\\|")[:90], r["result"]))
print(tk, ts, tr)
