#!/usr/bin/env python3
"""bin/mutate.py <PID> <N> [seed]      (coordinator tool, not a registered check)
Mechanical mutation sweep: N single-token mutants of the Go code a property is anchored in (properties.jsonl
anchors.mechanism[].where, each range widened by 12 lines; relational / logical / arithmetic / bit operators and
integer literals), each applied to a scratch worktree of /repo HEAD.  A mutant that does not build, or that the
repository's own test suite rejects, is dropped (the interest is in changes that compile and pass the tests); for the others
the property's quick check runs against the worktree (VERIF_REPO).  Result lines go to notes/mutation/<PID>.jsonl:
killed / survived with file, line, before, after.  Survivors are either equivalent mutants (dead branch, redundant guard,
mutation outside what the property observes) or generator gaps; they are reviewed by hand (notes/MUTATION.md)."""
import json, os, random, re, subprocess, sys, time, hashlib, shutil
ROOT = os.path.dirname(os.path.dirname(os.path.abspath(__file__)))
ENV = dict(os.environ, GOFLAGS="-mod=mod", GOPROXY="off")

def sh(cmd, cwd=None, env=ENV, timeout=3600):
    try:
        p = subprocess.run(cmd, shell=True, cwd=cwd, env=env, stdout=subprocess.PIPE, stderr=subprocess.STDOUT, text=True,
                           errors="replace", timeout=timeout)
        return p.returncode, p.stdout
    except subprocess.TimeoutExpired:
        return 124, "timeout"

REL = [("<=", "<"), (">=", ">"), ("==", "!="), ("!=", "=="), ("&&", "||"), ("||", "&&"), ("<<", ">>"), (">>", "<<")]

def candidates(line):
    """list of (start, end, replacement) single-token mutations of one source line"""
    code = line.split("//")[0]
    out = []
    # strings are left alone
    spans = [(m.start(), m.end()) for m in re.finditer(r'"(?:[^"\\]|\\.)*"|`[^`]*`|\'(?:[^\'\\]|\\.)*\'', code)]
    def free(a, b):
        return all(b <= s or a >= e for s, e in spans)
    for a, b in REL:
        for m in re.finditer(re.escape(a), code):
            if free(m.start(), m.end()):
                out.append((m.start(), m.end(), b))
    for m in re.finditer(r"(?<![<>=!:+\-&|])([<>])(?![<>=\-])", code):
        if free(m.start(1), m.end(1)) and not re.search(r"\bchan\b|<-", code):
            out.append((m.start(1), m.end(1), m.group(1) + "="))
    for m in re.finditer(r"(?<![\w.])(0[xX][0-9a-fA-F]+|\d+)(?![\w.])", code):
        if not free(m.start(), m.end()):
            continue
        t = m.group(1)
        v = int(t, 16) if t.lower().startswith("0x") else int(t)
        for nv in {v + 1, v - 1 if v > 0 else v + 2}:
            out.append((m.start(), m.end(), ("0x%X" % nv) if t.lower().startswith("0x") else str(nv)))
        if t.lower().startswith("0x") and v > 1:
            out.append((m.start(), m.end(), "0x%X" % (v ^ (1 << random.randrange(max(1, v.bit_length()))))))
    for m in re.finditer(r"(?<=[\w)\]])\s([+\-])\s(?=[\w(])", code):
        if free(m.start(1), m.end(1)):
            out.append((m.start(1), m.end(1), "-" if m.group(1) == "+" else "+"))
    return out

def anchors(pid):
    for l in open(os.path.join(ROOT, "properties.jsonl")):
        p = json.loads(l)
        if p["id"] == pid:
            res = []
            for m in p["anchors"]["mechanism"]:
                w = m["where"]
                f, _, rs = w.partition(":")
                for r in rs.split(","):
                    if not r:
                        continue
                    a, _, b = r.partition("-")
                    try:
                        res.append((f, max(1, int(a) - 12), int(b or a) + 12))
                    except ValueError:
                        pass
            return res
    raise SystemExit("unknown property " + pid)

def main():
    pid, n = sys.argv[1], int(sys.argv[2])
    seed = int(sys.argv[3]) if len(sys.argv) > 3 else 1
    random.seed(hashlib.sha256(("%s-%d" % (pid, seed)).encode()).digest())
    wt = "/tmp/mut-%s-%d" % (pid, os.getpid())
    sh("git -C /repo worktree add -q --detach %s HEAD" % wt)
    outdir = os.path.join(ROOT, "notes", "mutation")
    os.makedirs(outdir, exist_ok=True)
    outp = os.path.join(outdir, pid + ".jsonl")
    try:
        pool = []
        for f, a, b in anchors(pid):
            path = os.path.join(wt, f)
            if not os.path.exists(path) or f.endswith("_test.go"):
                continue
            lines = open(path).read().split("\n")
            for ln in range(a, min(b, len(lines)) + 1):
                L = lines[ln - 1]
                if L.strip().startswith("//") or "func " in L and L.strip().startswith("func"):
                    continue
                for c in candidates(L):
                    pool.append((f, ln, c))
        pool = list({(f, ln, c): None for f, ln, c in pool})
        random.shuffle(pool)
        done = tried = 0
        with open(outp, "a") as out:
            for f, ln, (s, e, rep) in pool:
                if done >= n or tried >= 6 * n:
                    break
                tried += 1
                path = os.path.join(wt, f)
                src = open(path).read()
                lines = src.split("\n")
                L = lines[ln - 1]
                lines[ln - 1] = L[:s] + rep + L[e:]
                open(path, "w").write("\n".join(lines))
                rec = {"property": pid, "file": f, "line": ln, "before": L.strip(), "after": lines[ln - 1].strip()}
                rc, o = sh("go build ./... 2>&1 | tail -3", cwd=wt)
                if rc != 0 or "error" in o or o.strip():
                    open(path, "w").write(src); continue
                rc, o = sh("go vet ./pgdump/ >/dev/null 2>&1; go test -vet=off -count=1 ./... 2>&1 | tail -3", cwd=wt, timeout=600)
                if "FAIL" in o or "panic" in o:
                    rec["result"] = "rejected-by-suite"
                    out.write(json.dumps(rec) + "\n"); out.flush()
                    open(path, "w").write(src); continue
                t0 = time.time()
                rc, o = sh("bin/check %s quick" % pid, cwd=ROOT, env=dict(ENV, VERIF_REPO=wt), timeout=3000)
                vl = [l for l in o.splitlines() if l.startswith("VIOLATION")]
                rec["result"] = "killed" if rc == 1 and vl else "survived"
                rec["check_wall_s"] = round(time.time() - t0, 1)
                rec["violation"] = vl[0][:200] if vl else ""
                out.write(json.dumps(rec) + "\n"); out.flush()
                print(pid, rec["result"], f, ln, rec["after"][:100], flush=True)
                done += 1
                open(path, "w").write(src)
    finally:
        sh("git -C /repo worktree remove --force %s" % wt)
        shutil.rmtree(ROOT + "/build/harness-%s-%s" % (hashlib.sha1(wt.encode()).hexdigest()[:8], pid), ignore_errors=True)

main()
