(* C04 driver: scalar values of every supported type, encoded by the extracted reference writers
   (coq/C04/Spec.v), expectations S from the abstract value, M from the extracted model; a
   malformed stream per oid (truncations, boundary lengths, hostile counts); TypeName sweep. *)
open Model
open Util
open Value

(* ---- rendering (must agree with harness/c04.go) ---- *)
let starts_with p s = String.length s >= String.length p && String.sub s 0 (String.length p) = p
let c_val (v : gval) : string =
  match v with
  | VBytes b -> "@@" ^ string_of_bytes b                      (* placeholder for a sub-decoder / library call *)
  | VStr s when starts_with "@@tovalid:" (string_of_bytes s) -> string_of_bytes s
  | _ -> c_gval v
let c_r (r : gval res) : string = c_res c_val r

let z = z_of_zarith
let zz (i : int) = ZA.of_int i
let pow2 k = ZA.shift_left ZA.one k
let signed k (v : ZA.t) = if ZA.geq v (pow2 (k - 1)) then ZA.sub v (pow2 k) else v
let rs r k = signed k (ru r k)                       (* boundary-biased signed k-bit *)
let bytes_of_za n (v : ZA.t) : byte list =           (* n bytes little endian *)
  List.init n (fun i -> byte_of_int (ZA.to_int (ZA.logand (ZA.shift_right v (8 * i)) (zz 255))))

let tail_for r = match rint r 4 with 0 -> rbytes r (1 + rint r 40) | _ -> []

let run ~tag ?kf ~s (oid : int) (vis : byte list) (tl : byte list) =
  let m = c_r (decodeTypeX { vis = vis; tail = tl } (zi oid)) in
  emit ~fn:"DecodeType" ~tag ?kf ~s ~m [ hexf vis; hexf tl; string_of_int oid ]
let valid r ~tag ?kf (oid : int) (exp : gval) (vis : byte list) =
  run ~tag ?kf ~s:(c_val exp) oid vis (tail_for r)

(* ---- value generators ---- *)
let f64_specials = [| "0000000000000000"; "8000000000000000"; "3ff0000000000000"; "bff0000000000000"; "7ff0000000000000";
                      "fff0000000000000"; "7ff8000000000001"; "7ff0000000000001"; "fff8000000000000"; "0000000000000001";
                      "000fffffffffffff"; "0010000000000000"; "7fefffffffffffff"; "4340000000000000"; "4340000000000001";
                      "433fffffffffffff"; "3fb999999999999a"; "400921fb54442d18"; "4415af1d78b58c40"; "3eb0c6f7a0b5ed8d";
                      "c059000000000000"; "3f50624dd2f1a9fc"; "44b52d02c7e14af6" |]
let rf64 r : ZA.t =
  match rint r 4 with
  | 0 -> ZA.of_string_base 16 (pick r f64_specials)
  | 1 -> (* small integers and halves print short *) ZA.of_string_base 16 (Printf.sprintf "%Lx" (Int64.bits_of_float (float_of_int (rrange r (-1000) 1000) /. 2.0)))
  | 2 -> rdistinct r 64
  | _ -> rbits r 64
let rf32 r : ZA.t =
  match rint r 4 with
  | 0 -> ZA.of_string_base 16 (pick r [| "00000000"; "80000000"; "3f800000"; "7f800000"; "ff800000"; "7fc00000"; "7f800001";
                                         "00000001"; "007fffff"; "00800000"; "7f7fffff"; "4048f5c3" |])
  | 1 -> rdistinct r 32
  | _ -> rbits r 32
let rpoint r = (z (rf64 r), z (rf64 r))

let dim y m = match m with
  | 2 -> if (y mod 4 = 0 && y mod 100 <> 0) || y mod 400 = 0 then 29 else 28
  | 4 | 6 | 9 | 11 -> 30 | _ -> 31
let rdate_ymd r : int * int * int =
  match rint r 8 with
  | 0 -> pick r [| (1, 1, 1); (9999, 12, 31); (2000, 1, 1); (1999, 12, 31); (1970, 1, 1); (2000, 2, 29); (1900, 2, 28);
                   (1900, 3, 1); (2024, 2, 29); (2023, 2, 28); (2100, 2, 28); (2100, 3, 1); (1600, 2, 29); (400, 2, 29);
                   (1, 12, 31); (2, 1, 1); (9999, 1, 1); (1707, 9, 22); (1707, 9, 23); (2292, 4, 10); (2292, 4, 11);
                   (1582, 10, 10); (4, 2, 29); (100, 2, 28); (100, 3, 1); (2000, 12, 31); (2001, 1, 1) |]
  | 1 -> let y = pick r [| 1; 4; 100; 400; 1600; 1900; 2000; 2004; 2100; 9996; 9999 |] in
         let m = pick r [| 1; 2; 3; 12 |] in let d = pick r [| 1; dim y m |] in (y, m, d)
  | _ -> let y = if rbool r then rrange r 1 9999 else rrange r 1900 2100 in
         let m = rrange r 1 12 in (y, m, rrange r 1 (dim y m))
let rdateval r : dateval =
  match rint r 12 with 0 -> DInf | 1 -> DNegInf | _ -> let (y, m, d) = rdate_ymd r in DDate (zi y, zi m, zi d)
let rclock r ~(allow24 : bool) : clock =
  match rint r 8 with
  | 0 -> { c_h = zi 0; c_m = zi 0; c_s = zi 0; c_us = zi 0 }
  | 1 -> { c_h = zi 23; c_m = zi 59; c_s = zi 59; c_us = zi 999999 }
  | 2 when allow24 -> { c_h = zi 24; c_m = zi 0; c_s = zi 0; c_us = zi 0 }
  | 3 -> { c_h = zi (rrange r 0 23); c_m = zi (pick r [| 0; 59 |]); c_s = zi (pick r [| 0; 59 |]); c_us = zi (pick r [| 0; 1; 999999 |]) }
  | _ -> { c_h = zi (rrange r 0 23); c_m = zi (rrange r 0 59); c_s = zi (rrange r 0 59); c_us = zi (rint r 1000000) }
let rtsval r : tsval =
  match rint r 12 with
  | 0 -> TInf | 1 -> TNegInf
  | _ -> let (y, m, d) = rdate_ymd r in TStamp (zi y, zi m, zi d, rclock r ~allow24:false)
let rtz r : tzoff =
  match rint r 6 with
  | 0 -> { z_neg = false; z_h = zi 0; z_m = zi 0; z_s = zi 0 }
  | 1 -> { z_neg = rbool r; z_h = zi (rrange r 1 15); z_m = zi 0; z_s = zi 0 }
  | 2 -> { z_neg = rbool r; z_h = zi (rrange r 0 15); z_m = zi (pick r [| 30; 45; 1; 59 |]); z_s = zi 0 }
  | 3 -> { z_neg = rbool r; z_h = zi 15; z_m = zi 59; z_s = zi 59 }
  | 4 -> { z_neg = rbool r; z_h = zi (rrange r 0 15); z_m = zi 0; z_s = zi (rrange r 1 59) }
  | _ -> { z_neg = rbool r; z_h = zi (rrange r 0 15); z_m = zi (rrange r 0 59); z_s = zi (rrange r 1 59) }

(* valid UTF-8 text *)
let utf8_of_cp (cp : int) : int list =
  if cp < 0x80 then [ cp ]
  else if cp < 0x800 then [ 0xC0 lor (cp lsr 6); 0x80 lor (cp land 63) ]
  else if cp < 0x10000 then [ 0xE0 lor (cp lsr 12); 0x80 lor ((cp lsr 6) land 63); 0x80 lor (cp land 63) ]
  else [ 0xF0 lor (cp lsr 18); 0x80 lor ((cp lsr 12) land 63); 0x80 lor ((cp lsr 6) land 63); 0x80 lor (cp land 63) ]
let rcp r = match rint r 6 with
  | 0 -> pick r [| 0x7F; 0x80; 0x7FF; 0x800; 0xFFFF; 0x10000; 0x10FFFF; 0xD7FF; 0xE000; 0; 0xFFFD; 0x1F600; 0xE9; 0x20AC |]
  | 1 -> rrange r 0x80 0x7FF | 2 -> (let c = rrange r 0x800 0xFFFF in if c >= 0xD800 && c <= 0xDFFF then 0x4E2D else c)
  | 3 -> rrange r 0x10000 0x10FFFF | _ -> rrange r 0x20 0x7E
let rutf8 r : byte list =
  let n = pick r [| 1; 1; 2; 3; 5; 11; 40; 200 |] in
  List.map byte_of_int (List.concat (List.init n (fun _ -> utf8_of_cp (rcp r))))
let invalid_utf8 r : byte list =
  let bad = pick r [| [ 0xC0; 0x80 ]; [ 0xC1; 0xBF ]; [ 0xED; 0xA0; 0x80 ]; [ 0xED; 0xBF; 0xBF ]; [ 0xF4; 0x90; 0x80; 0x80 ];
                      [ 0xF5; 0x80; 0x80; 0x80 ]; [ 0xE0; 0x9F; 0xBF ]; [ 0xF0; 0x8F; 0xBF; 0xBF ]; [ 0x80 ]; [ 0xBF ]; [ 0xC2 ];
                      [ 0xE2; 0x82 ]; [ 0xF0; 0x9F; 0x98 ]; [ 0xFF ]; [ 0xFE ]; [ 0xC2; 0x41 ]; [ 0xE2; 0x41; 0x80 ];
                      [ 0xE2; 0x82; 0x41 ]; [ 0xF0; 0x9F; 0x41; 0x80 ]; [ 0xF0; 0x9F; 0x98; 0x41 ]; [ 0xF8; 0x88; 0x80; 0x80; 0x80 ];
                      [ 0xED; 0x9F; 0xC0 ]; [ 0xF4; 0x8F; 0xBF; 0xC0 ]; [ 0xE0; 0xA0 ]; [ 0xF1; 0x80; 0x80 ] |] in
  let pre = if rbool r then rutf8 r else [] in
  let post = if rbool r then rutf8 r else [] in
  pre @ List.map byte_of_int bad @ (if rint r 3 = 0 then List.map byte_of_int bad else []) @ post

let all_flags = List.init 32 (fun i -> { f_empty = i land 1 <> 0; f_lb_inc = i land 2 <> 0; f_ub_inc = i land 4 <> 0;
                                         f_lb_inf = i land 8 <> 0; f_ub_inf = i land 16 <> 0 })
let flag_tag f = Printf.sprintf "%s%s%s%s%s" (if f.f_empty then "E" else "e") (if f.f_lb_inc then "I" else "i")
    (if f.f_ub_inc then "I" else "i") (if f.f_lb_inf then "N" else "n") (if f.f_ub_inf then "N" else "n")

let rrelem r (oid : int) : relem =
  match oid with
  | 3904 -> RInt4 (z (if rint r 3 = 0 then signed 32 (rdistinct r 32) else rs r 32))
  | 3926 -> RInt8 (z (if rint r 3 = 0 then signed 64 (rdistinct r 64) else rs r 64))
  | 3912 -> RDate (rdateval r)
  | _ -> RTs (rtsval r)

let int4_array_payload r : byte list =
  let n = rrange r 1 3 in
  bytes_of_za 4 (zz 1) @ bytes_of_za 4 (zz 0) @ bytes_of_za 4 (zz 23) @ bytes_of_za 4 (zz n) @ bytes_of_za 4 (zz 1)
  @ List.concat (List.init n (fun _ -> bytes_of_za 4 (rdistinct r 32)))

(* ---- one valid case of each supported type ---- *)
let nvalid = 47
let gen_valid r (k : int) =
  match k mod nvalid with
  | 0 -> let b = rbool r in valid r ~tag:"bool" 16 (exp_bool b) (enc_bool b)
  | 1 -> let c = byte_of_int (rbyte r) in valid r ~tag:"char" 18 (exp_char c) (enc_char c)
  | 2 -> let n = pick r [| 0; 1; 5; 31; 62; 63 |] in
         let nm = List.init n (fun _ -> byte_of_int (1 + rint r 255)) in
         valid r ~tag:(Printf.sprintf "name_%d" n) 19 (exp_name nm) (enc_name nm)
  | 3 -> let v = z (if rbool r then signed 16 (rdistinct r 16) else rs r 16) in valid r ~tag:"int2" 21 (exp_int2 v) (enc_int2 v)
  | 4 -> let v = z (if rbool r then signed 32 (rdistinct r 32) else rs r 32) in valid r ~tag:"int4" 23 (exp_int4 v) (enc_int4 v)
  | 5 -> let v = z (if rbool r then signed 64 (rdistinct r 64) else rs r 64) in valid r ~tag:"int8" 20 (exp_int8 v) (enc_int8 v)
  | 6 -> let v = z (if rbool r then rdistinct r 32 else ru r 32) in
         let oid = pick r [| 26; 28; 29 |] in
         valid r ~tag:(Printf.sprintf "u32_%d" oid) oid (exp_u32 v) (enc_u32 v)
  | 7 -> let hi = ru r 16 in
         let lo = if rint r 4 = 0 then hi else ru r 16 in
         let hi, lo = if rint r 3 = 0 then (rdistinct r 16, rdistinct r 16) else (hi, lo) in
         let pos = z (rdistinct r 16) in
         let kf = if kf_tid (z hi) (z lo) then Some "C04-tid-blockhi" else None in
         valid r ~tag:(if kf = None then "tid_hi_eq_lo" else "tid") ?kf 27 (exp_tid (z hi) (z lo) pos) (enc_tid (z hi) (z lo) pos)
  | 8 -> let b = z (rf32 r) in valid r ~tag:"float4" 700 (exp_float4 b) (enc_float4 b)
  | 9 -> let b = z (rf64 r) in valid r ~tag:"float8" 701 (exp_float8 b) (enc_float8 b)
  | 10 -> let c = match rint r 4 with
            | 0 -> zz (pick r [| 0; 1; -1; 5; -5; 99; 100; -100; 101; 1234; -12345; 999999999 |])
            | 1 -> ZA.sub (ZA.of_string "1000000000000000") (zz (rint r 1000))
            | 2 -> ZA.neg (ZA.sub (ZA.of_string "1000000000000000") (zz (rint r 1000)))
            | _ -> ZA.sub (rbits r 49) (pow2 48) in
          valid r ~tag:"money" 790 (exp_moneyX (z c)) (enc_money (z c))
  | 11 -> let s = rutf8 r in
          let oid = pick r [| 25; 1043; 1042; 142 |] in
          valid r ~tag:(Printf.sprintf "text_%d" oid) oid (exp_text s) (enc_text s)
  | 12 -> let s = bytes_of_string (pick r [| "{\"key\": \"value\"}"; "[1, 2.5, -3e10, null, true]"; "null"; "\"x\\u00e9\""; "17";
                                             "{\"a\":{\"b\":[{}, []]}, \"a2\": \"\\ud83d\\ude00\"}"; "  {\"k\" : 1 }  "; "{\"dup\":1,\"dup\":2}";
                                             "{bad json"; "[1,2"; "NaN"; "{\"a\":1}x" |]) in
          run ~tag:"json" ~s:("@@json:" ^ hex_of_bytes s) 114 s (tail_for r)
  | 13 -> let d = rbytes r (pick r [| 1; 2; 4; 17; 100 |]) in valid r ~tag:"bytea" 17 (exp_bytea d) d
  | 14 | 15 -> let n = pick r [| 0; 1; 7; 8; 9; 15; 16; 17; 31; 32; 33; 64; 1000; rint r 200 |] in
          let l = List.init n (fun _ -> match rint r 8 with 0 -> true | 1 -> false | _ -> rbool r) in
          let l = if n > 0 && rint r 4 = 0 then List.mapi (fun i b -> if i = n - 1 then true else b) l else l in
          valid r ~tag:(Printf.sprintf "bits_%s" (if n mod 8 = 0 then "full" else "part")) (pick r [| 1560; 1562 |]) (exp_bits l) (enc_bits l)
  | 16 | 17 -> let d = rdateval r in
          valid r ~tag:(match d with DDate _ -> "date" | _ -> "date_inf") 1082 (exp_date d) (enc_date d)
  | 18 -> let c = rclock r ~allow24:true in valid r ~tag:"time" 1083 (exp_time c) (enc_time c)
  | 19 | 20 -> let c = rclock r ~allow24:true in
          let t = rtz r in
          valid r ~tag:(if iz t.z_s <> 0 then "timetz_sec" else if iz t.z_m <> 0 then "timetz_min" else "timetz_hour") 1266
            (exp_timetz c t) (enc_timetz c t)
  | 21 | 22 | 23 -> let v = rtsval r in
          let oid = pick r [| 1114; 1184 |] in
          valid r ~tag:(match v with TStamp _ -> Printf.sprintf "ts_%d" oid | _ -> "ts_inf") oid (exp_ts v) (enc_ts v)
  | 24 | 25 -> let fld k small = match rint r 6 with
            | 0 -> ZA.zero
            | 1 -> zz (pick r small) | 2 -> ZA.neg (zz (pick r small))
            | 3 -> ZA.pred (pow2 (k - 1)) | 4 -> ZA.neg (pow2 (k - 1))
            | _ -> rs r k in
          let us = match rint r 3 with
            | 0 -> let u = zz (pick r [| 1; 999999; 1000000; 1000001; 59999999; 60000000; 60000001; 3599999999; 3600000000; 3600000001;
                                         14706000000; 86400000000 |]) in if rbool r then u else ZA.neg u
            | _ -> fld 64 [| 1; 61000000; 3661000000 |] in
          let v = { i_us = z us; i_days = z (fld 32 [| 1; 3; 30 |]); i_months = z (fld 32 [| 1; 11; 12; 13; 14; 24 |]) } in
          valid r ~tag:"interval" 1186 (exp_interval v) (enc_interval v)
  | 26 -> let u = bytes_of_za 16 (rdistinct r 128) in
          let u = if rint r 4 = 0 then List.mapi (fun i b -> if i mod 3 = 0 then byte_of_int (rint r 16) else b) u else u in
          valid r ~tag:"uuid" 2950 (exp_uuid u) u
  | 27 -> let v = match rint r 4 with
            | 0 -> let h = ru r 32 in ZA.add (ZA.shift_left h 32) h
            | 1 -> ZA.of_int (0x16B3748 + rint r 1000)
            | 2 -> rdistinct r 64 | _ -> ru r 64 in
          let kf = if kf_lsn (z v) then Some "C04-pglsn-halves" else None in
          valid r ~tag:(if kf = None then "lsn_hi_eq_lo" else "lsn") ?kf 3220 (exp_lsn (z v)) (enc_lsn (z v))
  | 28 -> let a = List.init 6 (fun _ -> byte_of_int (if rint r 3 = 0 then rint r 16 else rbyte r)) in valid r ~tag:"macaddr" 829 (exp_mac a) a
  | 29 -> let a = List.init 8 (fun _ -> byte_of_int (if rint r 3 = 0 then rint r 16 else rbyte r)) in valid r ~tag:"macaddr8" 774 (exp_mac a) a
  | 30 | 31 -> let v =
            if rbool r then
              let bits = pick r [| 0; 1; 8; 24; 31; 32; 32; rint r 33 |] in
              let o () = zi (pick r [| 0; 1; 9; 10; 99; 100; 192; 255; rbyte r |]) in
              Inet4 (zi bits, o (), o (), o (), o ())
            else
              let bits = pick r [| 0; 1; 64; 127; 128; 128; rint r 129 |] in
              let g () = match rint r 5 with 0 -> [ 0; 0 ] | 1 -> [ 0; rbyte r ] | 2 -> [ rint r 16; rbyte r ] | _ -> [ rbyte r; rbyte r ] in
              Inet6 (zi bits, List.map byte_of_int (List.concat (List.init 8 (fun _ -> g ())))) in
          let oid = pick r [| 869; 650 |] in
          valid r ~tag:(match v with Inet4 _ -> "inet4" | _ -> "inet6") oid (exp_inet v) (enc_inet v)
  | 32 -> let p = rpoint r in valid r ~tag:"point" 600 (exp_pointX p) (enc_point p)
  | 33 -> let p = rpoint r and q = rpoint r in valid r ~tag:"lseg" 601 (exp_lsegX p q) (enc_lseg p q)
  | 34 -> let p = rpoint r and q = rpoint r in valid r ~tag:"box" 603 (exp_boxX p q) (enc_lseg p q)
  | 35 -> let a = z (rf64 r) and b = z (rf64 r) and c = z (rf64 r) in valid r ~tag:"line" 628 (exp_lineX a b c) (enc_line a b c)
  | 36 -> let p = rpoint r and rad = z (rf64 r) in valid r ~tag:"circle" 718 (exp_circleX p rad) (enc_circle p rad)
  | 37 -> let ps = List.init (pick r [| 1; 2; 3; 5 |]) (fun _ -> rpoint r) in
          let closed = rbool r in
          valid r ~tag:"path" ~kf:"C04-path-layout" 602 (exp_pathX closed ps) (enc_path closed ps)
  | 38 -> let ps = List.init (pick r [| 1; 3; 4 |]) (fun _ -> rpoint r) in
          valid r ~tag:"polygon" ~kf:"C04-polygon-layout" 604 (exp_polygonX ps) (enc_polygon (rpoint r) (rpoint r) ps)
  | 39 | 40 | 41 | 42 ->
          let oid = pick r [| 3904; 3926; 3912; 3908; 3910 |] in
          let f = List.nth all_flags ((k / nvalid) mod 32) in
          let lo = rrelem r oid and hi = rrelem r oid in
          let typid = z (if rbool r then zz oid else rdistinct r 32) in
          valid r ~tag:(Printf.sprintf "range_%d_%s" oid (flag_tag f)) oid (exp_range_of f lo hi) (enc_range_of typid f lo hi)
  | 43 -> let f = List.nth all_flags ((k / nvalid) mod 32) in
          let num () = rbytes r (pick r [| 3; 5; 8; 12 |]) in
          let lo = num () and hi = num () in
          let kf = if kf_numrange f then Some "C04-numrange-bounds" else None in
          valid r ~tag:(if kf = None then "numrange_nobounds" else "numrange") ?kf 3906 (exp_numrangeX f lo hi)
            (enc_numrange (zi 3906) f lo hi)
  | 44 -> (* dispatch to the array decoder (C07): the payload bytes and the element oid are handed over unchanged *)
          let (aoid, eoid, fixed) = pick r [| (1007, 23, true); (1009, 25, false); (1016, 20, true); (1231, 1700, false); (3807, 3802, false);
                                              (1000, 16, true); (1182, 1082, true); (1115, 1114, true); (2951, 2950, true); (1041, 869, false);
                                              (3905, 3904, false); (1021, 700, true); (1005, 21, true) |] in
          let p = if fixed then int4_array_payload r
            else (* one element with a short (1-byte) varlena header *)
              let body = rbytes r (rrange r 1 6) in
              bytes_of_za 4 (zz 1) @ bytes_of_za 4 (zz 0) @ bytes_of_za 4 (zz eoid) @ bytes_of_za 4 (zz 1) @ bytes_of_za 4 (zz 1)
              @ [ byte_of_int (((1 + List.length body) lsl 1) lor 1) ] @ body in
          run ~tag:"array_dispatch" ~s:(Printf.sprintf "@@arr:%d:%s" eoid (hex_of_bytes p)) aoid p []
  | 45 -> let d = rbytes r (pick r [| 2; 4; 6; 8; 10 |]) in
          run ~tag:"numeric_dispatch" ~s:("@@num:" ^ hex_of_bytes d) 1700 d []
  | _ -> let d = rbytes r (pick r [| 4; 8; 12; 20 |]) in
          run ~tag:"jsonb_dispatch" ~s:("@@jsonb:" ^ hex_of_bytes d) 3802 d []

(* ---- malformed / out-of-range stream: model vs implementation only (S = "-") ---- *)
let all_oids = [| 16; 17; 18; 19; 20; 21; 23; 25; 26; 27; 28; 29; 114; 142; 600; 601; 602; 603; 604; 628; 650; 700; 701; 718; 774;
                  790; 829; 869; 1042; 1043; 1082; 1083; 1114; 1184; 1186; 1266; 1560; 1562; 2950; 3220; 3614; 3615; 4072;
                  3904; 3906; 3908; 3910; 3912; 3926; 0; 1; 24; 99999; 2249; 705 |]
let fixed_len = function
  | 16 | 18 -> 1 | 21 -> 2 | 23 | 26 | 28 | 29 | 700 | 1082 -> 4 | 27 | 829 -> 6
  | 20 | 701 | 790 | 1083 | 1114 | 1184 | 774 | 3220 -> 8 | 1266 -> 12 | 600 | 1186 | 2950 -> 16 | 628 | 718 -> 24 | 601 | 603 -> 32
  | 19 -> 64 | _ -> 0
let set_le (bs : byte list) (off : int) (n : int) (v : ZA.t) : byte list =
  let vb = bytes_of_za n v in List.mapi (fun i b -> if i >= off && i < off + n then List.nth vb (i - off) else b) bs

let gen_malformed r (k : int) =
  let go ~tag oid vis = run ~tag ~s:"-" oid vis (match rint r 3 with 0 -> [] | _ -> rbytes r (1 + rint r 48)) in
  match k mod 12 with
  | 0 | 1 -> (* every oid, lengths around its width *)
    let oid = all_oids.(k / 12 mod Array.length all_oids) in
    let w = fixed_len oid in
    let n = if w = 0 then pick r [| 1; 2; 3; 5; 9; 40 |] else max 0 (pick r [| 1; w - 1; w; w + 1; w / 2; 2 * w |]) in
    let b = rbytes r n in
    (* money: keep the stored cents within the range where float64(cents)/100 prints exactly (|c| < 2^49) *)
    let cents = bytes_of_za 8 (ZA.logand (ZA.sub (rbits r 50) (pow2 49)) (ZA.pred (pow2 64))) in
    let b = if oid = 790 then List.mapi (fun i x -> if i < 8 then List.nth cents i else x) b else b in
    go ~tag:(Printf.sprintf "len_%s" (if n < w then "short" else if n = w then "exact" else "long")) oid b
  | 2 -> (* inet: every length x family *)
    let n = pick r [| 1; 2; 3; 5; 6; 7; 8; 9; 12; 17; 18; 19; 20; 21; 24 |] in
    let b = rbytes r n in
    let b = List.mapi (fun i x -> if i = 0 then byte_of_int (pick r [| 2; 2; 3; 3; 0; 1; 4; 10 |])
                         else if i = 1 then byte_of_int (pick r [| 32; 128; 0; 31; 33; 127; 129; 255; 24 |]) else x) b in
    go ~tag:(Printf.sprintf "inet_len%d" n) (pick r [| 869; 650 |]) b
  | 3 | 4 -> (* ranges: lengths around every bound position, every flag byte *)
    let oid = pick r [| 3904; 3926; 3912; 3908; 3910; 3906 |] in
    let n = pick r [| 1; 4; 5; 6; 8; 9; 10; 12; 13; 14; 16; 17; 20; 21; 22; 24; 25; 28; 29; 33 |] in
    let b = rbytes r n in
    let fl = match rint r 3 with 0 -> rbyte r | _ -> rint r 32 in
    go ~tag:(Printf.sprintf "range_len%d" n) oid (List.mapi (fun i x -> if i = n - 1 then byte_of_int fl else x) b)
  | 5 -> (* path / polygon in the layout the tool expects, counts around the guard *)
    let npts = pick r [| 0; 1; 2; 3 |] in
    let body = rbytes r (16 * npts + pick r [| 0; 0; 0; 1; 15; 16 |]) in
    let cnt = match rint r 6 with 0 -> zz (-1) | 1 -> zz (npts + 1) | 2 -> ZA.of_string "2147483647" | 3 -> ZA.of_string "-2147483648"
                                | _ -> zz npts in
    let b = [ byte_of_int (pick r [| 0; 1; 2; 255 |]) ] @ bytes_of_za 4 (ZA.logand cnt (ZA.pred (pow2 32))) @ body in
    let b = if rint r 8 = 0 then List.filteri (fun i _ -> i < rint r 6) b else b in
    go ~tag:"path_toolformat" (pick r [| 602; 604 |]) b
  | 6 -> (* bit strings: declared length vs available bytes *)
    let nb = pick r [| 0; 1; 2; 3; 8 |] in
    let bl = match rint r 8 with
      | 0 -> zz (-1) | 1 -> ZA.of_string "2147483647" | 2 -> zz (8 * nb + 1) | 3 -> zz (8 * nb) | 4 -> zz (max 0 (8 * nb - 7))
      | 5 -> zz (max 0 (8 * nb - 8)) | 6 -> ZA.of_string "-2147483648" | _ -> zz (rint r (8 * nb + 2)) in
    let b = bytes_of_za 4 (ZA.logand bl (ZA.pred (pow2 32))) @ rbytes r nb in
    let b = if rint r 8 = 0 then List.filteri (fun i _ -> i < rint r 4) b else b in
    go ~tag:"bits_len" (pick r [| 1560; 1562 |]) b
  | 7 -> (* text family and default branch: invalid UTF-8 goes through strings.ToValidUTF8 *)
    go ~tag:"text_invalid" (pick r [| 25; 1043; 1042; 142; 4072; 3614; 3615; 99999; 114; 0 |]) (invalid_utf8 r)
  | 8 -> (* dates and timestamps outside 0001..9999: Go's calendar and year formatting *)
    if rbool r then
      let d = pick r [| -730120; -730119; -730485; -730486; -800000; 2921939; 2921940; 2147483646; -2147483647; -1000000; 5000000 |] in
      go ~tag:"date_far" 1082 (bytes_of_za 4 (ZA.logand (zz (d + rint r 3 - 1)) (ZA.pred (pow2 32))))
    else
      let u = ZA.of_string (pick r [| "9223372036854775806"; "-9223372036854775807"; "252455616000000000"; "-63082281600000001";
                                      "-63113904000000000"; "-63113904000000001"; "9223372036854775000"; "-9223372036854775000";
                                      "9223372036854775"; "9223372036854776"; "-9223372036854775"; "-9223372036854776" |]) in
      let u = ZA.add u (zz (rint r 3 - 1)) in
      let u = if ZA.geq u (pow2 63) then ZA.pred (pow2 63) else if ZA.lt u (ZA.neg (pow2 63)) then ZA.neg (pow2 63) else u in
      go ~tag:"ts_far" (pick r [| 1114; 1184 |]) (bytes_of_za 8 (ZA.logand u (ZA.pred (pow2 64))))
  | 9 -> (* time / timetz out of range: negative, > 24h, zone beyond +/-16h, INT_MIN *)
    let us = match rint r 5 with 0 -> ZA.neg (rbits r 40) | 1 -> rbits r 45 | 2 -> ZA.neg (pow2 63) | 3 -> ZA.pred (pow2 63) | _ -> rbits r 36 in
    let tzv = match rint r 5 with 0 -> ZA.neg (pow2 31) | 1 -> ZA.pred (pow2 31) | 2 -> zz (rrange r (-100000) 100000) | 3 -> zz 57600 | _ -> zz (-57600) in
    if rbool r then go ~tag:"time_far" 1083 (bytes_of_za 8 (ZA.logand us (ZA.pred (pow2 64))))
    else go ~tag:"timetz_far" 1266 (bytes_of_za 8 (ZA.logand us (ZA.pred (pow2 64))) @ bytes_of_za 4 (ZA.logand tzv (ZA.pred (pow2 32))))
  | 10 -> (* name without terminator / longer than 64 / early NUL *)
    let n = pick r [| 1; 10; 63; 64; 65; 100 |] in
    let b = List.init n (fun i -> byte_of_int (if rint r 20 = 0 then 0 else 1 + rint r 255)) in
    go ~tag:"name_raw" 19 b
  | _ -> (* wire-format inet (8 / 20 bytes), bool bytes other than 0/1, money beyond 2^53 *)
    (match rint r 3 with
     | 0 -> go ~tag:"inet_wire" 869 (List.map byte_of_int [ 2; pick r [| 32; 24 |]; rint r 2; 4; rbyte r; rbyte r; rbyte r; rbyte r ])
     | 1 -> go ~tag:"bool_other" 16 [ byte_of_int (pick r [| 2; 255; 128; 1; 0 |]) ]
     | _ -> go ~tag:"inet6_wire" 650 (List.map byte_of_int ([ 3; pick r [| 128; 64 |]; 1; 16 ] @ List.init 16 (fun _ -> rbyte r))))

(* ---- TypeName: every oid 0..4200 (all table entries lie below), then far values ---- *)
let gen_typename () =
  let one oid = emit ~fn:"TypeName" ~tag:"typename" ~s:(c_str (exp_typename (z oid))) ~m:(c_str (typeName (z oid))) [ ZA.to_string oid ] in
  for i = 0 to 4200 do one (zz i) done;
  List.iter (fun s -> one (ZA.of_string s)) [ "-1"; "-16"; "65536"; "99999"; "2147483647"; "-2147483648"; "4294967312"; "1000000007" ]

(* cstring with other limits (binary.go) *)
let gen_cstring r =
  let n = pick r [| 0; 1; 5; 64; 70 |] in
  let b = List.init n (fun _ -> byte_of_int (if rint r 6 = 0 then 0 else 1 + rint r 255)) in
  let mx = pick r [| 0; 1; 3; 64; 100 |] in
  let m = c_str (cstring { vis = b; tail = [] } (zi mx)) in
  emit ~fn:"cstring" ~tag:"cstring" ~s:"-" ~m [ hexf b; string_of_int mx ]

let gen seed n =
  gen_typename ();
  for k = 0 to n - 1 do
    let r = rng_for seed k in
    if k mod 4 = 3 then (if k mod 64 = 63 then gen_cstring r else gen_malformed r (k / 4)) else gen_valid r (k - k / 4)
  done
let () = main gen
