(* C18 driver: index files (B-tree, hash, GiST, GIN, SP-GiST, BRIN).
   S = expectation computed from the abstract page/file by the extracted Coq spec (Spec.v),
   M = extracted Coq model (Model.v) on the encoded bytes.  Printers must agree with harness/c18.go. *)
open Model
open Util

let zz = z_of_zarith
let zint (x : z) : int = iz x

(* ---------- rendering ---------- *)
let c_pinfo (p : pinfo) : string =
  c_rec [ "num", zs p.pi_num; "type", zs p.pi_type; "tstr", c_str p.pi_tstr;
          "meta", c_bool p.pi_meta; "leaf", c_bool p.pi_leaf; "root", c_bool p.pi_root; "deleted", c_bool p.pi_deleted;
          "flags", zs p.pi_flags; "names", c_list (List.sort compare (List.map c_str p.pi_names));
          "level", zs p.pi_level; "prev", zs p.pi_prev; "next", zs p.pi_next; "right", zs p.pi_right;
          "items", zs p.pi_items; "free", zs p.pi_free; "lsn", zs p.pi_lsn; "lsnstr", c_str p.pi_lsnstr ]
let c_bt (m : btmeta) =
  "bt" ^ c_rec [ "magic", zs m.bm_magic; "version", zs m.bm_version; "root", zs m.bm_root; "level", zs m.bm_level;
                 "fastroot", zs m.bm_fastroot; "fastlevel", zs m.bm_fastlevel ]
let c_hash (m : hashmeta) =
  "hash" ^ c_rec [ "magic", zs m.hm_magic; "version", zs m.hm_version; "nbuckets", zs m.hm_nbuckets;
                   "maxbucket", zs m.hm_maxbucket; "highmask", zs m.hm_highmask; "lowmask", zs m.hm_lowmask;
                   "ffactor", zs m.hm_ffactor; "ntuples", zs m.hm_ntuples_bits ]
let c_gin (m : ginmeta) =
  "gin" ^ c_rec [ "version", zs m.gm_version; "head", zs m.gm_head; "tail", zs m.gm_tail; "tailfree", zs m.gm_tailfree;
                  "npendpages", zs m.gm_npendpages; "npendtuples", zs m.gm_npendtuples; "ntotal", zs m.gm_ntotal;
                  "nentry", zs m.gm_nentry; "ndata", zs m.gm_ndata; "nentries", zs m.gm_nentries ]
let c_meta = function MNone -> "none" | MBT m -> c_bt m | MHash m -> c_hash m | MGin m -> c_gin m
let c_opt f = function None -> "none" | Some x -> f x
let c_iinfo (i : iinfo) : string =
  c_rec [ "type", zs i.ii_type; "tstr", c_str i.ii_tstr; "total", zs i.ii_total; "meta", c_meta i.ii_meta;
          "levels", zs i.ii_levels; "root", zs i.ii_root; "pages", c_list (List.map c_pinfo i.ii_pages) ]
let c_file_opt = function None -> "err:too_small" | Some i -> c_iinfo i

(* ---------- field generators ---------- *)
(* unsigned k-bit field: half the time all bytes distinct and non-zero, else boundary-biased *)
let fld0 r k : z = if rbool r then zz (rdistinct r k) else zz (ru r k)
(* a stored field: mostly all-distinct-byte / random values, but also the boundary values 0, 1 and 2^k-1 (a field that is 0
   while its neighbours are not is what a "skip when zero" shortcut needs to show; seeded change C18-3) *)
let fld r k : z =
  match rint r 8 with
  | 0 -> zi 0
  | 1 -> if rbool r then zi 1 else zz (ZA.sub (ZA.shift_left ZA.one k) ZA.one)
  | _ -> fld0 r k
let ams = [| BTree; Hash; GiST; GIN; SPGiST; BRIN |]
let am_str = function BTree -> "btree" | Hash -> "hash" | GiST -> "gist" | GIN -> "gin" | SPGiST -> "spgist" | BRIN -> "brin"

(* flag word: every subset of the low 9 bits equally likely; upper bits sometimes random *)
let gen_flags r : int =
  let low = rint r 512 in
  match rint r 6 with 0 -> low lor (rint r 128 lsl 9) | 1 -> 0xFFFF land (lnot (rint r 512)) | _ -> low
let with_bit (f : int) (b : int) (on : bool option) : int =
  match on with None -> f | Some true -> f lor (1 lsl b) | Some false -> f land (lnot (1 lsl b))

let cycle_ids = [| 0; 0; 0; 1; 0xFF00; 0xFF01; 0xFF7E; 0xFF7F; 0xF091; 0xF092; 0xF093; 0x8000; 0x0102 |]
let gen_opaque r (a : am) ~(meta : bool option) : opaque * string =
  let f = gen_flags r in
  match a with
  | BTree ->
    let cyc = if rint r 3 = 0 then rint r 0xFF80 else pick r cycle_ids in
    OpBT (fld r 32, fld r 32, fld r 32, zi (with_bit f 3 meta), zi cyc),
    (if cyc = 0 then "cyc0" else if cyc >= 0xFF00 then "cycHi" else if cyc >= 0xF091 && cyc <= 0xF093 then "cycBrinLike" else "cycMid")
  | Hash -> OpHash (fld r 32, fld r 32, fld r 32, zi (with_bit f 3 meta)), (if f land 2 <> 0 then "bucket" else "nobucket")
  | GiST -> OpGiST (fld r 32, fld r 32, fld r 32, zi f), "any"
  | GIN -> OpGIN (fld r 32, (if rbool r then zi (rint r 401) else fld r 16), zi (with_bit f 3 meta)), "any"
  | SPGiST -> OpSPG (zi (with_bit f 0 meta), fld r 16, fld r 16), "any"
  | BRIN ->
    let t = match meta with Some true -> 0xF091 | Some false -> 0xF092 + rint r 2 | None -> 0xF091 + rint r 3 in
    OpBRIN (fld r 16, fld r 16, zi f, zi t), Printf.sprintf "t%x" t

let opq_size (a : am) = match a with BTree | Hash | GiST -> 16 | _ -> 8

let gen_btmeta r : bt_metadata =
  { btm_magic = zi 0x053162; btm_version = (if rbool r then zi (2 + rint r 3) else fld r 32); btm_root = fld r 32;
    btm_level = fld r 32; btm_fastroot = fld r 32; btm_fastlevel = fld r 32 }
let gen_hashmeta r : hash_metadata =
  { hashm_magic = (if rbool r then zi 0x6440640 else fld r 32); hashm_version = (if rbool r then zi 4 else fld r 32);
    hashm_ntuples = fld r 64; hashm_ffactor = fld r 16; hashm_bsize = fld r 16; hashm_bmsize = fld r 16;
    hashm_bmshift = fld r 16;
    hashm_maxbucket = (match rint r 6 with 0 -> zz (ZA.of_string "4294967295") | 1 -> zi 0 | _ -> fld r 32);
    hashm_highmask = fld r 32; hashm_lowmask = fld r 32 }
let gen_ginmeta r : gin_metadata =
  { ginm_head = fld r 32; ginm_tail = fld r 32; ginm_tailfree = fld r 32; ginm_npendpages = fld r 32;
    ginm_npendtuples = fld r 64; ginm_ntotal = fld r 32; ginm_nentry = fld r 32; ginm_ndata = fld r 32;
    ginm_pad = fld r 32; ginm_nentries = fld r 64; ginm_version = (if rbool r then zi 2 else fld r 32) }

(* [meta]: Some b forces the method's "this is the metapage" mark; None leaves it random (GiST has none) *)
let gen_page ?op r (a : am) ~(meta : bool option) : ipage * string =
  let op, otag = match op with Some o -> o, "fixed" | None -> gen_opaque r a ~meta in
  let special = 8192 - opq_size a in
  let is_meta = (match op with
      | OpBT (_, _, _, f, _) | OpHash (_, _, _, f) | OpGIN (_, _, f) -> zint f land 8 <> 0
      | _ -> false) in
  let body =
    let fill n = rbytes r n in
    if is_meta then (match a with
        | BTree -> BBTMeta (gen_btmeta r, fill (special - 24 - 24))
        | Hash -> BHashMeta (gen_hashmeta r, fill (special - 24 - 36))
        | GIN -> BGinMeta (gen_ginmeta r, fill (special - 24 - 52))
        | _ -> BRaw (fill (special - 24)))
    else BRaw (fill (special - 24)) in
  let lower, ltag = match rint r 8 with
    | 0 -> 24, "items0"
    | 1 -> 24 + 4 * 400, "items400"
    | 2 -> pick r [| 25; 26; 27; 29; 80; 8191; 65535 |], "lowerOdd"
    | _ -> 24 + 4 * rint r 401, "items" in
  let upper = match rint r 8 with
    | 0 -> lower | 1 -> special | 2 -> rint r 65536 | _ -> if lower <= special then rrange r lower special else rint r 65536 in
  ({ ip_xlogid = fld r 32; ip_xrecoff = fld r 32; ip_checksum = fld r 16; ip_hflags = (if rbool r then zi (rint r 8) else fld r 16);
     ip_lower = zi lower; ip_upper = zi upper; ip_psv = (if rbool r then zi 0x2004 else fld r 16); ip_prune = fld r 32;
     ip_body = body; ip_op = op }, otag ^ "_" ^ ltag)

let check_page p = if not (wf_page_b p) then failwith "generator produced an ill-formed page"

(* a file of n pages of method a; the first page is the metapage (root for GiST) unless [first_meta]=false *)
let gen_file r (a : am) (n : int) ~(first_meta : bool) : ifile =
  let first, _ = gen_page r a ~meta:(Some (first_meta || a = GIN)) in
  let rest = List.init (n - 1) (fun _ -> fst (gen_page r a ~meta:(if rint r 10 = 0 then None else Some false))) in
  let junk = match rint r 6 with 0 -> rbytes r (1 + rint r 8191) | 1 -> rbytes r 8191 | _ -> [] in
  let f = { f_pages = first :: rest; f_junk = junk } in
  if not (wf_file_b f) then failwith "generator produced an ill-formed file";
  f

let gen_tail r = match rint r 5 with 0 -> rbytes r (1 + rint r 40) | 1 -> rbytes r 8192 | _ -> []

(* ---------- emitters ---------- *)
let run_file ~tag ~s v t =
  emit ~fn:"ParseIndexFile" ~tag ~s ~m:(c_res c_file_opt (parseIndexFile { vis = v; tail = t })) [ hexf v; hexf t ]
let run_detect ~tag ~s v t =
  emit ~fn:"detectIndexType" ~tag ~s ~m:(c_res zs (detectIndexType { vis = v; tail = t })) [ hexf v; hexf t ]
let run_page ~tag ~s v t (num : z) (ty : z) =
  emit ~fn:"parseIndexPage" ~tag ~s ~m:(c_res c_pinfo (parseIndexPage { vis = v; tail = t } num ty)) [ hexf v; hexf t; zs num; zs ty ]
let run_btmeta ~tag ~s v t = emit ~fn:"parseBTreeMeta" ~tag ~s ~m:(c_res (c_opt c_bt) (parseBTreeMeta { vis = v; tail = t })) [ hexf v; hexf t ]
let run_hashmeta ~tag ~s v t = emit ~fn:"parseHashMeta" ~tag ~s ~m:(c_res (c_opt c_hash) (parseHashMeta { vis = v; tail = t })) [ hexf v; hexf t ]
let run_ginmeta ~tag ~s v t = emit ~fn:"parseGINMeta" ~tag ~s ~m:(c_res (c_opt c_gin) (parseGINMeta { vis = v; tail = t })) [ hexf v; hexf t ]

let empty_info : pinfo =
  { pi_num = zi 0; pi_type = zi 0; pi_tstr = []; pi_meta = false; pi_leaf = false; pi_root = false; pi_deleted = false;
    pi_flags = zi 0; pi_names = []; pi_level = zi 0; pi_prev = zi 0; pi_next = zi 0; pi_right = zi 0;
    pi_items = zi 0; pi_free = zi 0; pi_lsn = zi 0; pi_lsnstr = [] }
let special_parser (a : am) = match a with
  | BTree -> parseBTreePageSpecial | Hash -> parseHashPageSpecial | GiST -> parseGiSTPageSpecial
  | GIN -> parseGINPageSpecial | SPGiST -> parseSPGiSTPageSpecial | BRIN -> parseBRINPageSpecial
(* what the special-space parser alone must report for opaque [op]: the page-level expectation with the
   header-derived fields blanked (item count stays as the parser leaves it: GIN sets it from maxoff) *)
let expected_special (op : opaque) : string =
  let p = { ip_xlogid = zi 0; ip_xrecoff = zi 0; ip_checksum = zi 0; ip_hflags = zi 0; ip_lower = zi 24; ip_upper = zi 24;
            ip_psv = zi 0; ip_prune = zi 0; ip_body = BRaw []; ip_op = op } in
  let e = expected_page (zi 0) p in
  c_pinfo { e with pi_type = zi 0; pi_tstr = []; pi_lsnstr = [] }
let run_special ~tag ~s (a : am) v t =
  emit ~fn:"parseSpecial" ~tag ~s ~m:(c_res c_pinfo ((special_parser a) empty_info { vis = v; tail = t })) [ am_str a; hexf v; hexf t ]

(* ---------- byte patching for the malformed stream ---------- *)
let patch (bs : byte list) (off : int) (vals : int list) : byte list =
  let a = Array.of_list bs in
  List.iteri (fun i v -> if off + i >= 0 && off + i < Array.length a then a.(off + i) <- byte_of_int v) vals;
  Array.to_list a
let le16 v = [ v land 255; (v lsr 8) land 255 ]
let le32 v = [ v land 255; (v lsr 8) land 255; (v lsr 16) land 255; (v lsr 24) land 255 ]
let take n l = List.filteri (fun i _ -> i < n) l

let specials = [| 0; 1; 23; 24; 4096; 8175; 8176; 8177; 8178; 8179; 8180; 8181; 8183; 8184; 8185; 8186; 8187; 8189; 8190; 8191; 8192; 8193; 65535 |]
let trailers = [| 0xFF80; 0xFF81; 0xFF82; 0xFF83; 0xF090; 0xF091; 0xF092; 0xF093; 0xF094; 0xFF7F; 0xFF00; 0xFF01; 0; 8; 1; 16; 2; 0xFFFF |]

(* ---------- deterministic corpus: finite domains, enumerated completely ---------- *)
let corpus () =
  (* IndexType.String on every value around the enum *)
  for t = -2 to 9 do
    let s = if t >= 1 && t <= 6 then c_str (am_name ams.(t - 1)) else c_str (bytes_of_string "unknown") in
    emit ~fn:"IndexTypeString" ~tag:"enum" ~s ~m:(c_str (indexType_String (zi t))) [ string_of_int t ]
  done;
  (* each special-space parser on every combination of the low 9 flag bits (all named bits + 3 unnamed) *)
  let r = rng_for 18 0 in
  Array.iter (fun a ->
      for f = 0 to 511 do
        let op = match a with
          | BTree -> OpBT (fld r 32, fld r 32, fld r 32, zi f, zi (pick r cycle_ids))
          | Hash -> OpHash (fld r 32, fld r 32, fld r 32, zi f)
          | GiST -> OpGiST (fld r 32, fld r 32, fld r 32, zi f)
          | GIN -> OpGIN (fld r 32, fld r 16, zi f)
          | SPGiST -> OpSPG (zi f, fld r 16, fld r 16)
          | BRIN -> OpBRIN (fld r 16, fld r 16, zi f, zi (0xF091 + (f mod 3))) in
        run_special ~tag:("flags9_" ^ am_str a) ~s:(expected_special op) a (enc_opaque op) (if f mod 5 = 0 then rbytes r 7 else [])
      done) ams;
  (* classification at every boundary of the trailer word: each listed B-tree cycle id on a metapage and on
     an ordinary page, the three BRIN page types, GIN metapages whose flag word is next to an identifier word *)
  let detect_fixed tag a op =
    let p, _ = gen_page ~op r a ~meta:None in
    check_page p;
    if not (first_ok_b p) then failwith "corpus: first page not first_ok";
    run_detect ~tag ~s:(zs (am_code a)) (enc_page p) (if rbool r then rbytes r 9 else []) in
  Array.iter (fun cyc ->
      List.iter (fun f -> detect_fixed "corpus_detect_btree" BTree (OpBT (fld r 32, fld r 32, fld r 32, zi f, zi cyc))) [ 8; 3; 0xFFFF; 0xFFF7 ])
    [| 0; 1; 0xFF00; 0xFF01; 0xFF7E; 0xFF7F; 0xF090; 0xF091; 0xF092; 0xF093; 0xF094; 0x7FFF; 0x8000 |];
  List.iter (fun t -> List.iter (fun f -> detect_fixed "corpus_detect_brin" BRIN (OpBRIN (fld r 16, fld r 16, zi f, zi t))) [ 0; 1; 0xFFFF ])
    [ 0xF091; 0xF092; 0xF093 ];
  List.iter (fun f -> detect_fixed "corpus_detect_gin" GIN (OpGIN (fld r 32, fld r 16, zi f)))
    [ 8; 9; 0x18; 0xFFFF; 0xFF88; 0xFF89; 0xFF8A; 0xF099; 0xF09A; 0xF09B; 0x0808 ];
  List.iter (fun f ->
      detect_fixed "corpus_detect_hash" Hash (OpHash (fld r 32, fld r 32, fld r 32, zi f));
      detect_fixed "corpus_detect_gist" GiST (OpGiST (fld r 32, fld r 32, fld r 32, zi f));
      detect_fixed "corpus_detect_spgist" SPGiST (OpSPG (zi f, fld r 16, fld r 16))) [ 0; 1; 2; 8; 0xFFFF; 0xF091; 0xFF80 ]

(* detectIndexType on first pages whose trailer words run through every combination of the low flag bits (no expectation
   from the specification: a GIN file starts with its metapage, a pending-list or data page in front is outside first_ok;
   model vs implementation only): an 8-byte special space with the word at +6 (GIN flags / BRIN type) or at +0 (SP-GiST
   flags) = f, and a 16-byte special space with the word at +12 (B-tree / hash / GiST flags) = f, for all f in 0..511 and the
   single bits above (seeded change C18-13: GIN_LIST replaced by GIN_LIST_FULLROW in the detection mask) *)
let detect_flag_sweep seed =
  let le16b v = [ byte_of_int (v land 255); byte_of_int ((v lsr 8) land 255) ] in
  let r = rng_for seed 777777 in
  let fs = List.init 512 (fun f -> f) @ [ 0x200; 0x400; 0x800; 0x1000; 0x2000; 0x4000; 0x8000; 0xFFFF; 0xFF80; 0xF091; 0xF092; 0xF093 ] in
  let page special fill =
    let lower = 24 + 4 * rint r 5 in
    let hdr = rbytes r 12 @ le16b lower @ le16b (lower + rint r 100) @ le16b special @ le16b (8192 lor 4) @ rbytes r 4 in
    let body = List.init (special - 24) (fun _ -> byte_of_int 0) in
    hdr @ body @ fill in
  List.iter (fun f ->
      let w = le16b f in
      let o6 = rbytes r 6 in
      run_detect ~tag:"detect_flagsweep_sp8_at6" ~s:"-" (page 8184 (o6 @ w)) [];
      run_detect ~tag:"detect_flagsweep_sp8_at0" ~s:"-" (page 8184 (w @ rbytes r 6)) [];
      let o12 = rbytes r 12 in
      run_detect ~tag:"detect_flagsweep_sp16_at12" ~s:"-" (page 8176 (o12 @ w @ le16b (pick r [| 0; 1; 0xFF80; 0xFF81; 0xFF82; 0xFF7F |]))) []) fs

(* ---------- random cases ---------- *)
let gen_case r k =
  let a = ams.(rint r 6) in
  match k mod 20 with
  | 0 | 1 | 2 | 3 | 4 | 5 ->
    (* whole files; sizes: mostly 1..6 pages, sometimes 7..40, a few at 200 *)
    (* the extracted model recomputes cap (a list length over the rest of the file) at every slice
       expression, so its cost grows with pages^2: 200-page files only in the thorough tier *)
    let n = if k = 5000 then 200 else if k mod 1000 = 0 then 24
      else match rint r 20 with 0 | 1 -> 1 | 2 | 3 -> 2 | 4 -> 7 + rint r 10 | _ -> 1 + rint r 6 in
    let first_meta = rint r 8 <> 0 in
    let f = gen_file r a n ~first_meta in
    let tag = Printf.sprintf "file_%s_%s%s" (am_str a) (if n = 1 then "n1" else if n <= 6 then "n2to6" else if n <= 16 then "n7to16" else if n <= 40 then "n24" else "n200")
        (if first_meta then "" else "_nometa") in
    run_file ~tag ~s:(c_iinfo (expected_file f)) (enc_file f) (gen_tail r)
  | 6 | 7 | 8 ->
    (* one page through parseIndexPage with its own method, any block number *)
    let p, ptag = gen_page r a ~meta:None in
    check_page p;
    let num = match rint r 4 with 0 -> zi 0 | 1 -> zz (ZA.of_string "4294967295") | _ -> fld r 32 in
    run_page ~tag:("page_" ^ am_str a ^ "_" ^ ptag) ~s:(c_pinfo (expected_page num p)) (enc_page p) (gen_tail r) num (am_code a)
  | 9 | 10 ->
    (* classification of a first page *)
    let p, ptag = gen_page r a ~meta:(if a = GIN then Some true else if rint r 4 = 0 then None else Some true) in
    check_page p;
    if not (first_ok_b p) then failwith "first page not first_ok";
    run_detect ~tag:("detect_" ^ am_str a ^ "_" ^ ptag) ~s:(zs (am_code a)) (enc_page p) (gen_tail r)
  | 11 | 12 ->
    (* metapage parsers on pages of their own method: metapage -> fields, other page -> none *)
    let a = [| BTree; Hash; GIN |].(rint r 3) in
    let meta = rint r 4 <> 0 in
    let p, _ = gen_page r a ~meta:(Some meta) in
    check_page p;
    let tag = Printf.sprintf "meta_%s_%s" (am_str a) (if meta then "present" else "absent") in
    let v = enc_page p and t = gen_tail r in
    (match a, expected_meta p with
     | BTree, MBT m -> run_btmeta ~tag ~s:(c_bt m) v t
     | BTree, _ -> run_btmeta ~tag ~s:"none" v t
     | Hash, MHash m -> run_hashmeta ~tag ~s:(c_hash m) v t
     | Hash, _ -> run_hashmeta ~tag ~s:"none" v t
     | _, MGin m -> run_ginmeta ~tag ~s:(c_gin m) v t
     | _, _ -> run_ginmeta ~tag ~s:"none" v t)
  | 13 ->
    (* special-space parsers directly, random upper flag bits *)
    let op, _ = gen_opaque r a ~meta:None in
    run_special ~tag:("special_" ^ am_str a) ~s:(expected_special op) a (enc_opaque op) (gen_tail r)
  | 14 ->
    (* malformed: pd_special and trailer word at their boundaries, every function *)
    let p, _ = gen_page r a ~meta:None in
    let sp = pick r specials and tr = pick r trailers in
    let v = patch (enc_page p) 16 (le16 sp) in
    let v = if rbool r then patch v 8190 (le16 tr) else v in
    let v = if sp < 8192 && sp + 14 <= 8192 && rint r 3 = 0 then patch v (sp + 12) (le16 (pick r [| 8; 0; 0xFFFF |])) else v in
    let t = gen_tail r in
    let tag = Printf.sprintf "mal_special_%s" (if sp = 0 then "0" else if sp < 8176 then "lt8176" else if sp = 8176 then "8176" else if sp < 8184 then "8177to8183"
                                               else if sp = 8184 then "8184" else if sp < 8192 then "8185to8191" else "ge8192") in
    (match rint r 6 with
     | 0 -> run_detect ~tag ~s:"-" v t
     | 1 -> run_page ~tag ~s:"-" v t (fld r 32) (zi (rint r 8))
     | 2 -> run_btmeta ~tag ~s:"-" v t
     | 3 -> run_hashmeta ~tag ~s:"-" v t
     | 4 -> run_ginmeta ~tag ~s:"-" v t
     | _ ->
       (* as first or last page of a short file: the last page has cap = len unless a tail follows *)
       let q, _ = gen_page r a ~meta:None in
       let v2 = if rbool r then v @ enc_page q else if rbool r then enc_page q @ v else v in
       run_file ~tag:(tag ^ "_file") ~s:"-" v2 t)
  | 15 ->
    (* malformed: truncated inputs *)
    let p, _ = gen_page r a ~meta:None in
    let q, _ = gen_page r a ~meta:None in
    let n = pick r [| 0; 1; 17; 18; 24; 8190; 8191; 8193; 16383 |] in
    let v = take n (enc_page p @ enc_page q) in
    let t = if rbool r then rbytes r 8192 else [] in
    (match rint r 6 with
     | 0 -> run_detect ~tag:"short" ~s:"-" v t
     | 1 -> run_page ~tag:"short" ~s:"-" v t (zi 3) (am_code a)
     | 2 -> run_btmeta ~tag:"short" ~s:"-" v t
     | 3 -> run_hashmeta ~tag:"short" ~s:"-" v t
     | 4 -> run_ginmeta ~tag:"short" ~s:"-" v t
     | _ -> run_file ~tag:(if n < 8192 then "short" else "mal_partial_page") ~s:"-" v t)
  | 16 ->
    (* classification boundaries outside the well-formed set: model vs implementation *)
    (match rint r 5 with
     | 0 -> (* B-tree metapage with a damaged magic *)
       let p, _ = gen_page r BTree ~meta:(Some true) in
       let v = patch (enc_page p) 24 (le32 (pick r [| 0x053163; 0x053062; 0; 0x62310500; 0x053162 lxor (1 lsl rint r 32) |])) in
       if rbool r then run_detect ~tag:"mal_btmagic" ~s:"-" v [] else if rbool r then run_btmeta ~tag:"mal_btmagic" ~s:"-" v [] else run_file ~tag:"mal_btmagic" ~s:"-" v []
     | 1 -> (* B-tree page whose cycle id is just above the limit / equals an identifier word *)
       let p, _ = gen_page r BTree ~meta:(Some (rbool r)) in
       let v = patch (enc_page p) 8190 (le16 (pick r [| 0xFF80; 0xFF83; 0xFFFF; 0xFF7F; 0xFF00; 0xFF01 |])) in
       run_detect ~tag:"mal_cycle" ~s:"-" v []
     | 2 -> (* GIN first page without META: DATA / LIST / LEAF / nothing *)
       let p, _ = gen_page r GIN ~meta:(Some false) in
       let f = pick r [| 0; 1; 2; 4; 16; 32; 64; 128; 17; 0xFF80; 0xFF82; 0xF091; 0xF093 |] in
       let v = patch (enc_page p) 8190 (le16 f) in
       if rbool r then run_detect ~tag:"mal_gin_nometa" ~s:"-" v [] else run_file ~tag:"mal_gin_nometa" ~s:"-" v []
     | 3 -> (* BRIN page type just outside the range, or a BRIN trailer behind a 16-byte special space *)
       let p, _ = gen_page r BRIN ~meta:None in
       let v = enc_page p in
       let v = if rbool r then patch v 8190 (le16 (pick r [| 0xF090; 0xF094; 0xF091; 0xF093 |])) else patch v 16 (le16 (pick r [| 8176; 8183; 8185; 8186 |])) in
       run_detect ~tag:"mal_brin" ~s:"-" v []
     | _ -> (* pages of another method behind the first page; parseIndexPage with a foreign/unknown type *)
       let p, _ = gen_page r a ~meta:(Some true) in
       let b = ams.(rint r 6) in
       let q, _ = gen_page r b ~meta:None in
       if rbool r then run_file ~tag:"mal_mixed" ~s:"-" (enc_page p @ enc_page q) (gen_tail r)
       else run_page ~tag:"mal_foreign_type" ~s:"-" (enc_page q) (gen_tail r) (fld r 32) (zi (rint r 9 - 1)))
  | 17 ->
    (* special-space parsers on short / long slices around their guards *)
    let op, _ = gen_opaque r a ~meta:None in
    let n = pick r [| 0; 1; 2; 5; 6; 7; 8; 11; 12; 13; 14; 15; 16; 17; 40 |] in
    let v = take n (enc_opaque op @ rbytes r 40) in
    run_special ~tag:(Printf.sprintf "mal_special_len_%s" (am_str a)) ~s:"-" a v (if rbool r then rbytes r 16 else [])
  | 18 ->
    (* arbitrary bytes *)
    let n = pick r [| 8192; 8192; 16384; 8200; 100 |] in
    let v = rbytes r n in
    let v = if n >= 8192 && rbool r then patch v 16 (le16 (pick r specials)) else v in
    let v = if n >= 8192 && rbool r then patch v 8190 (le16 (pick r trailers)) else v in
    (match rint r 4 with
     | 0 -> run_detect ~tag:"random" ~s:"-" v (gen_tail r)
     | 1 -> run_page ~tag:"random" ~s:"-" v (gen_tail r) (fld r 32) (zi (rint r 8))
     | 2 -> run_file ~tag:"random" ~s:"-" v (gen_tail r)
     | _ -> (match rint r 3 with 0 -> run_btmeta ~tag:"random" ~s:"-" v [] | 1 -> run_hashmeta ~tag:"random" ~s:"-" v [] | _ -> run_ginmeta ~tag:"random" ~s:"-" v []))
  | _ ->
    (* hash file whose LAST page has a 12..15-byte special space (flags at 12..14 would lie beyond len) *)
    let f = gen_file r Hash (1 + rint r 3) ~first_meta:true in
    let v = enc_pages f.f_pages in
    let base = 8192 * (List.length f.f_pages - 1) in
    let v = patch v (base + 16) (le16 (pick r [| 8177; 8178; 8179; 8180; 8176 |])) in
    run_file ~tag:"mal_hash_short_special" ~s:"-" v (if rbool r then rbytes r 20 else [])

let gen seed n =
  corpus ();
  detect_flag_sweep seed;
  for k = 0 to n - 1 do gen_case (rng_for seed k) k done
let () = main gen
