(* C13 driver: SQL / CSV / JSON export functions of pgdump/sql.go and csv.go.
   Text functions:     S = "-", M = hex of the extracted model's text.
   Semantic functions: S = expectation from the abstract value (extracted spec), M = extracted spec
                       reader applied to the extracted model's text.
   *Check functions:   S = M = extracted Coq reader on a hostile text (ties the Go ports of the readers).
   Printers in c13lib.ml must agree with harness/c13*.go. *)
open Model
open Util
open C13lib

let text ~fn ~tag (m : byte list) args = emit ~fn ~tag ~s:"-" ~m:(hexf m) args

(* ================================================================ per-function case emitters *)
let ident_case ~tag (name : string) =
  let nb = bos name in
  let q = quoteIdent nb in
  text ~fn:"QuoteIdent" ~tag q [ hexf nb ];
  emit ~fn:"QuoteIdent.lex" ~tag ~s:(if name = "" then "-" else c_toklist [ TIdent nb ]) ~m:(c_toks (lex_all q)) [ hexf nb ]
let safeident_case ~tag (name : string) =
  let nb = bos name in
  emit ~fn:"IsSafeIdent" ~tag ~s:"-" ~m:(if isSafeIdent nb then "T" else "F") [ hexf nb ]
let reserved_case ~tag (name : string) =
  if is_ascii name then begin
    let nb = bos name in
    emit ~fn:"IsReservedWord" ~tag ~s:"-" ~m:(if isReservedWord nb then "T" else "F") [ hexf nb ]
  end
let literal_case ~tag (s : string) =
  let sb = bos s in
  let q = quoteLiteral sb in
  text ~fn:"QuoteLiteral" ~tag q [ hexf sb ];
  emit ~fn:"QuoteLiteral.lex" ~tag ~s:(c_toklist [ TString sb ]) ~m:(c_toks (lex_all q)) [ hexf sb ]
let comment_case ~tag (s : string) =
  let sb = bos s in
  text ~fn:"CommentSafe" ~tag (commentSafe sb) [ hexf sb ]
let pgtype_case ~tag (ty : string) (id : int) =
  text ~fn:"PgTypeToSQL" ~tag (pgTypeToSQL (bos ty) (zi id)) [ hexf (bos ty); string_of_int id ]

let sqlvalue_case ~tag (v : gval) =
  let a = [ Value.c_gval v ] in
  text ~fn:"FormatSQLValue" ~tag (x_formatSQLValue v) a;
  emit ~fn:"FormatSQLValue.lex" ~tag ~s:(c_toklist (x_value_tokens v)) ~m:(c_toks ~us:true (lex_all (s_formatSQLValue v))) a
let json_case ~tag (m : (byte list * gval) list) =
  let a = [ Value.c_gval (VMap m) ] in
  text ~fn:"MapToJSON" ~tag (x_mapToJSON m) a;
  emit ~fn:"MapToJSON.read" ~tag ~s:(c_json ~us:false (x_map_json m)) ~m:(c_jsonopt ~us:true (json_read (s_mapToJSON m))) a
let csvvalue_case ~tag (v : gval) =
  text ~fn:"FormatCSVValue" ~tag (x_formatCSVValue v) [ Value.c_gval v ]

(* PostgreSQL has no zero-length names ("" is a lexical error there too): no expectation for such dumps *)
let table_named (t : table) = t.t_name <> [] && List.for_all (fun c -> c.c_name <> []) t.t_cols
let db_named (d : database) = List.for_all table_named d.d_tables
let table_sql_case ~tag (t : table) =
  let a = table_args t in
  text ~fn:"TableToSQL" ~tag (x_TableToSQL t) a;
  emit ~fn:"TableToSQL.lex" ~tag ~s:(if table_named t then c_toklist (x_table_tokens t) else "-") ~m:(c_toks ~us:true (lex_all (s_tableToSQL t))) a
(* Go's encoding/csv Reader turns every CR LF inside a quoted field into LF (one pass, left to right):
   its records are compared modulo exactly that rewriting of the expected field texts *)
let crlf_norm (s : string) : string =
  let n = String.length s in
  let b = Buffer.create n in
  let i = ref 0 in
  while !i < n do
    if s.[!i] = '\r' && !i + 1 < n && s.[!i + 1] = '\n' then (Buffer.add_char b '\n'; i := !i + 2)
    else (Buffer.add_char b s.[!i]; incr i)
  done;
  Buffer.contents b
let norm_recs (l : byte list list list) = List.map (List.map (fun f -> bos (crlf_norm (sob f)))) l
let norm_opt = function None -> None | Some l -> Some (norm_recs l)
let table_records (t : table) = match t.t_cols with [] -> [] | _ -> x_csv_records t
let table_csv_case ~tag (t : table) =
  let a = table_args t in
  let out = x_TableToCSV t in
  text ~fn:"TableToCSV" ~tag out a;
  emit ~fn:"TableToCSV.read" ~tag
    ~s:(c_records (table_records t))
    ~m:(c_csvopt (csv_read out)) a;
  (* second oracle: Go's own csv.Reader (skips empty lines) on Go's real output; M = the Coq reader
     that skips empty lines (csv_read_skip) on the model's text *)
  emit ~fn:"TableToCSV.goread" ~tag
    ~s:(c_records (norm_recs (table_records t)))
    ~m:(c_csvopt (norm_opt (csv_read_skip out))) a
(* the whole database export read by Go's csv.Reader with Comment = '#': the section header lines and
   the separator lines vanish, what remains is the tables' records one after the other.  Not emitted
   when a record's first field starts with '#' (such a line is a comment for that reader). *)
let hash_first (recs : byte list list list) =
  List.exists (fun r -> match r with (c :: _) :: _ -> c = List.hd (bos "#") | _ -> false) recs
let db_case ~tag (d : database) =
  let a = db_args d in
  text ~fn:"DatabaseToSQL" ~tag (x_DatabaseToSQL d) a;
  emit ~fn:"DatabaseToSQL.lex" ~tag ~s:(if db_named d then c_toklist (x_database_tokens d) else "-") ~m:(c_toks ~us:true (lex_all (s_databaseToSQL d))) a;
  let out = x_DatabaseToCSV d in
  text ~fn:"DatabaseToCSV" ~tag out a;
  emit ~fn:"DatabaseToCSV.sections" ~tag
    ~s:(c_headers (List.map (fun t -> sob (x_csv_section_header d.d_name t.t_name)) d.d_tables))
    ~m:(sections (sob out) (List.map (fun t -> sob (x_TableToCSV t)) d.d_tables)) a
  ;
  let recs = List.concat_map table_records d.d_tables in
  if not (hash_first recs) then
    emit ~fn:"DatabaseToCSV.goread" ~tag ~s:(c_records (norm_recs recs)) ~m:(c_records (norm_recs recs)) a
let now_t = bos "T"
let dump_case ~tag (dbs : database list) =
  let a = dump_args dbs in
  text ~fn:"DumpToSQL" ~tag (x_DumpToSQL now_t dbs) a;
  emit ~fn:"DumpToSQL.lex" ~tag ~s:(if List.for_all db_named dbs then c_toklist (x_dump_tokens now_t dbs) else "-") ~m:(c_toks ~us:true (lex_all (s_dumpToSQL now_t dbs))) a;
  text ~fn:"DumpToCSV" ~tag (x_DumpToCSV dbs) a;
  text ~fn:"WriteCSVFile" ~tag (x_DumpToCSV dbs) a

let lexcheck ~tag (t : string) = let r = c_toks (lex_all (bos t)) in emit ~fn:"LexCheck" ~tag ~s:r ~m:r [ hexf (bos t) ]
let csvcheck ~tag (t : string) = let r = c_csvopt (csv_read (bos t)) in emit ~fn:"CsvCheck" ~tag ~s:r ~m:r [ hexf (bos t) ]
let jsoncheck ~tag (t : string) = let r = c_jsonopt (json_read (bos t)) in emit ~fn:"JsonCheck" ~tag ~s:r ~m:r [ hexf (bos t) ]
let floattext ~tag kind (bits : ZA.t) =
  emit ~fn:"FloatText" ~tag ~s:"OK" ~m:"OK" [ string_of_int kind; pad (kind / 4) (ZA.format "%x" bits) ]

(* ================================================================ hostile texts for the reader checks *)
let mutate r (s : string) : string =
  let n = String.length s in
  if n = 0 then s else
    let p = rint r n in
    let ins = pick r [| "'"; "\""; "$"; "\\"; "-"; "\n"; " "; ","; "\r"; "e"; "."; "1"; "$str$"; "--"; "]"; "}"; ":"; "\000"; "\x7f"; "a"; "\""; "'" |] in
    match rint r 4 with
    | 0 -> String.sub s 0 p ^ String.sub s (p + 1) (n - p - 1)
    | 1 -> String.sub s 0 p ^ ins ^ String.sub s p (n - p)
    | 2 -> String.sub s 0 p ^ ins ^ String.sub s (p + 1) (n - p - 1)
    | _ -> String.sub s 0 p
let rec mutate_k r k s = if k <= 0 then s else mutate_k r (k - 1) (mutate r s)

let sql_frags = [| "'"; "''"; "'a'"; "'a'\n'b'"; "'a' 'b'"; "'a'\n--c\n'b'"; "'a'\r'b'"; "'a'\t\n 'b'"; "'a'\012'b'"; "'a'-1"; "'a' -"; "'a'\n-";
                   "e'x'"; "E'\\''"; "b'1'"; "x'ff'"; "n'a'"; "$$"; "$$a$$"; "$a$"; "$1"; "$a$x$a$"; "$str$"; "$str$ab$str$"; "$str0$";
                   "$a$x$b$y$a$"; "$a b$"; "$1a$x$1a$"; "$\xc3\xa9$x$\xc3\xa9$"; "$_$x$_$"; "$a$$a$"; "$a$x$a"; "$"; "a$b"; "a$"; "$a";
                   "\""; "\"\""; "\"a\""; "\"a\"\"b\""; "\"a\"\"\""; "\"a b\""; "\"a\nb\""; "--"; "-- c\n"; "--c\rx"; "-"; "-1"; "- 1"; "--1"; "-a"; "-.5";
                   "1"; "1."; "1.5"; ".5"; "1e5"; "1e"; "1e+"; "1e+5"; "1E-5"; "1.2.3"; "1a"; "1_000"; "0x1F"; "007"; "1.e5"; "1.5e5x"; "1..2"; "12345678901234567890123";
                   "1e5.5"; "1 e5"; "1.5e+07"; "abc"; "ABC"; "select"; "SeLeCt"; "NULL"; "TRUE"; "ARRAY"; "values"; "left"; "x1"; "_x"; "\xc3\xa9t\xc3\xa9"; "a\xff";
                   ","; "("; ")"; "["; "]"; ";"; " "; "\n"; "\r"; "\t"; "\011"; "\012"; "/*"; "*/"; "/* c */"; "*"; "+"; "="; ":"; "::"; "."; "\000"; "\x7f"; "\\"; "\x1f";
                   "{"; "}"; "<"; ">"; "!"; "@"; "#"; "%"; "^"; "&"; "|"; "`"; "?"; "~"; "/" |]
let quote_ws = [| " "; "\n"; "\r"; "\t"; " \n "; "\012"; "\011"; "\n\n"; "\r\n"; " \t "; ""; "\n-"; " -"; "\n--x\n"; "\n "; " \n" |]
let gen_sql_text r : string * string =
  match rint r 10 with
  | 0 | 1 | 2 | 3 ->
    let n = 1 + rint r 8 in
    (String.concat "" (List.init n (fun _ -> pick r sql_frags ^ pick r [| ""; ""; " "; "\n"; ", " |])), "frags")
  | 4 | 5 ->
    let base = match rint r 5 with
      | 0 -> sob (quoteLiteral (bos (fst (gen_str ~nul:true r))))
      | 1 -> sob (quoteIdent (bos (fst (gen_str ~nul:true r))))
      | 2 -> sob (s_formatSQLValue (gen_val ~nb:true r 2))
      | 3 -> sob (s_tableToSQL (gen_table ~ncols:(1 + rint r 3) ~nrows:(rint r 3) r))
      | _ -> sob (quoteLiteral (bos (tag_string r ~nul:false))) in
    (mutate_k r (rint r 3) base, "mutated")
  | 6 -> (fst (gen_str ~nul:true r), "raw")
  | 7 | 8 ->
    let q () = pick r [| "'a'"; "''"; "'x''y'"; "'"; "'b"; "c'"; "'it''s'" |] in
    let n = 2 + rint r 3 in
    (String.concat "" (List.init n (fun i -> q () ^ (if i = n - 1 then pick r [| ""; " "; "\n"; ";"; ")" ; "-"; " x" |] else pick r quote_ws))), "quotecont")
  | _ ->
    let n = 1 + rint r 5 in
    (String.concat (pick r [| " "; ","; ""; "\n" |]) (List.init n (fun _ ->
         match rint r 4 with
         | 0 -> pick r [| "-"; ""; "+" |] ^ rletters r "0123456789" (1 + rint r 4) ^ pick r [| ""; "."; ".5"; "e5"; "e+5"; "e-"; "x"; ".."; "e"; ".e1"; "E10"; "_" |]
         | 1 -> pick r dollar_tags ^ fst (gen_str r) ^ pick r dollar_tags
         | 2 -> keyword_cased r
         | _ -> atom r ~nul:true)), "numdollar")

let csv_frags = [| "a"; "\""; "\"\""; ","; "\n"; "\r\n"; "\r"; "\"a\""; "\"a\"\"b\""; "\"a,b\""; "\"a\nb\""; "\"a\r\nb\""; " "; "x\"y"; "\"x\"y"; "\\.";
                   "\"\"\"\""; "\"\"\""; ",,"; "\n\n"; "\"\"\n"; "\"a\" "; " \"a\""; "b c"; "\000"; "\xc3\xa9"; "#"; "\",\""; "\"\r\""; "\r\r\n"; "\"a\"\r"; "\"a\"\r\n" |]
let gen_csv_text r : string * string =
  match rint r 6 with
  | 0 | 1 | 2 -> (String.concat "" (List.init (1 + rint r 8) (fun _ -> pick r csv_frags)), "frags")
  | 3 | 4 ->
    let recs = List.init (1 + rint r 3) (fun _ -> List.init (1 + rint r 3) (fun _ ->
        bos (if rbool r then csv_string r else fst (gen_str ~nul:true r)))) in
    let base = String.concat "" (List.map (fun rc -> sob (csv_record rc)) recs) in
    (mutate_k r (rint r 3) base, "mutated")
  | _ -> (fst (gen_str ~nul:true r) ^ (if rbool r then "\n" else ""), "raw")

let json_frags = [| "{"; "}"; "["; "]"; ","; ":"; "\""; "\"a\""; "\"\""; "\"\\u0041\""; "\"\\ud800\""; "\"\\udfff\""; "\"\\u00e9\""; "\"\\u20ac\""; "\"\\u00E9\"";
                    "\"\\u007f\""; "\"\\u0000\""; "\"\\u07ff\""; "\"\\u0800\""; "\"\\uffff\""; "\"\\ud7ff\""; "\"\\ue000\""; "\"\\u12\""; "\"\\u12g4\""; "\"\\n\""; "\"\\x\"";
                    "\"\\"; "\"\\\"\""; "\"\\\\\""; "\"\\/\""; "\"\\b\\f\\r\\t\""; "\"a\x01b\""; "\"a\x1fb\""; "\"a\x7fb\""; "\"\xc3\xa9\""; "\"\xff\""; "\"a\nb\""; "\"a\tb\"";
                    "null"; "nul"; "nulll"; "true"; "false"; "fals"; "True"; "0"; "-0"; "01"; "1.5"; "1."; ".5"; "1e5"; "1E+5"; "1e"; "-"; "+1"; "--1"; "1e+"; "1.5e-07";
                    "-1.5E10"; "1-1"; "1.2.3"; "00"; "-01"; "0.0"; "0e0"; "1e5.5"; "123456789012345678901234567890";
                    " "; "\t"; "\n"; "\r"; "\012"; "\x01"; "\x1f"; "\x7f"; "\xc3\xa9"; "\xff"; "NaN"; "Infinity"; "\"NaN\""; "\"k\":"; "\"k\":1"; "{}"; "[]"; "[1,2]"; "{\"a\":1}" |]
let rec nest r d : string =
  if d <= 0 then pick r [| ""; "1"; "[]"; "{}"; "\"x\""; "null" |]
  else if rbool r then "[" ^ nest r (d - 1) ^ "]" else "{\"a\":" ^ nest r (d - 1) ^ "}"
let gen_json_text r : string * string =
  match rint r 8 with
  | 0 | 1 | 2 -> (String.concat "" (List.init (1 + rint r 8) (fun _ -> pick r json_frags)), "frags")
  | 3 | 4 -> (mutate_k r (rint r 3) (sob (s_mapToJSON (gen_map ~nb:true r 2))), "mutated")
  | 5 -> (let t = nest r (1 + rint r 12) in if rint r 4 = 0 then mutate r t else t), "nested"
  | 6 ->
    let ws () = pick r [| ""; " "; "\n"; "\t "; "\r"; "\012" |] in
    let v () = pick r json_frags in
    (ws () ^ "{" ^ ws () ^ "\"k\"" ^ ws () ^ ":" ^ ws () ^ v () ^ ws () ^ "," ^ ws () ^ "\"\"" ^ ws () ^ ":" ^ ws () ^ "[" ^ ws () ^ v () ^ ws () ^ "," ^ v () ^ ws () ^ "]" ^ ws () ^ "}" ^ ws () ^ pick r [| ""; ""; "x"; "," |], "ws")
  | _ -> (fst (gen_str ~nul:true r), "raw")

(* ================================================================ deterministic corpus *)
let col name ty id = { c_name = bos name; c_type = bos ty; c_typid = zi id }
let tbl name cols rows rc = { t_name = bos name; t_cols = cols; t_rows = List.map (List.map (fun (k, v) -> (bos k, v))) rows; t_rowcount = zi rc }
let vs s = VStr (bos s)

let corpus () =
  (* every single byte, alone and next to a letter *)
  for c = 0 to 255 do
    let s = String.make 1 (Char.chr c) in
    List.iter (fun (tag, x) ->
        ident_case ~tag x; safeident_case ~tag x; reserved_case ~tag x; literal_case ~tag x; comment_case ~tag x)
      [ ("byte1", s); ("byte_a", s ^ "a"); ("a_byte", "a" ^ s) ];
    literal_case ~tag:"byte_qb" ("'" ^ s ^ "\\");
    if c > 0 then begin
      table_csv_case ~tag:"byte1" (tbl "t" [ col "c" "text" 25 ] [ [ ("c", vs s) ] ] 1);
      table_csv_case ~tag:"byte_hdr" (tbl "t" [ col s "text" 25; col ("x" ^ s) "text" 25 ] [ [ (s, vs ("a" ^ s)); ("x" ^ s, vs (s ^ "a")) ] ] 1);
      json_case ~tag:"byte1" [ (bos s, vs s) ];
      json_case ~tag:"byte_a" [ (bos ("a" ^ s), vs (s ^ "a")); (bos (s ^ "z"), VList [ vs s ]) ];
      table_sql_case ~tag:"byte_name" (tbl s [ col s "text" 25 ] [ [ (s, vs s) ] ] 1);
      db_case ~tag:"byte_name" { d_name = bos s; d_oid = zi c; d_tables = [ tbl s [ col "c" "text" 25 ] [] 0; tbl ("t" ^ s) [] [] 0 ] }
    end
  done;
  (* the first rune of a CSV field: every two/three-byte sequence around the Unicode spaces *)
  List.iter (fun pre ->
      for c = 0x80 to 0xbf do
        let s = pre ^ String.make 1 (Char.chr c) in
        table_csv_case ~tag:"rune1" (tbl "t" [ col "c" "text" 25 ] [ [ ("c", vs s) ]; [ ("c", vs (s ^ "x")) ] ] 2)
      done) [ "\xc2"; "\xe2\x80"; "\xe2\x81"; "\xe1\x9a"; "\xe3\x80"; "\xe1\xa0"; "\xef\xbb" ];
  (* every keyword of either list, in several spellings *)
  List.iter (fun w ->
      List.iter (fun (tag, x) -> ident_case ~tag x; reserved_case ~tag x; safeident_case ~tag x)
        [ ("kw_lower", w); ("kw_upper", String.uppercase_ascii w); ("kw_cap", String.capitalize_ascii w) ];
      List.iter (fun (tag, x) -> ident_case ~tag x; reserved_case ~tag x)
        [ ("kw_suffix", w ^ "a"); ("kw_prefix", "a" ^ w); ("kw_us", w ^ "_"); ("kw_digit", w ^ "1"); ("kw_space", w ^ " ") ];
      table_sql_case ~tag:"kw_name" (tbl w [ col w "text" 25 ] [ [ (w, vs w) ] ] 1))
    all_keywords;
  Array.iter (fun w -> ident_case ~tag:"safe" w; reserved_case ~tag:"safe" w; safeident_case ~tag:"safe" w) safe_words;
  (* regression witnesses D44-D48 and friends *)
  List.iter (fun s ->
      ident_case ~tag:"witness" s; literal_case ~tag:"witness" s; comment_case ~tag:"witness" s; safeident_case ~tag:"witness" s;
      reserved_case ~tag:"witness" s;
      if not (String.contains s '\000') then begin
        sqlvalue_case ~tag:"witness" (vs s);
        json_case ~tag:"witness" [ (bos s, vs s) ];
        let t = tbl s [ col s "text" 25; col "id" "int4" 23 ] [ [ (s, vs s); ("id", VI32 (zi 1)) ]; [ ("id", VNil) ] ] 2 in
        table_sql_case ~tag:"witness" t; table_csv_case ~tag:"witness" t;
        db_case ~tag:"witness" { d_name = bos s; d_oid = zi 16384; d_tables = [ t; tbl "u" [ col "a" "" 0 ] [] 0 ] };
        dump_case ~tag:"witness" [ { d_name = bos s; d_oid = zi 5; d_tables = [ t ] } ]
      end)
    ([ "x\nDROP TABLE y;--"; "x;DROP/**/TABLE/**/y"; "Users"; "1a"; "left"; "'\\ $str"; "'\\ $str0"; "'\\$str$ $str0"; "'\\$str$$str0$ $str1";
       "'\\$str$$str0$$str1$$str2$"; "'\\$str0$"; "'\\$str$$str1$"; "'\\$"; "'\\$str$"; "a\\b"; "a\x01b"; "a\x1fb"; "a\x7fb"; "x\ry"; "x\r\ny"; "\\"; "\\n";
       "a\"b"; "a'b"; "a''b"; "\"\""; "''"; ""; " "; " x"; "x "; "\\."; "a,b"; "a\"\"b"; "system_user"; "values"; "select"; "SELECT"; "selecta"; "name"; "if";
       "a1"; "_x"; "1abc"; "a$b"; "$str$"; "$str0$"; "$str"; "\xc2\xa0x"; "\xc2\x85"; "\xe2\x80\xa8"; "\xe3\x80\x80"; "\xe1\x9a\x80"; "\xc3\xa9"; "\xe6\xbc\xa2";
       "\xf0\x9f\x98\x80"; "\x80"; "\xc2"; "\xff"; "a\000b"; "--"; "/*"; "*/"; "-- x"; "e'x'"; "x'--"; "x'\n--y\n'z"; "<>&"; "\xe2\x80\xa8\xe2\x80\xa9" ]
     @ Array.to_list injections);
  (* the tag loop: 0..5 iterations, gaps, the D46 endings *)
  List.iter (fun s -> literal_case ~tag:"tagloop" s; sqlvalue_case ~tag:"tagloop" (vs s); lexcheck ~tag:"tagloop" (sob (quoteLiteral (bos s))))
    (List.concat_map (fun base -> List.map (fun e -> base ^ e) [ ""; "$str"; "$str0"; "$str1"; "$str2"; "$"; "$s"; "x" ])
       [ "'\\"; "'\\$str$"; "'\\$str$$str0$"; "'\\$str$$str0$$str1$"; "'\\$str$$str0$$str1$$str2$"; "'\\$str$$str0$$str1$$str2$$str3$"; "'\\$str0$";
         "'\\$str$$str1$"; "'$str$"; "\\$str$"; "$str$'\\"; "'\\$str$str$" ]);
  (* pgTypeToSQL: every id of the table, its neighbours, names *)
  Array.iter (fun id ->
      List.iter (fun d ->
          List.iter (fun ty -> pgtype_case ~tag:"typid" ty (id + d)) [ ""; "xtype"; "oid:" ^ string_of_int (id + d); "oid:" ^ string_of_int (id + d + 1) ])
        [ -1; 0; 1 ]) known_typids;
  Array.iter (fun id -> Array.iter (fun ty -> pgtype_case ~tag:"typname" ty id) type_names) unknown_typids;
  List.iter (fun (ty, id) -> pgtype_case ~tag:"typname" ty id)
    [ ("oid:-1", -1); ("oid:0", 0); ("oid:1", 0); ("OID:19", 19); ("oid:19 ", 19); ("Mixed Case(3)", 19); ("numeric(10,2)", 0); ("a;b", 1); ("oid:", 5); ("oid:05", 5) ];
  (* floats: the hypothesis on %v, and every special in every context *)
  Array.iter (fun b ->
      floattext ~tag:"special" 64 b;
      let v = VF64 (zz b) in
      sqlvalue_case ~tag:"f64_special" v; csvvalue_case ~tag:"f64_special" v;
      sqlvalue_case ~tag:"f64_list" (VList [ v; VI32 (zi (-1)); v ]);
      json_case ~tag:"f64_special" [ (bos "k", v); (bos "l", VList [ v; v ]) ];
      sqlvalue_case ~tag:"f64_map" (VMap [ (bos "k", v) ]);
      table_sql_case ~tag:"f64_special" (tbl "t" [ col "a" "float8" 701; col "b" "int4" 23 ] [ [ ("a", v); ("b", VI32 (zi (-7))) ]; [ ("b", v) ] ] 2);
      table_csv_case ~tag:"f64_special" (tbl "t" [ col "a" "float8" 701; col "j" "jsonb" 3802 ] [ [ ("a", v); ("j", VMap [ (bos "k", v) ]) ]; [ ("j", VList [ v ]) ] ] 2))
    f64_special;
  Array.iter (fun b ->
      floattext ~tag:"special" 32 b;
      let v = VF32 (zz b) in
      sqlvalue_case ~tag:"f32_special" v; csvvalue_case ~tag:"f32_special" v;
      json_case ~tag:"f32_special" [ (bos "k", v) ];
      table_sql_case ~tag:"f32_special" (tbl "t" [ col "a" "float4" 700 ] [ [ ("a", v) ]; [ ("a", v) ] ] 2);
      table_csv_case ~tag:"f32_special" (tbl "t" [ col "a" "float4" 700; col "j" "json" 114 ] [ [ ("a", v); ("j", VList [ v; vs "x" ]) ] ] 1))
    f32_special;
  (* every kind of value, extreme integers *)
  let two k = ZA.shift_left ZA.one k in
  List.iter (fun v ->
      sqlvalue_case ~tag:"kinds" v; csvvalue_case ~tag:"kinds" v;
      json_case ~tag:"kinds" [ (bos "v", v) ];
      sqlvalue_case ~tag:"kinds_list" (VList [ v; v ]);
      csvvalue_case ~tag:"kinds_list" (VList [ v; v ]);
      csvvalue_case ~tag:"kinds_map" (VMap [ (bos "k", v) ]);
      let t = tbl "t" [ col "a" "" 0; col "b" "text" 25 ] [ [ ("a", v); ("b", VList [ v ]) ]; [ ("a", VMap [ (bos "k", v) ]) ] ] 2 in
      table_sql_case ~tag:"kinds" t; table_csv_case ~tag:"kinds" t)
    [ VNil; VBool true; VBool false;
      VI16 (zi (-32768)); VI16 (zi 32767); VI16 (zi 0); VI32 (zz (ZA.neg (two 31))); VI32 (zz (ZA.pred (two 31))); VI32 (zi (-1));
      VI64 (zz (ZA.neg (two 63))); VI64 (zz (ZA.pred (two 63))); VI64 (zi 0); VInt (zz (ZA.neg (two 63))); VInt (zz (ZA.pred (two 63))); VInt (zi 42);
      VU16 (zi 0); VU16 (zi 65535); VU32 (zi 0); VU32 (zz (ZA.pred (two 32))); VU64 (zi 0); VU64 (zz (ZA.pred (two 64)));
      vs ""; vs "a"; vs "it's"; vs "a\\b"; vs "'\\"; VBytes []; VBytes (bos "abc"); VBytes (bos "\x01\xff,\""); VBytes (bos "'\\");
      VList []; VListNil; VList [ VNil ]; VList [ VList []; VListNil; VList [ VList [ vs "deep" ] ] ]; VList [ vs "a,b"; vs "\"" ];
      VMap []; VMap [ (bos "", VNil) ]; VMap [ (bos "b", VI32 (zi 1)); (bos "a", VI32 (zi 2)); (bos "B", VI32 (zi 3)); (bos "", VI32 (zi 4)); (bos "ab", VI32 (zi 5)) ];
      VMap [ (bos "k'", vs "v\\") ]; VMap [ (bos "k\\", vs "'") ]; VMap [ (bos "m", VMap [ (bos "n", VList [ VMap [] ]) ]) ];
      VMap [ (bos "'\\$str$", vs "$str0$") ]; VMap [ (bos "<>&", vs "\xe2\x80\xa8") ]; VMap [ (bos "\xff", vs "\x80") ] ];
  (* table shapes *)
  let c1 = [ col "id" "int4" 23 ] and c2 = [ col "id" "int4" 23; col "Name" "text" 25 ] in
  let r1 = [ ("id", VI32 (zi 1)); ("Name", vs "a") ] and r2 = [ ("id", VI32 (zi (-2))); ("Name", VNil) ] and r3 = [ ("other", vs "x") ] in
  List.iter (fun (cols, rows, rc) ->
      let t = tbl "users" cols rows rc in
      table_sql_case ~tag:(shape_tag t) t; table_csv_case ~tag:(shape_tag t) t)
    [ ([], [], 0); ([], [ r1 ], 1); ([], [ r1; r2 ], 2); (c1, [], 0); (c1, [ r1 ], 1); (c1, [ r1; r2 ], -5); (c2, [], 7); (c2, [ r1 ], 1); (c2, [ r1; r2 ], 2);
      (c2, [ r3 ], 1); (c2, [ []; [] ], 2); (c2, [ r1; r2; r3; r1 ], 4); ([ col "" "" 0 ], [ [ ("", vs "") ]; [ ("", vs "x") ] ], 2);
      ([ col "a" "text" 25; col "a" "int4" 23 ], [ [ ("a", vs "dup") ] ], 1); ([ col "" "text" 25; col "" "text" 25 ], [ [] ], 1) ];
  let t0 = tbl "users" c2 [ r1; r2 ] 2 and t1 = tbl "Order Items" c1 [] 0 and t2 = tbl "x\ny" [] [] 0 in
  List.iter (fun d -> db_case ~tag:(Printf.sprintf "t%d" (List.length d.d_tables)) d)
    [ { d_name = bos "postgres"; d_oid = zi 5; d_tables = [] }; { d_name = bos "postgres"; d_oid = zi 5; d_tables = [ t0 ] };
      { d_name = bos "a\nb"; d_oid = zz (ZA.pred (two 32)); d_tables = [ t0; t1; t2 ] }; { d_name = bos ""; d_oid = zi 0; d_tables = [ t2; t2 ] };
      { d_name = bos "d\\"; d_oid = zi 1; d_tables = [ tbl "t\\" c1 [] 0; tbl "t\r" c1 [] 0 ] } ];
  List.iter (fun dbs -> dump_case ~tag:(Printf.sprintf "d%d" (List.length dbs)) dbs)
    [ []; [ { d_name = bos "postgres"; d_oid = zi 5; d_tables = [] } ]; [ { d_name = bos "a\nb"; d_oid = zi 1; d_tables = [ t0; t2 ] }; { d_name = bos "B"; d_oid = zi 2; d_tables = [ t1 ] } ] ];
  (* the lone empty field: one column whose rows are NULL / missing / "" / mixed, an empty column name,
     header only; the same tables inside multi-table databases and dumps *)
  let lone name rows = tbl "t" [ col name "text" 25 ] (List.map (fun cell -> match cell with None -> [] | Some v -> [ (name, v) ]) rows) (List.length rows) in
  let lone_tables = List.concat_map (fun name ->
      [ ("hdr", lone name []); ("null1", lone name [ Some VNil ]); ("null2", lone name [ Some VNil; Some VNil ]);
        ("missing", lone name [ None; None ]); ("empty", lone name [ Some (vs "") ; Some (vs "") ]); ("emptybytes", lone name [ Some (VBytes []) ]);
        ("mixed", lone name [ Some (vs "v"); Some VNil; Some (vs ""); None; Some (vs "w"); Some (vs "") ]);
        ("mixed_last", lone name [ Some VNil; Some (vs "v") ]); ("mixed_first", lone name [ Some (vs "v"); Some VNil ]);
        ("near", lone name [ Some (vs " "); Some (vs "\n"); Some (vs "\r\n"); Some (vs "\""); Some (vs "\"\""); Some (vs ","); Some (vs "\n\n"); Some (vs "a\n\nb"); Some (vs "#") ]);
        ("jsonfail", lone name [ Some (VMap [ (bos "k", VF64 (zz (ZA.of_string "0x7ff8000000000000"))) ]); Some (VList [ VF64 (zz (ZA.of_string "0xfff0000000000000")) ]); Some (VList [ vs "ok" ]) ]);
        ("otherkey", tbl "t" [ col name "text" 25 ] [ [ ("zz", vs "x") ]; [ ("zz", VNil); (name, vs "") ] ] 2) ])
      [ "c"; ""; "Name" ] in
  List.iter (fun (k, t) -> table_csv_case ~tag:("lone_" ^ k ^ (if t.t_cols <> [] && (List.hd t.t_cols).c_name = [] then "_noname" else "")) t) lone_tables;
  table_csv_case ~tag:"two_empty" (tbl "t" [ col "" "text" 25; col "" "text" 25 ] [ []; [ ("", vs "") ] ] 2);
  table_csv_case ~tag:"two_null" (tbl "t" [ col "a" "text" 25; col "b" "text" 25 ] [ [ ("a", VNil); ("b", VNil) ]; [] ] 2);
  let lt k = List.assoc k lone_tables in
  let two = tbl "users" c2 [ r1; r2 ] 2 in
  List.iter (fun (tag, tables) ->
      let d = { d_name = bos "db"; d_oid = zi 5; d_tables = tables } in
      db_case ~tag d; dump_case ~tag [ d; { d_name = bos "e"; d_oid = zi 6; d_tables = List.rev tables } ])
    [ ("lone_db_1", [ lt "mixed" ]); ("lone_db_2", [ lt "null2"; lt "empty" ]); ("lone_db_mid", [ two; lt "mixed"; two ]);
      ("lone_db_last", [ two; lt "null1" ]); ("lone_db_first", [ lt "missing"; two ]); ("lone_db_hdr", [ lt "hdr"; lt "hdr"; tbl "z" [] [] 0; lt "null1" ]);
      ("lone_db_noname", [ lone "" [ Some VNil; Some (vs "") ]; lone "" []; two; lone "" [ Some (vs "x"); None ] ]) ];
  (* reader checks: every fragment alone and every single byte *)
  Array.iter (fun f -> lexcheck ~tag:"frag" f; lexcheck ~tag:"frag_sp" (" " ^ f ^ " x")) sql_frags;
  Array.iter (fun f -> csvcheck ~tag:"frag" f; csvcheck ~tag:"frag2" ("a," ^ f ^ ",b\n")) csv_frags;
  Array.iter (fun f -> jsoncheck ~tag:"frag" f; jsoncheck ~tag:"frag_arr" ("[" ^ f ^ "]"); jsoncheck ~tag:"frag_obj" ("{\"k\":" ^ f ^ "}")) json_frags;
  Array.iter (fun w -> lexcheck ~tag:"quotecont" ("'a'" ^ w ^ "'b'"); lexcheck ~tag:"quotecont" ("'a'" ^ w); lexcheck ~tag:"quotecont" ("('a'" ^ w ^ ")")) quote_ws;
  for c = 0 to 255 do
    let s = String.make 1 (Char.chr c) in
    lexcheck ~tag:"byte1" s; lexcheck ~tag:"byte_in" ("a" ^ s ^ "1"); lexcheck ~tag:"byte_sq" ("'" ^ s ^ "'"); lexcheck ~tag:"byte_after_sq" ("'a'" ^ s);
    lexcheck ~tag:"byte_after_num" ("1" ^ s); lexcheck ~tag:"byte_dollar" ("$" ^ s ^ "$x$" ^ s ^ "$"); lexcheck ~tag:"byte_minus" ("-" ^ s);
    csvcheck ~tag:"byte1" s; csvcheck ~tag:"byte_q" ("\"" ^ s ^ "\""); csvcheck ~tag:"byte_after_q" ("\"a\"" ^ s); csvcheck ~tag:"byte_mid" ("a" ^ s ^ "b");
    jsoncheck ~tag:"byte1" s; jsoncheck ~tag:"byte_str" ("\"" ^ s ^ "\""); jsoncheck ~tag:"byte_esc" ("\"\\" ^ s ^ "\""); jsoncheck ~tag:"byte_num" ("1" ^ s);
    jsoncheck ~tag:"byte_ws" ("[1" ^ s ^ ",2]"); jsoncheck ~tag:"byte_u" ("\"\\u00" ^ s ^ "0\"")
  done;
  for d = 0 to 24 do
    jsoncheck ~tag:"depth" (String.make d '[' ^ String.make d ']');
    jsoncheck ~tag:"depth" (String.make d '[' ^ "1" ^ String.make d ']');
    jsoncheck ~tag:"depth" (String.concat "" (List.init d (fun _ -> "{\"\":")) ^ "0" ^ String.make d '}');
    jsoncheck ~tag:"depth" ("[" ^ String.concat "," (List.init d (fun _ -> "0")) ^ "]")
  done

(* ================================================================ random cases *)
let gen_case r k =
  match k mod 50 with
  | 0 | 1 | 2 | 3 | 4 | 5 ->
    let s, tag = gen_str ~nul:true r in
    ident_case ~tag s; safeident_case ~tag s; reserved_case ~tag s
  | 6 | 7 | 8 | 9 | 10 | 11 | 12 -> let s, tag = gen_str ~nul:true r in literal_case ~tag s
  | 13 | 14 -> let s, tag = gen_str ~nul:true r in comment_case ~tag s
  | 15 ->
    let ty = match rint r 4 with 0 -> pick r type_names | 1 -> "oid:" ^ string_of_int (pick r unknown_typids) | 2 -> "" | _ -> (let s, _ = gen_str r in if is_ascii s then s else "t") in
    pgtype_case ~tag:"random" ty (if rbool r then pick r known_typids else pick r unknown_typids)
  | 16 | 17 | 18 | 19 | 20 | 21 -> let v = gen_val ~nb:true r 3 in sqlvalue_case ~tag:(val_tag v) v
  | 22 | 23 | 24 | 25 | 26 | 27 ->
    let m = gen_map ~nb:true r 3 in
    json_case ~tag:(match List.length m with 0 -> "empty" | 1 -> "k1" | _ -> "kn") m
  | 28 | 29 -> let v = gen_val r 3 in csvvalue_case ~tag:(val_tag v) v
  | 30 | 31 | 32 | 33 -> let t = gen_table r in table_sql_case ~tag:(shape_tag t) t
  | 34 | 35 | 36 -> let t = gen_table r in table_csv_case ~tag:(shape_tag t) t
  | 37 -> (* one column, many NULL / missing / empty cells; alone or inside a multi-table database *)
    let name = match rint r 4 with 0 -> "" | 1 -> csv_string r | _ -> gen_name r in
    let cell () = match rint r 8 with
      | 0 | 1 -> [] | 2 | 3 -> [ (name, VNil) ] | 4 | 5 -> [ (name, vs "") ] | 6 -> [ (name, vs (csv_string r)) ] | _ -> [ (name, gen_val r 1) ] in
    let t = tbl (gen_name r) [ col name "text" 25 ] (List.init (rint r 7) (fun _ -> cell ())) 0 in
    if rbool r then table_csv_case ~tag:"lone" t
    else begin
      let others = List.init (rint r 3) (fun _ -> gen_table r) in
      let tables = if rbool r then t :: others else others @ [ t ] in
      db_case ~tag:"lone_db" { d_name = bos (gen_name r); d_oid = zi 1; d_tables = tables }
    end
  | 38 -> (* one column of CSV-hostile strings *)
    let name = csv_string r in
    let t = tbl name [ col name "text" 25; col "n" "int4" 23 ] (List.init (1 + rint r 3) (fun _ -> [ (name, vs (csv_string r)); ("n", vs (csv_string r)) ])) 0 in
    table_csv_case ~tag:"csvstr" t
  | 39 | 40 -> let d = gen_db r in db_case ~tag:(Printf.sprintf "t%d" (min 2 (List.length d.d_tables))) d
  | 41 ->
    let n = match rint r 5 with 0 -> 0 | 1 -> 1 | _ -> 2 + rint r 2 in
    dump_case ~tag:(Printf.sprintf "d%d" (min 2 n)) (List.init n (fun _ -> gen_db r))
  | 42 | 43 | 44 | 45 -> let t, tag = gen_sql_text r in lexcheck ~tag t
  | 46 | 47 -> let t, tag = gen_csv_text r in csvcheck ~tag t
  | 48 -> let t, tag = gen_json_text r in jsoncheck ~tag t
  | _ ->
    if rbool r then (let t, tag = gen_json_text r in jsoncheck ~tag t)
    else if rbool r then floattext ~tag:"random" 64 (rbits r 64)
    else floattext ~tag:"random" 32 (rbits r 32)

let gen seed n =
  corpus ();
  for k = 0 to n - 1 do gen_case (rng_for seed k) k done
let () = main gen
