(* C13 driver library: canonical printers (must agree with harness/c13*.go), the numeric stand-in
   for the float oracles, and the adversarial string / value / table generators. *)
open Model
open Util

let sob = string_of_bytes
let bos = bytes_of_string
let hx (b : byte list) : string = hex_of_bytes b          (* "" for the empty string *)

(* ================================================================ float oracle stand-ins
   The extracted x_* functions print fmt's %v of a float as NUL 'F' <16 hex> NUL / NUL 'G' <8 hex> NUL,
   which the Go normalizer replaces by the real text.  The Coq lexer / JSON reader cannot read such a
   placeholder as a number, so for the M side of the semantic functions the model is run with the
   oracles instantiated by a *numeric* stand-in (1.5<bits in decimal>e+64 / e+32); after reading,
   every stand-in found in a payload is rewritten to the NUL placeholder, i.e. to exactly what the
   S side (x_value_tokens etc.) contains. *)
let pad w s = if String.length s >= w then s else String.make (w - String.length s) '0' ^ s
let standin64 (bits : z) : byte list = bos ("1.5" ^ pad 20 (zs bits) ^ "e+64")
let standin32 (bits : z) : byte list = bos ("1.5" ^ pad 10 (zs bits) ^ "e+32")
let ph64 (bits : ZA.t) = "\000F" ^ pad 16 (ZA.format "%x" bits) ^ "\000"
let ph32 (bits : ZA.t) = "\000G" ^ pad 8 (ZA.format "%x" bits) ^ "\000"

let has_at s i p = let l = String.length p in i + l <= String.length s && String.sub s i l = p
let digits_at s i n =
  i + n <= String.length s &&
  (let ok = ref true in for k = i to i + n - 1 do if s.[k] < '0' || s.[k] > '9' then ok := false done; !ok)
let strip0 s = let n = String.length s in let i = ref 0 in
  while !i < n - 1 && s.[!i] = '0' do incr i done; String.sub s !i (n - !i)
let unstand (s : string) : string =
  let n = String.length s in
  let b = Buffer.create (n + 16) in
  let i = ref 0 in
  while !i < n do
    if s.[!i] = '1' && has_at s !i "1.5" && digits_at s (!i + 3) 20 && has_at s (!i + 23) "e+64" then begin
      Buffer.add_string b (ph64 (ZA.of_string (strip0 (String.sub s (!i + 3) 20)))); i := !i + 27 end
    else if s.[!i] = '1' && has_at s !i "1.5" && digits_at s (!i + 3) 10 && has_at s (!i + 13) "e+32" then begin
      Buffer.add_string b (ph32 (ZA.of_string (strip0 (String.sub s (!i + 3) 10)))); i := !i + 17 end
    else begin Buffer.add_char b s.[!i]; incr i end
  done;
  Buffer.contents b

let s_mapToJSON = mapToJSON standin64 standin32
let s_formatSQLValue = formatSQLValue standin64 standin32
let s_tableToSQL = tableToSQL standin64 standin32
let s_databaseToSQL = databaseToSQL standin64 standin32
let s_dumpToSQL = dumpToSQL standin64 standin32

(* ================================================================ canonical printers *)
(* payload: hex of the bytes; [us] = rewrite stand-ins to placeholders first *)
let pay ~us (b : byte list) = if us then hex_of_string (unstand (sob b)) else hx b
let c_tok ~us = function
  | TComment b -> "C:" ^ pay ~us b
  | TIdent b -> "I:" ^ pay ~us b
  | TKeyword b -> "K:" ^ pay ~us b
  | TString b -> "S:" ^ pay ~us b
  | TInt z -> "Z:" ^ hex_of_string (zs z)
  | TNum b -> "N:" ^ pay ~us b
  | TPunct c -> "P:" ^ hx [ c ]
let c_toklist ?(us = false) (l : token list) =
  match l with [] -> "EMPTY" | _ -> String.concat " " (List.map (c_tok ~us) l)
let c_toks ?(us = false) = function None -> "LEXFAIL" | Some l -> c_toklist ~us l

let rec c_json ~us = function
  | JNull -> "NULL"
  | JBool true -> "T"
  | JBool false -> "F"
  | JNum b -> "N:" ^ pay ~us b
  | JStr b -> "S:" ^ pay ~us b
  | JArr l -> "A[" ^ String.concat ";" (List.map (c_json ~us) l) ^ "]"
  | JObj m -> "O{" ^ String.concat ";" (List.map (fun (k, v) -> pay ~us k ^ "=" ^ c_json ~us v) m) ^ "}"
let c_jsonopt ?(us = false) = function None -> "JSONFAIL" | Some j -> c_json ~us j

let c_records (l : byte list list list) =
  match l with
  | [] -> "NONE"
  | _ -> String.concat "|" (List.map (fun r -> String.concat ";" (List.map (fun f -> "F" ^ hx f) r)) l)
let c_csvopt = function None -> "CSVFAIL" | Some l -> c_records l

let c_headers (l : string list) = match l with [] -> "NONE" | _ -> String.concat "|" (List.map hex_of_string l)
(* the decomposition DatabaseToCSV.sections performs on the Go side, here on the model's text *)
let sections (out : string) (tables_csv : string list) : string =
  let n = String.length out in
  let rec go pos acc = function
    | [] -> if pos = n then c_headers (List.rev acc) else "BAD"
    | tc :: rest ->
      (match String.index_from_opt out pos '\n' with
       | None -> "BAD"
       | Some j ->
         let hdr = String.sub out pos (j - pos) in
         let p = j + 1 and l = String.length tc in
         if p + l + 1 <= n && String.sub out p l = tc && out.[p + l] = '\n' then go (p + l + 1) (hdr :: acc) rest else "BAD") in
  go 0 [] tables_csv

(* ================================================================ argument syntax *)
let cols_arg (cols : column list) =
  match cols with
  | [] -> "-"
  | _ -> String.concat "," (List.map (fun c -> hx c.c_name ^ "/" ^ hx c.c_type ^ "/" ^ zs c.c_typid) cols)
let rows_arg (rows : row list) = "l[" ^ String.concat "," (List.map (fun r -> Value.c_gval (VMap r)) rows) ^ "]"
let table_args (t : table) = [ hexf t.t_name; zs t.t_rowcount; cols_arg t.t_cols; rows_arg t.t_rows ]
let db_args (d : database) =
  [ hexf d.d_name; zs d.d_oid; string_of_int (List.length d.d_tables) ] @ List.concat_map table_args d.d_tables
let dump_args (dbs : database list) = string_of_int (List.length dbs) :: List.concat_map db_args dbs

(* ================================================================ strings *)
let reserved = Array.of_list (List.map sob reserved_words)
let pgkw = Array.of_list (List.map sob pg_keywords)
let all_keywords = List.sort_uniq compare (Array.to_list reserved @ Array.to_list pgkw)
let safe_words = [| "users"; "id"; "a1"; "_x"; "name"; "if"; "abc"; "x"; "_"; "t1"; "col_2"; "value"; "data"; "key";
                    "type"; "text"; "public"; "zone"; "year"; "a_b_c"; "z9"; "__"; "str"; "nan"; "infinity" |]
let punct = [| "'"; "\""; "\\"; "$"; ";"; "-"; "/"; "*"; ","; "("; ")"; "["; "]"; "\n"; "\r"; "\t"; " "; "--"; "/*"; "*/";
               "''"; "\"\""; "\\\\"; "\r\n"; "."; "\\."; ":"; "{"; "}"; "="; "e'"; "E'"; "x'"; "$$"; "$a$"; "#"; "\\n";
               "\\u0041"; "+"; "%"; "\011"; "\012"; "\\'"; "'\\"; "\\\""; "';"; "');"; "<"; ">"; "&"; "?"; "!"; "`"; "|" |]
let utf8_atoms = [| "\xc3\xa9"; "\xe6\xbc\xa2"; "\xf0\x9f\x98\x80"; "\xc2\xa0"; "\xc2\x85"; "\xe2\x80\xa8"; "\xe3\x80\x80";
                    "\xe1\x9a\x80"; "\xe2\x80\x8a"; "\xe2\x80\x8b"; "\xe2\x80\xaf"; "\xe2\x81\x9f"; "\xe2\x80\x87";
                    "\xe2\x80\xa9"; "\xe2\x80\x80"; "\xef\xbb\xbf"; "\xc2\xa1"; "\xc2\x84"; "\xe1\xa0\x8e"; "\xc3\x89"; "\xce\xa3" |]
let bad_utf8 = [| "\x80"; "\xc2"; "\xff"; "\xe2\x80"; "\xc0\x80"; "\xed\xa0\x80"; "\xf4\x90\x80\x80"; "\xfe"; "\xe2"; "\xbf" |]
let dollar_tags = [| "$str$"; "$str0$"; "$str1$"; "$str2$"; "$str"; "$str0"; "$str1"; "$str10$"; "$STR$"; "$str$0"; "$st"; "str$";
                     "$str3$"; "$str00$"; "$str-1$" |]
let injections = [| "x\nDROP TABLE y;--"; "x;DROP/**/TABLE/**/y"; "a'); DROP TABLE t; --"; "\"; DROP TABLE t; --";
                    "*/ DROP TABLE t /*"; "$str$; DROP TABLE x; $str$"; "x\r\nDROP TABLE y;"; "a\\'; DROP TABLE t; --";
                    "x\" (id int); DROP TABLE y; --"; "1); DELETE FROM t; --"; "'||(select 1)||'"; "\\connect evil";
                    "t\n# Database: evil, Table: evil\na,b"; "a\",\"b"; "=cmd|' /C calc'!A0"; "x\\"; "x\\\ny" |]
let lower = "abcdefghijklmnopqrstuvwxyz"
let upper = "ABCDEFGHIJKLMNOPQRSTUVWXYZ"
let rchar r s = String.make 1 s.[rint r (String.length s)]
let rletters r s n = String.concat "" (List.init n (fun _ -> rchar r s))
let safe_ident r =
  let n = rint r 9 in
  (if rint r 5 = 0 then "_" else rchar r lower) ^ String.concat "" (List.init n (fun _ -> rchar r "abcdefghijklmnopqrstuvwxyz0123456789_"))
let ctrl_char r ~nul = if nul && rint r 4 = 0 then "\000" else String.make 1 (Char.chr (pick r [| 1; 2; 7; 8; 9; 10; 11; 12; 13; 14; 26; 27; 28; 30; 31; 127 |]))
let keyword_cased r =
  let w = if rbool r then pick r reserved else pick r pgkw in
  match rint r 8 with
  | 0 | 1 | 2 -> w
  | 3 -> String.uppercase_ascii w
  | 4 -> String.capitalize_ascii w
  | 5 -> String.map (fun c -> if rbool r then Char.uppercase_ascii c else c) w
  | 6 -> w ^ pick r [| "a"; "_"; "1"; "$"; " "; "s" |]
  | _ -> pick r [| "a"; "_"; "x" |] ^ w

let atom r ~nul : string =
  match rint r 17 with
  | 0 | 1 | 2 | 3 | 4 -> pick r punct
  | 5 -> ctrl_char r ~nul
  | 6 -> pick r utf8_atoms
  | 7 -> pick r bad_utf8
  | 8 -> pick r dollar_tags
  | 9 -> keyword_cased r
  | 10 -> pick r safe_words
  | 11 -> rletters r "0123456789" (1 + rint r 3)
  | 12 -> rletters r upper (1 + rint r 3)
  | 13 | 14 -> rletters r lower (1 + rint r 4)
  | 15 -> String.make 1 (Char.chr (if nul then rbyte r else 1 + rint r 255))
  | _ -> " "
let atoms r ~nul n = String.concat "" (List.init n (fun _ -> atom r ~nul))

(* strings whose dollar-quote tag search runs 0,1,2,3,4 iterations, incl. the "ends in $str" case *)
let tag_string r ~nul =
  let n = rint r 6 in
  let wanted = List.filteri (fun i _ -> i < n) [ "$str$"; "$str0$"; "$str1$"; "$str2$"; "$str3$" ] in
  let wanted = if n >= 2 && rint r 5 = 0 then List.filteri (fun i _ -> i <> 1) wanted else wanted in
  let quote = if rint r 8 = 0 then [] else [ "'" ] and bsl = if rint r 8 = 0 then [] else [ "\\" ] in
  let filler = List.init (rint r 4) (fun _ -> atom r ~nul) in
  let body = shuffle r (wanted @ quote @ bsl @ filler) in
  let ending = match rint r 6 with
    | 0 -> "$str" | 1 -> "$str0" | 2 -> "$str1" | 3 -> "$str" ^ string_of_int (rint r 4) | _ -> "" in
  String.concat "" body ^ ending

let spacey = [| " "; "\t"; "\n"; "\011"; "\012"; "\r"; "\xc2\x85"; "\xc2\xa0"; "\xe1\x9a\x80"; "\xe2\x80\x80"; "\xe2\x80\x8a";
                "\xe2\x80\xa8"; "\xe2\x80\xa9"; "\xe2\x80\xaf"; "\xe2\x81\x9f"; "\xe3\x80\x80";
                (* near misses *) "\xe2\x80\x8b"; "\xc2\x84"; "\xc2\xa1"; "\xe1\xa0\x8e"; "\xef\xbb\xbf"; "\xe2\x80\xa7"; "\xe2\x80\xaa";
                "\xe2\x81\xa0"; "\xe3\x80\x81"; "\xc2"; "\xe2\x80"; "\x85"; "\xa0"; "\x1c"; "\x1f" |]
let csv_string r =
  match rint r 8 with
  | 0 -> pick r [| "\\."; "\\.x"; "x\\."; "\\"; "."; "\\.\\."; " \\." |]
  | 1 | 2 -> pick r spacey ^ (if rbool r then "" else rletters r lower (1 + rint r 3))
  | 3 -> rletters r lower (1 + rint r 3) ^ pick r spacey
  | _ -> String.concat "" (List.init (1 + rint r 5) (fun _ ->
      pick r [| ","; "\""; "\r"; "\n"; "\r\n"; " "; "a"; "b"; "\"\""; "\\."; "x y"; ",,"; "\",\""; "#"; "1"; "\xc3\xa9" |]))

(* (string, generator tag); [nul] allows the byte 0x00 *)
let gen_str ?(nul = false) r : string * string =
  match rint r 24 with
  | 0 -> ("", "empty")
  | 1 -> (String.make 1 (Char.chr (if nul then rbyte r else 1 + rint r 255)), "short")
  | 2 | 3 -> ((if rbool r then pick r safe_words else safe_ident r), "safe")
  | 4 | 5 | 6 -> (keyword_cased r, "kw")
  | 7 | 8 | 9 | 10 -> (atoms r ~nul (1 + rint r 8), "mix")
  | 11 | 12 | 13 -> (tag_string r ~nul, "tags")
  | 14 | 15 -> (csv_string r, "csv")
  | 16 -> (pick r [| "1abc"; "9"; "0x"; "1"; "2_"; "3a"; "0" |] ^ (if rbool r then "" else safe_ident r), "digit1")
  | 17 -> (pick r [| "Users"; "ID"; "camelCase"; "A"; "Z9"; "aB"; "_X"; "SELECTED"; "Name" |], "upper")
  | 18 -> (String.concat "" (List.init (1 + rint r 4) (fun _ -> if rint r 3 = 0 then pick r bad_utf8 else pick r utf8_atoms))
           ^ (if rbool r then "" else safe_ident r), "utf8")
  | 19 -> (pick r injections, "inject")
  | 20 -> (atoms r ~nul (20 + rint r 60), "long")
  | 21 -> (pick r punct ^ pick r punct, "pair")
  | 22 -> (safe_ident r ^ atom r ~nul ^ (if rbool r then safe_ident r else ""), "word_atom")
  | _ -> ((if rbool r then "a" else "") ^ ctrl_char r ~nul ^ (if rbool r then "b" else ""), "ctrl")

let is_ascii s = let ok = ref true in String.iter (fun c -> if Char.code c >= 128 then ok := false) s; !ok

(* names of tables / columns / databases: mostly words, often hostile *)
let gen_name r : string =
  match rint r 10 with
  | 0 | 1 | 2 -> if rbool r then pick r safe_words else safe_ident r
  | 3 -> keyword_cased r
  | _ -> fst (gen_str r)

(* ================================================================ values *)
let two k = ZA.shift_left ZA.one k
let zbits64 (f : float) : ZA.t = ZA.logand (ZA.of_int64 (Int64.bits_of_float f)) (ZA.pred (two 64))
let zbits32 (f : float) : ZA.t = ZA.logand (ZA.of_int32 (Int32.bits_of_float f)) (ZA.pred (two 32))
let f64_special : ZA.t array =
  Array.append
    (Array.map zbits64 [| 0.0; -0.0; 1.0; -1.5; 1e21; 1e20; 1e-7; 123456789.0; max_float; 5e-324; 100.0; 0.1; 1e-5; 1e-4;
                          -1e21; 1e100; 2.5; 1e6; 3.0e10; -2.0; 1e22; 0.000123; 12345678901234567890.0; -1e-300; 4.9e-324; 2.2250738585072014e-308 |])
    (Array.map ZA.of_string [| "0x7ff8000000000000"; "0x7ff0000000000001"; "0xfff8000000000000"; "0x7fffffffffffffff"; "0xfff0000000000001";
                               "0x7ff0000000000000"; "0xfff0000000000000" |])
let f32_special : ZA.t array =
  Array.append
    (Array.map zbits32 [| 0.0; -0.0; 1.0; -1.5; 1e21; 1e20; 1e-7; 123456789.0; 16777216.0; 100.0; 0.1; 1e-5; 1e-4; -1e21; 2.5; 1e6; 3.0e10; -2.0 |])
    (Array.map ZA.of_string [| "0x7fc00000"; "0x7f800001"; "0xffc00000"; "0xffffffff"; "0x7f800000"; "0xff800000"; "0x7f7fffff"; "0x00000001"; "0x00800000" |])
let gen_f64 r : ZA.t = if rint r 3 = 0 then rbits r 64 else pick r f64_special
let gen_f32 r : ZA.t = if rint r 3 = 0 then rbits r 32 else pick r f32_special

(* boundary-biased integer of the given width *)
let gen_int r ~bits ~signed : ZA.t =
  let lo = if signed then ZA.neg (two (bits - 1)) else ZA.zero in
  let hi = if signed then ZA.pred (two (bits - 1)) else ZA.pred (two bits) in
  match rint r 9 with
  | 0 -> lo | 1 -> hi | 2 -> ZA.zero
  | 3 -> if signed then ZA.minus_one else ZA.one
  | 4 -> ZA.of_int (rint r 100)
  | 5 -> if signed then ZA.neg (ZA.of_int (1 + rint r 1000)) else ZA.rem (ZA.of_int (rint r 100000)) (two bits)
  | 6 -> if signed then ZA.succ lo else ZA.pred hi
  | _ -> let v = rbits r bits in if signed then ZA.sub v (two (bits - 1)) else v
let zz = z_of_zarith

let distinct_keys (l : (string * 'a) list) : (string * 'a) list =
  let rec go seen = function
    | [] -> []
    | (k, v) :: r -> if List.mem k seen then go seen r else (k, v) :: go (k :: seen) r in
  go [] l

(* nb: may []byte values contain the byte 0 *)
let rec gen_val ?(nb = false) r (d : int) : gval =
  match rint r (if d <= 0 then 18 else 24) with
  | 0 -> VNil
  | 1 -> VBool (rbool r)
  | 2 -> VI16 (zz (gen_int r ~bits:16 ~signed:true))
  | 3 -> VI32 (zz (gen_int r ~bits:32 ~signed:true))
  | 4 -> VI64 (zz (gen_int r ~bits:64 ~signed:true))
  | 5 -> VInt (zz (gen_int r ~bits:64 ~signed:true))
  | 6 -> VU16 (zz (gen_int r ~bits:16 ~signed:false))
  | 7 -> VU32 (zz (gen_int r ~bits:32 ~signed:false))
  | 8 -> VU64 (zz (gen_int r ~bits:64 ~signed:false))
  | 9 | 10 -> VF64 (zz (gen_f64 r))
  | 11 -> VF32 (zz (gen_f32 r))
  | 12 | 13 | 14 | 15 -> VStr (bos (fst (gen_str r)))
  | 16 -> VBytes (if nb then rbytes r (rint r 5) else bos (fst (gen_str r)))
  | 17 -> if rbool r then VListNil else VList []
  | 18 | 19 | 20 -> VList (List.init (rint r 5) (fun _ -> gen_val ~nb r (d - 1)))
  | _ -> VMap (gen_map ~nb r (d - 1))
and gen_map ?(nb = false) r (d : int) : (byte list * gval) list =
  let n = match rint r 6 with 0 -> 0 | 1 -> 1 | _ -> 2 + rint r 4 in
  let kvs = List.init n (fun _ -> let k = gen_name r in (k, gen_val ~nb r d)) in
  List.map (fun (k, v) -> (bos k, v)) (distinct_keys kvs)

let val_tag (v : gval) = match v with
  | VNil -> "nil" | VBool _ -> "bool" | VI16 _ -> "i16" | VI32 _ -> "i32" | VI64 _ -> "i64" | VInt _ -> "int"
  | VU16 _ -> "u16" | VU32 _ -> "u32" | VU64 _ -> "u64" | VF32 _ -> "f32" | VF64 _ -> "f64" | VStr _ -> "str"
  | VBytes _ -> "bytes" | VList _ -> "list" | VListNil -> "lnil" | VMap _ -> "map"

(* ================================================================ tables *)
let known_typids = Array.of_list (List.map (fun (k, _) -> iz k) sql_types)
let unknown_typids = [| 19; 26; 27; 28; 29; 3220; 4072; 0; -1; 99999; 22; 24; 1005; 1009; 2147483647; 15; 3803 |]
let type_names = [| "text"; "int4"; "name"; "oid"; "xid"; "_text"; "_int4"; "pg_lsn"; "jsonpath"; "regproc"; "int2vector";
                    "double precision"; "character varying"; "timestamp without time zone"; "char"; "bit"; "user_type"; "x1";
                    "table"; "user"; "my type"; "a b c" |]
let gen_col r (prev : column list) : column =
  let name = if prev <> [] && rint r 12 = 0 then sob (pickl r prev).c_name else gen_name r in
  let ty, id =
    match rint r 10 with
    | 0 | 1 | 2 | 3 | 4 -> (pick r type_names, pick r known_typids)
    | 5 | 6 -> (pick r type_names, pick r unknown_typids)
    | 7 -> ("", pick r unknown_typids)
    | 8 -> let id = pick r unknown_typids in ("oid:" ^ string_of_int id, id)
    | _ -> ("", pick r known_typids) in
  { c_name = bos name; c_type = bos ty; c_typid = zi id }
let gen_row r (cols : column list) : row =
  let cells = List.concat_map (fun c ->
      match rint r 12 with
      | 0 | 1 -> []
      | 2 -> [ (sob c.c_name, VNil) ]
      | _ -> [ (sob c.c_name, gen_val r 2) ]) cols in
  let extra = if rint r 8 = 0 then [ (gen_name r, gen_val r 1) ] else [] in
  List.map (fun (k, v) -> (bos k, v)) (distinct_keys (shuffle r (cells @ extra)))
let gen_table ?ncols ?nrows r : table =
  let nc = match ncols with Some n -> n | None -> (match rint r 8 with 0 -> 0 | 1 -> 1 | _ -> 2 + rint r 5) in
  let nr = match nrows with Some n -> n | None -> (match rint r 8 with 0 -> 0 | 1 -> 1 | 2 -> 2 | _ -> rint r 7) in
  let rec mk i acc = if i >= nc then List.rev acc else mk (i + 1) (gen_col r acc :: acc) in
  let cols = mk 0 [] in
  let rows = List.init nr (fun _ -> gen_row r cols) in
  let rc = match rint r 8 with 0 -> - (1 + rint r 1000) | 1 -> rint r 100000 | 2 -> 0 | _ -> nr in
  { t_name = bos (gen_name r); t_cols = cols; t_rows = rows; t_rowcount = zi rc }
let shape_tag (t : table) =
  let n l = let k = List.length l in if k >= 3 then "n" else string_of_int k in
  "c" ^ n t.t_cols ^ "r" ^ n t.t_rows
let gen_db ?ntables r : database =
  let nt = match ntables with Some n -> n | None -> (match rint r 6 with 0 -> 0 | 1 -> 1 | _ -> 2 + rint r 3) in
  { d_name = bos (gen_name r); d_oid = zz (gen_int r ~bits:32 ~signed:false); d_tables = List.init nt (fun _ -> gen_table r) }
