(* C08 driver: TOAST pointers, pglz / LZ4 streams, chunk reassembly, TOAST relations. *)
open Model
open Util

let zz (x : ZA.t) : z = z_of_zarith x
let zb (x : z) : int = iz x
let bstr (s : string) : byte list = bytes_of_string s
let strb (b : byte list) : string = string_of_bytes b

(* ---------------- rendering (must agree with harness/c08.go) ---------------- *)
let c_ptr (r : tOASTPointer option res) : string =
  c_res (function
    | None -> "nil"
    | Some p -> c_rec [ "raw", zs p.rawSize; "ext", zs p.extSize; "vid", zs p.valueID; "rel", zs p.toastRelID;
                        "comp", c_bool p.isCompressed; "method", zs p.compressionMethod ]) r
let c_dres (r : dres res) : string =
  c_res (function
    | DOk b -> "y:" ^ hex_of_bytes b
    | DErr ETooShort -> "err:too_short" | DErr EInvalidOffset -> "err:invalid_offset"
    | DErr EOffsetTooLarge -> "err:offset_too_large"
    | DFuel -> "fuel") r
let c_val (b : byte list) : string = match b with [] -> "empty" | _ -> "y:" ^ hex_of_bytes b
let c_valres (r : byte list res) : string = c_res c_val r

(* argument syntax *)
let a_chunks (cs : tOASTChunk list) : string =
  match cs with [] -> "-" | _ ->
    String.concat ";" (List.map (fun c -> zs c.chunkID ^ ":" ^ zs c.chunkSeq ^ ":" ^ hexf c.data) cs)
let a_mptr (p : tOASTPointer option) : string =
  match p with None -> "-" | Some p ->
    String.concat ":" [ zs p.rawSize; zs p.extSize; zs p.valueID; zs p.toastRelID; c_bool p.isCompressed; zs p.compressionMethod ]

(* ---------------- TOAST pointers ---------------- *)
let gen_ptr r : toast_ptr =
  let raw = match rint r 8 with
    | 0 -> ZA.of_int (rint r 8) | 1 -> ZA.pred (ZA.shift_left ZA.one 31) | 2 -> rdistinct r 32 |> fun x -> ZA.logand x (ZA.of_int 0x7fffffff)
    | _ -> ZA.of_int (4 + rint r 2000000) in
  let lim = ZA.pred (ZA.shift_left ZA.one 30) in
  let clamp x = if ZA.lt x ZA.zero then ZA.zero else if ZA.gt x lim then lim else x in
  let ext = match rint r 8 with
    | 0 -> clamp (ZA.sub raw (ZA.of_int 4))       (* not compressed, exactly *)
    | 1 -> clamp (ZA.sub raw (ZA.of_int 5))       (* compressed by one byte *)
    | 2 -> clamp (ZA.sub raw (ZA.of_int 3))
    | 3 -> lim | 4 -> ZA.zero
    | 5 -> ZA.logand (rdistinct r 32) lim
    | _ -> clamp (ZA.of_int (rint r (1 + min 1000000000 (ZA.to_int (ZA.min raw lim))))) in
  { tp_rawsize = zz raw; tp_extsize = zz ext; tp_method = zi (match rint r 6 with 0 -> 1 | 1 -> 2 | 2 -> 3 | 3 -> 1 | _ -> 0);
    tp_valueid = zz (if rbool r then rdistinct r 32 else ru r 32);
    tp_toastrelid = zz (if rbool r then rdistinct r 32 else ru r 32) }
let expected_ptr (p : toast_ptr) : string =
  c_rec [ "raw", zs p.tp_rawsize; "ext", zs p.tp_extsize; "vid", zs p.tp_valueid; "rel", zs p.tp_toastrelid;
          "comp", c_bool (ptr_is_compressed p); "method", zs p.tp_method ]
let run_parse ~tag ~s v t =
  emit ~fn:"ParseTOASTPointer" ~tag ~s ~m:(c_ptr (parseTOASTPointer { vis = v; tail = t })) [ hexf v; hexf t ]
let run_is ~tag ?kf ~s v t =
  emit ~fn:"IsTOASTPointer" ~tag ?kf ~s ~m:(c_res c_bool (isTOASTPointer { vis = v; tail = t })) [ hexf v; hexf t ]
let take n l = List.filteri (fun i _ -> i < n) l
let set_byte l i b = List.mapi (fun j x -> if j = i then byte_of_int b else x) l

let case_pointer r =
  let p = gen_ptr r in
  let img = enc_ptr p in
  match rint r 10 with
  | 0 | 1 | 2 | 3 ->
    let extra = pick r [| 0; 0; 2; 7 |] in
    run_parse ~tag:(if ptr_is_compressed p then "ptr_compressed" else "ptr_plain") ~s:(expected_ptr p)
      (img @ rbytes r extra) (if rbool r then rbytes r (rint r 9) else [])
  | 4 -> (* truncated pointer: model vs implementation only *)
    let n = pick r [| 0; 1; 2; 17; 17; 16 |] in
    run_parse ~tag:"short" ~s:"-" (take n img) (if rbool r then rbytes r 20 else [])
  | 5 -> (* not an external datum: first byte is not 0x01 *)
    let b = pick r [| 0x00; 0x02; 0x12; 0x03; 0x11; 0x81; 0xff; 0x13 |] in
    run_parse ~tag:"ptr_notexternal" ~s:"nil" (set_byte img 0 b @ rbytes r (rint r 4)) []
  | 6 -> (* tag byte other than 18: never on disk; model vs implementation only *)
    run_parse ~tag:"ptr_othertag" ~s:"-" (set_byte img 1 (pick r [| 0; 1; 2; 3; 0x13; 0xff |])) []
  | 7 -> run_is ~tag:"is_pointer" ~s:"true" (img @ rbytes r (rint r 3)) (if rbool r then rbytes r 4 else [])
  | 8 -> (* inline datums *)
    let d = rbytes r (1 + rint r 200) in
    let n = List.length d in
    let v = match rint r 3 with
      | 0 when n <= 126 -> enc_varlena VShort d
      | 1 -> enc_varlena VLong d
      | _ -> (* 4-byte header, compressed inline: (len << 2) | 2; make the low byte 0x02 / 0x12 often *)
        let tot = pick r [| 64; 128; 192; 68; 4 + n |] in
        le_enc (nat_of_int 4) (zi (tot * 4 + 2)) @ rbytes r (tot - 4) in
    let kf = if kf_istoast v then Some "C08-istoast-0x02" else None in
    run_is ~tag:(if kf <> None then "is_inline_0x02" else "is_inline") ?kf ~s:(c_bool (datum_is_external v)) v []
  | _ ->
    let n = pick r [| 0; 1; 2; 3 |] in
    let v = List.map byte_of_int (take n [ pick r [| 1; 2; 0x12; 3; 0 |]; rbyte r; rbyte r ]) in
    run_is ~tag:"short" ~s:"-" v (if rbool r then rbytes r 3 else [])

(* ---------------- values ---------------- *)
let gen_value r n : string =
  match rint r 4 with
  | 0 -> String.init n (fun _ -> Char.chr (rbyte r))                                   (* random *)
  | 1 -> let a = 1 + rint r 3 in String.init n (fun _ -> Char.chr (97 + rint r a))      (* small alphabet: long matches *)
  | 2 -> let p = 1 + rint r 40 in let u = String.init p (fun _ -> Char.chr (rbyte r)) in
    String.init n (fun i -> u.[i mod p])                                               (* periodic: self-overlapping matches *)
  | _ -> let w = Array.init 8 (fun _ -> String.init (1 + rint r 30) (fun _ -> Char.chr (32 + rint r 90))) in
    let b = Buffer.create n in
    while Buffer.length b < n do Buffer.add_string b (pick r w) done; Buffer.sub b 0 n    (* text-like *)
let gen_size r =
  match rint r 12 with
  | 0 -> 1 | 1 -> 2 | 2 -> 1 + rint r 40 | 3 -> 1996 | 4 -> 1997 | 5 -> 2000 | 6 -> 3992 | 7 -> 3993
  | 8 -> 1 + rint r 8000 | _ -> 1 + rint r 1500
let gen_big_size r = pick r [| 65536; 40000 + rint r 30000; 65535 |]

(* ---------------- pglz ---------------- *)
(* items by construction along the denotation: every tag form, boundary lengths/offsets, overlaps *)
let gen_pitems_constructed r (target : int) : pitem list =
  let produced = ref 0 and acc = ref [] in
  while !produced < target do
    let lit () = acc := PLit (byte_of_int (if rbool r then rbyte r else 97 + rint r 3)) :: !acc; incr produced in
    if !produced = 0 || rint r 3 = 0 then lit ()
    else begin
      let len = match rint r 10 with
        | 0 -> 3 | 1 -> 17 | 2 -> 18 | 3 -> 19 | 4 -> 273 | 5 -> 272 | 6 -> 4 | _ -> 3 + rint r 271 in
      let maxoff = min !produced 4095 in
      let off = match rint r 10 with
        | 0 -> 1 | 1 -> 2 | 2 -> 255 | 3 -> 256 | 4 -> 257 | 5 -> 4095 | 6 -> maxoff
        | 7 -> 1 + rint r (min maxoff len)            (* overlapping copy: off < len *)
        | _ -> 1 + rint r maxoff in
      let off = max 1 (min off maxoff) in
      acc := PMatch (zi off, zi len) :: !acc; produced := !produced + len
    end
  done;
  List.rev !acc

(* an independent greedy LZ77 matcher (3-byte hash, one candidate): items for a given value *)
let lz_items (v : string) ~(minlen : int) ~(maxlen : int) ~(maxoff : int) : (int * int * int) list =
  (* returns (literal_start, literal_len, then match (off,len)) as a flat list of ops: (`kind`, a, b) *)
  let n = String.length v in
  let tbl = Hashtbl.create 1024 in
  let ops = ref [] in
  let i = ref 0 in
  while !i < n do
    let found =
      if !i + minlen <= n then begin
        let key = String.sub v !i minlen in
        let cand = Hashtbl.find_opt tbl key in
        Hashtbl.replace tbl key !i;
        match cand with
        | Some j when !i - j <= maxoff ->
          let l = ref 0 in
          while !i + !l < n && !l < maxlen && v.[j + !l] = v.[!i + !l] do incr l done;
          if !l >= minlen then Some (!i - j, !l) else None
        | _ -> None
      end else None in
    match found with
    | Some (off, l) -> ops := (1, off, l) :: !ops; i := !i + l
    | None -> ops := (0, Char.code v.[!i], 0) :: !ops; incr i
  done;
  List.rev !ops
let pitems_of_value (v : string) : pitem list =
  List.map (fun (k, a, b) -> if k = 0 then PLit (byte_of_int a) else PMatch (zi a, zi b))
    (lz_items v ~minlen:3 ~maxlen:273 ~maxoff:4095)

let run_pglz ~tag ~s stream t (raw : z) =
  emit ~fn:"decompressPGLZ" ~tag ~s ~m:(c_dres (decompressPGLZ { vis = stream; tail = t } raw)) [ hexf stream; hexf t; zs raw ]
let gen_pitems r ~big : pitem list * string =
  if rbool r then (gen_pitems_constructed r (if big then gen_big_size r else gen_size r), "pglz_constructed")
  else (pitems_of_value (gen_value r (if big then gen_big_size r else gen_size r)), "pglz_compressed")

let case_pglz r ~big =
  let items, tag = gen_pitems r ~big in
  let items = if (not big) && rint r 6 = 0 then take (pick r [| 1; 7; 8; 9; 15; 16; 17 |]) items else items in
  let items = match items with PMatch _ :: _ -> [] | l -> l in
  if items = [] || not (pitems_okb items Z0) then failwith "generator: bad pglz items";
  let stream = pglz_stream items in
  let out = pglz_out items in
  let n = List.length out in
  match (if big then 0 else rint r 10) with
  | 0 | 1 | 2 | 3 | 4 | 5 ->
    run_pglz ~tag:(if big then tag ^ "_big" else tag) ~s:("y:" ^ hex_of_bytes out) stream (if rbool r then rbytes r (rint r 5) else []) (zi n)
  | 6 -> (* raw size claim differs from the stream's: model vs implementation only *)
    let raw = pick r [| n - 1; n + 1; 0; -1; n / 2; 1 lsl 30; n + 100 |] in
    run_pglz ~tag:"pglz_rawsize" ~s:"-" stream [] (zi raw)
  | 7 -> (* truncated stream *)
    let k = rint r (List.length stream + 1) in
    run_pglz ~tag:"pglz_truncated" ~s:"-" (take k stream) (if rbool r then rbytes r 3 else []) (zi n)
  | 8 -> (* one byte altered *)
    let k = rint r (List.length stream) in
    run_pglz ~tag:"pglz_corrupt" ~s:"-" (set_byte stream k (rbyte r)) [] (zi n)
  | _ -> (* arbitrary bytes, biased to control bytes with many tags and offsets 0 / beyond the output *)
    let m = pick r [| 0; 1; 2; 3; 4; 5; 20; 100 |] in
    let v = List.init m (fun i -> byte_of_int (if i mod 9 = 0 && rbool r then pick r [| 0xff; 0x01; 0x02; 0x80; 0 |]
                                               else if rint r 4 = 0 then pick r [| 0; 0x0f; 0xff; 0xf0; 0x10 |] else rbyte r)) in
    run_pglz ~tag:(if m = 0 then "empty" else "pglz_random") ~s:"-" v (if rbool r then rbytes r 4 else []) (zi (pick r [| 0; 1; 10; 300; 5000; -5 |]))

(* ---------------- LZ4 ---------------- *)
let gen_lz4_constructed r (target : int) : lz4seq list * byte list =
  let produced = ref 0 and acc = ref [] in
  while !produced < target do
    let nl = match rint r 10 with 0 -> 0 | 1 -> 14 | 2 -> 15 | 3 -> 16 | 4 -> 15 + 255 | 5 -> 15 + 254 | 6 -> 15 + 256 | 7 -> 15 + 510 | _ -> rint r 40 in
    let nl = if !produced = 0 && nl = 0 then 1 else nl in
    let lits = List.init nl (fun _ -> byte_of_int (if rbool r then rbyte r else 97 + rint r 3)) in
    let avail = !produced + nl in
    let ml = match rint r 10 with 0 -> 4 | 1 -> 18 | 2 -> 19 | 3 -> 20 | 4 -> 19 + 254 | 5 -> 19 + 255 | 6 -> 19 + 256 | 7 -> 19 + 510 | _ -> 4 + rint r 60 in
    (* far offsets are expensive for the (list based) model: only sometimes, never in the 64 KiB cases *)
    let maxoff = min avail (if target > 20000 then 1024 else if rint r 4 = 0 then 65535 else 4096) in
    let off = match rint r 8 with
      | 0 -> 1 | 1 -> 2 | 2 -> 255 | 3 -> 256 | 4 -> maxoff | 5 -> 1 + rint r (min maxoff ml) | _ -> 1 + rint r maxoff in
    let off = max 1 (min off maxoff) in
    acc := { ls_lits = lits; ls_off = zi off; ls_mlen = zi ml } :: !acc;
    produced := avail + ml
  done;
  let nlast = match rint r 6 with 0 -> 0 | 1 -> 5 | 2 -> 15 | 3 -> 14 | 4 -> 15 + 255 | _ -> rint r 30 in
  (List.rev !acc, rbytes r nlast)

(* independent LZ4 block compressor: emits the block bytes directly (not through the Coq encoder) *)
let lz4_compress (v : string) : byte list =
  let n = String.length v in
  let b = Buffer.create (n + 16) in
  let emit_len x = let x = ref x in while !x >= 255 do Buffer.add_char b '\255'; x := !x - 255 done; Buffer.add_char b (Char.chr !x) in
  let ops = lz_items (String.sub v 0 (max 0 (n - 5))) ~minlen:4 ~maxlen:600 ~maxoff:65535 in   (* the list-based model is quadratic in the length of one match *)
  let lit = Buffer.create 64 in
  let flush_seq off ml =
    let nl = Buffer.length lit in
    Buffer.add_char b (Char.chr ((min nl 15) lsl 4 lor (if ml < 0 then 0 else min (ml - 4) 15)));
    if nl >= 15 then emit_len (nl - 15);
    Buffer.add_buffer b lit; Buffer.clear lit;
    if ml >= 0 then begin
      Buffer.add_char b (Char.chr (off land 255)); Buffer.add_char b (Char.chr (off lsr 8));
      if ml - 4 >= 15 then emit_len (ml - 19)
    end in
  List.iter (fun (k, a, l) -> if k = 0 then Buffer.add_char lit (Char.chr a) else flush_seq a l) ops;
  Buffer.add_string lit (String.sub v (max 0 (n - 5)) (n - max 0 (n - 5)));
  flush_seq 0 (-1);
  bstr (Buffer.contents b)

let run_lz4 ~tag ~s block t (raw : z) =
  emit ~fn:"decompressLZ4" ~tag ~s ~m:(c_dres (decompressLZ4 { vis = block; tail = t } raw)) [ hexf block; hexf t; zs raw ]
(* returns block, raw value, tag *)
let gen_lz4 r ~big : byte list * byte list * string =
  if rbool r then begin
    let seqs, last = gen_lz4_constructed r (if big then gen_big_size r else gen_size r) in
    if not (lz4seqs_okb seqs Z0) then failwith "generator: bad lz4 sequences";
    (enc_lz4block seqs last, lz4_out seqs last, "lz4_constructed")
  end else begin
    let v = gen_value r (if big then gen_big_size r else gen_size r) in
    (lz4_compress v, bstr v, "lz4_compressed")
  end

let case_lz4 r ~big =
  let block, out, tag = gen_lz4 r ~big in
  let n = List.length out in
  match (if big then 0 else rint r 10) with
  | 0 | 1 | 2 | 3 | 4 | 5 ->
    run_lz4 ~tag:(if big then tag ^ "_big" else tag) ~s:("y:" ^ hex_of_bytes out) block (if rbool r then rbytes r (rint r 5) else []) (zi n)
  | 6 ->
    let raw = pick r [| n - 1; n + 1; 0; -1; n / 2; 1 lsl 30; n + 100 |] in
    run_lz4 ~tag:"lz4_rawsize" ~s:"-" block [] (zi raw)
  | 7 ->
    let k = rint r (List.length block + 1) in
    run_lz4 ~tag:"lz4_truncated" ~s:"-" (take k block) (if rbool r then rbytes r 3 else []) (zi n)
  | 8 ->
    let k = rint r (List.length block) in
    run_lz4 ~tag:"lz4_corrupt" ~s:"-" (set_byte block k (pick r [| 0; 0xff; 0xf0; 0x0f; rbyte r |])) [] (zi n)
  | _ ->
    let m = pick r [| 0; 1; 2; 3; 4; 5; 20; 100 |] in
    let v = List.init m (fun _ -> byte_of_int (if rint r 3 = 0 then pick r [| 0; 0xff; 0xf0; 0x0f; 0x10; 0x01 |] else rbyte r)) in
    run_lz4 ~tag:(if m = 0 then "empty" else "lz4_random") ~s:"-" v (if rbool r then rbytes r 4 else []) (zi (pick r [| 0; 1; 10; 300; 5000; -5 |]))

(* the pierrec/lz4 compressor runs inside the harness: I = decompressLZ4(CompressBlock(v), |v|); S = v.
   The model cannot see that block, so M repeats S (tag lz4_indep). *)
let case_lz4_indep r =
  let v = gen_value r (if rint r 10 = 0 then gen_big_size r else 13 + gen_size r) in
  let s = "y:" ^ hex_of_string v in
  emit ~fn:"LZ4Independent" ~tag:"lz4_indep" ~s ~m:s [ hex_of_string v ]

(* ---------------- chunks and reassembly ---------------- *)
let mchunk (c : chunk) : tOASTChunk = { chunkID = c.ck_id; chunkSeq = c.ck_seq; data = c.ck_data }
let gen_id r : ZA.t = if rbool r then rdistinct r 32 else ru r 32
let near_ids (id : ZA.t) : ZA.t list =
  let m = ZA.pred (ZA.shift_left ZA.one 32) in
  List.filter (fun x -> not (ZA.equal x id))
    (List.map (fun x -> ZA.logand x m) [ ZA.succ id; ZA.pred id; ZA.logxor id (ZA.of_int 0x10000); ZA.logxor id (ZA.of_int 0x1000000); ZA.logxor id (ZA.of_int 0x100) ])
let gen_chunk_size r = pick r [| 1; 2; 3; 1996; 1996; 2000; 500; 1 + rint r 3000 |]

(* foreign chunks: other value ids (some differing in one byte from [id]), seqs overlapping those of the
   value, duplicates among themselves *)
let gen_foreign r (id : ZA.t) : chunk list =
  let nvals = pick r [| 0; 1; 2; 5; 1 + rint r 49 |] in
  let near = Array.of_list (near_ids id) in
  List.concat (List.init nvals (fun _ ->
    let fid = if rint r 3 = 0 then pick r near else gen_id r in
    if ZA.equal fid id then [] else begin
      let cs = chunks_of (zz fid) (nat_of_int (1 + rint r 30)) (rbytes r (1 + rint r 60)) in
      if rint r 5 = 0 then cs @ cs else cs
    end))

(* payload and pointer of a stored value: plain, pglz, lz4 *)
let gen_stored r ~big (id : ZA.t) (rel : ZA.t) : byte list * byte list * toast_ptr * string =
  match rint r 3 with
  | 0 ->
    let v = bstr (gen_value r (if big then gen_big_size r else gen_size r)) in
    let n = List.length v in
    (v, v, { tp_rawsize = zi (n + 4); tp_extsize = zi n; tp_method = zi 0; tp_valueid = zz id; tp_toastrelid = zz rel }, "plain")
  | 1 ->
    let items, _ = gen_pitems r ~big in
    let items = match items with PMatch _ :: _ -> [ PLit (byte_of_int 1) ] | l -> l in
    let stream = pglz_stream items and out = pglz_out items in
    let n = List.length out in
    let payload = compressed_payload (zi n) (zi 0) stream in
    (* PostgreSQL stores the compressed form only when it is smaller; the decoder must not care *)
    (out, payload, { tp_rawsize = zi (n + 4); tp_extsize = zi (List.length payload); tp_method = zi 0; tp_valueid = zz id; tp_toastrelid = zz rel }, "pglz")
  | _ ->
    let block, out, _ = gen_lz4 r ~big in
    let n = List.length out in
    let payload = compressed_payload (zi n) (zi 1) block in
    (out, payload, { tp_rawsize = zi (n + 4); tp_extsize = zi (List.length payload); tp_method = zi 1; tp_valueid = zz id; tp_toastrelid = zz rel }, "lz4")

let model_ptr (p : toast_ptr) : tOASTPointer =
  { rawSize = p.tp_rawsize; extSize = p.tp_extsize; valueID = p.tp_valueid; toastRelID = p.tp_toastrelid;
    isCompressed = ptr_is_compressed p; compressionMethod = p.tp_method }

let run_reassemble ~tag ~s (cs : tOASTChunk list) (id : z) (p : tOASTPointer option) =
  emit ~fn:"ReassembleTOAST" ~tag ~s ~m:(c_valres (reassembleTOAST_m cs id p)) [ a_chunks cs; zs id; a_mptr p ]

let rec perms = function
  | [] -> [ [] ]
  | l -> List.concat (List.mapi (fun i x -> List.map (fun p -> x :: p) (perms (List.filteri (fun j _ -> j <> i) l))) l)

let case_reassemble r ~big =
  let id = gen_id r and rel = gen_id r in
  let out, payload, p, kind = gen_stored r ~big id rel in
  let size = gen_chunk_size r in
  let size = if List.length payload / size > 3000 then 1996 else size in
  let own = chunks_of (zz id) (nat_of_int size) payload in
  let comp = ptr_is_compressed p in
  (* a stored form that is not smaller than the raw value is never written by PostgreSQL with a pointer
     claiming compression; such cases are checked with the pointer's own flag (S = stored payload) *)
  let expect_with_ptr = if kind = "plain" then c_val payload else if comp then c_val out else "-" in
  let expect_noptr = c_val payload in
  match (if big then 0 else rint r 10) with
  | 0 | 1 | 2 | 3 | 4 ->
    let all = shuffle r (own @ gen_foreign r id) in
    let withptr = rint r 4 <> 0 in
    run_reassemble ~tag:("re_" ^ kind ^ (if big then "_big" else "") ^ (if withptr then "" else "_noptr"))
      ~s:(if withptr then expect_with_ptr else expect_noptr) (List.map mchunk all) (zz id) (if withptr then Some (model_ptr p) else None)
  | 5 -> (* every permutation position for small chunk counts: chunk size chosen so that there are 2..5 chunks *)
    let k = 2 + rint r 4 in
    let n = List.length payload in
    let size = max 1 ((n + k - 1) / k) in
    let own = chunks_of (zz id) (nat_of_int size) payload in
    let ps = perms own in
    let pm = if List.length own <= 5 then List.nth ps (rint r (List.length ps)) else shuffle r own in
    run_reassemble ~tag:"re_perm" ~s:expect_with_ptr (List.map mchunk pm) (zz id) (Some (model_ptr p))
  | 6 -> (* physically reversed *)
    run_reassemble ~tag:"re_reversed" ~s:expect_with_ptr (List.map mchunk (List.rev own @ gen_foreign r id)) (zz id) (Some (model_ptr p))
  | 7 -> (* value absent / one chunk missing / a chunk stored twice with identical content: model vs implementation *)
    let cs = match rint r 3 with
      | 0 -> gen_foreign r id
      | 1 -> (match own with _ :: t -> shuffle r t | [] -> [])
      | _ -> shuffle r (own @ take 1 own) in
    run_reassemble ~tag:"re_damaged" ~s:"-" (List.map mchunk cs) (zz id) (if rbool r then Some (model_ptr p) else None)
  | 8 -> (* pointer claims compression / a method that the payload does not have *)
    let mp = model_ptr p in
    let mp = { mp with isCompressed = true; compressionMethod = zi (pick r [| 0; 1; 2; 3 |]);
                       rawSize = zi (pick r [| 0; 3; 4; 5; List.length out + 4; List.length out + 3; 1 lsl 31 |]) } in
    run_reassemble ~tag:"re_wrongptr" ~s:"-" (List.map mchunk (shuffle r own)) (zz id) (Some mp)
  | _ -> (* tiny payloads around the 4-byte tcinfo guard *)
    let n = pick r [| 1; 3; 4; 5; 6 |] in
    let pl = rbytes r n in
    let mp = { (model_ptr p) with isCompressed = true; rawSize = zi (pick r [| 5; 8; 100 |]) } in
    run_reassemble ~tag:"re_tiny" ~s:"-" (List.map mchunk (chunks_of (zz id) (nat_of_int 2) pl)) (zz id) (Some mp)

(* TOASTReader: LoadTOASTTable state + ReadValue *)
let a_reader (loads : (z * tOASTChunk list) list) : string =
  match loads with [] -> "-" | _ -> String.concat "|" (List.map (fun (rel, cs) -> zs rel ^ "=" ^ a_chunks cs) loads)
let case_readvalue r =
  let id = gen_id r and rel = gen_id r in
  let out, payload, p, kind = gen_stored r ~big:false id rel in
  let own = chunks_of (zz id) (nat_of_int (gen_chunk_size r)) payload in
  let table = List.map mchunk (shuffle r (own @ gen_foreign r id)) in
  let other_rel = zz (List.hd (near_ids rel)) in
  let other = List.map mchunk (gen_foreign r id @ chunks_of (zz id) (nat_of_int 7) (rbytes r 20)) in
  let expect = if kind = "plain" then c_val payload else if ptr_is_compressed p then c_val out else "-" in
  let run ~tag ~s loads v t =
    (* loads are applied in order; the model's reader keeps the newest binding first *)
    let rd = List.fold_left (fun st (k, cs) -> loadChunks st k cs) [] loads in
    emit ~fn:"ReadValue" ~tag ~s ~m:(c_valres (readValue_m rd { vis = v; tail = t })) [ a_reader loads; hexf v; hexf t ] in
  match rint r 7 with
  | 6 ->
    (* ONE reader, two TOAST relations that both hold a value with the SAME value id (value OIDs are unique per TOAST relation
       only), resolved one after the other in either order: each pointer must get its own relation's bytes (seeded change
       C08-5: a cache keyed by the value id alone) *)
    let rel2 = List.hd (near_ids rel) in
    let out2, payload2, p2, kind2 = gen_stored r ~big:false id rel2 in
    let own2 = chunks_of (zz id) (nat_of_int (gen_chunk_size r)) payload2 in
    let table2 = List.map mchunk (shuffle r (own2 @ gen_foreign r id)) in
    let expect2 = if kind2 = "plain" then c_val payload2 else if ptr_is_compressed p2 then c_val out2 else "-" in
    let loads = shuffle r [ (zz rel, table); (zz rel2, table2) ] in
    let rd = List.fold_left (fun st (k, cs) -> loadChunks st k cs) [] loads in
    let first_a = rbool r in
    let (pa, ea), (pb, eb) = if first_a then ((p, expect), (p2, expect2)) else ((p2, expect2), (p, expect)) in
    let m = c_valres (readValue_m rd { vis = enc_ptr pa; tail = [] }) ^ ";" ^ c_valres (readValue_m rd { vis = enc_ptr pb; tail = [] })
            ^ ";" ^ c_valres (readValue_m rd { vis = enc_ptr pa; tail = [] }) in
    let s = if ea = "-" || eb = "-" then "-" else ea ^ ";" ^ eb ^ ";" ^ ea in
    emit ~fn:"ReadValueSeq" ~tag:("rv_same_id_two_rels_" ^ kind ^ "_" ^ kind2) ~s ~m [ a_reader loads; hexf (enc_ptr pa); hexf (enc_ptr pb) ]
  | 0 | 1 -> run ~tag:("rv_" ^ kind) ~s:expect (shuffle r [ (zz rel, table); (other_rel, other) ]) (enc_ptr p @ rbytes r (rint r 3)) []
  | 2 -> (* the relation loaded twice: the later load replaces the earlier one *)
    run ~tag:"rv_reload" ~s:expect [ (zz rel, other); (other_rel, other); (zz rel, table) ] (enc_ptr p) (rbytes r 2)
  | 3 -> (* relation not loaded *)
    run ~tag:"rv_norel" ~s:"-" [ (other_rel, table) ] (enc_ptr p) []
  | 4 -> (* not a pointer: the datum itself comes back *)
    let d = rbytes r (pick r [| 0; 1; 17; 18; 19; 40 |]) in
    let d = match d with b :: t when int_of_byte b = 1 -> byte_of_int 3 :: t | l -> l in
    run ~tag:"rv_inline" ~s:(c_val d) [ (zz rel, table) ] d []
  | _ -> run ~tag:"rv_short_ptr" ~s:"-" [ (zz rel, table) ] (take 17 (enc_ptr p)) (rbytes r 4)

(* decompressCap: exhaustive-ish boundary grid *)
let case_cap r =
  let n = pick r [| 0; 1; 2; 100; 4096 |] in
  let raw = pick r [| -1; 0; 1; n * 256 - 1; n * 256; n * 256 + 1; 1 lsl 30; -(1 lsl 40); rint r 100000 |] in
  emit ~fn:"decompressCap" ~tag:"cap" ~s:"-" ~m:(zs (decompressCap (zi raw) (zi n))) [ string_of_int raw; string_of_int n ]

(* ---------------- TOAST relation files (heap pages written with the C02 reference writer) ---------------- *)
let c_chunk (id : z) (seq : z) (d : byte list) = zs id ^ ":" ^ zs seq ^ ":" ^ hexf d
let c_mchunks (r : tOASTChunk list res) : string =
  c_res (fun cs -> c_list (List.map (fun c -> c_chunk c.chunkID c.chunkSeq c.data) cs)) r

(* infomask values: HEAP_HASVARWIDTH always; visible = XMIN_COMMITTED and (XMAX_INVALID or not XMAX_COMMITTED) *)
(* 0x0300 = HEAP_XMIN_FROZEN (both xmin hint bits, as after VACUUM FREEZE): committed (seeded change C08-16);
   0x0200 alone = HEAP_XMIN_INVALID: the inserter aborted *)
let visible_masks = [| 0x0902; 0x0102; 0x0912; 0x0182; 0x0b02; 0x0302; 0x0b12 |]
let dead_masks = [| 0x0502; 0x0002; 0x0a02; 0x0402; 0x0d02 land 0xf5ff; 0x0202; 0x0602; 0x0702 |]   (* deleted / insert not committed / aborted *)

let mk_tuple r (visible : bool) (f : vl_form) (c : chunk) : tup =
  { tp_head = rbytes r 18; tp_natts = zi 3; tp_flags2 = zi 0;
    tp_infomask = zi (pick r (if visible then visible_masks else dead_masks));
    tp_hoff = zi 24; tp_mid = [ byte_of_int 0 ]; tp_data = enc_chunk_tuple f c }

(* lay tuples out downward from the end of the page, MAXALIGNed, line pointers in the given order *)
let mk_page r (tuples : tup list) : page =
  let n = List.length tuples in
  let lower = 24 + 4 * n in
  let body = Bytes.make (8192 - lower) '\000' in
  let upper = ref 8192 in
  let lps = List.map (fun t ->
      let img = strb (enc_tuple t) in
      let len = String.length img in
      upper := (!upper - len) land (lnot 7);
      Bytes.blit_string img 0 body (!upper - lower) len;
      ({ lp_off = zi !upper; lp_flags = zi 1; lp_len = zi len }, Some t)) tuples in
  (* a few unused / dead line pointers in between *)
  { pg_lsn_etc = rbytes r 12; pg_upper = zi !upper; pg_special = zi 8192; pg_version = zi 4; pg_prune = rbytes r 4;
    pg_lps = lps; pg_body = bstr (Bytes.to_string body) }

let tuple_size (t : tup) = 24 + List.length t.tp_data
(* split the tuple list into pages by available space *)
let paginate r (tuples : tup list) : block list =
  let pages = ref [] and cur = ref [] and used = ref 24 in
  List.iter (fun t ->
      let need = ((tuple_size t + 7) land (lnot 7)) + 4 in
      if !used + need > 8192 - 8 || (!cur <> [] && rint r 12 = 0) then begin
        pages := List.rev !cur :: !pages; cur := []; used := 24 end;
      cur := t :: !cur; used := !used + need) tuples;
  if !cur <> [] then pages := List.rev !cur :: !pages;
  let blocks = List.concat (List.map (fun ts -> (if rint r 8 = 0 then [ BZero ] else []) @ [ BPage (mk_page r ts) ]) (List.rev !pages)) in
  blocks

(* a TOAST relation: 1..50 values, chunk sizes as PostgreSQL (1996) or small, rows shuffled physically,
   dead versions of some rows (same id/seq, different bytes), returns file bytes and the visible rows in physical order *)
let gen_relation r ~(values : (ZA.t * byte list) list) : byte list * chunk list =
  let rows = List.concat (List.map (fun (id, payload) ->
      let size = pick r [| 1996; 1996; 1996; 500; 100; 2000 |] in
      let size = if List.length payload / size > 40 then 1996 else size in
      List.map (fun c -> (true, c)) (chunks_of (zz id) (nat_of_int size) payload)) values) in
  let dead = List.concat (List.map (fun (_, c) ->
      if rint r 6 = 0 then [ (false, { c with ck_data = rbytes r (1 + rint r (min 300 (List.length c.ck_data + 5))) }) ] else []) rows) in
  let all = shuffle r (rows @ dead) in
  let tuples = List.map (fun (vis, c) ->
      let f = if List.length c.ck_data <= 126 && rint r 3 = 0 then VShort else VLong in
      mk_tuple r vis f c) all in
  let blocks = paginate r tuples in
  (* one page in four relations is filled to the last byte (pd_lower = pd_upper = 48): three values of two chunks each,
     tuple images 3 x 2032 + 680 + 680 + 688 bytes under six line pointers (seeded change C08-18) *)
  let full_rows =
    if rint r 4 <> 0 || List.exists (fun (id, _) -> ZA.geq id (ZA.of_int 777000001) && ZA.leq id (ZA.of_int 777000003)) values then []
    else shuffle r (List.concat (List.mapi (fun i tail ->
        let id = zi (777000001 + i) in
        [ { ck_id = id; ck_seq = zi 0; ck_data = rbytes r 1996 }; { ck_id = id; ck_seq = zi 1; ck_data = rbytes r tail } ]) [ 644; 644; 652 ])) in
  let front = rbool r in
  let blocks = if full_rows = [] then blocks else
      let pg = mk_page r (List.map (fun c -> mk_tuple r true VLong c) full_rows) in
      if iz pg.pg_upper <> 48 then failwith "C08 gen: full page is not full";
      if front then BPage pg :: blocks else blocks @ [ BPage pg ] in
  let tl = if rint r 4 = 0 then rbytes r (1 + rint r 300) else [] in
  let vis = List.map snd (List.filter fst all) in
  let vis_rows = if front then full_rows @ vis else vis @ full_rows in
  (enc_file blocks tl, vis_rows)

let c_stats_spec (rel : z) (cs : chunk list) : string =
  match cs with [] -> "nil" | _ ->
    let ids = List.sort (fun a b -> ZA.compare (zarith_of_z a) (zarith_of_z b)) (ids_of cs) in
    let counts = List.sort_uniq compare (List.map (fun id -> iz (count_of cs id)) ids) in
    c_rec [ "rel", zs rel; "chunks", string_of_int (List.length cs); "unique", string_of_int (List.length ids);
            "size", zs (total_bytes cs); "max", zs (max_count cs);
            "dist", c_list (List.map (fun k -> string_of_int k ^ ":" ^ zs (values_with_count cs (zi k))) counts);
            "values", c_list (List.map (fun id -> zs id ^ ":" ^ zs (count_of cs id) ^ ":" ^ zs (total_bytes (chunks_with cs id))) ids);
            "avg", "ok" ]
let c_stats_model (r : tOASTVerboseInfo option res) : string =
  c_res (function None -> "nil" | Some i ->
    let dist = List.sort (fun (a, _) (b, _) -> compare (iz a) (iz b)) i.ti_dist in
    let vals = List.sort (fun a b -> ZA.compare (zarith_of_z a.vi_id) (zarith_of_z b.vi_id)) i.ti_values in
    c_rec [ "rel", zs i.ti_relid; "chunks", zs i.ti_total_chunks; "unique", zs i.ti_unique;
            "size", zs i.ti_total_size; "max", zs i.ti_max;
            "dist", c_list (List.map (fun (k, v) -> zs k ^ ":" ^ zs v) dist);
            "values", c_list (List.map (fun v -> zs v.vi_id ^ ":" ^ zs v.vi_num ^ ":" ^ zs v.vi_size) vals);
            "avg", "ok" ]) r

let case_pages r k =
  let nvals = pick r [| 1; 2; 3; 5; 10; 1 + rint r 50 |] in
  let ids = List.sort_uniq ZA.compare (List.init nvals (fun i -> if i > 0 && rint r 3 = 0 then ZA.of_int (16384 + rint r 40) else gen_id r)) in
  let big = List.length ids <= 6 in
  let values = List.map (fun id -> (id, rbytes r (if big then pick r [| 1; 50; 126; 127; 1996; 1997; 2500; 1 + rint r 6000 |]
                                                      else pick r [| 1; 50; 126; 127; 300; 1 + rint r 600 |]))) ids in
  let ct = if rbool r then rbytes r 9 else [] in
  match rint r 6 with
  | 0 | 1 ->
    let file, vis_rows = gen_relation r ~values in
    let s = c_list (List.map (fun c -> c_chunk c.ck_id c.ck_seq c.ck_data) vis_rows) in
    emit ~fn:"ReadTOASTTable" ~tag:"table" ~s ~m:(c_mchunks (readTOASTTable { vis = file; tail = ct })) [ hexf file; hexf ct ]
  | 2 | 3 ->
    let file, vis_rows = gen_relation r ~values in
    let rel = zz (gen_id r) in
    let order = match readTOASTTable { vis = file; tail = ct } with Ok cs -> first_seen_ids cs | Panic -> [] in
    emit ~fn:"GetTOASTVerboseInfo" ~tag:"stats" ~s:(c_stats_spec rel vis_rows)
      ~m:(c_stats_model (getTOASTVerboseInfo rel { vis = file; tail = ct } order)) [ zs rel; hexf file; hexf ct ]
  | 4 ->
    (* end to end: heap file -> LoadTOASTTable -> ReadValue(pointer bytes) *)
    let id = List.hd ids and rel = gen_id r in
    let out, payload, p, kind = gen_stored r ~big:false id rel in
    let values = (id, payload) :: List.tl values in
    let file, _ = gen_relation r ~values in
    let expect = if kind = "plain" then c_val payload else if ptr_is_compressed p then c_val out else "-" in
    let m = match loadTOASTTable [] (zz rel) { vis = file; tail = ct } with
      | Ok st -> c_valres (readValue_m st { vis = enc_ptr p; tail = [] }) | Panic -> "panic" in
    if rint r 3 = 0 then begin
      (* the relation is loaded TWICE into one reader (re-read): the later load replaces the earlier one, it is not added to
         it (seeded change C08-9) *)
      let m2 = match loadTOASTTable [] (zz rel) { vis = file; tail = ct } with
        | Ok st -> (match loadTOASTTable st (zz rel) { vis = file; tail = ct } with
            | Ok st2 -> c_valres (readValue_m st2 { vis = enc_ptr p; tail = [] }) | Panic -> "panic")
        | Panic -> "panic" in
      emit ~fn:"TableReadValueReload" ~tag:("e2e_reload_" ^ kind) ~s:expect ~m:m2 [ zs (zz rel); hexf file; hexf ct; hexf (enc_ptr p) ]
    end else
    emit ~fn:"TableReadValue" ~tag:("e2e_" ^ kind) ~s:expect ~m [ zs (zz rel); hexf file; hexf ct; hexf (enc_ptr p) ]
  | _ ->
    (* damaged relation files: model vs implementation only (short rows, empty file, random page) *)
    let file = match rint r 3 with
      | 0 -> []
      | 1 -> let t = { (mk_tuple r true VLong { ck_id = zi 5; ck_seq = zi 0; ck_data = rbytes r 10 }) with
                       tp_data = rbytes r (pick r [| 0; 7; 8; 9; 12 |]) } in
        enc_file [ BPage (mk_page r [ t ]) ] []
      | _ -> let t = { (mk_tuple r true VLong { ck_id = zi 5; ck_seq = zi 0; ck_data = rbytes r 10 }) with
                       tp_data = rbytes r 8 @ List.map byte_of_int [ pick r [| 1; 3; 0x05; 0xff; 0x10; 0x02 |]; rbyte r; 0; 0; 1; 2 ] } in
        enc_file [ BPage (mk_page r [ t ]) ] [] in
    emit ~fn:"ReadTOASTTable" ~tag:(if file = [] then "empty" else "table_damaged") ~s:"-"
      ~m:(c_mchunks (readTOASTTable { vis = file; tail = ct })) [ hexf file; hexf ct ]

let gen_case r k =
  match k mod 20 with
  | 0 | 1 | 2 -> case_pointer r
  | 3 | 4 | 5 | 6 -> case_pglz r ~big:(k mod 400 = 3)
  | 7 | 8 | 9 | 10 -> case_lz4 r ~big:(k mod 400 = 7)
  | 11 -> case_lz4_indep r
  | 12 | 13 | 14 | 15 -> case_reassemble r ~big:(k mod 400 = 12)
  | 16 | 17 -> case_readvalue r
  | 18 -> if k mod 60 = 18 then case_cap r else case_pages r k
  | _ -> case_pages r k

let gen seed n =
  let prof = Sys.getenv_opt "C08_PROF" <> None in
  for k = 0 to n - 1 do
    let t0 = Sys.time () in
    gen_case (rng_for seed k) k;
    if prof && Sys.time () -. t0 > 0.03 then Printf.eprintf "case %d (kind %d): %.2fs\n" k (k mod 20) (Sys.time () -. t0)
  done
let () = main gen
