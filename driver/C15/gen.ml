(* C15 driver: dumps (several databases / tables / rows, every value kind, nesting <= 5), patterns from a
   small grammar (see rx.ml) plus invalid ones, MaxResults around the number of hits, both flags; secret
   scan with fake detectors (exact comparison) and with the real trufflehog detectors (coordinates of
   planted known-format tokens). *)
open Model
open Util
open Value
open Rx

let bs = bytes_of_string
let sb = string_of_bytes

(* ------------------------------------------------------------------ rendering (= harness/c15.go) *)
let hname (b : byte list) = "h" ^ hex_of_bytes b
let enc_table (t : tableDump) =
  "(" ^ hname t.t_name ^ " (" ^ String.concat " " (List.map hname t.t_columns) ^ ") ("
  ^ String.concat " " (List.map (fun r -> c_gval (VMap r)) t.t_rows) ^ "))"
let enc_db (d : databaseDump) = "(" ^ hname d.d_name ^ " " ^ String.concat " " (List.map enc_table d.d_tables) ^ ")"
let enc_dump (d : dumpResult) = "(" ^ String.concat " " (List.map enc_db d) ^ ")"

let c_hit (h : searchResult) =
  c_rec [ "db", c_str h.sr_database; "table", c_str h.sr_table; "col", c_str h.sr_column; "row", zs h.sr_rownum;
          "value", c_gval h.sr_value; "incl", (match h.sr_row with None -> "none" | Some r -> c_gval (VMap r)) ]
let c_serr = function ENoOptions -> "err:no_options" | EInvalidPattern -> "err:invalid_pattern" | EDump -> "err:dump"
let c_search (r : (serr, searchResult list) sum) =
  match r with Inl e -> c_serr e | Inr hs -> c_list (List.map c_hit hs)
let c_finding (f : (string * string) secretFinding) =
  c_rec [ "db", c_str f.f_database; "table", c_str f.f_table; "col", c_str f.f_column; "row", zs f.f_rowindex;
          "det", fst f.f_result; "raw", "s:" ^ hex_of_string (snd f.f_result) ]
let c_dres (n, raw) = n ^ ":" ^ hex_of_string raw
let enc_opts (o : searchOptions) =
  [ hexf o.pattern; (if o.caseSensitive then "1" else "0"); (if o.includeRow then "1" else "0"); zs o.maxResults ]

(* ------------------------------------------------------------------ pools *)
let strings = [| "alice"; "Alice"; "ALICE"; "bob"; "api_key"; "API_KEY"; "sk_live_abc123"; "secret"; "Secret42";
                 "hello world"; "a"; ""; "42"; "x-ray"; "test"; "Test"; "attest"; "abc"; "ABC"; "abcabc"; "a.c";
                 "a|b"; "tru"; "true story"; "nil"; "<nil>"; "key"; "value"; "1.5"; "e+06"; "map[k:v]"; "[1 2]";
                 "-7"; "12345"; "Bob Smith"; "b0b" |]
let colnames = [| "id"; "name"; "email"; "data"; "tags"; "z"; "a"; "Name"; "note"; "k1"; "ab"; "abc"; "" |]
let keynames = [| "k"; "key"; "name"; "alice"; "Secret"; "x"; "id"; "42"; "test"; "API_KEY" |]
let f64_pool = [| 0.0; 1.5; -2.25; 42.0; 1e6; 3.14; 0.001; 1e-5; 123456.789; 1234567.0; 100000.0; nan; infinity;
                  neg_infinity; 1e21; 0.1; 12345.0; -7.0 |]

let rstring r = if rint r 8 = 0 then String.init (1 + rint r 5) (fun _ -> pick r [| 'a'; 'b'; 'A'; '1'; '_'; ' ' |]) else pick r strings

let rscalar r : gval =
  match rint r 14 with
  | 0 -> VNil
  | 1 -> VBool (rbool r)
  | 2 -> VI16 (zi (pick r [| 42; -7; 0; 12345; 7 |]))
  | 3 -> VI32 (zi (pick r [| 42; -7; 1; 12345; 100000 |]))
  | 4 -> VI64 (z_of_zarith (pick r [| ZA.of_int 42; ZA.of_string "9007199254740993"; ZA.of_int (-12345) |]))
  | 5 -> VInt (zi (pick r [| 42; 5; -1 |]))
  | 6 -> VU32 (zi (pick r [| 42; 16384; 4294967295 |]))
  | 7 -> VF64 (zbits_of_float (pick r f64_pool))
  | 8 -> VF32 (zi (fst (pick r f32_pool)))
  | 9 -> (match rint r 3 with 0 -> VU16 (zi 42) | 1 -> VU64 (zi 12345) | _ -> VBytes (bs (pick r [| "abc"; ""; "A1" |])))
  | _ -> VStr (bs (rstring r))

let rec distinct_keys r pool n acc =
  if n <= 0 then List.rev acc else
    let k = pick r pool in
    if List.mem k acc then distinct_keys r pool (n - 1) acc else distinct_keys r pool (n - 1) (k :: acc)

let rec rvalue r (depth : int) : gval =
  if depth <= 0 || rint r 3 > 0 then rscalar r else
    match rint r 7 with
    | 0 -> VListNil
    | 1 | 2 | 3 -> VList (List.init (rint r 4) (fun _ -> rvalue r (depth - 1)))
    | _ -> VMap (List.map (fun k -> (bs k, rvalue r (depth - 1))) (distinct_keys r keynames (rint r 4) []))

(* a value with the given text buried at the given depth *)
let rec rbury r (depth : int) (leaf : gval) : gval =
  if depth <= 0 then leaf else
    if rbool r then
      let pre = List.init (rint r 2) (fun _ -> rscalar r) and post = List.init (rint r 2) (fun _ -> rscalar r) in
      VList (pre @ [ rbury r (depth - 1) leaf ] @ post)
    else
      let ks = distinct_keys r keynames 3 [] in
      let n = List.length ks in
      let at = rint r n in
      VMap (List.mapi (fun i k -> (bs k, if i = at then rbury r (depth - 1) leaf else rscalar r)) ks)

let rec depth_of = function
  | VList l -> 1 + List.fold_left (fun a v -> max a (depth_of v)) 0 l
  | VMap m -> 1 + List.fold_left (fun a (_, v) -> max a (depth_of v)) 0 m
  | _ -> 0

let rrow r : row =
  let ks = distinct_keys r colnames (1 + rint r 4) [] in
  shuffle r (List.map (fun k -> (bs k, if rint r 4 = 0 then rbury r (1 + rint r 5) (rscalar r) else rvalue r 3)) ks)

let rtable r (name : string) : tableDump =
  let rows = List.init (match rint r 6 with 0 -> 0 | 1 -> 1 | _ -> 1 + rint r 4) (fun _ -> rrow r) in
  let keys = List.sort_uniq compare (List.concat_map (fun row -> List.map (fun (k, _) -> sb k) row) rows) in
  let cols =
    match rint r 5 with
    | 0 -> []                                                    (* no column information *)
    | 1 -> shuffle r keys                                        (* all, not sorted *)
    | 2 -> shuffle r (keys @ [ "ghost"; pick r colnames ])       (* extra declared columns, duplicates *)
    | 3 -> List.filteri (fun i _ -> i mod 2 = 0) (shuffle r keys)  (* only some declared *)
    | _ -> List.rev keys in
  { t_name = bs name; t_columns = List.map bs cols; t_rows = rows }

let rdump r : dumpResult =
  let ndb = match rint r 6 with 0 -> 0 | 1 | 2 -> 1 | 3 | 4 -> 2 | _ -> 3 in
  List.init ndb (fun i ->
      let nt = match rint r 6 with 0 -> 0 | 1 | 2 -> 1 | 3 | 4 -> 2 | _ -> 3 in
      { d_name = bs (pick r [| "postgres"; "app"; "App"; "db" ^ string_of_int i |]);
        d_tables = List.init nt (fun j -> rtable r (pick r [| "users"; "t"; "secrets"; "Users"; "t" ^ string_of_int j |])) })

(* all texts of a dump (to aim patterns at) *)
let dump_texts (d : dumpResult) : string list =
  List.concat_map (fun db -> List.concat_map (fun t -> List.concat_map (fun row ->
      List.concat_map (fun (_, v) -> List.map sb (texts show v)) row) t.t_rows) db.d_tables) d

(* ------------------------------------------------------------------ patterns *)
let quote (s : string) : string =
  String.concat "" (List.map (fun c -> if is_punct c && c <> '_' && c <> '-' && c <> '<' && c <> '>' && c <> ':' && c <> '/'
                               then "\\" ^ String.make 1 c else String.make 1 c)
                      (List.init (String.length s) (String.get s)))
let flipcase s = String.map (fun c -> if c >= 'a' && c <= 'z' then upper c else lower c) s
let invalid_patterns = [| "("; ")"; "[a"; "a["; "*a"; "+"; "?x"; "a**"; "\\"; "(?z)a"; "a{2,1}"; "[z-a]"; "\\8"; "\\q";
                          "(?P<n>"; "[]"; "x(?i"; "ab(";
                          (* a group closed before it is opened: invalid on its own, but VALID once something wraps the pattern in
                             parentheses - the case-insensitive flag must be prepended, not wrapped around (seeded change C15-8) *)
                          ")("; "alpha)|(beta"; "a)(b"; ")|("; "x)y(z" |]
let alnum c = (c >= 'a' && c <= 'z') || (c >= 'A' && c <= 'Z') || (c >= '0' && c <= '9')

let rpattern r (texts : string list) : string * string =
  let base () =
    let s = if texts <> [] && rint r 10 < 9 then pickl r texts else pick r strings in
    let n = String.length s in
    if n > 3 && rbool r then (let a = rint r (n - 1) in String.sub s a (1 + rint r (n - a - 1)) |> fun x -> if x = "" then s else x) else s in
  match rint r 20 with
  | 0 -> (pick r invalid_patterns, "invalid")
  | 1 -> (quote (flipcase (base ())), "lit_flip")
  | 2 -> ("^" ^ quote (base ()), "bol")
  | 3 -> (quote (base ()) ^ "$", "eol")
  | 4 -> ("^" ^ quote (base ()) ^ "$", "whole")
  | 5 | 6 -> (String.concat "|" (List.init (2 + rint r 2) (fun _ -> quote (base ()))), "alt")
  | 7 | 8 -> (* one alphanumeric character replaced by a class or a dot *)
    let s = base () in
    let n = String.length s in
    let cands = List.filter (fun i -> alnum s.[i]) (List.init n (fun i -> i)) in
    if cands = [] then (quote s, "lit") else
      let i = pickl r cands in
      let c = s.[i] in
      let repl = match rint r 5 with
        | 0 -> "."
        | 1 -> if c >= '0' && c <= '9' then "[0-9]" else if c >= 'a' && c <= 'z' then "[a-z]" else "[A-Z]"
        | 2 -> Printf.sprintf "[%c%c]" c (pick r [| 'q'; 'Z'; '7' |])
        | 3 -> Printf.sprintf "[^%c]" (pick r [| c; 'q'; lower c; upper c |])
        | _ -> if c >= '0' && c <= '9' then "\\d" else "\\w" in
      (quote (String.sub s 0 i) ^ repl ^ quote (String.sub s (i + 1) (n - i - 1)), "class")
  | 9 -> (* a quantifier after one character *)
    let s = base () in
    let n = String.length s in
    if n = 0 || not (alnum s.[n - 1]) then (quote s, "lit") else
      let i = rint r n in
      if not (alnum s.[i]) then (quote s, "lit") else
        (quote (String.sub s 0 (i + 1)) ^ pick r [| "+"; "*"; "?" |] ^ quote (String.sub s (i + 1) (n - i - 1)), "quant")
  | 10 -> (pick r [| "\\d+"; "^\\d+$"; "[0-9]"; "^$"; ""; "^-"; "\\d\\d\\d"; "^\\w+$"; "\\s" |], "generic")
  | 11 -> (pick r [| "true"; "nil"; "^<nil>$"; "map\\["; "^\\["; "\\]$"; "^\\[\\]$"; "e\\+"; "NaN"; "Inf"; "^1\\.5$"; ":"; " " |], "render")
  | 12 -> ("(?i)" ^ quote (flipcase (base ())), "explicit_ci")
  | 13 -> (* a pattern that itself opens with "(?": a non-capturing group around an alternation, in the other letter case, so that
             it matches only through the (?i) the tool prepends when CaseSensitive is off (seeded change C15-5) *)
    let bs' = List.init (1 + rint r 2) (fun _ -> base ()) in
    if List.exists (fun b -> String.contains b '\\') bs' then (quote (List.hd bs'), "lit")
    else ("(?:" ^ String.concat "|" (List.map (fun b -> quote (flipcase b)) bs') ^ ")", "noncap_group")
  | _ -> (quote (base ()), "lit")

(* ------------------------------------------------------------------ search cases *)
let case_search r =
  let d = rdump r in
  let pat, ptag = rpattern r (dump_texts d) in
  let cs = rbool r and incl = rbool r in
  let o0 = { pattern = bs pat; caseSensitive = cs; includeRow = incl; maxResults = zi 0 } in
  let total = match expected_search compile matches show d o0 with Inr l -> List.length l | Inl _ -> 0 in
  let mx, mtag =
    match rint r 9 with
    | 0 -> (0, "max0") | 1 -> (-1, "maxneg") | 2 -> (1, "max1")
    | 3 -> (total - 1, "maxlt") | 4 -> (total, "maxeq") | 5 -> (total + 1, "maxgt")
    | 6 -> (max 1 (total / 2), "maxhalf") | 7 -> (1000, "maxbig") | _ -> (0, "max0") in
  let o = { o0 with maxResults = zi mx } in
  let s = c_search (expected_search compile matches show d o) in
  let m = c_res c_search (searchInDump compile matches show (Some d) (Some o)) in
  let tag = if ptag = "invalid" then "invalid" else if total = 0 then "nohit_" ^ mtag else mtag in
  emit ~fn:"SearchInDump" ~tag ~s ~m (enc_dump d :: enc_opts o)

let case_search_edge r =
  let d = rdump r in
  let pat, _ = rpattern r (dump_texts d) in
  let o = { pattern = bs pat; caseSensitive = rbool r; includeRow = rbool r; maxResults = zi (rint r 3) } in
  match rint r 3 with
  | 0 -> emit ~fn:"SearchInDump" ~tag:"nilopts" ~s:"-" ~m:(c_res c_search (searchInDump compile matches show (Some d) None))
           [ enc_dump d; "nil" ]
  | 1 -> emit ~fn:"SearchInDump" ~tag:"nildump" ~s:"-" ~m:(c_res c_search (searchInDump compile matches show None (Some o)))
           ("nil" :: enc_opts o)
  | _ ->
    (* Search on a directory that cannot be dumped / holds no database: option and pattern checks come first *)
    let kind = pick r [| "missing"; "empty" |] in
    let dd = fun _ -> if kind = "missing" then None else Some [] in
    let nilo = rint r 4 = 0 in
    let m = c_search (search compile matches show dd [] (if nilo then None else Some o)) in
    let s = if nilo then "-" else match compile (pattern_for o) with None -> "err:invalid_pattern" | Some _ -> "-" in
    emit ~fn:"Search" ~tag:("search_" ^ kind) ~s ~m (kind :: (if nilo then [ "nil" ] else enc_opts o))

(* Search on a real data directory: the harness writes the dump as a minimal cluster (one table per
   database, text and int4 columns, no NULLs, non-empty strings) and DumpDataDir reads it back *)
let case_search_dir r =
  let ndb = 1 + rint r 3 in
  let d = List.init ndb (fun i ->
      let cols = distinct_keys r [| "id"; "name"; "email"; "note"; "Name"; "z"; "a" |] (1 + rint r 4) [] in
      let cols = shuffle r cols in
      let kinds = List.map (fun _ -> rint r 4 = 0) cols in
      let nrows = rint r 5 in
      { d_name = bs (pick r [| "postgres"; "app"; "App"; "shop" |] ^ (if rbool r then "" else string_of_int i));
        d_tables = [ { t_name = bs (pick r [| "users"; "t"; "secrets"; "Users" |]); t_columns = List.map bs cols;
                       t_rows = List.init nrows (fun _ ->
                           shuffle r (List.map2 (fun c isint ->
                               (bs c, if isint then VI32 (zi (pick r [| 42; -7; 1; 12345; 100000 |]))
                                 else VStr (bs (let s = rstring r in if s = "" then "x" else s)))) cols kinds)) } ] }) in
  let pat, ptag = rpattern r (dump_texts d) in
  let o0 = { pattern = bs pat; caseSensitive = rbool r; includeRow = rbool r; maxResults = zi 0 } in
  let total = match expected_search compile matches show d o0 with Inr l -> List.length l | Inl _ -> 0 in
  let mx = pick r [| 0; -1; 1; 1; total - 1; total - 1; total; total + 1; max 1 (total / 2) |] in
  let o = { o0 with maxResults = zi mx } in
  let s = c_search (expected_search compile matches show d o) in
  let m = c_search (search compile matches show (fun _ -> Some d) [] (Some o)) in
  let tag = if ptag = "invalid" then "dir_invalid" else if total = 0 then "dir_nohit" else if mx > 0 && mx < total then "dir_cut" else "dir_all" in
  emit ~fn:"SearchDir" ~tag ~s ~m (enc_dump d :: enc_opts o)

(* ------------------------------------------------------------------ the wrappers of search.go / secrets.go *)
(* regexp.QuoteMeta written independently of the Coq model *)
let quote_meta_ref (s : string) : string =
  let b = Buffer.create 16 in
  String.iter (fun c -> if String.contains "\\.+*?()|[]{}^$" c then Buffer.add_char b '\\'; Buffer.add_char b c) s;
  Buffer.contents b
let meta_strings = [| "a.c"; "abc"; "a+b"; "aab"; "(x)"; "x"; "$9"; "9"; "^top"; "top"; "c:\\dir"; "{}"; "what?"; "wha";
                      "2*3"; "223"; "[1 2]"; "1"; "a|b"; "e+06"; "ee06"; "x.y.z"; "xayaz"; "end$"; "\\d"; "7" |]

let case_quotemeta r =
  let n = rint r 14 in
  let s = String.init n (fun _ -> match rint r 4 with
      | 0 -> "\\.+*?()|[]{}^$".[rint r 14]
      | 1 -> Char.chr (rint r 256)
      | _ -> pick r [| 'a'; 'Z'; '0'; ' '; '-'; '_'; '/'; ':'; '<'; '#'; '&'; '~' |]) in
  let q = quote_meta_ref s in
  (* the specification proper: q reads back to s as an escaped literal *)
  let back = match unquote (bs q) with Some b -> hex_of_bytes b | None -> "none" in
  if back <> hex_of_string s then prerr_endline ("C15 gen: QuoteMeta reference does not read back: " ^ hex_of_string s);
  emit ~fn:"QuoteMeta" ~tag:(if q = s then "plain" else "escaped") ~s:("s:" ^ hex_of_string q) ~m:("s:" ^ hex_of_bytes (quoteMeta (bs s))) [ hexf (bs s) ]

(* QuickSearch on a real data directory (cluster written by the harness as for SearchDir) *)
let case_quick_dir r =
  let ndb = 1 + rint r 2 in
  let d = List.init ndb (fun i ->
      let cols = shuffle r (distinct_keys r [| "id"; "name"; "email"; "note"; "Name"; "z"; "a" |] (1 + rint r 4) []) in
      let kinds = List.map (fun _ -> rint r 5 = 0) cols in
      { d_name = bs (pick r [| "postgres"; "app"; "shop" |] ^ string_of_int i);
        d_tables = [ { t_name = bs (pick r [| "users"; "t"; "notes" |]); t_columns = List.map bs cols;
                       t_rows = List.init (1 + rint r 5) (fun _ ->
                           shuffle r (List.map2 (fun c isint ->
                               (bs c, if isint then VI32 (zi (pick r [| 42; -7; 1; 12345; 100000 |]))
                                 else VStr (bs (if rbool r then pick r meta_strings else (let s = rstring r in if s = "" then "x" else s))))) cols kinds)) } ] }) in
  let texts = dump_texts d in
  let lit = match rint r 6 with
    | 0 -> pick r meta_strings
    | 1 -> flipcase (pickl r texts)
    | 2 -> let s = pickl r texts in let n = String.length s in if n > 2 then String.sub s 1 (n - 1) else s
    | 3 -> pick r [| "."; ".*"; "a.c|abc"; "^a"; "x$"; "[a-z]"; "\\"; "(?i)x"; "" |]
    | _ -> pickl r texts in
  let o = { pattern = bs (quote_meta_ref lit); caseSensitive = false; includeRow = true; maxResults = zi 0 } in
  let sres = expected_search compile matches show d o in
  let s = c_search sres in
  let m = c_search (quickSearch compile matches show (fun _ -> Some d) [] (bs lit)) in
  let total = match sres with Inr l -> List.length l | Inl _ -> -1 in
  let meta = quote_meta_ref lit <> lit in
  let tag = (if meta then "quick_meta" else "quick_plain") ^ (if total = 0 then "_nohit" else if total < 0 then "_err" else "_hit") in
  emit ~fn:"QuickSearchDir" ~tag ~s ~m [ enc_dump d; hexf (bs lit) ]

let case_matchvalue r =
  let v = match rint r 4 with
    | 0 -> rscalar r
    | 1 -> rbury r (1 + rint r 5) (VStr (bs (rstring r)))
    | 2 -> rbury r (1 + rint r 5) (rscalar r)
    | _ -> rvalue r 5 in
  let pat, ptag = rpattern r (List.map sb (texts show v)) in
  let pat = if ptag = "invalid" then "a" else pat in
  let pat = if rbool r then "(?i)" ^ pat else pat in
  match compile (bs pat) with
  | None -> failwith ("generator produced a pattern outside the grammar: " ^ pat)
  | Some re ->
    let kind = match v with VMap _ -> "map" | VList _ -> "list" | VStr _ -> "str" | VNil -> "nil" | VListNil -> "lnil" | _ -> "scalar" in
    let tag = Printf.sprintf "%s_d%d" kind (depth_of v) in
    (match v with
     | VMap m when rbool r ->
       emit ~fn:"matchMap" ~tag ~s:(c_bool (cell_matches matches show re v)) ~m:(c_bool (matchMap matches show re m))
         [ hexf (bs pat); c_gval v ]
     | _ ->
       emit ~fn:"matchValue" ~tag ~s:(c_bool (cell_matches matches show re v)) ~m:(c_bool (matchValue matches show re v))
         [ hexf (bs pat); c_gval v ])

let case_rowkeys r =
  let t = rtable r "t" in
  let row = match t.t_rows with [] -> rrow r | x :: _ -> x in
  let cols = if rint r 4 = 0 then List.map bs (shuffle r (Array.to_list colnames @ [ "id"; "z" ])) else t.t_columns in
  let f l = c_list (List.map hname l) in
  emit ~fn:"rowKeys" ~tag:(if cols = [] then "nocols" else "cols") ~s:(f (col_order cols row)) ~m:(f (rowKeys cols row))
    [ c_list (List.map hname cols); c_gval (VMap row) ]

(* ------------------------------------------------------------------ keyword prefilter *)
let rcase r s = String.map (fun c -> match rint r 3 with 0 -> upper c | 1 -> lower c | _ -> c) s
let case_contains r =
  let k = match rint r 6 with 0 -> "" | 1 -> "A" | _ -> rcase r (pick r [| "akia"; "sk_live"; "gl-"; "ab"; "aab"; "z@["; "`{"; "key" |]) in
  let n = rint r 12 in
  let filler () = String.init (rint r n + 0) (fun _ -> pick r [| 'a'; 'A'; 'b'; '@'; '['; '`'; '{'; 'Z'; 'z'; '-' |]) in
  let s = match rint r 6 with
    | 0 -> filler ()
    | 1 -> filler () ^ rcase r k                                      (* at the very end *)
    | 2 -> rcase r k ^ filler ()                                      (* at the start *)
    | 3 -> let kk = rcase r k in filler () ^ String.sub kk 0 (max 0 (String.length kk - 1))   (* all but the last byte, at the end *)
    | 4 -> (* a byte 32 away from a non-letter must not be folded: '@' (64) vs '`' (96), '[' vs '{' *)
      filler () ^ String.map (fun c -> match c with '@' -> '`' | '`' -> '@' | '[' -> '{' | '{' -> '[' | c -> c) k ^ filler ()
    | _ -> filler () ^ rcase r k ^ filler () in
  (s, k)

let edge_bytes = [| 0x40; 0x41; 0x5a; 0x5b; 0x60; 0x61; 0x7a; 0x7b; 0x00; 0xc1; 0xe1; 0x20 |]
let case_prefilter r =
  let (s, k) = case_contains r in
  let sv = bs s and kv = bs k in
  match rint r 5 with
  | 3 | 4 ->
    (* the edges of the letter range, both in the haystack and in the keyword: @ A Z [ ` a z { and bytes 32 apart *)
    let e () = byte_of_int (if rint r 6 = 0 then rbyte r else pick r edge_bytes) in
    let kv = List.init (1 + rint r 2) (fun _ -> e ()) in
    let sv = (if rbool r then [ e () ] else []) @ (if rint r 3 = 0 then List.init (List.length kv) (fun _ -> e ())
                                                  else List.map (fun b -> let i = int_of_byte b in
                                                                  byte_of_int (match rint r 4 with 0 -> i + 32 | 1 -> i - 32 | _ -> i)) kv)
             @ (if rbool r then [ e () ] else []) in
    emit ~fn:"containsIgnoreCase" ~tag:"edges" ~s:(c_bool (ci_contains sv kv))
      ~m:(c_res c_bool (containsIgnoreCase sv kv)) [ hexf sv; hexf kv ]
  | 0 ->
    emit ~fn:"containsIgnoreCase" ~tag:(if k = "" then "emptykw" else "kw") ~s:(c_bool (ci_contains sv kv))
      ~m:(c_res c_bool (containsIgnoreCase sv kv)) [ hexf sv; hexf kv ]
  | 1 ->
    let t1 = if rbool r then [] else rbytes r (1 + rint r 6) and t2 = if rbool r then [] else kv @ rbytes r 3 in
    emit ~fn:"bytesContains" ~tag:(if t1 = [] && t2 = [] then "exactcap" else "spare") ~s:(c_bool (strings_Contains sv kv))
      ~m:(c_res c_bool (bytesContains { vis = sv; tail = t1 } { vis = kv; tail = t2 })) [ hexf sv; hexf t1; hexf kv; hexf t2 ]
  | _ ->
    let a = bs (pick r [| ""; "a"; "ab"; "abc"; "abd"; "Abc" |]) in
    let b = if rbool r then a else bs (pick r [| ""; "a"; "ab"; "abc"; "abd"; "Abc"; "abcd" |]) in
    let t1 = if rbool r then [] else rbytes r 3 and t2 = if rbool r then [] else rbytes r 3 in
    emit ~fn:"bytesEqual" ~tag:(if a = b then "equal" else "differ") ~s:(c_bool (bytes_eqb a b))
      ~m:(c_res c_bool (bytesEqual { vis = a; tail = t1 } { vis = b; tail = t2 })) [ hexf a; hexf t1; hexf b; hexf t2 ]

(* ------------------------------------------------------------------ secret scan, fake detectors *)
let hex8 r n = String.init n (fun _ -> "0123456789abcdef".[rint r 16])
let rsecret_text r : string =
  match rint r 23 with
  | 17 -> "mg-" ^ hex8 r 8                             (* token without its detector's keyword: not consulted *)
  | 18 -> "needkw mg-" ^ hex8 r 8
  | 19 -> "mg-" ^ hex8 r 8 ^ " NeedKW"                 (* keyword in another case *)
  | 20 -> "hr-" ^ hex8 r 6 ^ pick r [| ""; " hk1"; " hk2"; " HK1 and more"; " hk" |]
  | 21 -> "hk2: hr-" ^ hex8 r 6 ^ " mg-" ^ hex8 r 8
  | 0 -> "sk_live_" ^ hex8 r 8
  | 1 -> "key=sk_live_" ^ hex8 r 8 ^ ";"
  | 2 -> "SK_LIVE_" ^ hex8 r 8                         (* keyword in another case: detector consulted, finds nothing *)
  | 3 -> "AKIA" ^ hex8 r 8
  | 4 -> "aws " ^ hex8 r 4 ^ " AKIA" ^ hex8 r 8 ^ " and AKIA" ^ hex8 r 8
  | 5 -> "tok-" ^ hex8 r 8
  | 6 -> "gl-" ^ hex8 r 8
  | 7 -> "gitlab: gl-" ^ hex8 r 8 ^ " boom"            (* FromData fails *)
  | 8 -> "errkw " ^ hex8 r 8
  | 9 -> "t-" ^ hex8 r 5                               (* 7 bytes: below the minimum length *)
  | 10 -> "t-" ^ hex8 r 6                              (* 8 bytes *)
  | 11 -> "xt-" ^ hex8 r 5 ^ "z"
  | 12 -> "sk_live_" ^ hex8 r 7 ^ "Z"                  (* decoy *)
  | 13 -> "tok-" ^ hex8 r 8 ^ " sk_live_" ^ hex8 r 8 ^ " gl-" ^ hex8 r 8
  | 14 -> "sk_test_" ^ hex8 r 8                        (* found only through the case-insensitive keyword test *)
  | _ -> rstring r

let rsecret_value r : gval =
  match rint r 24 with
  | 23 ->
    (* the secret padded so that the cell's text is 255..264 or 511..520 bytes long: lengths kept in a narrow integer wrap
       there (seeded change C15-14: uint8(len) < 8) *)
    let t = rsecret_text r in
    let target = pick r [| 255; 256; 257; 258; 260; 263; 264; 511; 512; 513; 519; 520 |] in
    let padn = max 0 (target - String.length t - 1) in
    VStr (bs (String.init padn (fun i -> "abcdefghij klmnopqrst".[i mod 21]) ^ " " ^ t))
  | _ ->
  match rint r 8 with
  | 0 -> rscalar r
  | 1 -> rbury r (1 + rint r 4) (VStr (bs (rsecret_text r)))
  | 2 -> VList [ VStr (bs (rsecret_text r)); VStr (bs (rsecret_text r)) ]
  | _ -> VStr (bs (rsecret_text r))

(* a long cell (4-6 KiB of filler) with the secret at its very end, or a long list whose last element holds it: a scan that
   looks only at the first few KiB of a cell misses it (seeded change C15-9).  Rare: the list-based model is slow on long texts. *)
let rlong_secret_value r : gval =
  let filler n = String.concat " " (List.init (n / 6) (fun i -> Printf.sprintf "w%04d" (i mod 9973))) in
  if rbool r then VStr (bs (filler (4150 + rint r 200) ^ " " ^ rsecret_text r))
  else VList (List.init 600 (fun i -> VStr (bs (Printf.sprintf "item%03d" i))) @ [ VStr (bs (rsecret_text r)) ])

let rsecret_dump r : dumpResult =
  let d = rdump r in
  (* in every second table one secret value is stored in several cells (other rows, other columns): each occurrence must be
     reported with its own coordinates (seeded change C15-6: findings de-duplicated per table) *)
  List.map (fun db -> { db with d_tables = List.map (fun t ->
      let dup = if rbool r then Some (rsecret_value r) else None in
      { t with t_rows = List.map (fun row -> List.map (fun (k, v) ->
            if rint r 3 = 0 then (k, v) else
              match dup with
              | Some dv when rint r 3 = 0 -> (k, dv)
              | _ -> (k, if rint r 5000 = 0 then rlong_secret_value r else rsecret_value r)) row) t.t_rows })
      db.d_tables }) d

let rdetset r : int list =
  let all = [ 0; 1; 2; 3; 4; 5; 6; 7; 8 ] in
  match rint r 4 with 0 -> all | 1 -> shuffle r all | 2 -> List.filter (fun _ -> rbool r) (shuffle r all) | _ -> List.rev all

let case_scan r =
  let ds = rdetset r in
  let dets = List.map fake_detector ds in
  let dsarg = if ds = [] then "-" else String.concat "," (List.map string_of_int ds) in
  match rint r 4 with
  | 0 ->
    let data = bs (rsecret_text r ^ (if rbool r then " " ^ rsecret_text r else "")) in
    let s = c_list (List.map c_dres (List.concat_map (fun det -> det_results det data) dets)) in
    let m = c_res (fun l -> c_list (List.map c_dres l)) (scanString dets data) in
    emit ~fn:"ScanString" ~tag:"fake" ~s ~m [ dsarg; hexf data ]
  | 1 ->
    let d = rsecret_dump r in
    (match List.concat_map (fun db -> List.map (fun t -> (db, t)) db.d_tables) d with
     | [] -> ()
     | l -> let (db, t) = pickl r l in
       let s = c_list (List.map c_finding (table_findings show dets db.d_name t)) in
       let m = c_res (fun l -> c_list (List.map c_finding l)) (scanTable show dets db.d_name t) in
       emit ~fn:"scanTable" ~tag:"fake" ~s ~m [ dsarg; hname db.d_name; enc_table t ])
  | _ ->
    let d = rsecret_dump r in
    let s = c_list (List.map c_finding (expected_scan show dets d)) in
    let m = c_res (fun l -> c_list (List.map c_finding l)) (scanDumpResult show dets d) in
    emit ~fn:"ScanDumpResult" ~tag:(if s = "[]" then "fake_none" else "fake") ~s ~m [ dsarg; enc_dump d ]

(* a one-row table with one long cell holding the secret at its end: a few of these in every run (seeded change C15-9) *)
let case_scan_long r =
  let ds = rdetset r in
  let dets = List.map fake_detector ds in
  let dsarg = if ds = [] then "-" else String.concat "," (List.map string_of_int ds) in
  let t = { t_name = bs "long"; t_columns = [ bs "id"; bs "body" ];
            t_rows = [ [ (bs "id", VI32 (zi 1)); (bs "body", rlong_secret_value r) ] ] } in
  let s = c_list (List.map c_finding (table_findings show dets (bs "db") t)) in
  let m = c_res (fun l -> c_list (List.map c_finding l)) (scanTable show dets (bs "db") t) in
  emit ~fn:"scanTable" ~tag:"fake_long_cell" ~s ~m [ dsarg; hname (bs "db"); enc_table t ]

(* ------------------------------------------------------------------ secret scan, real detectors *)
(* structurally valid random tokens of the formats of secrets_test.go, generated here (never stored) *)
let rdigits r n = String.init n (fun _ -> "0123456789".[rint r 10])
let real_token r : string =
  match rint r 6 with
  | 0 -> "sk_live_51" ^ hex8 r 40
  | 1 -> "xoxb-" ^ "41521398" ^ rdigits r 3 ^ "-" ^ "8174928371" ^ rdigits r 3 ^ "-" ^ hex8 r 24
  | 2 -> "glpat-" ^ hex8 r 20
  | 3 -> "dop_v1_" ^ hex8 r 64
  | 4 -> "dp.pt." ^ hex8 r 40
  | _ -> "SG." ^ hex8 r 22 ^ "." ^ hex8 r 43

(* the idealised detector standing for trufflehog in M and S: it reports the planted tokens *)
let ideal_detector (tokens : string list) : (string * string) detector =
  { keywords = List.map bs [ "sk_live"; "xoxb"; "glpat-"; "dop_v1_"; "dp.pt."; "sg." ];
    fromData = (fun data -> let s = sb data in Some (List.filter_map (fun t -> if contains_sub s t then Some ("planted", t) else None) tokens)) }

let decoys = [| "alice"; "hello world"; "just some text without secrets"; "2024-01-01"; "user@example"; "n/a";
                "regular value"; "The quick brown fox"; "" |]
let rdecoy r : gval =
  match rint r 6 with
  | 0 -> VI32 (zi (rint r 100000)) | 1 -> VNil | 2 -> VBool (rbool r)
  | 3 -> VList [ VStr (bs (pick r decoys)); VI64 (zi 12345678) ]
  | 4 -> VMap [ (bs "note", VStr (bs (pick r decoys))); (bs "n", VF64 (zbits_of_float 1.5)) ]
  | _ -> VStr (bs (pick r decoys))

let case_scan_real r =
  let tokens = ref [] in
  let plant () = let t = real_token r in tokens := t :: !tokens;
    let leaf = VStr (bs (match rint r 3 with 0 -> t | 1 -> "token " ^ t | _ -> t ^ " (prod)")) in
    if rint r 3 = 0 then rbury r (1 + rint r 3) leaf else leaf in
  let planted = ref 0 in
  let ndb = 1 + rint r 2 in
  let d = List.init ndb (fun i ->
      { d_name = bs (Printf.sprintf "db%d" i);
        d_tables = List.init (1 + rint r 2) (fun j ->
            let cols = distinct_keys r [| "id"; "name"; "value"; "data"; "note" |] 4 [] in
            { t_name = bs (Printf.sprintf "t%d" j); t_columns = List.map bs (shuffle r cols);
              t_rows = List.init (1 + rint r 3) (fun _ ->
                  List.map (fun c -> (bs c, if rint r 5 = 0 && !planted < 3 then (incr planted; plant ()) else rdecoy r)) cols) }) }) in
  let det = [ ideal_detector !tokens ] in
  let coords fs = c_list (List.sort_uniq compare (List.map (fun f ->
      Printf.sprintf "%s/%s/%s/%s" (sb f.f_database) (sb f.f_table) (zs f.f_rowindex) (sb f.f_column)) fs)) in
  let s = coords (expected_scan show det d) in
  let m = c_res coords (scanDumpResult show det d) in
  emit ~fn:"ScanDumpReal" ~tag:(Printf.sprintf "planted%d" !planted) ~s ~m [ enc_dump d ]

(* ScanForSecrets / SearchSecrets on a real data directory (text and int4 cells only: what the harness' cluster writer lays out) *)
let case_secrets_dir r =
  let tokens = ref [] in
  let planted = ref 0 in
  let d = List.init (1 + rint r 2) (fun i ->
      let cols = shuffle r (distinct_keys r [| "id"; "name"; "value"; "data"; "note" |] (2 + rint r 3) []) in
      { d_name = bs (Printf.sprintf "db%d" i);
        d_tables = [ { t_name = bs (pick r [| "t"; "creds"; "users" |]); t_columns = List.map bs cols;
                       t_rows = (let isint = List.map (fun _ -> rint r 4 = 0) cols in
                                 List.init (1 + rint r 4) (fun _ ->
                           List.map2 (fun c ii ->
                               (bs c, if ii then VI32 (zi (rint r 100000)) else if rint r 3 = 0 && !planted < 3 then begin
                                    incr planted; let t = real_token r in tokens := t :: !tokens;
                                    VStr (bs (match rint r 3 with 0 -> t | 1 -> "token " ^ t | _ -> t ^ " (prod)")) end
                                 else VStr (bs (let x = pick r decoys in if x = "" then "n" else x)))) cols isint)) } ] }) in
  let det = [ ideal_detector !tokens ] in
  let coords fs = c_list (List.sort_uniq compare (List.map (fun f ->
      Printf.sprintf "%s/%s/%s/%s" (sb f.f_database) (sb f.f_table) (zs f.f_rowindex) (sb f.f_column)) fs)) in
  let s1 = coords (expected_scan show det d) in
  let m1 = c_res coords (scanDumpResult show det d) in
  emit ~fn:"SecretsDir" ~tag:(Printf.sprintf "planted%d" !planted) ~s:(s1 ^ "|" ^ s1) ~m:(m1 ^ "|" ^ m1) [ enc_dump d ]

(* ------------------------------------------------------------------ main *)
let gen_case r k =
  match k mod 20 with
  | 0 | 1 | 2 | 3 | 4 | 5 | 6 -> case_search r
  | 7 -> if k mod 60 = 7 then case_quick_dir r else if k mod 60 = 27 then case_quotemeta r else case_search_dir r
  | 8 -> if k mod 40 = 8 then case_search_edge r else case_search_dir r
  | 9 | 10 | 11 -> case_matchvalue r
  | 12 -> case_rowkeys r
  | 13 | 14 | 15 -> case_prefilter r
  | 16 | 17 | 18 -> case_scan r
  | _ -> if k mod 100 = 19 then case_scan_real r else if k mod 400 = 39 then case_secrets_dir r else if k mod 4000 = 39 then case_scan_long r else case_scan r

let gen seed n = for k = 0 to n - 1 do gen_case (rng_for seed k) k done
let () = main gen
