(* C15 oracles on the driver side: a tiny regular-expression matcher for the pattern subset on which it
   and Go's regexp agree (literals, '.', classes, \d \w \s, single-atom * + ?, alternation, ^ $ anchors,
   leading (?i)); Go's fmt "%v" rendering of dump values; the fake secret detectors that harness/c15.go
   implements identically.  Everything here stands for a Section variable of the Coq model. *)
open Model
open Util

(* ------------------------------------------------------------------ regex *)
type atom = Any | Lit of char | Cls of bool * (char * char) list
type item = Bol | Eol | At of atom * char          (* quantifier '1' '*' '+' '?' *)
type regex = { ci : bool; alts : item list list }

exception Bad

let is_punct c = match c with
  | '.' | '|' | '\\' | '[' | ']' | '(' | ')' | '$' | '^' | '*' | '+' | '?' | '{' | '}' | '-' | '_' | '<' | '>' | ':' | '/' -> true
  | _ -> false

let rx_parse (p : string) : regex option =
  try
    let n = String.length p in
    let pos = ref 0 in
    let ci = ref false in
    while !pos + 4 <= n && String.sub p !pos 4 = "(?i)" do ci := true; pos := !pos + 4 done;
    (* one non-capturing group around the whole rest, "(?:" body ")" with a paren-free body: same language as body *)
    let n = if !pos + 4 <= n && String.sub p !pos 3 = "(?:" && p.[n - 1] = ')' && (n < 2 || p.[n - 2] <> '\\')
      then (pos := !pos + 3; n - 1) else n in
    let alts = ref [] and cur = ref [] in
    let push it = cur := it :: !cur in
    while !pos < n do
      let c = p.[!pos] in
      (match c with
       | '|' -> alts := List.rev !cur :: !alts; cur := []; incr pos
       | '^' -> push Bol; incr pos
       | '$' -> push Eol; incr pos
       | '*' | '+' | '?' ->
         (match !cur with
          | At (a, '1') :: rest -> cur := At (a, c) :: rest; incr pos
          | _ -> raise Bad)
       | '.' -> push (At (Any, '1')); incr pos
       | '[' ->
         incr pos;
         let neg = (!pos < n && p.[!pos] = '^') in
         if neg then incr pos;
         let rs = ref [] in
         let fin = ref false in
         while not !fin do
           if !pos >= n then raise Bad;
           let a = p.[!pos] in
           if a = ']' then (if !rs = [] then raise Bad; fin := true; incr pos)
           else begin
             if a = '\\' || a = '[' then raise Bad;
             if !pos + 2 < n && p.[!pos + 1] = '-' && p.[!pos + 2] <> ']' then begin
               let b = p.[!pos + 2] in
               if b < a then raise Bad;
               rs := (a, b) :: !rs; pos := !pos + 3
             end else (rs := (a, a) :: !rs; incr pos)
           end
         done;
         push (At (Cls (neg, !rs), '1'))
       | '\\' ->
         if !pos + 1 >= n then raise Bad;
         let e = p.[!pos + 1] in
         pos := !pos + 2;
         (match e with
          | 'd' -> push (At (Cls (false, [ ('0', '9') ]), '1'))
          | 'D' -> push (At (Cls (true, [ ('0', '9') ]), '1'))
          | 'w' -> push (At (Cls (false, [ ('0', '9'); ('A', 'Z'); ('a', 'z'); ('_', '_') ]), '1'))
          | 'W' -> push (At (Cls (true, [ ('0', '9'); ('A', 'Z'); ('a', 'z'); ('_', '_') ]), '1'))
          | 's' -> push (At (Cls (false, [ (' ', ' '); ('\t', '\t'); ('\n', '\n'); ('\012', '\012'); ('\r', '\r') ]), '1'))
          | c when is_punct c -> push (At (Lit c, '1'))
          | _ -> raise Bad)
       | '(' | ')' | '{' | '}' | ']' -> raise Bad
       | c -> push (At (Lit c, '1')); incr pos)
    done;
    alts := List.rev !cur :: !alts;
    Some { ci = !ci; alts = List.rev !alts }
  with Bad -> None

let lower c = if c >= 'A' && c <= 'Z' then Char.chr (Char.code c + 32) else c
let upper c = if c >= 'a' && c <= 'z' then Char.chr (Char.code c - 32) else c

let atom_ok ci a c =
  match a with
  | Any -> c <> '\n'
  | Lit l -> if ci then lower c = lower l else c = l
  | Cls (neg, rs) ->
    let inr ch = List.exists (fun (lo, hi) -> lo <= ch && ch <= hi) rs in
    let m = if ci then inr (lower c) || inr (upper c) else inr c in
    m <> neg

let rx_match (re : regex) (s : string) : bool =
  let n = String.length s in
  let rec go items pos =
    match items with
    | [] -> true
    | Bol :: r -> pos = 0 && go r pos
    | Eol :: r -> pos = n && go r pos
    | At (a, '1') :: r -> pos < n && atom_ok re.ci a s.[pos] && go r (pos + 1)
    | At (a, '?') :: r -> (pos < n && atom_ok re.ci a s.[pos] && go r (pos + 1)) || go r pos
    | At (a, '*') :: r -> star a r pos
    | At (a, _) :: r -> pos < n && atom_ok re.ci a s.[pos] && star a r (pos + 1)
  and star a r p = go r p || (p < n && atom_ok re.ci a s.[p] && star a r (p + 1)) in
  let rec from start = start <= n && (List.exists (fun alt -> go alt start) re.alts || from (start + 1)) in
  from 0

(* the two oracles handed to the extracted model and spec *)
let compile (p : byte list) : regex option = rx_parse (string_of_bytes p)
let matches (re : regex) (s : byte list) : bool = rx_match re (string_of_bytes s)

(* ------------------------------------------------------------------ fmt %v *)
let fmt_float (f : float) : string =
  if f <> f then "NaN" else if f = infinity then "+Inf" else if f = neg_infinity then "-Inf"
  else if f = 0.0 then (if 1.0 /. f < 0.0 then "-0" else "0")
  else begin
    let rec find p = let s = Printf.sprintf "%.*e" (p - 1) f in
      if p >= 17 || float_of_string s = f then s else find (p + 1) in
    let s = find 1 in
    let neg = s.[0] = '-' in
    let s = if neg then String.sub s 1 (String.length s - 1) else s in
    let ei = String.index s 'e' in
    let mant = String.sub s 0 ei and ex = int_of_string (String.sub s (ei + 1) (String.length s - ei - 1)) in
    let digits = String.concat "" (String.split_on_char '.' mant) in
    (* strip trailing zeros (keep one digit) *)
    let digits = let l = ref (String.length digits) in
      while !l > 1 && digits.[!l - 1] = '0' do decr l done; String.sub digits 0 !l in
    let nd = String.length digits in
    let body =
      if ex < -4 || ex >= 6 then
        let m = if nd = 1 then digits else String.sub digits 0 1 ^ "." ^ String.sub digits 1 (nd - 1) in
        Printf.sprintf "%se%c%02d" m (if ex < 0 then '-' else '+') (abs ex)
      else if ex >= 0 then
        if nd <= ex + 1 then digits ^ String.make (ex + 1 - nd) '0'
        else String.sub digits 0 (ex + 1) ^ "." ^ String.sub digits (ex + 1) (nd - ex - 1)
      else "0." ^ String.make (-ex - 1) '0' ^ digits in
    (if neg then "-" else "") ^ body
  end

let two64 = ZA.shift_left ZA.one 64
let float_of_zbits (b : z) : float =
  let x = zarith_of_z b in
  Int64.float_of_bits (ZA.to_int64 (if ZA.geq x (ZA.shift_left ZA.one 63) then ZA.sub x two64 else x))
let zbits_of_float (f : float) : z =
  let x = ZA.of_int64 (Int64.bits_of_float f) in
  z_of_zarith (if ZA.sign x < 0 then ZA.add x two64 else x)

(* float32 values are drawn from this pool only: (bit pattern, Go's %v) *)
let f32_pool = [| (0x3fc00000, "1.5"); (0x00000000, "0"); (0xc0100000, "-2.25"); (0x42280000, "42");
                  (0x3e800000, "0.25"); (0x7f800000, "+Inf"); (0x7fc00000, "NaN"); (0x3dcccccd, "0.1");
                  (0x4048f5c3, "3.14") |]

let rec show_s (v : gval) : string =
  match v with
  | VNil -> "<nil>"
  | VBool b -> if b then "true" else "false"
  | VI16 x | VI32 x | VI64 x | VInt x | VU16 x | VU32 x | VU64 x -> zs x
  | VF64 b -> fmt_float (float_of_zbits b)
  | VF32 b -> let i = iz b in
    (match List.find_opt (fun (k, _) -> k = i) (Array.to_list f32_pool) with
     | Some (_, s) -> s | None -> failwith "f32 outside the pool")
  | VStr s -> string_of_bytes s
  | VBytes s -> "[" ^ String.concat " " (List.map (fun b -> string_of_int (int_of_byte b)) s) ^ "]"
  | VList l -> "[" ^ String.concat " " (List.map show_s l) ^ "]"
  | VListNil -> "[]"
  | VMap m ->
    let tbl = Hashtbl.create 8 in
    List.iter (fun (k, v) -> Hashtbl.replace tbl (string_of_bytes k) v) m;
    let keys = List.sort_uniq compare (Hashtbl.fold (fun k _ a -> k :: a) tbl []) in
    "map[" ^ String.concat " " (List.map (fun k -> k ^ ":" ^ show_s (Hashtbl.find tbl k)) keys) ^ "]"
let show (v : gval) : byte list = bytes_of_string (show_s v)

(* ------------------------------------------------------------------ fake detectors *)
(* (name, keywords, token prefix, number of hex digits after the prefix, word that makes FromData fail) *)
let fake_specs = [|
  ("Stripe", [ "sk_live" ], "sk_live_", 8, "");
  ("AWS", [ "AKIA"; "aws" ], "AKIA", 8, "");
  ("Github", [], "tok-", 8, "");
  ("Gitlab", [ "gl-"; "GITLAB" ], "gl-", 8, "boom");
  ("Slack", [ "errkw" ], "errkw", 0, "errkw");
  ("Twilio", [], "t-", 5, "");
  ("Square", [ "SK_TEST" ], "sk_test_", 8, "");      (* keyword and token differ in case *)
  (* keywords that are NOT part of the token: only here does the prefilter decide whether a token is reported *)
  ("Mailgun", [ "needkw" ], "mg-", 8, "");
  ("Heroku", [ "hk1"; "HK2" ], "hr-", 6, "");
|]

let is_hex c = (c >= '0' && c <= '9') || (c >= 'a' && c <= 'f')
let contains_sub (s : string) (k : string) : bool =
  let n = String.length s and m = String.length k in
  let rec go i = i + m <= n && (String.sub s i m = k || go (i + 1)) in go 0

(* dres = (detector name, raw token) *)
let fake_detector (i : int) : (string * string) detector =
  let (name, kws, prefix, nhex, fail) = fake_specs.(i) in
  { keywords = List.map bytes_of_string kws;
    fromData = (fun data ->
        let s = string_of_bytes data in
        if fail <> "" && contains_sub s fail then None else begin
          let n = String.length s and pl = String.length prefix in
          let out = ref [] in
          for i = 0 to n - pl - nhex do
            if String.sub s i pl = prefix then begin
              let ok = ref true in
              for j = 0 to nhex - 1 do if not (is_hex s.[i + pl + j]) then ok := false done;
              if !ok then out := (name, String.sub s i (pl + nhex)) :: !out
            end
          done;
          Some (List.rev !out)
        end) }
