(* value.ml — canonical rendering of Base/Value.v gval (must agree with harness/canon.go).
   Include in a driver by listing "value.ml" under "driver_common" in cfg/<ID>.json. *)
open Model
open Util

let hex_pad (w : int) (x : z) : string =
  let s = ZA.format "%x" (zarith_of_z x) in
  if String.length s >= w then s else String.make (w - String.length s) '0' ^ s

let rec c_gval (v : gval) : string =
  match v with
  | VNil -> "nil"
  | VBool b -> "b:" ^ c_bool b
  | VI16 x -> "i16:" ^ zs x | VI32 x -> "i32:" ^ zs x | VI64 x -> "i64:" ^ zs x | VInt x -> "int:" ^ zs x
  | VU16 x -> "u16:" ^ zs x | VU32 x -> "u32:" ^ zs x | VU64 x -> "u64:" ^ zs x
  | VF32 b -> "f32:" ^ hex_pad 8 b | VF64 b -> "f64:" ^ hex_pad 16 b
  | VStr s -> "s:" ^ hex_of_bytes s
  | VBytes s -> "y:" ^ hex_of_bytes s
  | VList l -> "l" ^ c_list (List.map c_gval l)
  | VListNil -> "lnil"
  | VMap m -> c_map m
and c_map (m : (byte list * gval) list) : string =
  (* Go map semantics: last write wins; rendered with keys sorted bytewise *)
  let tbl = Hashtbl.create 16 in
  List.iter (fun (k, v) -> Hashtbl.replace tbl (string_of_bytes k) v) m;
  let keys = List.sort_uniq compare (Hashtbl.fold (fun k _ acc -> k :: acc) tbl []) in
  "m{" ^ String.concat "," (List.map (fun k -> hex_of_string k ^ ":" ^ c_gval (Hashtbl.find tbl k)) keys) ^ "}"
