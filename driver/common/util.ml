(* util.ml — hand-written glue shared by every property driver.  Compiled once per property
   against that property's extracted [Model] (so the Coq datatypes positive/z/byte/nat stay the
   extracted ones).  Trusted: conversions and printing only. *)
module ZA = Z   (* Zarith, before Model's own Z shadows it *)
open Model

(* ---------- numbers ---------- *)
let rec pos_of_zarith (x : ZA.t) : positive =
  if ZA.equal x ZA.one then XH
  else if ZA.equal (ZA.logand x ZA.one) ZA.one then XI (pos_of_zarith (ZA.shift_right x 1))
  else XO (pos_of_zarith (ZA.shift_right x 1))
let z_of_zarith (x : ZA.t) : z =
  let s = ZA.sign x in
  if s = 0 then Z0 else if s > 0 then Zpos (pos_of_zarith x) else Zneg (pos_of_zarith (ZA.neg x))
let rec zarith_of_pos (p : positive) : ZA.t =
  match p with
  | XH -> ZA.one
  | XO q -> ZA.shift_left (zarith_of_pos q) 1
  | XI q -> ZA.succ (ZA.shift_left (zarith_of_pos q) 1)
let zarith_of_z (x : z) : ZA.t =
  match x with Z0 -> ZA.zero | Zpos p -> zarith_of_pos p | Zneg p -> ZA.neg (zarith_of_pos p)
let zi (i : int) : z = z_of_zarith (ZA.of_int i)
let iz (x : z) : int = ZA.to_int (zarith_of_z x)
let zs (x : z) : string = ZA.to_string (zarith_of_z x)
let sz (s : string) : z = z_of_zarith (ZA.of_string s)
let rec nat_of_int (i : int) : nat = if i <= 0 then O else S (nat_of_int (i - 1))
let nat_of_int i = (* tail-recursive *)
  let rec go acc i = if i <= 0 then acc else go (S acc) (i - 1) in go O i
let rec int_of_nat (n : nat) : int = let rec go acc = function O -> acc | S k -> go (acc + 1) k in go 0 n

(* ---------- bytes ---------- *)
let int_of_byte (b : byte) : int = (Obj.magic b : int)        (* constant constructors X00..Xff are 0..255 *)
let byte_of_int (i : int) : byte = (Obj.magic (i land 255) : byte)
let hexdig = "0123456789abcdef"
let hex_of_bytes (bs : byte list) : string =
  let b = Buffer.create 64 in
  List.iter (fun x -> let i = int_of_byte x in
                      Buffer.add_char b hexdig.[i lsr 4]; Buffer.add_char b hexdig.[i land 15]) bs;
  Buffer.contents b
let hexval c = match c with
  | '0'..'9' -> Char.code c - 48 | 'a'..'f' -> Char.code c - 87 | 'A'..'F' -> Char.code c - 55
  | _ -> failwith "bad hex"
let bytes_of_hex (s : string) : byte list =
  let n = String.length s / 2 in
  let rec go i acc = if i < 0 then acc else go (i - 1) (byte_of_int (hexval s.[2*i] * 16 + hexval s.[2*i+1]) :: acc) in
  go (n - 1) []
let bytes_of_string (s : string) : byte list =
  let rec go i acc = if i < 0 then acc else go (i - 1) (byte_of_int (Char.code s.[i]) :: acc) in
  go (String.length s - 1) []
let string_of_bytes (bs : byte list) : string =
  let b = Buffer.create 64 in List.iter (fun x -> Buffer.add_char b (Char.chr (int_of_byte x))) bs; Buffer.contents b
let hex_of_string (s : string) : string = hex_of_bytes (bytes_of_string s)
(* "-" stands for the empty byte string in a TSV field *)
let hexf (bs : byte list) : string = match bs with [] -> "-" | _ -> hex_of_bytes bs
let unhexf (s : string) : byte list = if s = "-" then [] else bytes_of_hex s

(* ---------- PRNG: every choice derives from (seed, case index) ---------- *)
type rng = Random.State.t
let rng_for (seed : int) (case : int) : rng = Random.State.make [| seed; case; 0x5eed |]
let rint (r : rng) (n : int) : int = if n <= 0 then 0 else Random.State.int r n       (* 0 <= . < n, n < 2^30 *)
let rrange r lo hi = lo + rint r (hi - lo + 1)                                        (* inclusive *)
let rbool r = Random.State.bool r
let rbyte r = rint r 256
let rbits (r : rng) (k : int) : ZA.t =   (* uniformly random k-bit non-negative integer *)
  let rec go acc k = if k <= 0 then acc
    else let c = min k 24 in go (ZA.add (ZA.shift_left acc c) (ZA.of_int (Random.State.bits r land ((1 lsl c) - 1)))) (k - c) in
  go ZA.zero k
let pick r (a : 'a array) : 'a = a.(rint r (Array.length a))
let pickl r (l : 'a list) : 'a = List.nth l (rint r (List.length l))
(* boundary-biased unsigned k-bit value *)
let ru r k : ZA.t =
  let top = ZA.shift_left ZA.one k in
  match rint r 10 with
  | 0 -> ZA.zero | 1 -> ZA.one | 2 -> ZA.pred top | 3 -> ZA.shift_right top 1
  | 4 -> ZA.pred (ZA.shift_right top 1) | 5 -> ZA.of_int (rint r 300)
  | _ -> rbits r k
(* value with all bytes distinct and non-zero: makes moved offsets / swapped halves visible *)
let rdistinct r k : ZA.t =
  let nb = k / 8 in
  let rec go i acc used = if i >= nb then acc else
      let b = ref (1 + rint r 255) in
      while List.mem !b used do b := 1 + rint r 255 done;
      go (i + 1) (ZA.add (ZA.shift_left acc 8) (ZA.of_int !b)) (!b :: used) in
  go 0 ZA.zero []
let rbytes r n : byte list = List.init n (fun _ -> byte_of_int (rbyte r))
let shuffle r (l : 'a list) : 'a list =
  let a = Array.of_list l in
  for i = Array.length a - 1 downto 1 do
    let j = rint r (i + 1) in let t = a.(i) in a.(i) <- a.(j); a.(j) <- t done;
  Array.to_list a

(* ---------- case output ---------- *)
(* one case per line:  fn \t tag \t kf \t S \t M \t arg1 \t arg2 ...
   S = "-" when the case has no spec-side expectation (only model vs implementation is compared). *)
let emit ~(fn : string) ~(tag : string) ?(kf = "-") ~(s : string) ~(m : string) (args : string list) : unit =
  print_string (String.concat "\t" (fn :: tag :: kf :: s :: m :: args)); print_char '\n'

(* canonical renderers shared with harness/canon.go *)
let c_list (xs : string list) : string = "[" ^ String.concat "," xs ^ "]"
let c_rec (fs : (string * string) list) : string = "{" ^ String.concat "," (List.map (fun (k, v) -> k ^ "=" ^ v) fs) ^ "}"
let c_bool b = if b then "true" else "false"
let c_str (bs : byte list) : string = "s:" ^ hex_of_bytes bs
let c_res (f : 'a -> string) (r : 'a res) : string = match r with Ok a -> f a | Panic -> "panic"

(* command line:  pgmodel_<id> gen <seed> <n>   (n = number of random cases; deterministic corpus first) *)
let main (gen : int -> int -> unit) : unit =
  match Array.to_list Sys.argv with
  | _ :: "gen" :: seed :: n :: _ -> gen (int_of_string seed land 0x3fffffff) (int_of_string n); flush stdout
  | _ -> prerr_endline "usage: pgmodel gen <seed> <n>"; exit 2
