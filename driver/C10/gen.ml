(* C10 driver: hostile input for every []byte/string entry point.  S = M = "ok": the theorems say no panic; the
   harness answers "ok" iff the call returned without panic, within its time/allocation budget and left the input intact. *)
open Model
open Util

let entries = [|
  "ParsePage"; "ParseHeapTuple"; "ReadTuples"; "ParseFile"; "ReadRows"; "ReadVarlena"; "DecodeTuple";
  "ParsePGDatabase"; "ParsePGClass"; "ParsePGAttribute"; "ParsePGAuthID"; "parseDroppedColumns"; "parseAllAttributes";
  "ParseTOASTPointer"; "IsTOASTPointer"; "ReadTOASTTable"; "GetTOASTVerboseInfo"; "ReassembleTOAST"; "TOASTReader";
  "decompressPGLZ"; "decompressLZ4";
  "DecodeType"; "ParseJSONB"; "DecodeNumeric";
  "ParseControlFile"; "ParseWALFile"; "ParseIndexFile"; "ParseSequenceFile"; "IsSequenceFile"; "ParseRelMapFile";
  "VerifyPageChecksum"; "VerifyFileChecksums"; "ParseBlockInfo"; "FormatBinaryDump";
  "ParseBlockRange"; "quoteIdent"; "quoteLiteral"; "formatSQLValue"; "mapToJSON"; "formatCSVValue"; "SearchInDump"; "ToSQLCSV";
  "ReadDeletedRows"; "ReadRowsWithDeleted"; "parseBlockRefs"; "parseWALPage"; "detectIndexType";
  "parseSpecial"; "parseMeta"; "parseIndexPage"; "parseXLogRecord"; "parseSequenceTuple" |]

let guard_lens = [| 0; 1; 2; 3; 4; 5; 7; 8; 17; 18; 19; 20; 22; 23; 24; 39; 40; 295; 296; 297; 511; 512; 8191; 8192; 8193 |]
let boundary32 = [| 0; 1; 0x7ffe; 0x7fff; 0x8000; 0xfffe; 0xffff; 0x10000; 0x7fffffff; 0x80000000; 0xffffffff; 0x3fffffff; 0x40000000 |]

let set_byte a off v = if off >= 0 && off < Array.length a then a.(off) <- v land 255
let set_le a off n v = for i = 0 to n - 1 do set_byte a (off + i) (v lsr (8 * i)) done

(* ---- a page-shaped hostile buffer: valid-looking header so parsers go deep ---- *)
let pageish r =
  let a = Array.init 8192 (fun _ -> rbyte r) in
  let lower = pick r [| 24; 28; 64; 200; 8188; 8192; 23; 0; 65535 |] in
  let upper = pick r [| lower; 8192; 4096; 8000; 0; 65535 |] in
  set_le a 12 2 lower; set_le a 14 2 upper; set_le a 16 2 (pick r [| 8192; 8176; 8184; 0; 8190; 8191; 65535 |]);
  set_le a 18 2 (pick r [| 0x2004; 0x2004; 0x4004; 0x8004; 0x2000; 0x200b |]);
  (* line pointers with hostile offset/length *)
  for i = 0 to min 40 ((lower - 24) / 4) do
    let off = pick r [| 0; 23; 24; upper; 8000; 8168; 8169; 8191; 8192; 32767 |] and len = pick r [| 0; 1; 22; 23; 24; 100; 8192; 32767 |] in
    set_le a (24 + 4 * i) 4 (off lor (1 lsl 15) lor (len lsl 17))
  done;
  Array.to_list (Array.map byte_of_int a)

(* ---- corruption operators on a valid encoding ---- *)
let corrupt r (v : byte list) : byte list =
  let a = ref (Array.of_list (List.map int_of_byte v)) in
  for _ = 1 to rrange r 1 8 do
    let n = Array.length !a in
    if n > 0 then
      match rint r 8 with
      | 0 -> let i = rint r n in !a.(i) <- !a.(i) lxor (1 lsl rint r 8)                       (* bit flip *)
      | 1 -> !a.(rint r n) <- pick r [| 0; 1; 2; 0x12; 0x7f; 0x80; 0xff |]                     (* byte set *)
      | 2 -> a := Array.sub !a 0 (rint r (n + 1))                                             (* truncate *)
      | 3 -> a := Array.append !a (Array.init (rint r 64) (fun _ -> rbyte r))                 (* extend *)
      | 4 -> let i = rint r n and l = rint r 32 in                                            (* splice *)
        a := Array.concat [ Array.sub !a 0 i; Array.init l (fun _ -> rbyte r); Array.sub !a i (n - i) ]
      | 5 -> let off = rint r n in set_le !a off 4 (pick r boundary32)                        (* length/count/offset field *)
      | 6 -> let off = rint r n in set_le !a off 2 (pick r boundary32)
      | _ ->
        (* page-shaped input: rewrite one of the first line pointers with a length / offset next to a small guard (tuple
           header 23/24, item header 8, special 8176..8192) keeping the other two fields (seeded change C10-4: lp_len 23) *)
        if n >= 28 + 4 * 8 then begin
          let i = rint r 8 in
          let base = 24 + 4 * i in
          let w = !a.(base) lor (!a.(base + 1) lsl 8) lor (!a.(base + 2) lsl 16) lor (!a.(base + 3) lsl 24) in
          let off = w land 0x7fff and fl = (w lsr 15) land 3 and len = (w lsr 17) land 0x7fff in
          let off, fl, len = match rint r 3 with
            | 0 -> (off, fl, pick r [| 0; 1; 7; 8; 22; 23; 24; 25; 26; 27; 28; 31; 32; 40 |])
            | 1 -> (pick r [| 0; 1; 23; 24; 28; 8168; 8169; 8176; 8184; 8191; 8192 - len; 8193 - len |] land 0x7fff, fl, len)
            | _ -> (off, pick r [| 0; 1; 2; 3 |], len) in
          set_le !a base 4 (off lor (fl lsl 15) lor (len lsl 17))
        end
  done;
  Array.to_list (Array.map byte_of_int !a)

(* ---- valid encodings from the reference writers ---- *)
let le32 x = [ byte_of_int x; byte_of_int (x lsr 8); byte_of_int (x lsr 16); byte_of_int (x lsr 24) ]
let valid_tuple r : tup =
  let natts = rrange r 1 12 in
  let hasnull = rbool r in
  let bml = if hasnull then (natts + 7) / 8 else 0 in
  let hoff = (23 + bml + 7) land (lnot 7) in
  { tp_head = rbytes r 18; tp_natts = zi natts; tp_flags2 = zi 0; tp_infomask = zi ((if hasnull then 1 else 0) lor 0x0900);
    tp_hoff = zi hoff; tp_mid = rbytes r bml @ List.init (hoff - 23 - bml) (fun _ -> byte_of_int 0);
    tp_data = (match rint r 3 with
        | 0 -> le32 (rint r 100000) @ le32 (rint r 4) @ (byte_of_int (((rint r 60 + 1) lsl 1) lor 1) :: rbytes r 60)   (* TOAST-chunk-like *)
        | 1 -> le32 (rint r 100000) @ rbytes r 64 @ rbytes r 20                                                        (* catalog-row-like *)
        | _ -> rbytes r (rint r 120)) }
let valid_page r : page =
  let n = rrange r 0 20 in
  let lower = 24 + 4 * n in
  let body = Array.make (8192 - lower) 0 in
  let pos = ref 8192 in
  let lps = List.init n (fun _ ->
      let t = valid_tuple r in let e = enc_tuple t in let l = List.length e in
      pos := (!pos - l) land (lnot 7);
      List.iteri (fun i b -> body.(!pos - lower + i) <- int_of_byte b) e;
      ({ lp_off = zi !pos; lp_flags = zi 1; lp_len = zi l }, Some t)) in
  { pg_lsn_etc = rbytes r 12; pg_upper = zi !pos; pg_special = zi 8192; pg_version = zi 4; pg_prune = rbytes r 4;
    pg_lps = lps; pg_body = Array.to_list (Array.map byte_of_int body) }
let valid_file r = enc_file (List.init (rrange r 1 3) (fun _ -> BPage (valid_page r))) []
let valid_relmap r =
  let n = rint r 63 in
  enc_relmap { sp_magic = zi 0x592717; sp_count = zi n; sp_maps = List.init n (fun _ -> (z_of_zarith (rbits r 32), z_of_zarith (rbits r 32)));
               sp_slack = rbytes r (8 * (62 - n)); sp_crc = z_of_zarith (rbits r 32); sp_pad = rbytes r 4 }

(* ---- corpus harvested by bin/check from the other properties' drivers ($VERIF_CORPUS: entry \t hex \t param \t origin):
   valid encodings written by their Coq reference writers and their model-directed malformed inputs ---- *)
let corpus : (string, (string * int * string) array) Hashtbl.t = Hashtbl.create 64
let () =
  match Sys.getenv_opt "VERIF_CORPUS" with
  | None | Some "" -> ()
  | Some path ->
    (try
       let ic = open_in path in
       let tmp : (string, (string * int * string) list) Hashtbl.t = Hashtbl.create 64 in
       (try while true do
            match String.split_on_char '\t' (input_line ic) with
            | [ e; h; p; o ] ->
              let l = try Hashtbl.find tmp e with Not_found -> [] in
              Hashtbl.replace tmp e ((h, (try int_of_string p with _ -> 0), o) :: l)
            | _ -> ()
          done with End_of_file -> close_in ic);
       Hashtbl.iter (fun e l -> Hashtbl.replace corpus e (Array.of_list (List.rev l))) tmp
     with Sys_error _ -> ())
let unhex (h : string) : byte list =
  List.init (String.length h / 2) (fun i -> byte_of_int (int_of_string ("0x" ^ String.sub h (2 * i) 2)))

let strs = [| ""; "a"; "0"; ":"; "1:2"; "-1"; "9999999999999999999999"; "1:"; ":1"; "+"; "a:b"; "'"; "\""; "$str$"; "\\"; "\n"; "x;DROP TABLE y"; "(?i"; "[a-"; "\xff\xfe"; "select" |]

let gen_case r k =
  let e = entries.(k mod Array.length entries) in
  let stringy = List.mem e [ "ParseBlockRange"; "quoteIdent"; "quoteLiteral"; "formatSQLValue"; "mapToJSON"; "formatCSVValue"; "SearchInDump"; "ToSQLCSV" ] in
  let v, tag =
    if stringy then
      (match rint r 3 with
       | 0 -> (bytes_of_string (pick r strs), "string_corpus")
       | 1 -> (bytes_of_string (pick r strs ^ pick r strs ^ pick r strs), "string_mix")
       | _ -> (rbytes r (rint r 40), "string_random"))
    else match rint r 8 with
      | 7 -> (rbytes r (rint r 26), "random_short")      (* every length 0..25: the small guards (4, 6, 8, 12, 16, 18, 24) from both sides *)
      | 0 -> (rbytes r (pick r guard_lens), "random_guardlen")
      | 1 -> (rbytes r (rint r 300), "random_small")
      | 2 -> (pageish r, "pageish")
      | 3 -> (pageish r @ pageish r, "pageish2")
      | 4 -> (corrupt r (valid_file r), "corrupt_heap")
      | 5 -> (corrupt r (if rbool r then valid_relmap r else enc_tuple (valid_tuple r)), "corrupt_small")
      | _ -> (let p = pageish r in List.filteri (fun i _ -> i < pick r [| 8191; 4096; 100 |]) p, "pageish_truncated") in
  let tl = match rint r 3 with 0 -> [] | 1 -> List.init 32 (fun _ -> byte_of_int 0xff) | _ -> rbytes r 16 in
  emit ~fn:"NoPanic" ~tag:(e ^ "." ^ tag) ~s:"ok" ~m:"ok" [ e; hexf v; hexf tl; string_of_int (pick r [| 0; 1; 16; 17; 23; 25; 26; 114; 600; 602; 650; 700; 869; 1000; 1007; 1009; 1043; 1082; 1114; 1186; 1231; 1266; 1560; 1700; 2950; 3802; 3904; 3906; 3926; 99999 |]) ]

(* locality on pages and tuples (theorems C10_page_local / C10_tuple_local) *)
let loc_case r k =
  if k mod 2 = 0 then begin
    let pages = List.init (rrange r 2 3) (fun _ -> enc_page (valid_page r)) in
    let j = rint r (List.length pages) in
    let repl = if rbool r then pageish r else corrupt r (List.nth pages j) in
    let repl = List.filteri (fun i _ -> i < 8192) (repl @ List.init 8192 (fun _ -> byte_of_int 0)) in
    emit ~fn:"LocalityPage" ~tag:"locality_page" ~s:"ok" ~m:"ok" [ hexf (List.concat pages); string_of_int j; hexf repl; c_bool (rbool r) ]
  end else begin
    let p = valid_page r in
    let img = enc_page p in
    match List.filter (fun (_, o) -> o <> None) p.pg_lps with
    | [] -> ()
    | l -> let (lp, _) = pickl r l in
      let off = iz lp.lp_off and len = iz lp.lp_len in
      emit ~fn:"LocalityTuple" ~tag:"locality_tuple" ~s:"ok" ~m:"ok" [ hexf img; string_of_int off; string_of_int len; hexf (rbytes r len) ]
  end

(* every harvested input as it is (the other drivers' guard-directed malformed inputs included), and damaged *)
let corpus_case r k =
  let e = entries.(k mod Array.length entries) in
  match Hashtbl.find_opt corpus e with
  | None -> ()
  | Some arr when Array.length arr = 0 -> ()
  | Some arr ->
    let (h, p, origin) = arr.((k / Array.length entries) mod Array.length arr) in
    let v = unhex h in
    let v, tag = if rint r 3 = 0 then (v, "corpus_asis") else (corrupt r v, "corpus_corrupt") in
    let tl = match rint r 3 with 0 -> [] | 1 -> List.init 32 (fun _ -> byte_of_int 0xff) | _ -> rbytes r 16 in
    emit ~fn:"NoPanic" ~tag:(e ^ "." ^ tag ^ "." ^ origin) ~s:"ok" ~m:"ok" [ e; hexf v; hexf tl; string_of_int p ]

(* value locality (theorem C10_value_local): a row (int4, text, int8, text, name-like fixed 6) as heap_fill_tuple stores
   it; the payload of one attribute is overwritten by other bytes of the same length; all OTHER columns must decode alike *)
let vl_case r k =
  let col name typid len al = { c_name = bytes_of_string name; c_typid = zi typid; c_len = zi len; c_num = zi 0; c_align = zi (Char.code al) } in
  let cols = [ col "a" 23 4 'i'; col "b" 25 (-1) 'i'; col "c" 20 8 'd'; col "d" 25 (-1) 'i'; col "e" 829 6 'i' ] in
  let text () = if rbool r then DShort (rbytes r (rrange r 1 126)) else DLong (rbytes r (rrange r 1 300)) in
  let ds = [ DFixed (rbytes r 4); (if rint r 5 = 0 then DNull else text ()); DFixed (rbytes r 8); text (); DFixed (rbytes r 6) ] in
  let j = rint r 5 in
  let dj = List.nth ds j in
  let same = function
    | DNull -> DNull
    | DFixed b -> DFixed (rbytes r (List.length b)) | DShort b -> DShort (rbytes r (List.length b))
    | DLong b -> DLong (rbytes r (List.length b)) | d -> d in
  let ds' = List.mapi (fun i d -> if i = j then same dj else d) ds in
  let bm = if has_nulls ds then hexf (bitmap_of ds) else "nil" in
  emit ~fn:"LocalityValue" ~tag:(Printf.sprintf "locality_value_col%d" j) ~s:"ok" ~m:"ok"
    [ bm; hexf (fill (zi 0) cols ds); hexf (fill (zi 0) cols ds'); string_of_int j ]

(* WAL / index page locality (theorems C10_wal_page_local, C10_wal_page_damage_local, C10_index_entry_local,
   C10_index_page_damage_local): a multi-page segment / index file harvested from C17's / C18's driver (valid files written
   by their Coq reference writers, and their malformed ones - the theorems hold for ALL byte strings); one page is replaced
   by junk, a damaged copy, zeros, a copy with a damaged header, a page of ANOTHER file or another page of the same file
   (valid page at the wrong place: the base offset / page number must not matter).  The harness checks the decomposition. *)
let big_rows : (string, string array) Hashtbl.t = Hashtbl.create 4
let big e =
  match Hashtbl.find_opt big_rows e with
  | Some a -> a
  | None ->
    let a = match Hashtbl.find_opt corpus e with
      | None -> [||]
      | Some arr -> Array.of_list (List.filter_map (fun (h, _, _) -> if String.length h / 2 >= 16384 then Some h else None) (Array.to_list arr)) in
    Hashtbl.replace big_rows e a; a
let loc2_case r k =
  let e, fn = if k mod 2 = 0 then ("ParseWALFile", "LocalityWAL") else ("ParseIndexFile", "LocalityIndex") in
  let rows = big e in
  if Array.length rows > 0 then begin
    let h = rows.((k / 2) mod Array.length rows) in
    let a = Array.of_list (unhex h) in
    let np = Array.length a / 8192 in
    let j = if fn = "LocalityIndex" && rint r 4 <> 0 then 1 + rint r (np - 1) else rint r np in
    let page arr i = Array.to_list (Array.sub arr (i * 8192) 8192) in
    let fit l = List.filteri (fun i _ -> i < 8192) (l @ List.init 8192 (fun _ -> byte_of_int 0)) in
    let repl, tag = match rint r 6 with
      | 0 -> (rbytes r 8192, "junk")
      | 1 -> (fit (corrupt r (page a j)), "corrupt_copy")
      | 2 -> let o = Array.of_list (unhex rows.(rint r (Array.length rows))) in (page o (rint r (Array.length o / 8192)), "foreign_page")
      | 3 -> (List.init 8192 (fun _ -> byte_of_int 0), "zeros")
      | 4 -> (List.mapi (fun i b -> if i < 24 && rbool r then rbyte r |> byte_of_int else b) (page a j), "header_damaged")
      | _ -> (page a ((j + 1 + rint r (np - 1)) mod np), "sibling_page") in
    emit ~fn ~tag:(Printf.sprintf "%s.%s.%s" (String.lowercase_ascii fn) tag (if j = 0 then "first" else "later")) ~s:"ok" ~m:"ok"
      [ h; string_of_int j; hexf repl ]
  end

(* systematic truncation / single-byte damage of harvested inputs: the harness runs every prefix, resp. every single-bit flip
   and boundary byte value over the head and tail of the input, inside one case *)
let sweep_case r k =
  let e = entries.(k mod Array.length entries) in
  match Hashtbl.find_opt corpus e with
  | None -> ()
  | Some arr when Array.length arr = 0 -> ()
  | Some arr ->
    let (h, p, origin) = arr.((k / Array.length entries) mod Array.length arr) in
    if String.length h <= 2 * 20000 then begin
      let mode = match (k / Array.length entries) mod 4 with
        | 0 -> "prefix" | 1 -> "flip" | 2 -> "smallint" | _ -> if String.length h >= 2 * 8192 then "lp" else "smallint" in
      emit ~fn:"NoPanicSweep" ~tag:(e ^ ".sweep_" ^ mode ^ "." ^ origin) ~s:"ok" ~m:"ok" [ e; h; string_of_int p; mode ]
    end

(* amplification bombs: self-similar nested containers in which several children of one container point at the SAME
   bytes (JSONB: an entry whose stored end offset runs backwards resets the running offset), so that naive recursive
   decoding does 2^depth or 3^depth work on a few hundred bytes.  Found in the unchanged tree by an independent seeding
   agent and repaired (fix: reject backward offsets); kept as a directed stream. *)
let jsonb_bomb r depth fan : byte list =
  let rec level d =
    if d = 0 then le32 0x40000000 else begin
      let c = level (d - 1) in
      let l = List.length c in
      let ents = List.concat (List.init fan (fun i ->
          if i = 0 then [ le32 (0x50000000 lor l) ]
          else [ le32 (0x80000000 lor 0x40000000 lor (pick r [| 0; 0; 1; l - 1 |] land 0x0fffffff)); le32 (0x50000000 lor l) ])) in
      le32 (0x40000000 lor (List.length ents)) @ List.concat ents @ c end in
  level depth
(* hostile array headers: ndim 0..7 and dimension words from the boundary set, so that the element count (product of the
   dimensions) overflows int32 / int64 or is huge while the datum is tiny (seeded change C10-5: product wrapping negative in
   int64 reached make()); with and without a null bitmap, every element type class *)
let array_case r k =
  let ndim = pick r [| 0; 1; 2; 3; 3; 4; 6; 7 |] in
  let dims = List.init ndim (fun _ -> (pick r [| 0; 1; 2; 3; 12; 0x10000; 0x40000000; 0x7fffffff; 0x80000000; 0xffffffff |], pick r [| 0; 1; 0x7fffffff; 0xffffffff |])) in
  let elem = pick r [| 23; 25; 20; 1700; 16; 19; 2950; 829; 1266 |] in
  let hasnull = rbool r in
  let hdr = le32 ndim @ le32 (if hasnull then pick r [| 16 + 8 * ndim; 1; 0xffff |] else 0) @ le32 elem
            @ List.concat_map (fun (d, lb) -> le32 d @ le32 lb) dims in
  let v = hdr @ rbytes r (pick r [| 0; 4; 16; 64 |]) in
  let arr_oid = pick r [| 1007; 1009; 1016; 1231; 1000; 1003; 2951; 1040; 1270 |] in
  emit ~fn:"NoPanic" ~tag:(Printf.sprintf "DecodeType.hostile_array_ndim%d" ndim) ~s:"ok" ~m:"ok" [ "DecodeType"; hexf v; "-"; string_of_int arr_oid ]

(* one-page functions on buffers of several pages whose FIRST page is all zero / a valid page / junk, followed by other bytes *)
let firstpage_case r k =
  let e = pick r [| "ParseBlockInfo"; "VerifyPageChecksum"; "detectIndexType" |] in
  let zero_page = List.init 8192 (fun _ -> byte_of_int 0) in
  let first = match rint r 4 with 0 | 1 -> zero_page | 2 -> enc_page (valid_page r) | _ -> pageish r in
  let rest = match rint r 3 with 0 -> pageish r | 1 -> enc_page (valid_page r) | _ -> rbytes r (1 + rint r 300) in
  emit ~fn:"FirstPageOnly" ~tag:(e ^ ".first_page_only") ~s:"ok" ~m:"ok" [ e; hexf (first @ rest); string_of_int (rint r 5) ]

(* fixed-layout scalars with a small header deciding how many bytes follow (inet/cidr: family, bits, is_cidr, nb; varbit/bit:
   bit count; path/polygon: point count; macaddr, interval, timetz, tid ...): every payload length around the sizes the header
   promises (seeded change C10-10: a 19-byte AF_INET6 value read as the 20-byte layout) *)
let scalar_shape_case r k =
  let oid, hdr = match rint r 6 with
    | 0 | 1 -> (pick r [| 869; 650 |],
                [ pick r [| 2; 3; 0; 1; 4; 255 |]; pick r [| 0; 8; 32; 33; 64; 128; 129; 255 |]; rint r 2; pick r [| 4; 16; 0; 5; 17; 255 |] ])
    | 2 -> (pick r [| 1560; 1562 |], let n = pick r [| 0; 1; 7; 8; 9; 64; 65; 0x7fffffff; 0xffffffff |] in
            [ n land 255; (n lsr 8) land 255; (n lsr 16) land 255; (n lsr 24) land 255 ])
    | 3 -> (pick r [| 602; 604 |], let n = pick r [| 0; 1; 2; 3; 0x7fffffff; 0xffffffff |] in
            [ rint r 2; n land 255; (n lsr 8) land 255; (n lsr 16) land 255; (n lsr 24) land 255 ])
    | 4 -> (pick r [| 829; 774; 1186; 1266; 27; 600; 601; 603; 718; 2950; 1083; 1114; 1184; 1082; 790; 3220 |], [])
    | _ -> (pick r [| 3904; 3906; 3908; 3910; 3912; 3926 |], [ pick r [| 0; 1; 2; 4; 6; 8; 16; 24; 0x18; 0x1a; 0xff |] ]) in
  let want = pick r [| 0; 1; 2; 3; 4; 5; 6; 7; 8; 9; 11; 12; 13; 15; 16; 17; 18; 19; 20; 21; 22; 23; 24; 25; 31; 32; 33 |] in
  let hb = List.map byte_of_int hdr in
  let v = List.filteri (fun i _ -> i < want) (hb @ rbytes r 40) in
  let tl = match rint r 3 with 0 -> [] | 1 -> List.init 8 (fun _ -> byte_of_int 0xff) | _ -> rbytes r 4 in
  emit ~fn:"NoPanic" ~tag:(Printf.sprintf "DecodeType.scalar_shape_oid%d" oid) ~s:"ok" ~m:"ok" [ "DecodeType"; hexf v; hexf tl; string_of_int oid ]

let bomb_case r k =
  let depth = pick r [| 18; 24; 30; 40; 60 |] and fan = pick r [| 2; 2; 3 |] in
  let v = jsonb_bomb r depth fan in
  let e = pick r [| "ParseJSONB"; "DecodeType" |] in
  emit ~fn:"NoPanic" ~tag:(Printf.sprintf "%s.jsonb_overlap_bomb_d%d_f%d" e depth fan) ~s:"ok" ~m:"ok" [ e; hexf v; "-"; "3802" ]

let gen seed n =
  for k = 0 to n - 1 do gen_case (rng_for seed k) k done;
  for k = 0 to n / 3 do corpus_case (rng_for seed (7000000 + k)) k done;
  for k = 0 to n / 12 do sweep_case (rng_for seed (8000000 + k)) k done;
  for k = 0 to 11 do bomb_case (rng_for seed (8500000 + k)) k done;
  for k = 0 to n / 150 do firstpage_case (rng_for seed (8700000 + k)) k done;
  for k = 0 to n / 40 do array_case (rng_for seed (8600000 + k)) k done;
  for k = 0 to n / 10 do scalar_shape_case (rng_for seed (8800000 + k)) k done;
  for k = 0 to n / 30 do vl_case (rng_for seed (9000000 + k)) k done;
  for k = 0 to n / 10 do loc_case (rng_for seed (5000000 + k)) k done;
  for k = 0 to n / 45 do loc2_case (rng_for seed (6000000 + k)) k done
let () = main gen
