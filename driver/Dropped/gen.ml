(* Dropped driver: dropped.go (dropped-column discovery and recovery) against the Coq model of coq/Dropped.
   A case index yields one WORLD: an abstract database directory — pg_database rows, pg_class rows, pg_attribute
   records (coq/Dropped/Spec.v dattr) of 1-4 relations with 1-12 attributes each of which 0-3 are dropped, and the
   heap of ONE target relation whose rows were formed over the FULL attribute list (dropped attributes still holding
   their bytes in rows written before the DROP, NULL afterwards) — laid out ONLY by the extracted reference writers
   (C01.enc_heap = C02.enc_page / enc_tuple + C03.stored_tuple / fill over Dropped/Spec.v dattr_ds, C01 db_ds / class_ds).
   Every world yields one line per function:
     ParseAllAttributes / ParseDroppedColumns  S = expected_all / expected_dropped of the LIVE abstract records
     BuildColumns                              S = rel_dcols (the relation's tuple descriptor, dropped ones included)
     RecoverValues / RecoverDir                the EXPORTED FindDroppedColumns / ScanDroppedColumns /
                                               GetDroppedColumnSchema / RecoverDroppedColumnData on the materialised
                                               directory; S from the abstract world (expected_values: C03's expected_value
                                               of the datum at position attnum-1 of every live row)
   plus DroppedName (the name pattern: S from how the name was BUILT, M = the recogniser, I = the Go regexp),
   SchemaTables (the two catalog schemas) and a malformed stream (S = "-"): damaged / truncated / random files, the
   17-column layout (which the code can never select: coq Dropped_v15_unreachable), relations with attnum gaps.
   Lists sorted by sort.Slice are compared modulo the order of TIED keys: inside a maximal run of equal keys the
   renderings are sorted (both sides), so a missing or wrong sort still shows. *)
open Model
open Util
open Value

let zz (i : int) = ZA.of_int i
let ch c = Char.code c
let bs (s : string) = bytes_of_string s

(* ---------- rendering (must agree with harness/dropped.go) ---------- *)
let c_dci (c : droppedColumnInfo) : string =
  c_rec [ "rel", zs c.d_relid; "tbl", c_str c.d_table; "num", zs c.d_attnum; "orig", c_str c.d_orig;
          "dname", c_str c.d_dname; "typ", zs c.d_typid; "tname", c_str c.d_tname; "len", zs c.d_len;
          "align", zs c.d_align; "byval", c_bool c.d_byval ]
(* sort the renderings inside every maximal run of equal keys *)
let canon_runs (items : ('k * string) list) : string list =
  let rec go acc cur = function
    | [] -> List.rev (List.rev_append (List.sort compare (List.map snd cur)) acc)
    | (k, s) :: r ->
      (match cur with
       | (k0, _) :: _ when k0 <> k -> go (List.rev_append (List.sort compare (List.map snd cur)) acc) [ (k, s) ] r
       | _ -> go acc ((k, s) :: cur) r) in
  go [] [] items
let c_all (l : droppedColumnInfo list) : string = c_list (canon_runs (List.map (fun c -> (zs c.d_attnum, c_dci c)) l))
let c_dropped (l : droppedColumnInfo list) : string =
  c_list (canon_runs (List.map (fun c -> (zs c.d_relid ^ "/" ^ zs c.d_attnum, c_dci c)) l))
let c_col (c : column) : string =
  c_rec [ "name", c_str c.c_name; "typ", zs c.c_typid; "len", zs c.c_len; "num", zs c.c_num; "align", zs c.c_align ]
let c_cols (l : column list) = c_list (List.map c_col l)
let c_err = function ERead -> "err:read" | EDb -> "err:db" | ETable -> "err:table" | EColumn -> "err:column"
let c_dres f = function DOk x -> f x | DErr e -> c_err e
let c_data (d : droppedColumnData) : string =
  c_rec [ "col", c_dci d.dd_column; "values", c_list (List.map c_gval d.dd_values); "rows", c_list (List.map c_map d.dd_rows) ]
let c_scan (l : (byte list * droppedColumnInfo list) list) : string =
  c_list (List.map (fun (n, cs) -> c_rec [ "db", c_str n; "cols", c_dropped cs ]) l)

(* ---------- tuple headers, pages (as in the C01 / Compose drivers) ---------- *)
let live_kinds = [| 0x0900; 0x0B00; 0x0100; 0x0D00; 0x0300 |]
let dead_kinds = [| 0x0500; 0x0A00; 0x0000; 0x0800; 0x0400; 0x0C00; 0x2500; 0x0200; 0x0600 |]
let gen_mask r ~alive =
  let kind = if alive then pick r live_kinds else pick r dead_kinds in
  let m = kind lor (rbyte r land 0xfe) lor (rint r 16 lsl 12) in
  if dx_live_mask (zi m) <> alive then failwith "Dropped generator: hint-bit table";
  m
let mk_vhdr r ~alive : vhdr =
  { vh_head = rbytes r 18; vh_flags2 = zi (rint r 32); vh_mask_hi = zi (gen_mask r ~alive lsr 1); vh_extra = zi (pick r [| 0; 0; 0; 1; 2 |]) }
let junk_tup r : tup =
  let hoff = pick r [| 24; 32; 40 |] in
  let natts = rint r 24 in
  let hasnull = rbool r && (natts + 7) / 8 <= hoff - 23 in
  let mask = (gen_mask r ~alive:false) lor (if hasnull then 1 else 0) in
  { tp_head = rbytes r 18; tp_natts = zi natts; tp_flags2 = zi (rint r 32); tp_infomask = zi mask; tp_hoff = zi hoff;
    tp_mid = rbytes r (hoff - 23); tp_data = rbytes r (rint r 150) }
let stub r : 'a version =
  match rint r 3 with
  | 0 -> VStub { lp_off = zi 0; lp_flags = zi 0; lp_len = zi 0 }
  | 1 -> VStub { lp_off = zi (1 + rint r 20); lp_flags = zi 2; lp_len = zi 0 }
  | _ -> VStub { lp_off = zi 0; lp_flags = zi 3; lp_len = zi 0 }
let mkpage r items : 'a hpage = { hp_lsn = rbytes r 12; hp_prune = rbytes r 4; hp_items = items }
let pack r ~(fits : 'a hpage -> bool) ~per_page (items : 'a version list) : 'a hblock list =
  let pages = ref [] and cur = ref [] in
  List.iter (fun it ->
      let cand = !cur @ [ it ] in
      if List.length cand <= per_page && fits (mkpage r cand) then cur := cand
      else begin pages := mkpage r !cur :: !pages; cur := [ it ] end) items;
  if !cur <> [] then pages := mkpage r !cur :: !pages;
  List.map (fun p -> HPage p) (List.rev !pages)
let rec take n = function [] -> [] | x :: r -> if n <= 0 then [] else x :: take (n - 1) r
(* interleave: every row version alive; [extra] (dead versions, stubs, junk) inserted at random places *)
let sprinkle r (extra : 'a list) (l : 'a list) : 'a list =
  List.fold_left (fun acc x -> let pos = rint r (List.length acc + 1) in
                   take pos acc @ [ x ] @ List.filteri (fun i _ -> i >= pos) acc) l extra
let tail_for r = match rint r 3 with 0 -> rbytes r (1 + rint r 30) | _ -> []

(* ---------- dropped-column names ---------- *)
let dots n = String.make n '.'
(* (name, Some digits) when the name is in the language, (name, None) for a near miss *)
let gen_dropped_name r (attnum : int) : string * string option =
  let d = match rint r 5 with 0 -> "007" | 1 -> string_of_int (1 + rint r 1600) | _ -> string_of_int attnum in
  match rint r 16 with
  | 0 -> ("pg.dropped." ^ d ^ dots 8, None)                          (* no leading dots *)
  | 1 -> (dots 8 ^ "pg.dropped." ^ dots 9, None)                      (* no digits *)
  | 2 -> (dots 8 ^ "pg.dropped." ^ d ^ dots 8 ^ "x", None)            (* trailing text *)
  | 3 -> (dots 8 ^ "pg.dropped." ^ d, None)                           (* no trailing dots *)
  | 4 -> (dots 8 ^ "pg.dropped.\xd9\xa3" ^ dots 8, None)              (* ARABIC-INDIC DIGIT THREE *)
  | 5 -> (dots 8 ^ "pg.dropped." ^ d ^ dots 8 ^ "\n", None)           (* $ is end of text, not end of line *)
  | 6 -> (pick r [| dots 8 ^ "PG.DROPPED." ^ d ^ dots 8; dots 8 ^ "pg_dropped." ^ d ^ dots 8; "x" ^ dots 8 ^ "pg.dropped." ^ d ^ dots 8;
                    dots 8 ^ "pg.dropped." ^ d ^ "a" ^ dots 8; dots 8 ^ "pg.dropped.-" ^ d ^ dots 8; dots 8 ^ "pg.dropped." ^ d ^ " " ^ dots 8;
                    dots 4 ^ " " ^ dots 4 ^ "pg.dropped." ^ d ^ dots 8; dots 8 ^ "pgxdroppedx" ^ d ^ dots 8 |], None)
  | 7 -> let a = pick r [| 1; 2; 3 |] and b = pick r [| 1; 2; 20 |] in (dots a ^ "pg.dropped." ^ d ^ dots b, Some d)
  | _ -> (dots 8 ^ "pg.dropped." ^ d ^ dots 8, Some d)
let check_name (name : string) (exp : string option) =
  let m = match dx_match (bs name) with Some g -> Some (string_of_bytes g) | None -> None in
  if m <> exp then failwith (Printf.sprintf "Dropped generator: recogniser disagrees with the construction of %S" name)

(* ---------- attribute layout classes: (attlen, attalign, atttypid) ---------- *)
type lay = int * int * int
let live_lays : lay array = [| (4, ch 'i', 23); (2, ch 's', 21); (8, ch 'd', 20); (1, ch 'c', 16); (-1, ch 'i', 25); (64, ch 'c', 19);
                               (16, ch 'c', 2950); (4, ch 'i', 26); (-1, ch 'i', 1043); (1, ch 'c', 18); (-2, ch 'c', 2275); (-1, ch 'i', 17) |]
(* dropped columns: atttypid 0, every attlen class with every alignment PostgreSQL pairs it with (and a few it does not) *)
let dropped_lays : lay array = [| (1, ch 'c', 0); (2, ch 's', 0); (4, ch 'i', 0); (8, ch 'd', 0); (16, ch 'c', 0); (-1, ch 'i', 0); (-2, ch 'c', 0);
                                  (-1, ch 'd', 0); (16, ch 'd', 0); (6, ch 's', 0); (8, ch 'i', 0); (64, ch 'c', 0); (12, ch 'i', 0); (4, ch 'c', 0);
                                  (-1, ch 'c', 0); (-1, ch 's', 0); (2, ch 'c', 0); (32, ch 'd', 0) |]
let payload r n = List.init n (fun i -> byte_of_int (if i = 0 then pick r [| 0; 1; 2; 3; 0x12; 0xff; rbyte r; 0x41 |] else (match rint r 8 with 0 -> 0 | 1 -> 0x80 + rint r 128 | _ -> 0x20 + rint r 0x5f)))
let nonzero r n = List.init n (fun _ -> byte_of_int (1 + rint r 255))
let ascii r n = List.init n (fun _ -> byte_of_int (0x20 + rint r 0x5f))
let datum_for r ((len, _, typ) : lay) : datum =
  if len > 0 then begin
    if typ = 16 then DFixed [ byte_of_int (rint r 2) ]
    else if typ = 19 then (let n = nonzero r (pick r [| 0; 1; 8; 30; 63 |]) in DFixed (n @ List.init (64 - List.length n) (fun _ -> byte_of_int 0)))
    else if typ = 0 then DFixed (payload r len)
    else DFixed (List.map byte_of_int (List.init len (fun _ -> 1 + rint r 255)))
  end
  else if len = -2 then DCStr (nonzero r (pick r [| 0; 1; 5; 70 |]))
  else begin
    let n = pick r [| 0; 1; 2; 3; 7; 20; 60; 125; 126; 127; 128; 300 |] in
    let p = if typ = 0 then payload r n else ascii r n in
    if n <= 126 && rint r 4 <> 0 then DShort p else DLong p
  end

(* ---------- the world ---------- *)
type att = { a : dattr; lay : lay; exp_orig : string option (* dropped: the digits of its name, if in the language *) }
type rel = { oid : int; node : int; name : string; kind : int; atts : att list (* attnum 1..n, or with gaps *); gaps : bool;
             sys : dattr list (* attnum < 0 *) }
type world = { v16 : bool; db_name : string; db_oid : int; rels : rel list; target : rel;
               attr_heap : dattr heap; attr_file : byte list; class_file : byte list; db_file : byte list;
               tcols : column list; tbl_heap : datum list heap; tbl_file : byte list; tbl_rows : datum list list;
               files : (string * byte list) list; fs : (path * byte list) list; tpl_oid : int }

let misc r = rbytes r 12
let mk_dattr r ~relid ~name ~(l : lay) ~num ~dropped : dattr =
  let (len, al, typ) = l in
  { da_relid = zi relid; da_name = bs name; da_typid = zi typ; da_len = zi len; da_num = zi num; da_byval = (len > 0 && len <= 8 && rint r 8 <> 0);
    da_align = zi al; da_isdropped = dropped; da_misc = misc r; da_stat = rbytes r 4 }
let col_names = [| "id"; "name"; "email"; "Password"; "created_at"; "data"; "flag"; "c"; "Col"; "v\xc3\xa9rifi\xc3\xa9"; "note"; "qty"; "dropped"; "dropped_x" |]
let t_names = [| "users"; "orders"; "accounts"; "t"; "Passwords"; "audit_log" |]

let gen_rel r ~oid ~node ~name ~(gaps : bool) ~natts ~ndrop : rel =
  let drop_at = take ndrop (shuffle r (List.init natts (fun i -> i))) in
  let nums = if gaps then (let cur = ref 0 in List.init natts (fun _ -> cur := !cur + 1 + (if rint r 3 = 0 then 1 + rint r 3 else 0); !cur))
             else List.init natts (fun i -> i + 1) in
  let atts = List.mapi (fun i num ->
      if List.mem i drop_at then begin
        let l = pick r dropped_lays in
        let (nm, e) = gen_dropped_name r num in
        check_name nm e;
        { a = mk_dattr r ~relid:oid ~name:nm ~l ~num ~dropped:true; lay = l; exp_orig = e }
      end else begin
        let l = pick r live_lays in
        { a = mk_dattr r ~relid:oid ~name:(Printf.sprintf "%s%d" (pick r col_names) i) ~l ~num ~dropped:false; lay = l; exp_orig = None }
      end) nums in
  let sys = if rint r 3 = 0 then [] else
      List.map (fun (n, num, l) -> mk_dattr r ~relid:oid ~name:n ~l ~num ~dropped:(if num = 0 then rbool r else rint r 6 = 0))
        ([ ("ctid", -1, (6, ch 's', 27)); ("xmin", -2, (4, ch 'i', 28)); ("cmin", -3, (4, ch 'i', 29)); ("tableoid", -6, (4, ch 'i', 26)) ]
         (* attnum 0 does not occur in a real catalog; it is the other side of the guard attnum <= 0 *)
         @ (if rbool r then [ ("zero", 0, (4, ch 'i', 23)) ] else [])) in
  { oid; node; name; kind = ch 'r'; atts; gaps; sys }

let fresh_ids r n = let used = Hashtbl.create 8 in
  List.init n (fun _ -> let rec go () = let v = match rint r 4 with 0 -> 16384 + rint r 50000 | 1 -> ZA.to_int (rdistinct r 32) land 0x7fffffff | 2 -> 0x80000000 + rint r 0x3fffffff | _ -> 1000 + rint r 100000 in
                          if v = 0 || v = 1259 || v = 1249 || v = 1262 || Hashtbl.mem used v then go () else (Hashtbl.add used v (); v) in go ())

let build_world r (k : int) : world =
  let v16 = k mod 9 <> 8 in
  let nrel = rrange r 1 4 in
  let ids = fresh_ids r (2 * nrel + 3) in
  let db_oid = List.nth ids (2 * nrel) and tpl_oid = List.nth ids (2 * nrel + 1) and other_oid = List.nth ids (2 * nrel + 2) in
  let names = take nrel (shuffle r (Array.to_list t_names)) in
  let rels = List.mapi (fun i name ->
      let oid = List.nth ids (2 * i) in
      (* i > 0, sometimes: a relation without storage (partitioned table, relfilenode 0): not in ParsePGClass's map, so its
         dropped columns carry no table name *)
      let node = if i > 0 && rint r 5 = 0 then 0 else if rint r 3 = 0 then oid else List.nth ids (2 * i + 1) in
      let natts = if i = 0 then rrange r 2 12 else rrange r 1 8 in
      let ndrop = if i = 0 then rrange r 1 (min 3 natts) else rint r (min 4 (natts + 1)) in
      gen_rel r ~oid ~node ~name ~gaps:(i > 0 && rint r 3 = 0) ~natts ~ndrop) names in
  let target = List.hd rels in
  (* a second relation with the target's NAME and a higher / lower filenode (another schema): the lowest filenode wins *)
  let twin = if rint r 3 = 0 then
      [ { target with oid = 900000 + rint r 1000; node = target.node + 1 + rint r 5; atts = []; sys = [] } ]
    else [] in
  let twin = List.filter (fun t -> not (List.exists (fun x -> x.node = t.node || x.oid = t.oid) rels) && t.node <> 1259 && t.node <> 1249) twin in
  let class_rels = rels @ twin in
  (* ---- pg_attribute ---- *)
  let live_atts = List.concat_map (fun x -> List.map (fun t -> t.a) x.atts @ x.sys) rels in
  let live_atts = shuffle r live_atts in
  let fits16 = dx_attr_fits v16 in
  let dead_atts = List.concat_map (fun x -> List.filter_map (fun t ->
      if t.a.da_isdropped && rint r 3 <> 0 then
        (* the version ALTER TABLE .. DROP COLUMN superseded: same (attrelid, attnum), original name, not dropped *)
        Some (VRow (mk_vhdr r ~alive:false, { t.a with da_name = bs (pick r col_names); da_isdropped = false; da_typid = zi 23 }))
      else if rint r 8 = 0 then Some (VRow (mk_vhdr r ~alive:false, { t.a with da_isdropped = not t.a.da_isdropped }))   (* aborted *)
      else None) x.atts) rels in
  let extra = dead_atts @ (if rint r 4 = 0 then [ stub r ] else []) @ (if rint r 4 = 0 then [ VOld (junk_tup r) ] else []) in
  let items = sprinkle r extra (List.map (fun a -> VRow (mk_vhdr r ~alive:true, a)) live_atts) in
  (* multi-page catalogs: few items per page, at most about 4 pages (the list-based model is slow per page) *)
  let attr_heap = pack r ~fits:fits16 ~per_page:(max (pick r [| 4; 7; 100 |]) ((List.length items + 3) / 4)) items in
  let attr_heap = if rint r 8 = 0 then HZero :: attr_heap else attr_heap in
  let attr_file = dx_enc_attr v16 attr_heap in
  (* ---- pg_class ---- *)
  let crow (x : rel) : classrow = { cr_oid = zi x.oid; cr_name = bs x.name; cr_filenode = zi x.node; cr_kind = zi x.kind; cr_misc = rbytes r 43 } in
  let class_items = sprinkle r (if rint r 3 = 0 then [ VRow (mk_vhdr r ~alive:false, crow { target with name = "old_name" }) ] else [])
      (List.map (fun x -> VRow (mk_vhdr r ~alive:true, crow x)) (shuffle r class_rels)) in
  let class_heap = pack r ~fits:dx_class_fits ~per_page:100 class_items in
  let class_file = dx_enc_class class_heap in
  (* ---- pg_database ---- *)
  let db_name = pick r [| "app"; "shop_db"; "postgres"; "donn\xc3\xa9es" |] in
  let dbrows = [ { dr_oid = zi tpl_oid; dr_name = bs "template1" }; { dr_oid = zi db_oid; dr_name = bs db_name };
                 { dr_oid = zi other_oid; dr_name = bs "nodir" } ] in
  let dbrows = if rbool r then dbrows else List.rev dbrows in
  let db_items = List.map (fun d -> VRow (mk_vhdr r ~alive:true, d)) dbrows @ (if rint r 3 = 0 then [ VRow (mk_vhdr r ~alive:false, { dr_oid = zi 77; dr_name = bs db_name }) ] else []) in
  let db_file = dx_enc_db (pack r ~fits:dx_db_fits ~per_page:100 (if rbool r then db_items else List.rev db_items)) in
  (* ---- the target relation's heap: rows formed over the FULL attribute list ---- *)
  let orig_target = List.hd rels in
  let tcols = dx_rel_dcols (dx_live_attr attr_heap) (zi orig_target.oid) in
  let lays = List.map (fun t -> (t.lay, t.a.da_isdropped)) orig_target.atts in
  let n = List.length lays in
  let gen_row ~after_drop ~natts =
    take natts (List.map (fun (l, dropped) -> if dropped && after_drop then DNull else if rint r 7 = 0 then DNull else datum_for r l) lays) in
  let nrows = rrange r 1 6 in
  let rows = List.init nrows (fun i ->
      let natts = if rint r 5 = 0 then rint r (n + 1) else n in
      VRow (mk_vhdr r ~alive:true, gen_row ~after_drop:(i >= nrows / 2 && rint r 4 <> 0) ~natts)) in
  let dead_rows = List.init (rint r 3) (fun _ -> VRow (mk_vhdr r ~alive:false, gen_row ~after_drop:false ~natts:n)) in
  let tbl_items = sprinkle r (dead_rows @ (if rint r 5 = 0 then [ stub r ] else [])) rows in
  let tbl_heap = take 2 (pack r ~fits:(dx_tbl_fits tcols) ~per_page:(pick r [| 3; 100 |]) tbl_items) in
  let tbl_file = dx_enc_tbl tcols tbl_heap in
  let tbl_rows = dx_live_tbl tbl_heap in
  let p_db d = Printf.sprintf "base/%d/" d in
  let files = [ ("global/1262", db_file); (p_db db_oid ^ "1259", class_file); (p_db db_oid ^ "1249", attr_file);
                (p_db db_oid ^ string_of_int target.node, tbl_file);
                (* the template database's directory holds the same catalogs: ScanDroppedColumns must skip it by NAME *)
                (p_db tpl_oid ^ "1259", class_file); (p_db tpl_oid ^ "1249", attr_file) ] in
  let fs = [ (PGlobal1262, db_file); (PBase (zi db_oid, zi 1259), class_file); (PBase (zi db_oid, zi 1249), attr_file);
             (PBase (zi db_oid, zi target.node), tbl_file); (PBase (zi tpl_oid, zi 1259), class_file); (PBase (zi tpl_oid, zi 1249), attr_file) ] in
  { v16; db_name; db_oid; rels = class_rels; target; attr_heap; attr_file; class_file; db_file; tcols; tbl_heap; tbl_file; tbl_rows; files; fs; tpl_oid }

let fs_of (l : (path * byte list) list) : path -> byte list option = fun p -> List.assoc_opt p l
let files_args (l : (string * byte list) list) : string list = List.concat_map (fun (n, b) -> [ n; hexf b ]) l

(* tableNames as FindDroppedColumns builds it: relations with storage, keyed by oid *)
let table_name_of (w : world) : z -> byte list = fun oid ->
  match List.find_opt (fun x -> x.node > 0 && zi x.oid = oid) w.rels with Some x -> bs x.name | None -> []

(* ---------- case lines ---------- *)
let run_all ~tag ~s data tl (oid : int) =
  let m = c_res c_all (dx_parseAll { vis = data; tail = tl } (zi oid)) in
  emit ~fn:"ParseAllAttributes" ~tag ~s ~m [ hexf data; hexf tl; string_of_int oid ]
let tn_arg (tn : (z * byte list) list) = match tn with [] -> "-" | _ -> String.concat ";" (List.map (fun (k, n) -> zs k ^ ":" ^ hexf n) tn)
let run_dropped ~tag ~s data tl (tn : (z * byte list) list) =
  let m = c_res c_dropped (dx_parseDropped { vis = data; tail = tl } tn) in
  emit ~fn:"ParseDroppedColumns" ~tag ~s ~m [ hexf data; hexf tl; tn_arg tn ]
let dci_arg (c : droppedColumnInfo) = String.concat ":" [ zs c.d_relid; zs c.d_attnum; hexf c.d_orig; zs c.d_typid; zs c.d_len; zs c.d_align ]
let run_build ~tag ~s (l : droppedColumnInfo list) =
  emit ~fn:"BuildColumns" ~tag ~s ~m:(c_cols (dx_build l)) [ (match l with [] -> "-" | _ -> String.concat ";" (List.map dci_arg l)) ]

(* the model is run under a second map visiting order (identity instead of reversal) for every fourth world *)
let both name a (b : string Lazy.t option) = match b with Some b when a <> Lazy.force b -> "nondeterministic:model-" ^ name | _ -> a
let run_dir ?(two = false) ~(full : bool) ~tag ~s_values ~s_dir (fs : (path * byte list) list) (files : (string * byte list) list) db table attnum =
  let f = fs_of fs in
  let dbn = bs db and tbn = bs table in
  let o (x : 'a Lazy.t) = if two then Some x else None in
  let rec1 = dx_Recover f dbn tbn (zi attnum) and rec2 = lazy (dx_Recover_id f dbn tbn (zi attnum)) in
  let vals = function Ok (DOk d) -> c_list (List.map c_gval d.dd_values) | Ok (DErr e) -> c_err e | Panic -> "panic" in
  emit ~fn:"RecoverValues" ~tag ~s:s_values ~m:(both "recover" (vals rec1) (o (lazy (vals (Lazy.force rec2)))))
    ([ hex_of_string db; hex_of_string table; string_of_int attnum ] @ files_args files);
  let recover () = "recover=" ^ both "recover" (c_res (c_dres c_data) rec1) (o (lazy (c_res (c_dres c_data) (Lazy.force rec2)))) in
  let m = if not full then recover () else String.concat "|" [
      "find=" ^ both "find" (c_res (c_dres c_dropped) (dx_Find f dbn)) (o (lazy (c_res (c_dres c_dropped) (dx_Find_id f dbn))));
      "scan=" ^ both "scan" (c_res (c_dres c_scan) (dx_Scan f)) (o (lazy (c_res (c_dres c_scan) (dx_Scan_id f))));
      "schema=" ^ both "schema" (c_res (c_dres c_cols) (dx_Schema f dbn tbn)) (o (lazy (c_res (c_dres c_cols) (dx_Schema_id f dbn tbn))));
      recover () ] in
  emit ~fn:"RecoverDir" ~tag ~s:s_dir ~m ([ (if full then "full" else "lite"); hex_of_string db; hex_of_string table; string_of_int attnum ] @ files_args files)

let world_cases r k =
  let w = build_world r k in
  let live = dx_live_attr w.attr_heap in
  let spec b s = if b then s else "-" in
  let lay_tag = if w.v16 then "" else "_v15_layout" in
  (* ParseAllAttributes: the target, another relation (possibly with gaps), an absent oid *)
  let orig_target = List.find (fun x -> x.atts <> []) w.rels in
  List.iteri (fun i x ->
      if (i = 0 || (i = 1 && k mod 3 = 0)) && x.atts <> [] then
        run_all ~tag:("all" ^ (if x.gaps then "_gaps" else "") ^ (if x.sys <> [] then "_sys" else "") ^ lay_tag)
          ~s:(spec w.v16 (c_all (dx_expected_all live (zi x.oid)))) w.attr_file (tail_for r) x.oid) w.rels;
  if k mod 4 = 0 then run_all ~tag:("all_absent" ^ lay_tag) ~s:(spec w.v16 "[]") w.attr_file (tail_for r) (pick r [| 0; 1; 4294967295 |]);
  (* ParseDroppedColumns: the map FindDroppedColumns builds, as an assignment log with an overwritten entry *)
  let tn = List.filter_map (fun x -> if x.node > 0 then Some (zi x.oid, bs x.name) else None) w.rels in
  let tn = match tn with (o, _) :: _ when rbool r -> (o, bs "overwritten") :: tn | _ -> tn in
  let tn = if rint r 4 = 0 then [] else tn in
  let tnf = fun oid -> (match List.assoc_opt oid (List.rev tn) with Some n -> n | None -> []) in
  let exp_d = dx_expected_dropped tnf live in
  (* independent check of the expected names: "dropped_" ^ digits from how each name was BUILT *)
  List.iter (fun x -> List.iter (fun t ->
      if t.a.da_isdropped then
        match List.find_opt (fun (c : droppedColumnInfo) -> c.d_relid = t.a.da_relid && c.d_attnum = t.a.da_num) exp_d with
        | Some c -> let want = match t.exp_orig with Some d -> "dropped_" ^ d | None -> "" in
          if string_of_bytes c.d_orig <> want then failwith "Dropped generator: expected OriginalName differs from the construction"
        | None -> failwith "Dropped generator: a dropped attribute is missing from the expectation") x.atts) w.rels;
  let hits = List.exists (fun x -> List.exists (fun t -> t.a.da_isdropped && t.exp_orig <> None) x.atts) w.rels in
  let misses = List.exists (fun x -> List.exists (fun t -> t.a.da_isdropped && t.exp_orig = None) x.atts) w.rels in
  run_dropped ~tag:("dropped" ^ (if hits then "_hit" else "") ^ (if misses then "_nearmiss" else "") ^ (if tn = [] then "_nonames" else "") ^ lay_tag)
    ~s:(spec w.v16 (c_dropped exp_d)) w.attr_file (tail_for r) tn;
  (* BuildColumns: on what parseAllAttributes returns, and on hand-made entries with an empty OriginalName *)
  let exp_all = dx_expected_all live (zi orig_target.oid) in
  run_build ~tag:"build_parsed" ~s:(c_cols (dx_rel_dcols live (zi orig_target.oid))) exp_all;
  if k mod 3 = 0 then begin
    let l = List.map (fun (c : droppedColumnInfo) -> if rbool r then { c with d_orig = [] } else c) exp_all in
    run_build ~tag:"build_noname" ~s:"-" l
  end;
  (* the directory *)
  let ok_target = w.v16 && not orig_target.gaps in
  let dropped_atts = List.filter (fun t -> t.a.da_isdropped) orig_target.atts in
  let find_s = c_dropped (dx_expected_dropped (table_name_of w) live) in
  let scan_s = (match dx_expected_dropped (table_name_of w) live with [] -> "[]" | l -> c_list [ c_rec [ "db", c_str (bs w.db_name); "cols", c_dropped l ] ]) in
  let schema_of (x : rel) = c_cols (dx_rel_dcols live (zi x.oid)) in
  (* all four exported functions for every second world (and for the error kinds that concern them), else only
     RecoverDroppedColumnData: a model call costs ~0.15 s per catalog page *)
  let dir ?(full = false) ~tag ~values ~recover ~schema ?(find = find_s) ?(fs = w.fs) ?(files = w.files) db table attnum =
    run_dir ~two:(k mod 4 = 1) ~full ~tag:(tag ^ lay_tag) ~s_values:(spec ok_target values)
      ~s_dir:(spec ok_target (if full then String.concat "|" [ "find=" ^ find; "scan=" ^ scan_s; "schema=" ^ schema; "recover=" ^ recover ]
                              else "recover=" ^ recover)) fs files db table attnum in
  let full (t : att) =
    let vals = dx_expected_values w.tcols t.a.da_num w.tbl_rows in
    let rows = List.map (dx_expected_row w.tcols) w.tbl_rows in
    let info = List.find (fun (c : droppedColumnInfo) -> c.d_attnum = t.a.da_num) exp_all in
    (c_list (List.map c_gval vals), c_rec [ "col", c_dci info; "values", c_list (List.map c_gval vals); "rows", c_list (List.map c_map rows) ]) in
  (* names must be pairwise distinct for the expectation to be defined (a live column may be called dropped_<n>) *)
  let names_distinct = let ns = List.map (fun (c : column) -> c.c_name) w.tcols in List.length (List.sort_uniq compare ns) = List.length ns in
  if not names_distinct then failwith "Dropped generator: column names collide";
  (match dropped_atts with
   | t :: _ ->
     let (v, rcv) = full t in
     let (len, al, _) = t.lay in
     dir ~full:(k mod 2 = 0) ~tag:(Printf.sprintf "recover_len%d_%c" len (Char.chr al)) ~values:v ~recover:rcv ~schema:(schema_of orig_target) w.db_name w.target.name (iz t.a.da_num)
   | [] -> ());
  (match k mod 6 with
   | 0 -> (* a live (not dropped) attribute: found, but no row has the key dropped_<n> *)
     (match List.filter (fun t -> not t.a.da_isdropped) orig_target.atts with
      | t :: _ ->
        let rows = List.map (dx_expected_row w.tcols) w.tbl_rows in
        let info = List.find (fun (c : droppedColumnInfo) -> c.d_attnum = t.a.da_num) exp_all in
        let nils = c_list (List.map (fun _ -> "nil") rows) in
        dir ~tag:"recover_live_attr" ~values:nils ~schema:(schema_of orig_target)
          ~recover:(c_rec [ "col", c_dci info; "values", nils; "rows", c_list (List.map c_map rows) ]) w.db_name w.target.name (iz t.a.da_num)
      | [] -> ())
   | 1 -> dir ~full:true ~tag:"err_db" ~values:"err:db" ~recover:"err:db" ~schema:"err:db" ~find:"err:db" (pick r [| "App"; "nope"; ""; w.db_name ^ "x" |]) w.target.name 1
   | 2 -> dir ~full:(k mod 4 = 2) ~tag:"err_table" ~values:"err:table" ~recover:"err:table" ~schema:"err:table" w.db_name (pick r [| "Users"; "nope"; ""; w.target.name ^ "x" |]) 1
   | 3 -> let absent = pick r [| 0; -1; 1 + List.length orig_target.atts + 20; 40000 |] in
     dir ~tag:"err_column" ~values:"err:column" ~recover:"err:column" ~schema:(schema_of orig_target) w.db_name w.target.name absent
   | 4 -> (* the relation file is missing *)
     let drop_file = "base/" ^ string_of_int w.db_oid ^ "/" ^ string_of_int w.target.node in
     let files = List.filter (fun (n, _) -> n <> drop_file) w.files in
     let fs = List.filter (fun (p, _) -> p <> PBase (zi w.db_oid, zi w.target.node)) w.fs in
     (match dropped_atts with
      | t :: _ -> dir ~tag:"err_nofile" ~values:"err:read" ~recover:"err:read" ~schema:(schema_of orig_target) ~fs ~files w.db_name w.target.name (iz t.a.da_num)
      | [] -> ())
   | _ -> (* another relation of the directory: its schema; its file does not exist *)
     (match List.filter (fun x -> x.atts <> [] && x.oid <> orig_target.oid && not x.gaps && x.node > 0) w.rels with
      | x :: _ -> dir ~full:true ~tag:"other_relation" ~values:"err:read" ~recover:"err:read" ~schema:(schema_of x) w.db_name x.name (iz (List.hd x.atts).a.da_num)
      | [] -> ()))

(* ---------- DroppedName: the pattern alone ---------- *)
let name_case r k =
  let (name, exp) = if k mod 5 = 4 then
      (let n = rint r 12 in let s = String.init n (fun _ -> pick r [| '.'; '.'; 'p'; 'g'; 'd'; '1'; '0'; '9'; 'x'; '\n'; '\xd9'; '/'; ':' |]) in
       (s, match dx_match (bs s) with Some g -> Some (string_of_bytes g) | None -> None))
    else gen_dropped_name r (1 + rint r 1600) in
  let c = function Some d -> c_str (bs d) | None -> "none" in
  emit ~fn:"DroppedName" ~tag:(if k mod 5 = 4 then "name_random" else match exp with Some _ -> "name_hit" | None -> "name_nearmiss")
    ~s:(if k mod 5 = 4 then "-" else c exp) ~m:(c (match dx_match (bs name) with Some g -> Some (string_of_bytes g) | None -> None)) [ hexf (bs name) ]

(* ---------- malformed ---------- *)
let damage r (data : byte list) : byte list =
  let a = Array.of_list data in
  let n = Array.length a in
  for _ = 1 to rrange r 1 12 do
    let page = rint r (max 1 (n / 8192)) in
    let off = if rint r 4 = 0 then page * 8192 + rint r 64 else page * 8192 + 8192 - 1 - rint r 900 in
    if off >= 0 && off < n then a.(off) <- (if rbool r then byte_of_int (int_of_byte a.(off) lxor (1 lsl rint r 8)) else byte_of_int (pick r [| 0; 1; 2; 0x12; 0x7f; 0x80; 0xff; rbyte r |]))
  done;
  Array.to_list a
let malformed_case r k =
  let w = build_world r k in
  let data = match k mod 4 with
    | 0 -> damage r w.attr_file
    | 1 -> take (rint r (List.length w.attr_file + 1)) w.attr_file
    | 2 -> rbytes r (pick r [| 0; 1; 100; 8191; 8192; 8200 |])
    | _ -> damage r (take 8192 w.attr_file) @ w.tbl_file in
  let tag = [| "damaged"; "truncated"; "random"; "foreign_pages" |].(k mod 4) in
  let oid = (List.hd w.rels).oid in
  run_all ~tag ~s:"-" data (tail_for r) oid;
  run_dropped ~tag ~s:"-" data (tail_for r) [ (zi oid, bs "t") ];
  if k mod 2 = 0 then begin
    let swap name b = List.map (fun (n, x) -> if n = name then (n, b) else (n, x)) in
    let which = pick r [| "global/1262"; Printf.sprintf "base/%d/1259" w.db_oid; Printf.sprintf "base/%d/1249" w.db_oid; Printf.sprintf "base/%d/%d" w.db_oid w.target.node |] in
    let orig = List.assoc which w.files in
    let bad = if rbool r then damage r orig else take (rint r (List.length orig + 1)) orig in
    let files = swap which bad w.files in
    let pth = List.map2 (fun (p, _) (_, b) -> (p, b)) w.fs files in
    let attnum = match List.filter (fun t -> t.a.da_isdropped) (List.hd w.rels).atts with t :: _ -> iz t.a.da_num | [] -> 1 in
    run_dir ~full:true ~tag:("dir_" ^ tag) ~s_values:"-" ~s_dir:"-" pth files w.db_name w.target.name attnum
  end

let schema_case () =
  let s = "v16=" ^ c_cols dx_schema16 ^ "|v15=" ^ c_cols dx_schema15 in
  emit ~fn:"SchemaTables" ~tag:"tables" ~s ~m:s []

let gen seed n =
  schema_case ();
  for k = 0 to n - 1 do
    let r = rng_for seed k in
    (match k mod 10 with
     | 9 -> malformed_case r (k / 10)
     | _ -> world_cases r k);
    for j = 0 to 3 do name_case (rng_for seed (1000000 + 4 * k + j)) (4 * k + j) done
  done

let () = main gen
