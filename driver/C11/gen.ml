(* C11 driver: data directories on which every order is observable, one case line per (operation, directory).
   The cluster (pg_database, per database pg_class / pg_attribute / table files) is C01's abstract world laid out by the
   extracted reference writer enc_cluster (driver/C01/c01_world.ml, profile: >= 2 databases, >= 3 dumpable tables per
   database whose filenode order differs from the physical order, >= 2 columns); this file adds, per database, three
   sequences (filenode order <> name order), a TOAST table with four values (chunks out of order), a table "docs"
   with a jsonb column holding objects of 3-5 keys and a text column (so that one row has several matching cells), and
   cluster-wide pg_authid, PG_VERSION, pg_control, relmap files and a WAL segment with four transactions.
   S = "deterministic" for every repetition case.  M = "deterministic" after the extracted models of the sites that
   have one (DumpDataDir, parseSingle on the pg_class / pg_attribute files) were run under two different map-iteration
   orders and compared; FindTableByName and CliClassListing are three-way cases with a spec-side expectation. *)
open Model
open Util
open Value
open C01_render
open C01_world

let note fmt = Printf.ksprintf (fun s -> prerr_endline ("C11 gen: " ^ s)) fmt
let hx (s : string) = if s = "" then "-" else hex_of_string s
let le64 x = le32 (x land 0xffffffff) @ le32 (x lsr 32)
let zeros n = List.init n (fun _ -> byte_of_int 0)

(* ---------------------------------------------------------------- hand-written images (no model reads them) *)
(* a sequence relation: one 8 KiB page, special space of 8 bytes with the magic 0x1717, one tuple
   (last_value int8, log_cnt int8, is_called bool) *)
let seq_file r ~(last : int) ~(called : bool) : byte list =
  let tup = rbytes r 18 @ le16 3 @ le16 0x0900 @ [ byte_of_int 24 ] @ [ byte_of_int 0 ]
            @ le64 last @ le64 (rint r 33) @ [ byte_of_int (if called then 1 else 0) ] in
  let tlen = List.length tup in                         (* 41 *)
  let special = 8192 - 8 in
  let off = special - 48 in
  let lp = off lor (1 lsl 15) lor (tlen lsl 17) in
  let hdr = rbytes r 8 @ le16 0 @ le16 0 @ le16 28 @ le16 off @ le16 special @ le16 (8192 lor 4) @ le32 0 in
  hdr @ le32 lp @ zeros (off - 28) @ tup @ zeros (special - off - tlen) @ le32 0x1717 @ zeros 4

(* jsonb object with string / bool / null values; keys sorted the way PostgreSQL stores them (length, then bytes) *)
type jv = JS of string | JB of bool | JN
let jsonb_object (kvs : (string * jv) list) : byte list =
  let kvs = List.sort (fun (a, _) (b, _) -> compare (String.length a, a) (String.length b, b)) kvs in
  let n = List.length kvs in
  let kent = List.mapi (fun i (k, _) -> le32 (String.length k lor (if i = 0 then 0x80000000 else 0))) kvs in
  let vent = List.map (fun (_, v) -> match v with
      | JS s -> le32 (String.length s) | JB true -> le32 0x30000000 | JB false -> le32 0x20000000 | JN -> le32 0x40000000) kvs in
  let data = List.concat_map (fun (k, _) -> bs k) kvs @ List.concat_map (fun (_, v) -> match v with JS s -> bs s | _ -> []) kvs in
  le32 (n lor 0x20000000) @ List.concat kent @ List.concat vent @ data

(* one WAL segment: a long page header and header-only records (24 bytes each) *)
let wal_segment r (recs : (int * int * int) list) : byte list =          (* (xid, rmgr, info) *)
  let hdr = le16 0xD113 @ le16 0x0002 @ le32 1 @ le64 0x1000000 @ le32 0 @ zeros 4 @ le64 0x5eed5eed5eed @ le32 0x1000000 @ le32 8192 in
  let body = List.concat_map (fun (xid, rm, info) -> le32 24 @ le32 xid @ le64 (0x1000000 + rint r 4096) @ [ byte_of_int info; byte_of_int rm ] @ zeros 2 @ rbytes r 4) recs in
  let page = hdr @ body in
  page @ zeros (8192 - List.length page)

let relmap_file r (maps : (int * int) list) : byte list =
  let m = List.concat_map (fun (o, f) -> le32 o @ le32 f) maps in
  le32 0x592717 @ le32 (List.length maps) @ m @ zeros (62 * 8 - List.length m) @ rbytes r 4 @ zeros 4

(* ---------------------------------------------------------------- the fixture *)
type dbx = { oid : int; name : string; seqs : (string * int) list; toast_node : int; toast_vals : (int * int) list (* id, size *);
             docs_node : int; class_path : string; attr_path : string }
type fx = { files : (string * byte list) list; dbs : dbx list; c : cluster; nfiles : int }

let col n typ len al num : column = { c_name = bs n; c_typid = zi typ; c_len = zi len; c_num = zi num; c_align = zi al }
let toast_cols = [ col "chunk_id" 26 4 (ch 'i') 1; col "chunk_seq" 23 4 (ch 'i') 2; col "chunk_data" 17 (-1) (ch 'i') 3 ]
let docs_cols = [ col "id" 23 4 (ch 'i') 1; col "doc" 3802 (-1) (ch 'i') 2; col "note" 25 (-1) (ch 'i') 3 ]
let authid_cols = [ col "oid" 26 4 (ch 'i') 1; col "rolname" 19 64 (ch 'c') 2 ]
                  @ List.init 7 (fun i -> col (Printf.sprintf "b%d" i) 16 1 (ch 'c') (3 + i))
                  @ [ col "rolconnlimit" 23 4 (ch 'i') 10; col "rolpassword" 25 (-1) (ch 'i') 11; col "rolvaliduntil" 1184 8 (ch 'd') 12 ]
let vl (b : byte list) : datum = if List.length b + 1 <= 127 then DShort b else DLong b
let live_item r x = VRow (mk_vhdr r ~alive:true, x)
let one_page r items : 'a heap = [ HPage (mkpage r items) ]

let words = [| "alpha"; "password"; "token"; "secret"; "beta"; "gamma"; "delta"; "omega" |]
let gen_doc r : (string * jv) list =
  let n = rrange r 3 5 in
  (* every second document has three or four keys that differ only in letter case: an ordering that compares keys
     case-insensitively (or by length only) leaves their relative order to Go's map iteration (seeded change C11-1) *)
  let keys =
    if rbool r then take n (shuffle r [ "alpha"; "k"; "zz"; "beta"; "Key"; "a1"; "password"; "x_y" ])
    else take (rrange r 3 4) (shuffle r [ "id"; "ID"; "Id"; "iD" ]) @ take (n - 3) (shuffle r [ "k"; "Key"; "key"; "KEY" ]) in
  List.map (fun k -> (k, match rint r 4 with 0 -> JB (rbool r) | 1 -> JN | _ -> JS (pick r words ^ string_of_int (rint r 100)))) keys

let build_fixture r : fx =
  let p0 = rand_prof r in
  let p = { p0 with ndb = rrange r 2 3; templates = rbool r; dbf = DbNone; tf = TfNone; listonly = false; skipsys = true; optsnil = true;
                    hint = 0; det = (if p0.v16 then DetOk5 else DetAny); force_order = true; missing_dir = false; empty_class = 0;
                    orphan_dir = false; safe_misc = true; mal = MalNone; maxrel = 7; maxfiles = 6; dead = rint r 2; zero_col = false; wide = false;
                    pgnames = rbool r } in
  let w = build_cluster r p in
  let c = w.c in
  let dbrows = live_rows c.cl_pgdb in
  let is_tpl n = String.length n >= 8 && String.sub n 0 8 = "template" in
  let dbxs = ref [] and extra = ref [] in
  let dirs = List.map (fun (d : dbdir) ->
      match List.find_opt (fun (x : dbrow) -> zcmp x.dr_oid d.dir_oid = 0) dbrows with
      | Some row when not (is_tpl (string_of_bytes row.dr_name)) && d.dir_class <> [] ->
        let dboid = iz d.dir_oid in
        let used = List.concat_map (fun (k : classrow) -> [ iz k.cr_oid; iz k.cr_filenode ]) (live_rows d.dir_class)
                   @ List.map (fun rf -> iz rf.rf_node) d.dir_files in
        let rec base_from b = if List.exists (fun x -> x >= b && x < b + 3000) used then base_from (b + 5000) else b in
        let base = base_from (3000000 + rint r 1000 * 7) in
        let crow name node kind : classrow = { cr_oid = zi (node + 1000); cr_name = bs name; cr_filenode = zi node; cr_kind = zi (ch kind); cr_misc = rbytes r 43 } in
        (* sequences: name order c, a, b; filenode order decided by a shuffle that is not the name order *)
        let nodes = match shuffle r [ base + 3; base + 5; base + 7 ] with [ a; b; c ] when a < b && b < c -> [ c; a; b ] | l -> l in
        let seqs = List.combine [ "seq_a"; "seq_b"; "seq_c" ] nodes in
        List.iter (fun (n, node) -> extra := (Printf.sprintf "base/%d/%d" dboid node, seq_file r ~last:(1 + rint r 100000) ~called:(rbool r)) :: !extra) seqs;
        (* TOAST table: four values, chunk ids not in physical order, 1-3 chunks each stored out of sequence *)
        let tnode = base + 20 in
        let ids = shuffle r [ base + 30; base + 31; base + 32; base + 33 ] in
        let vals = List.map (fun id -> (id, List.init (rrange r 1 3) (fun s -> (s, rbytes r (rrange r 5 60))))) ids in
        let chunks = shuffle r (List.concat_map (fun (id, cs) -> List.map (fun (s, d) -> [ DFixed (le32 id); DFixed (le32 s); vl d ]) cs) vals) in
        let toast_heap = one_page r (List.map (live_item r) chunks) in
        let toast_vals = List.map (fun (id, cs) -> (id, List.fold_left (fun a (_, d) -> a + List.length d) 0 cs)) vals in
        (* docs *)
        let dnode = base + 41 in
        let docs_rows = List.init 3 (fun i ->
            [ DFixed (le32 (i + 1)); vl (jsonb_object (gen_doc r)); vl (bs (Printf.sprintf "note %d: the %s and the %s" i (pick r words) (pick r words))) ]) in
        (* two empty objects and an empty array: every decoded container is the caller's own (seeded change C11-16: one
           shared map for all empty objects) *)
        let docs_rows = docs_rows @ List.mapi (fun i hdr ->
            [ DFixed (le32 (i + 4)); vl (le32 hdr); vl (bs (Printf.sprintf "note %d: nothing but %s" (i + 3) (pick r words))) ])
            [ 0x20000000; 0x20000000; 0x40000000 ] in
        let docs_heap = one_page r (List.map (live_item r) docs_rows) in
        let class_extra = shuffle r (List.map (fun (n, node) -> crow n node 'S') seqs @ [ crow (Printf.sprintf "pg_toast_%d" dnode) tnode 't'; { (crow "docs" dnode 'r') with cr_oid = zi (base + 40) } ]) in
        let arow n typ len al num : attrow = { ar_relid = zi (base + 40); ar_name = bs n; ar_typid = zi typ; ar_len = zi len; ar_num = zi num; ar_align = zi al;
                                               ar_misc = gen_misc r ~safe:true } in
        let attr_extra = shuffle r [ arow "id" 23 4 (ch 'i') 1; arow "doc" 3802 (-1) (ch 'i') 2; arow "note" 25 (-1) (ch 'i') 3 ] in
        dbxs := { oid = dboid; name = string_of_bytes row.dr_name; seqs; toast_node = tnode; toast_vals; docs_node = dnode;
                  class_path = Printf.sprintf "base/%d/1259" dboid; attr_path = Printf.sprintf "base/%d/1249" dboid } :: !dbxs;
        { d with dir_class = d.dir_class @ one_page r (List.map (live_item r) class_extra);
                 dir_attr = d.dir_attr @ one_page r (List.map (live_item r) attr_extra);
                 dir_files = d.dir_files @ [ { rf_node = zi tnode; rf_cols = toast_cols; rf_heap = toast_heap };
                                            { rf_node = zi dnode; rf_cols = docs_cols; rf_heap = docs_heap } ] }
      | _ -> d) c.cl_dirs in
  let c = { c with cl_dirs = dirs } in
  let base_files = List.map (fun (p, b) -> (path_arg p, b)) (enum_files c) in
  (* cluster-wide files *)
  let roles = shuffle r [ ("postgres", true, "SCRAM-SHA-256$4096:c2FsdA==$c3RvcmVk:c2VydmVy"); ("app_rw", false, "md5" ^ String.make 32 'a');
                          ("reporting", false, ""); ("Admin", true, "SCRAM-SHA-256$4096:QUJD$REVG:R0hJ") ] in
  let auth_rows = List.mapi (fun i (n, su, pw) ->
      [ DFixed (le32 (10 + i * 6374)); DFixed (pad64 (bs n)); DFixed [ byte_of_int (if su then 1 else 0) ] ]
      @ List.init 3 (fun _ -> DFixed [ byte_of_int (rint r 2) ]) @ [ DFixed [ byte_of_int 1 ] ] @ List.init 2 (fun _ -> DFixed [ byte_of_int 0 ])
      @ [ DFixed (le32 0xffffffff); (if pw = "" then DNull else vl (bs pw)); DNull ]) roles in
  let authid = enc_heap authid_cols idds (one_page r (List.map (live_item r) auth_rows)) in
  let x1 = 700 + rint r 50 in
  (* besides four neighbouring xids, every second fixture has three transactions a third of the 32-bit xid space apart
     (a "precedes" b "precedes" c "precedes" a under wraparound arithmetic: an ordering by circular comparison is not a total
     order there and leaves the result to Go's map iteration; seeded change C11-7) *)
  let far = if rbool r then [ (0x10000000 + rint r 1000, 10, 0x00); (0x60000000 + rint r 1000, 10, 0x00); (0xB0000000 + rint r 1000, 10, 0x00) ] else [] in
  let wal = wal_segment r (shuffle r ([ (x1 + 3, 10, 0x00); (x1 + 1, 10, 0x00); (x1 + 2, 10, 0x20); (x1, 10, 0x00) ] @ far)
                           @ [ (x1 + 1, 1, 0x00); (x1 + 3, 1, 0x20); (x1, 1, 0x00) ]) in
  let control = le64 0x1122334455667788 @ le32 1300 @ le32 202307071 @ le32 6 @ zeros 4 @ rbytes r 200 @ zeros (8192 - 228) in
  let dbl = List.rev !dbxs in
  let files = base_files @ List.rev !extra
              @ [ ("global/1260", authid); ("PG_VERSION", bs (if c.cl_v16 then "16\n" else "15\n")); ("global/pg_control", control);
                  ("global/pg_filenode.map", relmap_file r [ (1262, 1262); (1260, 1260); (1213, 1213) ]);
                  ("pg_wal/000000010000000000000001", wal) ]
              @ List.map (fun (d : dbx) -> (Printf.sprintf "base/%d/pg_filenode.map" d.oid, relmap_file r (shuffle r [ (1259, 1259); (1249, 1249); (1247, 1247); (1255, 1255) ]))) dbl in
  { files; dbs = dbl; c; nfiles = List.length files }

(* ---------------------------------------------------------------- cases *)
let file_args (f : fx) = List.concat_map (fun (p, b) -> [ p; hexf b ]) f.files
let det = "deterministic"

(* the models of the sites that have one, under two visiting orders *)
let model_verdict (f : fx) : string =
  let fsf p = List.assoc_opt (path_arg p) f.files in
  let a = c_dump_res (dumpDataDir_rev11 fsf None) and b = c_dump_res (dumpDataDir_id11 fsf None) in
  if a <> b then "nondeterministic:model-DumpDataDir" else begin
    let bad = List.exists (fun (d : dbx) ->
        let cf = gs (List.assoc d.class_path f.files) and af = gs (List.assoc d.attr_path f.files) in
        parseSingle_class_rev11 cf <> parseSingle_class_id11 cf || parseSingle_attribute_rev11 af <> parseSingle_attribute_id11 af) f.dbs in
    if bad then "nondeterministic:model-parseSingle" else det
  end

let emit_repeat (f : fx) ~(m : string) ?(reps = 20) ~(need : int) (op : string) ?(tag = op) (param : string) =
  emit ~fn:"Repeat" ~tag ~s:det ~m ([ op; string_of_int reps; string_of_int need; param ] @ file_args f)
let emit_cli (f : fx) ~(m : string) ?(reps = 20) ~(need : int) (tag : string) (wordsl : string list) =
  emit ~fn:"RepeatCLI" ~tag ~s:det ~m ([ tag; string_of_int reps; string_of_int need; String.concat "|" (List.map hx wordsl) ] @ file_args f)

let exec_param (ws : string list) = String.concat "|" (List.map hx ws)

let ops_for (f : fx) ~(m : string) ~(cli : bool) ~(cli_reps : int) =
  let d0 = List.hd f.dbs in
  let d1 = List.nth f.dbs (min 1 (List.length f.dbs - 1)) in
  let rep = emit_repeat f ~m in
  rep ~need:3 "dump_json" "-";
  rep ~need:3 "dump_shared_options" "-";
  rep ~need:1 "dump_json" ~tag:"dump_json_filtered" (hx d1.name ^ "|" ^ hx "o");
  rep ~need:3 "sql" "-";
  rep ~need:3 "csv" "-";
  (* 6 hits per database (note and doc of each docs row); MaxResults cuts inside a row *)
  rep ~need:3 "search_in_dump" ~tag:"search_in_dump_max3" (hx "alpha|password|token|secret|beta|gamma|delta|omega|note" ^ "|3|0");
  rep ~need:5 "search_in_dump" ~tag:"search_in_dump_max5_row" (hx "alpha|password|token|secret|beta|gamma|delta|omega|note" ^ "|5|1");
  rep ~need:6 "search_in_dump" ~tag:"search_in_dump_all" (hx "a|e|o" ^ "|0|1");
  rep ~need:1 "search_history" ~tag:"search_history_case_flag" (hx "NOTE|Alpha|BETA|Password|Token|SECRET" ^ "|0|0");
  rep ~need:1 "search" ~tag:"search_max1" (hx "note|alpha|beta|password" ^ "|1|0");
  rep ~need:4 "search" ~tag:"search_max4" (hx "note|alpha|beta|password" ^ "|4|1");
  rep ~reps:3 ~need:0 "scan_secrets" "-";
  rep ~need:2 "quick_search" (hx "note");
  rep ~reps:3 ~need:0 "scan_for_secrets" "-";
  rep ~need:3 "scan_all_deleted" "-";
  rep ~need:3 "write_csv_file" "-";
  List.iter (fun (d : dbx) -> rep ~need:0 "analyze_toast" (hx d.name)) f.dbs;
  rep ~need:3 "remote_dumpall" "-";
  List.iter (fun (d : dbx) -> rep ~need:5 "remote_tables" (string_of_int d.oid)) f.dbs;
  rep ~need:5 "remote_tables_by_name" (hx d0.name);
  List.iter (fun (d : dbx) -> rep ~need:0 "remote_table_lookup" (hx d.name)) f.dbs;
  rep ~need:2 "remote_databases" "-";
  rep ~need:3 "remote_columns" (hx d1.name ^ "|" ^ hx "docs");
  rep ~need:2 "remote_summary_string" "-";
  rep ~need:2 "remote_summary_json" "-";
  List.iter (fun (tag, ws, need) -> rep ~need "remote_exec" ~tag:("remote_exec_" ^ tag) (exec_param ws))
    [ ("summary", [ "summary" ], 3); ("default", [], 3); ("version", [ "version" ], 0); ("control", [ "control" ], 0); ("creds", [ "creds" ], 2);
      ("dbs", [ "dbs" ], 3); ("tables", [ "tables"; d0.name ], 2); ("columns", [ "columns"; d1.name; "docs" ], 4);
      ("query", [ "query"; d0.name; "docs" ], 4); ("dump_db", [ "dump"; d1.name ], 8); ("dump_all", [ "dump" ], 16); ("unknown", [ "frobnicate" ], 0) ];
  rep ~need:2 "list_databases" "-";
  List.iter (fun (d : dbx) -> rep ~need:3 "find_sequences" (hx d.name)) f.dbs;
  rep ~need:3 "scan_all_sequences" "-";
  List.iter (fun (d : dbx) ->
      rep ~need:4 "toast_verbose" (Printf.sprintf "base/%d/%d|%d" d.oid d.toast_node d.toast_node);
      rep ~need:4 "toast_read" (Printf.sprintf "%d|%d|%s|%s" d.oid d.toast_node (String.concat "," (List.map (fun (i, _) -> string_of_int i) d.toast_vals))
                                 (String.concat "," (List.map (fun (_, s) -> string_of_int s) d.toast_vals)))) f.dbs;
  rep ~need:3 "extract_passwords" "-";
  rep ~need:4 "scan_wal" "-";
  rep ~need:3 "recent_wal" "5";
  rep ~need:0 "verify_checksums" "-";
  rep ~need:1 "file_checksums" d0.class_path;
  rep ~need:2 "relmaps" "-";
  List.iter (fun (d : dbx) -> rep ~need:3 "files_dump" (string_of_int d.oid)) f.dbs;
  if cli then begin
    let c = emit_cli f ~m in
    let slow = max 3 (cli_reps / 4) in
    c ~reps:cli_reps ~need:20 "cli_dump" [ "-d"; "{D}" ];
    c ~reps:cli_reps ~need:10 "cli_db" [ "-d"; "{D}"; "-db"; d1.name ];
    c ~reps:slow ~need:5 "cli_table" [ "-d"; "{D}"; "-t"; "docs" ];
    c ~reps:cli_reps ~need:10 "cli_list" [ "-d"; "{D}"; "-list" ];
    c ~reps:cli_reps ~need:20 "cli_sql" [ "-d"; "{D}"; "-sql" ];
    c ~reps:cli_reps ~need:10 "cli_csv" [ "-d"; "{D}"; "-csv" ];
    c ~reps:slow ~need:2 "cli_list_db" [ "-d"; "{D}"; "-list-db" ];
    c ~reps:slow ~need:3 "cli_passwords" [ "-d"; "{D}"; "-passwords"; "all" ];
    c ~reps:cli_reps ~need:6 "cli_sequences" [ "-d"; "{D}"; "-sequences"; "all" ];
    c ~reps:slow ~need:5 "cli_relmap" [ "-d"; "{D}"; "-relmap"; "all" ];
    c ~reps:cli_reps ~need:6 "cli_f_class" [ "-f"; "{D}/" ^ d0.class_path ];
    c ~reps:cli_reps ~need:6 "cli_f_attribute" [ "-f"; "{D}/" ^ d1.attr_path ];
    c ~reps:slow ~need:2 "cli_f_database" [ "-f"; "{D}/global/1262" ];
    c ~reps:cli_reps ~need:8 "cli_toast_verbose" [ "-f"; Printf.sprintf "{D}/base/%d/%d" d0.oid d0.toast_node; "-toast-verbose" ];
    c ~reps:slow ~need:4 "cli_search" [ "-d"; "{D}"; "-search"; "note|alpha" ];
    c ~reps:slow ~need:4 "cli_wal" [ "-d"; "{D}"; "-wal" ]
  end

(* operations of the concurrent mix (fast ones; all through the shared buffers / client / reader) *)
let concurrent_specs (f : fx) : string =
  let d0 = List.hd f.dbs in
  let d1 = List.nth f.dbs (min 1 (List.length f.dbs - 1)) in
  String.concat ";" ([
      "dump_json~-"; "sql~-"; "csv~-";
      "search_in_dump~" ^ hx "alpha|password|note" ^ "|3|1";
      "remote_dumpall~-"; "remote_databases~-"; "remote_summary_string~-"; "remote_summary_json~-";
      "remote_tables_by_name~" ^ hx d0.name; "remote_columns~" ^ hx d1.name ^ "|" ^ hx "docs";
      "remote_exec~" ^ exec_param [ "query"; d0.name; "docs" ]; "remote_exec~" ^ exec_param [ "dump"; d1.name ];
      "remote_exec~" ^ exec_param [ "tables"; d1.name ]; "list_databases~-"; "scan_all_sequences~-"; "extract_passwords~-";
      "file_checksums~" ^ d0.class_path; "files_dump~" ^ string_of_int d0.oid; "relmaps~-" ]
      @ List.concat_map (fun (d : dbx) ->
          [ "remote_tables~" ^ string_of_int d.oid; "find_sequences~" ^ hx d.name;
            Printf.sprintf "toast_verbose~base/%d/%d|%d" d.oid d.toast_node d.toast_node ]) f.dbs
      @ [ Printf.sprintf "toast_read~%d|%d|%s|%s" d0.oid d0.toast_node (String.concat "," (List.map (fun (i, _) -> string_of_int i) d0.toast_vals))
            (String.concat "," (List.map (fun (_, s) -> string_of_int s) d0.toast_vals)) ])

(* ---------------------------------------------------------------- FindTableByName: S from the definition *)
let emit_ftn r k =
  let n = pick r [| 0; 1; 2; 3; 5; 8 |] in
  let names = [| "t"; "users"; "Users"; "orders"; "t2" |] in
  let used = Hashtbl.create 8 in
  let ents = List.init n (fun _ ->
      let fn = fresh_id r used in
      (fn, { ti_oid = zi (fresh_id r used); ti_filenode = zi fn; ti_name = bs (pick r names); ti_kind = bs (pick r [| "r"; "i"; "S" |]) })) in
  let name = pick r names in
  let matches = List.sort compare (List.filter_map (fun (fn, t) -> if string_of_bytes t.ti_name = name then Some (fn, iz t.ti_oid) else None) ents) in
  let s = match matches with [] -> "nil" | (fn, oid) :: _ -> Printf.sprintf "found:%d:%d" fn oid in
  let run visit = match findTableByName (List.map (fun (fn, t) -> (zi fn, t)) visit) (bs name) with
    | None -> "nil" | Some t -> Printf.sprintf "found:%s:%s" (zs t.ti_filenode) (zs t.ti_oid) in
  let m1 = run ents and m2 = run (List.rev ents) and m3 = run (shuffle r ents) in
  let m = if m1 = m2 && m2 = m3 then m1 else "model-order-dependent:" ^ m1 ^ "|" ^ m2 ^ "|" ^ m3 in
  let tag = (match List.length matches with 0 -> "none" | 1 -> "one" | _ -> "several") in
  emit ~fn:"FindTableByName" ~tag ~s ~m
    ([ hx name; "20" ] @ List.map (fun (fn, t) -> Printf.sprintf "%d:%s:%s:%s" fn (zs t.ti_oid) (hexf t.ti_name) (hexf t.ti_kind)) ents)

(* ---------------------------------------------------------------- pgread -f <pg_class file>: text against the model and the rows *)
let emit_cli_class (f : fx) =
  List.iter (fun (d : dbx) ->
      let data = List.assoc d.class_path f.files in
      let m = match parseSingle_class_rev11 (gs data) with Ok t -> "s:" ^ hex_of_bytes t | Panic -> "panic" in
      let rows = match find_dir f.c (zi d.oid) with Some dir -> live_rows dir.dir_class | None -> [] in
      let rows = List.sort (fun a b -> zcmp a.cr_filenode b.cr_filenode) (List.filter (fun k -> iz k.cr_filenode > 0) rows) in
      let s = "pg_class:\n" ^ String.concat "" (List.map (fun (k : classrow) ->
          Printf.sprintf "  %s (OID %s, filenode %s, kind %s)\n" (string_of_bytes k.cr_name) (zs k.cr_oid) (zs k.cr_filenode)
            (String.make 1 (Char.chr (iz k.cr_kind)))) rows) in
      emit ~fn:"CliClassListing" ~tag:"class_file" ~s:("s:" ^ hex_of_string s) ~m [ "3"; hexf data ]) f.dbs

let gen seed n =
  (* n = number of generated data directories *)
  for k = 0 to n - 1 do
    let r = rng_for seed k in
    let f = build_fixture r in
    if List.length f.dbs < 2 then note "fixture %d has fewer than two decorated databases" k;
    let m = model_verdict f in
    let cli = k mod 6 = 0 in
    ops_for f ~m ~cli ~cli_reps:10;
    if cli then emit_cli_class f;
    (* a TOAST relation with more than 1000 values (1100 one-chunk values on 8 pages): listings are complete and in chunk-id
       order whatever their length (seeded change C11-18: a cap applied while ranging over the map) *)
    if k = 0 then begin
      let rows = shuffle r (List.init 1100 (fun i -> [ DFixed (le32 (500000 + i * 3)); DFixed (le32 0); vl (rbytes r (1 + rint r 6)) ])) in
      let rec pages l = if l = [] then [] else take 150 l :: pages (List.filteri (fun i _ -> i >= 150) l) in
      let data = enc_heap toast_cols idds (List.map (fun rs -> HPage (mkpage r (List.map (live_item r) rs))) (pages rows)) in
      emit_repeat { f with files = [ ("big/77", data) ] } ~m ~need:1100 "toast_verbose" ~tag:"toast_verbose_many" "big/77|77"
    end;
    (* the concurrent mix: 2..32 goroutines *)
    let ng = if k = 0 then 8 else pick r [| 2; 3; 4; 8; 16; 32 |] in
    emit ~fn:"Concurrent" ~tag:(Printf.sprintf "g%d" ng) ~s:det ~m
      ([ string_of_int ng; string_of_int (if ng >= 16 then 12 else 25); string_of_int (rint r 1000000); concurrent_specs f ] @ file_args f)
  done;
  for k = 0 to 40 * n - 1 do emit_ftn (rng_for seed (1000000 + k)) k done

let () = Util.main gen
