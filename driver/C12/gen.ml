(* C12 driver: ONE generated cluster, read through every access path.
   The cluster is an abstract value of coq/C01/Spec.v (catalog heaps + relation heaps), laid out by the extracted
   reference writer enc_cluster (pages/tuples of C02/C03), plus PG_VERSION, global/pg_control (opaque bytes) and
   global/1260 (C14's writer).  S = what the path must return, computed from the abstract cluster only
   (Inst.abstract_of + coq/C12/Spec.v + Inst.expected_answer); M = the extracted C12 path models, instantiated with the
   concrete parsers of C01/C03/C14, run on the bytes; I = the Go library in-process and the CLI as a subprocess.
   Every choice derives from (seed, case index). *)
open Model
open Util
open Value
open C01_render
open C01_world
open C12_render

let note fmt = Printf.ksprintf (fun s -> prerr_endline ("C12 gen: " ^ s)) fmt

(* ---------------------------------------------------------------- files *)
type file = { rel : string; p : path0 option; data : byte list }
let fs_of (files : file list) : fsys =
  fun p -> match List.find_opt (fun f -> f.p = Some p) files with Some f -> Some f.data | None -> None
let files_args (files : file list) = List.concat_map (fun f -> [ f.rel; hexf f.data ]) files

(* ---------------------------------------------------------------- the cluster *)
let int4 : lay = (4, ch 'i', 23)
let text : lay = (-1, ch 'i', 25)
(* a text column declared with attalign 'd' (as a domain or user type over a double-aligned varlena has): 4-byte-header values
   are aligned to 8, which only pg_attribute says - the (type id, length) fallback says 4 - so a path that builds its columns
   without attalign decodes such rows differently (seeded change C12-12).  Values stay texts, which every renderer models. *)
let textd : lay = (-1, ch 'd', 25)
let col_pool = [| "id"; "name"; "Email"; "note"; "qty"; "body"; "code"; "c8" |]
let ascii r n = List.init n (fun _ -> byte_of_int (32 + rint r 95))
let datum12 r ((_, al, typ) : lay) : datum =
  if typ = 25 && al = ch 'd' then (if rbool r then DLong (ascii r (pick r [| 3; 40; 130 |])) else DShort (ascii r (1 + rint r 24))) else
  if typ = 23 then
    (match rint r 9 with
     | 0 -> DNull | 1 -> DFixed (le32 0) | 2 -> DFixed (le32 0xffffffff) | 3 -> DFixed (le32 0x7fffffff) | 4 -> DFixed (le32 0x80000000)
     | 5 -> DFixed (le32 (rint r 1000))
     | _ -> DFixed (le32 (ZA.to_int (rdistinct r 32))))
  else
    (match rint r 10 with
     | 0 -> DNull | 1 -> DShort [] | 2 -> DLong (ascii r (pick r [| 3; 40; 130 |]))
     | _ -> DShort (ascii r (1 + rint r 24)))
let row12 r (ls : lay list) : datum list =
  let n = List.length ls in
  let natts = if chance r 1 8 then rint r (n + 1) else n in
  List.map (datum12 r) (take natts ls)

type rspec = { rname : string; rkind : int; rcols : int; rrows : int; rfile : bool; rstorage : bool }
let user_names = [| [ "users"; "Users"; "USERS" ]; [ "orders"; "accounts" ]; [ "t"; "T" ]; [ "items"; "order_items"; "Items" ]; [ "users"; "accounts"; "Orders" ] |]
let mk_rel r ~(fresh : unit -> int) (s : rspec) : rel =
  let oid = fresh () in
  let node = if not s.rstorage then 0 else if chance r 1 4 then oid else fresh () in
  let ls = List.init s.rcols (fun i -> if i = 0 then (if chance r 3 4 then int4 else text)
                               else if i = 1 && chance r 1 4 then textd else if rbool r then int4 else text) in
  let names = take s.rcols (shuffle r (Array.to_list col_pool)) in
  { oid; name = s.rname; node; kind = s.rkind; cols = List.combine names ls; nums = List.init s.rcols (fun i -> i + 1);
    file = s.rfile && s.rstorage; nrows = s.rrows; syscols = chance r 1 6 }

type prof12 = { v16 : bool; dead : int; size : int (* 0 tiny, 1 normal *) }

let build_dir12 r ?users (p : prof12) ~(dir_oid : int) ~(tiny : bool) : dbdir * rel list =
  let used = Hashtbl.create 16 in
  let fresh () = fresh_id r used in
  let rows () = pick r [| 1; 2; 2; 3; 4 |] in
  let specs =
    if tiny then [ { rname = "tpl_t"; rkind = ch 'r'; rcols = 5; rrows = 1; rfile = true; rstorage = true } ]
    else begin
      let (users, nuser) = match users with
        | Some l -> (shuffle r l, List.length l)
        | None -> let u = pick r user_names in (u, min (List.length u) (if p.size = 0 then 2 else rrange r 2 3)) in
      let base = List.mapi (fun i n -> { rname = n; rkind = ch 'r'; rcols = (if i = 0 then 5 else rrange r 1 4); rrows = rows (); rfile = true; rstorage = true })
          (take nuser users) in
      let opt ?(one_in = 2) s = if chance r 1 one_in then [ s ] else [] in
      base
      @ opt { rname = "empty_t"; rkind = ch 'r'; rcols = 2; rrows = 0; rfile = true; rstorage = true }
      @ opt ~one_in:3 { rname = "nofile_t"; rkind = ch 'r'; rcols = 2; rrows = 0; rfile = false; rstorage = true }
      @ opt { rname = pick r [| "sql_features"; "sql_"; "sql_parts" |]; rkind = ch 'r'; rcols = 2; rrows = rows (); rfile = true; rstorage = true }
      @ opt ~one_in:3 { rname = pick r [| "SQL_upper"; "xsql_y"; "sql" |]; rkind = ch 'r'; rcols = 1; rrows = rows (); rfile = true; rstorage = true }
      @ opt { rname = pick r [| "pg_stat_x"; "pg_"; "pg_class_copy" |]; rkind = ch 'r'; rcols = 2; rrows = rows (); rfile = true; rstorage = true }
      @ opt ~one_in:3 { rname = pick r [| "PG_upper"; "xpg_"; "pg" |]; rkind = ch 'r'; rcols = 1; rrows = rows (); rfile = true; rstorage = true }
      @ opt { rname = "users_pkey"; rkind = ch 'i'; rcols = 1; rrows = rows (); rfile = true; rstorage = true }
      @ opt { rname = "users_id_seq"; rkind = ch 'S'; rcols = 3; rrows = 1; rfile = true; rstorage = true }
      @ opt { rname = "mv_report"; rkind = ch 'm'; rcols = 2; rrows = rows (); rfile = true; rstorage = true }
      @ opt ~one_in:3 { rname = pick r [| "toast_like"; "pg_toast_16400" |]; rkind = ch 't'; rcols = 2; rrows = rows (); rfile = true; rstorage = true }
      @ opt ~one_in:3 { rname = "a_view"; rkind = ch 'v'; rcols = 2; rrows = 0; rfile = false; rstorage = false }
      @ opt ~one_in:4 { rname = "part_parent"; rkind = ch 'p'; rcols = 2; rrows = 0; rfile = false; rstorage = false }
    end in
  let rels = List.map (mk_rel r ~fresh) specs in
  (* pg_class: physical order shuffled, dead versions around *)
  let phys = shuffle r rels in
  let live_c x = VRow (mk_vhdr r ~alive:true, crow r x) in
  let dead_c x = VRow (mk_vhdr r ~alive:false,
                       (match rint r 3 with
                        | 0 -> { (crow r x) with cr_name = bs "renamed_old" }
                        | 1 -> { (crow r x) with cr_filenode = zi (fresh ()) }
                        | _ -> { (crow r x) with cr_kind = zi (ch 'i'); cr_name = bs "old" })) in
  let ndead () = if p.dead > 0 && chance r 1 3 then 1 else 0 in
  let class_items = List.concat_map (fun x -> List.init (ndead ()) (fun _ -> dead_c x) @ [ live_c x ] @ List.init (ndead ()) (fun _ -> dead_c x)) phys in
  let class_items = if p.dead > 0 then sprinkle r [ stub r; VOld (junk_tup r ~alive:false) ] class_items else class_items in
  let class_pages = pack r ~fits:(page_fits schemaPGClass class_ds) ~per_page:50 class_items in
  let dir_class = List.map (fun pg -> HPage pg) class_pages in
  (* pg_attribute: rows of all relations shuffled; for the 16 layout the first five live rows carry 1..5 *)
  let live_a = List.concat_map (rel_attrs r ~safe:true) rels in
  let live_a = order_attrs r (if p.v16 then DetOk5 else DetAny) live_a in
  let live_av = List.map (fun a -> VRow (mk_vhdr r ~alive:true, a)) live_a in
  let dead_a = if p.dead = 0 then [] else
      List.filter_map (fun (a : attrow) -> if chance r 1 8 then Some (VRow (mk_vhdr r ~alive:false, { a with ar_name = bs "old_name"; ar_typid = zi 25; ar_len = zi (-1) })) else None) live_a in
  (* dead versions only AFTER the first five live rows, so that detection sees what the value says *)
  let attr_items = take 5 live_av @ sprinkle r dead_a (drop 5 live_av) in
  let asch = attr_schema p.v16 and ads = attr_ds p.v16 in
  let attr_pages = pack r ~fits:(page_fits asch ads) ~per_page:80 attr_items in
  let dir_attr = List.map (fun pg -> HPage pg) attr_pages in
  let live_attrs = live_rows dir_attr in
  let dir_files = List.filter_map (fun (x : rel) ->
      if not x.file then None else begin
        let ls = List.map snd x.cols in
        let cols = rel_cols live_attrs (zi x.oid) in
        let alive_rows = List.init x.nrows (fun _ -> VRow (mk_vhdr r ~alive:true, row12 r ls)) in
        let extra = if p.dead = 0 then [] else List.init (rint r 2) (fun _ -> VRow (mk_vhdr r ~alive:false, row12 r ls)) @ (if chance r 1 3 then [ stub r ] else []) in
        let items = sprinkle r extra alive_rows in
        (* one relation in four is spread over two or three blocks and its FIRST block holds only dead row versions (or is an
           empty page): a path that cuts the file to "limit" pages before decoding returns too few rows (seeded change C12-10) *)
        let lead = if alive_rows <> [] && chance r 1 4 then
            (match rint r 3 with
             | 0 -> [ HPage (mkpage r []) ]
             | 1 -> [ HPage (mkpage r [ VRow (mk_vhdr r ~alive:false, row12 r ls); VRow (mk_vhdr r ~alive:false, row12 r ls) ]) ]
             | _ -> [ HPage (mkpage r [ VRow (mk_vhdr r ~alive:false, row12 r ls) ]); HPage (mkpage r [ stub r ]) ])
          else [] in
        let pages = pack r ~fits:(page_fits cols idds) ~per_page:(if lead <> [] then 2 else 100) items in
        let heap = match pages with
          | [] -> (match rint r 3 with 0 -> [] | 1 -> [ HZero ] | _ -> [ HPage (mkpage r []) ])
          | _ -> lead @ List.map (fun pg -> HPage pg) (take (if lead <> [] then 2 else 1) pages) in
        Some { rf_node = zi x.node; rf_cols = cols; rf_heap = heap } end) rels in
  ({ dir_oid = zi dir_oid; dir_class; dir_attr; dir_files }, rels)

(* PG_VERSION contents and the layout hint NewRemoteClient takes from them *)
let versions : (string option * int) array =
  [| (Some "12\n", 12); (Some "13\n", 13); (Some "14", 14); (Some "15\n", 15); (Some "16\n", 16); (Some "17\n", 17); (None, 0);
     (Some "9.6\n", 9); (Some "  16 \n", 16); (Some "abc\n", 0); (Some "", 0); (Some "16devel\n", 16); (Some "-3\n", -3); (Some "+15\n", 15) |]

type world12 = {
  c : cluster; files : file list; acl : acluster; creds : authInfo list option; ctl : byte list option;
  hint : int; dbs : (int * string * bool) list; (* oid, name, template *) rels : (int * rel list) list }

(* names that sort after every ASCII letter bytewise ('~', '{') must still come BEFORE the template databases in
   -list-db (seeded change C12-11: sort key "~" + name for templates) *)
let db_sets = [| [ "app"; "App"; "APP" ]; [ "postgres"; "shop_db" ]; [ "mytemplate"; "Template1" ]; [ "x" ]; [ "App"; "postgres" ]; [ "postgres" ];
                 [ "~tilde"; "postgres"; "zzz" ]; [ "~"; "a" ]; [ "{brace}"; "~~"; "postgres" ] |]
(* (ASCII only: the text renderers pad with fmt's %-20s, which counts runes; the model pads bytes, so non-ASCII names are kept
   out of the generated clusters - a limitation of the model of the String() renderers, not of the code) *)
let build_world r ?(ndb = 2) ?(size = 1) ?(min_roles = 0) ?dbset ?users () : world12 =
  let (ver, hint) = pick r versions in
  let v16 = if hint >= 16 then true else if hint >= 12 then false else rbool r in
  let p = { v16; dead = rint r 2; size } in
  let used = Hashtbl.create 8 in
  let fresh () = fresh_id r used in
  let names = match dbset with Some l -> l | None -> take ndb (pick r db_sets) in
  let tpls = if chance r 2 3 then take (rrange r 1 2) (shuffle r [ "template0"; "template1"; "templateX" ]) else [] in
  let dbs = shuffle r (List.map (fun n -> (fresh (), n, false)) names @ List.map (fun n -> (fresh (), n, true)) tpls) in
  let built = List.map (fun (oid, _, tpl) -> let (d, rels) = build_dir12 r ?users p ~dir_oid:oid ~tiny:tpl in (oid, d, rels)) dbs in
  let live_d = List.map (fun (oid, n, _) -> VRow (mk_vhdr r ~alive:true, { dr_oid = zi oid; dr_name = bs n })) dbs in
  let extra = if p.dead = 0 then [] else
      [ VRow (mk_vhdr r ~alive:false, { dr_oid = zi (fresh ()); dr_name = bs "dropped_db" }); stub r ]
      @ (match dbs with (oid, _, _) :: _ -> [ VRow (mk_vhdr r ~alive:false, { dr_oid = zi oid; dr_name = bs "old_name" }) ] | [] -> []) in
  let pages = pack r ~fits:(page_fits schemaPGDatabase db_ds) ~per_page:50 (sprinkle r extra live_d) in
  let c = { cl_v16 = v16; cl_pgdb = List.map (fun pg -> HPage pg) pages; cl_dirs = shuffle r (List.map (fun (_, d, _) -> d) built) } in
  (* pg_control: opaque to C12 (>= 296 bytes parses, shorter does not) *)
  let ctl = match rint r 6 with 0 -> None | 1 -> Some (rbytes r 120) | 2 -> Some (rbytes r 295) | 3 -> Some (rbytes r 296) | _ -> Some (rbytes r (rrange r 300 520)) in
  (* pg_authid *)
  let roles =
    if min_roles = 0 && chance r 1 6 then None else
      Some (List.init (max min_roles (rint r 4)) (fun i ->
          let name = List.nth [ "postgres"; "app_user"; "Admin"; "ro" ] i in
          let pw = match rint r 4 with 0 -> None | 1 -> Some (bs ("md5" ^ String.init 32 (fun _ -> "0123456789abcdef".[rint r 16])))
                                   | 2 -> Some (bs "SCRAM-SHA-256$4096:c2FsdA==$c3RvcmVk:c2VydmVy") | _ -> Some (ascii r (1 + rint r 12)) in
          mk_role (zi (10 + i * 16384)) (bs name) (rbool r) (rbool r) pw (rbytes r 18) (zi (gen_mask r ~alive:(chance r 4 5) lsr 1)))) in
  (match roles with Some l when not (auth_ok l) -> failwith "C12 generator: pg_authid roles are not well-formed" | _ -> ());
  let auth = match roles with Some l -> Some (auth_file l) | None -> None in
  let creds = match roles with Some l -> Some (x_creds l) | None -> None in
  let files =
    (match ver with Some v -> [ { rel = "PG_VERSION"; p = Some PVersion; data = bs v } ] | None -> [])
    @ (match ctl with Some b -> [ { rel = "global/pg_control"; p = Some PControl; data = b } ] | None -> [])
    @ (match auth with Some b -> [ { rel = "global/1260"; p = Some (PGlobal (zi 1260)); data = b } ] | None -> [])
    @ List.map (fun (q, b) -> match q with
        | PGlobal1262 -> { rel = "global/1262"; p = Some (PGlobal (zi 1262)); data = b }
        | PBase (db, f) -> { rel = Printf.sprintf "base/%s/%s" (zs db) (zs f); p = Some (PBase0 (db, f)); data = b }) (enum_files c) in
  let acl = abstract_of (match ver with Some v -> Some (bs v) | None -> None) c in
  (* the value must be inside the theorems' hypotheses *)
  if not (wf_cluster_b c) then failwith "C12 generator: cluster is not well-formed (C01 checker)";
  if not (wf_acluster_b acl) then failwith "C12 generator: abstract cluster is not well-formed (C12 checker)";
  List.iter (fun (d : dbdir) ->
      if d.dir_class = [] then failwith "C12 generator: empty pg_class";
      List.iter (fun h -> if not (detect_ok_attrs v16 (zi h) (live_rows d.dir_attr)) then failwith "C12 generator: the layout hint does not agree with the layout")
        [ 0; hint ]) c.cl_dirs;
  { c; files; acl; creds; ctl; hint; dbs; rels = List.map (fun (oid, _, rels) -> (oid, rels)) built }

(* ---------------------------------------------------------------- emitters *)
let some_opts (o : options0) = Some o
let opts0 ?(db = "") ?(t = "") ?(listonly = false) ?(skipsys = true) ?(ver = 0) () : options0 =
  { o_dbfilter0 = bs db; o_tablefilter0 = bs t; o_listonly0 = listonly; o_skipsys0 = skipsys; o_pgversion0 = zi ver }

let c_dump_opt = function Some l -> c_dump0 l | None -> "err"
let emit_dump ~tag (w : world12) (opts : options0 option) =
  let s = c_dump0 (x_dump w.acl opts) in
  let m = c_dump_opt (m_DumpDataDir (fs_of w.files) opts) in
  if s <> m then note "%s: DumpDataDir model differs from the specification" tag;
  emit ~fn:"C12DumpDataDir" ~tag ~s ~m (opts0_arg opts :: files_args w.files);
  emit ~fn:"C12CustomReader" ~tag ~s ~m (opts0_arg opts :: files_args w.files)

let emit_remote ~tag (w : world12) (ks : call list) =
  let fs = fs_of w.files in
  let s = c_answers (List.map (x_answer w.acl w.creds w.ctl) ks) in
  let m = c_answers (m_run_calls fs (m_NewRemoteClient fs) ks) in
  if s <> m then note "%s: client model differs from the specification" tag;
  emit ~fn:"C12Remote" ~tag ~s ~m (string_of_int (List.length ks) :: List.map call_arg ks @ files_args w.files)

let emit_listdb ~tag (w : world12) (files : file list) ~(spec : bool) =
  let s = if spec then c_list (List.map c_dbinfo0 (x_list_databases w.acl)) else "-" in
  let m = c_list (List.map c_dbinfo0 (m_ListDatabases (fs_of files))) in
  emit ~fn:"C12ListDatabases" ~tag ~s ~m (files_args files)

(* fixture files of other properties' domains, present so that every branch of the CLI has something to print *)
let relmap_file r =
  let u32 x = le32 x in
  u32 0x592717 @ u32 2 @ u32 1259 @ u32 1259 @ u32 1249 @ u32 1249 @ List.init (512 - 24) (fun _ -> byte_of_int 0)
let cli_fixture r (w : world12) : file list =
  [ { rel = "global/pg_filenode.map"; p = None; data = relmap_file r } ]
  @ List.map (fun (oid, _, _) -> { rel = Printf.sprintf "base/%d/pg_filenode.map" oid; p = None; data = relmap_file r }) w.dbs
let emit_cli ~tag r (w : world12) (f : flags) =
  let fs = fs_of w.files in
  let a_s = m_dispatch f and a_m = m_main f in
  let s = c_output a_s (x_cli w.acl w.creds f) in
  let m = c_output a_m (m_run fs f) in
  if s <> m then note "%s: CLI model differs from the specification" tag;
  (* tags ending in -nomap: the relation-map files are absent, the command reports the read error and exits with status 1 *)
  let nomap = String.length tag > 6 && String.sub tag (String.length tag - 6) 6 = "-nomap" in
  (* without the global map file "-relmap global" and "-relmap all" fail with the same message: the harness, which names every
     library call whose output equals the program's, names both *)
  let both x = if tag = "cli-relmap-global-nomap" && x = "act=RelmapGlobal" then "act=RelmapGlobal|RelmapAll" else x in
  emit ~fn:"C12Cli" ~tag ~s:(both s) ~m:(both m) (flags_arg f :: files_args (w.files @ (if nomap then [] else cli_fixture r w)))

(* ---------------------------------------------------------------- picking things from a world *)
let real_dbs (w : world12) = List.filter (fun (_, _, t) -> not t) w.dbs
let any_db r (w : world12) = pick r (Array.of_list (match real_dbs w with [] -> w.dbs | l -> l))
let rels_of (w : world12) oid = List.assoc oid w.rels
let adb_of (w : world12) oid = List.find (fun (d : adb) -> iz d.d_oid = oid) w.acl.a_dbs
let arels (w : world12) oid = (adb_of w oid).d_rels
let swap = swapcase
let name_variants r (n : string) = [ n; swap n; String.uppercase_ascii n; String.lowercase_ascii n; n ^ "x"; "" ]

(* ---------------------------------------------------------------- strata *)
let stratum_paths r (w : world12) =
  emit_dump ~tag:"paths-nil-opts" w None;
  emit_remote ~tag:"paths-remote-dumpall" w [ KDumpAll ]

let stratum_listings r (w : world12) =
  let per_db = List.concat_map (fun (oid, n, _) ->
      let rs = arels w oid in
      [ KTables (zi oid); KTablesByName (bs n) ]
      @ List.concat_map (fun (x : arel) -> [ KColumns (zi oid, x.r_oid); KColumnNames (zi oid, x.r_oid) ]) (take 3 (shuffle r rs))) w.dbs in
  emit_remote ~tag:"listings" w ([ KDatabases ] @ per_db @ [ KTables (zi 4242); KColumns (zi 4242, zi 1); KTablesByName (bs "nosuchdb") ]);
  emit_remote ~tag:"summary" w [ KSummary; KVersion; KCredentials; KControl ]

let stratum_names r (w : world12) =
  let (oid, n, _) = any_db r w in
  let tnames = List.sort_uniq compare (List.map (fun (x : rel) -> x.name) (rels_of w oid)) in
  (* prefer a name that has a sibling differing only in case *)
  let has_sibling t = List.exists (fun u -> u <> t && String.lowercase_ascii u = String.lowercase_ascii t) tnames in
  let tn = match List.filter has_sibling tnames with [] -> pick r (Array.of_list tnames) | l -> pick r (Array.of_list l) in
  let dbcalls = List.concat_map (fun (_, dn, _) -> List.map (fun v -> KDatabase (bs v)) (take 4 (name_variants r dn))) w.dbs in
  let tcalls = List.concat_map (fun t -> List.map (fun v -> KTable (zi oid, bs v)) (take 4 (name_variants r t)))
      (take 5 (List.filter has_sibling tnames @ shuffle r (List.filter (fun t -> not (has_sibling t)) tnames))) in
  emit_remote ~tag:"names-database" w (dbcalls @ [ KDatabase (bs "nosuch"); KDatabase [] ]);
  emit_remote ~tag:"names-table" w (tcalls @ [ KTable (zi oid, bs "nosuch"); KTable (zi 4242, bs tn) ]);
  emit_remote ~tag:"names-query" w
    (List.concat_map (fun (_, dn, tpl) -> if tpl then [] else [ KQueryByName (bs dn, bs tn, None); KDumpDatabaseByName (bs dn); KTablesByName (bs dn) ]) w.dbs
     @ List.map (fun (dn, t) -> KQueryByName (bs dn, bs t, Some { q_columns = []; q_limit = zi 2 }))
       [ (n, tn); (swap n, tn); (n, swap tn); (n, String.uppercase_ascii tn); (n, String.lowercase_ascii tn); (n ^ "x", tn); (n, "nosuch") ]);
  emit_remote ~tag:"names-exec" w
    (List.map (fun a -> KExec (List.map bs a))
       [ [ "columns"; n; tn ]; [ "columns"; swap n; String.uppercase_ascii tn ]; [ "query"; n; String.lowercase_ascii tn ]; [ "tables"; String.uppercase_ascii n ];
         [ "dump"; String.lowercase_ascii n ] ])

(* a database of pg_database whose directory is missing, or whose pg_class is an empty file: no dump lists it *)
let stratum_missing_dir r ~(gone : bool) (w : world12) =
  match real_dbs w with
  | (victim, _, _) :: _ :: _ ->
    let prefix = Printf.sprintf "base/%d/" victim in
    let starts f = String.length f.rel >= String.length prefix && String.sub f.rel 0 (String.length prefix) = prefix in
    let (tag, files) =
      if gone then ("missing-directory", List.filter (fun f -> not (starts f)) w.files)
      else ("empty-pg-class-file", List.map (fun f -> if f.rel = prefix ^ "1259" then { f with data = [] } else f) w.files) in
    let acl = { w.acl with a_dbs = List.filter (fun (d : adb) -> iz d.d_oid <> victim) w.acl.a_dbs } in
    let w' = { w with files; acl } in
    emit_dump ~tag w' None;
    emit_remote ~tag w' [ KDumpAll; KExec [ bs "dump" ] ]
  | _ -> ()

let stratum_query r (w : world12) =
  let (oid, _, _) = any_db r w in
  let rs = arels w oid in
  let with_rows = List.filter (fun (x : arel) -> match x.r_rows with Some (_ :: _) -> true | _ -> false) rs in
  let x = pick r (Array.of_list (match with_rows with [] -> rs | l -> l)) in
  let n = List.length (rel_rows x) in
  let cols = List.map (fun (a : attrInfo0) -> a.ai_name0) x.r_attrs in
  let q ?(t = Some (ti_of x)) cs lim = KQuery (zi oid, t, Some { q_columns = cs; q_limit = zi lim }) in
  let c1 = take 1 cols and c2 = List.rev (take 2 cols) in
  emit_remote ~tag:"query-limit" w (List.map (fun l -> q [] l) [ 0; -1; 1; n - 1; n; n + 1; 1000 ]);
  emit_remote ~tag:"query-projection" w
    [ q c1 0; q c2 0; q (cols @ [ bs "missing" ]) 0; q [ bs "missing" ] 0; q (c1 @ c1) 0; q (List.map (fun c -> bs (swap (string_of_bytes c))) c1) 0;
      q c2 1; q c1 (max 1 (n - 1)); q [ [] ] 0 ];
  let others = take 3 (shuffle r rs) in
  emit_remote ~tag:"query-any-relation" w
    ([ KQuery (zi oid, Some (ti_of x), None); KQuery (zi oid, None, None); KQuery (zi oid, Some { (ti_of x) with ti_filenode0 = zi 0 }, None);
       KQuery (zi 4242, Some (ti_of x), None) ]
     @ List.map (fun (y : arel) -> KQuery (zi oid, Some (ti_of y), Some { q_columns = []; q_limit = zi 2 })) others)

let stratum_dump r (w : world12) =
  let (oid, n, _) = any_db r w in
  let rs = arels w oid in
  emit_remote ~tag:"dump-table" w
    (List.map (fun (y : arel) -> KDumpTable (zi oid, Some (ti_of y))) (take 4 (shuffle r rs)) @ [ KDumpTable (zi oid, None) ]);
  emit_remote ~tag:"dump-database" w
    (List.map (fun (o, _, _) -> KDumpDatabase (zi o)) w.dbs @ [ KDumpDatabase (zi 4242); KDumpDatabaseByName (bs n); KDumpDatabaseByName (bs (swap n));
                                                               KDumpDatabaseByName (bs "nosuch") ])

let exec_cmds r (w : world12) : byte list list list =
  let (oid, n, _) = any_db r w in
  let tn = (pick r (Array.of_list (rels_of w oid))).name in
  let l = List.map (List.map bs) in
  l [ []; [ "summary" ]; [ "version" ]; [ "control" ]; [ "creds" ]; [ "credentials" ]; [ "dbs" ]; [ "databases" ]; [ "tables" ]; [ "tables"; n ];
      [ "tables"; swap n ]; [ "tables"; "nosuch" ]; [ "columns" ]; [ "columns"; n ]; [ "columns"; n; tn ]; [ "columns"; "nosuch"; tn ]; [ "columns"; n; "nosuch" ];
      [ "columns"; n; swap tn ]; [ "query" ]; [ "query"; n ]; [ "query"; n; tn ]; [ "query"; n; "nosuch" ]; [ "dump" ]; [ "dump"; n ]; [ "dump"; "nosuch" ];
      [ "bogus" ]; [ "Summary" ]; [ "" ; "x" ]; [ "dump"; n; "extra" ] ]
let stratum_exec r (w : world12) =
  let cmds = exec_cmds r w in
  let (a, b) = (take 15 cmds, drop 15 cmds) in
  emit_remote ~tag:"exec-a" w (List.map (fun c -> KExec c) a);
  emit_remote ~tag:"exec-b" w (List.map (fun c -> KExec c) b)

(* a sequence of calls of every kind on one client: the cache must be transparent *)
let stratum_cache r (w : world12) =
  let (oid, n, _) = any_db r w in
  let rs = arels w oid in
  let x = pick r (Array.of_list rs) in
  let pool = [| KDumpAll; KSummary; KDatabases; KTables (zi oid); KColumns (zi oid, x.r_oid); KQuery (zi oid, Some (ti_of x), None);
                KQueryByName (bs n, x.r_name, Some { q_columns = []; q_limit = zi 1 }); KDumpDatabase (zi oid); KTable (zi oid, x.r_name);
                KDatabase (bs (swap n)); KExec [ bs "tables"; bs n ]; KDumpTable (zi oid, Some (ti_of x)); KColumnNames (zi oid, x.r_oid);
                KTablesByName (bs n); KVersion; KCredentials; KExec [ bs "dump" ]; KTables (zi 4242); KDumpDatabaseByName (bs n) |] in
  let ks = List.init (rrange r 6 9) (fun _ -> pick r pool) in
  let fs = fs_of w.files in
  let m1 = c_answers (m_run_calls fs (m_NewRemoteClient fs) ks) and m2 = c_answers (m_run_calls_id fs (m_NewRemoteClient fs) ks) in
  if m1 <> m2 then failwith "C12 driver: the client model depends on the map iteration order";
  emit_remote ~tag:"cache-call-sequence" w ks

let stratum_options r (w : world12) =
  let (oid, n, _) = any_db r w in
  let tnames = List.map (fun (x : rel) -> x.name) (rels_of w oid) in
  let tn = pick r (Array.of_list tnames) in
  let sub s = if String.length s > 2 then String.sub s 1 (String.length s - 2) else s in
  List.iter (fun (tag, o) -> emit_dump ~tag w (Some o))
    [ ("opts-dbfilter-exact", opts0 ~db:n ()); ("opts-dbfilter-case", opts0 ~db:(swap n) ()); ("opts-dbfilter-absent", opts0 ~db:(n ^ "x") ());
      ("opts-tablefilter", opts0 ~t:(pick r [| tn; sub tn; swap (sub tn); "sql"; "pg_"; "zzq" |]) ());
      ("opts-listonly", opts0 ~listonly:true ()); ("opts-skipsys-off", opts0 ~skipsys:false ~ver:w.hint ()) ]

let stratum_listdb r (w : world12) =
  emit_listdb ~tag:"listdb" w w.files ~spec:true;
  if chance r 1 3 then emit_listdb ~tag:"listdb-no-1262" w (List.filter (fun f -> f.rel <> "global/1262") w.files) ~spec:false

let cli_dump_flags r (w : world12) : (string * flags) list =
  let (oid, n, _) = any_db r w in
  let tn = (pick r (Array.of_list (rels_of w oid))).name in
  let d = { no_flags with f_d = dir_name } in
  [ ("cli-dump-json", d); ("cli-dump-sql", { d with f_sql = true }); ("cli-dump-csv", { d with f_csv = true });
    ("cli-dump-sql-and-csv", { d with f_sql = true; f_csv = true });
    ("cli-dump-db", { d with f_db = bs n }); ("cli-dump-db-case", { d with f_db = bs (swap n) });
    ("cli-dump-t", { d with f_t = bs (pick r [| tn; swap tn; "sql"; "users" |]) });
    ("cli-dump-list", { d with f_list = true; f_sql = rbool r });
    ("cli-dump-db-t-list", { d with f_db = bs n; f_t = bs tn; f_list = rbool r; f_csv = rbool r });
    ("cli-dump-R-b-index-ignored", { d with f_R = bs "0:1"; f_b = true; f_index = rbool r }) ]

let cli_other_flags r (w : world12) : (string * flags) list =
  let (oid, n, _) = any_db r w in
  let xs = List.filter (fun (x : rel) -> x.file) (rels_of w oid) in
  let x = pick r (Array.of_list xs) in
  let file = bs (Printf.sprintf "base/%d/%d" oid x.node) in
  let d = { no_flags with f_d = dir_name } in
  let fl = { no_flags with f_f = file } in
  [ ("cli-list-db", { d with f_list_db = true });
    ("cli-list-db-beats-control", { d with f_list_db = true; f_control = true; f_passwords = bs "all"; f_sql = true });
    ("cli-control", { d with f_control = true; f_db = bs n });
    ("cli-control-beats-sequences", { d with f_control = true; f_sequences = bs "all"; f_relmap = bs "global" });
    ("cli-sequences-all", { d with f_sequences = bs "all" });
    ("cli-sequences-db", { d with f_sequences = bs n; f_relmap = bs "all"; f_passwords = bs "all" });
    ("cli-relmap-global", { d with f_relmap = bs "global" });
    ("cli-relmap-all", { d with f_relmap = bs "all"; f_passwords = bs "postgres" });
    ("cli-relmap-oid", { d with f_relmap = bs (string_of_int oid) });
    ("cli-relmap-global-nomap", { d with f_relmap = bs "global" });
    ("cli-relmap-oid-nomap", { d with f_relmap = bs (string_of_int oid) });
    ("cli-relmap-invalid", { d with f_relmap = bs (pick r [| "Global"; "12x"; "4294967296"; "-1"; "ALL" |]) });
    ("cli-passwords-all", { d with f_passwords = bs "all"; f_csv = true });
    ("cli-passwords-user", { d with f_passwords = bs (pick r [| "postgres"; "app_user"; "Admin"; "admin" |]); f_db = bs n });
    ("cli-passwords-upper-ALL", { d with f_passwords = bs "ALL" });
    ("cli-passwords-absent-role", { d with f_passwords = bs "nobody"; f_list = true });
    ("cli-sequences-upper-ALL", { d with f_sequences = bs "ALL" });
    ("cli-f-plain", { fl with f_d = (if rbool r then dir_name else []) });
    ("cli-f-1262", { no_flags with f_f = bs "global/1262"; f_list_db = true });
    ("cli-f-R", { fl with f_R = bs (pick r [| "0"; "0:0"; "0:1"; ":1" |]) });
    ("cli-f-b", { fl with f_b = true; f_index = rbool r });
    ("cli-f-b-R", { fl with f_b = true; f_R = bs "0" });
    ("cli-f-index", { fl with f_index = true; f_R = bs "0" });
    ("cli-f-beats-everything", { fl with f_d = dir_name; f_control = true; f_list_db = true; f_passwords = bs "all"; f_sql = true });
    ("cli-version", { d with f_version = true; f_list_db = true; f_f = file }) ]

(* ---------------------------------------------------------------- the stream *)
(* one block of 10 consecutive case indexes = the ten strata, each on its own cluster; CLI strata take 3 / 6 flag records
   per cluster, rotating through the lists (4 blocks visit every record) *)
let gen seed n =
  for k = 0 to n - 1 do
    let r = rng_for seed k in
    let blk = k / 10 in
    match k mod 10 with
    | 0 ->
      if blk mod 2 = 0 then stratum_paths r (build_world r ~ndb:(rrange r 1 3) ())
      else begin
        let w = build_world r ~dbset:(take (rrange r 2 3) (shuffle r [ "postgres"; "shop_db"; "App"; "x" ])) ~size:0 () in
        stratum_paths r w; stratum_missing_dir r ~gone:((blk / 2) mod 2 = 0) w end
    | 1 -> stratum_listings r (build_world r ())
    | 2 -> stratum_names r (build_world r ~dbset:(take (rrange r 2 3) (shuffle r [ "app"; "App"; "APP" ])) ~users:[ "users"; "Users"; "USERS" ] ~size:0 ())
    | 3 -> stratum_query r (build_world r ~ndb:1 ())
    | 4 -> stratum_dump r (build_world r ())
    | 5 -> let w = build_world r ~ndb:(rrange r 1 2) ~size:0 () in stratum_exec r w
    | 6 -> stratum_cache r (build_world r ~ndb:(rrange r 1 2) ~size:0 ())
    | 7 -> let w = build_world r ~ndb:(rrange r 1 2) ~size:0 () in stratum_options r w; stratum_listdb r w
    | 8 ->
      let w = build_world r ~ndb:(rrange r 1 2) ~size:0 () in
      let l = cli_dump_flags r w in
      let len = List.length l in
      List.iter (fun i -> let (tag, f) = List.nth l ((3 * blk + i) mod len) in emit_cli ~tag r w f) [ 0; 1; 2 ]
    | _ ->
      let w = build_world r ~ndb:1 ~size:0 ~min_roles:2 () in
      let l = cli_other_flags r w in
      let len = List.length l in
      List.iter (fun i -> let (tag, f) = List.nth l ((6 * blk + i) mod len) in emit_cli ~tag r w f) [ 0; 1; 2; 3; 4; 5 ]
  done
let () = main gen
