(* C12 driver, part 1: canonical rendering of the C12 model's results (must agree with harness/c12.go) and the
   encoding of client calls / command-line flags as harness arguments.  In the extracted program the record types
   of coq/C12/Lib.v carry the suffix 0 (tableDump0, td_oid0 ...): the plain names are C01's, which the reused
   C01 modules need. *)
open Model
open Util
open Value
open C01_render

(* ---------- results ---------- *)
let c_col0 (c : columnInfo0) = c_rec [ "name", c_str c.ci_name0; "type", c_str c.ci_type0; "typid", zs c.ci_typid0 ]
let c_table0 (t : tableDump0) =
  c_rec [ "oid", zs t.td_oid0; "name", c_str t.td_name0; "filenode", zs t.td_filenode0; "kind", c_str t.td_kind0;
          "columns", c_list (List.map c_col0 t.td_columns0); "rows", c_list (List.map c_map t.td_rows0); "row_count", zs t.td_rowcount0 ]
let c_db0 (d : databaseDump0) = c_rec [ "oid", zs d.dd_oid0; "name", c_str d.dd_name0; "tables", c_list (List.map c_table0 d.dd_tables0) ]
let c_dump0 (l : databaseDump0 list) = c_list (List.map c_db0 l)
let c_opt f = function None -> "nil" | Some x -> f x
let c_dbinfo0 (d : databaseInfo0) = c_rec [ "oid", zs d.db_oid0; "name", c_str d.db_name0 ]
let c_tinfo0 (t : tableInfo0) = c_rec [ "oid", zs t.ti_oid0; "filenode", zs t.ti_filenode0; "name", c_str t.ti_name0; "kind", c_str t.ti_kind0 ]
let c_ainfo0 (a : attrInfo0) =
  c_rec [ "name", c_str a.ai_name0; "typid", zs a.ai_typid0; "num", zs a.ai_num0; "len", zs a.ai_len0; "align", zs a.ai_align0 ]
let c_auth (a : authInfo) =
  c_rec [ "oid", zs a.au_oid; "role", c_str a.au_role; "password", c_str a.au_password; "super", c_bool a.au_super; "login", c_bool a.au_login ]
(* pg_control is a placeholder in the instance: the bytes handed to ParseControlFile *)
let ctl_bytes (x : e_ControlFile) : byte list = (Obj.magic x : byte list)
let c_ctl (o : e_ControlFile option) = match o with None -> "nil" | Some x -> "ctlraw:" ^ hex_of_bytes (ctl_bytes x)

let c_sumjson (j : summaryJSON) =
  let dbs = List.sort (fun (a, _) (b, _) -> compare (string_of_bytes a) (string_of_bytes b)) j.sj_databases in
  c_rec [ "version", c_str j.sj_version; "credentials", c_list (List.map c_str j.sj_credentials);
          "databases", "m{" ^ String.concat "," (List.map (fun (k, v) -> hex_of_bytes k ^ ":" ^ c_list (List.map c_str v)) dbs) ^ "}" ]
let c_summary (s : summaryResult) = c_rec [ "json", c_sumjson (m_MarshalJSON s); "text", c_str (m_SummaryString s) ]
let result_ctor (r : result) = match r with
  | RSummary _ -> "RSummary" | RVersion _ -> "RVersion" | RControl _ -> "RControl" | RCreds _ -> "RCreds" | RDatabases _ -> "RDatabases"
  | RTables _ -> "RTables" | RColumns _ -> "RColumns" | RQuery _ -> "RQuery" | RDumpDatabase _ -> "RDumpDatabase"
  | RDumpAll _ -> "RDumpAll" | RError _ -> "RError"
let c_result (r : result) = c_rec [ "type", result_ctor r; "text", c_str (m_result_string r) ]

let c_answer (a : answer) : string = match a with
  | NBytes b -> c_str b
  | NControl o -> c_ctl o
  | NCreds l -> c_list (List.map c_auth l)
  | NDbs l -> c_list (List.map c_dbinfo0 l)
  | NDb o -> c_opt c_dbinfo0 o
  | NTables l -> c_list (List.map c_tinfo0 l)
  | NTable o -> c_opt c_tinfo0 o
  | NAttrs l -> c_list (List.map c_ainfo0 l)
  | NNames l -> c_list (List.map c_str l)
  | NRows l -> c_list (List.map c_map l)
  | NTableDump o -> c_opt c_table0 o
  | NDbDump o -> c_opt c_db0 o
  | NDump l -> c_dump0 l
  | NSummary s -> c_summary s
  | NResult r -> c_result r
let c_answers (l : answer list) = c_list (List.map c_answer l)

(* ---------- arguments ---------- *)
let opts0_arg (o : options0 option) = match o with
  | None -> "nil"
  | Some o -> String.concat ":" [ hexf o.o_dbfilter0; hexf o.o_tablefilter0; (if o.o_listonly0 then "1" else "0");
                                  (if o.o_skipsys0 then "1" else "0"); zs o.o_pgversion0 ]
let ti_arg (t : tableInfo0 option) = match t with
  | None -> "nil"
  | Some t -> String.concat "/" [ zs t.ti_oid0; zs t.ti_filenode0; hexf t.ti_name0; hexf t.ti_kind0 ]
let qo_arg (o : queryOptions option) = match o with
  | None -> "nil"
  | Some o -> zs o.q_limit ^ "/" ^ String.concat "," (List.map hexf o.q_columns)
let call_arg (k : call) : string = match k with
  | KVersion -> "version" | KControl -> "control" | KCredentials -> "creds" | KDatabases -> "dbs"
  | KDatabase n -> "db:" ^ hexf n
  | KTables db -> "tables:" ^ zs db
  | KTablesByName n -> "tablesbyname:" ^ hexf n
  | KTable (db, n) -> Printf.sprintf "table:%s:%s" (zs db) (hexf n)
  | KColumns (db, oid) -> Printf.sprintf "columns:%s:%s" (zs db) (zs oid)
  | KColumnNames (db, oid) -> Printf.sprintf "colnames:%s:%s" (zs db) (zs oid)
  | KQuery (db, t, o) -> Printf.sprintf "query:%s:%s:%s" (zs db) (ti_arg t) (qo_arg o)
  | KQueryByName (dn, tn, o) -> Printf.sprintf "querybyname:%s:%s:%s" (hexf dn) (hexf tn) (qo_arg o)
  | KDumpTable (db, t) -> Printf.sprintf "dumptable:%s:%s" (zs db) (ti_arg t)
  | KDumpDatabase db -> "dumpdb:" ^ zs db
  | KDumpDatabaseByName n -> "dumpdbbyname:" ^ hexf n
  | KDumpAll -> "dumpall" | KSummary -> "summary"
  | KExec args -> "exec:" ^ String.concat "," (List.map hexf args)

(* ---------- the command line ---------- *)
let no_flags : flags =
  { f_d = []; f_f = []; f_db = []; f_t = []; f_list = false; f_list_db = false; f_detect = false; f_sql = false; f_csv = false;
    f_search = []; f_passwords = []; f_secrets = []; f_deleted = false; f_wal = false; f_control = false; f_checksum = false;
    f_index = false; f_dropped = false; f_sequences = []; f_relmap = []; f_R = []; f_b = false; f_o = false; f_toast_verbose = false;
    f_n = zi 0; f_s = zi 0; f_v = false; f_debug = false; f_version = false }
(* -d is always the materialised directory: the flag record carries a symbolic non-empty name *)
let dir_name = bs "DIR"
let flags_arg (f : flags) : string =
  let b on name = if on then [ name ] else [] in
  let s v name = if v <> [] then [ name ^ "=" ^ hexf v ] else [] in
  match b (f.f_d <> []) "d" @ s f.f_f "f" @ s f.f_db "db" @ s f.f_t "t" @ b f.f_list "list" @ b f.f_sql "sql" @ b f.f_csv "csv"
        @ b f.f_list_db "listdb" @ s f.f_R "R" @ b f.f_b "b" @ b f.f_index "index" @ b f.f_control "control"
        @ s f.f_passwords "passwords" @ s f.f_sequences "sequences" @ s f.f_relmap "relmap" @ b f.f_version "version" with
  | [] -> "-"
  | l -> String.concat ";" l
let fmt_name = function FJSON -> "json" | FSQL -> "sql" | FCSV -> "csv"
let action_name (a : action) : string = match a with
  | AVersion -> "Version" | ADetect -> "Detect" | ABinaryDump _ -> "BinaryDump" | AIndexFile _ -> "IndexFile"
  | AToastVerbose _ -> "ToastVerbose" | ABlockRange _ -> "BlockRange" | ASingle _ -> "Single" | ANoDataDir -> "NoDataDir"
  | AListDatabases _ -> "ListDatabases" | AControl _ -> "Control" | AChecksum _ -> "Checksum" | ADroppedDb _ -> "DroppedDb"
  | ADroppedAll _ -> "DroppedAll" | ASequencesAll _ -> "SequencesAll" | ASequences _ -> "Sequences"
  | ARelmapGlobal _ -> "RelmapGlobal" | ARelmapAll _ -> "RelmapAll" | ARelmapDb (_, oid) -> "RelmapDb:" ^ zs oid
  | ARelmapInvalid _ -> "RelmapInvalid" | APasswords _ -> "Passwords" | ASecrets _ -> "Secrets" | ASearch _ -> "Search"
  | AWal _ -> "Wal" | ADump (_, _, _, fmt) -> "Dump:" ^ fmt_name fmt
let c_output (a : action) (o : output) : string = match o with
  | OutText (b, ex) -> Printf.sprintf "act=%s;exit=%s;out=%s" (action_name a) (zs ex) (c_str b)
  | OutDump (Some l, fmt) -> Printf.sprintf "act=Dump:%s;dump=%s" (fmt_name fmt) (c_dump0 l)
  | OutDump (None, fmt) -> Printf.sprintf "act=Dump:%s;err" (fmt_name fmt)
  | OutLib a -> "act=" ^ action_name a
