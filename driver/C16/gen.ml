(* C16 driver: pg_control images and the helper functions of pgdump/control.go. *)
open Model
open Util

let zz = z_of_zarith
let za = zarith_of_z
let pow2 k = ZA.shift_left ZA.one k

(* ---- rendering (must agree with harness/c16.go) ---- *)
let c_control (f : controlFile) : string =
  c_rec [ "ctlver", zs f.pGControlVersion; "catver", zs f.catalogVersionNo; "sysid", zs f.systemIdentifier;
          "state", zs f.state; "statestr", c_str f.stateString;
          "ckpt", c_str f.checkpointLSN; "redo", c_str f.redoLSN; "walfile", c_str f.redoWALFile;
          "tli", zs f.timeLineID; "prevtli", zs f.prevTimeLineID; "fpw", c_bool f.fullPageWrites;
          "epoch", zs f.nextXIDEpoch; "nextxid", zs f.nextXID; "nextoid", zs f.nextOID;
          "nextmulti", zs f.nextMulti; "nextmoff", zs f.nextMultiOffset;
          "oldestxid", zs f.oldestXID; "oldestxiddb", zs f.oldestXIDDB;
          "oldestactive", zs f.oldestActiveXID; "oldestmulti", zs f.oldestMulti;
          "oldestmultidb", zs f.oldestMultiDB; "oldestcts", zs f.oldestCommitTsXID;
          "newestcts", zs f.newestCommitTsXID;
          "time", zs f.checkpointTime;
          "wallevel", c_str f.wALLevel; "hints", c_bool f.wALLogHints;
          "maxconn", zs f.maxConnections; "maxwork", zs f.maxWorkerProcesses;
          "maxsend", zs f.maxWALSenders; "maxprep", zs f.maxPreparedXacts;
          "maxlock", zs f.maxLocksPerXact; "trackts", c_bool f.trackCommitTS;
          "maxalign", zs f.maxAlign; "blcksz", zs f.blockSize; "relseg", zs f.blocksPerSeg;
          "xlogblcksz", zs f.wALBlockSize; "xlogsegsz", zs f.wALSegmentSize;
          "namelen", zs f.nameDataLen; "indexkeys", zs f.indexMaxKeys;
          "toastchunk", zs f.tOASTMaxChunk; "loblk", zs f.largeObjectChunk;
          "floatok", c_bool f.floatFormatOK; "cksum", c_bool f.dataChecksumsEnabled;
          "crc", zs f.cRC; "crcvalid", c_bool f.cRCValid ]
let c_parse (r : (perr, controlFile) sum res) : string =
  c_res (function Inl ETooSmall -> "err:too_small" | Inr f -> c_control f) r

(* ---- field generators ---- *)
let g_u r k : z = zz (match rint r 10 with 0 | 1 | 2 -> ru r k | _ -> rdistinct r k)
let g_i r k : z = (* signed k-bit *)
  let v = (match rint r 10 with 0 | 1 | 2 -> ru r k | _ -> rdistinct r k) in
  zz (if ZA.geq v (pow2 (k - 1)) then ZA.sub v (pow2 k) else v)
let legal_blcksz = [| 1024; 2048; 4096; 8192; 16384; 32768 |]
let legal_segsz r = 1 lsl (rrange r 20 30)
let g_state r : z =
  match rint r 10 with
  | 0 | 1 | 2 | 3 | 4 | 5 -> zi (rint r 7)
  | 6 -> zi (pick r [| 7; 8; 99; -1; -2; 255; 256; 65536 |])
  | 7 -> zz (pick r [| ZA.pred (pow2 31); ZA.neg (pow2 31); ZA.of_int 1000000000; ZA.of_int (-1000000000) |])
  | _ -> g_i r 32
let g_conn r : z =
  match rint r 12 with
  | 0 -> zi 1 | 1 -> zi 100 | 2 -> zi 10000 | 3 -> zi 10001 | 4 -> zi 262143 | 5 -> zi 1000
  | 6 -> g_i r 32
  | _ -> zi (rrange r 1 262143)
let g_limit r : z =
  match rint r 10 with
  | 0 | 1 -> zi 0 | 2 -> zi 1 | 3 -> zi 8 | 4 -> zi 1000 | 5 -> zi 1001 | 6 -> zi 262143
  | 7 -> g_i r 32
  | _ -> zi (rrange r 0 262143)
let g_lsn r (segsz : int) : z =
  let s = ZA.of_int segsz in
  zz (match rint r 10 with
      | 0 -> pow2 32 | 1 -> ZA.pred (pow2 32) | 2 -> ZA.of_int (rint r 1000)
      | 3 -> ZA.mul s (rbits r (64 - 30))                         (* exact segment boundary *)
      | 4 -> ZA.pred (ZA.mul s (ZA.succ (rbits r (64 - 31))))     (* last byte of a segment *)
      | 5 -> ZA.pred (pow2 64)
      | 6 -> ZA.add (ZA.shift_left (ZA.of_int (1 + rint r 255)) 32) (rbits r 32)
      | _ -> rdistinct r 64)
let g_time r : z =
  match rint r 6 with
  | 0 -> zi 0 | 1 -> zi 1768733183 | 2 -> zi (-1) | 3 -> g_i r 64
  | _ -> zi (rrange r 946684800 1893456000) (* 2000..2030 *)
let float_ok = ZA.of_string "4698053236609777664"

let gen_control r : control * int =
  let segsz = legal_segsz r in
  let cp = { cp_redo = g_lsn r segsz; cp_tli = (match rint r 4 with 0 -> zi 1 | 1 -> zi 2 | _ -> g_u r 32);
             cp_prevtli = g_u r 32; cp_fpw = rbool r; cp_nextxid = g_u r 64; cp_nextoid = g_u r 32;
             cp_nextmulti = g_u r 32; cp_nextmoff = g_u r 32; cp_oldestxid = g_u r 32; cp_oldestxiddb = g_u r 32;
             cp_oldestmulti = g_u r 32; cp_oldestmultidb = g_u r 32; cp_time = g_time r;
             cp_oldestcts = g_u r 32; cp_newestcts = g_u r 32; cp_oldestactive = g_u r 32 } in
  ({ c_pg12 = (rint r 5 = 0); c_sysid = g_u r 64;
     c_ctlver = (match rint r 4 with 0 -> zi 1201 | 1 -> zi 1300 | 2 -> zi 1100 | _ -> g_u r 32);
     (* catalog version numbers on both sides of the release values the tool compares with (PG16 202307071, PG15 202209061,
        PG14 202107181, PG13 202007201, PG12 201909212) and at year boundaries (seeded change C16-10: year test instead of >=) *)
     c_catver = (match rint r 4 with
         | 0 -> zi (pick r [| 202307071; 202209061; 202107181; 202007201; 201909212 |])
         | 1 -> zi (pick r [| 202307071; 202209061; 202107181; 202007201; 201909212 |] + pick r [| -1; 1; -71; 100 |])
         | 2 -> zi (pick r [| 202300000; 202301011; 202307070; 202299999; 202212311; 202400001; 202200000; 202100000 |])
         | _ -> g_u r 32);
     c_state = g_state r; c_time = g_time r; c_checkpoint = g_lsn r segsz; c_cp = cp;
     c_unlogged = g_u r 64; c_minrec = g_u r 64; c_minrectli = g_u r 32; c_backupstart = g_u r 64;
     c_backupend = g_u r 64; c_backupendreq = rbool r;
     c_wal_level = zi (rint r 3); c_wal_log_hints = rbool r;
     c_maxconn = g_conn r; c_maxwork = g_limit r; c_maxsend = g_limit r; c_maxprep = g_limit r;
     c_maxlock = (match rint r 3 with 0 -> zi 64 | _ -> g_limit r); c_trackts = rbool r;
     c_maxalign = (match rint r 3 with 0 -> zi 8 | 1 -> zi 4 | _ -> g_u r 32);
     c_floatformat = (match rint r 4 with 0 -> g_u r 64 | 1 -> zz (ZA.succ float_ok) | _ -> zz float_ok);
     c_blcksz = zi (pick r legal_blcksz);
     c_relseg = (match rint r 3 with 0 -> zi 131072 | _ -> g_u r 32);
     c_xlogblcksz = zi (pick r legal_blcksz);
     c_xlogsegsz = zi segsz;
     c_namelen = (match rint r 3 with 0 -> zi 64 | _ -> g_u r 32);
     c_indexkeys = (match rint r 3 with 0 -> zi 32 | _ -> g_u r 32);
     c_toastchunk = (match rint r 3 with 0 -> zi 1996 | _ -> g_u r 32);
     c_loblk = (match rint r 3 with 0 -> zi 2048 | _ -> g_u r 32);
     c_float4byval = rbool r; c_float8byval = rbool r;
     c_cksumver = zi (rint r 2);
     c_nonce = rbytes r 32; c_crc = zi 0 }, segsz)

let set_byte (bs : byte list) (off : int) (f : int -> int) : byte list =
  List.mapi (fun i b -> if i = off then byte_of_int (f (int_of_byte b)) else b) bs
let set_u32 (bs : byte list) (off : int) (v : ZA.t) : byte list =
  List.mapi (fun i b -> if i >= off && i < off + 4
              then byte_of_int (ZA.to_int (ZA.logand (ZA.shift_right v (8 * (i - off))) (ZA.of_int 255))) else b) bs
let take n l = List.filteri (fun i _ -> i < n) l
let zeros n = List.init n (fun _ -> byte_of_int 0)

(* file padding after the 296-byte struct: PostgreSQL zero-fills up to 8192 *)
let gen_pad r : byte list * string =
  match rint r 12 with
  | 0 | 1 | 2 | 3 | 4 -> ([], "296")
  | 5 -> (zeros (8192 - 296), "8k")
  | 6 -> (rbytes r (8192 - 296), "8k")
  | 7 -> (rbytes r 1, "297")
  | 8 -> (zeros 216, "512")
  | _ -> (rbytes r (rrange r 1 64), "pad")
let gen_tail r : byte list = if rint r 4 = 0 then rbytes r (rrange r 1 32) else []

let run_parse ~tag ~s (v : byte list) (t : byte list) =
  let m = c_parse (parseControlFile { vis = v; tail = t }) in
  emit ~fn:"ParseControlFile" ~tag ~s ~m [ hexf v; hexf t ]

(* CRC-32C (Castagnoli, reflected 0x82F63B78) run backwards: the last four nonce bytes (file offsets 284..287, free bytes of
   mock_authentication_nonce) are chosen so that the CRC-32C of bytes 0..287 is a WANTED value - 0, 1, 0xFFFFFFFF ... A check
   that treats a stored CRC of 0 as "not written" is wrong exactly on such images (seeded change C16-14).  The result is
   verified with the extracted Coq crc32c before use. *)
let crc_table = Array.init 256 (fun i ->
    let c = ref i in
    for _ = 0 to 7 do c := if !c land 1 = 1 then (!c lsr 1) lxor 0x82F63B78 else !c lsr 1 done; !c)
let crc_reg (bs : int list) = List.fold_left (fun r b -> crc_table.((r lxor b) land 255) lxor (r lsr 8)) 0xFFFFFFFF bs
let force_crc (c : control) (want : int) : control option =
  let n = List.map int_of_byte c.c_nonce in
  if List.length n <> 32 then None else begin
    let covered = List.map int_of_byte (crc_covered c) in
    let prefix = List.filteri (fun i _ -> i < List.length covered - 4) covered in
    let r0 = crc_reg prefix in
    let v = ref (want lxor 0xFFFFFFFF) in
    for _ = 0 to 3 do
      let top = (!v lsr 24) land 255 in
      let idx = ref 0 in
      Array.iteri (fun i t -> if (t lsr 24) land 255 = top then idx := i) crc_table;
      v := (((!v lxor crc_table.(!idx)) lsl 8) lor !idx) land 0xFFFFFFFF
    done;
    let patch = !v lxor r0 in
    let nb = List.mapi (fun i b -> if i >= 28 then byte_of_int ((patch lsr (8 * (i - 28))) land 255) else byte_of_int b) n in
    let c' = { c with c_nonce = nb } in
    if ZA.equal (za (crc32c (crc_covered c'))) (ZA.of_int want) then Some c' else None
  end

(* a control value with its CRC: valid, or corrupted in a stated way *)
let with_crc r (c : control) : control * string =
  if rint r 12 = 0 then
    (let want = pick r [| 0; 0; 0; 1; 0xFFFFFFFF; 0x80000000; 0xFF |] in
     match force_crc c want with
     | Some c' -> if rint r 4 = 0 then ({ c' with c_crc = zz (ZA.of_int (want lxor 1)) }, Printf.sprintf "crcforced%x_off" want)
       else ({ c' with c_crc = zz (ZA.of_int want) }, Printf.sprintf "crcforced%x_ok" want)
     | None -> ({ c with c_crc = zz (za (crc32c (crc_covered c))) }, "crcok"))
  else
  let good = za (crc32c (crc_covered c)) in
  match rint r 10 with
  | 0 -> ({ c with c_crc = zz (ZA.logxor good (pow2 (rint r 32))) }, "crcflip")
  | 1 -> ({ c with c_crc = g_u r 32 }, "crcrand")
  | 2 -> ({ c with c_crc = zz (ZA.logxor good (ZA.of_string "4294967295")) }, "crcinv")
  | 3 -> (* near misses of the right value: its four bytes in reversed order (seeded change C16-6: big-endian fallback), its two
            halves swapped, rotated by one byte, off by one *)
    let b i = ZA.logand (ZA.shift_right good (8 * i)) (ZA.of_int 255) in
    let mk l = List.fold_left (fun a (x, sh) -> ZA.logor a (ZA.shift_left x sh)) ZA.zero l in
    let v = match rint r 4 with
      | 0 -> mk [ (b 0, 24); (b 1, 16); (b 2, 8); (b 3, 0) ]
      | 1 -> mk [ (b 0, 16); (b 1, 24); (b 2, 0); (b 3, 8) ]
      | 2 -> mk [ (b 0, 8); (b 1, 16); (b 2, 24); (b 3, 0) ]
      | _ -> ZA.logand (ZA.add good ZA.one) (ZA.of_string "4294967295") in
    ({ c with c_crc = zz v }, "crcnear")
  | _ -> ({ c with c_crc = zz good }, "crcok")

let state_tag (c : control) = let s = iz c.c_state in if s >= 0 && s <= 6 then "" else "_ustate"

let crc_table_spec () : string =
  c_list (List.init 256 (fun i ->
      let rec go k c = if k = 0 then c else go (k - 1) (crc_shift c false) in zs (go 8 (zi i))))

let gen_case r k =
  match k mod 20 with
  | 0 | 1 | 2 | 3 | 4 | 5 | 6 | 7 | 8 ->
    let c, _ = gen_control r in
    let c, ctag = with_crc r c in
    let pad, ptag = gen_pad r in
    let v = enc_control c @ pad in
    run_parse ~tag:("v" ^ ptag ^ "_" ^ ctag ^ state_tag c) ~s:(c_control (expected c)) v (gen_tail r)
  | 9 -> (* valid CRC stored, then one bit of the covered bytes flipped: the stored fields change
            (so S comes from the model-independent rule: same fields as decoded, crcvalid=false is
            not expressible on the abstract side) -> model vs implementation only *)
    let c, _ = gen_control r in
    let c = { c with c_crc = crc32c (crc_covered c) } in
    let v = enc_control c in
    if rbool r then begin
      let off = rint r 288 in
      let v = set_byte v off (fun b -> b lxor (1 lsl (rint r 8))) in
      run_parse ~tag:"bitflip_covered" ~s:"-" v []
    end else begin
      (* the intact image is parsed first, then a copy whose identifier, length and stored CRC are the same but whose body
         differs: the second answer must come from the second image (seeded change C16-18: a memo keyed by those three) *)
      let pad, _ = gen_pad r in
      if rbool r then begin
        let off = 8 + rint r 280 in
        let v2 = set_byte v off (fun b -> b lxor (1 lsl (rint r 8))) in
        let m = c_parse (parseControlFile { vis = v2 @ pad; tail = [] }) in
        emit ~fn:"ParseControlFileAfter" ~tag:"after_intact_twin_bitflip" ~s:"-" ~m [ hexf (v @ pad); hexf (v2 @ pad) ]
      end else begin
        (* another cluster's fields under the first one's identifier and CRC word: the expected answer is known *)
        let c2, _ = gen_control r in
        let c2 = { c2 with c_pg12 = c.c_pg12; c_sysid = c.c_sysid; c_crc = c.c_crc } in
        let v2 = enc_control c2 in
        let m = c_parse (parseControlFile { vis = v2 @ pad; tail = [] }) in
        emit ~fn:"ParseControlFileAfter" ~tag:"after_intact_twin_fields" ~s:(c_control (expected c2)) ~m [ hexf (v @ pad); hexf (v2 @ pad) ]
      end
    end
  | 10 -> (* D49 class: settings the former value heuristic could not locate *)
    let c, _ = gen_control r in
    let c = { c with c_maxconn = zi (pick r [| 10001; 50000; 262143 |]);
                     c_maxwork = zi (pick r [| 0; 0; 1001; 5000 |]);
                     c_maxsend = zi (pick r [| 0; 10; 1001 |]);
                     c_cksumver = zi 1 } in
    let c, ctag = with_crc r c in
    run_parse ~tag:("settings_" ^ ctag) ~s:(c_control (expected c)) (enc_control c) (gen_tail r)
  | 11 -> (* malformed: truncations *)
    let c, _ = gen_control r in
    let n = pick r [| 0; 1; 8; 100; 288; 292; 295 |] in
    run_parse ~tag:"short" ~s:"-" (take n (enc_control c)) (if rbool r then rbytes r 300 else [])
  | 12 -> (* malformed: random bytes / zero sizes / non-0/1 bool bytes / wal_level out of range *)
    let c, _ = gen_control r in
    let c, _ = with_crc r c in
    let v = enc_control c in
    (match rint r 5 with
     | 0 -> run_parse ~tag:"random" ~s:"-" (rbytes r (pick r [| 296; 297; 300; 400; 8192 |])) (gen_tail r)
     | 1 -> let off = pick r [| 216; 224; 228 |] in
       run_parse ~tag:"zero_size" ~s:"-" (set_u32 v off ZA.zero) []
     | 2 -> let off = pick r [| 56; 176; 200 |] in
       run_parse ~tag:"bool_byte" ~s:"-" (set_byte v off (fun _ -> pick r [| 2; 128; 255; 0; 1 |])) []
     | 3 -> run_parse ~tag:"wal_level" ~s:"-" (set_u32 v 172 (ZA.of_string (pick r [| "3"; "4"; "4294967295"; "2147483648"; "256" |]))) []
     | _ -> run_parse ~tag:"cksum_ver" ~s:"-" (set_u32 v 252 (ZA.of_string (pick r [| "2"; "256"; "65536"; "16777216"; "4294967295" |]))) [])
  | 13 ->
    let lsn = g_lsn r (legal_segsz r) in
    emit ~fn:"formatLSN" ~tag:"lsn" ~s:(c_str (lsn_text lsn)) ~m:(c_str (formatLSN lsn)) [ zs lsn ]
  | 14 | 15 ->
    let segsz = legal_segsz r in
    let lsn = g_lsn r segsz in
    let tli = (match rint r 3 with 0 -> zi 1 | _ -> g_u r 32) in
    if rint r 8 = 0 then begin
      (* outside the property (no legal size): zero / arbitrary sizes, model vs implementation only *)
      let sz = (match rint r 3 with 0 -> zi 0 | 1 -> zz (ZA.pred (pow2 32)) | _ -> g_u r 32) in
      emit ~fn:"formatWALFilename" ~tag:"segsz_illegal" ~s:"-" ~m:(c_res c_str (formatWALFilename lsn tli sz)) [ zs lsn; zs tli; zs sz ]
    end else begin
      let s1 = c_str (wal_file_name tli (zi segsz) lsn) in
      let s2 = c_str (wal_file_name_legal tli (zi segsz) lsn) in
      if s1 <> s2 then failwith "spec: wal_file_name <> wal_file_name_legal";
      emit ~fn:"formatWALFilename" ~tag:"walname" ~s:s1 ~m:(c_res c_str (formatWALFilename lsn tli (zi segsz))) [ zs lsn; zs tli; zi segsz |> zs ]
    end
  | 16 ->
    let st = g_state r in
    emit ~fn:"DBStateString" ~tag:(if iz st >= 0 && iz st <= 6 then "state" else "state_unknown")
      ~s:(c_str (state_text st)) ~m:(c_str (dBState_String st)) [ zs st ]
  | 17 | 18 ->
    let n = pick r [| 0; 1; 2; 3; 4; 9; 32; 255; 256; 288; 600 |] in
    let data = (match rint r 6 with 0 -> zeros n | 1 -> List.init n (fun _ -> byte_of_int 255) | _ -> rbytes r n) in
    let good = za (crc32c data) in
    let exp = (match rint r 4 with
        | 0 -> ZA.logxor good (pow2 (rint r 32))
        | 1 -> za (g_u r 32)
        | _ -> good) in
    let s = c_bool (ZA.equal good exp) in
    let t = gen_tail r in
    emit ~fn:"verifyCRC32C" ~tag:(if ZA.equal good exp then "crc_match" else "crc_differ") ~s
      ~m:(c_bool (verifyCRC32C { vis = data; tail = t } (zz exp))) [ hexf data; hexf t; ZA.to_string exp ]
  | _ ->
    if k = 19 then
      emit ~fn:"makeCRC32CTable" ~tag:"table" ~s:(crc_table_spec ()) ~m:(c_list (List.map zs makeCRC32CTable)) []
    else begin
      let t = g_time r in
      emit ~fn:"pgEpochToTime" ~tag:"time" ~s:(zs t ^ ",UTC") ~m:(zs t ^ ",UTC") [ zs t ]
    end

let gen seed n = for k = 0 to n - 1 do gen_case (rng_for seed k) k done
let () = main gen
