(* C03 driver: rows formed by the Coq transcription of heap_fill_tuple, decoded by the extracted model. *)
open Model
open Util
open Value

let c_row (r : (byte list * gval) list) : string = c_map r
let c_orow (o : (byte list * gval) list option res) : string =
  c_res (function None -> "mnil" | Some r -> c_row r) o

(* schema argument: name:typid:len:num:align;...  (name in hex) *)
let col_arg (c : column) = String.concat ":" [ hexf c.c_name; zs c.c_typid; zs c.c_len; zs c.c_num; zs c.c_align ]
let cols_arg cs = match cs with [] -> "-" | _ -> String.concat ";" (List.map col_arg cs)

(* layout classes: (len, align char, typid) *)
let ch c = Char.code c
let classes = [|
  (1, ch 'c', 16); (2, ch 's', 21); (4, ch 'i', 23); (8, ch 'd', 20); (6, ch 's', 27); (12, ch 'd', 1266);
  (16, ch 'c', 2950); (64, ch 'c', 19); (-1, ch 'i', 25); (-2, ch 'c', 2275) |]
let more_classes = [|
  (1, ch 'c', 18); (4, ch 'i', 26); (4, ch 'i', 700); (4, ch 'i', 1082); (8, ch 'd', 701); (8, ch 'd', 1114); (6, ch 'i', 829);
  (8, ch 'i', 774); (16, ch 'd', 1186); (16, ch 'd', 600); (24, ch 'd', 628); (32, ch 'd', 603); (-1, ch 'i', 1043);
  (-1, ch 'i', 17); (-1, ch 'd', 25); (-1, ch 'i', 0); (-1, ch 'i', 99999); (4, ch 'i', 0);
  (* dropped columns keep attlen/attalign but have type id 0: alignments that differ from what the length alone suggests
     (dropped uuid 16/'c', tid 6/'s', an 8-byte 'i' type, name 64/'c', a 'd'-aligned varlena); seeded change C03-6 *)
  (16, ch 'c', 0); (6, ch 's', 0); (8, ch 'i', 0); (64, ch 'c', 0); (-1, ch 'd', 0); (12, ch 'i', 0);
  (* schema without attalign: the tool's catalog schemas (fallback table) *)
  (4, 0, 26); (64, 0, 19); (4, 0, 23); (4, 0, 700); (1, 0, 16); (1, 0, 18); (2, 0, 21); (8, 0, 20); (-1, 0, 25) |]

let mkcol i (len, al, typ) ~num : column =
  { c_name = bytes_of_string (Printf.sprintf "c%d" i); c_typid = zi typ; c_len = zi len; c_num = zi num; c_align = zi al }

(* payload bytes that provoke header misclassification if read at the wrong place *)
let payload r n = List.init n (fun i -> byte_of_int (if i = 0 then pick r [| 0; 1; 2; 3; 0x12; 0xff; rbyte r |] else (match rint r 6 with 0 -> 0 | _ -> 1 + rint r 255)))
let nonzero r n = List.init n (fun _ -> byte_of_int (1 + rint r 255))

(* form: 0 null 1 stored (fixed/short/cstr) 2 long 3 compressed 4 external *)
let datum_for r (c : column) (form : int) : datum =
  let len = iz c.c_len in
  if form = 0 then DNull
  else if len > 0 then DFixed (payload r len)
  else if len = -2 then DCStr (nonzero r (pick r [| 0; 1; 5; 30; 63; 64; 65; 72; 200 |]))   (* 64/65: a cstring is not a name (seeded change C03-5) *)
  else match form with
    | 1 -> DShort (payload r (pick r [| 0; 1; 2; 3; 7; 125; 126 |]))
    | 2 -> DLong (payload r (pick r [| 0; 1; 60; 124; 126; 127; 128; 252; 255; 256; 2000 |]))   (* 60,124,252: header byte 0x00 (total % 64 = 0) *)
    | 3 -> DLongC (payload r (pick r [| 5; 60; 127; 300 |]))
    | _ -> DExternal (payload r 16)

let run_row ~tag (cols : column list) (ds : datum list) r =
  let data = fill (zi 0) cols ds in
  let bm = if has_nulls ds then Some (bitmap_of ds) else None in
  let tl = if rint r 3 = 0 then rbytes r (1 + rint r 8) else [] in
  let t = mk_tuple (zi (List.length ds)) (match bm with Some b -> Some { vis = b; tail = [] } | None -> None) { vis = data; tail = tl } in
  let s = c_row (expected_row_i cols ds) in
  let m = c_orow (decodeTuple_i (Some t) cols) in
  emit ~fn:"DecodeTuple" ~tag ~s ~m
    [ (match bm with None -> "nil" | Some b -> "h" ^ hex_of_bytes b); hexf data; hexf tl; string_of_int (List.length ds); cols_arg cols ]

(* exhaustive enumeration: all schemas of <= maxc columns over the 10 classes x null patterns x varlena forms x natts *)
let exhaustive maxc r =
  let rec schemas n = if n = 0 then [ [] ] else
      List.concat_map (fun s -> List.map (fun k -> k :: s) (List.init 10 (fun i -> i))) (schemas (n - 1)) in
  for n = 1 to maxc do
    List.iter (fun sch ->
        let cols = List.mapi (fun i k -> mkcol i classes.(k) ~num:(i + 1)) sch in
        for natts = 0 to n do
          (* forms per stored column: varlena has 5 (null, short, long, compressed, external), others 2 *)
          let stored = List.filteri (fun i _ -> i < natts) cols in
          let rec forms = function
            | [] -> [ [] ]
            | (c : column) :: rest -> let nf = if iz c.c_len = -1 then 5 else 2 in
              List.concat_map (fun tl -> List.init nf (fun f -> f :: tl)) (forms rest) in
          List.iter (fun fs -> run_row ~tag:(Printf.sprintf "exh%d" n) cols (List.map2 (datum_for r) stored fs) r) (forms stored)
        done) (schemas n)
  done

let random_row r =
  let n = match rint r 5 with 0 -> rrange r 1 3 | 1 -> rrange r 30 40 | _ -> rrange r 1 12 in
  let cols = List.init n (fun i ->
      let cl = if rint r 3 = 0 then pick r more_classes else pick r classes in
      let c = mkcol i cl ~num:(if rint r 4 = 0 then 0 else i + 1) in
      if rint r 25 = 0 && i > 0 then { c with c_name = bytes_of_string "c0" } else c) in     (* duplicate column name *)
  let natts = if rint r 4 = 0 then rint r (n + 1) else n in
  let stored = List.filteri (fun i _ -> i < natts) cols in
  let nullp = rint r 4 in
  let ds = List.map (fun c -> datum_for r c (if nullp = 0 then 1 + rint r 4 else if rint r (1 + nullp) = 0 then 0 else 1 + rint r 4)) stored in
  run_row ~tag:(if n >= 30 then "rand_wide" else if natts < n then "rand_short_natts" else "rand") cols ds r

let rv_case r =
  (* ReadVarlena directly on every header form and the guard lengths *)
  let v = match rint r 9 with
    | 0 -> [] | 1 -> [ byte_of_int 1 ] | 2 -> byte_of_int 1 :: byte_of_int 0x12 :: rbytes r (pick r [| 0; 15; 16; 17; 30 |])
    | 3 -> byte_of_int 1 :: byte_of_int (pick r [| 0; 1; 2; 3; 17; 19 |]) :: rbytes r 20
    | 4 -> let n = pick r [| 1; 2; 3; 60; 127 |] in byte_of_int ((n lsl 1) lor 1) :: rbytes r (pick r [| 0; n - 2; n - 1; n; n + 3 |] |> max 0)
    | 5 -> let n = pick r [| 0; 3; 4; 5; 64; 200 |] in
      let h = n * 4 + pick r [| 0; 2 |] in
      [ byte_of_int h; byte_of_int (h lsr 8); byte_of_int (h lsr 16); byte_of_int (h lsr 24) ] @ rbytes r (pick r [| 0; n - 5; n - 4; n |] |> max 0)
    | 6 -> rbytes r (pick r [| 1; 2; 3 |]) |> List.mapi (fun i b -> if i = 0 then byte_of_int (int_of_byte b land 0xfe) else b)
    | _ -> rbytes r (rint r 24) in
  let tl = if rbool r then rbytes r 6 else [] in
  let m = c_res (fun (o, c) -> (match o with None -> "nil" | Some (p : gslice) -> "h" ^ hex_of_bytes p.vis) ^ "," ^ zs c) (readVarlena { vis = v; tail = tl }) in
  emit ~fn:"ReadVarlena" ~tag:"readvarlena" ~s:"-" ~m [ hexf v; hexf tl ]

let hostile_row r =
  (* arbitrary schema (any Len / TypID / Align / Num) on arbitrary data and bitmap: model vs implementation only *)
  let n = rrange r 0 6 in
  let cols = List.init n (fun i ->
      { c_name = bytes_of_string (Printf.sprintf "k%d" (rint r 4)); c_typid = zi (pick r [| 0; 16; 19; 20; 21; 23; 25; 26; 700; 1043; 2950; 77777 |]);
        c_len = zi (pick r [| -3; -2; -1; 0; 1; 2; 3; 4; 8; 16; 64; 100; 32767 |]);
        c_num = zi (pick r [| 0; 0; i + 1; -1; 1; 2; 9; 17; 1000 |]); c_align = zi (pick r [| 0; ch 'c'; ch 's'; ch 'i'; ch 'd'; ch 'x'; 255 |]) }) in
  (* any type id with any declared length: fixed-width decoders are handed too-short slices (repaired D30) *)
  let data = rbytes r (pick r [| 0; 1; 3; 4; 7; 8; 20; 64 |]) in
  let bm = match rint r 3 with 0 -> None | 1 -> Some [] | _ -> Some (rbytes r (rrange r 1 2)) in
  let tl = if rbool r then rbytes r 5 else [] in
  let t = mk_tuple (zi (rint r 8)) (match bm with Some b -> Some { vis = b; tail = [] } | None -> None) { vis = data; tail = tl } in
  let m = c_orow (decodeTuple_i (Some t) cols) in
  emit ~fn:"DecodeTuple" ~tag:"hostile" ~s:"-" ~m
    [ (match bm with None -> "nil" | Some b -> "h" ^ hex_of_bytes b); hexf data; hexf tl; "0"; cols_arg cols ]

let tables () =
  (* finite domains, enumerated completely *)
  for c = 0 to 255 do
    emit ~fn:"alignFromChar" ~tag:"table" ~s:"-" ~m:(zs (alignFromChar (zi c))) [ string_of_int c ]
  done;
  let lens = [ -2; -1; 0; 1; 2; 3; 4; 7; 8; 9; 16; 64 ] in
  for oid = 0 to 4200 do
    let m = c_list (List.map (fun l -> zs (typeAlign (zi oid) (zi l))) lens) in
    let inok = List.exists (fun o -> iz o = oid) fallback_ok_oids in
    let s = if inok then c_list (List.map (fun _ -> zs (pg_typalign (zi oid))) lens) else "-" in
    emit ~fn:"typeAlignRow" ~tag:"table" ~s ~m [ string_of_int oid ]
  done

let gen seed n =
  let r0 = rng_for seed (-1) in
  tables ();
  exhaustive (if n >= 100000 then 4 else if n >= 3000 then 3 else 2) r0;
  for k = 0 to n - 1 do
    let r = rng_for seed k in
    match k mod 8 with
    | 6 -> rv_case r
    | 7 -> hostile_row r
    | _ -> random_row r
  done
let () = main gen
