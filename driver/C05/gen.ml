(* C05 driver: numeric datums (short / long header, specials), column form and JSONB-embedded form.
   S comes from the abstract value (extracted Coq spec: expected / nearest_value) and is cross-checked
   against an independent exact-rational oracle written here with Zarith; M is the extracted Coq model. *)
open Model
open Util
open Value

let max_ulp = 16   (* "agrees to double precision": within 16 units in the last place of the nearest double *)

(* ---------- independent oracle: correctly rounded binary64 of n/d (n, d > 0), as a bit pattern ---------- *)
let two52 = ZA.shift_left ZA.one 52
let nearest_bits_oracle (neg : bool) (n : ZA.t) (d : ZA.t) : ZA.t =
  let sign = if neg then ZA.shift_left ZA.one 63 else ZA.zero in
  if ZA.sign n = 0 then sign else begin
    let scale e = if e >= 0 then (n, ZA.shift_left d e) else (ZA.shift_left n (-e), d) in
    let e0 = ZA.numbits n - ZA.numbits d - 53 in
    let (a, b) = scale e0 in
    let e = e0 + (ZA.numbits (ZA.div a b) - 53) in
    let e = if e < -1074 then -1074 else e in
    let (a, b) = scale e in
    let (q, r) = ZA.div_rem a b in
    let c = ZA.compare (ZA.shift_left r 1) b in
    let q = if c > 0 || (c = 0 && ZA.is_odd q) then ZA.succ q else q in
    let (q, e) = if ZA.numbits q > 53 then (ZA.shift_right q 1, e + 1) else (q, e) in
    if ZA.numbits q <= 52 then ZA.add sign q                      (* subnormal or zero, e = -1074 *)
    else if e + 1075 >= 2047 then ZA.add sign (ZA.shift_left (ZA.of_int 2047) 52)
    else ZA.add sign (ZA.add (ZA.shift_left (ZA.of_int (e + 1075)) 52) (ZA.sub q two52))
  end

let pow10k k = ZA.pow (ZA.of_int 10000) k
let exact_frac (w : int) (digits : int list) : ZA.t * ZA.t =
  let n = List.fold_left (fun a d -> ZA.add (ZA.mul a (ZA.of_int 10000)) (ZA.of_int d)) ZA.zero digits in
  let e = w - List.length digits + 1 in
  if e >= 0 then (ZA.mul n (pow10k e), ZA.one) else (n, pow10k (-e))

(* nearest double of an abstract value: the Zarith oracle, cross-checked against the extracted Coq spec
   [nearest_value] whenever that is cheap (small scaling powers: always inside the exact class) and on a
   1-in-8 sample otherwise (Coq's unary-ish [positive] arithmetic needs ~1 ms for 10000^60) *)
let cross = ref 0
let nearest_checked ?(always = false) (neg : bool) (w : int) (digits : int list) : ZA.t option =
  let (n, d) = exact_frac w digits in
  let orc = nearest_bits_oracle neg n d in
  incr cross;
  if always || !cross land 7 = 0 then begin
    let coq = zarith_of_z (b64_bits (nearest_value neg (zi w) (List.map zi digits))) in
    if ZA.equal coq orc then Some orc else None end
  else Some orc

let hex16 (x : ZA.t) = let s = ZA.format "%x" x in String.make (max 0 (16 - String.length s)) '0' ^ s

(* ---------- abstract values ---------- *)
type nv = { neg : bool; w : int; ds : int; digits : int list }
let to_num (v : nv) : numeric = NNum (v.neg, zi v.w, zi v.ds, List.map zi v.digits)

let gen_digit r : int =
  match rint r 8 with
  | 0 -> 0 | 1 -> 9999 | 2 -> 1 | 3 -> rint r 10
  | 4 | 5 -> (* both bytes non-zero and distinct *)
    let rec go () = let d = rint r 10000 in
      if d land 255 <> 0 && d lsr 8 <> 0 && d land 255 <> d lsr 8 then d else go () in go ()
  | _ -> rint r 10000

let gen_digits r : int list =
  let n = match rint r 10 with 0 -> 0 | 1 -> 1 | 2 -> 8 | 3 -> 4 | 4 -> 5 | _ -> rrange r 0 8 in
  let l = List.init n (fun _ -> gen_digit r) in
  (* leading / trailing zero groups *)
  let l = if n >= 2 && rint r 6 = 0 then 0 :: List.tl l else l in
  let l = if n >= 2 && rint r 6 = 0 then List.rev (0 :: List.tl (List.rev l)) else l in
  if n >= 1 && rint r 40 = 0 then List.map (fun _ -> 0) l else l

let gen_general r : nv =
  let w = match rint r 8 with 0 -> -16 | 1 -> 16 | 2 -> 0 | 3 -> -1 | _ -> rrange r (-16) 16 in
  let ds = match rint r 6 with 0 -> 0 | 1 -> 40 | _ -> rrange r 0 40 in
  { neg = rbool r; w; ds; digits = gen_digits r }

(* a value with at most 12 significant decimal digits and decimal exponent in [-20, 20], laid out the
   way PostgreSQL does (aligned to base 10000, optionally with its trailing zero groups stripped) *)
let gen_sig12 r : nv =
  let nsig = rrange r 1 12 in
  let s = ref ZA.zero in
  for i = 1 to nsig do
    let dg = if i = 1 then rrange r 1 9 else if rint r 5 = 0 then pick r [| 0; 9 |] else rint r 10 in
    s := ZA.add (ZA.mul !s (ZA.of_int 10)) (ZA.of_int dg) done;
  let x = rrange r (-20) (20 - nsig + 1) in               (* value = s * 10^x *)
  let q = if x >= 0 then x / 4 else - ((- x + 3) / 4) in
  let rr = x - 4 * q in
  let n = ZA.mul !s (ZA.pow (ZA.of_int 10) rr) in
  let rec groups n acc = if ZA.sign n = 0 then acc else
      let (a, b) = ZA.div_rem n (ZA.of_int 10000) in groups a (ZA.to_int b :: acc) in
  let dg = groups n [] in
  let rec strip l e = match List.rev l with 0 :: rest when rest <> [] -> strip (List.rev rest) (e + 1) | _ -> (l, e) in
  let (dg, e) = if rint r 4 <> 0 then strip dg q else (dg, q) in
  let (dg, e) = if rint r 8 = 0 then (dg @ [0], e - 1) else (dg, e) in     (* explicit trailing zero group *)
  let dg = if rint r 8 = 0 then 0 :: dg else dg in                          (* leading zero group (same value) *)
  let w = e + List.length dg - 1 in
  { neg = rbool r; w; ds = (if x < 0 then min 40 (- x) else 0); digits = dg }

(* g digit groups, all but the last 1..3 of them zero (leading zero groups), scaled so that the value
   stays in the exact class: exercises the digit loop / length fields beyond 8 groups with a strict S *)
let gen_padded ?(wmax = 32767) r (g : int) : nv =
  let nsig = min g (rrange r 1 3) in
  let sigd = List.init nsig (fun i -> if i = 0 then 1 + rint r 9000 else gen_digit r) in
  let digits = List.init (g - nsig) (fun _ -> 0) @ sigd in
  let e = rrange r (-5) (min 5 (wmax - (g - 1))) in
  { neg = rbool r; w = e + g - 1; ds = (if e < 0 then min 40 (-4 * e) else 0); digits }

let fits_short v = v.w >= -64 && v.w <= 63 && v.ds >= 0 && v.ds <= 63

(* ---------- running the model / printing ---------- *)
let gs v t : gslice = { vis = v; tail = t }
let c_model (r : gval res) : string = c_res c_gval r

let s_strict (v : nv) : string =
  (* nearest double when the value is in the exact class (or has no digits); "-" otherwise *)
  let num = to_num v in
  if v.digits = [] then c_gval (expected num)
  else if in_exact_class num then
    (match nearest_checked ~always:true v.neg v.w v.digits with
     | Some b -> let s = c_gval (expected num) in
       if s = "f64:" ^ hex16 b then s else "spec-and-oracle-disagree"
     | None -> "spec-and-oracle-disagree")
  else "-"

let bits_of_result (s : string) : ZA.t option =
  if String.length s = 20 && String.sub s 0 4 = "f64:" then Some (ZA.of_string_base 16 (String.sub s 4 16)) else None

let near_verdict (res : string) (nearest : ZA.t) : string =
  match bits_of_result res with
  | Some b when ZA.leq (ZA.abs (ZA.sub b nearest)) (ZA.of_int max_ulp) -> "near"
  | _ -> res

let rtail r = if rint r 3 = 0 then rbytes r (1 + rint r 6) else []

let emit_column ~tag r (v : nv) (long : bool) =
  let num = to_num v in
  let bytes = if long then enc_long num else enc_short num in
  let t = rtail r in
  let m = c_model (decodeNumeric (gs bytes t)) in
  emit ~fn:"DecodeNumeric" ~tag ~s:(s_strict v) ~m [ hexf bytes; hexf t ];
  if v.digits <> [] then
    match nearest_checked v.neg v.w v.digits with
    | Some nb ->
      emit ~fn:"DecodeNumericNear" ~tag:(tag ^ "_near") ~s:"near" ~m:(near_verdict m nb)
        [ hexf bytes; hexf t; hex16 nb; string_of_int max_ulp ]
    | None -> emit ~fn:"DecodeNumericNear" ~tag:(tag ^ "_near") ~s:"spec-and-oracle-disagree" ~m [ hexf bytes; hexf t; "0"; "0" ]

let emit_jsonb ?(force1b = false) ~tag r (v : nv) (long : bool) =
  let num = to_num v in
  let content = if long then enc_long num else enc_short num in
  let one_byte = v.digits <> [] && List.length content <= 126 && (force1b || rint r 4 = 0) in
  let img = if one_byte then enc_varlena1 content else enc_varlena4 content in
  let extra = if rint r 4 = 0 then rbytes r (1 + rint r 5) else [] in
  let t = rtail r in
  let m = c_model (decodeJNumeric (gs (img @ extra) t)) in
  emit ~fn:"DecodeJNumeric" ~tag:(tag ^ (if one_byte then "_1b" else "_4b")) ~s:(s_strict v) ~m [ hexf (img @ extra); hexf t ]

let special_of i = match i with 0 -> NNaN | 1 -> NPInf | _ -> NNInf

(* spec-side reading of an arbitrary datum (header sweep, malformed stream): S only when the digits are
   proper base-10000 digits and the value is in the exact class *)
let s_of_datum ~(near : bool) (d : byte list) : string * (ZA.t option) =
  let exact_eval neg w digits = nearest_value neg w digits in
  if List.length d < 2 then (c_gval (spec_decode exact_eval d), None) else
  let hw = int_of_byte (List.nth d 0) + 256 * int_of_byte (List.nth d 1) in
  let body = List.tl (List.tl d) in
  let reading =
    match spec_header (zi hw) with
    | HShort (neg, w, _) -> Some (neg, iz w, List.map iz (digits_of body))
    | HLong (neg, _) ->
      if List.length body < 2 then None
      else let ww = int_of_byte (List.nth body 0) + 256 * int_of_byte (List.nth body 1) in
        Some (neg, (if ww >= 32768 then ww - 65536 else ww), List.map iz (digits_of (List.tl (List.tl body))))
    | _ -> None in
  match reading with
  | None -> (c_gval (spec_decode exact_eval d), None)          (* specials, too-short long form *)
  | Some (_, _, []) -> (c_gval (spec_decode exact_eval d), None)
  | Some (neg, w, digits) ->
    if List.exists (fun x -> x >= 10000) digits then ("-", None) else
    let s = if exact_classb (zi w) (List.map zi digits) then begin
        (* Coq spec value, cross-checked against the oracle *)
        let (n, dd) = exact_frac w digits in
        let s = c_gval (spec_decode exact_eval d) in
        if s = "f64:" ^ hex16 (nearest_bits_oracle neg n dd) then s else "spec-and-oracle-disagree" end
      else "-" in
    let nb = if near && abs w <= 70 then nearest_checked neg w digits else None in
    (s, nb)

let run_datum ~tag ?(near = true) (d : byte list) (t : byte list) =
  let m = c_model (decodeNumeric (gs d t)) in
  let (s, nb) = s_of_datum ~near d in
  emit ~fn:"DecodeNumeric" ~tag ~s ~m [ hexf d; hexf t ];
  match nb with
  | Some nb when near ->
    emit ~fn:"DecodeNumericNear" ~tag:(tag ^ "_near") ~s:"near" ~m:(near_verdict m nb) [ hexf d; hexf t; hex16 nb; string_of_int max_ulp ]
  | _ -> ()

(* ---------- the header sweep: all 65 536 header words in front of fixed bodies ---------- *)
let le16 x = [ byte_of_int (x land 255); byte_of_int (x lsr 8) ]
let bodyA = le16 2 @ le16 0x0102 @ le16 0x1a2b     (* short: digits 2,258,6699; long: weight 2, digits 258,6699 *)
let bodyB = le16 1234                               (* short: one digit (exact class for |w| <= 5); long: weight only *)
let bodyC = le16 0xfffd @ le16 7                    (* long: weight -3, digit 7; short: a digit > 9999 *)
let bodyD = []                                      (* header only *)
let sweep () =
  (* all 65 536 header words in front of body A (near-check on its short headers); body B in front of all
     32 768 short/special headers and a 1-in-16 sample of the long ones *)
  for h = 0 to 65535 do run_datum ~tag:"sweepA" ~near:(h land 0xC000 = 0x8000) (le16 h @ bodyA) [] done;
  for h = 0 to 65535 do
    if h >= 0x8000 || h land 15 = (h lsr 4) land 15 then run_datum ~tag:"sweepB" ~near:false (le16 h @ bodyB) [] done;
  (* a 1-in-64 sample (every value of the high 10 bits, low bits varying) in front of two more bodies *)
  for i = 0 to 1023 do
    let h = 64 * i + (i * 37) land 63 in
    run_datum ~tag:"sweepC" ~near:false (le16 h @ bodyC) [];
    run_datum ~tag:"sweepD" ~near:false (le16 h @ bodyD) [] done

(* ---------- random stream ---------- *)
let take n l = List.filteri (fun i _ -> i < n) l

let gen_case r k =
  match k mod 16 with
  | 0 | 1 | 2 -> let v = gen_sig12 r in
    if fits_short v then emit_column ~tag:"sig12_short" r v false else emit_column ~tag:"sig12_long" r v true
  | 3 -> emit_column ~tag:"sig12_long" r (gen_sig12 r) true
  | 4 | 5 -> emit_column ~tag:"gen_short" r (gen_general r) false
  | 6 -> if rint r 3 = 0 then begin
      (* 9..60 digit groups (leading zero groups), column form, both headers *)
      let v = gen_padded r (pick r [| 9; 10; 16; 17; 31; 32; 33; 60 |]) in
      emit_column ~tag:"padded_many" r v (not (fits_short v) || rbool r) end
    else emit_column ~tag:"gen_long" r (gen_general r) true
  | 7 -> (* long form with weights/dscales a short header cannot hold *)
    let v = gen_general r in
    let v = { v with w = pick r [| -17; 17; 64; -65; 70; -70; 63; -64 |]; ds = pick r [| 64; 100; 16383; 41; 0x1555 |] } in
    emit_column ~tag:"gen_long_wide" r v true
  | 8 -> emit_jsonb ~tag:"jsonb_sig12" r (gen_sig12 r) (rint r 3 = 0)
  | 9 -> (match rint r 4 with
      | 0 -> (* 1-byte varlena header with total length 65..127 (length byte >= 0x80) *)
        let v = gen_padded ~wmax:63 r (pick r [| 31; 32; 40; 61; 62 |]) in
        emit_jsonb ~force1b:true ~tag:"jsonb_padded" r v false
      | 1 -> (* 4-byte varlena header with total length > 255 (second length byte in use) *)
        let v = gen_padded r (pick r [| 125; 126; 127; 128; 200 |]) in
        emit_jsonb ~tag:"jsonb_padded_big" r v true
      | _ -> let v = gen_general r in emit_jsonb ~tag:"jsonb_gen" r v (rint r 3 = 0))
  | 10 -> (* specials, column and JSONB form *)
    let sp = special_of (rint r 3) in
    let bytes = enc_short sp in
    let s = c_gval (expected sp) in
    if rbool r then begin
      let t = rtail r in
      emit ~fn:"DecodeNumeric" ~tag:"special" ~s ~m:(c_model (decodeNumeric (gs bytes t))) [ hexf bytes; hexf t ] end
    else begin
      let img = enc_varlena4 bytes in
      emit ~fn:"DecodeJNumeric" ~tag:"special_jsonb" ~s ~m:(c_model (decodeJNumeric (gs img []))) [ hexf img; "-" ] end
  | 11 -> (* short header at the weight extremes, all three sign/weight-sign combinations *)
    let v = gen_general r in
    let v = { v with w = pick r [| -64; -63; -33; -32; -2; -1; 0; 1; 31; 32; 62; 63 |]; ds = pick r [| 0; 1; 31; 32; 63 |] } in
    emit_column ~tag:"short_edges" r v false
  | 12 -> (* computeNumeric directly: wider weights, sign argument, longer digit strings *)
    let n = pick r [| 1; 2; 3; 8; 9; 20; 77; 78; 80 |] in
    let digits = List.init n (fun _ -> if rint r 10 = 0 then rint r 65536 else gen_digit r) in
    let w = match rint r 6 with 0 -> rrange r (-32768) 32767 | 1 -> pick r [| 76; 77; 78; -77; -78; -80; 100; -100 |] | _ -> rrange r (-20) 20 in
    let sign = pick r [| 1; -1; 1; -1; 0; 2 |] in
    let m = "f64:" ^ hex_pad 16 (b64_bits (computeNumeric (List.map zi digits) (zi w) (zi sign))) in
    let s = if (sign = 1 || sign = -1) && List.for_all (fun d -> d < 10000) digits
               && exact_classb (zi w) (List.map zi digits)
      then (match nearest_checked ~always:true (sign < 0) w digits with Some b -> "f64:" ^ hex16 b | None -> "spec-and-oracle-disagree") else "-" in
    emit ~fn:"ComputeNumeric" ~tag:"compute" ~s ~m [ String.concat "," (List.map string_of_int digits); string_of_int w; string_of_int sign ]
  | 13 -> (* malformed datums: truncations, odd lengths, random bytes *)
    let v = gen_general r in
    let bytes = if rbool r then enc_short (to_num v) else enc_long (to_num v) in
    let d = match rint r 4 with
      | 0 -> take (pick r [| 0; 1; 2; 3; 4; 5 |]) bytes
      | 1 -> bytes @ [ byte_of_int (1 + rint r 255) ]
      | 2 -> rbytes r (pick r [| 0; 1; 2; 3; 4; 5; 6; 7; 9; 16 |])
      | _ -> let n = List.length bytes in if n > 0 then take (n - 1) bytes else bytes in
    let t = if rbool r then rbytes r 8 else [] in
    emit ~fn:"DecodeNumeric" ~tag:"malformed" ~s:"-" ~m:(c_model (decodeNumeric (gs d t))) [ hexf d; hexf t ]
  | 14 -> (* malformed JSONB wrappers: boundary-valued length fields, the four low-bit patterns *)
    let v = gen_general r in
    let content = enc_short (to_num v) in
    let len = List.length content in
    let d = match rint r 6 with
      | 0 -> let n = pick r [| 0; 3; 4; 5; 4 + len - 1; 4 + len + 1; 0x3fffffff |] in
        List.map byte_of_int [ (n * 4) land 255; ((n * 4) lsr 8) land 255; ((n * 4) lsr 16) land 255; ((n * 4) lsr 24) land 255 ] @ content
      | 1 -> let n = pick r [| 0; 1; 2; 1 + len - 1; 1 + len + 1; 127 |] in byte_of_int (n * 2 + 1) :: content
      | 2 -> take (pick r [| 0; 1; 2; 3 |]) (enc_varlena4 content)
      | 3 -> (match enc_varlena4 content with b0 :: rest -> byte_of_int (int_of_byte b0 lor 2) :: rest | [] -> [])
      | 4 -> enc_varlena1 (take 2 content)                                  (* 3-byte datum: below the 4-byte guard *)
      | _ -> rbytes r (pick r [| 4; 5; 8; 12 |]) in
    let t = if rbool r then rbytes r 8 else [] in
    emit ~fn:"DecodeJNumeric" ~tag:"malformed_jsonb" ~s:"-" ~m:(c_model (decodeJNumeric (gs d t))) [ hexf d; hexf t ]
  | _ -> (* the two inner decoders called directly (header argument independent of the bytes) *)
    let v = gen_general r in
    if rbool r then begin
      let d = match rint r 4 with 0 -> take (pick r [| 0; 1; 2; 3 |]) (enc_short (to_num v)) | _ -> enc_short (to_num v) in
      let h = if rbool r then rint r 65536 else 0x8000 lor (rint r 0x4000) in
      emit ~fn:"DecodeNumericShort" ~tag:"direct_short" ~s:"-" ~m:(c_model (decodeNumericShort (gs d []) (zi h))) [ hexf d; "-"; string_of_int h ] end
    else begin
      let d = match rint r 4 with 0 -> take (pick r [| 0; 1; 3; 4; 5 |]) (enc_long (to_num v)) | 1 -> rbytes r (pick r [| 4; 6; 7; 10 |]) | _ -> enc_long (to_num v) in
      emit ~fn:"DecodeNumericLong" ~tag:"direct_long" ~s:"-" ~m:(c_model (decodeNumericLong (gs d []))) [ hexf d; "-" ] end

(* the random stream comes first: its cases carry a strict S far more often than the sweep's, and
   bin/check keeps only the first 40 mismatches when it looks for an input with I <> S *)
let gen seed n =
  for k = 0 to n - 1 do gen_case (rng_for seed k) k done;
  sweep ()
let () = main gen
