(* C17 driver: WAL pages / segments / directories.  Formats must agree with harness/c17.go. *)
open Model
open Util

let zb (x : ZA.t) : z = z_of_zarith x
let zint (x : z) : int = iz x

(* ---------------------------------------------------------------- rendering *)
let c_block (b : wALBlockRef) : string =
  let rel = match b.b_rnode with
    | None -> "nil"
    | Some rn -> zs rn.rn_spc ^ "/" ^ zs rn.rn_db ^ "/" ^ zs rn.rn_rel in
  c_rec [ "id", zs b.b_id; "fork", zs b.b_fork; "flags", zs b.b_flags; "rel", rel; "blk", zs b.b_blkno ]
let c_blocks bs = c_list (List.map c_block bs)

(* mask character of a record: bit 0 = rmgr name observable, bit 1 = operation name observable *)
let mask_of (rmid : z) (info : z) : int =
  (match pg_rmgr_name rmid with Some _ -> 1 | None -> 0) + (match pg_op_name rmid info with Some _ -> 2 | None -> 0)
let mask_string (rs : wALRecord list) : string =
  match rs with [] -> "-" | _ -> String.concat "" (List.map (fun r -> string_of_int (mask_of r.r_rmid r.r_info)) rs)
let mask_at (mask : string) (i : int) : int =
  if mask <> "-" && i < String.length mask then Char.code mask.[i] - 48 else 3

let c_wrec (m : int) (r : wALRecord) : string =
  c_rec [ "len", zs r.r_totlen; "xid", zs r.r_xid; "prev", zs r.r_prev; "info", zs r.r_info; "rmid", zs r.r_rmid;
          "crc", zs r.r_crc; "lsn", zs r.r_lsn;
          "rm", (if m land 1 <> 0 then c_str r.r_rmname else "?");
          "op", (if m land 2 <> 0 then c_str r.r_op else "?");
          "blocks", c_blocks r.r_blocks ]
let c_wrecs (mask : string) (rs : wALRecord list) : string = c_list (List.mapi (fun i r -> c_wrec (mask_at mask i) r) rs)

let c_fuel f r = match r with Panic -> "panic" | Ok None -> "out-of-fuel" | Ok (Some x) -> f x

let c_page mask r = c_fuel (function PErrSmall -> "err:too_small" | PErrMagic -> "err:bad_magic" | PRecs l -> c_wrecs mask l) r
let c_file mask r = c_fuel (function FErrSmall -> "err:too_small" | FRecs l -> c_wrecs mask l) r
let c_status = function TCommit -> "COMMIT" | TAbort -> "ABORT" | TInProgress -> "IN_PROGRESS"
let c_sorted (xs : string list) = c_list (List.sort compare xs)
let c_ops (m : (byte list * z) list) = c_sorted (List.map (fun (k, v) -> c_str k ^ ":" ^ zs v) m)
let c_tables (m : ((z * z) * z) list) = c_sorted (List.map (fun ((d, r), v) -> zs d ^ "/" ^ zs r ^ ":" ^ zs v) m)
let c_txns (l : transactionInfo list) = c_list (List.map (fun t -> zs t.t_xid ^ ":" ^ c_status t.t_status ^ ":" ^ zs t.t_ops) l)
let c_summary ~segments ~records ~first ~last ~ops ~txns ~tables =
  c_rec [ "segments", segments; "records", records; "first", c_str first; "last", c_str last;
          "ops", ops; "txns", txns; "tables", tables ]

(* ---------------------------------------------------------------- (rmid, info) pools *)
let all_pairs = List.concat (List.init 256 (fun r -> List.init 256 (fun i -> (r, i))))
let is_some = function Some _ -> true | None -> false
(* names fully specified by PostgreSQL and reported correctly by the tool *)
let clean_pairs = Array.of_list (List.filter (fun (r, i) ->
    is_some (pg_rmgr_name (zi r)) && is_some (pg_op_name (zi r) (zi i))
    && not (kf_rmgr_name (zi r)) && not (kf_op_name (zi r) (zi i))) all_pairs)
(* no known finding, but PostgreSQL may be silent about one of the names *)
let nokf_pairs = Array.of_list (List.filter (fun (r, i) -> not (kf_rmgr_name (zi r)) && not (kf_op_name (zi r) (zi i))) all_pairs)
let kf_pairs = Array.of_list (List.filter (fun (r, i) -> kf_rmgr_name (zi r) || kf_op_name (zi r) (zi i)) all_pairs)
let xact_pairs = [| (1, 0x00); (1, 0x20); (1, 0x30); (1, 0x40); (1, 0x10); (1, 0x50); (1, 0x01); (1, 0x80); (1, 0xA0) |]

type names_mode = Clean | NoKF | AnyNames

let gen_pair r mode : int * int =
  match mode with
  | Clean -> if rint r 4 = 0 then pick r xact_pairs else pick r clean_pairs
  | NoKF -> if rint r 3 = 0 then pick r nokf_pairs else pick r clean_pairs
  | AnyNames -> (match rint r 4 with 0 -> pick r kf_pairs | 1 -> (rbyte r, rbyte r) | _ -> pick r clean_pairs)

(* ---------------------------------------------------------------- records *)
let gen_u r bits = zb (if rint r 3 = 0 then ru r bits else rdistinct r bits)

let gen_block r (first : bool) (prev_rel : (z * z) * z) : sblock =
  let img = if rint r 3 = 0 then
      let hole = rbool r in
      Some { i_len = zi (rint r 300); i_hole_off = zi (rint r 8192); i_info = zi (rbyte r);
             i_hole_len = if hole then Some (zi (rint r 8192)) else None }
    else None in
  let samerel = (not first) && rint r 3 = 0 in
  let rel = if samerel then prev_rel else
      (* shared catalogs live in the global tablespace with database OID 0 (1664/0/1260 pg_authid, 1664/0/1262 pg_database):
         references to them count in the per-relation tally like any other (seeded change C17-8) *)
      if rint r 3 = 0 then ((zi 1664, zi 0), zi (pick r [| 1260; 1262; 1213; 1214 |])) else
      ((zb (rdistinct r 32), (if rint r 4 = 0 then zi (1 + rint r 3) else zb (rdistinct r 32))),
       (if rint r 8 = 0 then zi 0 else if rint r 3 = 0 then zi (16384 + rint r 3) else zb (rdistinct r 32))) in
  let hasdata = rbool r in
  { k_id = zi (if first then rint r 3 else rint r 33); k_fork = zi (pick r [| 0; 0; 1; 2; 3; 15 |]); k_image = img;
    k_hasdata = hasdata; k_willinit = rint r 4 = 0; k_samerel = samerel; k_rnode = rel;
    k_blkno = zb (rdistinct r 32); k_datalen = if hasdata then zi (rint r 200) else zi 0 }

(* a record with [nblocks] block references whose total length is as close to [target] as the format allows *)
let gen_rec r ~(mode : names_mode) ~(nblocks : int) ~(xid_pool : z array) ~(target : int) : xrec =
  let (rmid, info) = gen_pair r mode in
  let rec mk i prev acc = if i >= nblocks then List.rev acc else
      let b = gen_block r (i = 0) prev in mk (i + 1) b.k_rnode (b :: acc) in
  let blocks = mk 0 ((zi 0, zi 0), zi 0) [] in
  let origin = if rint r 10 = 0 then Some (zb (rdistinct r 16)) else None in
  let toplevel = if rint r 10 = 0 then Some (zb (rdistinct r 32)) else None in
  let base = { x_xid = (if rint r 5 = 0 then gen_u r 32 else pick r xid_pool); x_prev = zb (rdistinct r 64);
               x_info = zi info; x_rmid = zi rmid; x_pad = (if rint r 4 = 0 then zb (rdistinct r 16) else zi 0);
               x_crc = zb (rdistinct r 32); x_blocks = blocks; x_origin = origin; x_toplevel = toplevel;
               x_main = None; x_payload = [] } in
  let fixed = zint (x_totlen base) in
  let rest = target - fixed in
  if rest <= 0 then (if nblocks = 0 && target <= 24 then { base with x_origin = None; x_toplevel = None } else base)
  else if rest = 1 then { base with x_payload = rbytes r 1 }
  else if rest <= 257 && rint r 4 <> 0 then
    { base with x_main = Some (false, zi (rest - 2)); x_payload = rbytes r (rest - 2) }
  else if rest >= 5 then
    { base with x_main = Some (true, zi (rest - 5)); x_payload = rbytes r (rest - 5) }
  else { base with x_main = Some (false, zi (rest - 2)); x_payload = rbytes r (rest - 2) }

(* ---------------------------------------------------------------- pages and segments *)
let magics = [| 0xD10D; 0xD110; 0xD113 |]
let align8i n = (n + 7) land (lnot 7)

type seg_mode = { names : names_mode; blocks : bool; straddle : bool }

let junk_page r : byte list =
  match rint r 3 with
  | 0 -> List.init 8192 (fun _ -> byte_of_int 0)
  | 1 -> let b = rbytes r 8192 in
    (* magic below 0xD000 *)
    (match b with _ :: _ :: rest -> byte_of_int (rbyte r) :: byte_of_int (rint r 0xD0) :: rest | l -> l)
  | _ -> (* a formerly valid-looking page whose magic is off by a little *)
    let m = pick r [| 0xD113 - 0x200; 0xCFFF; 0x13D1; 0x0000; 0xD200; 0xFFFF |] in
    byte_of_int (m land 255) :: byte_of_int (m lsr 8) :: rbytes r 8190

(* lay records over [npages] pages the way the server does: 8-aligned starts, a record that does not
   fit continues on the following page(s) behind their headers (xlp_rem_len, XLP_FIRST_IS_CONTRECORD) *)
let gen_segment r ~(npages : int) ~(mode : seg_mode) ~(xid_pool : z array) : seg_item list =
  let segaddr = ZA.mul (ZA.of_int 8192) (if rint r 4 = 0 then ZA.of_int (rint r 5) else ZA.shift_right (rbits r 50) 0) in
  let segaddr = if rint r 16 = 0 then ZA.sub (ZA.shift_left ZA.one 64) (ZA.of_int (8192 * npages)) else segaddr in
  let tli = zb (if rint r 3 = 0 then ZA.of_int (1 + rint r 3) else rdistinct r 32) in
  let magic = pick r magics in
  let sysid = zb (rdistinct r 64) in
  let carry = ref 0 in
  let dense = rint r 8 = 0 in     (* many small records per page (slow in the list-based model): 1 segment in 8 *)
  let strad_done = ref false in
  let items = ref [] in
  for i = 0 to npages - 1 do
    if !carry = 0 && i > 0 && rint r 8 = 0 then items := Inl (junk_page r) :: !items
    else begin
      let long = if i = 0 then rint r 8 <> 0 else rint r 6 = 0 in
      let hdr = if long then 40 else 24 in
      let cont = !carry > 0 in
      let remlen = !carry in
      let contlen, pos0 =
        if cont then (let q = align8i (hdr + remlen) in if q >= 8192 then (8192 - hdr, 8192) else (q - hdr, q)) else (0, hdr) in
      if cont then carry := (if hdr + remlen > 8192 then remlen - (8192 - hdr) else 0);
      let recs = ref [] in
      let pos = ref pos0 in
      let stop = ref (pos0 + 24 > 8192) in
      (* a page may also be left empty (only zero fill behind the header) *)
      if (not !stop) && rint r 12 = 0 then stop := true;
      while not !stop do
        let room = 8192 - !pos in
        let target = match rint r 12 with
          | 0 -> 24
          | 1 -> room                                    (* ends exactly at the page end *)
          | 2 -> if room - 24 >= 24 then room - 24 else 24   (* next header just fits *)
          | 3 -> if room - 16 >= 24 then room - 16 else 26   (* next header would straddle *)
          | 4 -> room + 8 * (1 + rint r 40)              (* crosses the page end *)
          | 5 -> room + (8192 - 24) + 8 * rint r 3       (* continuation fills (almost) a whole short page *)
          | 6 -> pick r [| 16000; 15999; 12000; 9000 |]
          | 7 -> 26 + rint r 40
          | 8 -> 24 + rint r 400
          | _ -> if dense then 24 + rint r 300 else 400 + rint r 4000 in
        let target = if target = 25 then 26 else if target > 16000 then 16000 else if target < 24 then 24 else target in
        let nblocks = if mode.blocks && rint r 2 = 0 then 1 + rint r 4 else 0 in
        let x = gen_rec r ~mode:mode.names ~nblocks ~xid_pool ~target in
        let t = zint (x_totlen x) in
        recs := x :: !recs;
        if !pos + t > 8192 then (carry := !pos + t - 8192; stop := true)
        else begin
          pos := align8i (!pos + t);
          if !pos + 24 > 8192 then begin
            stop := true;
            if mode.straddle && !pos < 8192 && not !strad_done then begin
              (* D55: a record whose 24-byte header straddles the page end *)
              let x = gen_rec r ~mode:mode.names ~nblocks:0 ~xid_pool ~target:(24 + 8 * rint r 20) in
              recs := x :: !recs; strad_done := true;
              carry := !pos + zint (x_totlen x) - 8192
            end
          end
          else if rint r 10 = 0 then stop := true
        end
      done;
      let pg = { p_magic = zi magic; p_info_hi = zi (pick r [| 0; 0; 4; 8; 12 |]); p_long = long; p_cont = cont;
                 p_tli = tli; p_addr = zb (ZA.add segaddr (ZA.of_int (8192 * i))); p_remlen = zi remlen;
                 p_hpad = (if rint r 4 = 0 then zb (rdistinct r 32) else zi 0); p_sysid = sysid;
                 p_segsize = zi 16777216; p_blcksz = zi 8192;
                 p_contbytes = (if cont then List.map (fun b -> if int_of_byte b = 0 then byte_of_int 1 else b) (rbytes r contlen) else []);
                 p_recs = List.rev !recs } in
      items := Inr pg :: !items
    end
  done;
  List.rev !items

let seg_kf (items : seg_item list) : string =
  let pages = List.filter_map (function Inr p -> Some p | Inl _ -> None) items in
  let recs = List.concat_map (fun p -> p.p_recs) pages in
  if List.exists kf_straddle pages then "C17-straddle"
  else if List.exists kf_blockrefs recs then "C17-blockrefs"
  else if List.exists kf_names recs then "C17-names"
  else "-"

let pick_mode r : seg_mode * string =
  match rint r 10 with
  | 0 | 1 -> ({ names = AnyNames; blocks = false; straddle = false }, "names")
  | 2 | 3 -> ({ names = Clean; blocks = true; straddle = false }, "blocks")
  | 4 -> ({ names = Clean; blocks = false; straddle = true }, "straddle")
  | 5 | 6 -> ({ names = NoKF; blocks = false; straddle = false }, "nokf")
  | _ -> ({ names = Clean; blocks = false; straddle = false }, "clean")

let xid_pool r : z array =
  Array.init (1 + rint r 5) (fun i -> if i = 0 && rint r 2 = 0 then zi 0 else if rint r 2 = 0 then zi (700 + rint r 6) else zb (rdistinct r 32))

let rtail r = if rint r 3 = 0 then rbytes r (pick r [| 1; 24; 100 |]) else []

(* ---------------------------------------------------------------- case families *)
let case_page r k =
  let mode, mtag = pick_mode r in
  let items = gen_segment r ~npages:(1 + rint r 3) ~mode ~xid_pool:(xid_pool r) in
  (* take the last WAL page of a short segment so that continuation pages occur, too *)
  let pages = List.filter_map (function Inr p -> Some p | Inl _ -> None) items in
  let pg = List.nth pages (List.length pages - 1) in
  let v = enc_page pg in
  let t = rtail r in
  let exp = expected_page pg in
  let mask = mask_string exp in
  let base = zi (8192 * rint r 4) in
  let kf = seg_kf [ Inr pg ] in
  let tag = "page_" ^ mtag ^ (if pg.p_cont then "_cont" else "") ^ (if pg.p_recs = [] then "_norecs" else "") in
  emit ~fn:"ParseWALPage" ~tag ~kf ~s:(c_wrecs mask exp) ~m:(c_page mask (parseWALPage { vis = v; tail = t } base))
    [ hexf v; hexf t; zs base; mask ];
  if k mod 4 = 0 then begin
    let h = parsePageHeader { vis = v; tail = t } in
    let s = c_rec [ "magic", zs pg.p_magic; "info", string_of_int ((if pg.p_cont then 1 else 0) + (if pg.p_long then 2 else 0) + zint pg.p_info_hi);
                    "tli", zs pg.p_tli; "addr", zs pg.p_addr; "rem", zs pg.p_remlen;
                    "sysid", (if pg.p_long then zs pg.p_sysid else "0"); "seg", (if pg.p_long then zs pg.p_segsize else "0");
                    "blcksz", (if pg.p_long then zs pg.p_blcksz else "0") ] in
    let m = c_res (fun h -> c_rec [ "magic", zs h.h_magic; "info", zs h.h_info; "tli", zs h.h_tli; "addr", zs h.h_pageaddr;
                                    "rem", zs h.h_remlen; "sysid", zs h.h_sysid; "seg", zs h.h_segsize; "blcksz", zs h.h_blcksz ]) h in
    emit ~fn:"ParsePageHeader" ~tag:"hdr_valid" ~s ~m [ hexf v; hexf t ]
  end

let case_segment r k =
  let mode, mtag = pick_mode r in
  let npages = match rint r 6 with 0 -> 1 | 1 -> 2 | 2 -> 8 | _ -> 1 + rint r 5 in
  let items = gen_segment r ~npages ~mode ~xid_pool:(xid_pool r) in
  let trailing = match rint r 4 with 0 -> rbytes r (pick r [| 1; 39; 40; 4000; 8191 |]) | _ -> [] in
  let v = enc_segment items trailing in
  let t = rtail r in
  let exp = expected_segment items in
  let mask = mask_string exp in
  let kf = seg_kf items in
  emit ~fn:"ParseWALFile" ~tag:("seg_" ^ mtag ^ (if trailing <> [] then "_trail" else "")) ~kf
    ~s:(c_wrecs mask exp) ~m:(c_file mask (parseWALFile { vis = v; tail = t })) [ hexf v; hexf t; mask ]

(* --- directories --- *)
let hexname r n = String.init n (fun _ -> "0123456789ABCDEF".[rint r 16])
let seg_name r (i : int) = Printf.sprintf "%08X%08X%08X" 1 (rint r 2) i
type dent = { name : string; kind : char; content : byte list; items : seg_item list }

let gen_dir r ~(mode : seg_mode) : dent list =
  let pool = xid_pool r in
  let nseg = 1 + rint r 4 in
  let segs = List.init nseg (fun i ->
      let items = gen_segment r ~npages:(1 + rint r 3) ~mode ~xid_pool:pool in
      { name = seg_name r (i * 3 + rint r 3); kind = 'f'; content = enc_segment items (if rint r 5 = 0 then rbytes r 100 else []); items }) in
  (* distinct names *)
  let segs = List.sort_uniq (fun a b -> compare a.name b.name) segs in
  let other = List.filter (fun _ -> rint r 2 = 0) [
      { name = "00000002.history"; kind = 'f'; content = bytes_of_string "1\t0/3000000\tno recovery target specified\n"; items = [] };
      { name = seg_name r 77 ^ ".partial"; kind = 'f'; content = enc_segment (gen_segment r ~npages:1 ~mode ~xid_pool:pool) []; items = [] };
      { name = "archive_status"; kind = 'd'; content = []; items = [] };
      { name = hexname r 23; kind = 'f'; content = enc_segment (gen_segment r ~npages:1 ~mode ~xid_pool:pool) []; items = [] };
      { name = hexname r 25; kind = 'f'; content = enc_segment (gen_segment r ~npages:1 ~mode ~xid_pool:pool) []; items = [] };
      { name = "000000010000000000000001.00000028.backup"; kind = 'f'; content = bytes_of_string "START WAL LOCATION\n"; items = [] };
      { name = "0000000A00000000000000FF"; kind = 'd'; content = []; items = [] };       (* a directory named like a segment *)
      { name = "0000000B00000000000000FF"; kind = 'l'; content = []; items = [] };       (* unreadable (dangling link) *)
      { name = "0000000C00000000000000FF"; kind = 'f'; content = rbytes r (pick r [| 0; 1; 2; 10; 39 |]); items = [] }; (* too short *)
      { name = "xlogtemp.12345"; kind = 'f'; content = rbytes r 50; items = [] } ] in
  shuffle r (segs @ other)

let dir_arg (d : dent list) : string =
  match d with [] -> "-" | _ ->
    String.concat ";" (List.map (fun e -> hex_of_string e.name ^ ":" ^ String.make 1 e.kind ^ ":" ^ hexf e.content) d)
let dir_model (d : dent list) : dirent list =
  (* os.ReadDir lists entries sorted by file name *)
  List.map (fun e -> { d_name = bytes_of_string e.name; d_isdir = (e.kind = 'd');
                       d_file = (if e.kind = 'f' then Some { vis = e.content; tail = [] } else None) })
    (List.sort (fun a b -> compare a.name b.name) d)
(* spec side: the segment files (regular, readable, named by 24 hex digits, at least a long header), by name *)
let dir_segments (d : dent list) : dent list =
  List.sort (fun a b -> compare a.name b.name)
    (List.filter (fun e -> e.kind = 'f' && is_xlog_file_name (bytes_of_string e.name) && List.length e.content >= 40) d)
let dir_kf (d : dent list) = seg_kf (List.concat_map (fun e -> e.items) (dir_segments d))

let pick_dir_mode r : seg_mode * string =
  match rint r 8 with
  | 0 -> ({ names = Clean; blocks = true; straddle = false }, "blocks")
  | 1 -> ({ names = AnyNames; blocks = false; straddle = false }, "names")
  | _ -> ({ names = Clean; blocks = false; straddle = false }, "clean")

let case_scan r k =
  let mode, mtag = pick_dir_mode r in
  let d = gen_dir r ~mode in
  let segs = dir_segments d in
  let recs = List.concat_map (fun e -> expected_segment e.items) segs in
  let lsns = List.map (fun x -> x.r_lsn) recs in
  let s = c_summary ~segments:(string_of_int (List.length segs)) ~records:(string_of_int (List.length recs))
      ~first:(formatLSN (zmin_list lsns)) ~last:(formatLSN (zmax_list lsns))
      ~ops:(c_ops (spec_ops recs)) ~txns:(c_txns (spec_txns recs)) ~tables:(c_tables (spec_tables recs)) in
  let md = dir_model d in
  let mres = scanWALDirectory md in
  let m = c_fuel (fun su -> c_summary ~segments:(zs su.s_segments) ~records:(zs su.s_records) ~first:su.s_first ~last:su.s_last
                     ~ops:(c_ops su.s_ops) ~txns:(c_txns su.s_txns) ~tables:(c_tables su.s_tables)) mres in
  (* names where PostgreSQL is silent are not observable: such directories are compared model/implementation only *)
  let silent = List.exists (fun x -> mask_of x.r_rmid x.r_info <> 3) recs in
  emit ~fn:"ScanWALDirectory" ~tag:("scan_" ^ mtag) ~kf:(dir_kf d) ~s:(if silent then "-" else s) ~m [ dir_arg d ];
  if k mod 3 = 0 then
    emit ~fn:"ScanWALVersion" ~tag:"scan_version" ~s:"-"
      ~m:(c_fuel (fun su -> c_str su.s_version ^ "," ^ zs su.s_tli) mres) [ dir_arg d ]

let case_recent r k =
  let mode, mtag = pick_dir_mode r in
  let d = gen_dir r ~mode in
  let segs = dir_segments d in
  let recs = List.concat_map (fun e -> expected_segment e.items) segs in
  let n = List.length recs in
  let limit = match rint r 8 with 0 -> 0 | 1 -> n | 2 -> n + 1 | 3 -> max 0 (n - 1) | 4 -> 1 | 5 -> 1000000 | _ -> rint r (n + 2) in
  let exp = lastn (zi limit) recs in
  let mask = mask_string exp in
  let m = c_fuel (c_wrecs mask) (getRecentWALRecords (dir_model d) (zi limit)) in
  emit ~fn:"GetRecentWALRecords" ~tag:("recent_" ^ mtag) ~kf:(dir_kf d) ~s:(c_wrecs mask exp) ~m [ dir_arg d; string_of_int limit; mask ]

(* --- block references and single records --- *)
let case_blockrefs r k =
  let nblocks = rint r 5 in
  let x = gen_rec r ~mode:Clean ~nblocks ~xid_pool:[| zi 7 |] ~target:(24 + rint r 300) in
  let body = enc_body x in
  let t = rtail r in
  let s = c_blocks (expected_rec (zi 0) x).r_blocks in
  let m = c_fuel c_blocks (parseBlockRefs { vis = body; tail = t }) in
  emit ~fn:"ParseBlockRefs" ~tag:(Printf.sprintf "blockrefs_n%d" (min nblocks 2)) ~kf:(if kf_blockrefs x then "C17-blockrefs" else "-")
    ~s ~m [ hexf body; hexf t ]

let set_le (bs : byte list) (off : int) (n : int) (v : ZA.t) : byte list =
  List.mapi (fun i b -> if i >= off && i < off + n
              then byte_of_int (ZA.to_int (ZA.logand (ZA.shift_right v (8 * (i - off))) (ZA.of_int 255))) else b) bs
let take n l = List.filteri (fun i _ -> i < n) l

(* the tool's own (not PostgreSQL's) block layout, to reach every branch of parseBlockRefs *)
let tool_blockrefs r : byte list =
  let n = 1 + rint r 4 in
  List.concat (List.init n (fun _ ->
      let id = pick r [| 0; 1; 31; 32; 32; 33; 0xFD; 0xFE; 0xFF; rint r 33 |] in
      let ff = (rint r 16) lor (if rbool r then 0x10 else 0) lor (if rbool r then 0x20 else 0) lor (if rint r 3 = 0 then 0x40 else 0) lor (if rint r 4 = 0 then 0x80 else 0) in
      [ byte_of_int id; byte_of_int ff ] @ (if ff land 0x40 = 0 then rbytes r 12 else []) @ rbytes r 4
      @ (if ff land 0x10 <> 0 then (let l = rint r 20 in [ byte_of_int l; byte_of_int (if rint r 8 = 0 then 1 else 0) ] @ rbytes r l) else [])
      @ (if ff land 0x20 <> 0 then (let l = rint r 20 in [ byte_of_int l; byte_of_int 0 ] @ rbytes r l) else [])))

let case_blockrefs_raw r k =
  let v = match rint r 3 with
    | 0 -> rbytes r (rint r 40)
    | _ -> let b = tool_blockrefs r in if rbool r then take (rint r (List.length b + 1)) b else b in
  let t = rtail r in
  emit ~fn:"ParseBlockRefs" ~tag:"blockrefs_raw" ~s:"-" ~m:(c_fuel c_blocks (parseBlockRefs { vis = v; tail = t })) [ hexf v; hexf t ]

let case_record_raw r k =
  let x = gen_rec r ~mode:AnyNames ~nblocks:(if rbool r then 0 else rint r 3) ~xid_pool:[| zb (rdistinct r 32) |] ~target:(24 + rint r 200) in
  let full = enc_xrec x @ rbytes r (rint r 30) in
  let n = List.length full in
  let v = match rint r 8 with
    | 0 -> take (pick r [| 0; 1; 4; 23; 24; 25 |]) full
    | 1 -> set_le full 0 4 (ZA.of_int (pick r [| 0; 1; 23; 24; 25; 16384; 16385; 0x7FFFFFFF; 0xFFFFFFFF; 0x80000018 |]))
    | 2 -> set_le full 0 4 (ZA.of_int (pick r [| n - 1; n; n + 1 |]))
    | 3 -> take (zint (x_totlen x) - 1 - rint r 3) full
    | 4 -> let big = full @ rbytes r 16400 in set_le big 0 4 (ZA.of_int (pick r [| 16383; 16384; 16385 |]))
    | _ -> full in
  let t = rtail r in
  let lsn = zb (rdistinct r 64) in
  let res = parseXLogRecord { vis = v; tail = t } lsn in
  let m = c_fuel (fun (rc, c) -> match rc with None -> "nil," ^ zs c | Some rc -> c_wrec 3 rc ^ "," ^ zs c) res in
  emit ~fn:"ParseXLogRecord" ~tag:"record_raw" ~s:"-" ~m [ hexf v; hexf t; zs lsn; "3" ]

let case_page_raw r k =
  let mode, _ = pick_mode r in
  let items = gen_segment r ~npages:1 ~mode ~xid_pool:(xid_pool r) in
  let pg = match items with Inr p :: _ -> p | _ -> failwith "no page" in
  let v = enc_page pg in
  let hdr = zint (hdr_size pg) in
  let v, tag = match rint r 10 with
    | 0 -> take (pick r [| 0; 1; 23; 24; 25; 39; 40; 41; 47; 48; 64; 100 |]) v, "page_short"
    | 1 -> (* remaining-length boundaries, flag set *)
      let rem = pick r [| 0; 1; 7; 8; 8192 - hdr - 24; 8192 - hdr - 23; 8192 - hdr - 16; 8192 - hdr; 8192 - hdr + 1; 8192; 100000; 0xFFFFFFFF |] in
      let info = (zint pg.p_info_hi) lor 1 lor (if pg.p_long then 2 else 0) in
      set_le (set_le v 16 4 (ZA.of_int rem)) 2 2 (ZA.of_int info), "page_remlen"
    | 2 -> (* remaining length without the flag *)
      set_le v 16 4 (ZA.of_int (8 * (1 + rint r 50))), "page_rem_noflag"
    | 3 -> (* long-header flag flipped *)
      let info = (zint pg.p_info_hi) lor (if pg.p_cont then 1 else 0) lor (if pg.p_long then 0 else 2) in
      set_le v 2 2 (ZA.of_int info), "page_longflip"
    | 4 -> set_le v 0 2 (ZA.of_int (pick r [| 0xD10F; 0xD109; 0xD101; 0xD106; 0xD10E; 0xD112; 0xD114; 0; 0x13D1 |])), "page_magic"
    | 5 -> (* one byte altered somewhere *)
      let i = rint r 8192 in List.mapi (fun j b -> if j = i then byte_of_int (int_of_byte b lxor (1 lsl rint r 8)) else b) v, "page_flip"
    | 6 -> (* a record length altered *)
      let off = zint (first_start pg) in
      if off + 4 <= 8192 then set_le v off 4 (ZA.of_int (pick r [| 0; 8; 23; 16384; 16385; 8192 - off; 8192 - off + 1; 0xFFFFFFFF |])), "page_reclen"
      else v, "page_reclen"
    | 7 -> (* garbage, not zeros, behind the records *)
      List.mapi (fun j b -> if j >= 8192 - 64 && int_of_byte b = 0 then byte_of_int (rbyte r) else b) v, "page_garbage_end"
    | 8 -> set_le (rbytes r 8192) 0 2 (ZA.of_int (pick r magics)), "page_random"
    | _ -> v @ rbytes r (pick r [| 1; 100; 8192 |]), "page_long_slice" in
  let t = rtail r in
  let base = zi (8192 * rint r 3) in
  let res = parseWALPage { vis = v; tail = t } base in
  let mask = match res with Ok (Some (PRecs l)) -> mask_string l | _ -> "-" in
  emit ~fn:"ParseWALPage" ~tag ~s:"-" ~m:(c_page mask res) [ hexf v; hexf t; zs base; mask ]

let case_file_raw r k =
  let mode, _ = pick_mode r in
  let items = gen_segment r ~npages:(1 + rint r 2) ~mode ~xid_pool:(xid_pool r) in
  let v = enc_segment items [] in
  let n = List.length v in
  let v = match rint r 4 with
    | 0 -> take (pick r [| 0; 1; 39; 40; 41; 8191 |]) v
    | 1 -> take (n - 1) v
    | 2 -> v @ take (pick r [| 1; 8191 |]) v
    | _ -> List.mapi (fun j b -> if j mod 8192 < 2 && rint r 3 = 0 then byte_of_int 0 else b) v in
  let t = if rbool r then take 8192 (enc_segment items []) else [] in
  let res = parseWALFile { vis = v; tail = t } in
  let mask = match res with Ok (Some (FRecs l)) -> mask_string l | _ -> "-" in
  emit ~fn:"ParseWALFile" ~tag:"file_raw" ~s:"-" ~m:(c_file mask res) [ hexf v; hexf t; mask ]

let case_small r k =
  match (k / 20) mod 4 with
  | 0 -> let n = rint r 11 in
    let v = List.init n (fun i -> byte_of_int 0) in
    let v = if n > 0 && rint r 3 <> 0 then (let p = rint r n in List.mapi (fun i b -> if i = p then byte_of_int (1 + rint r 255) else b) v) else v in
    let t = if rbool r then rbytes r 8 else [] in
    emit ~fn:"IsZeroPadding" ~tag:"zeropad" ~s:"-" ~m:(c_res c_bool (isZeroPadding { vis = v; tail = t })) [ hexf v; hexf t ]
  | 1 -> let n = pick r [| 0; 1; 7; 8; 9; 15; 16; 17; 8191; 8192; 8193; rint r 100000; 0x7FFFFFF8 + rint r 8 |] in
    emit ~fn:"Align8" ~tag:"align8" ~s:(string_of_int ((n + 7) / 8 * 8)) ~m:(zs (align8 (zi n))) [ string_of_int n ]
  | 2 -> let v = match rint r 5 with
      | 0 -> ZA.zero | 1 -> ZA.pred (ZA.shift_left ZA.one 64) | 2 -> ZA.shift_left (rbits r 32) 32
      | 3 -> rbits r 32 | _ -> rbits r 64 in
    emit ~fn:"FormatLSN" ~tag:"formatlsn" ~s:"-" ~m:(c_str (formatLSN (zb v))) [ ZA.to_string v ]
  | _ -> let x = gen_rec r ~mode:AnyNames ~nblocks:0 ~xid_pool:[| zi 9 |] ~target:(24 + rint r 100) in
    (* a well-formed record alone in a slice: the single-record reader *)
    let v = enc_xrec x @ (if rbool r then rbytes r 8 else []) in
    let lsn = zb (rdistinct r 64) in
    let e = expected_rec lsn x in
    let m = mask_of x.x_rmid x.x_info in
    let res = parseXLogRecord { vis = v; tail = [] } lsn in
    emit ~fn:"ParseXLogRecord" ~tag:"record_valid" ~kf:(if kf_names x then "C17-names" else "-")
      ~s:(c_wrec m e ^ "," ^ zs (x_totlen x))
      ~m:(c_fuel (fun (rc, c) -> match rc with None -> "nil," ^ zs c | Some rc -> c_wrec m rc ^ "," ^ zs c) res)
      [ hexf v; "-"; zs lsn; string_of_int m ]

(* ---------------------------------------------------------------- exhaustive finite domains *)
let exhaustive () =
  for rmid = 0 to 255 do
    let s = match pg_rmgr_name (zi rmid) with Some n -> c_str n | None -> "-" in
    emit ~fn:"RmgrName" ~tag:"rmgr_all" ~kf:(if kf_rmgr_name (zi rmid) then "C17-names" else "-") ~s ~m:(c_str (rmgrName (zi rmid)))
      [ string_of_int rmid ]
  done;
  for rmid = 0 to 255 do
    for info = 0 to 255 do
      let s = match pg_op_name (zi rmid) (zi info) with Some n -> c_str n | None -> "-" in
      emit ~fn:"OperationName" ~tag:(if rmid < 22 then "op_all_builtin" else "op_all_other")
        ~kf:(if kf_op_name (zi rmid) (zi info) then "C17-names" else "-") ~s ~m:(c_str (operationName (zi rmid) (zi info)))
        [ string_of_int rmid; string_of_int info ]
    done
  done;
  (* page magics: the whole band 0xD000..0xD1FF, the byte-swapped band, and the corners *)
  List.iter (fun m ->
    emit ~fn:"Magic" ~tag:"magic_band" ~s:"-" ~m:(c_bool (isValidMagic (zi m)) ^ "," ^ c_str (pgVersionFromMagic (zi m))) [ string_of_int m ])
    (List.init 512 (fun i -> 0xD000 + i) @ List.init 48 (fun i -> ((i land 0x1F) lsl 8) lor (0xD0 + (i lsr 5))) @ [ 0; 1; 0xFFFF; 0x8000; 0x13D1; 0x10D1 ])

let gen_case r k =
  match k mod 20 with
  | 0 | 1 | 2 | 3 | 4 -> case_page r k
  | 5 | 6 | 7 | 8 -> case_segment r k
  | 9 | 10 -> case_scan r k
  | 11 -> case_recent r k
  | 12 -> case_blockrefs r k
  | 13 -> case_blockrefs_raw r k
  | 14 -> case_record_raw r k
  | 15 | 16 -> case_page_raw r k
  | 17 -> case_file_raw r k
  | _ -> case_small r k

let gen seed n =
  exhaustive ();
  for k = 0 to n - 1 do gen_case (rng_for seed k) k done
let () = main gen
