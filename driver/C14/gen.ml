(* C14 driver: pg_authid heap files built from abstract roles (Spec.role_tup = C03's heap_fill_tuple transcription
   inside C02's enc_tuple/enc_page/enc_file), parsed by the extracted model. *)
open Model
open Util

(* ---------- printers (must agree with harness/c14.go) ---------- *)
let c_auth (a : authInfo) : string =
  c_rec [ "oid", zs a.a_oid; "name", c_str a.a_name; "pw", c_str a.a_password;
          "super", c_bool a.a_super; "login", c_bool a.a_login ]
let c_auths (l : authInfo list) : string = c_list (List.map c_auth l)
let c_optauths = function None -> "err" | Some l -> c_auths l
let c_cli ((out, code) : byte list * z) : string = c_rec [ "out", c_str out; "code", zs code ]

(* ---------- abstract value generators ---------- *)
let hexd = "0123456789abcdef"
let b64 = "ABCDEFGHIJKLMNOPQRSTUVWXYZabcdefghijklmnopqrstuvwxyz0123456789+/"
let rstr r n (alpha : string) = String.init n (fun _ -> alpha.[rint r (String.length alpha)])
let nz_bytes r n = List.init n (fun _ -> byte_of_int (1 + rint r 255))

let pw_tag = ref ""
let gen_pw r : byte list option =
  match rint r 12 with
  | 0 | 1 -> pw_tag := "null"; None
  | 2 | 3 -> pw_tag := "md5"; Some (bytes_of_string ("md5" ^ rstr r 32 hexd))
  | 4 | 5 -> pw_tag := "scram";
    Some (bytes_of_string ("SCRAM-SHA-256$4096:" ^ rstr r 24 b64 ^ "$" ^ rstr r 44 b64 ^ ":" ^ rstr r 44 b64))
  | 6 | 7 -> pw_tag := "edge"; Some (rbytes r (pick r [| 1; 2; 3; 125; 126; 127; 128; 129; 255; 256; 399; 400 |]))
  | 8 -> pw_tag := "hdrlike";   (* payload whose first bytes look like varlena headers / padding *)
    Some (List.map byte_of_int (pick r [| [0]; [1]; [1; 18]; [0; 0; 0; 0; 7]; [3]; [255; 255] |]) @ rbytes r (rint r 140))
  | _ -> pw_tag := "any"; Some (rbytes r (rrange r 1 400))

let gen_name r : byte list =
  match rint r 8 with
  | 0 -> nz_bytes r 1
  | 1 -> nz_bytes r 63
  | 2 -> nz_bytes r 62
  | 3 -> bytes_of_string (pick r [| "postgres"; "all"; "ALL"; "al"; "alll"; "pg_monitor"; "pg_read_all_data" |])
  | 4 -> bytes_of_string (rstr r (rrange r 1 12) "abcdefghijklmnopqrstuvwxyz_0123456789")
  | _ -> nz_bytes r (rrange r 1 63)

let gen_role r ~(flags : int) : role =
  let bit i = (flags lsr i) land 1 = 1 in
  { r_oid = z_of_zarith (match rint r 8 with 0 -> ZA.of_int 10 | 1 -> ZA.of_string "4294967295" | 2 -> ZA.zero | _ -> rdistinct r 32);
    r_name = gen_name r;
    r_super = bit 0; r_inherit = bit 1; r_createrole = bit 2; r_createdb = bit 3; r_canlogin = bit 4;
    r_replication = bit 5; r_bypassrls = bit 6;
    r_connlimit = z_of_zarith (match rint r 4 with 0 -> ZA.of_int (-1) | 1 -> ZA.of_int (-2147483648) | _ -> ZA.sub (rdistinct r 32) (ZA.of_string "2147483648"));
    r_password = gen_pw r;
    r_validuntil = (match rint r 5 with
        | 0 | 1 -> None
        | 2 -> Some (z_of_zarith (ZA.of_string "9223372036854775807"))      (* 'infinity' *)
        | 3 -> Some (z_of_zarith (ZA.neg (rdistinct r 56)))
        | _ -> Some (z_of_zarith (ZA.sub (rdistinct r 64) (ZA.shift_left ZA.one 63)))) }

(* version kinds: live, deleted, live after update, superseded by update, aborted insert, frozen, in-progress delete, random *)
let masks = [| 0x0900; 0x0500; 0x2900; 0x2500; 0x0A00; 0x0B00; 0x0100; 0x0000; 0x0D00 |]
let gen_stored r ?(mask = -1) (ro : role) : stored_role =
  let mask = if mask >= 0 then mask else if rint r 5 = 0 then ZA.to_int (rbits r 16) else pick r masks in
  let s = { sr_role = ro; sr_head = rbytes r 18; sr_flags2 = zi (rint r 32); sr_mask_hi = zi (mask lsr 1);
            sr_extra = zi (match rint r 12 with 0 -> 1 | 1 -> pick r [| 2; 3; 27 |] | _ -> 0);
            sr_long = (rint r 5 = 0) } in
  if not (wf_stored_b s) then failwith "generator produced a role outside wf_stored"; s

(* ---------- pages ---------- *)
type item = T of tup * stored_role option | J of int      (* a NORMAL pointer with its tuple | UNUSED(0)/REDIRECT(2)/DEAD(3) *)
let maxalign n = (n + 7) land (lnot 7)
let tlen (t : tup) = iz (tup_len t)
let item_size = function T (t, _) -> 4 + maxalign (tlen t) + 8 | J _ -> 4

(* mode 0: heapam-like (downward, MAXALIGNed); 1: downward, unaligned, random gaps; 2: upward (physical order = pointer order) *)
let build_page r ~(mode : int) (items : item list) : page =
  let n = List.length items in
  let lower = 24 + 4 * n in
  let body = Array.init (8192 - lower) (fun _ -> if mode = 0 then 0 else rbyte r) in
  let total = List.fold_left (fun a it -> match it with T (t, _) -> a + maxalign (tlen t) | J _ -> a) 0 items in
  let pos = ref (if mode = 2 then 8192 - total else 8192) in
  let upper = ref 8192 in
  let lps = List.map (function
      | T (t, _) ->
        let e = enc_tuple t in
        let l = List.length e in
        let off = (match mode with
            | 0 -> pos := (!pos - l) land (lnot 7); !pos
            | 1 -> pos := !pos - l - (if rbool r then 0 else rint r 8); !pos
            | _ -> let o = !pos in pos := !pos + maxalign l; o) in
        if off < lower then failwith "page overflow";
        if off < !upper then upper := off;
        List.iteri (fun i b -> body.(off - lower + i) <- int_of_byte b) e;
        ({ lp_off = zi off; lp_flags = zi 1; lp_len = zi l }, Some t)
      | J st ->
        ({ lp_off = zi (pick r [| 0; 1; lower; 8000; 8100 |]); lp_flags = zi st; lp_len = zi (pick r [| 0; 0; 24; 92 |]) }, None)) items in
  { pg_lsn_etc = rbytes r 12; pg_upper = zi !upper; pg_special = zi 8192; pg_version = zi 4; pg_prune = rbytes r 4;
    pg_lps = lps; pg_body = Array.to_list (Array.map byte_of_int body) }

let flagctr = ref 0
let next_flags () = incr flagctr; !flagctr land 127      (* cycles through all 2^7 attribute combinations *)

(* items for one page: up to [want] role versions (with ALTER ROLE leftovers and junk pointers), as many as fit *)
let gen_items r ~(want : int) : item list =
  let room = ref (8192 - 24 - 16) in
  let out = ref [] in
  let push it = if item_size it <= !room then (room := !room - item_size it; out := it :: !out; true) else false in
  let k = ref 0 in
  while !k < want do
    incr k;
    let ro = gen_role r ~flags:(next_flags ()) in
    if rint r 6 = 0 then begin
      (* ALTER ROLE ... PASSWORD: the old version stays behind, dead, with the previous verifier *)
      let old = { ro with r_password = gen_pw r } in
      ignore (push (let s = gen_stored r ~mask:(pick r [| 0x0500; 0x2500; 0x0100 |]) old in T (role_tup s, Some s)));
      ignore (push (let s = gen_stored r ~mask:(pick r [| 0x2900; 0x2800 |]) ro in T (role_tup s, Some s)))
    end else begin
      let s = gen_stored r ro in
      if not (push (T (role_tup s, Some s))) then k := want
    end;
    if rint r 8 = 0 then ignore (push (J (pick r [| 0; 2; 3 |])))
  done;
  List.rev !out

let stored_of (items : item list) : stored_role list =
  let l = List.filter_map (function T (_, Some s) -> Some s | _ -> None) items in
  (* every value with a spec-side expectation satisfies the theorems' hypothesis (extracted checker) *)
  List.iter (fun s -> if not (wf_stored_b s) then failwith "generator produced a role outside wf_stored") l; l

(* a file: pages (occasionally a never-initialised block in between) + optional partial tail *)
let gen_file r ~(maxpages : int) ~(want : int) : byte list * stored_role list * string =
  let np = rrange r 1 maxpages in
  let mode = rint r 3 in
  let pages = List.init np (fun i -> gen_items r ~want:(if i = 0 && rint r 10 = 0 then 0 else rrange r 1 want)) in
  let blocks = List.concat_map (fun items ->
      let b = BPage (build_page r ~mode items) in
      if rint r 10 = 0 then [ BZero; b ] else [ b ]) pages in
  let tl = match rint r 6 with 0 -> rbytes r 1 | 1 -> rbytes r (rrange r 2 900) | _ -> [] in
  (enc_file blocks tl, List.concat_map stored_of pages, Printf.sprintf "mode%d" mode)

(* ---------- the functions under test ---------- *)
let prev_file : (byte list * string * string) option ref = ref None
let hold_ctr = ref 0
let run_parse ~tag ~s (file : byte list) (tail : byte list) =
  let m = c_res c_auths (parsePGAuthID { vis = file; tail }) in
  emit ~fn:"ParsePGAuthID" ~tag ~s ~m [ hexf file; hexf tail ];
  (* every fifth well-formed file is also parsed right after the previous one, both results looked at afterwards *)
  if s <> "-" && List.length file <= 3 * 8192 then begin
    incr hold_ctr;
    (match !prev_file with
     | Some (f0, s0, m0) when !hold_ctr mod 5 = 0 ->
       emit ~fn:"ParsePGAuthIDHold" ~tag:"hold_first_result" ~s:(s0 ^ ";" ^ s) ~m:(m0 ^ ";" ^ m) [ hexf f0; hexf file ]
     | _ -> ());
    prev_file := Some (file, s, m)
  end

let eqb (a : byte list) (b : byte list) = (a = b)
let reader_of (present : bool) (file : byte list) (decoy : byte list) (path : byte list) : gslice option =
  if eqb path path_authid then (if present then Some { vis = file; tail = [] } else None)
  else if eqb path (bytes_of_string "global/1261") || eqb path (bytes_of_string "base/1/1260") || eqb path (bytes_of_string "1260")
  then Some { vis = decoy; tail = [] } else None

let run_extract ~tag r (present : bool) (file : byte list) (srs : stored_role list) =
  let decoy = let (f, _, _) = gen_file r ~maxpages:1 ~want:2 in f in
  let rd = reader_of present file decoy in
  let m = c_rec [ "ep", c_res c_optauths (extractPasswords rd); "epf", c_res c_optauths (extractPasswordsFromFiles rd);
                  "cred", c_res c_auths (credentials rd) ] in
  let e = c_auths (expected_roles srs) in
  let s = if present then c_rec [ "ep", e; "epf", e; "cred", e ] else c_rec [ "ep", "err"; "epf", "err"; "cred", "[]" ] in
  emit ~fn:"Extract" ~tag ~s ~m [ (if present then "1" else "0"); hexf file; hexf decoy ]

let run_cli ~tag (sel : byte list) (present : bool) (file : byte list) (srs : stored_role list) =
  let rd = reader_of present file [] in
  let m = match extractPasswords rd with Ok o -> c_cli (cli_passwords sel o) | Panic -> "panic" in
  let s = if present then c_cli (expected_cli sel (List.map (fun s -> s.sr_role) srs)) else c_cli ([], zi 1) in
  emit ~fn:"CLI" ~tag ~s ~m [ hexf sel; (if present then "1" else "0"); hexf file ]

(* ---------- deterministic corpus: every header form x NULL pattern at the boundary lengths, on two pages ---------- *)
let corpus seed =
  let r = rng_for seed 999983 in
  let lens = [ 0; 1; 2; 35; 125; 126; 127; 128; 133; 400 ] in
  let mk pwlen vu long extra =
    let ro = gen_role r ~flags:(next_flags ()) in
    let ro = { ro with r_password = (if pwlen = 0 then None else Some (nz_bytes r pwlen));
                       r_validuntil = (if vu then Some (z_of_zarith (rdistinct r 56)) else None) } in
    let s = { (gen_stored r ro) with sr_long = long; sr_extra = zi extra } in
    T (role_tup s, Some s) in
  List.iter (fun (vu, long, extra) ->
      let items = List.map (fun l -> mk l vu long extra) lens in
      let page = build_page r ~mode:0 items in
      run_parse ~tag:"corpus_forms" ~s:(c_auths (expected_roles (stored_of items))) (enc_page page) [])
    [ (false, false, 0); (true, false, 0); (false, true, 0); (true, true, 1) ];
  (* a page filled to the last byte (pd_lower = pd_upper, no free space): n-1 roles without password and one whose
     verifier length makes the tuples end exactly at the line pointer array (seeded change C14-1: `lower < upper`) *)
  let mkpw pw =
    let ro = gen_role r ~flags:(next_flags ()) in
    let ro = { ro with r_password = pw; r_validuntil = None } in
    let s = { (gen_stored r ~mask:(pick r masks) ro) with sr_extra = zi 0 } in
    T (role_tup s, Some s) in
  List.iter (fun n ->
      let base = List.init (n - 1) (fun _ -> mkpw None) in
      let used = 24 + 4 * n + List.fold_left (fun a it -> match it with T (t, _) -> a + maxalign (tlen t) | J _ -> a) 0 base in
      let rest = 8192 - used in
      let rec find l = if l > 400 then None else
          let it = mkpw (Some (nz_bytes r l)) in
          (match it with T (t, _) when maxalign (tlen t) = rest -> Some it | _ -> find (l + 1)) in
      match find 1 with
      | None -> ()
      | Some last ->
        let items = base @ [ last ] in
        let page = build_page r ~mode:0 items in
        if iz page.pg_upper <> 24 + 4 * n then failwith "full page is not full";
        run_parse ~tag:"corpus_full_page" ~s:(c_auths (expected_roles (stored_of items))) (enc_page page) [];
        run_parse ~tag:"corpus_full_page" ~s:(c_auths (expected_roles (stored_of items @ stored_of items)))
          (enc_page page @ enc_page page) (rbytes r 7))
    [ 70; 68; 66 ];
  (* the Coq writer page_of / enc_heap (heapam-like packing proved well-formed in Coq) *)
  let srs1 = List.init 9 (fun _ -> gen_stored r (gen_role r ~flags:(next_flags ()))) in
  let srs2 = List.init 5 (fun _ -> gen_stored r (gen_role r ~flags:(next_flags ()))) in
  if not (List.for_all page_ok_b [ srs1; []; srs2 ]) then failwith "corpus page does not fit";
  run_parse ~tag:"corpus_enc_heap" ~s:(c_auths (expected_roles (srs1 @ srs2))) (enc_heap [ srs1; []; srs2 ]) (rbytes r 33);
  (* empty file, empty page *)
  run_parse ~tag:"empty" ~s:"[]" [] [];
  run_parse ~tag:"empty" ~s:"[]" (enc_heap [ [] ]) []

(* ---------- malformed / out-of-scope inputs: model vs implementation only ---------- *)
let set_nth (l : byte list) (i : int) (v : int) = List.mapi (fun j b -> if j = i then byte_of_int v else b) l
let take n l = List.filteri (fun i _ -> i < n) l
let malformed r =
  let s = gen_stored r (gen_role r ~flags:(next_flags ())) in
  let t = role_tup s in
  let d = t.tp_data in
  let pad_to n l = if List.length l >= n then l else l @ rbytes r (n - List.length l) in
  let kind = rint r 12 in
  let d' = match kind with
    | 0 -> take (pick r [| 0; 1; 68; 69; 70; 71; 72; 73; 74; 79; 80 |]) d                 (* data length around every guard *)
    | 1 -> take (pick r [| 81; 82; 83; 84; 85 |]) (pad_to 90 d)
    | 2 -> set_nth (pad_to 120 (take 80 d)) 80 (pick r [| 1; 3; 5; 0xFF; 0x51; 0x53 |])     (* short headers: TOAST tag, empty, too long *)
    | 3 -> take 98 (pad_to 98 (take 80 d)) |> fun x -> set_nth (set_nth x 80 1) 81 18      (* on-disk TOAST pointer, exactly 18 bytes *)
    | 4 -> let x = pad_to 100 (take 80 d) in                                                (* 4-byte headers: compressed flag, lengths 0..4, > remaining *)
      let h = pick r [| 0; 4; 8; 12; 16; 18; 80; 84; 4000; 0x40000000 - 4 |] in
      set_nth (set_nth (set_nth (set_nth x 80 (h land 255)) 81 ((h lsr 8) land 255)) 82 ((h lsr 16) land 255)) 83 ((h lsr 24) land 255)
    | 5 -> set_nth d 4 0                                                                    (* empty name *)
    | 6 -> List.mapi (fun i b -> if i >= 4 && i < 68 then byte_of_int (1 + rint r 255) else b) d   (* 64 name bytes, no NUL *)
    | 7 -> List.mapi (fun i b -> if i >= 68 && i < 75 then byte_of_int (pick r [| 0; 1; 2; 128; 255 |]) else b) d   (* bool bytes other than 0/1 *)
    | 8 -> set_nth d (rint r (List.length d)) (rbyte r)
    | _ -> d in
  (* header variations: bitmap present/absent/short (natts < 11), random bitmap bits *)
  let t' = match rint r 6 with
    | 0 -> { t with tp_natts = zi (pick r [| 0; 1; 8; 10; 11; 16; 17 |]) }
    | 1 -> { t with tp_infomask = zi ((iz t.tp_infomask) lor 1); tp_hoff = zi 32;
                    tp_mid = [ byte_of_int (rbyte r); byte_of_int (pick r [| 0; 3; 4; 7; 0xfb; 0xff |]) ] @ List.init 7 (fun _ -> byte_of_int 0) }
    | 2 -> { t with tp_infomask = zi ((iz t.tp_infomask) land 0xfffe) }
    | _ -> t in
  let t' = { t' with tp_data = d' } in
  let others = gen_items r ~want:2 in
  let items = others @ [ T (t', None) ] @ (if rbool r then gen_items r ~want:1 else []) in
  let page = enc_page (build_page r ~mode:(rint r 3) items) in
  let file = match rint r 8 with
    | 0 -> take (pick r [| 0; 23; 8191 |]) page
    | 1 -> set_nth page (rint r 8192) (rbyte r)
    | 2 -> rbytes r (pick r [| 1; 100; 8192 |])
    | _ -> page in
  run_parse ~tag:(Printf.sprintf "malformed_%d" kind) ~s:"-" file (if rbool r then rbytes r 50 else [])

let gen_case seed k =
  let r = rng_for seed k in
  match k mod 10 with
  | 0 | 1 | 2 | 3 ->
    let (file, srs, tag) = gen_file r ~maxpages:(if k mod 20 = 0 then 3 else 2) ~want:(pick r [| 3; 6; 12; 40 |]) in
    let tail = if rint r 3 = 0 then rbytes r (rrange r 1 200) else [] in
    run_parse ~tag:("file_" ^ tag) ~s:(c_auths (expected_roles srs)) file tail
  | 4 -> (* one role per file: every attribute/NULL/header combination in isolation *)
    let s = gen_stored r (gen_role r ~flags:(next_flags ())) in
    let tag = "single_" ^ !pw_tag in
    let file = enc_page (build_page r ~mode:(rint r 3) [ T (role_tup s, Some s) ]) in
    run_parse ~tag ~s:(c_auths (expected_roles [ s ])) file []
  | 5 ->
    let (file, srs, _) = gen_file r ~maxpages:1 ~want:5 in
    run_extract ~tag:(if rint r 5 = 0 then "missing" else "present") r (rint r 5 <> 0) file srs
  | 6 when k mod 60 = 6 ->
    (* the CLI as a subprocess (about 1 s per start: the binary initialises its secret detectors): every
       selector kind in turn.  The first role has a lower-case alphabetic name (so case variants exist). *)
    let v = (k / 60) mod 10 in
    let n = if v = 7 then 0 else pick r [| 2; 3; 8 |] in
    let srs = List.init n (fun i ->
        let ro = gen_role r ~flags:(next_flags ()) in
        let ro = if i = 0 then { ro with r_name = bytes_of_string (rstr r (rrange r 2 10) "abcdefghijklmnopqrstuvwxyz") } else ro in
        gen_stored r ro) in
    let file = enc_page (build_page r ~mode:(rint r 3) (List.map (fun s -> T (role_tup s, Some s)) srs)) in
    let names = List.map (fun s -> s.sr_role.r_name) srs in
    let upper l = List.map (fun b -> let c = int_of_byte b in byte_of_int (if c >= 97 && c <= 122 then c - 32 else c)) l in
    let sel, tag = match v with
      | 1 -> List.hd names, "exact"
      | 2 -> pickl r names, "exact"
      | 3 -> let nm = pickl r names in (if List.length nm > 1 then take (List.length nm - 1) nm else nm @ nm), "prefix"
      | 4 -> bytes_of_string (pick r [| "ALL"; "All" |]), "all_case"
      | 5 -> (pickl r names) @ [ byte_of_int 0x20 ], "suffix"
      | 8 -> upper (List.hd names), "name_case"
      | 9 -> bytes_of_string (pick r [| "al"; "alll"; "postgres"; "nobody"; "*"; "%" |]), "other"
      | 7 -> bytes_of_string "all", "all_empty"
      | _ -> bytes_of_string "all", "all" in
    let present = v <> 6 in
    run_cli ~tag:("cli_" ^ (if present then tag else "missing")) sel present file (stored_of (List.map (fun s -> T (role_tup s, Some s)) srs))
  | 6 | 7 ->
    let s1 = gen_stored r (gen_role r ~flags:(next_flags ())) in
    let tag = "pair_" ^ !pw_tag in
    let s2 = gen_stored r (gen_role r ~flags:(next_flags ())) in
    let file = enc_page (build_page r ~mode:(rint r 3) [ T (role_tup s1, Some s1); J (pick r [| 0; 2; 3 |]); T (role_tup s2, Some s2) ]) in
    run_parse ~tag ~s:(c_auths (expected_roles [ s1; s2 ])) file (if rbool r then rbytes r 9 else [])
  | _ -> malformed r

let gen seed n =
  corpus seed;
  for k = 0 to n - 1 do gen_case seed k done;
  (* thorough tier: the property's upper range, 500 roles over many pages *)
  if n >= 5000 then begin
    let r = rng_for seed 777777 in
    let pages = ref [] and count = ref 0 in
    while !count < 500 do
      let items = gen_items r ~want:(min 40 (500 - !count)) in
      count := !count + List.length (stored_of items); pages := items :: !pages
    done;
    let pages = List.rev !pages in
    let file = enc_file (List.map (fun it -> BPage (build_page r ~mode:0 it)) pages) [] in
    run_parse ~tag:"file_500" ~s:(c_auths (expected_roles (List.concat_map stored_of pages))) file []
  end
let () = main gen
