(* C02 driver: heap files built from abstract pages/tuples (Spec.enc_file), scanned by the extracted model. *)
open Model
open Util

let c_obs (o : tuple_obs) : string =
  let (((hn, xc), xi), xmc) = o.o_flags in
  c_rec [ "po", zs o.o_pageoff; "hoff", zs o.o_hoff; "natts", zs o.o_natts; "mask", zs o.o_infomask;
          "fl", String.concat "" (List.map (fun b -> if b then "1" else "0") [hn; xc; xi; xmc]);
          "bm", (match o.o_bitmap with None -> "nil" | Some b -> "h" ^ hex_of_bytes b);
          "data", "h" ^ hex_of_bytes o.o_data ]
let c_obslist l = c_list (List.map c_obs l)
let c_scan (r : tuple_obs list res) = c_res c_obslist r

(* ---- abstract value generators ---- *)
let maxalign n = (n + 7) land (lnot 7)
let natts_choices = [| 0; 1; 2; 3; 7; 8; 9; 15; 16; 17; 63; 64; 65; 1600; 2047 |]
let gen_tup r ~(maxdata : int) : tup =
  let natts = if rint r 3 = 0 then pick r natts_choices else rrange r 1 12 in
  let infomask = match rint r 6 with
    | 0 -> 0x0900 | 1 -> 0x0500 | 2 -> 0x0100 | 3 -> 0x0901   (* live, deleted, in-progress delete, live+nulls *)
    | _ -> ZA.to_int (rbits r 16) in
  let hasnull = infomask land 1 = 1 in
  let bml = if hasnull then (natts + 7) / 8 else 0 in
  let hoff = maxalign (23 + bml) + (if rint r 10 = 0 then 8 else 0) in
  let hoff = if hoff > 255 then 255 else hoff in
  let hoff = if hoff - 23 < bml then 23 + bml else hoff in   (* natts 2047 with nulls: 23+256 > 255 → drop nulls below *)
  let infomask, bml, hoff = if hoff > 255 then (infomask land (lnot 1), 0, 24) else (infomask, bml, hoff) in
  let mid = rbytes r bml @ List.init (hoff - 23 - bml) (fun _ -> byte_of_int 0) in
  let dl = match rint r 8 with 0 -> 0 | 1 -> 1 | 2 -> maxdata | _ -> rint r (min maxdata 64 + 1) in
  { tp_head = rbytes r 18; tp_natts = zi natts; tp_flags2 = zi (rint r 32); tp_infomask = zi infomask;
    tp_hoff = zi hoff; tp_mid = mid; tp_data = rbytes r dl }

(* the same flag words as [t] but another header length (8 more bytes of padding, or 8 fewer): nothing but t_hoff says where
   the data starts (seeded change C02-17: a header memo keyed by the two flag words) *)
let twin_of r (t : tup) ~(maxdata : int) : tup =
  let bml = List.length t.tp_mid - (iz t.tp_hoff - 23 - (if iz t.tp_infomask land 1 = 1 then (iz t.tp_natts + 7) / 8 else 0)) in
  let hoff = if iz t.tp_hoff + 8 <= 248 then iz t.tp_hoff + 8 else iz t.tp_hoff - 8 in
  if hoff - 23 < bml then t else
  { t with tp_head = rbytes r 18; tp_hoff = zi hoff; tp_mid = rbytes r bml @ List.init (hoff - 23 - bml) (fun _ -> byte_of_int 0);
           tp_data = rbytes r (rint r (min maxdata 64 + 1)) }

let tup_len (t : tup) = iz t.tp_hoff + List.length t.tp_data

(* A page: choose pointers, place NORMAL tuples without overlap between upper and special. *)
let gen_page r : page * string =
  (* 0 downward (PostgreSQL-like) 1 shuffled 2 boundary 3 empty 4 single big 5 many small
     6 very many line pointers (around 255/256 and MaxHeapTuplesPerPage = 291, most of them unused/dead): a count kept in
       8 bits wraps there (seeded change C02-9) *)
  let mode = if rint r 12 = 0 then 6 else rint r 6 in
  let nlp = match mode with 3 -> rint r 3 | 4 -> 1 | 5 -> rrange r 30 60 | 6 -> pick r [| 255; 256; 257; 270; 291; 300 |] | _ -> rrange r 1 12 in
  let lower = 24 + 4 * nlp in
  let special = pick r [| 8192; 8192; 8192; 8176; 8184 |] in
  let states = List.init nlp (fun i -> if mode = 6 && i < nlp - 4 && rint r 10 < 8 then pick r [| 0; 0; 3 |]
                               else match rint r 10 with 0 -> 0 | 1 -> 2 | 2 -> 3 | _ -> 1) in
  let states = if mode = 4 then [1] else states in
  (* tuples for NORMAL pointers, placed downward from special; stop making NORMAL when out of room *)
  let pos = ref special in
  let placed = ref [] in     (* (off, tup) *)
  let lps = List.map (fun st ->
      if st = 1 then begin
        let room = !pos - lower in
        let maxdata = if mode = 4 then room - 24 else min 200 (room - 40) in
        if room < 48 then ({ lp_off = zi (rint r 100); lp_flags = zi 0; lp_len = zi 0 }, None)
        else begin
          let t = match !placed with
            | (_, prev) :: _ when mode <> 4 && rint r 3 = 0 -> twin_of r prev ~maxdata:(max 0 maxdata)
            | _ -> gen_tup r ~maxdata:(max 0 maxdata) in
          let l = tup_len t in
          let gap = if mode = 2 || mode = 4 then 0 else (if rbool r then 0 else rint r 9) in
          let off = !pos - l - gap in
          let off = if mode = 0 then off land (lnot 7) else off in
          if off < lower then ({ lp_off = zi 0; lp_flags = zi 0; lp_len = zi 0 }, None) else begin
          pos := off;
          placed := (off, t) :: !placed;
          ({ lp_off = zi off; lp_flags = zi 1; lp_len = zi l }, Some t) end
        end
      end else
        (* UNUSED / REDIRECT / DEAD: offsets and lengths that would be harmful if misread as NORMAL *)
        ({ lp_off = zi (pick r [| 0; 1; lower; 8000; 8191 |]); lp_flags = zi st; lp_len = zi (pick r [| 0; 0; 24; 100 |]) }, None)) states in
  let lps = if mode = 1 then shuffle r lps else lps in
  let upper = if !placed = [] then (if rbool r then special else lower) else (if mode = 2 || rbool r then !pos else max lower (!pos - rint r 17)) in
  (* body = bytes lower..8192 *)
  let body = Array.init (8192 - lower) (fun _ -> if mode = 5 then 0 else rbyte r) in
  List.iter (fun (off, t) -> List.iteri (fun i b -> body.(off - lower + i) <- int_of_byte b) (enc_tuple t)) !placed;
  ({ pg_lsn_etc = rbytes r 12; pg_upper = zi upper; pg_special = zi special; pg_version = zi (if rint r 8 = 0 then rrange r 1 10 else 4);
     pg_prune = rbytes r 4; pg_lps = lps; pg_body = Array.to_list (Array.map byte_of_int body) },
   Printf.sprintf "mode%d" mode)

let gen_file r ~(maxblocks : int) : block list * byte list * string =
  let nb = match rint r 6 with 0 -> 0 | 1 -> 1 | _ -> rrange r 1 maxblocks in
  let tag = ref "" in
  let bs = List.init nb (fun _ -> if rint r 6 = 0 then BZero else (let (p, t) = gen_page r in tag := t; BPage p)) in
  (* tails: also a well-formed page cut short by 1 .. 4000 bytes (its header, line pointers and the tuples stored low in it are
     all there): an incomplete block yields nothing (seeded change C02-18) *)
  let tl = match rint r 6 with 0 -> rbytes r 1 | 1 -> rbytes r (rrange r 2 600) | 2 -> List.init 8191 (fun _ -> byte_of_int 0)
                             | 3 -> let (p, _) = gen_page r in
                               let img = enc_page p in
                               List.filteri (fun i _ -> i < 8192 - pick r [| 1; 8; 16; 100; 1000; 4000 |]) img
                             | _ -> [] in
  (bs, tl, !tag)

let scan ~tag ~s (v : byte list) (t : byte list) (vo : bool) =
  let m = c_scan (obs_entries (readTuples { vis = v; tail = t } vo)) in
  emit ~fn:"ReadTuples" ~tag ~s ~m [ hexf v; hexf t; c_bool vo ]

let set_byte (bs : byte list) (off : int) (v : int) = List.mapi (fun i b -> if i = off then byte_of_int v else b) bs
let set_u16 bs off v = set_byte (set_byte bs off (v land 255)) (off + 1) ((v lsr 8) land 255)

let gen_case r k =
  match k mod 12 with
  | 0 | 1 | 2 | 3 | 4 ->
    let (bs, tl, tag) = gen_file r ~maxblocks:3 in
    let v = enc_file bs tl in
    scan ~tag:("file_" ^ tag) ~s:(c_obslist (expected_file bs (zi 0))) v (if rint r 4 = 0 then rbytes r 40 else []) false
  | 5 -> (* visibleOnly = true: spec side filters by the hint-bit predicate (C09 proves the predicate) *)
    let (bs, tl, tag) = gen_file r ~maxblocks:2 in
    let v = enc_file bs tl in
    let live (o : tuple_obs) = let m = iz o.o_infomask in (m land 0x100 <> 0) && ((m land 0x800 <> 0) || (m land 0x400 = 0)) in
    scan ~tag:"file_visible" ~s:(c_obslist (List.filter live (expected_file bs (zi 0)))) v [] true
  | 6 -> (* a single tuple *)
    let t = gen_tup r ~maxdata:300 in
    let v = enc_tuple t in
    let tl = if rbool r then rbytes r 8 else [] in
    let m = c_res (function None -> "nil" | Some ht -> c_obs (obs_tuple ht (zi 0))) (parseHeapTuple { vis = v; tail = tl }) in
    emit ~fn:"ParseHeapTuple" ~tag:"tuple" ~s:(c_obs (expected_tuple t (zi 0))) ~m [ hexf v; hexf tl ]
  | 7 -> (* concatenation law on arbitrary (partly damaged) files *)
    let (b1, _, _) = gen_file r ~maxblocks:2 in
    let (b2, t2, _) = gen_file r ~maxblocks:2 in
    let f1 = enc_file b1 [] and f2 = enc_file b2 t2 in
    let f1 = if f1 <> [] && rbool r then set_byte f1 (rint r (List.length f1)) (rbyte r) else f1 in
    emit ~fn:"ReadTuplesConcat" ~tag:"concat" ~s:"ok" ~m:"ok" [ hexf f1; hexf f2; c_bool (rbool r) ]
  | 8 | 9 -> (* malformed: a valid page with one header / pointer field set to a boundary value *)
    let (p, _) = gen_page r in
    let v = enc_page p in
    let nlp = List.length p.pg_lps in
    let v = match rint r 9 with
      | 0 -> set_u16 v 18 (pick r [| 16384 + 4; 32768 + 4; 8192; 8192 + 11; 4; 0x2004 |])
      | 1 -> set_u16 v 12 (pick r [| 0; 23; 24; 8188; 8192; 8193; 65535; iz p.pg_upper + 4 |])
      | 2 -> set_u16 v 14 (pick r [| 0; 24; 8192; 8193; 65535 |])
      | 3 when nlp > 0 -> let i = 24 + 4 * rint r nlp in set_u16 v i (pick r [| 0x8000 lor 8191; 0x8000 lor 8170; 0xFFFF |])   (* off near the end, flags=1 *)
      | 4 when nlp > 0 -> let i = 24 + 4 * rint r nlp in set_u16 v (i + 2) (pick r [| 0; 2; 0xFFFE; 46; 44 |])   (* lp_len 0,1,max,23,22 *)
      | 5 -> (* 16/32 KiB size field with pd_lower beyond the slice: D31 *)
        set_u16 (set_u16 (set_u16 v 18 (32768 + 4)) 12 (pick r [| 8193; 12000; 32768 |])) 14 32768
      | 6 -> List.filteri (fun i _ -> i < pick r [| 0; 19; 23; 8191 |]) v
      | 7 -> (match List.find_opt (fun (l, o) -> o <> None) p.pg_lps with
              | Some (l, _) -> set_byte v (iz l.lp_off + 22) (pick r [| 0; 22; 23; 255; iz l.lp_len; iz l.lp_len + 1 |])   (* t_hoff *)
              | None -> v)
      | _ -> set_byte v (rint r 8192) (rbyte r) in
    scan ~tag:"malformed" ~s:"-" v (if rbool r then rbytes r 64 else []) (rbool r)
  | 10 -> (* raw tuple bytes around the guards *)
    let n = pick r [| 0; 1; 22; 23; 24; 25; 31; 32; 40 |] in
    let v = rbytes r n in
    let v = if n > 22 && rbool r then set_byte v 22 (pick r [| 0; 23; 24; n; n + 1; 255 |]) else v in
    let tl = if rbool r then rbytes r 8 else [] in
    let m = c_res (function None -> "nil" | Some ht -> c_obs (obs_tuple ht (zi 0))) (parseHeapTuple { vis = v; tail = tl }) in
    emit ~fn:"ParseHeapTuple" ~tag:"tuple_raw" ~s:"-" ~m [ hexf v; hexf tl ]
  | _ -> (* random bytes of page-ish sizes *)
    let n = pick r [| 0; 1; 8191; 8192; 8193; 16384 |] in
    scan ~tag:(if n < 8192 then "short" else "random") ~s:"-" (rbytes r n) [] (rbool r)

let gen seed n = for k = 0 to n - 1 do gen_case (rng_for seed k) k done
let () = main gen
