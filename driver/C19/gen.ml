(* C19 driver: block-range syntax, block addressing, labels, segments, checksum accounting.
   Deterministic corpus first (the exhaustive sweeps), then n random cases from (seed, index). *)
open Model
open Util
open Aa_codec

let bs = 8192
let model_compute (b : byte list) (n : z) : z = computePageChecksum { vis = b; tail = [] } n

(* =============================================================== 1. block-range syntax *)
let run_pbr ~tag ~s (str : string) =
  emit ~fn:"ParseBlockRange" ~tag ~s ~m:(c_pbr (parseBlockRange (txt str))) [ hexf (txt str) ]

(* reference writer of the grammar *)
type form = Single of string | Pair of string * string | From of string | To of string
let write_form = function Single a -> a | Pair (a, b) -> a ^ ":" ^ b | From a -> a ^ ":" | To b -> ":" ^ b
let two63 = ZA.shift_left ZA.one 63
let value (d : string) : ZA.t = zarith_of_z (num_val (txt d))
let fits d = ZA.lt (value d) two63
(* expected result of an abstract range: Some text, or None when it violates 0 <= a <= b / int range *)
let expect_form = function
  | Single a -> if fits a then Some ("range:" ^ ZA.to_string (value a) ^ ":" ^ ZA.to_string (value a)) else None
  | Pair (a, b) -> if fits a && fits b && ZA.leq (value a) (value b)
    then Some ("range:" ^ ZA.to_string (value a) ^ ":" ^ ZA.to_string (value b)) else None
  | From a -> if fits a then Some ("range:" ^ ZA.to_string (value a) ^ ":-1") else None
  | To b -> if fits b then Some ("range:-1:" ^ ZA.to_string (value b)) else None

let digit_strings (maxlen : int) : string list =   (* all non-empty digit strings up to maxlen *)
  let rec go k = if k = 0 then [ "" ] else List.concat_map (fun s -> List.init 10 (fun d -> s ^ string_of_int d)) (go (k - 1)) in
  List.concat (List.init maxlen (fun i -> go (i + 1)))

let exhaustive_strings () =
  (* every in-grammar string of length <= 4 arises from digit strings of length <= 4 *)
  let tbl = Hashtbl.create 50000 in
  let ds = digit_strings 4 in
  let add f = let s = write_form f in
    if String.length s <= 4 then
      match expect_form f with Some e -> Hashtbl.replace tbl s e | None -> () in
  List.iter (fun a -> add (Single a); add (From a); add (To a)) ds;
  let ds3 = List.filter (fun s -> String.length s <= 2) ds in
  List.iter (fun a -> List.iter (fun b -> add (Pair (a, b))) ds3) ds3;
  let alpha = "0123456789:+- a" in
  let k = String.length alpha in
  let rec all len = if len = 0 then [ "" ] else
      List.concat_map (fun s -> List.init k (fun i -> s ^ String.make 1 alpha.[i])) (all (len - 1)) in
  for len = 0 to 4 do
    List.iter (fun s ->
        if s = "" then run_pbr ~tag:"exh_none" ~s:"none" s
        else match Hashtbl.find_opt tbl s with
          | Some e -> run_pbr ~tag:"exh_ok" ~s:e s
          | None -> run_pbr ~tag:"exh_err" ~s:"err" s) (all len)
  done

let rdigits r (n : int) = String.init n (fun _ -> Char.chr (48 + rint r 10))
let rnum r : string =
  match rint r 10 with
  | 0 -> "9223372036854775807" | 1 -> "9223372036854775808" | 2 -> "0" ^ "9223372036854775807"
  | 3 -> String.make (1 + rint r 25) '0' ^ rdigits r (1 + rint r 3)
  | 4 -> rdigits r (17 + rint r 6) | 5 -> "18446744073709551616" | 6 -> "4294967296"
  | _ -> string_of_int (rint r 100000)
let gen_grammar r =
  let a = rnum r and b = rnum r in
  let f = match rint r 4 with 0 -> Single a | 1 -> Pair (a, b) | 2 -> From a | _ -> To b in
  let s = write_form f in
  match rint r 3 with
  | 0 | 1 -> (match expect_form f with
      | Some e -> run_pbr ~tag:"gr_ok" ~s:e s
      | None -> run_pbr ~tag:"gr_out_of_range" ~s:"err" s)
  | _ -> (* leave the grammar: a foreign character or a second colon *)
    let junk = pick r [| "+"; "-"; " "; "_"; "a"; "x"; "."; "\t"; "\n"; ":"; "\xd9\xa1"; "e"; "0x" |] in
    let pos = rint r (String.length s + 1) in
    let s' = String.sub s 0 pos ^ junk ^ String.sub s pos (String.length s - pos) in
    let ncolon = List.length (List.filter (fun c -> c = ':') (List.init (String.length s') (String.get s'))) in
    if junk = ":" && ncolon <= 1 then run_pbr ~tag:"gr_mut" ~s:"-" s'
    else run_pbr ~tag:"gr_junk" ~s:"err" s'

(* library models: M vs I only *)
let gen_strlib r =
  match rint r 3 with
  | 0 ->
    let sign = pick r [| ""; ""; "+"; "-"; "+-"; " " |] in
    let d = match rint r 8 with
      | 0 -> "9223372036854775807" | 1 -> "9223372036854775808" | 2 -> "9223372036854775809" | 3 -> ""
      | 4 -> String.make (rint r 30) '0' ^ rdigits r (rint r 4) | 5 -> rdigits r (18 + rint r 3) ^ pick r [| ""; "_"; "a" |]
      | 6 -> "1_000" | _ -> rdigits r (1 + rint r 6) in
    let s = sign ^ d in
    emit ~fn:"Atoi" ~tag:"atoi" ~s:"-" ~m:(c_optz (atoi (txt s))) [ hexf (txt s) ]
  | 1 ->
    let s = match rint r 8 with
      | 0 -> "4294967295" | 1 -> "4294967296" | 2 -> "" | 3 -> "+1" | 4 -> "-1" | 5 -> String.make (rint r 20) '0' ^ rdigits r 9
      | 6 -> rdigits r (1 + rint r 4) ^ pick r [| "_"; "."; "x"; "" |] | _ -> rdigits r (1 + rint r 10) in
    emit ~fn:"ParseUint32" ~tag:"parseuint" ~s:"-" ~m:(c_optz (parseUint32 (txt s))) [ hexf (txt s) ]
  | _ ->
    let n = rint r 9 in
    let s = String.init n (fun _ -> pick r [| 'a'; 'b'; '/'; '/'; '.'; '1' |]) in
    emit ~fn:"Base" ~tag:"base" ~s:"-" ~m:(c_str (base (txt s))) [ hexf (txt s) ]

(* =============================================================== 2. abstract blocks and files *)
let z16 r = z_of_zarith (match rint r 3 with 0 -> rdistinct r 16 | _ -> ru r 16)
let gen_hdr r : page_hdr =
  let lower = match rint r 8 with 0 -> 0 | 1 -> 23 | 2 -> 24 | 3 -> 25 | 4 -> 27 | 5 -> 28 | 6 -> 8192 | _ -> rint r 65536 in
  let upper = match rint r 6 with 0 -> lower - 1 | 1 -> lower | 2 -> lower + 1 | 3 -> 8192 | _ -> rint r 65536 in
  let upper = max 0 (min 65535 upper) in
  let psv = match rint r 7 with 0 -> 0x2004 | 1 -> 0x2005 | 2 -> 0x0004 | 3 -> 0x4004 | 4 -> 0x80ff | 5 -> 0x2000 | _ -> rint r 65536 in
  { pd_xlogid = z_of_zarith (rdistinct r 32); pd_xrecoff = z_of_zarith (rdistinct r 32);
    pd_checksum = z_of_zarith (rdistinct r 16); pd_flags = z16 r; pd_lower = zi lower; pd_upper = zi upper;
    pd_special = z16 r; pd_psv = zi psv }
let zero_hdr = { pd_xlogid = Z0; pd_xrecoff = Z0; pd_checksum = Z0; pd_flags = Z0; pd_lower = Z0; pd_upper = Z0; pd_special = Z0; pd_psv = Z0 }
let fill n c = List.init n (fun _ -> byte_of_int c)
(* the 8172 bytes after the header: a few distinct bytes, a long fill, a non-zero last byte *)
let gen_rest r : byte list =
  let f = if rint r 3 = 0 then 0 else rbyte r in
  rbytes r 4 @ fill (8172 - 5) f @ [ byte_of_int (1 + rint r 255) ]
let gen_block r : ablock =
  match rint r 12 with
  | 0 | 1 -> AZero
  | 2 -> APage (zero_hdr, fill 8171 0 @ [ byte_of_int (1 + rint r 255) ])     (* only the very last byte is set *)
  | 3 -> APage ({ zero_hdr with pd_xlogid = zi (1 + rint r 255) }, fill 8172 0)  (* only byte 0 is set *)
  | _ -> APage (gen_hdr r, gen_rest r)
let gen_partial r : byte list = match rint r 4 with 0 -> [] | 1 -> [ byte_of_int 7 ] | 2 -> fill 8191 (1 + rint r 255) | _ -> fill (1 + rint r 8190) (rbyte r)
let gen_file r (nb : int) : ablock list * byte list = (List.init nb (fun _ -> gen_block r), gen_partial r)
let rnb r = match rint r 40 with 0 -> 64 | 1 -> 63 | 2 -> 10 + rint r 50 | 3 | 4 | 5 -> 0 | 6 | 7 -> 7 + rint r 6 | _ -> 1 + rint r 6
let rbound r nb = match rint r 9 with 0 -> -1 | 1 -> 0 | 2 -> nb - 1 | 3 -> nb | 4 -> nb + 1 | 5 -> 70 | 6 -> -1 | _ -> rint r (nb + 2)
let rrange_arg r nb : (z * z) option =
  if rint r 8 = 0 then None else Some (zi (rbound r nb), zi (rbound r nb))

let c_read (r : (ferr, gslice) sum res) = c_res (c_sum (fun g -> c_y g.vis)) r
let s_read (f : byte list) br = match expected_read f br with None -> None | Some b -> Some (c_y b)
(* which error the documentation promises: start beyond the file, else start after end *)
let s_err (f : byte list) br =
  let nb = iz (nblocks f) in
  let lo = match br with Some (s, _) when iz s >= 0 -> iz s | _ -> 0 in
  if lo >= nb then "err:beyond" else "err:invalid"

(* S for a request on file f; the rendered block sequences are cached per (file, lo, hi) *)
let read_cache : (string * int * int, string) Hashtbl.t = Hashtbl.create 1024
let s_read_cached (f : byte list) (farg : string) (nb : z) br : string =
  match requested nb br with
  | None -> let lo = (match br with Some (s, _) when iz s >= 0 -> iz s | _ -> 0) in if lo >= iz nb then "err:beyond" else "err:invalid"
  | Some (lo, hi) ->
    let key = (farg, iz lo, iz hi) in
    (match Hashtbl.find_opt read_cache key with
     | Some y -> y
     | None -> let y = c_y (blocks_of f (between lo hi)) in
       if Hashtbl.length read_cache > 5000 then Hashtbl.reset read_cache;
       Hashtbl.replace read_cache key y; y)

let run_read ?nb ~tag (f : byte list) (farg : string) br =
  let nb = match nb with Some n -> n | None -> nblocks f in
  emit ~fn:"ReadBlockRange" ~tag ~s:(s_read_cached f farg nb br) ~m:(c_read (readBlockRange (Some f) br)) [ farg; c_brarg br ]

(* exhaustive: all (start, end) in [-1, 70]^2 on small files with and without a partial tail *)
let simple_block i = APage ({ zero_hdr with pd_xlogid = zi (0x0a0b0c00 + i); pd_lower = zi (24 + 4 * i); pd_upper = zi 8000; pd_psv = zi 0x2004 },
                            fill 8171 (0x40 + i) @ [ byte_of_int (0xe0 + i) ])
let exhaustive_ranges (full : bool) =
  let sweep lo_b hi_b (nb, partial) =
    let blocks = List.init nb (fun i -> if i = 1 && nb > 2 then AZero else simple_block i) in
    let f = enc_file blocks partial in
    let farg = runs_of_bytes f in
    let nbz = nblocks f in
    for st = lo_b to hi_b do for en = lo_b to hi_b do
        run_read ~nb:nbz ~tag:(Printf.sprintf "exh_nb%d" nb) f farg (Some (zi st, zi en))
      done done;
    run_read ~nb:nbz ~tag:"exh_nil" f farg None in
  List.iter (sweep (-1) 70) [ (0, fill 100 9); (1, fill 8191 5); (2, fill 100 7) ];
  if full then List.iter (sweep (-1) 70) [ (0, []); (1, []); (2, []); (3, fill 1 1); (4, []); (5, fill 4096 3) ]
  else sweep (-1) 5 (3, [])

(* 64-block files (the largest size the property names), boundary requests *)
let big_file = lazy (let blocks = List.init 64 (fun i -> if i mod 7 = 3 then AZero else simple_block i) in enc_file blocks [])
let big_file_tail = lazy (Lazy.force big_file @ fill 8191 0x77)
let big_ranges (full : bool) =
  let go lf pairs =
    let f = Lazy.force lf in let farg = runs_of_bytes f in let nbz = nblocks f in
    List.iter (fun (st, en) -> run_read ~nb:nbz ~tag:"big64" f farg (if st = -2 then None else Some (zi st, zi en))) pairs in
  go big_file_tail [ (-1, -1); (63, 63); (63, 70); (64, 70); (62, 64); (0, 0); (-2, -2) ];
  go big_file [ (63, -1); (64, -1); (31, 33) ];
  if full then begin
    let bounds = [ -1; 0; 1; 62; 63; 64; 65; 70 ] in
    let pairs = List.concat_map (fun a -> List.map (fun b -> (a, b)) bounds) bounds in
    go big_file pairs; go big_file_tail pairs
  end

let s_infos (blocks : ablock list) (f : byte list) br : string =
  match requested (nblocks f) br with
  | None -> s_err f br
  | Some (lo, hi) -> c_infos (expected_infos blocks lo hi)

let gen_blockrange r k =
  let nb = if k mod 5 = 4 then rnb r else 1 + rint r 5 in
  let blocks, partial = gen_file r nb in
  let f = enc_file blocks partial in
  let farg = runs_of_bytes f in
  let br = rrange_arg r nb in
  match k mod 5 with
  | 0 -> emit ~fn:"DumpBlockRange" ~tag:"dump" ~s:(s_infos blocks f br)
           ~m:(c_res (c_sum c_infos) (dumpBlockRange (Some f) br)) [ farg; c_brarg br ]
  | 1 ->
    let s = match requested (nblocks f) br with
      | None -> s_err f br
      | Some (lo, hi) -> c_stats (expected_stats (expected_infos blocks lo hi) lo hi) in
    emit ~fn:"GetBlockRangeStats" ~tag:"stats" ~s ~m:(c_res (c_sum c_stats) (getBlockRangeStats (Some f) br)) [ farg; c_brarg br ]
  | 2 ->
    let s = match requested (nblocks f) br with
      | None -> s_err f br
      | Some (lo, hi) ->
        c_list (List.map (fun n -> c_bindump { bd_num = n; bd_off = zi (bs * iz n); bd_hex = block n f; bd_size = zi bs }) (between lo hi)) in
    emit ~fn:"DumpBinaryRange" ~tag:"bindump" ~s ~m:(c_res (c_sum (fun l -> c_list (List.map c_bindump l))) (dumpBinaryRange_x (Some f) br))
      [ farg; c_brarg br ]
  | 3 ->
    let n = rbound r nb in
    let s = if n < 0 then "err:negative" else if n >= nb then "err:beyond"
      else c_bindump { bd_num = zi n; bd_off = zi (bs * n); bd_hex = block (zi n) f; bd_size = zi bs } in
    emit ~fn:"DumpBinaryBlock" ~tag:"binblock" ~s ~m:(c_res (c_sum c_bindump) (dumpBinaryBlock_x (Some f) (zi n))) [ farg; string_of_int n ]
  | _ -> run_read ~tag:"read_rand" f farg br

let gen_blockinfo r =
  let b = gen_block r in
  let img = enc_block b in
  let num = z_of_zarith (match rint r 3 with 0 -> ZA.zero | 1 -> ZA.of_string "4294967295" | _ -> ru r 32) in
  let c_opt = function None -> "nil" | Some i -> c_info i in
  match rint r 6 with
  | 0 -> (* too short: nil *)
    let n = pick r [| 0; 1; 19; 24; 8191 |] in
    let v = List.filteri (fun i _ -> i < n) img in
    let t = if rbool r then rbytes r 16 else [] in
    emit ~fn:"ParseBlockInfo" ~tag:"short" ~s:"nil" ~m:(c_res c_opt (parseBlockInfo { vis = v; tail = t } num)) [ runs_of_bytes v; runs_of_bytes t; zs num ]
  | 1 -> (* longer than a page: only the first 8192 bytes count *)
    let v = img @ rbytes r (1 + rint r 40) in
    emit ~fn:"ParseBlockInfo" ~tag:"long" ~s:(c_info (expected_info b num)) ~m:(c_res c_opt (parseBlockInfo { vis = v; tail = [] } num)) [ runs_of_bytes v; "-"; zs num ]
  | _ ->
    let t = if rbool r then rbytes r (rint r 30) else [] in
    emit ~fn:"ParseBlockInfo" ~tag:"page" ~s:(c_info (expected_info b num)) ~m:(c_res c_opt (parseBlockInfo { vis = img; tail = t } num)) [ runs_of_bytes img; runs_of_bytes t; zs num ]

(* =============================================================== 3. segments *)
let mk_fs (files : (string * byte list) list) : fsys = fun p -> List.assoc_opt (string_of_bytes p) files
let c_fsarg (files : (string * byte list) list) : string =
  if files = [] then "-" else String.concat ";" (List.map (fun (n, d) -> n ^ "=" ^ runs_of_bytes d) files)
let idblock (tag : int) (i : int) : byte list =      (* a block that names itself *)
  [ byte_of_int (0x80 + tag); byte_of_int (i lsr 8); byte_of_int i ] @ fill (bs - 4) (0x10 + (i land 0x3f)) @ [ byte_of_int (0xc0 + (i land 0x1f)) ]

let gen_g2s r =
  let g = match rint r 6 with 0 -> 0 | 1 -> 131071 | 2 -> 131072 | 3 -> - (rint r 300000) | 4 -> rint r 1000000 | _ -> rint r 40 in
  let sz = match rint r 9 with 0 -> 0 | 1 -> -5 | 2 -> 8191 | 3 -> 8192 | 4 -> 1 | 5 -> 1073741824 | 6 -> 8192 * (1 + rint r 5) | 7 -> 8192 * (1 + rint r 5) + rint r 8192 | _ -> 16384 in
  let s = if g >= 0 && sz >= bs then let (a, b) = seg_of (zi g) (zi (sz / bs)) in zs a ^ "," ^ zs b else "-" in
  let tag = if sz < bs then "g2s_small" else if g < 0 then "g2s_neg" else "g2s" in
  emit ~fn:"GlobalBlockToSegment" ~tag ~s ~m:(c_res (fun (a, b) -> zs a ^ "," ^ zs b) (globalBlockToSegment (zi g) (zi sz))) [ string_of_int g; string_of_int sz ]

let gen_segpath r =
  let dir = pick r [| ""; "/"; "/pg/base/16384/"; "a.5/"; "x/y.9/"; "./" |] in
  let basename = pick r [| "16384"; "1259"; "rel"; "16384_fsm"; "t3_16385"; "" |] in
  match rint r 4 with
  | 0 | 1 ->
    let n = match rint r 5 with 0 -> 1 | 1 -> 10 | 2 -> 999 | 3 -> rint r 13 | _ -> rint r 100000 in
    if basename = "" then () else
      let p = dir ^ basename ^ "." ^ string_of_int n in
      emit ~fn:"GetSegmentNumberFromPath" ~tag:"segnum" ~s:(string_of_int n) ~m:(zs (getSegmentNumberFromPath (txt p))) [ hexf (txt p) ]
  | 2 ->
    if basename = "" then () else
      let p = dir ^ basename in
      emit ~fn:"GetSegmentNumberFromPath" ~tag:"segnum0" ~s:"0" ~m:(zs (getSegmentNumberFromPath (txt p))) [ hexf (txt p) ]
  | _ ->
    let p = dir ^ basename ^ pick r [| ".txt"; ".1.2"; ".-3"; ".+4"; "."; ".1/"; ".7//"; ".0x1"; ".9223372036854775808"; "..5" |] in
    emit ~fn:"GetSegmentNumberFromPath" ~tag:"segnum_odd" ~s:"-" ~m:(zs (getSegmentNumberFromPath (txt p))) [ hexf (txt p) ]

(* a relation of nseg segment files with bps blocks per segment, all but the last full *)
let gen_relation r =
  let bps = pick r [| 1; 1; 2; 2; 3; 5 |] in
  let nseg = match rint r 8 with 0 -> 1 | 1 -> (if bps <= 2 then 12 else 4) | 2 -> (if bps = 1 then 1 + rint r 12 else 1 + rint r 5) | _ -> 1 + rint r 4 in
  let last = rint r (bps + 1) in
  let tagb = rint r 64 in
  let segs = List.init nseg (fun k ->
      let nbk = if k = nseg - 1 then last else bps in
      List.concat (List.init nbk (fun i -> idblock tagb (k * bps + i))) @ (if k = nseg - 1 then gen_partial r else [])) in
  let name k = if k = 0 then "rel" else "rel." ^ string_of_int k in
  (bps, nseg, segs, List.mapi (fun k d -> (name k, d)) segs)

let gen_multiseg r =
  let bps, nseg, segs, files = gen_relation r in
  let total = (nseg - 1) * bps + (List.length (List.nth segs (nseg - 1)) / bs) in
  let a = match rint r 9 with 0 -> 0 | 1 -> total - 1 | 2 -> total | 3 -> total + 1 | _ -> rint r (max 1 total) in
  let a = max 0 a in
  let b = match rint r 6 with 0 -> a - 1 | 1 -> a | 2 -> total - 1 | 3 -> total | 4 -> total + 3 | _ -> a + rint r (total + 2) in
  let segnum = if rbool r then 0 else rint r 20 in
  let extra = if rint r 4 = 0 then rint r bs else 0 in       (* segment size need not be a multiple of the block size *)
  let opts = Some (zi segnum, zi (bps * bs + extra)) in
  let run ~tag ~s files a b opts =
    emit ~fn:"ReadMultiSegmentFile" ~tag ~s ~m:(c_res (c_sum c_y) (readMultiSegmentFile (mk_fs files) (txt "rel") (zi a) (zi b) opts))
      [ c_fsarg files; "rel"; string_of_int a; string_of_int b; c_optsarg opts ] in
  match rint r 10 with
  | 0 | 9 -> (* a middle segment is missing or short: model vs implementation only.  The victim is a NON-final segment whenever
                there are two or more, and the requested range usually starts before the hole and ends behind it, so that what
                happens after the first unreadable block shows (seeded change C19-5: `continue` instead of `break`) *)
    let victim = if nseg >= 2 then rint r (nseg - 1) else 0 in
    let a = if rint r 3 > 0 then rint r (max 1 (victim * bps + 1)) else a in
    let b = if rint r 3 > 0 then total + rint r 3 else b in
    let files' = if rbool r then List.filteri (fun i _ -> i <> victim) files
      else List.mapi (fun i (n, d) -> if i = victim then (n, List.filteri (fun j _ -> j < (List.length d / bs / 2) * bs) d) else (n, d)) files in
    run ~tag:"multi_gap" ~s:"-" files' a b opts
  | 1 -> run ~tag:"multi_neg" ~s:"err:negative" files (- (1 + rint r 5)) b opts
  | 2 -> run ~tag:"multi_defaultsize" ~s:"-" files a b (pick r [| None; Some (zi 3, zi 0); Some (Z0, zi 8191); Some (Z0, zi (-1)) |])
  | 3 -> run ~tag:"multi_nofiles" ~s:"err:nosegments" [] a b opts
  | _ ->
    let hi = min b (total - 1) in
    let s = c_y (blocks_of (logical segs) (between (zi a) (zi hi))) in
    run ~tag:(if a > hi then "multi_empty" else if b >= total then "multi_clamped" else "multi") ~s files a b opts

let gen_seginfo r =
  let bps, nseg, segs, files = gen_relation r in
  let k = rint r nseg in
  let name = fst (List.nth files k) and data = snd (List.nth files k) in
  let flen = List.length data in
  match rint r 4 with
  | 0 ->
    let on = pick r [| 0; 0; 3; -2 |] and osz = pick r [| 0; bps * bs; -1; 4096 |] in
    let opts = if rint r 3 = 0 then None else Some (zi on, zi osz) in
    let num = (match opts with Some _ when on > 0 -> on | _ -> k) in
    let size = (match opts with Some _ when osz > 0 -> osz | _ -> 1073741824) in
    let s = c_rec [ "path", name; "num", string_of_int num; "size", string_of_int size; "fsize", string_of_int flen;
                    "blocks", string_of_int (flen / bs); "goff", string_of_int (num * size) ] in
    emit ~fn:"GetSegmentInfo" ~tag:"seginfo" ~s ~m:(c_sum c_seginfo (getSegmentInfo (mk_fs files) (txt name) opts)) [ c_fsarg files; name; c_optsarg opts ]
  | 1 ->
    let files' = if rint r 5 = 0 then List.filteri (fun i _ -> i <> rint r nseg) files else files in
    let files' = if rint r 6 = 0 then files' @ [ ("rel.x", [ byte_of_int 1 ]); ("rel.01", [ byte_of_int 2 ]); ("rel.1000", []) ] else files' in
    let expected =
      let rec upto i = if i < 1000 && List.mem_assoc ("rel." ^ string_of_int i) files' then i :: upto (i + 1) else [] in
      (if List.mem_assoc "rel" files' then [ 0 ] else []) @ upto 1 in
    let s = c_list (List.map (fun i ->
        let nm = if i = 0 then "rel" else "rel." ^ string_of_int i in let l = List.length (List.assoc nm files') in
        c_rec [ "path", nm; "num", string_of_int i; "size", "1073741824"; "fsize", string_of_int l; "blocks", string_of_int (l / bs);
                "goff", string_of_int (i * 1073741824) ]) expected) in
    emit ~fn:"ListSegments" ~tag:"listseg" ~s ~m:(c_list (List.map c_seginfo (listSegments (mk_fs files') (txt "rel")))) [ c_fsarg files'; "rel" ]
  | _ ->
    let nbk = flen / bs in
    let n = match rint r 6 with 0 -> -1 | 1 -> nbk | 2 -> nbk - 1 | 3 -> 0 | _ -> rint r (nbk + 1) in
    let opts = if rbool r then None else Some (zi (rint r 3), zi (bps * bs)) in
    let s = if n < 0 then "err:negative" else if n >= nbk then "err:beyond" else c_y (block (zi n) data) in
    emit ~fn:"ReadSegmentBlock" ~tag:"segblock" ~s ~m:(c_sum (fun g -> c_y g.vis) (readSegmentBlock (mk_fs files) (txt name) (zi n) opts))
      [ c_fsarg files; name; string_of_int n; c_optsarg opts ]

(* =============================================================== 4. checksums *)
let set_cks (b : byte list) (v : int) : byte list =
  List.mapi (fun i x -> if i = 8 then byte_of_int (v land 255) else if i = 9 then byte_of_int (v lsr 8) else x) b
type ckind = CZero | CGood | CBad
(* a block whose stored checksum matches / does not match the tool's own function for number num *)
let gen_cblock r (num : int) : ckind * byte list * int * int =
  match rint r 5 with
  | 0 -> (CZero, fill bs 0, 0, 0)
  | k ->
    let body = (match gen_block r with AZero -> APage (gen_hdr r, gen_rest r) | b -> b) in
    let img = enc_block body in
    let c = iz (model_compute img (zi num)) in
    if k <= 2 then (CGood, set_cks img c, c, c)
    else let bad = (match rint r 4 with 0 -> c lxor 1 | 1 -> c lxor 0x8000 | 2 -> (c + 1) land 0xffff | _ -> (c lxor (1 + rint r 0xfffe)) land 0xffff) in
      (CBad, set_cks img bad, bad, c)
let le32 (b : byte list) off = let g i = int_of_byte (List.nth b (off + i)) in g 0 lor (g 1 lsl 8) lor (g 2 lsl 16) lor (g 3 lsl 24)

let gen_cfile r (seg : int) (nb : int) =
  let base = (seg * 131072) land 0xffffffff in
  let blocks = List.init nb (fun i -> gen_cblock r ((base + i) land 0xffffffff)) in
  let data = List.concat (List.map (fun (_, b, _, _) -> b) blocks) in
  let count f = List.length (List.filter (fun (k, _, _, _) -> f k) blocks) in
  let errors = List.concat (List.mapi (fun i (k, b, st, c) -> if k <> CBad then [] else
                                          let hi = le32 b 0 and lo = le32 b 4 in
                                          [ c_rec [ "num", string_of_int ((base + i) land 0xffffffff); "stored", string_of_int st; "computed", string_of_int c;
                                                    "valid", "false"; "lsn", ZA.to_string (ZA.add (ZA.shift_left (ZA.of_int hi) 32) (ZA.of_int lo));
                                                    "lsnstr", Printf.sprintf "%X/%X" hi lo ] ]) blocks) in
  let nbad = count (fun k -> k = CBad) in
  let s = c_rec [ "total", string_of_int nb; "valid", string_of_int (nb - nbad); "invalid", string_of_int nbad;
                  "zero", string_of_int (count (fun k -> k = CZero)); "errors", c_list errors ] in
  (data, s, nb, nb - nbad, nbad, errors <> [])

let gen_checksum r k =
  match k mod 8 with
  | 0 ->
    let a = z_of_zarith (match rint r 4 with 0 -> ZA.zero | 1 -> ZA.of_int (rint r 32) | _ -> ru r 32) and v = z_of_zarith (ru r 32) in
    emit ~fn:"checksumComp" ~tag:"comp" ~s:"-" ~m:(zs (checksumComp a v)) [ zs a; zs v ]
  | 1 ->
    let img = enc_block (gen_block r) in
    let v = match rint r 5 with 0 -> List.filteri (fun i _ -> i < pick r [| 0; 7; 9; 10; 100; 8191 |]) img | 1 -> img @ rbytes r 9 | _ -> img in
    let t = if rbool r then rbytes r 12 else [] in
    let num = z_of_zarith (ru r 32) in
    emit ~fn:"computePageChecksum" ~tag:"compute" ~s:"-" ~m:(zs (computePageChecksum { vis = v; tail = t } num)) [ runs_of_bytes v; runs_of_bytes t; zs num ];
    if rint r 3 = 0 then
      emit ~fn:"pgChecksumBlock" ~tag:"pgblock" ~s:"-" ~m:(zs (pgChecksumBlock { vis = v; tail = t } num)) [ runs_of_bytes v; runs_of_bytes t; zs num ]
  | 2 -> (* the stored checksum field does not influence the computed one *)
    let img = enc_block (APage (gen_hdr r, gen_rest r)) in
    let num = z_of_zarith (ru r 32) in
    let c = model_compute (set_cks img 0) num in
    let img' = set_cks img (1 + rint r 0xffff) in
    emit ~fn:"computePageChecksum" ~tag:"field_indep" ~s:(zs c) ~m:(zs (model_compute img' num)) [ runs_of_bytes img'; "-"; zs num ]
  | 3 ->
    let num = (match rint r 3 with 0 -> 0 | 1 -> 0xffffffff | _ -> rint r 2000000) in
    let (kind, img, st, c) = gen_cblock r num in
    let v, tag = match rint r 6 with 0 -> List.filteri (fun i _ -> i < 8191) img, "page_short" | 1 -> img @ [ byte_of_int (rint r 2) ], "page_long" | _ -> img, "page" in
    let t = if rbool r then rbytes r 10 else [] in
    let hi = le32 img 0 and lo = le32 img 4 in
    let s = if tag <> "page" then "-" else
        match kind with
        | CZero -> c_rec [ "num", string_of_int num; "stored", "0"; "computed", "0"; "valid", "true"; "lsn", "0"; "lsnstr", "" ]
        | _ -> c_rec [ "num", string_of_int num; "stored", string_of_int st; "computed", string_of_int c; "valid", c_bool (kind = CGood);
                       "lsn", ZA.to_string (ZA.add (ZA.shift_left (ZA.of_int hi) 32) (ZA.of_int lo)); "lsnstr", Printf.sprintf "%X/%X" hi lo ] in
    emit ~fn:"VerifyPageChecksum" ~tag ~s ~m:(c_res c_cr (verifyPageChecksum { vis = v; tail = t } (zi num))) [ runs_of_bytes v; runs_of_bytes t; string_of_int num ]
  | 4 | 5 ->
    let seg = match rint r 6 with 0 -> 0 | 1 -> 1 | 2 -> 12 | 3 -> 32768 | 4 -> 40000 | _ -> rint r 13 in
    let nb = match rint r 6 with 0 -> 0 | 1 -> 1 | 2 -> 5 | _ -> 1 + rint r 3 in
    let (data, s, _, _, _, _) = gen_cfile r seg nb in
    let partial = gen_partial r in
    let v = data @ partial in
    let t = if rint r 3 = 0 then rbytes r 20 else [] in
    emit ~fn:"VerifyFileChecksums" ~tag:(if seg >= 32768 then "file_wrap" else "file") ~s
      ~m:(c_res c_fr (verifyFileChecksums { vis = v; tail = t } (zi seg))) [ runs_of_bytes v; runs_of_bytes t; string_of_int seg ]
  | _ ->
    (* a data directory: several databases; relation files, segments .1 .. .12, forks, other files *)
    let ndb = 1 + rint r 3 in
    let tot_files = ref 0 and tot_blocks = ref 0 and tot_valid = ref 0 and tot_invalid = ref 0 and listed = ref [] in
    let entries = ref [] in
    let dirs = ref [] in
    let dbnames = List.sort_uniq compare (List.init ndb (fun _ -> pick r [| "1"; "5"; "13010"; "16384"; "16385"; "4294967295" |])) in
    let others = [ ("pgsql_tmp", true); ("PG_VERSION", false); ("x1", true); ("4294967296", true); ("12a", true); ("16390", false) ] in
    let chosen_others = List.filter (fun _ -> rint r 3 = 0) others in
    let all_dirs = List.sort compare (List.map (fun n -> (n, true, true)) dbnames @ List.map (fun (n, d) -> (n, d, false)) chosen_others) in
    List.iter (fun (dn, isdir, isdb) ->
        if not isdir then begin
          entries := ("f:base/" ^ dn ^ ":" ^ runs_of_bytes [ byte_of_int 1 ]) :: !entries;
          dirs := { de_name = txt dn; de_isdir = false; de_files = None } :: !dirs
        end else begin
          entries := ("d:base/" ^ dn) :: !entries;
          let nfiles = 1 + rint r 4 in
          let names = List.sort_uniq compare (List.init nfiles (fun _ ->
              let node = pick r [| "1259"; "16384"; "16385"; "2619"; "0"; "007" |] in
              match rint r 14 with
              | 0 | 1 | 2 -> node
              | 3 | 4 | 5 | 6 -> node ^ "." ^ string_of_int (pick r [| 1; 2; 9; 10; 11; 12; 1 + rint r 12 |])
              | 7 -> node ^ pick r [| "_fsm"; "_vm"; "_init"; "_fsm.1"; "_vm.2" |]
              | 8 | 9 | 10 -> (* near misses of the name pattern *)
                pick r [| "pg_filenode.map"; "PG_VERSION"; "t3_16384"; "16384.x"; "16384.1.2"; ".1"; "16384."; "4294967296"; "16384.4294967296";
                          "+5"; "16384.-1"; "16384.a"; "1_6"; "16384.+1"; "16384.1x"; "x16384.1"; "16384.1."; "42949672950"; "16384.42949672950";
                          "4294967295"; "16384.4294967295"; "16384..1"; " 16384"; "16384 " |]
              | 11 -> node ^ ".0"
              | 12 -> "subdir" ^ string_of_int (rint r 3)
              | _ -> "4294967295." ^ string_of_int (rint r 13))) in
          let files = List.map (fun fn ->
              if String.length fn >= 6 && String.sub fn 0 6 = "subdir" then begin
                entries := ("d:base/" ^ dn ^ "/" ^ fn) :: !entries;
                { fe_name = txt fn; fe_isdir = true; fe_data = [] }
              end else begin
                let seg = (match spec_relfile (txt fn) with Some s -> iz s | None -> 0) in
                let nb = match rint r 6 with 0 -> 0 | 1 -> 2 | _ -> 1 in
                let (data, s, nbk, nv, ni, haserr) = gen_cfile r seg nb in
                let data = data @ (if rint r 3 = 0 then gen_partial r else []) in
                entries := ("f:base/" ^ dn ^ "/" ^ fn ^ ":" ^ runs_of_bytes data) :: !entries;
                if isdb && spec_relfile (txt fn) <> None && nbk >= 1 then begin
                  incr tot_files; tot_blocks := !tot_blocks + nbk; tot_valid := !tot_valid + nv; tot_invalid := !tot_invalid + ni;
                  if haserr then listed := (dn ^ "/" ^ fn ^ "=" ^ s) :: !listed
                end;
                { fe_name = txt fn; fe_isdir = false; fe_data = data }
              end) names in
          dirs := { de_name = txt dn; de_isdir = true; de_files = Some files } :: !dirs
        end) all_dirs;
    let tree = List.rev !dirs in
    let s = c_rec [ "files", string_of_int !tot_files; "blocks", string_of_int !tot_blocks; "valid", string_of_int !tot_valid;
                    "invalid", string_of_int !tot_invalid; "list", c_list (List.rev !listed) ] in
    (* cross-check the driver's own bookkeeping against the Coq specification of the same quantity *)
    let s2 = c_dr (expected_dir_result model_compute tree) in
    if s <> s2 then (prerr_endline ("driver self-check failed (data directory expectation)\n" ^ s ^ "\n" ^ s2); exit 3);
    emit ~fn:"VerifyDataDirChecksums" ~tag:"datadir" ~s ~m:(c_res (c_sum c_dr) (verifyDataDirChecksums (Some tree)))
      [ String.concat ";" (List.rev !entries) ]

let gen_nodir () =
  emit ~fn:"VerifyDataDirChecksums" ~tag:"datadir_nobase" ~s:"err:basedir" ~m:(c_res (c_sum c_dr) (verifyDataDirChecksums None)) [ "d:other" ]

(* =============================================================== main *)
let gen_case r k =
  match k mod 20 with
  | 0 | 1 -> gen_grammar r
  | 2 -> gen_strlib r
  | 3 | 4 | 5 | 6 | 7 -> gen_blockrange r (k / 20 * 5 + (k mod 20 - 3))
  | 8 | 9 -> gen_blockinfo r
  | 10 -> gen_g2s r
  | 11 -> gen_segpath r
  | 12 | 13 | 14 -> gen_multiseg r
  | 15 -> gen_seginfo r
  | _ -> gen_checksum r (k / 20 * 4 + (k mod 20 - 16))

let gen seed n =
  exhaustive_strings ();
  let full = n >= 20000 in
  exhaustive_ranges full;
  big_ranges full;
  gen_nodir ();
  emit ~fn:"ReadBlockRange" ~tag:"missing" ~s:"err:open" ~m:(c_read (readBlockRange None None)) [ "!"; "nil" ];
  for k = 0 to n - 1 do gen_case (rng_for seed k) k done
let () = main gen
