(* C19 driver, part 1: textual codecs and canonical printers (must agree with harness/c19_util.go). *)
open Model
open Util

(* ---- run-length text for byte strings:  items separated by '.', each  hh  or  hh*N (N >= 2);
        "-" is the empty string.  Maximal runs only, so the text is canonical. ---- *)
let runs_of_bytes (bs : byte list) : string =
  match bs with
  | [] -> "-"
  | x :: r ->
    let b = Buffer.create 256 in
    let flush c n =
      if Buffer.length b > 0 then Buffer.add_char b '.';
      Buffer.add_char b hexdig.[c lsr 4]; Buffer.add_char b hexdig.[c land 15];
      if n > 1 then (Buffer.add_char b '*'; Buffer.add_string b (string_of_int n)) in
    let rec go cur n = function
      | [] -> flush cur n
      | y :: r -> let i = int_of_byte y in if i = cur then go cur (n + 1) r else (flush cur n; go i 1 r) in
    go (int_of_byte x) 1 r; Buffer.contents b

let bytes_of_runs (s : string) : byte list =
  if s = "-" then [] else
    let items = String.split_on_char '.' s in
    let acc = ref [] in
    List.iter (fun it ->
        let h, n = match String.index_opt it '*' with
          | None -> it, 1
          | Some i -> String.sub it 0 i, int_of_string (String.sub it (i + 1) (String.length it - i - 1)) in
        let c = byte_of_int (hexval h.[0] * 16 + hexval h.[1]) in
        for _ = 1 to n do acc := c :: !acc done) items;
    List.rev !acc

let c_y (bs : byte list) : string = "y:" ^ runs_of_bytes bs
let zr i = zi i
let z64 (x : ZA.t) : z = z_of_zarith x
let txt (s : string) : byte list = bytes_of_string s

let c_ferr = function
  | EOpen -> "err:open" | EBeyond -> "err:beyond" | EInvalid -> "err:invalid" | EIO -> "err:io"
  | ENegative -> "err:negative" | ENoSegments -> "err:nosegments" | EBaseDir -> "err:basedir"
let c_sum (f : 'a -> string) (r : (ferr, 'a) sum) : string = match r with Inl e -> c_ferr e | Inr a -> f a

let c_pbr = function PBRNone -> "none" | PBRErr -> "err" | PBRRange (a, b) -> "range:" ^ zs a ^ ":" ^ zs b
let c_optz = function None -> "err" | Some v -> zs v

let hexup (x : z) : string = ZA.format "%X" (zarith_of_z x)
let c_lsn hi lo = hexup hi ^ "/" ^ hexup lo
let c_info (b : blockInfo) : string =
  c_rec [ "num", zs b.bi_num; "lsn", (if b.bi_empty then "" else c_lsn b.bi_lsn_hi b.bi_lsn_lo);
          "checksum", zs b.bi_checksum; "flags", zs b.bi_flags; "lower", zs b.bi_lower; "upper", zs b.bi_upper;
          "special", zs b.bi_special; "pagesize", zs b.bi_pagesize; "version", zs b.bi_version;
          "items", zs b.bi_items; "free", zs b.bi_free; "empty", c_bool b.bi_empty ]
let c_infos l = c_list (List.map c_info l)
let c_stats (s : stats) : string =
  c_rec [ "total", zs s.st_total; "start", zs s.st_start; "end", zs s.st_end; "empty", zs s.st_empty;
          "used", zs s.st_used; "items", zs s.st_items; "free", zs s.st_free;
          "fill", (match s.st_fill with None -> "0/0" | Some (u, c) -> zs u ^ "/" ^ zs c) ]
let c_bindump (d : binDump) : string =
  c_rec [ "num", zs d.bd_num; "off", zs d.bd_off; "hex", "hexdump(" ^ runs_of_bytes d.bd_hex ^ ")"; "size", zs d.bd_size ]
let c_seginfo (s : segmentInfo) : string =
  c_rec [ "path", string_of_bytes s.si_path; "num", zs s.si_num; "size", zs s.si_size; "fsize", zs s.si_fsize;
          "blocks", zs s.si_blocks; "goff", zs s.si_goff ]
let c_cr (c : checksumResult) : string =
  c_rec [ "num", zs c.cr_num; "stored", zs c.cr_stored; "computed", zs c.cr_computed; "valid", c_bool c.cr_valid;
          "lsn", zs c.cr_lsn; "lsnstr", (match c.cr_lsnstr with None -> "" | Some (h, l) -> c_lsn h l) ]
let c_fr (f : fileResult) : string =
  c_rec [ "total", zs f.fr_total; "valid", zs f.fr_valid; "invalid", zs f.fr_invalid; "zero", zs f.fr_zero;
          "errors", c_list (List.map c_cr f.fr_errors) ]
let c_dr (d : dirResult) : string =
  c_rec [ "files", zs d.dr_files; "blocks", zs d.dr_blocks; "valid", zs d.dr_valid; "invalid", zs d.dr_invalid;
          "list", c_list (List.map (fun ((dn, fn), fr) -> string_of_bytes dn ^ "/" ^ string_of_bytes fn ^ "=" ^ c_fr fr) d.dr_list) ]

(* block range argument:  "nil" or  start,end *)
let c_brarg = function None -> "nil" | Some (a, b) -> zs a ^ "," ^ zs b
(* segment options argument: "nil" or num,size *)
let c_optsarg = c_brarg
(* file argument: "!" = the file does not exist *)
let c_filearg = function None -> "!" | Some bs -> runs_of_bytes bs
