(* C01 driver: abstract clusters (coq/C01/Spec.v) laid out by the extracted reference writer enc_cluster / enc_heap,
   S = expected_dump on the abstract value, M = the extracted model of DumpDataDir / DumpDatabaseFromFiles / the
   catalog parsers on the bytes, I = the Go functions on the same bytes (files materialised by the harness).
   Every choice derives from (seed, case index); each stratum has its own tag. *)
open Model
open Util
open Value
open C01_render
open C01_world

let note fmt = Printf.ksprintf (fun s -> prerr_endline ("C01 gen: " ^ s)) fmt

(* ---------------------------------------------------------------- emitters *)
let fs_fun (fs : (path * byte list) list) : path -> byte list option = fun p -> List.assoc_opt p fs

(* a well-formed cluster: spec expectation from the abstract value *)
let emit_cluster ~tag ?(allow_zero_col = false) (c : cluster) (opts : options option) =
  check_wf ~allow_zero_col c;
  let files = enum_files c in
  let s = c_dump (expected_dump_i c opts) in
  let m = c_dump_res (dumpDataDir_i (enc_cluster c) opts) in
  let kf = kf_of c opts in
  if s <> m && kf = None then note "%s: model differs from the specification on a well-formed cluster outside the known-finding classes" tag;
  emit ~fn:"DumpDataDir" ~tag ?kf ~s ~m (opts_arg opts :: files_args files)

(* any file system: model vs implementation only *)
let emit_fs ~tag (fs : (path * byte list) list) (opts : options option) =
  let m = c_dump_res (dumpDataDir_i (fs_fun fs) opts) in
  emit ~fn:"DumpDataDir" ~tag ~s:"-" ~m (opts_arg opts :: files_args fs)

let reader_of (tbl : (int * byte list) list) : z -> gslice option =
  fun fn -> match List.assoc_opt (iz fn) tbl with Some b -> Some (gs b) | None -> None
let emit_dff ~tag ?kf ~(s : string) (cls : gslice) (att : gslice) (reader : (int * byte list) list option) (opts : options option) =
  let rd = match reader with None -> None | Some t -> Some (reader_of t) in
  let m = c_res c_db (dumpDatabaseFromFiles_i cls att rd opts) in
  let m' = c_res c_db (dumpDatabaseFromFiles_id cls att rd opts) in
  if m <> m' then failwith "C01 driver: DumpDatabaseFromFiles model depends on the map iteration order";
  emit ~fn:"DumpDatabaseFromFiles" ~tag ?kf ~s ~m
    ([ opts_arg opts; (match reader with None -> "nil" | Some _ -> "fn"); hexf cls.vis; hexf cls.tail; hexf att.vis; hexf att.tail ]
     @ (match reader with None -> [] | Some t -> List.concat_map (fun (n, b) -> [ string_of_int n; hexf b ]) t))

let dir_bytes ~v16 (d : dbdir) =
  (enc_heap schemaPGClass class_ds d.dir_class, enc_heap (attr_schema v16) (attr_ds v16) d.dir_attr,
   List.map (fun rf -> (iz rf.rf_node, enc_heap rf.rf_cols idds rf.rf_heap)) d.dir_files)

(* DumpDatabaseFromFiles on a well-formed directory *)
let emit_dir ~tag ?(allow_zero_col = false) ?(nilreader = false) r ~v16 (d : dbdir) (opts : options option) =
  check_wf ~allow_zero_col { cl_v16 = v16; cl_pgdb = []; cl_dirs = [ d ] };
  let (cb, ab, files) = dir_bytes ~v16 d in
  (* a nil reader is a directory without relation files *)
  let dspec = if nilreader then { d with dir_files = [] } else d in
  let s = c_db { dd_oid = zi 0; dd_name = []; dd_tables = expected_tables_i dspec (eff_opts opts) } in
  let kf = kf_of_dir ~v16 dspec opts in
  emit_dff ~tag ?kf ~s (gs ~tail:(rtail r) cb) (gs ~tail:(rtail r) ab) (if nilreader then None else Some files) opts

(* the catalog parsers on one cluster's files; [wf]: spec expectations from the live rows *)
let emit_parsers ?(pgdb_only = false) r ~tagp ~(wf : bool) (c : cluster) (opts : options option) =
  let ver = (eff_opts opts).o_pgversion in
  let v16 = c.cl_v16 in
  if c.cl_pgdb <> [] then begin
    let pg = enc_heap schemaPGDatabase db_ds c.cl_pgdb in
    let tl = rtail r in
    emit ~fn:"ParsePGDatabase" ~tag:(tagp ^ "/pgdb") ~s:(if wf then s_pgdb (live_rows c.cl_pgdb) else "-") ~m:(m_pgdb (parsePGDatabase_i (gs ~tail:tl pg))) [ hexf pg; hexf tl ]
  end;
  (* the directory with the most pg_attribute rows *)
  let best = List.fold_left (fun acc (d : dbdir) -> match acc with
      | Some (b : dbdir) when List.length (live_rows b.dir_attr) >= List.length (live_rows d.dir_attr) -> acc
      | _ -> Some d) None c.cl_dirs in
  match best with
  | None -> ()
  | Some _ when pgdb_only -> ()
  | Some d ->
    let (cb, ab, _) = dir_bytes ~v16 d in
    let tl = rtail r in
    emit ~fn:"ParsePGClass" ~tag:(tagp ^ "/class") ~s:(if wf then s_class (live_rows d.dir_class) else "-") ~m:(m_class (parsePGClass_i (gs ~tail:tl cb))) [ hexf cb; hexf tl ];
    let atts = live_rows d.dir_attr in
    let ok = detect_ok_attrs v16 ver atts in
    let kf = if ok then None else Some "C01-detect-v16" in
    let tl = rtail r in
    emit ~fn:"ParsePGAttribute" ~tag:(tagp ^ "/attr") ?kf ~s:(if wf then s_attr atts else "-") ~m:(m_attr (parsePGAttribute_i (gs ~tail:tl ab) ver)) [ hexf ab; hexf tl; zs ver ];
    let tl = rtail r in
    emit ~fn:"detectAttrSchema" ~tag:(tagp ^ "/detect") ?kf ~s:(if wf then (if v16 then "v16" else "v15") else "-") ~m:(m_detect (detectAttrSchema_i (gs ~tail:tl ab) ver))
      [ hexf ab; hexf tl; zs ver ]

(* parsers on arbitrary bytes *)
let emit_raw_parsers r ~tagp (b : byte list) ~(ver : int) =
  let tl = rtail r in
  let g = gs ~tail:tl b in
  let a = [ hexf b; hexf tl ] in
  emit ~fn:"ParsePGDatabase" ~tag:(tagp ^ "/pgdb") ~s:"-" ~m:(m_pgdb (parsePGDatabase_i g)) a;
  emit ~fn:"ParsePGClass" ~tag:(tagp ^ "/class") ~s:"-" ~m:(m_class (parsePGClass_i g)) a;
  emit ~fn:"ParsePGAttribute" ~tag:(tagp ^ "/attr") ~s:"-" ~m:(m_attr (parsePGAttribute_i g (zi ver))) (a @ [ string_of_int ver ]);
  emit ~fn:"detectAttrSchema" ~tag:(tagp ^ "/detect") ~s:"-" ~m:(m_detect (detectAttrSchema_i g (zi ver))) (a @ [ string_of_int ver ])

(* ---------------------------------------------------------------- strata: well-formed clusters *)
let hint_auto r = pick r [| 0; 11; -1 |]
let plain (p : prof) = { p with tf = TfNone; dbf = DbNone; skipsys = false; listonly = false; optsnil = false }
let wf_strata : (string * bool * (rng -> prof -> prof)) array = [|
  "defaults_nil_opts", true, (fun r p -> { p with optsnil = true; hint = 0; det = (if p.v16 then DetOk5 else DetAny); ndb = max 2 p.ndb; templates = true; pgnames = true });
  "dbfilter_exact", true, (fun r p -> { p with dbf = DbExact; ndb = max 2 p.ndb });
  "dbfilter_absent", true, (fun r p -> { p with dbf = DbAbsent });
  "dbfilter_case_variant", true, (fun r p -> { p with dbf = DbCase; ndb = rrange r 2 3 });
  "dbfilter_prefix", true, (fun r p -> { p with dbf = DbPrefix; ndb = max 2 p.ndb });
  "dbfilter_is_template", true, (fun r p -> { p with dbf = DbTemplate; templates = true });
  "tablefilter_substring", false, (fun r p -> { p with tf = TfSub; listonly = false });
  "tablefilter_case_variant", false, (fun r p -> { p with tf = TfCaseSub });
  "tablefilter_no_match", false, (fun r p -> { p with tf = TfNoMatch });
  "tablefilter_whole_name", false, (fun r p -> { p with tf = TfWhole });
  "tablefilter_longer_than_name", false, (fun r p -> { p with tf = TfLonger });
  "tablefilter_upper_vs_lower", false, (fun r p -> { p with tf = (if rbool r then TfUpper else TfLower) });
  "list_only", false, (fun r p -> { p with listonly = true });
  "skip_system_on_pg_names", false, (fun r p -> { p with skipsys = true; pgnames = true; listonly = false });
  "skip_system_on_filter_matches_pg_name", false, (fun r p -> { p with skipsys = true; pgnames = true; pgforce = true; listonly = false; tf = TfSubPg; mal = MalNone });
  "skip_system_off_pg_names", false, (fun r p -> { p with skipsys = false; pgnames = true; listonly = false });
  "v16_hint16_17", false, (fun r p -> with_layout p ~v16:true ~hint:(pick r [| 16; 17 |]) ~det:DetAny);
  "v16_auto_first_five_ok", false, (fun r p -> with_layout (plain p) ~v16:true ~hint:(hint_auto r) ~det:DetOk5);
  "v16_auto_exactly_five_rows", false, (fun r p -> with_layout { (plain p) with ndb = 1; templates = false } ~v16:true ~hint:(hint_auto r) ~det:DetExact5);
  "v16_auto_four_rows", false, (fun r p -> with_layout { (plain p) with safe_misc = true } ~v16:true ~hint:(hint_auto r) ~det:Det4);
  "v16_auto_first_row_not_1", false, (fun r p -> with_layout { (plain p) with safe_misc = true } ~v16:true ~hint:(hint_auto r) ~det:(DetWrong 1));
  "v16_auto_row_2_to_4_wrong", false, (fun r p -> with_layout { (plain p) with safe_misc = true } ~v16:true ~hint:(hint_auto r) ~det:(DetWrong (rrange r 2 4)));
  "v16_auto_fifth_row_wrong", false, (fun r p -> with_layout { (plain p) with safe_misc = true } ~v16:true ~hint:(hint_auto r) ~det:(DetWrong 5));
  "v15_hint12_15", false, (fun r p -> with_layout p ~v16:false ~hint:(pick r [| 12; 15; 13 |]) ~det:DetAny);
  "v15_auto", false, (fun r p -> with_layout p ~v16:false ~hint:(hint_auto r) ~det:DetAny);
  "v15_auto_stattarget_high_half_1to5", false, (fun r p -> with_layout { (plain p) with safe_misc = true } ~v16:false ~hint:(hint_auto r) ~det:DetLooks16);
  (* the hint wins over what auto-detection would say (first five rows 1..5 on a 16 layout named 12..15) *)
  "hint_12_on_16_layout", false, (fun r p -> with_layout { (plain p) with safe_misc = true } ~v16:true ~hint:12 ~det:DetOk5);
  "hint_16_on_15_layout", false, (fun r p -> with_layout { (plain p) with safe_misc = true } ~v16:false ~hint:16 ~det:DetAny);
  "catalogs_over_several_pages", false, (fun r p -> { p with cls_pp = 2; att_pp = pick r [| 4; 7 |]; db_pp = 1; dead = max 1 p.dead; ndb = min 2 p.ndb });
  "missing_directory", true, (fun r p -> { p with missing_dir = true; ndb = max 2 p.ndb; dbf = DbNone });
  "empty_pg_class_file", true, (fun r p -> { p with empty_class = pick r [| 1; 1; 2; 3 |]; ndb = max 2 p.ndb; dbf = DbNone });
  "dead_versions_everywhere", false, (fun r p -> { p with dead = 2; orphan_dir = true });
  "no_dead_versions", false, (fun r p -> { p with dead = 0 });
  "filenode_order_vs_physical", false, (fun r p -> { p with force_order = true; tf = TfNone; skipsys = false; listonly = false; ndb = 1; cls_pp = pick r [| 2; 50 |] });
  "zero_column_relation", false, (fun r p -> with_layout { (plain p) with zero_col = true; ndb = 1 } ~v16:p.v16 ~hint:(if p.v16 then 16 else 12) ~det:DetAny);
  "table_with_more_than_12_columns", false, (fun r p -> { (plain p) with wide = true; ndb = 1 });
|]

let wf_case r (i : int) ~(as_dir : bool) ~(subs : bool) =
  let (name, cluster_only, f) = wf_strata.(i mod Array.length wf_strata) in
  let p = f r (rand_prof r) in
  let allow_zero_col = p.zero_col in
  if as_dir && not cluster_only then begin
    (* DumpDatabaseFromFiles on one directory of the same population *)
    let budget = ref 4 in
    let d = build_dir r p ~det:(match p.det with DetAny -> ok_det p | x -> x) ~dir_oid:5 ~budget ~small:false in
    let w = { c = { cl_v16 = p.v16; cl_pgdb = []; cl_dirs = [ d.dir ] }; dbnames = []; tplnames = [];
              tables = List.filter_map (fun x -> if is_dump x && x.file then Some x.name else None) d.rels } in
    let opts = make_opts r { p with dbf = DbNone } w in
    let nilreader = chance r 1 6 in
    emit_dir ~tag:("dir/" ^ name ^ (if nilreader then "+nil_reader" else "")) ~allow_zero_col ~nilreader r ~v16:p.v16 d.dir opts
  end else begin
    let w = build_cluster r p in
    let opts = make_opts r p w in
    emit_cluster ~tag:("wf/" ^ name) ~allow_zero_col w.c opts;
    if subs then emit_parsers r ~tagp:("wf/" ^ name) ~wf:true w.c opts
  end

(* ---------------------------------------------------------------- strata: outside well-formedness (S = "-") *)
let mal_strata : (string * mal) array = [|
  "class_fewer_than_17_attributes", MalClassShort; "class_duplicate_filenode", MalClassDup; "class_all_33_attributes", MalClassReal;
  "class_null_attributes", MalClassNull; "names_64_bytes_no_nul", MalName64; "attr_attnum_0_dup_gap_relid0_align", MalAttrOdd;
  "attr_all_attributes", MalAttrReal; "attr_null_attributes", MalAttrNull; "attr_rows_of_other_layout", MalAttrMixed;
  "pg_database_odd_rows", MalDbOdd; "live_tuples_of_no_shape", MalLiveJunk |]

let mal_prof r (m : mal) : prof =
  let p = rand_prof r in
  (* no auto-detection surprises: the layout is named by the hint; misread attribute rows keep attnum <= 0 *)
  let p = with_layout p ~v16:p.v16 ~hint:(if p.v16 then 16 else pick r [| 12; 15 |]) ~det:DetAny in
  { p with mal = m; safe_misc = true; ndb = min 2 p.ndb; missing_dir = false; listonly = (m <> MalAttrOdd && m <> MalClassShort && chance r 1 8) }

let mal_case r (i : int) ~(as_dir : bool) ~(subs : bool) =
  let (name, m) = mal_strata.(i mod Array.length mal_strata) in
  let p = mal_prof r m in
  if as_dir && m <> MalDbOdd then begin
    let d = build_dir r p ~det:DetAny ~dir_oid:5 ~budget:(ref 4) ~small:false in
    let w = { c = { cl_v16 = p.v16; cl_pgdb = []; cl_dirs = [ d.dir ] }; dbnames = []; tplnames = []; tables = [] } in
    let opts = make_opts r p w in
    let (cb, ab, files) = dir_bytes ~v16:p.v16 d.dir in
    emit_dff ~tag:("dir-mal/" ^ name) ~s:"-" (gs ~tail:(rtail r) cb) (gs ~tail:(rtail r) ab) (if chance r 1 8 then None else Some files) opts;
    emit_parsers r ~tagp:("dir-mal/" ^ name) ~wf:false w.c opts
  end else begin
    let w = build_cluster r p in
    let opts = make_opts r p w in
    emit_fs ~tag:("mal/" ^ name) (enum_files w.c) opts;
    if subs || m = MalDbOdd then emit_parsers ~pgdb_only:(not subs) r ~tagp:("mal/" ^ name) ~wf:false w.c opts
  end

(* file-level damage on the bytes of a well-formed cluster *)
let patch (b : byte list) (off : int) (nb : byte list) : byte list =
  let n = List.length nb in
  List.mapi (fun i x -> if i >= off && i < off + n then List.nth nb (i - off) else x) b
let is_cat f = function PBase (_, x) -> iz x = f | PGlobal1262 -> false
let is_table = function PBase (_, x) -> iz x <> 1259 && iz x <> 1249 | PGlobal1262 -> false
let damage_names = [| "no_global_1262"; "no_1249"; "no_1259"; "truncated_or_partial_tail"; "random_bytes_file"; "corrupt_line_pointer";
                      "corrupt_page_header"; "flipped_bytes" |]
let damage_order = [| 3; 5; 0; 6; 1; 4; 7; 2 |]
let truncate_or_extend r (b : byte list) =
  let n = List.length b in
  match rint r 5 with
  | 0 -> take (max 0 (n - pick r [| 1; 100; 4096; 8191 |])) b
  | 1 -> take (max 0 (n - 8192)) b
  | 2 -> b @ rbytes r (pick r [| 1; 23; 24; 4096; 8191 |])
  | 3 -> take (pick r [| 0; 1; 23; 24; 100; 8191 |]) b
  | _ -> b @ List.init 8192 (fun _ -> byte_of_int 0)
let damage_page r (kind : int) (b : byte list) =
  let npages = List.length b / 8192 in
  if npages = 0 then rbytes r 100 else begin
    let base = 8192 * rint r npages in
    let u16 off = int_of_byte (List.nth b (base + off)) lor (int_of_byte (List.nth b (base + off + 1)) lsl 8) in
    match kind with
    | 5 ->   (* a line pointer: offset / length / flags at their boundaries *)
      let nitems = max 0 ((u16 12 - 24) / 4) in
      if nitems = 0 then patch b (base + 12) (le16 (24 + 4 * pick r [| 1; 3 |])) else begin
        let i = rint r nitems in
        let lp = match rint r 6 with
          | 0 -> (8192 - 24) lor (1 lsl 15) lor (24 lsl 17)          (* tuple ends exactly at the page end *)
          | 1 -> (8192 - 23) lor (1 lsl 15) lor (24 lsl 17)          (* one byte past *)
          | 2 -> 8000 lor (1 lsl 15) lor (23 lsl 17)                 (* shorter than a tuple header *)
          | 3 -> 8000 lor (1 lsl 15) lor (22 lsl 17)
          | 4 -> (u16 14) lor (1 lsl 15) lor ((8192 - u16 14) lsl 17)  (* from pd_upper to the end *)
          | _ -> ZA.to_int (rbits r 30) lor (1 lsl 15) in
        patch b (base + 24 + 4 * i) (le32 lp) end
    | 6 ->   (* pd_lower / pd_upper / pd_special / pd_pagesize_version *)
      (match rint r 6 with
       | 0 -> patch b (base + 12) (le16 (pick r [| 0; 23; 24; 28; 8192; 8196; 65535 |]))
       | 1 -> patch b (base + 14) (le16 (pick r [| 0; 24; 8191; 8192; 8193; 65535 |]))
       | 2 -> patch b (base + 16) (le16 (pick r [| 0; 8191; 8192; 8193; 8176; 65535 |]))
       | 3 -> patch b (base + 18) (le16 (pick r [| 0; 8192; 8192 + 0; 8192 + 1; 8192 + 10; 8192 + 11; 16384 + 4; 4 |]))
       | 4 -> patch b (base + 12) (le16 (u16 14 + 4))
       | _ -> patch b (base + 14) (le16 (max 0 (u16 12 - 4))))
    | _ ->   (* a few flipped bytes *)
      let n = List.length b in
      List.fold_left (fun b _ -> patch b (rint r n) [ byte_of_int (rbyte r) ]) b (List.init (rrange r 1 12) (fun x -> x))
  end

let damage_case r (i : int) ~(subs : bool) =
  let kind = damage_order.(i mod Array.length damage_order) in
  let p = rand_prof r in
  let p = with_layout p ~v16:p.v16 ~hint:(if p.v16 then 16 else pick r [| 12; 15 |]) ~det:DetAny in
  (* pg_attribute may only be damaged when no relation file is decoded with what it says (the value decoders'
     behaviour on slices shorter than the type belongs to C04) *)
  let attr_ok = rbool r in
  let p = { p with ndb = min 2 p.ndb; missing_dir = false; listonly = attr_ok; dbf = DbNone; dead = min 1 p.dead } in
  let w = build_cluster r p in
  let opts = make_opts r p w in
  let fs = enum_files w.c in
  let pick_file pred = match List.filter (fun (q, _) -> pred q) fs with [] -> None | l -> Some (pick r (Array.of_list l)) in
  let set q nb = List.map (fun (q', b) -> if q' = q then (q', nb) else (q', b)) fs in
  let target () =
    let cands = [ (fun q -> q = PGlobal1262); is_cat 1259; is_table ] @ (if attr_ok then [ is_cat 1249; is_cat 1249 ] else []) in
    match pick_file (pick r (Array.of_list cands)) with Some x -> x | None -> (PGlobal1262, List.assoc PGlobal1262 fs) in
  let tag = "damage/" ^ damage_names.(kind) in
  let fs' = match kind with
    | 0 -> List.filter (fun (q, _) -> q <> PGlobal1262) fs
    | 1 -> (match pick_file (is_cat 1249) with Some (q, _) -> List.filter (fun (q', _) -> q' <> q) fs | None -> fs)
    | 2 -> (match pick_file (is_cat 1259) with Some (q, _) -> List.filter (fun (q', _) -> q' <> q) fs | None -> fs)
    | 3 -> let (q, b) = target () in set q (truncate_or_extend r b)
    | 4 -> let (q, _) = target () in set q (rbytes r (pick r [| 100; 8192; 8192; 16384; 9000 |]))
    | k -> let (q, b) = target () in set q (damage_page r k b) in
  emit_fs ~tag fs' opts;
  if subs then begin
    (* the parsers on a damaged catalog file of their own (pg_attribute without restriction) *)
    let cat = pick r [| 1259; 1249; 1249; 1262 |] in
    let src = match (if cat = 1262 then Some (PGlobal1262, List.assoc PGlobal1262 fs) else pick_file (is_cat cat)) with Some (_, b) -> b | None -> [] in
    let b = match kind with
      | 3 -> truncate_or_extend r src
      | 4 -> rbytes r (pick r [| 0; 100; 8192; 8200 |])
      | 5 | 6 | 7 -> damage_page r kind src
      | _ -> damage_page r (5 + rint r 3) src in
    emit_raw_parsers r ~tagp:tag b ~ver:(pick r [| 0; 11; 12; 15; 16; 17; -1 |])
  end

(* ---------------------------------------------------------------- small finite tables *)
let toint_cases () =
  let e kind v (g : gval option) = emit ~fn:"toInt" ~tag:"table" ~s:"-" ~m:(zs (toInt g)) [ kind; v ] in
  let z = sz in
  List.iter (fun v -> e "int" v (Some (VInt (z v)))) [ "0"; "1"; "-1"; "5"; "9223372036854775807"; "-9223372036854775808" ];
  List.iter (fun v -> e "int16" v (Some (VI16 (z v)))) [ "0"; "1"; "-1"; "32767"; "-32768"; "5" ];
  List.iter (fun v -> e "int32" v (Some (VI32 (z v)))) [ "0"; "-1"; "2147483647"; "-2147483648"; "66051" ];
  List.iter (fun v -> e "int64" v (Some (VI64 (z v)))) [ "0"; "-1"; "9223372036854775807"; "-9223372036854775808"; "4294967296" ];
  List.iter (fun v -> e "uint32" v (Some (VU32 (z v)))) [ "0"; "1"; "4294967295"; "2147483648"; "16909060" ];
  List.iter (fun v -> e "uint16" v (Some (VU16 (z v)))) [ "0"; "1"; "65535"; "32768"; "258" ];
  List.iter (fun v -> e "uint64" v (Some (VU64 (z v)))) [ "0"; "1"; "5"; "18446744073709551615" ];
  List.iter (fun v -> e "string" v (Some (VStr (bs v)))) [ "5"; "abc"; "0" ];
  List.iter (fun v -> e "bytes" v (Some (VBytes (bs v)))) [ "5"; "xyz" ];
  e "bool" "1" (Some (VBool true)); e "bool" "0" (Some (VBool false));
  e "float64" "5" (Some (VF64 (z "4617315517961601024"))); e "float32" "5" (Some (VF32 (z "1084227584")));
  e "nil" "0" (Some VNil); e "nil" "1" None
let withdefaults_cases () =
  let e (o : options option) = emit ~fn:"withDefaults" ~tag:"table" ~s:(c_opts (eff_opts o)) ~m:(c_opts (withDefaults o)) [ opts_arg o ] in
  e None;
  List.iter (fun (db, t, lo, sk, v) -> e (Some { o_dbfilter = bs db; o_tablefilter = bs t; o_listonly = lo; o_skipsys = sk; o_pgversion = zi v }))
    [ ("", "", false, false, 0); ("", "", false, true, 0); ("app", "Users", true, false, 16); ("x", "", true, true, -1); ("", "pg_", false, false, 15) ]

(* ---------------------------------------------------------------- the stream *)
(* one block of 8 consecutive case indexes: 3 well-formed clusters, 2 well-formed single directories (DumpDatabaseFromFiles), 1 malformed
   value, 1 damaged file system, 1 malformed directory.  The well-formed strata are visited round-robin (5 per block), so 7 blocks reach
   all of them; the catalog parsers run on the files of every second block's clusters (always in the thorough tier). *)
let gen seed n =
  toint_cases ();
  withdefaults_cases ();
  for k = 0 to n - 1 do
    let r = rng_for seed k in
    let blk = k / 8 in
    let subs = blk mod 2 = 0 || n >= 1000 in
    match k mod 8 with
    | 0 -> wf_case r (5 * blk) ~as_dir:false ~subs
    | 1 -> wf_case r (5 * blk + 1) ~as_dir:false ~subs:false
    | 2 -> wf_case r (5 * blk + 2) ~as_dir:false ~subs:false
    | 3 -> wf_case r (5 * blk + 3) ~as_dir:true ~subs:false
    | 4 -> mal_case r blk ~as_dir:false ~subs
    | 5 -> damage_case r blk ~subs:true
    | 6 -> wf_case r (5 * blk + 4) ~as_dir:true ~subs:false
    | _ -> mal_case r (blk + 5) ~as_dir:true ~subs:false
  done
let () = main gen
