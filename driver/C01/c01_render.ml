(* C01 driver, part 1: canonical rendering (must agree with harness/c01.go) and argument encoding. *)
open Model
open Util
open Value

let bs = bytes_of_string
let ch = Char.code
let zcmp a b = ZA.compare (zarith_of_z a) (zarith_of_z b)
let take n l = List.filteri (fun i _ -> i < n) l
let drop n l = List.filteri (fun i _ -> i >= n) l
let chance r n d = rint r d < n
let le16 x = [ byte_of_int x; byte_of_int (x asr 8) ]
let le32 x = [ byte_of_int x; byte_of_int (x asr 8); byte_of_int (x asr 16); byte_of_int (x asr 24) ]

(* ---------- results ---------- *)
let c_col (c : columnInfo) = c_rec [ "name", c_str c.ci_name; "type", c_str c.ci_type; "typid", zs c.ci_typid ]
let c_table (t : tableDump) =
  c_rec [ "oid", zs t.td_oid; "name", c_str t.td_name; "filenode", zs t.td_filenode; "kind", c_str t.td_kind;
          "columns", c_list (List.map c_col t.td_columns); "rows", c_list (List.map c_map t.td_rows); "row_count", zs t.td_rowcount ]
let c_db (d : databaseDump) = c_rec [ "oid", zs d.dd_oid; "name", c_str d.dd_name; "tables", c_list (List.map c_table d.dd_tables) ]
let c_dump (l : databaseDump list) = c_list (List.map c_db l)
let c_dump_res (x : databaseDump list option res) = match x with Ok (Some l) -> c_dump l | Ok None -> "err" | Panic -> "panic"

let c_dbinfo (d : databaseInfo) = c_rec [ "oid", zs d.db_oid; "name", c_str d.db_name ]
let c_tinfo (k : z) (t : tableInfo) = c_rec [ "filenode", zs k; "oid", zs t.ti_oid; "name", c_str t.ti_name; "kind", c_str t.ti_kind ]
let c_ainfo (a : attrInfo) =
  c_rec [ "name", c_str a.ai_name; "typid", zs a.ai_typid; "num", zs a.ai_num; "len", zs a.ai_len; "align", zs a.ai_align ]

(* model results of the catalog parsers *)
let m_pgdb (x : databaseInfo list res) = c_res (fun l -> c_list (List.map c_dbinfo l)) x
let m_class (x : tableInfo gomap res) =
  c_res (fun m ->
      let keys = List.sort zcmp (map_keys m) in
      c_list (List.map (fun k -> match map_get m k with
          | Some t -> if zcmp t.ti_filenode k <> 0 then failwith "C01 driver: ParsePGClass model: key <> ti_filenode"; c_tinfo k t
          | None -> failwith "C01 driver: map_get on a key of map_keys") keys)) x
let m_attr (x : attrInfo list gomap res) =
  c_res (fun m ->
      let keys = List.map fst m in
      if List.length (List.sort_uniq zcmp keys) <> List.length keys then failwith "C01 driver: ParsePGAttribute model: duplicate key";
      let m = List.sort (fun (a, _) (b, _) -> zcmp a b) m in
      c_list (List.map (fun (k, l) -> c_rec [ "relid", zs k; "attrs", c_list (List.map c_ainfo l) ]) m)) x
let m_detect (x : column list res) =
  c_res (fun l -> match List.length l with 9 -> "v16" | 10 -> "v15" | n -> Printf.sprintf "other:%d" n) x

(* spec side of the catalog parsers, from the abstract (live) rows *)
let s_pgdb (rows : dbrow list) = c_list (List.map (fun (d : dbrow) -> c_rec [ "oid", zs d.dr_oid; "name", c_str d.dr_name ]) rows)
let s_class (rows : classrow list) =
  let rows = List.filter (fun k -> ZA.sign (zarith_of_z k.cr_filenode) > 0) rows in
  let rows = List.sort (fun a b -> zcmp a.cr_filenode b.cr_filenode) rows in
  c_list (List.map (fun k -> c_rec [ "filenode", zs k.cr_filenode; "oid", zs k.cr_oid; "name", c_str k.cr_name;
                                      "kind", c_str [ byte_of_int (iz k.cr_kind) ] ]) rows)
let s_attr (rows : attrow list) =
  let pos x = ZA.sign (zarith_of_z x) > 0 in
  let relids = List.sort_uniq zcmp (List.filter_map (fun a -> if pos a.ar_relid && pos a.ar_num then Some a.ar_relid else None) rows) in
  c_list (List.map (fun k ->
      c_rec [ "relid", zs k;
              "attrs", c_list (List.map (fun a -> c_rec [ "name", c_str a.ar_name; "typid", zs a.ar_typid; "num", zs a.ar_num;
                                                           "len", zs a.ar_len; "align", zs a.ar_align ]) (rel_atts rows k)) ]) relids)

(* ---------- arguments ---------- *)
let opts_arg (o : options option) = match o with
  | None -> "nil"
  | Some o -> String.concat ":" [ hexf o.o_dbfilter; hexf o.o_tablefilter; (if o.o_listonly then "1" else "0");
                                  (if o.o_skipsys then "1" else "0"); zs o.o_pgversion ]
let c_opts (o : options) =
  c_rec [ "db", c_str o.o_dbfilter; "table", c_str o.o_tablefilter; "listonly", c_bool o.o_listonly; "skipsys", c_bool o.o_skipsys;
          "ver", zs o.o_pgversion ]
let path_arg (p : path) = match p with
  | PGlobal1262 -> "global/1262"
  | PBase (db, f) -> Printf.sprintf "base/%s/%s" (zs db) (zs f)
let files_args (fs : (path * byte list) list) = List.concat_map (fun (p, b) -> [ path_arg p; hexf b ]) fs
let gs ?(tail = []) (b : byte list) : gslice = { vis = b; tail }
let rtail r = if chance r 1 3 then rbytes r (pick r [| 1; 7; 24; 100 |]) else []
