(* C01 driver, part 2: random abstract clusters (Spec.v values), well-formed by construction, plus the knobs that
   take them out of well-formedness for the model-vs-implementation stream. *)
open Model
open Util
open Value
open C01_render

(* ---------- tuple headers ---------- *)
(* t_infomask kinds (C09): live = XMIN_COMMITTED && (XMAX_INVALID || !XMAX_COMMITTED) *)
let live_kinds = [| 0x0900; 0x0B00; 0x0100; 0x0D00; 0x0300 |]
let dead_kinds = [| 0x0500; 0x0A00; 0x0000; 0x0800; 0x0400; 0x0C00; 0x2500; 0x0200; 0x0600 |]
let gen_mask r ~alive =
  let kind = if alive then pick r live_kinds else pick r dead_kinds in
  let m = kind lor (rbyte r land 0xfe) lor (rint r 16 lsl 12) in
  if live (zi m) <> alive then failwith "C01 generator: hint-bit table";
  m
let mk_vhdr r ~alive : vhdr =
  { vh_head = rbytes r 18; vh_flags2 = zi (rint r 32); vh_mask_hi = zi (gen_mask r ~alive lsr 1); vh_extra = zi (pick r [| 0; 0; 0; 1; 2 |]) }
(* a tuple formed by heap_form_tuple under any schema *)
let form r ~alive (cols : column list) (ds : datum list) : tup =
  let h = mk_vhdr r ~alive in
  stored_tuple h.vh_head h.vh_flags2 h.vh_mask_hi h.vh_extra cols ds
(* a tuple of no particular shape *)
let junk_tup r ~alive : tup =
  let hoff = pick r [| 23; 24; 32; 40 |] in
  let natts = rint r 40 in
  let hasnull = rbool r && (natts + 7) / 8 <= hoff - 23 in
  let mask = (gen_mask r ~alive) lor (if hasnull then 1 else 0) in
  { tp_head = rbytes r 18; tp_natts = zi natts; tp_flags2 = zi (rint r 32); tp_infomask = zi mask; tp_hoff = zi hoff;
    tp_mid = rbytes r (hoff - 23); tp_data = rbytes r (rint r 150) }
let stub r : 'a version =
  match rint r 4 with
  | 0 -> VStub { lp_off = zi 0; lp_flags = zi 0; lp_len = zi 0 }                         (* LP_UNUSED *)
  | 1 -> VStub { lp_off = zi (1 + rint r 20); lp_flags = zi 2; lp_len = zi 0 }            (* LP_REDIRECT *)
  | 2 -> VStub { lp_off = zi 0; lp_flags = zi 3; lp_len = zi 0 }                         (* LP_DEAD, no storage *)
  | _ -> VStub { lp_off = zi (rint r 32768); lp_flags = zi (pick r [| 0; 2; 3 |]); lp_len = zi (rint r 32768) }

(* ---------- pages ---------- *)
let sprinkle r (extra : 'a list) (l : 'a list) : 'a list =
  List.fold_left (fun acc x -> let pos = rint r (List.length acc + 1) in take pos acc @ [ x ] @ drop pos acc) l extra
let mkpage r items : 'a hpage = { hp_lsn = rbytes r 12; hp_prune = rbytes r 4; hp_items = items }
(* PageAddItem in order; a new page when [per_page] items are on it or the next one does not fit *)
(* [upper items] (optional) = pd_upper of a page holding [items]: lets a closed page be topped up, one time in three, with a
   dead tuple of exactly the remaining size, so that pd_lower = pd_upper (no free space at all; seeded change C01-4) *)
let pack r ?(upper : ('a version list -> int) option) ~(fits : 'a hpage -> bool) ~(per_page : int) (items : 'a version list) : 'a hpage list =
  let pages = ref [] and cur = ref [] and n = ref 0 in
  let probe = mkpage r [] in
  let topup (its : 'a version list) : 'a version list =
    match upper with
    | Some up when rint r 3 = 0 ->
      let lower' = 24 + 4 * (List.length its + 1) in
      let len = up its - lower' in
      if lower' mod 8 = 0 && len >= 24 && len <= 8000 then begin
        let t = { tp_head = rbytes r 18; tp_natts = zi 0; tp_flags2 = zi 0; tp_infomask = zi (pick r [| 0x0500; 0x0A00; 0x0400 |]);
                  tp_hoff = zi 24; tp_mid = [ byte_of_int 0 ]; tp_data = rbytes r (len - 24) } in
        let its' = its @ [ VOld t ] in
        if fits { probe with hp_items = its' } && up its' = lower' then its' else its
      end else its
    | _ -> its in
  let flush () = pages := mkpage r (topup (List.rev !cur)) :: !pages; cur := []; n := 0 in
  List.iter (fun it ->
      if !n > 0 && (!n >= per_page || not (fits { probe with hp_items = List.rev (it :: !cur) })) then flush ();
      cur := it :: !cur; incr n) items;
  if !n > 0 then flush ();
  List.rev !pages
let heap_of r ?(zero_ok = true) (pages : 'a hpage list) : 'a heap =
  match pages with
  | [] -> (match rint r 3 with 0 -> [] | 1 -> [ HZero ] | _ -> [ HPage (mkpage r []) ])
  | _ ->
    let h = List.map (fun p -> HPage p) pages in
    if zero_ok && chance r 1 7 then (let pos = rint r (List.length h + 1) in take pos h @ [ HZero ] @ drop pos h) else h
let per_page_for ~maxpages n pp = max pp ((n + maxpages - 1) / maxpages)

(* ---------- column layout classes: (attlen, attalign, atttypid) ---------- *)
type lay = int * int * int
let lays : lay array = [|
  (1, ch 'c', 16); (2, ch 's', 21); (4, ch 'i', 23); (8, ch 'd', 20); (4, ch 'i', 26); (4, ch 'i', 700); (64, ch 'c', 19); (1, ch 'c', 18);
  (16, ch 'c', 2950); (-1, ch 'i', 25); (-1, ch 'i', 1043); (-1, ch 'i', 17); (-2, ch 'c', 2275); (4, ch 'i', 0); (8, ch 'd', 701);
  (4, ch 'i', 23); (-1, ch 'i', 25); (2, ch 's', 21);
  (4, ch 'i', 0x01020304); (-1, ch 'i', 0x0a0b0c0d);          (* type ids the tool does not know, every byte distinct *)
  (* attalign differs from what the tool's (type id, length) fallback table would say: only pg_attribute knows *)
  (8, ch 'i', 70000); (4, ch 's', 70001); (-1, ch 'd', 70002); (16, ch 'i', 70003); (2, ch 'c', 70004); (-1, ch 'd', 25); (4, ch 'c', 70005);
  (4, ch 'i', 0xF1E2D3C4) |]                                  (* does not fit int32 *)
(* attalign not one of c/s/i/d: the tool falls back on its type table, which agrees with pg_type for these *)
let lays_noalign : lay array = [| (4, 0, 23); (8, ch 'x', 20); (-1, 0, 25); (2, 0, 21); (1, 255, 16); (4, ch 'I', 26) |]
let lays_small : lay array = [| (1, ch 'c', 16); (2, ch 's', 21); (4, ch 'i', 23); (8, ch 'd', 20); (4, ch 'i', 26); (1, ch 'c', 18);
                               (-2, ch 'c', 2275); (16, ch 'c', 2950); (4, ch 'i', 700) |]
let fallback_ok = [ 20; 701; 1114; 1184; 1083; 790; 3220; 600; 601; 603; 628; 718; 1186; 1266; 23; 26; 700; 1082; 28; 29; 25; 1043; 1042;
                    17; 114; 3802; 142; 1700; 869; 650; 1560; 1562; 3614; 3615; 4072; 3904; 3906; 3912; 829; 774; 21; 27; 16; 18; 19; 2950 ]

let pad64 (n : byte list) = n @ List.init (max 0 (64 - List.length n)) (fun _ -> byte_of_int 0)
let payload r n = List.init n (fun i -> byte_of_int (if i = 0 then pick r [| 0; 1; 2; 3; 0x12; 0xff; rbyte r |] else (match rint r 6 with 0 -> 0 | _ -> 1 + rint r 255)))
let nonzero r n = List.init n (fun _ -> byte_of_int (1 + rint r 255))
let datum_for r ((len, _, typ) : lay) : datum =
  if len > 0 then (if typ = 19 && rbool r then DFixed (pad64 (nonzero r (rint r 20))) else DFixed (payload r len))
  else if len = -2 then DCStr (nonzero r (pick r [| 0; 1; 5; 30 |]))
  else match rint r 10 with
    | 0 -> DLong (payload r (pick r [| 0; 1; 60; 124; 127; 128; 252; 300 |]))
    | 1 -> DLongC (payload r (pick r [| 5; 60; 127 |]))
    | 2 -> DExternal (rbytes r 16)
    | _ -> DShort (payload r (pick r [| 0; 1; 2; 3; 7; 20; 125; 126 |]))
(* a stored row: sometimes fewer attributes than columns, NULLs, all NULL *)
let gen_row r (ls : lay list) : datum list =
  let n = List.length ls in
  let natts = if chance r 1 5 then rint r (n + 1) else n in
  let mode = rint r 7 in
  List.map (fun l -> match mode with
      | 0 -> DNull
      | 1 -> if rbool r then DNull else datum_for r l
      | 2 | 3 -> if rint r 5 = 0 then DNull else datum_for r l
      | _ -> datum_for r l) (take natts ls)

(* ---------- knobs ---------- *)
type dbf = DbNone | DbExact | DbAbsent | DbCase | DbPrefix | DbTemplate
type tf = TfNone | TfSub | TfCaseSub | TfNoMatch | TfWhole | TfLonger | TfUpper | TfLower | TfSubPg
(* physical order of the live pg_attribute rows (what the layout auto-detection looks at) *)
type det = DetAny | DetOk5 | DetExact5 | Det4 | DetWrong of int (* first j-1 live rows carry 1..j-1, the j-th does not carry j *) | DetLooks16
type mal = MalNone | MalClassShort | MalClassDup | MalClassReal | MalClassNull | MalName64 | MalAttrOdd | MalAttrReal | MalAttrNull
         | MalAttrMixed | MalDbOdd | MalLiveJunk
type prof = {
  ndb : int; templates : bool; dbf : dbf; tf : tf; listonly : bool; skipsys : bool; optsnil : bool;
  v16 : bool; hint : int; det : det; cls_pp : int; att_pp : int; db_pp : int; zero_col : bool;
  dead : int;             (* 0 no dead versions, 1 some, 2 many *)
  force_order : bool;     (* >= 3 dumpable tables whose filenode order differs from the physical order and its reverse *)
  missing_dir : bool; empty_class : int; orphan_dir : bool;
  safe_misc : bool;       (* attstattarget / atttypmod with high halves 0 or 0xFFFF *)
  mal : mal; maxrel : int; maxfiles : int; pgnames : bool; pgforce : bool (* most relations get a pg_ name *); wide : bool (* a table of 13..20 columns *) }

let rand_prof r : prof =
  let v16 = rbool r in
  let auto = rint r 3 = 0 in
  let hint = if auto then pick r [| 0; 11; -1 |] else if v16 then pick r [| 16; 17 |] else pick r [| 12; 15 |] in
  { ndb = pick r [| 1; 2; 2; 3 |]; templates = rbool r; dbf = DbNone; tf = TfNone; listonly = chance r 1 6; skipsys = chance r 2 3; optsnil = false;
    v16; hint; det = (if v16 && auto then DetOk5 else DetAny); cls_pp = pick r [| 4; 8; 50 |]; att_pp = pick r [| 10; 25; 60 |];
    db_pp = pick r [| 2; 5; 50 |]; zero_col = false; dead = rint r 3; force_order = false; missing_dir = chance r 1 6; empty_class = 0;
    orphan_dir = chance r 1 8; safe_misc = rbool r; mal = MalNone; maxrel = 8; maxfiles = 5; pgnames = chance r 1 3; pgforce = false; wide = false }
let auto_hint h = h < 12
(* the detection-relevant knobs for a layout/hint pair chosen by a stratum *)
let with_layout (p : prof) ~v16 ~hint ~det = { p with v16; hint; det }
let ok_det (p : prof) = match p.det with
  | DetOk5 | DetExact5 -> p.det
  | _ -> if p.v16 && auto_hint p.hint then DetOk5 else DetAny

(* ---------- names ---------- *)
let db_names = [| "postgres"; "app"; "App"; "APP"; "shop_db"; "mytemplate"; "Template1"; "templat"; "TEMPLATE0"; "x"; "donn\xc3\xa9es";
                  String.make 63 'd'; "tmpl"; "templat0e" |]
let tpl_names = [| "template0"; "template1"; "template"; "templateX"; "template_postgis" |]
let t_names = [| "users"; "Users"; "USERS"; "orders"; "order_items"; "accounts"; "Passwords"; "user_passwords"; "t"; "xpg_"; "PG_x"; "pg";
                 "sql_features"; "caf\xc3\xa9_menu"; "\xc3\x9cberweisung"; "kunden_\xc3\x84NDERUNG"; String.make 63 'n'; "a_b"; "Mixed_Case_Table"; "p"; "Pg_x"; "pgx_table" |]
let pg_names = [| "pg_x"; "pg_"; "pg_statistic2"; "pg_class_copy"; "pg_Users"; "pg_users" |]
let col_names = [| "id"; "name"; "email"; "Password"; "created_at"; "data"; "flag"; "c"; "Col"; "v\xc3\xa9rifi\xc3\xa9" |]
(* ASCII letters and the Latin-1 letters U+00C0..U+00DE / U+00E0..U+00FE (UTF-8 C3 80..9E / C3 A0..BE without the signs C3 97,
   C3 B7): a filter may differ from the name in the case of a non-ASCII letter (seeded change C01-18) *)
let swapcase s =
  let b = Bytes.of_string s in
  let n = Bytes.length b in
  let i = ref 0 in
  while !i < n do
    let c = Bytes.get b !i in
    if c = '\xc3' && !i + 1 < n then begin
      let d = Char.code (Bytes.get b (!i + 1)) in
      if d >= 0x80 && d <= 0x9e && d <> 0x97 then Bytes.set b (!i + 1) (Char.chr (d + 0x20))
      else if d >= 0xa0 && d <= 0xbe && d <> 0xb7 then Bytes.set b (!i + 1) (Char.chr (d - 0x20));
      i := !i + 2 end
    else begin
      (if c >= 'a' && c <= 'z' then Bytes.set b !i (Char.uppercase_ascii c) else if c >= 'A' && c <= 'Z' then Bytes.set b !i (Char.lowercase_ascii c));
      incr i end
  done;
  Bytes.to_string b
let is_ascii s = let ok = ref true in String.iter (fun c -> if Char.code c >= 128 then ok := false) s; !ok
let distinct_sample r (a : string array) n = take n (shuffle r (Array.to_list a))

(* ---------- identifiers ---------- *)
let gen_id r = match rint r 5 with
  | 0 -> ZA.to_int (rdistinct r 32)
  | 1 -> 16384 + rint r 400
  | 2 -> 1 + rint r 60000
  | 3 -> 0x80000000 + ZA.to_int (rbits r 31)     (* does not fit int32 *)
  | _ -> ZA.to_int (rbits r 32)
let fresh_id r (used : (int, unit) Hashtbl.t) : int =
  let rec go () =
    let x = gen_id r in
    if x <= 0 || x > 0xffffffff || Hashtbl.mem used x || x = 1259 || x = 1249 || x = 1262 then go () else (Hashtbl.replace used x (); x) in
  go ()

(* ---------- relations ---------- *)
type rel = { oid : int; name : string; node : int; kind : int; cols : (string * lay) list; nums : int list; file : bool; nrows : int; syscols : bool }
type force = Cols of int | ZeroCol | NoAttrs | Free
let is_dump (x : rel) = x.kind = ch 'r' && x.node > 0
let other_kinds = [| ch 'i'; ch 'S'; ch 't'; ch 'v'; ch 'm'; ch 'c'; ch 'f'; ch 'p'; ch 'I'; 0; ch 'R' |]

let gen_rel r (p : prof) ~(fresh : unit -> int) ~(budget : int ref) (force : force) : rel =
  let kind = match force with Cols _ | ZeroCol -> ch 'r' | _ -> if chance r 11 20 then ch 'r' else pick r other_kinds in
  let oid = fresh () in
  let storage = match force with
    | Cols _ | ZeroCol -> true
    | _ -> if kind = ch 'r' then not (chance r 1 8) else if List.mem kind [ ch 'v'; ch 'c'; ch 'p'; ch 'I' ] then chance r 1 4 else chance r 4 5 in
  let node = if not storage then 0 else if chance r 1 6 then oid else fresh () in
  let file = match force with
    | Cols _ | ZeroCol -> true
    | NoAttrs -> false
    | Free -> storage && !budget > 0 && (if kind = ch 'r' then chance r 5 6 else chance r 1 3) in
  if file then decr budget;
  let dump = kind = ch 'r' && node > 0 in
  let ncols = match force with Cols n -> n | ZeroCol | NoAttrs -> 0 | Free -> if dump && file then pick r [| 1; 1; 2; 2; 3; 3; 4; 5; 6; 8 |] else rint r 5 in
  let ls = List.init ncols (fun _ -> if ncols > 8 then pick r lays_small else if chance r 1 12 then pick r lays_noalign else pick r lays) in
  let cols = List.mapi (fun i l -> ((if i > 0 && chance r 1 40 then "dup" else Printf.sprintf "%s%d" (pick r col_names) (i + 1)), l)) ls in
  let nums =
    if (dump && file) || chance r 2 3 then List.init ncols (fun i -> i + 1)
    else (let cur = ref 0 in List.init ncols (fun _ -> cur := !cur + 1 + rint r 2; !cur)) in       (* gaps: a relation that is not read *)
  let name = if p.pgforce && chance r 2 3 then pick r [| "pg_statistic2"; "pg_class_copy"; "pg_Users"; "pg_users"; "pg_aggregate" |]
    else if p.tf = TfCaseSub && chance r 1 3 then pick r [| "\xc3\x9cberweisung"; "kunden_\xc3\x84NDERUNG"; "\xc3\xa9t\xc3\x89" |]
    else if p.pgnames && chance r 1 3 then pick r pg_names else pick r t_names in
  { oid; name; node; kind; cols; nums; file;
    nrows = (match force with ZeroCol -> rrange r 1 4 | _ -> if file then pick r [| 0; 1; 1; 2; 3; 3; 5; 8; 12 |] else 0);
    syscols = (match force with NoAttrs -> false | _ -> chance r 1 5) }

let crow r (x : rel) : classrow =
  { cr_oid = zi x.oid; cr_name = bs x.name; cr_filenode = zi x.node; cr_kind = zi x.kind; cr_misc = rbytes r 43 }

(* attstattarget(4) atttypmod(4) attndims(2) attbyval(1) *)
let gen_misc r ~(safe : bool) : byte list =
  let b = List.map byte_of_int in
  if safe then
    b (match rint r 3 with 0 -> [ 255; 255; 255; 255 ] | 1 -> [ 0; 0; 0; 0 ] | _ -> [ rbyte r; rint r 40; 0; 0 ])
    @ b (match rint r 3 with 0 -> [ 255; 255; 255; 255 ] | 1 -> [ rbyte r; rbyte r; 0; 0 ] | _ -> [ 4 + rint r 200; 0; 0; 0 ])
    @ b [ rint r 4; 0; rint r 2 ]
  else
    (if chance r 9 10 then rbytes r 2 @ b (pick r [| [ 0; 0 ]; [ 255; 255 ] |]) else rbytes r 4) @ rbytes r 7
let arow r ~safe ~relid ~name ~(l : lay) ~num : attrow =
  let (len, al, typ) = l in
  { ar_relid = zi relid; ar_name = bs name; ar_typid = zi typ; ar_len = zi len; ar_num = zi num; ar_align = zi al; ar_misc = gen_misc r ~safe }
let sys_cols : (string * lay * int) list =
  [ ("ctid", (6, ch 's', 27), -1); ("xmin", (4, ch 'i', 28), -2); ("cmin", (4, ch 'i', 29), -3); ("xmax", (4, ch 'i', 28), -4);
    ("cmax", (4, ch 'i', 29), -5); ("tableoid", (4, ch 'i', 26), -6) ]
let rel_attrs r ~safe (x : rel) : attrow list =
  List.map2 (fun (name, l) num -> arow r ~safe ~relid:x.oid ~name ~l ~num) x.cols x.nums
  @ (if x.syscols then List.map (fun (name, l, num) -> arow r ~safe ~relid:x.oid ~name ~l ~num) sys_cols else [])
let intended_cols (x : rel) : column list =
  List.map2 (fun (name, (len, al, typ)) num -> { c_name = bs name; c_typid = zi typ; c_len = zi len; c_num = zi num; c_align = zi al }) x.cols x.nums

(* extra trailing attributes, as the real catalogs have behind the ones the tool reads *)
let xcol n t l a : column = { c_name = bs n; c_typid = zi t; c_len = zi l; c_num = zi 0; c_align = zi a }
let class_ext = [ xcol "relnatts" 21 2 0; xcol "relchecks" 21 2 0; xcol "relhasrules" 16 1 0; xcol "relhastriggers" 16 1 0;
                  xcol "relhassubclass" 16 1 0; xcol "relrowsecurity" 16 1 0; xcol "relforcerowsecurity" 16 1 0; xcol "relispopulated" 16 1 0;
                  xcol "relreplident" 18 1 0; xcol "relispartition" 16 1 0; xcol "relrewrite" 26 4 0; xcol "relfrozenxid" 28 4 0;
                  xcol "relminmxid" 28 4 0; xcol "relacl" 1034 (-1) (ch 'i'); xcol "reloptions" 1009 (-1) (ch 'i'); xcol "relpartbound" 194 (-1) (ch 'i') ]
let attr_ext = [ xcol "attstorage" 18 1 0; xcol "attcompression" 18 1 0; xcol "attnotnull" 16 1 0; xcol "atthasdef" 16 1 0; xcol "atthasmissing" 16 1 0;
                 xcol "attidentity" 18 1 0; xcol "attgenerated" 18 1 0; xcol "attisdropped" 16 1 0; xcol "attislocal" 16 1 0;
                 xcol "attinhcount" 23 4 0; xcol "attcollation" 26 4 0; xcol "attacl" 1034 (-1) (ch 'i'); xcol "attoptions" 1009 (-1) (ch 'i');
                 xcol "attfdwoptions" 1009 (-1) (ch 'i'); xcol "attmissingval" 2277 (-1) (ch 'd') ]
let db_ext = [ xcol "datdba" 26 4 0; xcol "encoding" 23 4 0; xcol "datlocprovider" 18 1 0; xcol "datistemplate" 16 1 0; xcol "datallowconn" 16 1 0;
               xcol "datconnlimit" 23 4 0; xcol "datfrozenxid" 28 4 0; xcol "datminmxid" 28 4 0; xcol "dattablespace" 26 4 0;
               xcol "datcollate" 25 (-1) (ch 'i'); xcol "datctype" 25 (-1) (ch 'i'); xcol "daticulocale" 25 (-1) (ch 'i'); xcol "datacl" 1034 (-1) (ch 'i') ]
let ext_ds r (ext : column list) : datum list =
  List.map (fun (c : column) -> let l = iz c.c_len in
             if l > 0 then DFixed (rbytes r l) else if chance r 2 3 then DNull else DShort (nonzero r (1 + rint r 12))) ext
let null_at i (ds : datum list) = List.mapi (fun j d -> if j = i then DNull else d) ds

(* ---------- one database directory ---------- *)
let order_attrs r (det : det) (rows : attrow list) : attrow list =
  let num (a : attrow) = iz a.ar_num in
  let take_num n rows = match List.partition (fun a -> num a = n) rows with
    | (x :: others, rest) -> (x, others @ rest)
    | ([], _) -> failwith (Printf.sprintf "C01 generator: no attribute row with attnum %d" n) in
  let rec firsts lo hi rows acc = if lo > hi then (List.rev acc, rows) else let (x, rest) = take_num lo rows in firsts (lo + 1) hi rest (x :: acc) in
  let rows = shuffle r rows in
  match det with
  | DetAny | DetLooks16 -> rows
  | DetOk5 -> let (f, rest) = firsts 1 5 rows [] in f @ shuffle r rest
  | DetExact5 | Det4 -> List.sort (fun a b -> compare (num a) (num b)) rows
  | DetWrong j ->      (* positions 1..5 carry their own number, except position j *)
    let (before, rest) = firsts 1 (j - 1) rows [] in
    let (after, rest) = firsts (j + 1) 5 rest [] in
    (match List.partition (fun a -> num a <> j) (shuffle r rest) with
     | (x :: others, js) -> before @ [ x ] @ after @ shuffle r (others @ js)
     | ([], _) -> failwith "C01 generator: DetWrong needs a row with another attnum")

type dirout = { dir : dbdir; rels : rel list }
let cr_dump (k : classrow) = dumpable k

let build_dir r (p : prof) ~(det : det) ~(dir_oid : int) ~(budget : int ref) ~(small : bool) : dirout =
  let used = Hashtbl.create 16 in
  let fresh () = fresh_id r used in
  let v16 = p.v16 in
  let mal = p.mal in
  (* --- relations --- *)
  let forced : force list = match det with
    | DetExact5 -> [ Cols 5 ]
    | Det4 -> [ Cols 4 ]
    | DetOk5 | DetLooks16 -> [ Cols (rrange r 5 8) ]
    | DetWrong _ -> [ Cols (rrange r 6 8) ]
    | DetAny -> [] in
  let forced = if p.zero_col then forced @ [ ZeroCol ] else forced in
  let forced = if p.wide then forced @ [ Cols (rrange r 13 20) ] else forced in
  let forced = if p.force_order then forced @ List.init (rrange r 3 4) (fun _ -> Cols (rrange r 1 2)) else forced in
  let forced = if mal <> MalNone && forced = [] then [ Cols (rrange r 2 4) ] else forced in
  (* ordinary tables with a file and rows in every directory that is read *)
  let forced = match det with
    | DetExact5 | Det4 -> forced
    | _ -> if small then forced else forced @ List.init (rrange r 1 2) (fun _ -> Cols (pick r [| 1; 2; 3; 4; 6 |])) in
  let nfree = if small then rint r 2 else pick r [| 0; 1; 2; 3; 3; 4; 5; 6; 8 |] in
  let nfree = max 0 (min nfree (p.maxrel - List.length forced)) in
  let free_force = match det with DetExact5 | Det4 -> NoAttrs | _ -> Free in
  let rels = List.map (gen_rel r p ~fresh ~budget) forced @ List.init nfree (fun _ -> gen_rel r p ~fresh ~budget free_force) in
  let rels = match det with
    | DetExact5 | Det4 -> List.mapi (fun i x -> if i = 0 then { x with syscols = false } else x) rels
    | _ -> rels in
  (* --- physical order of pg_class --- *)
  let order_ok l =
    let nodes = List.filter_map (fun x -> if is_dump x then Some x.node else None) l in
    let sorted = List.sort compare nodes in
    nodes <> sorted && nodes <> List.rev sorted in
  let rec shuf n = let l = shuffle r rels in if not p.force_order || n = 0 || order_ok l then l else shuf (n - 1) in
  let phys = shuf 30 in
  let live_c x = VRow (mk_vhdr r ~alive:true, crow r x) in
  let dead_c x = VRow (mk_vhdr r ~alive:false,
                       (match rint r 3 with
                        | 0 -> { (crow r x) with cr_name = bs (pick r t_names) }                           (* renamed *)
                        | 1 -> { (crow r x) with cr_filenode = zi (fresh ()) }                             (* rewritten (VACUUM FULL) *)
                        | _ -> { (crow r x) with cr_kind = zi (pick r other_kinds); cr_name = bs "old" })) in
  let ndead () = match p.dead with 0 -> 0 | 1 -> if chance r 1 3 then 1 else 0 | _ -> rint r 3 in
  let class_main = List.concat_map (fun x ->
      List.init (ndead ()) (fun _ -> dead_c x) @ [ live_c x ] @ List.init (ndead ()) (fun _ -> dead_c x)) phys in
  let class_extra =
    if p.dead = 0 then [] else
      List.init (rint r (1 + p.dead)) (fun _ ->                   (* dropped relations; sometimes with the filenode of a live one *)
          let node = match rels with x :: _ when chance r 1 2 -> (pick r (Array.of_list rels)).node | _ -> fresh () in
          VRow (mk_vhdr r ~alive:false, { cr_oid = zi (fresh ()); cr_name = bs (pick r t_names); cr_filenode = zi node; cr_kind = zi (ch 'r');
                                          cr_misc = rbytes r 43 }))
      @ List.init (rint r (1 + p.dead)) (fun _ -> VOld (junk_tup r ~alive:false))
      @ List.init (rint r (1 + p.dead)) (fun _ -> stub r) in
  let class_items = sprinkle r class_extra class_main in
  (* out of well-formedness: pg_class *)
  let is_live_row = function VRow (h, _) -> live (zi (2 * iz h.vh_mask_hi)) | _ -> false in
  let retuple f items = List.map (fun it -> match it with VRow (h, k) when is_live_row it -> f h k it | _ -> it) items in
  let class_items = match mal with
    | MalClassShort ->
      let first = ref true in
      retuple (fun _ k it ->
          if cr_dump k && (!first || rbool r) then begin
            let n = if !first then 16 else pick r [| 16; 8; 7; 2; 1; 0 |] in
            first := false;
            VOld (form r ~alive:true schemaPGClass (take n (class_ds k))) end
          else it) class_items
    | MalClassDup ->
      List.concat_map (fun it -> match it with
          | VRow (_, k) when is_live_row it && cr_dump k && rbool r ->
            let dup = VRow (mk_vhdr r ~alive:true, { k with cr_oid = zi (fresh ()); cr_name = bs "dup_of_node"; cr_kind = zi (pick r [| ch 'r'; ch 'r'; ch 'i' |]) }) in
            if rbool r then [ it; dup ] else [ dup; it ]
          | _ -> [ it ]) class_items
    | MalClassReal ->
      retuple (fun _ k _ -> VOld (form r ~alive:true (schemaPGClass @ class_ext) (class_ds k @ ext_ds r class_ext))) class_items
    | MalClassNull ->
      retuple (fun _ k it -> if chance r 1 2 then VOld (form r ~alive:true schemaPGClass (null_at (pick r [| 0; 1; 7; 16; 3; 10 |]) (class_ds k))) else it) class_items
    | MalName64 ->
      retuple (fun h k it -> if chance r 1 2 then VRow (h, { k with cr_name = nonzero r 64 }) else it) class_items
    | MalLiveJunk -> sprinkle r (List.init (rrange r 1 3) (fun _ -> VOld (junk_tup r ~alive:true))) class_items
    | _ -> class_items in
  let ncls = List.length class_items in
  let class_pages = pack r ~upper:(fun its -> iz (lay_up schemaPGClass class_ds its (zi 8192))) ~fits:(page_fits schemaPGClass class_ds) ~per_page:(per_page_for ~maxpages:3 ncls p.cls_pp) class_items in
  let dir_class = match p.empty_class with
    | 1 -> []
    | 2 -> [ HPage (mkpage r []) ]
    | 3 -> [ HZero ]
    | _ -> (match class_pages with [] -> [ HPage (mkpage r []) ] | _ -> heap_of r class_pages) in
  (* --- pg_attribute --- *)
  let safe = p.safe_misc in
  let live_a = List.concat_map (rel_attrs r ~safe) rels in
  let orphans = match det with
    | DetExact5 | Det4 -> []
    | _ -> if chance r 1 3 then (let o = fresh () in List.init (rrange r 1 3) (fun i -> arow r ~safe ~relid:o ~name:(Printf.sprintf "gone%d" i) ~l:(pick r lays) ~num:(i + 1))) else [] in
  let live_a = live_a @ orphans in
  (* out of well-formedness: pg_attribute rows of relations that ARE read *)
  let live_a = match mal with
    | MalAttrOdd ->
      let tgt = List.filter (fun x -> is_dump x && x.file && x.cols <> []) rels in
      List.fold_left (fun acc (x : rel) ->
          let mine (a : attrow) = iz a.ar_relid = x.oid in
          match rint r 5 with
          | 0 -> acc @ [ arow r ~safe ~relid:x.oid ~name:"zero" ~l:(pick r lays) ~num:0 ]
          | 1 -> acc @ [ arow r ~safe ~relid:x.oid ~name:"twice" ~l:(pick r lays) ~num:(1 + rint r (List.length x.cols)) ]
          | 2 -> let k = 1 + rint r (List.length x.cols) in List.filter (fun a -> not (mine a && iz a.ar_num = k)) acc          (* gap *)
          | 3 -> acc @ List.map (fun a -> { a with ar_relid = zi 0 }) (List.filter mine acc)
          | _ -> List.map (fun a -> if mine a && rbool r then { a with ar_align = zi (pick r [| 0; ch 'x'; 255; ch 'C' |]);
                                                                          ar_typid = (if iz a.ar_len = 4 then zi (pick r [| 0; 99999; 23 |]) else a.ar_typid) } else a) acc)
        live_a tgt
    | MalName64 -> List.map (fun a -> if chance r 1 3 then { a with ar_name = nonzero r 64 } else a) live_a
    | _ -> live_a in
  let live_a = order_attrs r det live_a in
  let live_a = match det with
    | DetLooks16 ->       (* PostgreSQL <= 15 rows whose attstattarget has 1..5 in its HIGH half (and attlen in the low one) *)
      List.mapi (fun i (a : attrow) -> if i < 5 then { a with ar_misc = le16 (iz a.ar_len) @ le16 (i + 1) @ drop 4 a.ar_misc } else a) live_a
    | _ -> live_a in
  let live_av = List.map (fun a -> VRow (mk_vhdr r ~alive:true, a)) live_a in
  let dead_a =
    if p.dead = 0 then [] else
      List.filter_map (fun (a : attrow) ->
          if chance r p.dead 8 then
            Some (VRow (mk_vhdr r ~alive:false, (let (len, al, typ) = pick r lays in
                                                 { a with ar_name = bs "old_name"; ar_typid = zi typ; ar_len = zi len; ar_align = zi al })))
          else None) live_a
      @ List.init (rint r (1 + p.dead)) (fun _ -> VOld (junk_tup r ~alive:false))
      @ List.init (rint r (1 + p.dead)) (fun _ -> VOld (form r ~alive:false (attr_schema (not v16)) (attr_ds (not v16) (arow r ~safe:true ~relid:(fresh ()) ~name:"otherlayout" ~l:(pick r lays) ~num:1))))
      @ List.init (rint r (1 + p.dead)) (fun _ -> stub r) in
  let attr_items = sprinkle r dead_a live_av in
  let asch = attr_schema v16 and ads = attr_ds v16 in
  let attr_items = match mal with
    | MalAttrReal -> retuple (fun _ a _ -> VOld (form r ~alive:true (asch @ attr_ext) (ads a @ ext_ds r attr_ext))) attr_items
    | MalAttrNull ->
      let n = List.length asch in
      retuple (fun _ a it -> if chance r 1 3 then VOld (form r ~alive:true asch (null_at (pick r [| 0; 1; 2; n - 7; n - 6; n - 5; n - 1 |]) (ads a))) else it) attr_items
    | MalAttrMixed ->     (* some rows in the other layout; high halves 0/0xFFFF keep the misread attnum <= 0 *)
      retuple (fun _ a it -> if chance r 1 3 then VOld (form r ~alive:true (attr_schema (not v16)) (attr_ds (not v16) { a with ar_misc = gen_misc r ~safe:true })) else it) attr_items
    | _ -> attr_items in
  let natt = List.length attr_items in
  let att_per_page = per_page_for ~maxpages:3 natt p.att_pp in
  (* sometimes the first block of pg_attribute is mostly dead row versions left by DDL, so that fewer than five live rows sit
     on it and the first five live rows (what layout auto-detection looks at) span two blocks (seeded change C01-1) *)
  let attr_items =
    if mal = MalNone && live_a <> [] && chance r 1 3 then begin
      let k = rint r 5 in
      let nlive = List.length live_a in
      let deadrow i = let a = List.nth live_a (i mod nlive) in
        VRow (mk_vhdr r ~alive:false, { a with ar_name = bs "ddl_leftover" }) in
      List.init (max 0 (att_per_page - k)) deadrow @ attr_items
    end else attr_items in
  let attr_pages = pack r ~upper:(fun its -> iz (lay_up asch ads its (zi 8192))) ~fits:(page_fits asch ads) ~per_page:att_per_page attr_items in
  let dir_attr = heap_of r ~zero_ok:(natt < 40) attr_pages in
  (* --- relation files --- *)
  let live_attrs = live_rows dir_attr in
  let dir_files = List.filter_map (fun (x : rel) ->
      if not x.file then None else begin
        let ls = List.map snd x.cols in
        let cols = match mal with
          | MalNone -> rel_cols live_attrs (zi x.oid)
          | _ -> intended_cols x in
        let alive_rows = List.init x.nrows (fun _ -> VRow (mk_vhdr r ~alive:true, gen_row r ls)) in
        let extra =
          if p.dead = 0 then [] else
            List.init (rint r (1 + 2 * p.dead)) (fun _ -> VRow (mk_vhdr r ~alive:false, gen_row r ls))
            @ List.init (rint r (1 + p.dead)) (fun _ -> VOld (junk_tup r ~alive:false))
            @ List.init (rint r (1 + p.dead)) (fun _ -> stub r) in
        let extra = if mal = MalLiveJunk && is_dump x then VOld (junk_tup r ~alive:true) :: extra else extra in
        let items = sprinkle r extra alive_rows in
        let n = List.length items in
        let pages = pack r ~upper:(fun its -> iz (lay_up cols idds its (zi 8192))) ~fits:(page_fits cols idds) ~per_page:(per_page_for ~maxpages:2 n (pick r [| 3; 6; 100 |])) items in
        Some { rf_node = zi x.node; rf_cols = cols; rf_heap = heap_of r (take 2 pages) } end) rels in
  { dir = { dir_oid = zi dir_oid; dir_class; dir_attr; dir_files }; rels }

(* ---------- the cluster ---------- *)
type world = { c : cluster; dbnames : string list; (* live, non-template *) tplnames : string list; tables : string list (* names of dumpable relations *) }

let build_cluster r (p : prof) : world =
  let used = Hashtbl.create 8 in
  let fresh () = fresh_id r used in
  let budget = ref p.maxfiles in
  let names = match p.dbf with
    | DbCase -> take (max 2 p.ndb) (shuffle r [ "app"; "App"; "APP" ])
    | _ -> distinct_sample r db_names p.ndb in
  let tpls = if p.templates || p.dbf = DbTemplate then distinct_sample r tpl_names (rrange r 1 2) else [] in
  let dbs = List.map (fun n -> (fresh (), n, false)) names @ List.map (fun n -> (fresh (), n, true)) tpls in
  let dbs = shuffle r dbs in
  (* directories: every non-template database gets one, except the one chosen to be missing *)
  let real = List.filter (fun (_, _, t) -> not t) dbs in
  let missing = if p.missing_dir && List.length real > 1 then (let (o, _, _) = pick r (Array.of_list real) in o) else -1 in
  let empty = if p.empty_class > 0 then (let (o, _, _) = pick r (Array.of_list real) in o) else -1 in
  let kfdir = ref (match p.det with Det4 | DetWrong _ | DetLooks16 -> true | _ -> false) in
  let rels = ref [] in
  let dirs = List.filter_map (fun (oid, _, tpl) ->
      if oid = missing then None
      else if tpl then (if chance r 1 2 then Some (build_dir r { p with dead = 0; mal = MalNone; zero_col = false; force_order = false; empty_class = 0; wide = false } ~det:(ok_det p) ~dir_oid:oid ~budget:(ref 1) ~small:true).dir else None)
      else begin
        let det = if oid = empty then DetAny else if !kfdir then (kfdir := false; p.det) else (match p.det with DetExact5 -> DetExact5 | _ -> ok_det p) in
        let pd = if oid = empty then p else { p with empty_class = 0 } in
        let d = build_dir r pd ~det ~dir_oid:oid ~budget ~small:false in
        rels := !rels @ d.rels;
        Some d.dir end) dbs in
  let orphan = if p.orphan_dir then [ (build_dir r { p with dead = 0; mal = MalNone; zero_col = false; force_order = false; empty_class = 0; wide = false } ~det:(ok_det p) ~dir_oid:(fresh ()) ~budget:(ref 1) ~small:true).dir ] else [] in
  let odd_empty_name = fresh () in
  let odd = match p.mal with
    | MalDbOdd -> List.map (fun o -> (build_dir r { p with dead = 0; mal = MalNone } ~det:DetAny ~dir_oid:o ~budget:(ref 1) ~small:true).dir) [ 0; odd_empty_name ]
    | _ -> [] in
  let dirs = shuffle r (dirs @ orphan @ odd) in
  (* pg_database *)
  let live_d = List.map (fun (oid, n, _) -> VRow (mk_vhdr r ~alive:true, { dr_oid = zi oid; dr_name = bs n })) dbs in
  let extra =
    if p.dead = 0 then [] else
      List.filter_map (fun (oid, _, _) -> if chance r p.dead 4 then Some (VRow (mk_vhdr r ~alive:false, { dr_oid = zi oid; dr_name = bs (pick r db_names) })) else None) dbs   (* renamed *)
      @ List.map (fun (d : dbdir) -> VRow (mk_vhdr r ~alive:false, { dr_oid = d.dir_oid; dr_name = bs "dropped_db" })) orphan
      @ List.init (rint r (1 + p.dead)) (fun _ -> VRow (mk_vhdr r ~alive:false, { dr_oid = zi (fresh ()); dr_name = bs (pick r db_names) }))
      @ List.init (rint r (1 + p.dead)) (fun _ -> VOld (junk_tup r ~alive:false))
      @ List.init (rint r (1 + p.dead)) (fun _ -> stub r) in
  let items = sprinkle r extra live_d in
  let items = match p.mal with
    | MalDbOdd ->
      let o = fresh () in
      sprinkle r
        [ VRow (mk_vhdr r ~alive:true, { dr_oid = zi 0; dr_name = bs "oid_zero" });
          VRow (mk_vhdr r ~alive:true, { dr_oid = zi odd_empty_name; dr_name = [] });
          VOld (form r ~alive:true schemaPGDatabase [ DFixed (le32 (fresh ())); DNull ]);
          VOld (form r ~alive:true schemaPGDatabase [ DNull; DFixed (pad64 (bs "null_oid")) ]);
          VOld (form r ~alive:true schemaPGDatabase [ DFixed (le32 (fresh ())) ]);
          VOld (form r ~alive:true schemaPGDatabase []);
          VOld (form r ~alive:true (schemaPGDatabase @ db_ext) (db_ds { dr_oid = zi o; dr_name = bs "with_all_columns" } @ ext_ds r db_ext)) ]
        (List.map (fun it -> match it with
             | VRow (h, d) when live (zi (2 * iz h.vh_mask_hi)) && chance r 1 2 ->
               VOld (form r ~alive:true (schemaPGDatabase @ db_ext) (db_ds d @ ext_ds r db_ext))
             | _ -> it) items)
    | MalName64 -> List.map (fun it -> match it with VRow (h, d) when chance r 1 2 && not (has_prefix d.dr_name s_template) -> VRow (h, { d with dr_name = nonzero r 64 }) | _ -> it) items
    | MalLiveJunk -> sprinkle r [ VOld (junk_tup r ~alive:true); VOld (junk_tup r ~alive:true) ] items
    | _ -> items in
  let n = List.length items in
  let pages = pack r ~upper:(fun its -> iz (lay_up schemaPGDatabase db_ds its (zi 8192))) ~fits:(page_fits schemaPGDatabase db_ds) ~per_page:(per_page_for ~maxpages:3 n p.db_pp) items in
  let cl_pgdb = match pages with [] -> [ HPage (mkpage r []) ] | _ -> heap_of r pages in
  { c = { cl_v16 = p.v16; cl_pgdb; cl_dirs = dirs }; dbnames = names; tplnames = tpls;
    tables = (match List.filter_map (fun x -> if is_dump x && x.file then Some x.name else None) !rels with
              | [] -> List.filter_map (fun x -> if is_dump x then Some x.name else None) !rels
              | l -> l) }

(* ---------- options ---------- *)
let has_letter s = let ok = ref false in String.iter (fun c -> if (c >= 'a' && c <= 'z') || (c >= 'A' && c <= 'Z') then ok := true) s; !ok
(* a substring that contains a letter (so that case folding matters), never cutting a multi-byte character *)
let substring r s =
  let n = String.length s in
  if n = 0 || not (is_ascii s) then s else begin
    let rec go k = let a = rint r n in let l = 1 + rint r (n - a) in let t = String.sub s a l in
      if k = 0 then s else if has_letter t then t else go (k - 1) in
    go 20 end
let make_opts r (p : prof) (w : world) : options option =
  if p.optsnil then None else begin
    let anydb = match w.dbnames with [] -> "postgres" | l -> pick r (Array.of_list l) in
    let dbfilter = match p.dbf with
      | DbNone -> "" | DbExact -> anydb | DbAbsent -> pick r [| "nosuchdb"; "postgres2"; " " |] | DbCase -> swapcase anydb
      | DbPrefix -> if String.length anydb > 1 && chance r 2 3 then String.sub anydb 0 (String.length anydb - 1) else anydb ^ "x"
      | DbTemplate -> (match w.tplnames with [] -> "template1" | l -> pick r (Array.of_list l)) in
    let visible = List.filter (fun n -> not (p.skipsys && String.length n >= 3 && String.sub n 0 3 = "pg_")) w.tables in
    let anyt = match (if visible <> [] && chance r 4 5 then visible else w.tables) with [] -> "users" | l -> pick r (Array.of_list l) in
    (* a case-variant filter goes for a name with non-ASCII letters when there is one *)
    let anyt = match List.filter (fun n -> not (is_ascii n)) visible with
      | l when l <> [] && p.tf = TfCaseSub && chance r 2 3 -> pick r (Array.of_list l) | _ -> anyt in
    let tfilter = match p.tf with
      | TfNone -> "" | TfSub -> substring r anyt | TfCaseSub -> swapcase (substring r anyt) | TfNoMatch -> pick r [| "zzq"; "pg__"; "_pg" |]
      | TfWhole -> anyt | TfLonger -> if rbool r then anyt ^ "s" else "x" ^ anyt
      | TfUpper -> String.uppercase_ascii (substring r anyt) | TfLower -> String.lowercase_ascii (substring r anyt)
      | TfSubPg ->     (* a filter that matches a pg_-named relation (by a part of its name after the prefix, either case):
                          with SkipSystemTables the relation must stay out whatever the filter says (seeded change C01-2) *)
        (match List.filter (fun n -> String.length n > 4 && String.sub n 0 3 = "pg_") w.tables with
         | [] -> substring r anyt
         | l -> let n = pick r (Array.of_list l) in
           let t = substring r (String.sub n 3 (String.length n - 3)) in
           if rbool r then t else swapcase t) in
    Some { o_dbfilter = bs dbfilter; o_tablefilter = bs tfilter; o_listonly = p.listonly; o_skipsys = p.skipsys; o_pgversion = zi p.hint }
  end

(* ---------- the decidable part of wf_cluster (Spec.v), checked on every value that gets a spec expectation ---------- *)
let wf_fail msg = failwith ("C01 generator: value is not well-formed: " ^ msg)
let name_ok (n : byte list) = let l = List.length n in l >= 1 && l <= 63 && List.for_all (fun b -> int_of_byte b <> 0) n
let in_range x lo hi = let v = zarith_of_z x in ZA.geq v (ZA.of_int lo) && ZA.lt v (ZA.of_int hi)
let fits_ok (c : column) (d : datum) =
  let a = iz (att_align c) and len = iz c.c_len in
  (a = 1 || a = 2 || a = 4 || a = 8) && (List.mem (iz c.c_align) [ 99; 115; 105; 100 ] || List.mem (iz c.c_typid) fallback_ok)
  && (match d with
      | DNull -> true
      | DFixed b -> len > 0 && List.length b = len
      | DShort b -> len = -1 && List.length b + 1 <= 127
      | DLong _ -> len = -1
      | DLongC b -> len = -1 && b <> []
      | DExternal b -> len = -1 && List.length b = 16
      | DCStr b -> len = -2 && a = 1 && List.for_all (fun x -> int_of_byte x <> 0) b)
let rec fits_prefix (cols : column list) (ds : datum list) = match ds, cols with
  | [], _ -> true
  | d :: ds', c :: cs -> fits_ok c d && fits_prefix cs ds'
  | _ :: _, [] -> false
let vhdr_ok (h : vhdr) nds =
  List.length h.vh_head = 18 && in_range h.vh_flags2 0 32 && in_range h.vh_mask_hi 0 32768 && in_range h.vh_extra 0 100 && nds < 2048
  && ((23 + (nds + 7) / 8 + 7) / 8 * 8) + 8 * iz h.vh_extra <= 255
let tup_ok (t : tup) =
  let hoff = iz t.tp_hoff in
  List.length t.tp_head = 18 && in_range t.tp_natts 0 2048 && in_range t.tp_flags2 0 32 && in_range t.tp_infomask 0 65536 && hoff >= 23 && hoff <= 255
  && List.length t.tp_mid = hoff - 23 && (iz t.tp_infomask land 1 = 0 || (iz t.tp_natts + 7) / 8 <= List.length t.tp_mid)
let check_heap what ~(fits : 'a hpage -> bool) ~(cols : column list) ~(to_ds : 'a -> datum list) ~(row_ok : 'a -> bool) (h : 'a heap) =
  List.iter (function
      | HZero -> ()
      | HPage p ->
        if List.length p.hp_lsn <> 12 || List.length p.hp_prune <> 4 then wf_fail (what ^ ": page header bytes");
        if not (fits p) then wf_fail (what ^ ": items do not fit the page");
        List.iter (function
            | VRow (h, a) -> let ds = to_ds a in
              if not (vhdr_ok h (List.length ds)) then wf_fail (what ^ ": tuple header");
              if not (fits_prefix cols ds) then wf_fail (what ^ ": row does not fit its schema");
              if not (row_ok a) then wf_fail (what ^ ": row payload")
            | VOld t -> if not (tup_ok t) || live t.tp_infomask then wf_fail (what ^ ": VOld must be a well-formed non-live tuple")
            | VStub l -> if not (in_range l.lp_off 0 32768 && in_range l.lp_len 0 32768 && List.mem (iz l.lp_flags) [ 0; 2; 3 ]) then wf_fail (what ^ ": stub"))
          p.hp_items) h
let rec distinct cmp = function [] -> true | x :: r -> not (List.exists (fun y -> cmp x y = 0) r) && distinct cmp r
let two32 = 0x100000000
(* [allow_zero_col]: the known-finding class C01-zero-column-rows (a read relation with no columns) *)
let check_wf ?(allow_zero_col = false) (c : cluster) =
  check_heap "pg_database" ~fits:(page_fits schemaPGDatabase db_ds) ~cols:schemaPGDatabase ~to_ds:db_ds
    ~row_ok:(fun (d : dbrow) -> in_range d.dr_oid 1 two32 && name_ok d.dr_name) c.cl_pgdb;
  if not (distinct zcmp (List.map (fun d -> d.dir_oid) c.cl_dirs)) then wf_fail "duplicate directory";
  List.iter (fun (d : dbdir) ->
      let v16 = c.cl_v16 in
      check_heap "pg_class" ~fits:(page_fits schemaPGClass class_ds) ~cols:schemaPGClass ~to_ds:class_ds
        ~row_ok:(fun (k : classrow) -> in_range k.cr_oid 1 two32 && in_range k.cr_filenode 0 two32 && name_ok k.cr_name && in_range k.cr_kind 0 256
                                       && List.length k.cr_misc = 43) d.dir_class;
      check_heap "pg_attribute" ~fits:(page_fits (attr_schema v16) (attr_ds v16)) ~cols:(attr_schema v16) ~to_ds:(attr_ds v16)
        ~row_ok:(fun (a : attrow) -> in_range a.ar_relid 0 two32 && name_ok a.ar_name && in_range a.ar_typid 0 two32 && in_range a.ar_len (-32768) 32768
                                     && in_range a.ar_num (-32768) 32768 && in_range a.ar_align 0 256 && List.length a.ar_misc = 11) d.dir_attr;
      let cls = live_rows d.dir_class and atts = live_rows d.dir_attr in
      if not (distinct zcmp (List.filter_map (fun k -> if iz k.cr_filenode > 0 then Some k.cr_filenode else None) cls)) then wf_fail "filenode not unique";
      if not (distinct (fun (a : attrow) (b : attrow) -> if zcmp a.ar_relid b.ar_relid = 0 && zcmp a.ar_num b.ar_num = 0 then 0 else 1) atts) then wf_fail "(attrelid, attnum) not unique";
      if not (distinct zcmp (List.map (fun rf -> rf.rf_node) d.dir_files)) then wf_fail "duplicate relation file";
      List.iter (fun rf -> if List.mem (iz rf.rf_node) [ 1259; 1249 ] || iz rf.rf_node <= 0 then wf_fail "relation file named like a catalog") d.dir_files;
      List.iter (fun (k : classrow) ->
          if dumpable k then begin
            if List.mem (iz k.cr_filenode) [ 1259; 1249 ] then wf_fail "dumpable relation with a catalog filenode";
            match find_file d k.cr_filenode with
            | None -> ()
            | Some rf ->
              let cols = rel_cols atts k.cr_oid in
              if rf.rf_cols <> cols then wf_fail "rf_cols <> rel_cols";
              if cols = [] && not allow_zero_col then wf_fail "read relation without columns";
              List.iteri (fun i (col : column) -> if iz col.c_num <> i + 1 then wf_fail "attnums are not 1..n") cols;
              check_heap "relation file" ~fits:(page_fits cols idds) ~cols ~to_ds:idds ~row_ok:(fun _ -> true) rf.rf_heap
          end) cls) c.cl_dirs

(* ---------- known-finding classes (Spec.v predicates) ---------- *)
let kf_of (c : cluster) (opts : options option) : string option =
  let o = eff_opts opts in
  let dumped = List.map (fun (d : databaseDump) -> d.dd_oid) (expected_dump_i c (Some { o with o_listonly = true })) in
  let dirs = List.filter (fun (d : dbdir) -> List.exists (fun x -> zcmp x d.dir_oid = 0) dumped) c.cl_dirs in
  let det_bad = List.exists (fun (d : dbdir) -> not (detect_ok_attrs c.cl_v16 o.o_pgversion (live_rows d.dir_attr))) dirs in
  let zero_col (d : dbdir) =
    let atts = live_rows d.dir_attr in
    List.exists (fun k -> dumpable k && rel_cols atts k.cr_oid = []
                          && (match find_file d k.cr_filenode with Some rf -> live_rows rf.rf_heap <> [] | None -> false)) (live_rows d.dir_class) in
  if det_bad then Some "C01-detect-v16"
  else if (not o.o_listonly) && List.exists zero_col dirs then Some "C01-zero-column-rows"
  else None
let kf_of_dir ~v16 (d : dbdir) (opts : options option) : string option =
  kf_of { cl_v16 = v16; cl_pgdb = [ HPage { hp_lsn = []; hp_prune = []; hp_items = [ VRow ({ vh_head = []; vh_flags2 = zi 0; vh_mask_hi = zi (0x0900 / 2); vh_extra = zi 0 },
                                                                                          { dr_oid = d.dir_oid; dr_name = bs "d" }) ] } ];
          cl_dirs = [ d ] }
    (match opts with None -> None | Some o -> Some { o with o_dbfilter = [] })

(* every file of the data directory the reference writer produces *)
let enum_files (c : cluster) : (path * byte list) list =
  let f p = match enc_cluster c p with Some b -> [ (p, b) ] | None -> [] in
  f PGlobal1262
  @ List.concat_map (fun (d : dbdir) ->
      f (PBase (d.dir_oid, zi 1259)) @ f (PBase (d.dir_oid, zi 1249)) @ List.concat_map (fun rf -> f (PBase (d.dir_oid, rf.rf_node))) d.dir_files) c.cl_dirs
