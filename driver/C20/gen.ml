(* C20 driver: relation-map images and their file-system plumbing, sequence relation files,
   per-database and cluster-wide sequence listings.  Printers must agree with harness/c20*.go. *)
open Model
open Util

(* ================================================================ helpers *)
let take n l = List.filteri (fun i _ -> i < n) l
let set_at (bs : byte list) (off : int) (nb : byte list) : byte list =
  let a = Array.of_list bs in
  List.iteri (fun i b -> if off + i >= 0 && off + i < Array.length a then a.(off + i) <- b) nb;
  Array.to_list a
let le_bytes (n : int) (v : ZA.t) : byte list =
  List.init n (fun i -> byte_of_int (ZA.to_int (ZA.logand (ZA.shift_right v (8 * i)) (ZA.of_int 255))))
let set_u16 bs off v = set_at bs off (le_bytes 2 (ZA.of_int v))
let set_u32 bs off (v : ZA.t) = set_at bs off (le_bytes 4 v)
let rtail r = if rint r 3 = 0 then rbytes r (1 + rint r 20) else []
let two31 = ZA.shift_left ZA.one 31
let two32 = ZA.shift_left ZA.one 32
let two63 = ZA.shift_left ZA.one 63
let two64 = ZA.shift_left ZA.one 64
let signed64 u = if ZA.geq u two63 then ZA.sub u two64 else u

(* ================================================================ relmap (ParseRelMapFile, lookups) *)
let perr_s = function ETooSmall -> "err:too_small" | EBadMagic -> "err:bad_magic" | EBadCount -> "err:bad_count"
let c_maps ms = c_list (List.map (fun (o, f) -> zs o ^ ":" ^ zs f) ms)
let c_rm (rm : relmap) = [ "magic", zs rm.rm_magic; "num", zs rm.rm_num; "maps", c_maps rm.rm_mappings; "crc", zs rm.rm_crc ]
let c_relmap (r : (perr, relmap) sum res) : string =
  c_res (function Inl e -> perr_s e | Inr rm -> c_rec (c_rm rm)) r

let magic = ZA.of_int 0x592717
let known_oids = [| 1247; 1249; 1255; 1259; 1260; 1261; 1262; 2396; 2964; 3592; 6000; 6100; 1213; 2847; 3602; 1214; 3576 |]
let gen_pair r dup : z * z =
  match dup with
  | Some (o, f) when rint r 4 = 0 -> if rbool r then (o, z_of_zarith (ru r 32)) else (z_of_zarith (ru r 32), f)
  | _ -> (match rint r 4 with
          | 0 -> (z_of_zarith (rdistinct r 32), z_of_zarith (rdistinct r 32))
          | 1 -> (zi (pick r known_oids), z_of_zarith (rdistinct r 32))
          | _ -> (z_of_zarith (ru r 32), z_of_zarith (ru r 32)))

let gen_img r : relmap_img * string =
  let count = match rint r 8 with 0 -> 0 | 1 -> 62 | 2 -> 61 | 3 -> 1 | _ -> rrange r 0 62 in
  let rec mk i prev acc = if i >= count then List.rev acc else
      let p = gen_pair r prev in mk (i + 1) (Some p) (p :: acc) in
  let maps = mk 0 None [] in
  let slack = rbytes r (8 * (62 - count)) in
  let padn = pick r [| 4; 4; 5; 16; 512; 7684 |] in
  ({ sp_magic = z_of_zarith magic; sp_count = zi count; sp_maps = maps; sp_slack = slack;
     sp_crc = z_of_zarith (rdistinct r 32); sp_pad = rbytes r padn },
   Printf.sprintf "valid_n%d" (if count = 0 then 0 else if count = 62 then 62 else 1))

let exp_rm (img : relmap_img) =
  [ "magic", zs img.sp_magic; "num", zs img.sp_count; "maps", c_maps img.sp_maps; "crc", zs img.sp_crc ]
let expected_ok (img : relmap_img) : string = c_rec (exp_rm img)

let run_parse ~tag ~s (v : byte list) (t : byte list) =
  let m = c_relmap (parseRelMapFile { vis = v; tail = t }) in
  emit ~fn:"ParseRelMapFile" ~tag ~s ~m [ hexf v; hexf t ]

let bad_image r (bytes : byte list) : byte list * string * string =
  match rint r 3 with
  | 0 -> let m' = pick r [| 0x592716; 0x592718; 0x17275900; 0; 0x592717 lxor (1 lsl (rint r 32)) |] in
    (set_u32 bytes 0 (ZA.of_int m'), "bad_magic", "err:bad_magic")
  | 1 -> let c = pick r [| 63; 64; 0xFFFFFFFF; 0x80000000; 0x7FFFFFFF; 1000 |] in
    (set_u32 bytes 4 (ZA.of_int c), "bad_count", "err:bad_count")
  | _ -> let n = pick r [| 0; 1; 4; 8; 507; 508; 511 |] in (take n bytes, "short", "err:too_small")

let relmap_case r k =
  let img, tag = gen_img r in
  let bytes = enc_relmap img in
  match k mod 10 with
  | 0 | 1 | 2 | 3 ->
    run_parse ~tag ~s:(expected_ok img) bytes (if rint r 3 = 0 then rbytes r (rint r 20) else [])
  | 4 -> (* wrong magic: one byte of the magic altered, or a neighbouring constant *)
    let m' = pick r [| 0x592716; 0x592718; 0x17275900; 0; 0x592717 lxor (1 lsl (rint r 32)) |] in
    run_parse ~tag:"bad_magic" ~s:"err:bad_magic" (set_u32 bytes 0 (ZA.of_int m')) []
  | 5 -> (* impossible count *)
    let c = pick r [| 63; 64; 0xFFFFFFFF; 0x80000000; 0x7FFFFFFF; 1000 |] in
    run_parse ~tag:"bad_count" ~s:"err:bad_count" (set_u32 bytes 4 (ZA.of_int c)) []
  | 6 -> (* short file *)
    let n = pick r [| 0; 1; 4; 8; 507; 508; 511 |] in
    run_parse ~tag:"short" ~s:"err:too_small" (take n bytes) (if rbool r then rbytes r 600 else [])
  | 7 -> (* lookups *)
    let ms = img.sp_maps in
    let key = if ms <> [] && rint r 4 <> 0 then (let (o, f) = pickl r ms in if rbool r then o else f) else z_of_zarith (ru r 32) in
    let s = zs (first_filenode ms key) ^ "," ^ zs (first_oid ms key) in
    let m = zs (getFilenode ms key) ^ "," ^ zs (getOID ms key) in
    emit ~fn:"RelMapLookup" ~tag:"lookup" ~s ~m [ hexf bytes; zs key ]
  | 8 -> (* exactly 512 bytes (pad = 4) with all-distinct content *)
    let img = { img with sp_pad = rbytes r 4 } in
    run_parse ~tag:"valid_512" ~s:(expected_ok img) (enc_relmap img) []
  | _ -> (* arbitrary bytes: model vs implementation only *)
    let n = pick r [| 0; 3; 511; 512; 513; 520; 1024 |] in
    let v = rbytes r n in
    let v = if n >= 8 && rbool r then set_u32 (set_u32 v 0 magic) 4 (ZA.of_int (pick r [| 0; 1; 62; 63; 70 |])) else v in
    run_parse ~tag:"random" ~s:"-" v (if rbool r then rbytes r 16 else [])

(* ---------------------------------------------------------------- relmap plumbing *)
let rmerr_s = function ERmRead -> "err:read" | ERmParse e -> perr_s e
let c_path = function PathGlobal -> "global" | PathDb o -> "db:" ^ zs o
let c_rmfile (f : rmfile) = c_rec (c_rm f.rmf_map @ [ "isglobal", c_bool f.rmf_global; "path", c_path f.rmf_path ])
let c_all r = c_res (function
    | Inl e -> rmerr_s e
    | Inr (g, l) -> c_rec [ "global", c_rmfile g; "dbs", c_list (List.map c_rmfile l) ]) r
let exp_rmfile img glob path = c_rec (exp_rm img @ [ "isglobal", c_bool glob; "path", path ])

let lower_names = "abcdefghijklmnopqrstuvwxyz0123456789_"
let gen_ident r n = String.init n (fun _ -> lower_names.[rint r (String.length lower_names)])
let gen_names r n : string list =   (* n distinct non-empty names; some start with "template" *)
  let rec go acc = if List.length acc >= n then List.rev acc else
      let s = match rint r 8 with
        | 0 -> "template" ^ gen_ident r (rint r 3)
        | 1 -> pick r [| "template0"; "template1"; "postgres"; "templat"; "mytemplate"; "Template1"; "emplate"; "template" |]
        | 2 -> gen_ident r 1
        | 3 -> gen_ident r 63
        | _ -> gen_ident r (1 + rint r 12) in
      if List.mem s acc then go acc else go (s :: acc) in
  go []
let gen_oids r n : int list =   (* n distinct positive oids *)
  let rec go acc = if List.length acc >= n then List.rev acc else
      let o = match rint r 4 with 0 -> 1 + rint r 5 | 1 -> 16384 + rint r 50 | _ -> 1 + rint r 0x3fffffff in
      if List.mem o acc then go acc else go (o :: acc) in
  go []
let dbs_arg (dbs : (int * string) list) =
  match dbs with [] -> "-" | _ -> String.concat "," (List.map (fun (o, n) -> string_of_int o ^ ":" ^ hex_of_string n) dbs)

let relmap_all_case r =
  let ndb = pick r [| 0; 1; 2; 3; 5 |] in
  let dbs = List.combine (gen_oids r ndb) (gen_names r ndb) in
  let gimg, _ = gen_img r in
  let gbytes = enc_relmap gimg in
  (* per database: valid image / missing file / rejected image *)
  let per = List.map (fun (o, _) ->
      let img, _ = gen_img r in
      match rint r 5 with
      | 0 -> (o, None, None)
      | 1 -> let (b, _, _) = bad_image r (enc_relmap img) in (o, Some b, None)
      | _ -> (o, Some (enc_relmap img), Some img)) dbs in
  let mode = rint r 12 in
  let gfile, gexp = match mode with
    | 0 -> (None, `Err "err:read")
    | 1 -> let (b, _, e) = bad_image r gbytes in (Some b, `Err e)
    | _ -> (Some gbytes, `Ok) in
  let dbs_known = mode <> 2 in
  let fs = { rf_global = gfile;
             rf_dbs = (if dbs_known then Some (List.map (fun (o, n) -> (zi o, bytes_of_string n)) dbs) else None);
             rf_dbmap = (fun o -> match List.find_opt (fun (o', _, _) -> o' = iz o) per with Some (_, f, _) -> f | None -> None) } in
  let s = match gexp with
    | `Err e -> e
    | `Ok -> c_rec [ "global", exp_rmfile gimg true "global";
                     "dbs", c_list (if not dbs_known then [] else
                                      List.filter_map (fun (o, _, img) -> match img with
                                          | Some img -> Some (exp_rmfile img false ("db:" ^ string_of_int o)) | None -> None) per) ] in
  let m = c_all (readAllRelMaps fs) in
  let tag = match mode with 0 -> "all_noglobal" | 1 -> "all_badglobal" | 2 -> "all_nodblist" | _ -> Printf.sprintf "all_db%d" (min ndb 2) in
  emit ~fn:"ReadAllRelMaps" ~tag ~s ~m
    [ (match gfile with None -> "!" | Some b -> hexf b);
      (if dbs_known then dbs_arg dbs else "!");
      (match List.filter_map (fun (o, f, _) -> match f with Some b -> Some (string_of_int o ^ "=" ^ hexf b) | None -> None) per with
       | [] -> "-" | l -> String.concat ";" l) ]

let enhanced_case r =
  let img, _ = gen_img r in
  let bytes = enc_relmap img in
  let render l = c_list (List.map (fun ((o, f), n) -> zs o ^ ":" ^ zs f ^ ":" ^ c_str n) l) in
  (* the catalog-name column is the tool's own table (not PostgreSQL data): S takes it from there *)
  let s = render (List.map (fun (o, f) -> ((o, f), getCatalogName o)) img.sp_maps) in
  let m = match parseRelMapFile { vis = bytes; tail = [] } with
    | Ok (Inr rm) -> render (getEnhancedMappings rm.rm_mappings) | Ok (Inl e) -> perr_s e | Panic -> "panic" in
  emit ~fn:"GetEnhancedMappings" ~tag:"enhanced" ~s ~m [ hexf bytes ]

(* ================================================================ sequences *)
let serr_s = function
  | ESeqFileSmall -> "err:file_small" | ESeqBadSpecial -> "err:bad_special" | ESeqNotSequence -> "err:not_sequence"
  | ESeqNoItems -> "err:no_items" | ESeqBadItem -> "err:bad_item" | ESeqTupleSmall -> "err:tuple_small"
  | ESeqDataShort -> "err:data_short" | ESeqModernShort -> "err:modern_short"
let obs_fields (d : seqdata) = [ "last", zs d.sd_last; "called", c_bool d.sd_called ]
let full_fields (d : seqdata) =
  [ "last", zs d.sd_last; "start", zs d.sd_start; "inc", zs d.sd_inc; "max", zs d.sd_max; "min", zs d.sd_min;
    "cache", zs d.sd_cache; "cycled", c_bool d.sd_cycled; "called", c_bool d.sd_called ]
let c_seq_obs r = c_res (function Inl e -> serr_s e | Inr d -> c_rec (obs_fields d)) r
let c_seq_full r = c_res (function Inl e -> serr_s e | Inr d -> c_rec (full_fields d)) r
let c_isseq r = c_res c_bool r

let gen_last r : ZA.t * string =
  match rint r 12 with
  | 0 -> (ZA.of_int (pick r [| 20; 21; 23 |]), "oidlike")
  | 1 | 2 -> let hi = ZA.sub (rbits r 32) two31 in
    (ZA.add (ZA.mul hi two32) (ZA.of_int (pick r [| 20; 21; 23 |])), "oidlike")
  | 3 -> (pick r [| ZA.neg two63; ZA.pred two63; ZA.zero; ZA.one; ZA.minus_one; two32; two31; ZA.pred two32;
                    ZA.of_int 19; ZA.of_int 22; ZA.of_int 24; ZA.neg two32 |], "boundary")
  | 4 | 5 -> (ZA.of_int (rint r 100000), "small")
  | 6 -> (ZA.neg (ZA.of_int (1 + rint r 100000)), "negative")
  | _ -> (signed64 (rdistinct r 64), "distinct")

let maxalign_down x = x land (lnot 7)
let gen_seq ?(small = false) r : seqfile * string =
  let last, ltag = gen_last r in
  let logcnt = if rint r 5 = 0 then signed64 (rdistinct r 64) else ZA.of_int (rint r 33) in
  let called = rbool r in
  let hoff, special, upper, gtag =
    if rint r 2 = 0 then (24, 8184, 8136, "pg")
    else begin
      let hoff = match rint r 6 with 0 -> 23 | 1 -> 32 | 2 -> 255 | 3 -> rrange r 23 255 | _ -> 24 in
      let tl = hoff + 17 in
      let special = match rint r 5 with 0 -> 8188 | 1 -> 8176 | 2 -> rrange r (28 + tl) 8188 | 3 -> 28 + tl | _ -> 8184 in
      let upper = match rint r 4 with 0 -> 28 | 1 -> special - tl | 2 -> max 28 (maxalign_down (special - tl)) | _ -> rrange r 28 (special - tl) in
      (hoff, special, upper, "geom")
    end in
  let lower = match rint r 6 with 0 -> 29 | 1 -> rrange r 28 65535 | 2 -> 65535 | _ -> 28 in
  let lpflags = if rint r 4 = 0 then rint r 4 else 1 in
  let fill n = if small then List.init n (fun _ -> byte_of_int 0) else if rint r 4 = 0 then List.init n (fun _ -> byte_of_int 0) else rbytes r n in
  let more = if small then [] else match rint r 12 with 0 -> rbytes r 1 | 1 -> rbytes r 8192 | 2 -> rbytes r 100 | _ -> [] in
  ({ sq_last = z_of_zarith last; sq_logcnt = z_of_zarith logcnt; sq_called = called;
     sq_hoff = zi hoff; sq_lower = zi lower; sq_upper = zi upper; sq_special = zi special; sq_lpflags = zi lpflags;
     sq_hdr0 = rbytes r 12; sq_hdr18 = rbytes r 6; sq_free = fill (upper - 28); sq_thdr = rbytes r 22;
     sq_hpad = rbytes r (hoff - 23); sq_slack = fill (special - (upper + hoff + 17));
     sq_srest = rbytes r (8192 - special - 4); sq_more = more },
   ltag ^ "_" ^ gtag)

let exp_obs (q : seqfile) = c_rec [ "last", zs (expected_last q); "called", c_bool (expected_called q) ]
let run_seq ?(full = false) ~tag ~s v t =
  let r = parseSequenceFile { vis = v; tail = t } in
  if full then emit ~fn:"ParseSequenceFileFull" ~tag ~s ~m:(c_seq_full r) [ hexf v; hexf t ]
  else emit ~fn:"ParseSequenceFile" ~tag ~s ~m:(c_seq_obs r) [ hexf v; hexf t ]
let run_isseq ~tag ~s v t =
  emit ~fn:"IsSequenceFile" ~tag ~s ~m:(c_isseq (isSequenceFile { vis = v; tail = t })) [ hexf v; hexf t ]

let lp_word off flags len = ZA.of_int (off lor (flags lsl 15) lor (len lsl 17))
let oidlike_prefix r (data : byte list) =
  if List.length data >= 4 && rbool r then set_u32 data 0 (ZA.of_int (pick r [| 20; 21; 23; 22; 19 |])) else data

let tuple_lengths = [| 0; 1; 7; 8; 9; 15; 16; 17; 18; 40; 51; 52; 53; 55; 56; 57; 58; 59; 64; 65; 66; 100 |]

let seq_case r k =
  let q, tag = gen_seq r in
  let bytes = enc_seq q in
  let hoff = iz q.sq_hoff and upper = iz q.sq_upper and special = iz q.sq_special in
  match k mod 20 with
  | 0 | 1 | 2 | 3 | 4 | 5 | 18 | 19 -> run_seq ~tag:("seq_" ^ tag) ~s:(exp_obs q) bytes (rtail r)
  | 6 -> run_seq ~full:true ~tag:("seqfull_" ^ tag)
           ~s:(c_rec [ "last", zs (expected_last q); "start", "0"; "inc", "0"; "max", "0"; "min", "0"; "cache", "0";
                       "cycled", "false"; "called", c_bool (expected_called q) ]) bytes (rtail r)
  | 7 -> run_isseq ~tag:"isseq_valid" ~s:"true" bytes (rtail r)
  | 8 -> (* the magic word altered: all four bytes count *)
    let m' = pick r [| 0x1716; 0x1718; 0x11717; 0x17170000; 0x1717 lxor (1 lsl (rint r 32)); 0x1717 lxor (1 lsl (16 + rint r 16));
                       0x1700; 0x0017; 0x17171717; 0 |] in
    let v = set_u32 bytes special (ZA.of_int m') in
    if rbool r then run_isseq ~tag:"isseq_badmagic" ~s:"false" v (rtail r)
    else run_seq ~tag:"seq_badmagic" ~s:"err:not_sequence" v (rtail r)
  | 9 -> (* special pointer boundaries: a valid magic word is placed wherever it still fits *)
    let sp = pick r [| 0; 1; 8187; 8188; 8189; 8190; 8191; 8192; 65535; 4 |] in
    let v = set_u16 bytes 16 sp in
    let v = if sp + 4 <= List.length v then set_u32 v sp (ZA.of_int 0x1717) else v in
    let ok = sp > 0 && sp + 4 <= 8192 in
    if rbool r then run_isseq ~tag:(Printf.sprintf "isseq_special_%s" (if ok then "in" else "out")) ~s:(c_bool ok) v (rtail r)
    else run_seq ~tag:"seq_special" ~s:(if ok then "-" else "err:bad_special") v (rtail r)
  | 10 -> (* short files *)
    let n = pick r [| 0; 1; 18; 100; 8191; 8184; 4096 |] in
    let v = take n bytes in
    let t = if rbool r then rbytes r 64 else [] in
    if rbool r then run_isseq ~tag:"short" ~s:"false" v t else run_seq ~tag:"short" ~s:"err:file_small" v t
  | 11 -> (* pd_lower / line-pointer guards *)
    (match rint r 4 with
     | 0 -> let lo = pick r [| 0; 24; 27; 28; 29 |] in
       run_seq ~tag:"mal_lower" ~s:(if lo < 28 then "err:no_items" else exp_obs q) (set_u16 bytes 12 lo) (rtail r)
     | 1 -> run_seq ~tag:"mal_lp_off0" ~s:"-" (set_u32 bytes 24 (lp_word 0 1 (hoff + 17))) (rtail r)
     | 2 -> run_seq ~tag:"mal_lp_len0" ~s:"-" (set_u32 bytes 24 (lp_word upper 1 0)) (rtail r)
     | _ -> let len = pick r [| 8192 - upper; 8193 - upper; 8191 - upper |] in
       run_seq ~full:true ~tag:"mal_lp_end" ~s:"-" (set_u32 bytes 24 (lp_word upper 1 (min len 32767))) (rtail r))
  | 12 -> (* item length around the header / data thresholds *)
    let len = pick r [| 22; 23; 24; 25; 30; 31; 32; hoff - 1; hoff; hoff + 1; hoff + 7; hoff + 8; hoff + 9; hoff + 16; hoff + 17; hoff + 18 |] in
    let len = max 1 (min len (8192 - upper)) in
    run_seq ~full:true ~tag:"mal_lp_len" ~s:"-" (set_u32 bytes 24 (lp_word upper 1 len)) (rtail r)
  | 13 -> (* t_hoff byte around its guards *)
    let l = hoff + 17 in
    let h = pick r [| 0; 1; 22; 23; 24; 25; l - 18; l - 17; l - 16; l - 9; l - 8; l - 7; l - 1; l; l + 1; 255 |] in
    let h = max 0 (min h 255) in
    run_seq ~full:true ~tag:"mal_hoff" ~s:"-" (set_at bytes (upper + 22) [ byte_of_int h ]) (rtail r)
  | 14 -> (* long tuple bodies: the 52/57-byte layouts of the code, with and without an oid-like first word *)
    let n = pick r tuple_lengths in
    let up = 100 + rint r 1000 in
    let data = oidlike_prefix r (List.map (fun _ -> byte_of_int (1 + rint r 255)) (List.init n (fun i -> i))) in
    let v = set_u32 bytes 24 (lp_word up 1 (24 + n)) in
    let v = set_at v (up + 22) [ byte_of_int 24 ] in
    let v = set_at v (up + 24) data in
    run_seq ~full:true ~tag:(Printf.sprintf "mal_body_%s" (if n < 8 then "lt8" else if n < 52 then "lt52" else if n < 57 then "lt57" else "ge57"))
      ~s:"-" v (rtail r)
  | 15 | 16 -> (* parseSequenceTuple directly *)
    if rint r 3 = 0 then begin
      let v = enc_seqdata q in
      emit ~fn:"parseSequenceTuple" ~tag:"tuple_pg10"
        ~s:(c_rec [ "last", zs (expected_last q); "start", "0"; "inc", "0"; "max", "0"; "min", "0"; "cache", "0";
                    "cycled", "false"; "called", c_bool (expected_called q) ])
        ~m:(c_seq_full (parseSequenceTuple { vis = v; tail = [] })) [ hexf v; "-" ]
    end else begin
      let n = pick r tuple_lengths in
      let v = oidlike_prefix r (List.init n (fun _ -> byte_of_int (if rint r 6 = 0 then 0 else 1 + rint r 255))) in
      let t = rtail r in
      emit ~fn:"parseSequenceTuple" ~tag:(Printf.sprintf "tuple_%s" (if n < 8 then "lt8" else if n < 17 then "lt17" else if n < 52 then "lt52" else if n < 57 then "lt57" else "ge57"))
        ~s:"-" ~m:(c_seq_full (parseSequenceTuple { vis = v; tail = t })) [ hexf v; hexf t ]
    end
  | 17 -> (* arbitrary pages *)
    let n = pick r [| 8192; 8192; 8193; 16384; 8191 |] in
    let v = rbytes r n in
    let v = if n >= 8192 && rint r 4 <> 0 then begin
        let sp = pick r [| 8184; 8188; 8000; 8189 |] in
        let v = set_u16 v 16 sp in
        let v = if sp + 4 <= n then set_u32 v sp (ZA.of_int 0x1717) else v in
        let v = if rbool r then set_u16 v 12 (28 + rint r 100) else v in
        if rbool r then set_u32 v 24 (lp_word (1 + rint r 8100) (rint r 4) (1 + rint r 200)) else v
      end else v in
    if rint r 3 = 0 then run_isseq ~tag:"random" ~s:"-" v (rtail r) else run_seq ~full:true ~tag:"random" ~s:"-" v (rtail r)
  | _ -> ()

(* ---------------------------------------------------------------- listings *)
let c_line name oid fn last called =
  c_rec [ "name", c_str name; "oid", zs oid; "fn", zs fn; "last", zs last; "called", c_bool called ]
let c_lines_spec (l : listing_line list) =
  c_list (List.map (fun ((((n, o), f), lv), c) -> c_line n o f lv c) l)
let c_lines_model (l : seqentry list) =
  c_list (List.map (fun e -> c_line e.se_name e.se_oid e.se_filenode e.se_data.sd_last e.se_data.sd_called) l)
let ferr_s = function EReadFailed -> "err:read" | EDbNotFound -> "err:not_found"
let c_smap (render : 'a -> string) (m : (byte list * 'a) list) =
  let tbl = Hashtbl.create 8 in
  List.iter (fun (k, v) -> Hashtbl.replace tbl (string_of_bytes k) v) m;
  let keys = List.sort_uniq compare (Hashtbl.fold (fun k _ acc -> k :: acc) tbl []) in
  "m{" ^ String.concat "," (List.map (fun k -> hex_of_string k ^ ":" ^ render (Hashtbl.find tbl k)) keys) ^ "}"

type relfile = FNone | FBytes of byte list
let other_kinds = [| "r"; "i"; "t"; "v"; "s"; "m"; "p"; "R" |]

(* one database: relations (sequences among others, physically shuffled), files; [corrupt] damages some
   sequence files / removes them (then the case has no spec expectation) *)
let gen_db r ~oid ~name ~nseq ~corrupt : dbase * (int * relfile) list =
  let nother = rint r 6 in
  let n = nseq + nother in
  let fns = gen_oids r n and oids = gen_oids r n and names = gen_names r n in
  (* relation names are unique per schema only: sometimes two or three relations (sequences among them) share a name, as
     per-tenant schemas each owning "orders_id_seq" do; every one of them must be listed (seeded change C20-5) *)
  let names = if n >= 2 && rint r 3 = 0 then begin
      let a = Array.of_list names in
      for _ = 1 to 1 + rint r 2 do a.(rint r n) <- a.(rint r n) done;
      Array.to_list a end else names in
  let kinds = shuffle r (List.init n (fun i -> if i < nseq then "S" else pick r other_kinds)) in
  let rels = List.mapi (fun i kind ->
      let q, _ = gen_seq ~small:true r in
      let fn = List.nth fns i in
      let oid = if rbool r then fn else List.nth oids i in
      { r_oid = zi oid; r_filenode = zi fn; r_name = bytes_of_string (List.nth names i);
        r_kind = bytes_of_string kind; r_seq = q }) kinds in
  let files = List.map (fun rl ->
      let fn = iz rl.r_filenode in
      if string_of_bytes rl.r_kind = "S" then
        (if corrupt && rint r 3 = 0 then
           (match rint r 4 with
            | 0 -> (fn, FNone)
            | 1 -> (fn, FBytes (take 8191 (enc_seq rl.r_seq)))
            | 2 -> (fn, FBytes (set_u32 (enc_seq rl.r_seq) (iz rl.r_seq.sq_special) (ZA.of_int 0x11717)))
            | _ -> (fn, FBytes (set_u16 (enc_seq rl.r_seq) 12 24)))
         else (fn, FBytes (enc_seq rl.r_seq)))
      else
        (match rint r 3 with
         | 0 -> (fn, FNone)
         | 1 -> (fn, FBytes (enc_seq rl.r_seq))      (* a sequence-looking file under another relkind *)
         | _ -> (fn, FBytes (rbytes r 64)))) rels in
  ({ d_oid = zi oid; d_name = bytes_of_string name; d_rels = rels }, files)

let entries_of r (d : dbase) : (z * tableinfo) list =
  shuffle r (List.map (fun rl -> (rl.r_filenode, { ti_oid = rl.r_oid; ti_filenode = rl.r_filenode;
                                                   ti_name = rl.r_name; ti_kind = rl.r_kind })) d.d_rels)
let class_arg (cl : (dbase * (int * relfile) list) list) (noclass : int list) =
  match List.filter (fun (d, _) -> not (List.mem (iz d.d_oid) noclass)) cl with
  | [] -> "-"
  | l -> String.concat ";" (List.map (fun (d, _) ->
      zs d.d_oid ^ "=" ^ String.concat "," (List.map (fun rl ->
          zs rl.r_oid ^ ":" ^ zs rl.r_filenode ^ ":" ^ hex_of_bytes rl.r_name ^ ":" ^ hex_of_bytes rl.r_kind) d.d_rels)) l)
let files_arg (cl : (dbase * (int * relfile) list) list) =
  match List.concat_map (fun (d, fl) -> List.filter_map (fun (fn, f) -> match f with
      | FNone -> None | FBytes b -> Some (zs d.d_oid ^ "/" ^ string_of_int fn ^ "=" ^ hexf b)) fl) cl with
  | [] -> "-" | l -> String.concat ";" l

let listing_case r k =
  let scan = (k mod 2 = 1) in
  let ndb = if scan then pick r [| 0; 1; 2; 3; 4 |] else pick r [| 1; 2; 3 |] in
  let corrupt = rint r 5 = 0 in
  let nodblist = rint r 25 = 0 in
  let oids = gen_oids r ndb and names = gen_names r ndb in
  let cl = List.map2 (fun oid name ->
      let nseq = match rint r 8 with 0 -> 0 | 1 -> 1 | 2 -> 2 | 3 -> (if scan then 5 else 30) | _ -> rint r (if scan then 6 else 12) in
      gen_db r ~oid ~name ~nseq ~corrupt) oids names in
  let noclass = if rint r 10 = 0 && ndb > 0 then [ List.nth oids (rint r ndb) ] else [] in
  let spec_ok = not corrupt && not nodblist in
  let orders = List.map (fun (d, _) -> (iz d.d_oid, entries_of r d)) cl in
  let fs = { fs_dbs = (if nodblist then None else Some (List.map (fun (d, _) -> (d.d_oid, d.d_name)) cl));
             fs_class = (fun o -> if List.mem (iz o) noclass then None else List.assoc_opt (iz o) orders);
             fs_file = (fun o fn -> match List.find_opt (fun (d, _) -> iz d.d_oid = iz o) cl with
                 | None -> None
                 | Some (_, fl) -> (match List.assoc_opt (iz fn) fl with Some (FBytes b) -> Some b | _ -> None)) } in
  let a_dbs = if nodblist then "!" else dbs_arg (List.map (fun (d, _) -> (iz d.d_oid, string_of_bytes d.d_name)) cl) in
  if scan then begin
    let s = if nodblist then "err:read" else if not spec_ok then "-"
      else c_smap c_lines_spec (expected_scan (List.filter_map (fun (d, _) -> if List.mem (iz d.d_oid) noclass then None else Some d) cl)) in
    let m = c_res (function None -> "err:read" | Some l -> c_smap c_lines_model l) (scanAllSequences fs) in
    emit ~fn:"ScanAllSequences" ~tag:(if corrupt then "scan_corrupt" else if nodblist then "scan_nodblist" else Printf.sprintf "scan_db%d" (min ndb 2))
      ~s ~m [ a_dbs; class_arg cl noclass; files_arg cl ]
  end else begin
    let target, texp =
      if rint r 8 = 0 || ndb = 0 then
        (let (d, _) = List.hd cl in
         let nm = string_of_bytes d.d_name in
         let bad = pick r [| nm ^ "x"; String.sub nm 0 (String.length nm - 1); String.uppercase_ascii nm ^ "_"; "" |] in
         if List.exists (fun (d, _) -> string_of_bytes d.d_name = bad) cl then (nm ^ "zz", `NotFound) else (bad, `NotFound))
      else (let (d, _) = pickl r cl in (string_of_bytes d.d_name, `Db d)) in
    let s = if nodblist then "err:read" else match texp with
        | `NotFound -> "err:not_found"
        | `Db d -> if List.mem (iz d.d_oid) noclass then "err:read" else if not spec_ok then "-" else c_lines_spec (expected_listing d) in
    let m = c_res (function Inl e -> ferr_s e | Inr l -> c_lines_model l) (findSequences fs (bytes_of_string target)) in
    let nseq = match texp with `Db d -> List.length (List.filter (fun rl -> string_of_bytes rl.r_kind = "S") d.d_rels) | _ -> -1 in
    emit ~fn:"FindSequences"
      ~tag:(if corrupt then "find_corrupt" else if nodblist then "find_nodblist" else if nseq < 0 then "find_notfound"
            else Printf.sprintf "find_n%s" (if nseq = 0 then "0" else if nseq = 1 then "1" else if nseq >= 30 then "30" else "k"))
      ~s ~m [ a_dbs; hexf (bytes_of_string target); class_arg cl noclass; files_arg cl ]
  end

(* ================================================================ schedule *)
(* of every 40 consecutive case indexes: 12 relmap parser, 2 relmap plumbing, 2 enhanced, 20 sequence files
   (18 used), 4 listings *)
let gen_case r k =
  match k mod 40 with
  | j when j < 10 -> relmap_case r j
  | 10 | 11 -> relmap_case r (k / 40 mod 10)
  | 12 | 13 -> relmap_all_case r
  | 14 -> enhanced_case r
  | 15 -> relmap_case r 7
  | j when j < 36 -> seq_case r (j - 16)
  | _ -> listing_case r k

let gen seed n = for k = 0 to n - 1 do gen_case (rng_for seed k) k done
let () = main gen
