(* C20 driver: relation-map images (sequence files are added below). *)
open Model
open Util

(* ---- rendering (must agree with harness/c20.go) ---- *)
let c_relmap (r : (perr, relmap) sum res) : string =
  c_res (function
    | Inl ETooSmall -> "err:too_small" | Inl EBadMagic -> "err:bad_magic" | Inl EBadCount -> "err:bad_count"
    | Inr rm -> c_rec [ "magic", zs rm.rm_magic; "num", zs rm.rm_num;
                        "maps", c_list (List.map (fun (o, f) -> zs o ^ ":" ^ zs f) rm.rm_mappings);
                        "crc", zs rm.rm_crc ]) r

let magic = ZA.of_int 0x592717
let gen_pair r dup : z * z =
  match dup with
  | Some (o, f) when rint r 4 = 0 -> if rbool r then (o, z_of_zarith (ru r 32)) else (z_of_zarith (ru r 32), f)
  | _ -> if rint r 3 = 0 then (z_of_zarith (rdistinct r 32), z_of_zarith (rdistinct r 32))
         else (z_of_zarith (ru r 32), z_of_zarith (ru r 32))

let gen_img r : relmap_img * string =
  let count = match rint r 8 with 0 -> 0 | 1 -> 62 | 2 -> 61 | 3 -> 1 | _ -> rrange r 0 62 in
  let rec mk i prev acc = if i >= count then List.rev acc else
      let p = gen_pair r prev in mk (i + 1) (Some p) (p :: acc) in
  let maps = mk 0 None [] in
  let slack = rbytes r (8 * (62 - count)) in
  let padn = pick r [| 4; 4; 5; 16; 512; 7684 |] in
  ({ sp_magic = z_of_zarith magic; sp_count = zi count; sp_maps = maps; sp_slack = slack;
     sp_crc = z_of_zarith (rdistinct r 32); sp_pad = rbytes r padn }, Printf.sprintf "valid_n%d" (if count = 0 then 0 else if count = 62 then 62 else 1))

let expected_ok (img : relmap_img) : string =
  c_rec [ "magic", zs img.sp_magic; "num", zs img.sp_count;
          "maps", c_list (List.map (fun (o, f) -> zs o ^ ":" ^ zs f) img.sp_maps); "crc", zs img.sp_crc ]

let run_parse ~tag ~s (v : byte list) (t : byte list) =
  let m = c_relmap (parseRelMapFile { vis = v; tail = t }) in
  emit ~fn:"ParseRelMapFile" ~tag ~s ~m [ hexf v; hexf t ]

let set_u32 (bs : byte list) (off : int) (v : ZA.t) : byte list =
  List.mapi (fun i b -> if i >= off && i < off + 4
              then byte_of_int (ZA.to_int (ZA.logand (ZA.shift_right v (8 * (i - off))) (ZA.of_int 255))) else b) bs
let take n l = List.filteri (fun i _ -> i < n) l

let gen_case r k =
  let img, tag = gen_img r in
  let bytes = enc_relmap img in
  match k mod 10 with
  | 0 | 1 | 2 | 3 ->
    run_parse ~tag ~s:(expected_ok img) bytes (if rint r 3 = 0 then rbytes r (rint r 20) else [])
  | 4 -> (* wrong magic: one byte of the magic altered, or a neighbouring constant *)
    let m' = pick r [| 0x592716; 0x592718; 0x17275900; 0; 0x592717 lxor (1 lsl (rint r 32)) |] in
    run_parse ~tag:"bad_magic" ~s:"err:bad_magic" (set_u32 bytes 0 (ZA.of_int m')) []
  | 5 -> (* impossible count *)
    let c = pick r [| 63; 64; 0xFFFFFFFF; 0x80000000; 0x7FFFFFFF; 1000 |] in
    run_parse ~tag:"bad_count" ~s:"err:bad_count" (set_u32 bytes 4 (ZA.of_int c)) []
  | 6 -> (* short file *)
    let n = pick r [| 0; 1; 4; 8; 507; 508; 511 |] in
    run_parse ~tag:"short" ~s:"err:too_small" (take n bytes) (if rbool r then rbytes r 600 else [])
  | 7 -> (* lookups *)
    let ms = img.sp_maps in
    let key = if ms <> [] && rint r 4 <> 0 then (let (o, f) = pickl r ms in if rbool r then o else f) else z_of_zarith (ru r 32) in
    let s = zs (first_filenode ms key) ^ "," ^ zs (first_oid ms key) in
    let m = zs (getFilenode ms key) ^ "," ^ zs (getOID ms key) in
    emit ~fn:"RelMapLookup" ~tag:"lookup" ~s ~m [ hexf bytes; zs key ]
  | 8 -> (* exactly 512 bytes (pad = 4) with all-distinct content *)
    let img = { img with sp_pad = rbytes r 4 } in
    run_parse ~tag:"valid_512" ~s:(expected_ok img) (enc_relmap img) []
  | _ -> (* arbitrary bytes: model vs implementation only *)
    let n = pick r [| 0; 3; 511; 512; 513; 520; 1024 |] in
    let v = rbytes r n in
    let v = if n >= 8 && rbool r then set_u32 (set_u32 v 0 magic) 4 (ZA.of_int (pick r [| 0; 1; 62; 63; 70 |])) else v in
    run_parse ~tag:"random" ~s:"-" v (if rbool r then rbytes r 16 else [])

let gen seed n = for k = 0 to n - 1 do gen_case (rng_for seed k) k done
let () = main gen
