(* C09 driver: every interface that takes a visibility switch, on files of tuples with chosen infomasks. *)
open Model
open Util
open Value

let col name num : column = { c_name = bytes_of_string name; c_typid = zi 23; c_len = zi 4; c_num = zi num; c_align = zi 105 }
let cols3 = [ col "id" 1; col "b" 2; col "c" 3 ]
let le32 (x : int) = [ byte_of_int x; byte_of_int (x lsr 8); byte_of_int (x lsr 16); byte_of_int (x lsr 24) ]

(* abstract tuple: (infomask, id); HEAP_HASNULL (bit 0 of the infomask) decides whether column b is NULL;
   page = list of them; file = list of pages *)
let ds_of (mask, id) : datum list =
  (* id < 0 with HEAP_HASNULL: a row whose attributes are ALL NULL - no data area at all, t_hoff = tuple length
     (INSERT ... DEFAULT VALUES); seeded change C09-6 *)
  if id < 0 && mask land 1 = 1 then [ DNull; DNull; DNull ] else
  (* id with bit 29 set: a row written before ALTER TABLE ADD COLUMN - only two attributes are stored (natts = 2), the
     third column must come back as NULL from every interface, the deleted-row recovery included (seeded change C09-10) *)
  if id >= 0 && id land 0x20000000 <> 0 then
    (if mask land 1 = 1 then [ DFixed (le32 id); DNull ] else [ DFixed (le32 id); DFixed (le32 7) ]) else
  if mask land 1 = 1 then [ DFixed (le32 id); DNull; DFixed (le32 (id + 1)) ] else [ DFixed (le32 id); DFixed (le32 7); DFixed (le32 (id + 1)) ]
let mk_tup r (mask, id) : tup =
  let ds = ds_of (mask, id) in
  (* t_xmin (bytes 0..3), t_xmax (4..7), t_cid/t_xvac (8..11), t_ctid (12..17): mostly random, but also zero xmin / zero xmax /
     all zero / xmin = xmax — classification must look at the hint bits only, never at these fields (seeded change C09-9) *)
  { tp_head = (let h = rbytes r 18 in
               let z4 = List.init 4 (fun _ -> byte_of_int 0) in
               let sub a b l = List.filteri (fun i _ -> i >= a && i < b) l in
               match rint r 8 with
               | 0 -> sub 0 4 h @ z4 @ sub 8 18 h
               | 1 -> z4 @ sub 4 18 h
               | 2 -> List.init 18 (fun _ -> byte_of_int 0)
               | 3 -> sub 0 4 h @ sub 0 4 h @ sub 8 18 h
               | _ -> h);
    tp_natts = zi (List.length ds); tp_flags2 = zi (rint r 32); tp_infomask = zi mask;
    tp_hoff = zi 24; tp_mid = (if mask land 1 = 1 then bitmap_of ds else [ byte_of_int 0 ]); tp_data = fill (zi 0) cols3 ds }
let mk_page r (ts : (int * int) list) : page =
  let n = List.length ts in
  let lower = 24 + 4 * n in
  let body = Array.make (8192 - lower) 0 in
  let pos = ref 8192 in
  let lps = List.map (fun x ->
      let t = mk_tup r x in
      let e = enc_tuple t in
      let l = List.length e in
      pos := (!pos - l) land (lnot 7);
      List.iteri (fun i b -> body.(!pos - lower + i) <- int_of_byte b) e;
      ({ lp_off = zi !pos; lp_flags = zi 1; lp_len = zi l }, Some t)) ts in
  { pg_lsn_etc = rbytes r 12; pg_upper = zi !pos; pg_special = zi 8192; pg_version = zi 4; pg_prune = rbytes r 4;
    pg_lps = lps; pg_body = Array.to_list (Array.map byte_of_int body) }

let row_s (m, id) = c_map (expected_row_i cols3 (ds_of (m, id)))
let rawlen (m, id) = if id < 0 && m land 1 = 1 then 0
  else if id >= 0 && id land 0x20000000 <> 0 then (if m land 1 = 1 then 4 else 8)
  else if m land 1 = 1 then 8 else 12
let ids l = c_list (List.map string_of_int l)
let idpo l = c_list (List.map (fun (id, po) -> Printf.sprintf "%d@%d" id po) l)

(* spec side: everything follows from the hint-bit predicates on the abstract tuples *)
let expected (pages : (int * int) list list) (a : int) (b : int) : string =
  let all = List.concat (List.mapi (fun i ts -> List.map (fun (m, id) -> (m, id, 8192 * i)) ts) pages) in
  let lv = List.filter (fun (m, _, _) -> live (zi m)) all and dl = List.filter (fun (m, _, _) -> deleted (zi m)) all in
  let inr = List.filter (fun (_, _, po) -> po >= 8192 * a && po <= 8192 * b) all in
  let inr_l = List.filter (fun (m, _, _) -> live (zi m)) inr in
  let p3 l = List.map (fun (_, id, po) -> (id, po)) l in
  let rel l = List.map (fun (_, id, po) -> (id, po - 8192 * a)) l in
  c_rec [ "all", idpo (p3 all); "vis", idpo (p3 lv); "parsefile", idpo (p3 lv);
          "rows_all", c_list (List.map (fun (m, id, _) -> row_s (m, id)) all); "rows_vis", c_list (List.map (fun (m, id, _) -> row_s (m, id)) lv);
          "del", c_list (List.map (fun (m, id, po) -> Printf.sprintf "{po=%d,raw=%d,data=%s}" po (rawlen (m, id)) (row_s (m, id))) dl);
          "del_noschema", c_list (List.map (fun (m, id, po) -> Printf.sprintf "{po=%d,raw=%d,data=mnil}" po (rawlen (m, id))) dl);
          "rwd_v", c_list (List.map (fun (m, id, _) -> row_s (m, id)) lv); "rwd_d", c_list (List.map (fun (m, id, _) -> row_s (m, id)) dl);
          "range_incl", idpo (rel inr); "range_excl", idpo (rel inr_l);
          (* no range at all (nil *BlockRange = the whole file): the switch must be forwarded on that path too (seeded change C09-5) *)
          "range_nil_incl", idpo (p3 all); "range_nil_excl", idpo (p3 lv) ]

let id_of (e : tupleEntry) : int * int =
  let d = e.e_tuple.t_data.vis in
  let b i = int_of_byte (List.nth d i) in
  ((if List.length d >= 4 then b 0 lor (b 1 lsl 8) lor (b 2 lsl 16) lor (b 3 lsl 24) else -1), iz e.e_pageoff)
let m_entries (r : tupleEntry list res) = c_res (fun l -> idpo (List.map id_of l)) r
let m_rows (r : (byte list * gval) list list res) = c_res (fun l -> c_list (List.map c_map l)) r

let model (file : byte list) (a : int) (b : int) : string =
  let s = { vis = file; tail = [] } in
  let range = { vis = List.filteri (fun i _ -> i >= 8192 * a && i < 8192 * (b + 1)) file; tail = [] } in
  let del cols = c_res (fun l -> c_list (List.map (fun d -> Printf.sprintf "{po=%s,raw=%s,data=%s}" (zs d.dr_pageoff) (zs d.dr_rawsize)
                                                        (match d.dr_data with None -> "mnil" | Some r -> c_map r)) l)) (readDeletedRows_i s cols) in
  let rwd = readRowsWithDeleted_i s cols3 in
  c_rec [ "all", m_entries (readTuples s false); "vis", m_entries (readTuples s true); "parsefile", m_entries (parseFile s);
          "rows_all", m_rows (readRows_i s cols3 false); "rows_vis", m_rows (readRows_i s cols3 true);
          "del", del cols3; "del_noschema", del [];
          "rwd_v", m_rows (match rwd with Ok (v, _) -> Ok v | Panic -> Panic); "rwd_d", m_rows (match rwd with Ok (_, d) -> Ok d | Panic -> Panic);
          "range_incl", (match readTuplesInRange (Some range) true with Some x -> m_entries x | None -> "err");
          "range_excl", (match readTuplesInRange (Some range) false with Some x -> m_entries x | None -> "err");
          "range_nil_incl", (match readTuplesInRange (Some s) true with Some x -> m_entries x | None -> "err");
          "range_nil_excl", (match readTuplesInRange (Some s) false with Some x -> m_entries x | None -> "err") ]

let run ~tag r (pages : (int * int) list list) =
  let np = List.length pages in
  let a = rint r np in let b = rrange r a (np - 1) in
  let file = List.concat_map (fun ts -> enc_page (mk_page r ts)) pages in
  emit ~fn:"VisibilityViews" ~tag ~s:(expected pages a b) ~m:(model file a b) [ hexf file; string_of_int a; string_of_int b ]

(* tuple version kinds: live, deleted, aborted insert, frozen, in-progress delete, updated (xmax committed + HOT bits), random *)
let kinds = [| 0x0900; 0x0500; 0x0A00; 0x0B00; 0x0100; 0x2500; 0x0000; 0x0D00; 0x0800; 0x0400; 0x0C00 |]

let tuple_class r mask =
  (* one stored tuple with this infomask, any other header bits: classification through ParseHeapTuple + IsVisible *)
  let t = mk_tup r (mask, mask) in
  let v = enc_tuple t in
  let s = Printf.sprintf "live=%b,deleted=%b" (live (zi mask)) (deleted (zi mask)) in
  let m = match parseHeapTuple { vis = v; tail = [] } with
    | Ok (Some ht) -> Printf.sprintf "live=%b,deleted=%b" (isVisible ht) (isDeleted ht)
    | Ok None -> "nil" | Panic -> "panic" in
  emit ~fn:"TupleClass" ~tag:"mask_exhaustive" ~s ~m [ hexf v ]

let gen seed n =
  (* exhaustive over all 65536 infomask values at the tuple level *)
  for mask = 0 to 65535 do tuple_class (rng_for seed (2000000 + mask)) mask done;
  (* whole-page sweeps through every interface: all 1024 blocks of 64 masks in the thorough tier, 24 random blocks in quick *)
  let blocks = if n >= 10000 then List.init 1024 (fun k -> k) else List.init 24 (fun i -> rint (rng_for seed (3000000 + i)) 1024) in
  List.iter (fun k ->
    let r = rng_for seed (1000000 + k) in
    run ~tag:"mask_block" r [ List.init 64 (fun i -> (64 * k + i, 64 * k + i)) ]) blocks;
  for k = 0 to n - 1 do
    let r = rng_for seed k in
    let np = rrange r 1 3 in
    let ctr = ref 0 in
    let pages = List.init np (fun _ -> List.init (rint r 9) (fun _ -> incr ctr;
                                  let m = if rint r 4 = 0 then ZA.to_int (rbits r 16) else pick r kinds lor (rint r 256) in
                                  (m, if m land 1 = 1 && rint r 4 = 0 then -1
                                      else if rint r 5 = 0 then (1000 * k + !ctr) lor 0x20000000 else 1000 * k + !ctr))) in
    run ~tag:"mixed_versions" r pages;
    (* a page filled to the last byte (pd_lower = pd_upper = 928): 226 line pointers, four 40-byte and 222 32-byte tuple images;
       it holds live, deleted and aborted versions like any other page (seeded change C09-17: such a page was judged invalid) *)
    if k mod 25 = 7 then begin
      let full = shuffle r (List.init 226 (fun i ->
          let m = pick r kinds lor (rint r 256) in
          ((if i < 4 then m land (lnot 1) else m lor 1), 1000000 + 1000 * k + i))) in
      let other = List.init (rint r 4) (fun i -> (pick r kinds, 2000000 + 1000 * k + i)) in
      run ~tag:"full_page" r (if rbool r then [ full; other ] else [ other; full ])
    end
  done
let () = main gen
