(* C07 driver: PostgreSQL array values.
   Functions (harness/c07.go):
     DecodeTypeArr      vis tail oid                      pgdump.DecodeType on an array type oid
     decodeArray        vis tail elemOid                  pgdump.decodeArray
     parseArrayElements vis tail off count elemOid elemLen fixed nulls|nil
     ArrayTables        (no argument)                     the three Go tables, dumped completely
   Element values are printed as  elem:<oid>:<hex>  (the bytes handed to the element decoder, which is
   C04's); the harness replaces each token by the real DecodeType(bytes, oid) before comparing. *)
open Model
open Util

(* ---------- rendering (must agree with harness/c07.go) ---------- *)
let tok (bs : byte list) : string =
  match bs with
  | a :: b :: c :: d :: rest ->
    let oid = int_of_byte a + 256 * (int_of_byte b + 256 * (int_of_byte c + 256 * int_of_byte d)) in
    Printf.sprintf "elem:%d:%s" oid (hexf rest)
  | _ -> "badtoken"
let rec c_val (v : gval) : string =
  match v with
  | VNil -> "nil" | VListNil -> "lnil"
  | VList l -> "l" ^ c_list (List.map c_val l)
  | VStr t -> tok t
  | _ -> "unexpected"
let c_opt (o : gval option) : string = match o with Some v -> c_val v | None -> "scalar"

(* ---------- helpers ---------- *)
let le32 (v : int) : byte list = List.init 4 (fun i -> byte_of_int ((v asr (8 * i)) land 255))
let rnz r n : byte list = List.init n (fun _ -> byte_of_int (1 + rint r 255))      (* non-zero bytes *)
let rascii r n : byte list = List.init n (fun _ -> byte_of_int (32 + rint r 95))
let take n l = List.filteri (fun i _ -> i < n) l
let set_at (bs : byte list) (off : int) (v : byte list) : byte list =
  let n = List.length v in
  List.mapi (fun i b -> if i >= off && i < off + n then List.nth v (i - off) else b) bs
let gs v t : gslice = { vis = v; tail = t }
let rows : tyrow array = Array.of_list pg_array_types
let cls (t : tyrow) : string =
  let l = iz t.t_len and a = iz t.t_align in
  let ac = match a with 1 -> "c" | 2 -> "s" | 4 -> "i" | _ -> "d" in
  if l < 0 then "v" ^ ac else Printf.sprintf "f%d%s" l ac

(* element content on which the real element decoders neither loop nor allocate by a stored count
   (bit length, point count, jsonb container) — element decoding itself is not C07's *)
let content r (eoid : int) (n : int) : byte list =
  match eoid with
  | 1560 | 1562 -> if n < 4 then rnz r n else le32 (rint r 65) @ rnz r (n - 4)
  | 602 | 604 ->
    if n < 5 then rnz r n
    else [ byte_of_int (rint r 2) ] @ le32 (rint r (1 + min 3 ((n - 5) / 16))) @ rnz r (n - 5)
  | 3802 ->
    let b = rnz r n in
    if n >= 4 then set_at b 3 [ byte_of_int (int_of_byte (List.nth b 3) land 0x8f) ] else b
  | 25 | 1042 | 1043 | 4072 | 3614 | 3615 -> if rbool r then rascii r n else rnz r n
  | _ -> rnz r n

(* size: 0 = tiny (0..5 data bytes), 1 = medium (0..40), 2 = full distribution incl. the 126/127 boundary *)
let gen_elem r (t : tyrow) (size : int) : velem =
  let l = iz t.t_len and eoid = iz t.t_elem in
  if l > 0 then EFixed (content r eoid l)
  else begin
    let n = match size with
      | 0 -> rint r 6
      | 1 -> (match rint r 8 with 0 -> 0 | 1 -> 1 | 2 -> 3 | 3 -> 4 | _ -> rrange r 2 40)
      | 2 -> (match rint r 12 with
          | 0 -> 0 | 1 -> 1 | 2 -> 2 | 3 -> 3 | 4 -> 4 | 5 -> 125 | 6 -> 126 | 7 -> 127 | 8 -> 128
          | 9 -> rrange r 129 400 | _ -> rrange r 5 40)
      | _ -> pick r [| 65531; 65532; 65536; 70000; 16380; 16384 |] (* length field beyond 16 bits *) in
    let d = content r eoid n in
    if n + 1 <= 127 && rbool r then EShort d else ELong d
  end

(* split n >= 1 into nd >= 1 factors *)
let factor_dims r (n : int) (nd : int) : int list =
  let dims = Array.make nd 1 in
  let rec go n p =
    if n = 1 then ()
    else if p * p > n then (let i = rint r nd in dims.(i) <- dims.(i) * n)
    else if n mod p = 0 then (let i = rint r nd in dims.(i) <- dims.(i) * p; go (n / p) p)
    else go n (p + 1) in
  go n 2; Array.to_list dims

let gen_lbound r : z =
  match rint r 8 with
  | 0 -> zi 0 | 1 -> zi (-1) | 2 -> z_of_zarith (ZA.of_string "-2147483648") | 3 -> zi 2147483647
  | 4 -> zi (- (rint r 100000)) | 5 -> z_of_zarith (ZA.sub (rdistinct r 32) (ZA.of_string "2147483648"))
  | _ -> zi 1

let null_modes = [| "nonull"; "bm_allset"; "allnull"; "first"; "last"; "alt"; "random"; "nonull" |]

(* a well-formed array value; k drives the systematic part *)
let gen_arr r (k : int) : arr * string =
  let t = rows.(k mod Array.length rows) in
  let w = max 1 (iz t.t_len) in
  (* the extracted model costs about (elements x bytes) x 0.3 us: the 2000-element arrays of the
     property's quantifier are kept rare and, for wide elements, scaled down *)
  let shape = rint r 1000 in
  let n, size =
    if shape < 80 then 0, 0
    else if shape < 84 then
      min (pick r [| 2000; 1999; 1024; rrange r 200 2000 |])
        (int_of_float (sqrt (4.0e6 /. float_of_int (if iz t.t_len > 0 then w else 8)))), 0
    else if shape < 300 then pick r [| 7; 8; 9; 15; 16; 17; 23; 24; 25; 31; 32; 33; 63; 64; 65 |], 0
    else if shape < 306 then 1 + rint r 2, 3
    else if shape < 530 then 1 + rint r 4, 2
    else rrange r 1 14, 1 in
  if n = 0 then ({ a_ty = t; a_dims = []; a_hasnull = false; a_elems = [] }, "valid." ^ cls t ^ ".empty")
  else begin
    let nd = if n = 1 && rbool r then 1 + rint r 6 else 1 + ((k / Array.length rows) mod 6) in
    let dims = List.map (fun d -> (zi d, gen_lbound r)) (factor_dims r n nd) in
    let mode = null_modes.((k / 7) mod Array.length null_modes) in
    let isnull i = match mode with
      | "allnull" -> true | "first" -> i = 0 | "last" -> i = n - 1 | "alt" -> i mod 2 = (k mod 2)
      | "random" -> rint r 3 = 0 | _ -> false in
    let elems = List.init n (fun i -> if isnull i then None else Some (gen_elem r t size)) in
    ({ a_ty = t; a_dims = dims; a_hasnull = (mode <> "nonull"); a_elems = elems },
     Printf.sprintf "valid.%s.%s" (cls t) mode)
  end

(* the element type is decided by the ARRAY type (the tool's table), never by the elemtype word of the datum header: every
   fourth well-formed case carries another oid there (the real one of a type the table maps to a stand-in, e.g. 24 for
   regproc[] 1008 -> oid; 0; a random one); seeded change C07-12 *)
let dt_counter = ref 0
let prev_valid : (byte list * z * string) option ref = ref None
let run_dt ~tag ~s (v : byte list) (t : byte list) (oid : z) =
  incr dt_counter;
  let valid = String.length tag >= 6 && String.sub tag 0 6 = "valid." in
  let v = if valid && !dt_counter mod 4 = 0 && List.length v >= 12 then
      let w = [| 24; 0; 99999; 2205 |].((!dt_counter / 4) mod 4) in
      List.mapi (fun i b -> if i >= 8 && i < 12 then byte_of_int ((w lsr (8 * (i - 8))) land 255) else b) v
    else v in
  let m = c_res c_opt (m_DecodeType_array (gs v t) oid) in
  emit ~fn:"DecodeTypeArr" ~tag:(if valid && !dt_counter mod 4 = 0 then tag ^ ".hdr_elemtype" else tag) ~s ~m [ hexf v; hexf t; zs oid ];
  (* two arrays decoded one after the other, the FIRST result looked at only after the second decode: results must not
     share storage (seeded change C07-11: a package-level scratch slice reused between calls) *)
  if valid && s <> "-" then begin
    (match !prev_valid with
     | Some (v0, oid0, s0) when !dt_counter mod 3 = 0 ->
       let m0 = c_res c_opt (m_DecodeType_array (gs v0 []) oid0) in
       emit ~fn:"DecodeTypeArrPair" ~tag:"valid.pair_hold_first" ~s:(s0 ^ ";" ^ s) ~m:(m0 ^ ";" ^ m) [ hexf v0; zs oid0; hexf v; zs oid ]
     | _ -> ());
    prev_valid := Some (v, oid, s)
  end
let run_da ~tag ~s (v : byte list) (t : byte list) (eoid : z) =
  let m = c_res c_val (m_decodeArray (gs v t) eoid) in
  emit ~fn:"decodeArray" ~tag ~s ~m [ hexf v; hexf t; zs eoid ]
let run_pe ~tag (v : byte list) (t : byte list) off count eoid elen fixed (nulls : byte list option) =
  let m = c_res c_val (m_parseArrayElements (gs v t) (zi off) (zi count) (zi eoid) (zi elen) fixed
                         (match nulls with None -> None | Some b -> Some (gs b []))) in
  emit ~fn:"parseArrayElements" ~tag ~s:"-" ~m
    [ hexf v; hexf t; string_of_int off; string_of_int count; string_of_int eoid; string_of_int elen;
      (if fixed then "1" else "0"); (match nulls with None -> "nil" | Some b -> hexf b) ]

let tables_string () : string =
  let dump (m : (z * z) list) =
    let l = List.sort compare (List.map (fun (k, v) -> (iz k, iz v)) m) in
    String.concat "," (List.map (fun (k, v) -> Printf.sprintf "%d:%d" k v) l) in
  "arr{" ^ dump arrayElemTypes ^ "}fixed{" ^ dump fixedLengths ^ "}align{" ^ dump elemAligns ^ "}"

(* element types for malformed input: their decoders are total on arbitrary bytes *)
let mal_rows = [| 1007; 1009; 1016; 1040; 1270; 1001; 1003; 1005; 2951; 1231; 3909; 1010; 1187; 3645 |]
let row_of_arr (a : int) : tyrow = List.find (fun t -> iz t.t_arr = a) pg_array_types

let tail_for r = if rint r 3 = 0 then rnz r (1 + rint r 40) else []

let gen_case seed r k =
  let a, tag = gen_arr r (k / 2 + k / 20) in   (* 11q + c: every row of the 50 with every case kind *)
  let bytes = enc_array a in
  let oid = a.a_ty.t_arr in
  match k mod 20 with
  | 10 | 11 -> (* truncated valid images *)
    let n = List.length bytes in
    let cut = match rint r 6 with
      | 0 -> rint r 12 | 1 -> 11 + rint r 3 | 2 -> 12 + 8 * List.length a.a_dims - rint r 2
      | 3 -> max 0 (n - 1 - rint r 3) | _ -> rint r (n + 1) in
    run_dt ~tag:"mal.truncated" ~s:"-" (take cut bytes) (if rbool r then rnz r 64 else []) oid
  | 12 -> (* header fields at boundary values *)
    let t = row_of_arr (pick r mal_rows) in
    let a, _ = gen_arr r (rint r 100000) in
    let a = { a with a_ty = t;
              a_elems = List.map (function None -> None | Some _ -> Some (gen_elem r t 0)) a.a_elems } in
    let b = enc_array a in
    let n = List.length b in
    let nd = List.length a.a_dims in
    let cnt = List.length a.a_elems in
    let bmend = 12 + 8 * nd + (cnt + 7) / 8 in
    let b', tg = match rint r 5 with
      | 0 -> set_at b 0 (le32 (pick r [| -1; 7; 6; 5; 0x7fffffff; 1; 2; 3; 4 |])), "mal.ndim"
      | 1 -> set_at b 4 (le32 (pick r [| 1; 3; 4; 5; bmend + 3; bmend + 4; bmend + 5; n + 3; n + 4; n + 5;
                                           0x7fffffff; -1; -0x80000000; iz (dataoffset a) + pick r [| -8; -4; -1; 1; 4; 8 |] |])), "mal.dataoff"
      | 2 when nd >= 1 ->
        let d = pick r [| 0; -1; 65536; 46341; 0x7fffffff; -0x80000000; 8 * n; 8 * n + 1; 8 * n - 1; n; n + 1; cnt + 1; cnt + 8; cnt - 1 |] in
        let b1 = set_at b 12 (le32 d) in
        (if nd >= 2 && rbool r then set_at b1 16 (le32 (pick r [| 65536; -1; 46341; 2; 0 |])) else b1), "mal.dims"
      | 3 when nd >= 1 -> (* claim just more / fewer elements than 8*len *)
        let b1 = List.fold_left (fun acc i -> set_at acc (12 + 4 * i) (le32 1)) b (List.init nd (fun i -> i)) in
        set_at b1 12 (le32 (8 * n + pick r [| -1; 0; 1 |])), "mal.count8len"
      | _ -> set_at b 4 (le32 (if a.a_hasnull then 0 else (16 + 8 * nd + 8))), "mal.flipnulls" in
    run_dt ~tag:tg ~s:"-" b' (tail_for r) t.t_arr
  | 13 -> (* varlena element headers at boundary values, 1-D array built by hand *)
    let eo = pick r [| 25; 17; 1700; 3908; 3615 |] in
    let pre = rint r 3 in
    let good = List.init pre (fun _ -> let d = rnz r (rint r 9) in enc_elem (if rbool r then EShort d else ELong d)) in
    let al = iz (arrayElemAlign (zi eo)) in
    let pad l = let n = List.length l in l @ List.init ((al - n mod al) mod al) (fun _ -> byte_of_int 0) in
    let body = List.concat (List.map pad good) in
    let rest = rint r 12 in
    let bad, tg = match rint r 8 with
      | 0 -> [ byte_of_int 0x01 ], "mal.short_n0"
      | 1 -> [ byte_of_int 0x03 ], "mal.short_n1"
      | 2 -> [ byte_of_int (2 * (rest + 1 + pick r [| 0; 1; 2 |]) + 1) ], "mal.short_end"
      | 3 -> le32 (4 * pick r [| 0; 1; 2; 3; 4 |]), "mal.long_n0_4"
      | 4 -> le32 (4 * (rest + 4 + pick r [| 0; 1; 2 |])), "mal.long_end"
      | 5 -> take (1 + rint r 3) (le32 (4 * 8)), "mal.long_hdr_cut"
      | 6 -> le32 (4 * (rest + 4) + 2), "mal.long_flag2"
      | _ -> le32 0x7ffffffc, "mal.long_huge" in
    let restb = if tg = "mal.long_hdr_cut" then [] else rnz r rest in
    let cnt = pre + 1 + rint r 2 in
    let img = le32 1 @ le32 0 @ le32 eo @ le32 cnt @ le32 1 @ body @ bad @ restb in
    run_da ~tag:tg ~s:"-" img (if rbool r then rnz r 16 else []) (zi eo)
  | 14 -> (* parseArrayElements directly, arguments around the valid ones *)
    let t = a.a_ty in
    let nd = List.length a.a_dims in
    let cnt = List.length a.a_elems in
    let start = if a.a_hasnull then iz (dataoffset a) - 4 else 12 + 8 * nd in
    let nulls = if a.a_hasnull then Some (take ((cnt + 7) / 8) (List.filteri (fun i _ -> i >= 12 + 8 * nd) bytes)) else None in
    let off = start + pick r [| 0; 0; 0; 1; -1; 4; -4; 8; 2 |] in
    let count = cnt + pick r [| 0; 0; 1; -1; 8; 9 |] in
    let nulls = match nulls with
      | Some b when rint r 4 = 0 -> Some (take (List.length b - 1) b)
      | Some b when rint r 8 = 0 -> Some (rnz r (List.length b))
      | x -> x in
    let l = iz t.t_len in
    let eo = iz t.t_elem in
    (* only element types whose decoders are total on arbitrary bytes when the layout is disturbed *)
    if off = start || Array.exists (fun x -> iz (row_of_arr x).t_elem = eo) mal_rows
    then run_pe ~tag:"pe.near_valid" bytes (tail_for r) off (max count (-1)) eo (if l > 0 then l else 0) (l > 0) nulls
    else run_pe ~tag:"pe.valid" bytes (tail_for r) start cnt eo (if l > 0 then l else 0) (l > 0)
        (if a.a_hasnull then Some (take ((cnt + 7) / 8) (List.filteri (fun i _ -> i >= 12 + 8 * nd) bytes)) else None)
  | 15 -> (* random bytes with a plausible header *)
    let n = pick r [| 0; 1; 11; 12; 13; 19; 20; 21; 27; 28; 40; 64; 200 |] in
    let v = rbytes r n in
    let v = if n >= 12 && rint r 4 <> 0 then set_at v 0 (le32 (rint r 8)) else v in
    let v = if n >= 12 && rbool r then set_at v 4 (le32 (pick r [| 0; 24; 32; 28; 40 |])) else v in
    let v = if n >= 20 && rint r 3 <> 0 then set_at v 12 (le32 (rint r 12)) else v in
    let v = if n >= 28 && rint r 3 <> 0 then set_at v 16 (le32 (1 + rint r 3)) else v in
    run_dt ~tag:(if n = 0 then "empty" else "mal.random") ~s:"-" v (tail_for r) (zi (pick r mal_rows))
  | 16 -> (* an oid outside the table goes to the scalar decoder; 1006 is in the Go table (not claimed) *)
    if rint r 4 = 0 then
      run_dt ~tag:"notarray" ~s:"-" bytes [] (zi (pick r [| 23; 25; 1004; 1013; 999; 1029; 0; 199; 3904; 3926 |]))
    else if rint r 3 = 0 then begin
      let t16 = row_of_arr 1005 in
      let a = { a with a_ty = t16; a_elems = List.map (function None -> None | Some _ -> Some (gen_elem r t16 0)) a.a_elems } in
      run_dt ~tag:"int2vector_as_int2" ~s:"-" (enc_array a) [] (zi 1006)
    end else
      (* decodeArray with the element type of the valid value *)
      run_da ~tag:("da." ^ tag) ~s:(c_res c_opt (s_expected a)) bytes (tail_for r) a.a_ty.t_elem
  | _ -> (* well-formed value: S from the abstract value, M and I from the bytes *)
    run_dt ~tag ~s:(c_res c_opt (s_expected a)) bytes (tail_for r) oid

let gen seed n =
  emit ~fn:"ArrayTables" ~tag:"tables_exhaustive" ~s:"-" ~m:(tables_string ()) [];
  (* the unit-test vectors of the repository: {1,2,3}::int4[] and the 12-byte empty array *)
  let basic = bytes_of_hex "0100000000000000170000000300000001000000010000000200000003000000" in
  run_dt ~tag:"corpus.TestDecodeArrayBasic" ~s:"l[elem:23:01000000,elem:23:02000000,elem:23:03000000]" basic [] (zi 1007);
  run_dt ~tag:"corpus.TestDecodeArrayEmpty" ~s:"l[]" (bytes_of_hex "000000000000000017000000") [] (zi 1007);
  for k = 0 to n - 1 do gen_case seed (rng_for seed k) k done
let () = main gen
