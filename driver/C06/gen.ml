(* C06 driver: JSON documents -> PostgreSQL JSONB images (extracted spec encoder) -> cases for
   ParseJSONB / DecodeType(jsonb) and the helper functions; plus a malformed stream (S = "-"). *)
open Model
open Util
open Value

(* ---- rendering (must agree with harness/c06.go + canon.go) ---- *)
let c_jres (f : 'a -> string) (r : 'a jres) : string =
  match r with JOk a -> f a | JPanic -> "panic" | JFuel -> "fuel"
let c_pair (r : (z * z) res) : string = c_res (fun (a, b) -> zs a ^ "," ^ zs b) r
let c_z (r : z res) : string = c_res zs r

let mk_slice v t = { vis = v; tail = t }
let words_hex (ws : z list) : string = hexf (List.concat_map (fun w -> le_enc (nat_of_int 4) w) ws)

(* ---- strings ---- *)
let utf8_of_cp (b : Buffer.t) (cp : int) =
  if cp < 0x80 then Buffer.add_char b (Char.chr cp)
  else if cp < 0x800 then (Buffer.add_char b (Char.chr (0xC0 lor (cp lsr 6))); Buffer.add_char b (Char.chr (0x80 lor (cp land 0x3F))))
  else if cp < 0x10000 then (Buffer.add_char b (Char.chr (0xE0 lor (cp lsr 12)));
                             Buffer.add_char b (Char.chr (0x80 lor ((cp lsr 6) land 0x3F)));
                             Buffer.add_char b (Char.chr (0x80 lor (cp land 0x3F))))
  else (Buffer.add_char b (Char.chr (0xF0 lor (cp lsr 18)));
        Buffer.add_char b (Char.chr (0x80 lor ((cp lsr 12) land 0x3F)));
        Buffer.add_char b (Char.chr (0x80 lor ((cp lsr 6) land 0x3F)));
        Buffer.add_char b (Char.chr (0x80 lor (cp land 0x3F))))
(* exactly n bytes of valid UTF-8 (1..4-byte sequences, ASCII incl. control characters, no NUL) *)
let gen_utf8 r (n : int) : byte list =
  let b = Buffer.create (n + 4) in
  let rec go left =
    if left > 0 then begin
      let k = match rint r 7 with 0 when left >= 2 -> 2 | 1 when left >= 3 -> 3 | 2 when left >= 4 -> 4 | _ -> 1 in
      (match k with
       | 1 -> utf8_of_cp b (1 + rint r 127)
       | 2 -> utf8_of_cp b (0x80 + rint r (0x800 - 0x80))
       | 3 -> let cp = 0x800 + rint r (0x10000 - 0x800) in
              utf8_of_cp b (if cp >= 0xD800 && cp <= 0xDFFF then 0x20AC else cp)
       | _ -> utf8_of_cp b (0x10000 + rint r (0x110000 - 0x10000)));
      go (left - k)
    end in
  go n; bytes_of_string (Buffer.contents b)
let str_lens = [| 0; 0; 1; 1; 2; 3; 4; 5; 6; 7; 8; 9; 11; 13; 126; 127; 128; 255; 256; 299; 300 |]
let gen_strlen r ~small = if small || rint r 4 <> 0 then rint r 14 else pick r str_lens
let gen_str r ~small = gen_utf8 r (gen_strlen r ~small)

(* ---- numerics (payload after the numeric's varlena header; opaque here, meaning = C05) ---- *)
let u16le (v : int) = [ byte_of_int (v land 255); byte_of_int ((v lsr 8) land 255) ]
let gen_numeric r : byte list =
  match rint r 8 with
  | 0 -> u16le 0x8000                                             (* 0 *)
  | 1 -> u16le 0x8000 @ u16le 1                                   (* 1 *)
  | 2 -> u16le 0xC000                                             (* NaN *)
  | 3 -> (* long format: sign|dscale, weight, digits *)
    let nd = 1 + rint r 5 in
    u16le ((if rbool r then 0x4000 else 0) lor rint r 20) @ u16le (rint r 4) @ List.concat (List.init nd (fun _ -> u16le (rint r 10000)))
  | 4 -> (* all bytes distinct and non-zero *)
    let nb = 2 * (1 + rint r 5) in
    let z = rdistinct r (8 * nb) in
    let l = List.init nb (fun i -> byte_of_int (ZA.to_int (ZA.logand (ZA.shift_right z (8 * i)) (ZA.of_int 255)))) in
    (match l with a :: b :: rest -> a :: byte_of_int (int_of_byte b lor 0x80) :: rest | _ -> l)
  | _ -> (* short format *)
    let nd = 1 + rint r 4 in
    u16le (0x8000 lor (if rbool r then 0x2000 else 0) lor (rint r 8 lsl 7) lor rint r 3)
    @ List.concat (List.init nd (fun _ -> u16le (1 + rint r 9999)))

(* ---- documents ---- *)
(* container sizes around the 32-entry offset stride (an object of n pairs has 2n entries: key half
   crosses at n = 33, 65, ...; value half starts at entry n, so n = 17..32 puts a stride point there) *)
let sizes_lo = [| 0; 1; 2; 15; 16; 17; 18; 31; 32; 33; 34 |]
let sizes_mid = [| 47; 48; 49; 63; 64; 65; 66 |]
let sizes_hi = [| 96; 97; 128; 129; 199; 200 |]
let pick_big r = match rint r 20 with 0 | 1 -> pick r sizes_hi | 2 | 3 | 4 | 5 -> pick r sizes_mid | _ -> pick r sizes_lo
let small_sizes = [| 0; 0; 1; 1; 2; 2; 3; 4; 5; 8; 16; 17; 33 |]

let sort_keys (ks : byte list list) : byte list list =
  (* PostgreSQL's object key order: by length, then bytewise; keys distinct *)
  let cmp a b = let la = List.length a and lb = List.length b in
    if la <> lb then compare la lb else compare (List.map int_of_byte a) (List.map int_of_byte b) in
  List.sort_uniq cmp ks

let rec gen_keys r n ~small : byte list list =
  let rec fill acc tries =
    let acc = sort_keys acc in
    if List.length acc >= n || tries > 6 then acc
    else fill (acc @ List.init (n - List.length acc) (fun _ ->
        (* many keys of equal length so that bytewise order matters; some long, some empty *)
        match rint r 10 with
        | 0 -> gen_utf8 r (pick r [| 0; 1; 127; 128; 300 |])
        | 1 | 2 -> gen_utf8 r 2
        | _ -> gen_utf8 r (1 + rint r (if small then 6 else 12)))) (tries + 1) in
  fill [] 0

let budget = ref 0
let rec gen_json r (depth : int) ~(top : bool) : json =
  decr budget;
  let scalar () =
    match rint r 7 with
    | 0 -> JNull | 1 -> JBool true | 2 -> JBool false
    | 3 | 4 -> JNum (gen_numeric r)
    | _ -> JStr (gen_str r ~small:(not top && rint r 8 <> 0)) in
  if depth <= 0 || !budget <= 0 then (if rint r 5 = 0 then (if rbool r then JArr [] else JObj []) else scalar ())
  else match rint r (if top then 2 else 6) with
    | 0 -> (* array *)
      let n = gen_size r ~top in
      JArr (List.init n (fun _ -> gen_json r (depth - 1) ~top:false))
    | 1 -> (* object *)
      let n = gen_size r ~top in
      let ks = gen_keys r n ~small:(n > 40) in
      JObj (List.map (fun k -> (k, gen_json r (depth - 1) ~top:false)) ks)
    | _ -> scalar ()
and gen_size r ~top =
  let n = if top then pick_big r else pick r small_sizes in
  max 0 (min n !budget)

(* forced shapes: the container kinds and sizes the property names *)
let gen_doc r (k : int) : json * string =
  budget := 20 + rint r 70;
  match k mod 16 with
  | 0 -> (* scalar root, each kind *)
    (match (k / 16) mod 5 with
     | 0 -> (JNull, "root_null") | 1 -> (JBool true, "root_true") | 2 -> (JBool false, "root_false")
     | 3 -> (JNum (gen_numeric r), "root_num")
     | _ -> (JStr (gen_str r ~small:false), "root_str"))
  | 1 -> (* empty containers at the root and nested at every depth *)
    let rec nest d = if d = 0 then (if rbool r then JArr [] else JObj [])
      else if rbool r then JArr (List.init (1 + rint r 3) (fun i -> if i = 0 then nest (d - 1) else if rbool r then JObj [] else JArr []))
      else JObj (List.mapi (fun i k -> (k, if i = 0 then nest (d - 1) else if rbool r then JObj [] else JStr (gen_str r ~small:true)))
                   (gen_keys r (1 + rint r 3) ~small:true)) in
    (nest (rint r 7), "empty_nested")
  | 2 | 3 -> (* flat object of a boundary size, values of every kind (alignment after odd-length keys) *)
    let n = pick_big r in
    let ks = gen_keys r n ~small:(n > 40) in
    budget := 0;
    (JObj (List.map (fun k -> (k, gen_json r 1 ~top:false)) ks), Printf.sprintf "obj_flat_%s" (if n < 17 then "lt17" else if n < 32 then "17-31" else if n = 32 then "32" else if n < 64 then "33-63" else "ge64"))
  | 4 -> (* flat array of a boundary size *)
    let n = pick_big r in
    budget := 0;
    (JArr (List.init n (fun _ -> gen_json r 1 ~top:false)), Printf.sprintf "arr_flat_%s" (if n < 32 then "lt32" else if n = 32 then "32" else if n < 64 then "33-63" else "ge64"))
  | 5 -> (* deep chain, depth 6, containers and numbers at every alignment *)
    let rec chain d = if d = 0 then JNum (gen_numeric r)
      else if rbool r then JArr [ JStr (gen_utf8 r (rint r 8)); chain (d - 1); JNum (gen_numeric r) ]
      else JObj (List.map2 (fun k v -> (k, v)) (gen_keys r 2 ~small:true |> fun l -> if List.length l = 2 then l else [ bytes_of_string "a"; bytes_of_string "bb" ])
                   [ chain (d - 1); JStr (gen_utf8 r (rint r 6)) ]) in
    (chain 6, "deep6")
  | 6 -> (* object with many pairs whose values are containers / numbers: stride crossings in both halves *)
    let n = pick r [| 17; 31; 32; 33; 33; 40; 64; 65; 100; 200 |] in
    let ks = gen_keys r n ~small:true in
    (JObj (List.map (fun k -> (k, match rint r 4 with
        | 0 -> JArr [ JNum (gen_numeric r) ] | 1 -> JObj [] | 2 -> JNum (gen_numeric r) | _ -> JStr (gen_utf8 r (rint r 5)))) ks), "obj_stride_mixed")
  | 7 -> (* long strings / keys *)
    let n = 1 + rint r 4 in
    let ks = List.init n (fun _ -> gen_utf8 r (pick r [| 126; 127; 128; 255; 256; 300 |])) |> sort_keys in
    (JObj (List.map (fun k -> (k, JStr (gen_utf8 r (pick r [| 0; 127; 128; 300 |])))) ks), "long_strings")
  | _ ->
    let d = 1 + rint r 6 in
    let j = gen_json r d ~top:true in
    (j, match j with JArr l -> if l = [] then "arr_empty" else "arr_random" | JObj l -> if l = [] then "obj_empty" else "obj_random" | _ -> "scalar_random")

(* ---- valid-document cases ---- *)
let tail_for r = if rint r 3 = 0 then rbytes r (1 + rint r 12) else []

let run_parse ~tag ~s v t =
  let m = c_jres c_gval (x_ParseJSONB (mk_slice v t)) in
  emit ~fn:"ParseJSONB" ~tag ~s ~m [ hexf v; hexf t ]
let run_decode ~tag ~s v t =
  let m = c_jres c_gval (x_DecodeType_jsonb (mk_slice v t)) in
  emit ~fn:"DecodeTypeJSONB" ~tag ~s ~m [ hexf v; hexf t ]

(* ---- malformed stream ---- *)
let set_u32 (bs : byte list) (off : int) (v : ZA.t) : byte list =
  List.mapi (fun i b -> if i >= off && i < off + 4
              then byte_of_int (ZA.to_int (ZA.logand (ZA.shift_right v (8 * (i - off))) (ZA.of_int 255))) else b) bs
let get_u32 (bs : byte list) (off : int) : ZA.t =
  let a = Array.of_list (List.filteri (fun i _ -> i >= off && i < off + 4) bs) in
  if Array.length a < 4 then ZA.zero else
    ZA.of_int (int_of_byte a.(0) lor (int_of_byte a.(1) lsl 8) lor (int_of_byte a.(2) lsl 16) lor (int_of_byte a.(3) lsl 24))
let take n l = List.filteri (fun i _ -> i < n) l

let mutate r (b : byte list) : byte list * string =
  let n = List.length b in
  let hdr = ZA.to_int (get_u32 b 0) in
  let count = hdr land 0x0FFFFFFF in
  let nent = if hdr land 0x20000000 <> 0 then 2 * count else count in
  match rint r 10 with
  | 0 -> (take (pick r [| 0; 1; 3; 4; 5; 7; 8; 4 + 4 * nent - 1; 4 + 4 * nent; 4 + 4 * nent + 1; n - 1; n - 2; n - 4 |]) b, "mal_trunc")
  | 1 -> (take (rint r (n + 1)) b, "mal_trunc")
  | 2 -> (* count field at boundary values *)
    let c = pick r [| 0; 1; count - 1; count + 1; 2 * count; 10000; 10001; 0x0FFFFFFF |] in
    (set_u32 b 0 (ZA.of_int ((hdr land 0xF0000000) lor (max 0 c land 0x0FFFFFFF))), "mal_count")
  | 3 -> (* header flags *)
    let f = pick r [| 0; 0x10000000; 0x20000000; 0x40000000; 0x30000000; 0x50000000; 0x60000000; 0x70000000; 0x80000000; 0xC0000000 |] in
    (set_u32 b 0 (ZA.of_int (f lor count)), "mal_flags")
  | 4 | 5 when nent > 0 -> (* one JEntry altered *)
    let i = (match rint r 4 with 0 -> 0 | 1 -> nent - 1 | 2 -> min (nent - 1) (32 * (1 + rint r 3)) | _ -> rint r nent) in
    let off = 4 + 4 * i in
    let e = ZA.to_int (get_u32 b off) in
    let e' = (match rint r 8 with
        | 0 -> e lxor 0x80000000
        | 1 -> e + 1 | 2 -> (if e land 0x0FFFFFFF > 0 then e - 1 else e + 2)
        | 3 -> (e land 0x8FFFFFFF) lor (pick r [| 0x60000000; 0x70000000 |])
        | 4 -> (e land 0x8FFFFFFF) lor (rint r 6 lsl 28)
        | 5 -> (e land 0xF0000000) lor (pick r [| 0; 1; 3; 4; 5; n; n - 4; 0x0FFFFFFF |] land 0x0FFFFFFF)
        | 6 -> (e land 0x70000000) lor 0x80000000 lor rint r 8        (* end offset before the start: negative length *)
        | _ -> (e land 0xF0000000) lor rint r (n + 2)) in
    (set_u32 b off (ZA.of_int (e' land 0xFFFFFFFF)), "mal_entry")
  | 6 -> (* one byte altered anywhere *)
    let p = rint r (max 1 n) in
    (List.mapi (fun i x -> if i = p then byte_of_int (int_of_byte x lxor (1 lsl rint r 8)) else x) b, "mal_byteflip")
  | 7 -> (* random bytes with a plausible header *)
    let m = pick r [| 4; 8; 12; 16; 24; 40; 64 |] in
    let v = rbytes r m in
    let c = pick r [| 0; 1; 2; 3; 5 |] in
    (set_u32 v 0 (ZA.of_int (pick r [| 0x20000000; 0x40000000; 0x50000000 |] lor c)), "mal_random_hdr")
  | 8 -> (rbytes r (pick r [| 0; 1; 3; 4; 5; 8; 16; 33 |]), "mal_random")
  | _ -> (b @ rbytes r (1 + rint r 8), "mal_extended")

(* ---- non-monotone end offsets and the overlap bomb (malformed; S = "-": model vs implementation) ---- *)
let le32 (v : int) : byte list = le_enc (nat_of_int 4) (zi v)
let get_i (b : byte list) (off : int) : int = ZA.to_int (get_u32 b off)
let zeros_n n = List.init n (fun _ -> byte_of_int 0)
(* running end offset before entry i, as parseJSONB's walk (and endOffset) compute it *)
let run_before (b : byte list) (i : int) : int =
  let run = ref 0 in
  for j = 0 to i - 1 do
    let e = get_i b (4 + 4 * j) in
    let v = e land 0x0FFFFFFF in
    if e land 0x80000000 <> 0 then run := v else run := !run + v
  done;
  !run
(* a VALID container around the container image c: array [string, c, null] or object {key: c} *)
let wrap r (c : byte list) : byte list =
  let lc = List.length c in
  if rbool r then begin
    let s = gen_utf8 r (rint r 7) in
    let ls = List.length s in
    let pad = (4 - ((16 + ls) land 3)) land 3 in
    le32 (0x40000000 lor 3) @ le32 (0x80000000 lor ls) @ le32 (0x50000000 lor (pad + lc)) @ le32 0x40000000
    @ s @ zeros_n pad @ c
  end else begin
    let key = gen_utf8 r (1 + rint r 6) in
    let lk = List.length key in
    let pad = (4 - ((12 + lk) land 3)) land 3 in
    le32 (0x20000000 lor 1) @ le32 (0x80000000 lor lk) @ le32 (0x50000000 lor (pad + lc))
    @ key @ zeros_n pad @ c
  end
let fixed_doc = JArr [ JStr (bytes_of_string "ab"); JNum (u16le 0x8000 @ u16le 7); JArr [ JNull; JStr (bytes_of_string "xyz") ]; JStr (bytes_of_string "cde") ]
(* one JEntry of a valid container replaced by HAS_OFF | v with v below / at / above the running end offset *)
let nonmono_doc r (k : int) : byte list * string =
  let (j, _) = gen_doc r (pick r [| 2; 4; 5; 6; 8; 9; 10; 11 |]) in
  let nent_of b = let hdr = get_i b 0 in let c = hdr land 0x0FFFFFFF in if hdr land 0x20000000 <> 0 then 2 * c else c in
  let b0 = if wf_jsonb j && nent_of (enc_jsonb j) >= 3 && List.length (enc_jsonb j) < 3000 then enc_jsonb j else enc_jsonb fixed_doc in
  let nent = nent_of b0 in
  let (i, pos) = (match k mod 4 with 0 -> (0, "first") | 1 -> (1, "second") | 2 -> (nent / 2, "mid") | _ -> (nent - 1, "last")) in
  let run = run_before b0 i in
  let e = get_i b0 (4 + 4 * i) in
  let (v, var) = (match (k / 4) mod 5 with
      | 0 -> (0, "zero")
      | 1 -> (max 0 (run - 1), "below")
      | 2 -> (run, "equal")
      | 3 -> ((if run > 0 then rint r run else 0), "rand")
      | _ -> (run_before b0 (i + 1), "valid")) in
  let b = set_u32 b0 (4 + 4 * i) (ZA.of_int ((e land 0x70000000) lor 0x80000000 lor (v land 0x0FFFFFFF))) in
  let (b, nest) = (match (k / 20) mod 3 with 0 -> (b, "n0") | 1 -> (wrap r b, "n1") | _ -> (wrap r (wrap r b), "n2")) in
  (b, Printf.sprintf "nonmono_%s_%s_%s" pos var nest)
(* the overlap bomb: [container of length L, null with HAS_OFF value 0, container of length L] over the SAME L
   bytes, nested d times: 4 + 16 d bytes, 2^d decodes in the unrepaired code *)
let rec bomb d = if d = 0 then le32 0x40000000 else begin
    let c = bomb (d - 1) in let l = List.length c in
    le32 (0x40000000 lor 3) @ le32 (0x50000000 lor l) @ le32 (0x80000000 lor 0x40000000) @ le32 (0x50000000 lor l) @ c end
(* its well-formed twin: the null's stored end offset is L and the two containers have their own bytes *)
let rec twin d = if d = 0 then le32 0x40000000 else begin
    let c = twin (d - 1) in let l = List.length c in
    le32 (0x40000000 lor 3) @ le32 (0x50000000 lor l) @ le32 (0x80000000 lor 0x40000000 lor l) @ le32 (0x50000000 lor l) @ c @ c end
let bomb_doc r (q : int) : byte list * string =
  let d = 2 + q mod 11 in
  match (q / 11) mod 3 with
  | 0 -> (bomb d, Printf.sprintf "bomb_d%d" d)
  | 1 -> (wrap r (bomb d), Printf.sprintf "bomb_wrapped_d%d" d)
  | _ -> let d = 2 + q mod 4 in (twin d, Printf.sprintf "twin_d%d" d)

(* ---- helper functions on entry arrays ---- *)
let prefix_sums (ls : int list) : int list =
  List.rev (snd (List.fold_left (fun (acc, out) l -> (acc + l, (acc + l) :: out)) (0, []) ls))

let helper_case r k =
  (* entry array as PostgreSQL writes it for random child lengths: S from the lengths alone *)
  let n = pick r [| 1; 2; 31; 32; 33; 34; 63; 64; 65; 66; 97; 130; 400 |] in
  let lens = List.init n (fun _ -> match rint r 6 with 0 -> 0 | 1 -> 1 + rint r 3 | 2 -> 300 + rint r 5000 | _ -> rint r 40) in
  let its = List.map (fun l -> (z_of_zarith (ZA.of_int (rint r 6 lsl 28)), rbytes r 0 @ List.init l (fun _ -> byte_of_int 0))) lens in
  let ws = jentries Z0 Z0 its in
  let sums = prefix_sums lens in
  let idx = (match rint r 6 with 0 -> 0 | 1 -> n - 1 | 2 -> min (n - 1) 32 | 3 -> min (n - 1) 31 | 4 -> min (n - 1) 33 | _ -> rint r n) in
  let wh = words_hex ws in
  (match k mod 4 with
   | 0 -> emit ~fn:"endOffset" ~tag:"spec_entries" ~s:(string_of_int (List.nth sums idx)) ~m:(c_z (endOffset ws (zi idx))) [ wh; string_of_int idx ]
   | 1 -> let base = pick r [| 0; 0; 7; 1000 |] in
     let start = if idx = 0 then 0 else List.nth sums (idx - 1) in
     emit ~fn:"entryOffLen" ~tag:"spec_entries" ~s:(Printf.sprintf "%d,%d" (base + start) (List.nth lens idx))
       ~m:(c_pair (entryOffLen ws (zi idx) (zi base))) [ wh; string_of_int idx; string_of_int base ]
   | 2 -> emit ~fn:"totalLen" ~tag:"spec_entries" ~s:(string_of_int (List.nth sums (n - 1))) ~m:(c_z (totalLen ws)) [ wh ]
   | _ -> (* arbitrary words, arbitrary index (incl. out of range): model vs implementation *)
     let m = rint r 70 in
     let ws = List.init m (fun _ -> z_of_zarith (match rint r 4 with 0 -> ZA.of_int (0x80000000 lor rint r 1000) | 1 -> ZA.of_int (rint r 1000) | _ -> ru r 32)) in
     let idx = pick r [| -1; 0; m - 1; m; m + 1; rint r (m + 1) |] in
     let wh = words_hex ws in
     (match rint r 3 with
      | 0 -> emit ~fn:"endOffset" ~tag:"random_entries" ~s:"-" ~m:(c_z (endOffset ws (zi idx))) [ wh; string_of_int idx ]
      | 1 -> emit ~fn:"entryOffLen" ~tag:"random_entries" ~s:"-" ~m:(c_pair (entryOffLen ws (zi idx) (zi 5))) [ wh; string_of_int idx; "5" ]
      | _ -> emit ~fn:"totalLen" ~tag:"random_entries" ~s:"-" ~m:(c_z (totalLen ws)) [ wh ]))

(* one child decoded in place: data = o arbitrary bytes ++ the child's bytes ++ suffix *)
let jentry_case r k =
  budget := 40;
  let j = (match k mod 5 with
      | 0 -> JNum (gen_numeric r) | 1 -> gen_json r 2 ~top:false | 2 -> JStr (gen_str r ~small:false)
      | 3 -> (if rbool r then JArr (List.init (rint r 4) (fun _ -> JNum (gen_numeric r))) else JObj [])
      | _ -> pick r [| JNull; JBool true; JBool false |]) in
  let o = pick r [| 0; 1; 2; 3; 4; 5; 6; 7; 8; 9; 10; 11 |] in
  let (ty, d) = enc_value (zi o) j in
  let data = rbytes r o @ d @ rbytes r (rint r 6) in
  let hasoff = if rbool r then ZA.of_int 0x80000000 else ZA.zero in
  let je = ZA.add (zarith_of_z ty) (ZA.add hasoff (ZA.of_int (rint r 1000))) in   (* only the type bits matter *)
  let t = tail_for r in
  let len = List.length d in
  let s = c_gval (x_expected j) in
  let sl = mk_slice data t in
  let m = c_jres c_gval (x_decodeJEntry (fuel_for sl) sl (zi o) (zi len) (z_of_zarith je)) in
  emit ~fn:"decodeJEntry" ~tag:(Printf.sprintf "child_at_%d" (o mod 4)) ~s ~m [ hexf data; hexf t; string_of_int o; string_of_int len; ZA.to_string je ]

let jentry_malformed r =
  let data = rbytes r (rint r 24) in
  let n = List.length data in
  let off = pick r [| 0; 1; 3; 4; n; n + 1; rint r (n + 1) |] in
  let len = pick r [| -1; 0; 1; 3; 4; 5; n; n - off; n - off + 1; rint r (n + 2) |] in
  let je = ZA.of_int ((rint r 8 lsl 28) lor rint r 100) in
  let t = tail_for r in
  let sl = mk_slice data t in
  let m = c_jres c_gval (x_decodeJEntry (fuel_for sl) sl (zi off) (zi len) (z_of_zarith je)) in
  emit ~fn:"decodeJEntry" ~tag:"mal_jentry" ~s:"-" ~m [ hexf data; hexf t; string_of_int off; string_of_int len; ZA.to_string je ]

let jnumeric_case r =
  (* the numeric's own varlena header: 4-byte form (what PostgreSQL writes into jsonb), 1-byte form, broken lengths *)
  let p = gen_numeric r in
  let n = List.length p in
  let hdr4 v = List.init 4 (fun i -> byte_of_int ((v lsr (8 * i)) land 255)) in
  let (data, tag) = (match rint r 8 with
      | 0 | 1 | 2 -> (hdr4 ((n + 4) lsl 2) @ p, "num_4b")
      | 3 -> (byte_of_int (((n + 1) lsl 1) lor 1) :: p, "num_1b")
      | 4 -> (hdr4 ((n + 4 + pick r [| 1; -1; 2; 100 |]) lsl 2) @ p, "num_4b_badlen")
      | 5 -> (byte_of_int ((((n + 1 + pick r [| 1; -1; 5 |]) lsl 1) lor 1) land 255) :: p, "num_1b_badlen")
      | 6 -> (take (rint r 5) (hdr4 ((n + 4) lsl 2) @ p), "num_short")
      | _ -> (hdr4 (pick r [| 0; 4 lsl 2; 5 lsl 2; 2; 3; 0xFFFFFFFC |]) @ p @ rbytes r (rint r 3), "num_hdr_boundary")) in
  let t = tail_for r in
  let m = c_res c_gval (x_decodeJNumeric (mk_slice data t)) in
  let s = if tag = "num_4b" then c_gval (x_expected (JNum p)) else "-" in
  emit ~fn:"decodeJNumeric" ~tag ~s ~m [ hexf data; hexf t ]

let gen_case r k =
  match k mod 20 with
  | 16 -> helper_case r (k / 20)
  | 17 -> if (k / 20) mod 4 = 3 then jentry_malformed r else jentry_case r (k / 20)
  | 18 -> if (k / 20) mod 2 = 0 then jnumeric_case r else begin
      let (j, _) = gen_doc r (8 + rint r 8) in
      let (b, tag) = mutate r (enc_jsonb j) in
      run_decode ~tag ~s:"-" b (tail_for r) end
  | 15 when (k / 20) mod 4 <> 1 ->
    let q = k / 20 in
    let (b, tag) = (match q mod 4 with 3 -> bomb_doc r (q / 4) | _ -> nonmono_doc r (q / 4 * 2 + (if q mod 4 = 2 then 1 else 0))) in
    if q mod 8 = 2 then run_decode ~tag ~s:"-" b (tail_for r) else run_parse ~tag ~s:"-" b (tail_for r)
  | 19 | 15 ->
    let (j, _) = gen_doc r (rint r 16) in
    let (b, tag) = mutate r (enc_jsonb j) in
    run_parse ~tag ~s:"-" b (tail_for r)
  | c ->
    let (j, tag) = gen_doc r (if c = 0 then 16 * (k / 20) else c) in
    if not (wf_jsonb j) then prerr_endline "C06 gen: document outside wf_json (skipped)" else begin
      let b = enc_jsonb j in
      let s = c_gval (x_expected j) in
      if (k / 20) mod 3 = 2 then run_decode ~tag ~s b (tail_for r) else run_parse ~tag ~s b (tail_for r)
    end

(* EVERY root element count 0..140 (arrays) and pair count 0..130 (objects) once per run, through DecodeType: the container
   header word is count | flags, so particular counts make its first byte look like something else ('[' = 91, '{' = 123,
   '"' = 34 ...; seeded change C06-12: "already JSON text" pass-through on a leading '[' or '{') *)
let count_sweep seed =
  for n = 0 to 140 do
    let r = rng_for seed (4000000 + n) in
    let j = JArr (List.init n (fun i -> match (i + n) mod 3 with 0 -> JNull | 1 -> JBool true | _ -> JBool false)) in
    run_decode ~tag:"root_arr_count_sweep" ~s:(c_gval (x_expected j)) (enc_jsonb j) (tail_for r)
  done;
  for n = 0 to 130 do
    let r = rng_for seed (4100000 + n) in
    budget := 1000;
    let ks = gen_keys r n ~small:true in
    let j = JObj (List.mapi (fun i k -> (k, if i mod 2 = 0 then JNull else JBool (i mod 4 = 1))) ks) in
    if wf_jsonb j then run_decode ~tag:"root_obj_count_sweep" ~s:(c_gval (x_expected j)) (enc_jsonb j) (tail_for r)
  done

let gen seed n = for k = 0 to n - 1 do gen_case (rng_for seed k) k done; count_sweep seed
let () = main gen
