(* Compose driver: END-TO-END rows.  Small heap files (1-2 pages, plus dead versions, dead line pointers, zero blocks)
   whose rows hold values of many types at once, written by the reference writers of the respective specs:
     page / tuple / row layout : C01.enc_heap = C02.enc_page/enc_tuple + C03.stored_tuple/fill/bitmap_of
     column payloads           : C04.enc_* (scalars), C05.enc_short (numeric), C06.enc_jsonb, C07.enc_array
   S = the rows expected from the ABSTRACT values (each value's own exp_* / expected of its Spec, put into rows by
       C03's expected_row), M = the extracted composed model ReadRows (DecodeType_full) — no placeholder for any
       sub-decoder —, I = Go pgdump.ReadRows.
   Malformed streams (S = "-"): the same files read with a random foreign schema / with damaged tuple bytes / holding live
   junk tuples; and DecodeTypeFull: the composed DecodeType on valid, damaged and random values of every type id. *)
open Model
open Util
open Value

let z = z_of_zarith
let zz (i : int) = ZA.of_int i
let pow2 k = ZA.shift_left ZA.one k
let signed k (v : ZA.t) = if ZA.geq v (pow2 (k - 1)) then ZA.sub v (pow2 k) else v
let rs r k = signed k (ru r k)
let ch c = Char.code c
let bs (s : string) = bytes_of_string s

(* ---------- rendering (must agree with harness/compose.go) ---------- *)
let c_row (r : (byte list * gval) list) : string = c_map r
let c_rows (rs : (byte list * gval) list list) : string = c_list (List.map c_row rs)
let col_arg (c : column) = String.concat ":" [ hexf c.c_name; zs c.c_typid; zs c.c_len; zs c.c_num; zs c.c_align ]
let cols_arg cs = match cs with [] -> "-" | _ -> String.concat ";" (List.map col_arg cs)

(* ---------- the table "payload bytes of type oid  ->  value expected from the abstract value" ---------- *)
let exp_tbl : (int * string, gval) Hashtbl.t = Hashtbl.create 64
let reg (oid : int) (payload : byte list) (v : gval) : unit = Hashtbl.replace exp_tbl (oid, hex_of_bytes payload) v
let decode_tbl (b : byte list) (oid : z) : gval =
  match Hashtbl.find_opt exp_tbl (iz oid, hex_of_bytes b) with
  | Some v -> v
  | None -> failwith (Printf.sprintf "Compose generator: no abstract value for oid %d payload %s" (iz oid) (hex_of_bytes b))

(* ---------- abstract values ---------- *)
let dim y m = match m with
  | 2 -> if (y mod 4 = 0 && y mod 100 <> 0) || y mod 400 = 0 then 29 else 28
  | 4 | 6 | 9 | 11 -> 30 | _ -> 31
let rdate_ymd r : int * int * int =
  match rint r 6 with
  | 0 -> pick r [| (1, 1, 1); (9999, 12, 31); (2000, 1, 1); (1999, 12, 31); (1970, 1, 1); (2000, 2, 29); (1900, 2, 28);
                   (1900, 3, 1); (2024, 2, 29); (2100, 3, 1); (1707, 9, 22); (2292, 4, 11); (4, 2, 29) |]
  | _ -> let y = if rbool r then rrange r 1 9999 else rrange r 1900 2100 in
         let m = rrange r 1 12 in (y, m, rrange r 1 (dim y m))
let rdateval r : dateval =
  match rint r 12 with 0 -> DInf | 1 -> DNegInf | _ -> let (y, m, d) = rdate_ymd r in DDate (zi y, zi m, zi d)
let rclock r : clock =
  match rint r 6 with
  | 0 -> { c_h = zi 0; c_m = zi 0; c_s = zi 0; c_us = zi 0 }
  | 1 -> { c_h = zi 23; c_m = zi 59; c_s = zi 59; c_us = zi 999999 }
  | _ -> { c_h = zi (rrange r 0 23); c_m = zi (rrange r 0 59); c_s = zi (rrange r 0 59); c_us = zi (rint r 1000000) }
let rtsval r : tsval =
  match rint r 12 with
  | 0 -> TInf | 1 -> TNegInf
  | _ -> let (y, m, d) = rdate_ymd r in TStamp (zi y, zi m, zi d, rclock r)
let utf8_of_cp (cp : int) : int list =
  if cp < 0x80 then [ cp ]
  else if cp < 0x800 then [ 0xC0 lor (cp lsr 6); 0x80 lor (cp land 63) ]
  else if cp < 0x10000 then [ 0xE0 lor (cp lsr 12); 0x80 lor ((cp lsr 6) land 63); 0x80 lor (cp land 63) ]
  else [ 0xF0 lor (cp lsr 18); 0x80 lor ((cp lsr 12) land 63); 0x80 lor ((cp lsr 6) land 63); 0x80 lor (cp land 63) ]
let rcp r = match rint r 6 with
  | 0 -> pick r [| 0x7F; 0x80; 0x7FF; 0x800; 0xFFFF; 0x10000; 0x10FFFF; 0xD7FF; 0xE000; 0xFFFD; 0x1F600; 0xE9; 0x20AC |]
  | 1 -> rrange r 0x80 0x7FF | 2 -> (let c = rrange r 0x800 0xFFFF in if c >= 0xD800 && c <= 0xDFFF then 0x4E2D else c)
  | 3 -> rrange r 0x10000 0x10FFFF | _ -> rrange r 0x20 0x7E
(* valid UTF-8 of about n code points; n = 0 gives the empty string *)
let rutf8n r n : byte list = List.map byte_of_int (List.concat (List.init n (fun _ -> utf8_of_cp (rcp r))))
(* lengths on both sides of the 1-byte-header limit (126 payload bytes) *)
let rtextlen r = pick r [| 0; 1; 1; 2; 3; 7; 20; 60; 125; 126; 127; 128; 300 |]
let ascii r n : byte list = List.init n (fun _ -> byte_of_int (rrange r 0x20 0x7E))
let rtext r : byte list =
  let n = rtextlen r in
  if rbool r then ascii r n else
    (* multi-byte text cut to at most n bytes at a character boundary *)
    let rec take acc len = function
      | [] -> List.rev acc
      | c :: rest -> let b = utf8_of_cp c in
        if len + List.length b > n then List.rev acc else take (List.rev_append b acc) (len + List.length b) rest in
    List.map byte_of_int (take [] 0 (List.init n (fun _ -> rcp r)))
let nonzero r n = List.init n (fun _ -> byte_of_int (1 + rint r 255))

(* numeric in C05's exact class (value = THE nearest double), short header *)
let rec rnumeric r : numeric =
  match rint r 12 with
  | 0 -> pick r [| NNaN; NPInf; NNInf |]
  | 1 -> NNum (rbool r, zi (rrange r (-3) 3), zi (rint r 10), [])                       (* zero: no digits *)
  | _ ->
    let nd = rrange r 1 3 in
    let digits = List.init nd (fun i -> zi (if i = 0 then rrange r 1 9999 else pick r [| 0; 1; 9999; rint r 10000; rint r 10000 |])) in
    let w = rrange r (-3) 4 in
    let v = NNum (rbool r, zi w, zi (rint r 20), digits) in
    if s_num_exact v then v else rnumeric r
let num_payload (v : numeric) : byte list = let p = s_num_enc_short v in reg 1700 p (s_num_expected v); p

(* small jsonb documents: an object holding a number, strings, booleans, null, a nested array / object *)
let rec rjson r depth : json =
  match rint r (if depth >= 2 then 5 else 8) with
  | 0 -> JNull | 1 -> JBool (rbool r)
  | 2 | 3 -> JNum (num_payload (rnumeric r))
  | 4 -> JStr (rutf8n r (pick r [| 0; 1; 3; 9 |]))
  | 5 | 6 -> JArr (List.init (rint r 4) (fun _ -> rjson r (depth + 1)))
  | _ -> robj r (depth + 1)
and robj r depth : json =
  let n = rrange r 1 4 in
  (* PostgreSQL stores the pairs sorted by (key length, key bytes), keys distinct *)
  let keys = List.sort_uniq (fun a b -> compare (String.length a, a) (String.length b, b))
      (List.init n (fun i -> pick r [| "a"; "b"; "n"; "id"; "num"; "k\xc3\xa9y"; "price"; "" |] ^ (if rint r 3 = 0 then string_of_int i else ""))) in
  JObj (List.mapi (fun i k -> (bs k, if i = 0 && depth <= 1 then JNum (num_payload (rnumeric r)) else rjson r depth)) keys)
let rec rjsonb r : json =
  let j = if rint r 6 = 0 then rjson r 0 else robj r 0 in
  if s_jsonb_wf j then j else rjsonb r
let jsonb_payload (j : json) : byte list =
  let p = s_jsonb_enc j in reg 3802 p (s_jsonb_expected (fun b -> decode_tbl b (zi 1700)) j); p

(* arrays: int4[] (fixed 4-byte elements) and text[] (varlena elements, 1- and 4-byte headers), 0..2 dimensions,
   with and without a null bitmap / NULL elements *)
let ty_of (arr_oid : int) : tyrow = List.find (fun t -> iz t.t_arr = arr_oid) s_arr_types
let rarray r (arr_oid : int) : arr =
  let t = ty_of arr_oid in
  let eoid = iz t.t_elem in
  let shape = match rint r 8 with
    | 0 -> []                                                       (* the empty array: ndim = 0 *)
    | 1 -> [ (rrange r 1 3, rrange r (-2) 5); (rrange r 1 3, 1) ]   (* two dimensions *)
    | 2 -> [ (pick r [| 7; 8; 9; 16; 17 |], 1) ]                     (* around the bitmap byte boundary *)
    | _ -> [ (rrange r 1 6, if rint r 4 = 0 then rrange r (-3) 9 else 1) ] in
  let n = List.fold_left (fun a (l, _) -> a * l) 1 shape in
  let n = if shape = [] then 0 else n in
  let nullmode = if n = 0 then 0 else rint r 4 in    (* 0 no bitmap; 1 bitmap, no NULL; 2 some NULL; 3 first/last NULL *)
  let elem i : velem option =
    let isnull = match nullmode with 2 -> rint r 3 = 0 | 3 -> i = 0 || i = n - 1 | _ -> false in
    if isnull then None else
    if eoid = 23 then begin
      let v = if rbool r then signed 32 (rdistinct r 32) else rs r 32 in
      let p = enc_int4 (z v) in reg 23 p (exp_int4 (z v)); Some (EFixed p)
    end else begin
      (* non-empty: DecodeType on zero bytes is nil (D05), an empty-string element is outside this check *)
      let s = let s = rtext r in if s = [] then bs "x" else s in
      reg 25 (enc_text s) (exp_text s);
      if List.length s <= 126 && rint r 4 <> 0 then Some (EShort s) else Some (ELong s)
    end in
  let elems = List.init n elem in
  { a_ty = t; a_dims = List.map (fun (l, b) -> (zi l, zi b)) shape; a_hasnull = nullmode <> 0; a_elems = elems }
let array_payload (a : arr) : byte list =
  let p = s_arr_enc a in
  (match s_arr_expected (fun b o -> Ok (decode_tbl b o)) a with
   | Ok (Some v) -> reg (iz a.a_ty.t_arr) p v
   | _ -> failwith "Compose generator: array expectation");
  p

(* ---------- column classes: (name, type id, attlen, attalign, generator of (payload, is varlena)) ---------- *)
type cls = { k_name : string; k_oid : int; k_len : int; k_align : char; k_gen : rng -> byte list }
let fixed_reg oid p v = reg oid p v; p
let classes : cls array = [|
  { k_name = "i2"; k_oid = 21; k_len = 2; k_align = 's'; k_gen = (fun r -> let v = z (if rbool r then signed 16 (rdistinct r 16) else rs r 16) in fixed_reg 21 (enc_int2 v) (exp_int2 v)) };
  { k_name = "i4"; k_oid = 23; k_len = 4; k_align = 'i'; k_gen = (fun r -> let v = z (if rbool r then signed 32 (rdistinct r 32) else rs r 32) in fixed_reg 23 (enc_int4 v) (exp_int4 v)) };
  { k_name = "i8"; k_oid = 20; k_len = 8; k_align = 'd'; k_gen = (fun r -> let v = z (if rbool r then signed 64 (rdistinct r 64) else rs r 64) in fixed_reg 20 (enc_int8 v) (exp_int8 v)) };
  { k_name = "oid"; k_oid = 26; k_len = 4; k_align = 'i'; k_gen = (fun r -> let v = z (if rbool r then rdistinct r 32 else ru r 32) in fixed_reg 26 (enc_u32 v) (exp_u32 v)) };
  { k_name = "b"; k_oid = 16; k_len = 1; k_align = 'c'; k_gen = (fun r -> let v = rbool r in fixed_reg 16 (enc_bool v) (exp_bool v)) };
  { k_name = "ch"; k_oid = 18; k_len = 1; k_align = 'c'; k_gen = (fun r -> let c = byte_of_int (rrange r 1 255) in fixed_reg 18 (enc_char c) (exp_char c)) };
  { k_name = "nm"; k_oid = 19; k_len = 64; k_align = 'c'; k_gen = (fun r -> let n = nonzero r (pick r [| 0; 1; 8; 30; 63 |]) in fixed_reg 19 (enc_name n) (exp_name n)) };
  { k_name = "f4"; k_oid = 700; k_len = 4; k_align = 'i'; k_gen = (fun r -> let v = z (if rbool r then rdistinct r 32 else rbits r 32) in fixed_reg 700 (enc_float4 v) (exp_float4 v)) };
  { k_name = "f8"; k_oid = 701; k_len = 8; k_align = 'd'; k_gen = (fun r -> let v = z (if rbool r then rdistinct r 64 else rbits r 64) in fixed_reg 701 (enc_float8 v) (exp_float8 v)) };
  { k_name = "t"; k_oid = 25; k_len = -1; k_align = 'i'; k_gen = (fun r -> let s = rtext r in fixed_reg 25 (enc_text s) (exp_text s)) };
  { k_name = "vc"; k_oid = 1043; k_len = -1; k_align = 'i'; k_gen = (fun r -> let s = rtext r in fixed_reg 1043 (enc_text s) (exp_text s)) };
  { k_name = "by"; k_oid = 17; k_len = -1; k_align = 'i'; k_gen = (fun r -> let d = rbytes r (rtextlen r) in fixed_reg 17 d (exp_bytea d)) };
  { k_name = "d"; k_oid = 1082; k_len = 4; k_align = 'i'; k_gen = (fun r -> let v = rdateval r in fixed_reg 1082 (enc_date v) (exp_date v)) };
  { k_name = "ts"; k_oid = 1114; k_len = 8; k_align = 'd'; k_gen = (fun r -> let v = rtsval r in fixed_reg 1114 (enc_ts v) (exp_ts v)) };
  { k_name = "u"; k_oid = 2950; k_len = 16; k_align = 'c'; k_gen = (fun r -> let u = List.map byte_of_int (List.init 16 (fun i -> if rbool r then rbyte r else 0x11 * i)) in fixed_reg 2950 u (exp_uuid u)) };
  { k_name = "num"; k_oid = 1700; k_len = -1; k_align = 'i'; k_gen = (fun r -> num_payload (rnumeric r)) };
  { k_name = "jb"; k_oid = 3802; k_len = -1; k_align = 'i'; k_gen = (fun r -> jsonb_payload (rjsonb r)) };
  { k_name = "ia"; k_oid = 1007; k_len = -1; k_align = 'i'; k_gen = (fun r -> array_payload (rarray r 1007)) };
  { k_name = "ta"; k_oid = 1009; k_len = -1; k_align = 'i'; k_gen = (fun r -> array_payload (rarray r 1009)) };
|]
let ncls = Array.length classes

let mkcol i (k : cls) ~num : column =
  { c_name = bs (Printf.sprintf "%s%d" k.k_name i); c_typid = zi k.k_oid; c_len = zi k.k_len; c_num = zi num; c_align = zi (ch k.k_align) }

(* the stored form of a value of class k *)
let datum_of r (k : cls) : datum =
  let p = k.k_gen r in
  if k.k_len > 0 then DFixed p
  else if List.length p <= 126 && rint r 4 <> 0 then DShort p else DLong p

(* ---------- tuple headers, pages (as in the C01 driver) ---------- *)
let live_kinds = [| 0x0900; 0x0B00; 0x0100; 0x0D00; 0x0300 |]
let dead_kinds = [| 0x0500; 0x0A00; 0x0000; 0x0800; 0x0400; 0x0C00; 0x2500; 0x0200; 0x0600 |]
let gen_mask r ~alive =
  let kind = if alive then pick r live_kinds else pick r dead_kinds in
  let m = kind lor (rbyte r land 0xfe) lor (rint r 16 lsl 12) in
  if live (zi m) <> alive then failwith "Compose generator: hint-bit table";
  m
let mk_vhdr r ~alive : vhdr =
  { vh_head = rbytes r 18; vh_flags2 = zi (rint r 32); vh_mask_hi = zi (gen_mask r ~alive lsr 1); vh_extra = zi (pick r [| 0; 0; 0; 1; 2 |]) }
let junk_tup r ~alive : tup =
  let hoff = pick r [| 24; 32; 40 |] in
  let natts = rint r 24 in
  let hasnull = rbool r && (natts + 7) / 8 <= hoff - 23 in
  let mask = (gen_mask r ~alive) lor (if hasnull then 1 else 0) in
  { tp_head = rbytes r 18; tp_natts = zi natts; tp_flags2 = zi (rint r 32); tp_infomask = zi mask; tp_hoff = zi hoff;
    tp_mid = rbytes r (hoff - 23); tp_data = rbytes r (rint r 150) }
let stub r : 'a version =
  match rint r 3 with
  | 0 -> VStub { lp_off = zi 0; lp_flags = zi 0; lp_len = zi 0 }
  | 1 -> VStub { lp_off = zi (1 + rint r 20); lp_flags = zi 2; lp_len = zi 0 }
  | _ -> VStub { lp_off = zi 0; lp_flags = zi 3; lp_len = zi 0 }
let mkpage r items : 'a hpage = { hp_lsn = rbytes r 12; hp_prune = rbytes r 4; hp_items = items }
(* PageAddItem in order; a new page when the next item does not fit or the page has [per_page] items *)
let pack r cols ~per_page (items : datum list version list) : datum list hpage list =
  let pages = ref [] and cur = ref [] in
  List.iter (fun it ->
      let cand = !cur @ [ it ] in
      if List.length cand <= per_page && s_page_fits cols (mkpage r cand) then cur := cand
      else begin pages := mkpage r !cur :: !pages; cur := [ it ] end) items;
  if !cur <> [] then pages := mkpage r !cur :: !pages;
  List.rev !pages

(* ---------- a table: schema + rows ---------- *)
(* schema k: every class appears in a fixed rotation so that all 19 are covered every few cases, in varying order *)
let gen_schema r k : cls list =
  let n = rrange r 3 8 in
  let start = (k * 5) mod ncls in
  let base = List.init n (fun i -> classes.((start + i) mod ncls)) in
  shuffle r base
let gen_row r (ks : cls list) ~natts : datum list =
  let nullp = rint r 4 in      (* 0: no NULL at all (no bitmap) *)
  List.filteri (fun i _ -> i < natts) ks
  |> List.map (fun k -> if nullp > 0 && rint r (nullp + 1) = 0 then DNull else datum_of r k)

type table = { cols : column list; ks : cls list; heap : datum list heap; all_rows : datum list list (* VRow items in physical order *) ; has_old : bool }
let gen_table r k ~(junk_live : bool) : table =
  let ks = gen_schema r k in
  let n = List.length ks in
  let cols = List.mapi (fun i c -> mkcol i c ~num:(if rint r 5 = 0 then 0 else i + 1)) ks in
  let nrows = rrange r 1 7 in
  let has_old = ref false in
  let items = List.concat (List.init nrows (fun _ ->
      let natts = if rint r 4 = 0 then rint r (n + 1) else n in       (* rows from before ADD COLUMN: natts < columns *)
      let row = VRow (mk_vhdr r ~alive:true, gen_row r ks ~natts) in
      let extra = match rint r 8 with
        | 0 -> [ VRow (mk_vhdr r ~alive:false, gen_row r ks ~natts:n) ]        (* a dead version of the same schema *)
        | 1 -> [ stub r ]
        | 2 -> has_old := true; [ VOld (junk_tup r ~alive:junk_live) ]
        | _ -> [] in
      if rbool r then row :: extra else extra @ [ row ])) in
  let pages = pack r cols ~per_page:(pick r [| 3; 4; 100 |]) items in
  let blocks = List.concat_map (fun p -> if rint r 6 = 0 then [ HZero; HPage p ] else [ HPage p ]) pages in
  (* at most 3 blocks: the list-based model is slow per page *)
  let rec take n = function [] -> [] | x :: r -> if n = 0 then [] else x :: take (n - 1) r in
  let blocks = take 3 blocks in
  let all_rows = List.concat_map (function HPage p -> List.filter_map (function VRow (_, ds) -> Some ds | _ -> None) p.hp_items | HZero -> []) blocks in
  { cols; ks; heap = blocks; all_rows; has_old = !has_old }

let tail_for r = match rint r 3 with 0 -> rbytes r (1 + rint r 30) | _ -> []

let run_rows ~tag ~s (data : byte list) (tl : byte list) (cols : column list) (vo : bool) =
  let m = c_res c_rows (x_ReadRows { vis = data; tail = tl } cols vo) in
  emit ~fn:"ReadRowsFull" ~tag ~s ~m [ hexf data; hexf tl; cols_arg cols; (if vo then "1" else "0") ]

let valid_case r k =
  Hashtbl.reset exp_tbl;
  let t = gen_table r k ~junk_live:false in
  let data = s_enc_heap t.cols t.heap in
  let vo = t.has_old || rint r 4 <> 0 in     (* visibleOnly=false decodes dead versions too: only when every tuple is a row *)
  let rows = if vo then s_live_rows t.heap else t.all_rows in
  let s = c_rows (List.map (s_expected_row decode_tbl t.cols) rows) in
  let short = List.exists (fun ds -> List.length ds < List.length t.cols) rows in
  let nulls = List.exists (fun ds -> List.exists (fun d -> d = DNull) ds) rows in
  let tag = Printf.sprintf "rows_%s%s%s" (if vo then "live" else "all") (if short then "_natts" else "") (if nulls then "_null" else "") in
  run_rows ~tag ~s data (tail_for r) t.cols vo

(* ---------- malformed: foreign schema, damaged bytes, live junk ---------- *)
let all_oids = [| 16; 17; 18; 19; 20; 21; 23; 25; 26; 27; 28; 29; 114; 142; 600; 601; 602; 603; 604; 628; 718; 650; 700; 701; 774;
                  790; 829; 869; 1042; 1043; 1082; 1083; 1114; 1184; 1186; 1266; 1560; 1562; 1700; 2950; 3220; 3614; 3802; 4072;
                  3904; 3906; 3908; 3910; 3912; 3926;
                  1000; 1001; 1003; 1005; 1007; 1009; 1016; 1017; 1021; 1022; 1028; 1040; 1041; 1115; 1182; 1231; 1270; 1561;
                  2951; 3807; 629; 791; 3905; 3907; 3909; 3927; 0; 99999 |]
let foreign_schema r : column list =
  let n = rrange r 1 8 in
  List.init n (fun i ->
      let oid = pick r all_oids in
      { c_name = bs (Printf.sprintf "x%d" i); c_typid = zi oid;
        c_len = zi (pick r [| -1; -1; -1; -2; 1; 2; 4; 8; 16; 64; 6; 12; 24; 32 |]);
        c_num = zi (pick r [| 0; i + 1; i + 1; i + 1; 1; 9 |]); c_align = zi (pick r [| ch 'c'; ch 's'; ch 'i'; ch 'd'; 0 |]) })
let damage r (data : byte list) : byte list =
  let a = Array.of_list data in
  let n = Array.length a in
  (* damage bytes in the upper part of the pages (tuple area), keep the page headers *)
  for _ = 1 to rrange r 1 12 do
    let page = rint r (max 1 (n / 8192)) in
    let off = page * 8192 + 8192 - 1 - rint r 600 in
    if off >= 0 && off < n then a.(off) <- byte_of_int (pick r [| 0; 1; 2; 3; 0x12; 0x7f; 0x80; 0xff; rbyte r |])
  done;
  Array.to_list a
let malformed_case r k =
  Hashtbl.reset exp_tbl;
  let mode = k mod 3 in
  let t = gen_table r k ~junk_live:(mode = 2) in
  let data = s_enc_heap t.cols t.heap in
  let data, cols, tag = match mode with
    | 0 -> data, foreign_schema r, "foreign_schema"
    | 1 -> damage r data, t.cols, "damaged"
    | _ -> data, (if rbool r then t.cols else foreign_schema r), "live_junk" in
  run_rows ~tag ~s:"-" data (tail_for r) cols (rint r 3 <> 0)

(* ---------- DecodeTypeFull: the composed DecodeType on single values ---------- *)
let run_dt ~tag ~s (oid : int) (v : byte list) (tl : byte list) =
  let m = c_res c_gval (x_DecodeType { vis = v; tail = tl } (zi oid)) in
  emit ~fn:"DecodeTypeFull" ~tag ~s ~m [ hexf v; hexf tl; string_of_int oid ]
let flip r (p : byte list) : byte list =
  let a = Array.of_list p in
  let n = Array.length a in
  if n > 0 then for _ = 1 to rrange r 1 3 do a.(rint r n) <- byte_of_int (pick r [| 0; 1; 0xff; 0x80; rbyte r |]) done;
  let l = Array.to_list a in
  match rint r 4 with 0 -> List.filteri (fun i _ -> i < rint r (n + 1)) l | 1 -> l @ rbytes r (1 + rint r 5) | _ -> l
let dt_case r k =
  Hashtbl.reset exp_tbl;
  match k mod 4 with
  | 0 | 1 ->
    (* a valid value of one of the composite classes (numeric, jsonb, arrays) or of any class *)
    let c = if k mod 4 = 0 then classes.(15 + (k / 4) mod 4) else classes.((k / 4) mod ncls) in
    let p = c.k_gen r in
    if p = [] then run_dt ~tag:"empty" ~s:"nil" c.k_oid p (tail_for r)
    else run_dt ~tag:("val_" ^ c.k_name) ~s:(c_gval (decode_tbl p (zi c.k_oid))) c.k_oid p (tail_for r)
  | 2 ->
    (* a damaged composite value *)
    let c = classes.(15 + (k / 4) mod 4) in
    run_dt ~tag:("flip_" ^ c.k_name) ~s:"-" c.k_oid (flip r (c.k_gen r)) (tail_for r)
  | _ ->
    (* a valid value of one class read as another type / random bytes under any type id *)
    let oid = pick r all_oids in
    let p = if rbool r then (pick r classes).k_gen r else rbytes r (pick r [| 1; 2; 4; 8; 12; 16; 20; 24; 32; 40; 64 |]) in
    run_dt ~tag:"cross" ~s:"-" oid p (tail_for r)

let gen seed n =
  (* per 20 cases: 6 valid tables, 3 malformed tables, 11 single values *)
  let nv = ref 0 and nm = ref 0 and nd = ref 0 in
  for k = 0 to n - 1 do
    let r = rng_for seed k in
    match k mod 20 with
    | 0 | 3 | 7 | 10 | 13 | 17 -> valid_case r !nv; incr nv
    | 5 | 11 | 18 -> malformed_case r !nm; incr nm
    | _ -> dt_case r !nd; incr nd
  done
let () = main gen
