From Coq Require Import ZArith List Lia ZifyBool Bool.
From Coq.Strings Require Import Byte.
Require Import Bytes Relmap2.
Import ListNotations.
Open Scope bool_scope. Open Scope Z_scope.
Inductive perr := ETooSmall | EBadMagic | EBadCount.
Record relmap := { magic : Z; num : Z; mappings : list (Z * Z); crc : Z }.
Definition sint32 (z : Z) : Z := if z <? 2^31 then z else z - 2^32.
Definition ParseRelMapFile (s : gslice) : res (sum perr relmap) :=
  if len s <? 512 then Ok (inl ETooSmall) else
  m <- u32 s 0 ;;
  if negb (m =? 5842711) then Ok (inl EBadMagic) else
  c <- u32 s 4 ;;
  let n := sint32 c in
  if (n <? 0) || (n >? 62) then Ok (inl EBadCount) else
  ms <- read_maps (Z.to_nat n) s 8 ;;
  cr <- (if len s >=? 508 then u32 s 504 else Ok 0) ;;
  Ok (inr {| magic := m; num := n; mappings := ms; crc := cr |}).

Lemma uN_ok n s off : 0 <= off -> off + Z.of_nat n <= len s -> exists v, uN n s off = Ok v.
Proof. intros. unfold uN. destruct (_ && _) eqn:E; [eauto|lia]. Qed.

Lemma read_maps_no_panic : forall n s off, 0 <= off -> read_maps n s off <> Panic.
Proof.
  induction n; intros s off Hoff; cbn [read_maps]; [discriminate|].
  destruct (off + 8 >? len s) eqn:E; [discriminate|].
  destruct (uN_ok 4 s off) as [v Hv]; [lia|lia|]. unfold u32. rewrite Hv. cbn [bind].
  destruct (uN_ok 4 s (off+4)) as [w Hw]; [lia|lia|]. rewrite Hw. cbn [bind].
  specialize (IHn s (off+8)). destruct (read_maps n s (off+8)); [discriminate|]. exfalso; apply IHn; [lia|reflexivity].
Qed.

Theorem parse_relmap_no_panic s : ParseRelMapFile s <> Panic.
Proof.
  unfold ParseRelMapFile. destruct (len s <? 512) eqn:E; [discriminate|].
  destruct (uN_ok 4 s 0) as [m Hm]; [lia|lia|]. unfold u32 at 1. rewrite Hm. cbn [bind].
  destruct (negb _); [discriminate|].
  destruct (uN_ok 4 s 4) as [c Hc]; [lia|lia|]. unfold u32 at 1. rewrite Hc. cbn [bind].
  destruct (_ || _); [discriminate|].
  pose proof (read_maps_no_panic (Z.to_nat (sint32 c)) s 8 ltac:(lia)).
  destruct (read_maps _ s 8); [|congruence]. cbn [bind].
  destruct (len s >=? 508) eqn:E2; [|discriminate].
  destruct (uN_ok 4 s 504) as [v Hv]; [lia|lia|]. unfold u32. rewrite Hv. discriminate.
Qed.
Print Assumptions parse_relmap_no_panic.
