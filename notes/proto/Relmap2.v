From Coq Require Import ZArith List Lia ZifyBool Bool.
From Coq.Strings Require Import Byte.
Require Import Bytes.
Import ListNotations.
Open Scope bool_scope. Open Scope Z_scope.
Definition enc_map (p : Z * Z) : bytes := le_enc 4 (fst p) ++ le_enc 4 (snd p).
Fixpoint read_maps (n : nat) (s : gslice) (off : Z) : res (list (Z * Z)) :=
  match n with
  | O => Ok []
  | S k => if off + 8 >? len s then Ok [] else
           o <- u32 s off ;; f <- u32 s (off + 4) ;; r <- read_maps k s (off + 8) ;; Ok ((o, f) :: r)
  end.
Definition wf_maps (ms : list (Z*Z)) := Forall (fun p => 0 <= fst p < 2^32 /\ 0 <= snd p < 2^32) ms.
Lemma concat_enc_length ms : length (concat (map enc_map ms)) = (8 * length ms)%nat.
Proof. induction ms as [|a ms IH]; [reflexivity|]. cbn [map concat]. rewrite app_length, IH. unfold enc_map. rewrite app_length, !le_enc_length. simpl length. lia. Qed.
#[export] Hint Rewrite concat_enc_length : len.

Lemma read_maps_at : forall ms s off,
  wf_maps ms -> 0 <= off ->
  sub (vis s) off (off + 8 * Z.of_nat (length ms)) = concat (map enc_map ms) ->
  off + 8 * Z.of_nat (length ms) <= len s ->
  read_maps (length ms) s off = Ok ms.
Proof.
  induction ms as [|[o f] ms IH]; intros s off Hwf Hoff Hsub Hlen; [reflexivity|].
  inversion Hwf as [|? ? [Ho Hf] Hwf']; subst. cbn [fst snd length read_maps] in *.
  destruct (off + 8 >? len s) eqn:E; [lia|].
  assert (Hsplit : forall a b, 0 <= a -> a <= b -> b <= 8 * Z.of_nat (S (length ms)) ->
            sub (vis s) (off + a) (off + b) = sub (concat (map enc_map ((o,f)::ms))) a b).
  { intros a b Ha Hab Hb. rewrite <- Hsub. rewrite sub_sub by lia. reflexivity. }
  unfold u32.
  rewrite (uN_sub 4 s off o); try lia.
  2:{ replace off with (off + 0) at 1 by lia. rewrite Hsplit by lia. cbn [map concat]. unfold enc_map; cbn [fst snd]. solve_sub. }
  cbn [bind].
  rewrite (uN_sub 4 s (off+4) f); try lia.
  2:{ replace (off + 4 + Z.of_nat 4) with (off + 8) by lia. rewrite Hsplit by lia. cbn [map concat]. unfold enc_map; cbn [fst snd]. solve_sub. }
  cbn [bind]. rewrite IH; auto; try lia.
  replace (off + 8 + 8 * Z.of_nat (length ms)) with (off + 8 * Z.of_nat (S (length ms))) by lia.
  rewrite Hsplit by lia. cbn [map concat]. unfold enc_map at 1; cbn [fst snd]. solve_sub.
Qed.
Print Assumptions read_maps_at.
