From Coq Require Import ZArith List Lia ZifyBool Bool.
From Coq.Strings Require Import Byte.
Require Import Bytes.
Import ListNotations.
Open Scope bool_scope. Open Scope Z_scope.

(* alignment: a in {1,2,4,8}; round up *)
Definition align (off a : Z) : Z := (off + a - 1) / a * a.
Definition blen (b : bytes) : Z := Z.of_nat (length b).
Definition zeros (n : Z) : bytes := repeat x00 (Z.to_nat n).
Lemma zeros_len n : 0 <= n -> blen (zeros n) = n.
Proof. intros. unfold blen, zeros. rewrite repeat_length. lia. Qed.

Lemma blen_app a b : blen (a ++ b) = blen a + blen b.
Proof. unfold blen. rewrite app_length. lia. Qed.
Lemma blen_cons x a : blen (x :: a) = 1 + blen a.
Proof. unfold blen. simpl length. lia. Qed.
Lemma blen_nil : blen [] = 0. Proof. reflexivity. Qed.
Lemma blen_le n v : blen (le_enc n v) = Z.of_nat n.
Proof. unfold blen. rewrite le_enc_length. reflexivity. Qed.
Lemma blen_nonneg a : 0 <= blen a. Proof. unfold blen. lia. Qed.
Create HintDb blen.
#[export] Hint Rewrite blen_app blen_cons blen_nil blen_le : blen.
#[export] Hint Rewrite zeros_len using lia : blen.
Ltac bl := autorewrite with blen in *.
Lemma sub_mid pre m post lo hi : lo = blen pre -> hi = blen pre + blen m -> sub (pre ++ m ++ post) lo hi = m.
Proof. intros -> ->. unfold blen. apply sub_app_mid. Qed.

Lemma subb_r (a b : bytes) lo hi : blen a <= lo -> sub (a ++ b) lo hi = sub b (lo - blen a) (hi - blen a).
Proof. apply sub_app_r. Qed.
Lemma subb_l (a b : bytes) lo hi : 0 <= lo -> hi <= blen a -> sub (a ++ b) lo hi = sub a lo hi.
Proof. apply sub_app_l. Qed.
Lemma subb_exact (a : bytes) lo hi : lo = 0 -> hi = blen a -> sub a lo hi = a.
Proof. intros -> ->. apply sub_exact. reflexivity. Qed.
Ltac ssub :=
  rewrite <- ?app_assoc;
  repeat first [ rewrite subb_r by (bl; lia) | rewrite subb_l by (bl; lia) ];
  try (apply subb_exact; bl; lia).

Record col := { clen : Z; calign : Z }.
Inductive datum := DNull | DFixed (bs : bytes) | DShort (bs : bytes) | DLong (bs : bytes).

Definition hdr1 (n : Z) : byte := z2b (n * 2 + 1).            (* total length n incl. header *)
Definition hdr4 (n : Z) : bytes := le_enc 4 (n * 4).          (* total length n incl. header *)

(* spec: bytes emitted from absolute data offset [off] on *)
Fixpoint fill (off : Z) (cols : list col) (ds : list datum) : bytes :=
  match cols, ds with
  | c :: cs, d :: ds' =>
    match d with
    | DNull => fill off cs ds'
    | DFixed bs => let p := align off (calign c) - off in zeros p ++ bs ++ fill (off + p + blen bs) cs ds'
    | DShort bs => [hdr1 (blen bs + 1)] ++ bs ++ fill (off + 1 + blen bs) cs ds'
    | DLong bs => let p := align off (calign c) - off in
                  zeros p ++ hdr4 (blen bs + 4) ++ bs ++ fill (off + p + 4 + blen bs) cs ds'
    end
  | _, _ => []
  end.

(* model of the (repaired) DecodeTuple loop, returning the payload bytes handed to DecodeType *)
Definition byte_at (d : bytes) (i : Z) : Z := b2z (nth (Z.to_nat i) d x00).
Definition readVarlena (d : bytes) (off : Z) : option bytes * Z :=
  let first := byte_at d off in
  if (first mod 2 =? 1) then
    let n := first / 2 in (Some (sub d (off + 1) (off + n)), n)
  else
    let n := le_dec (sub d off (off + 4)) / 4 in (Some (sub d (off + 4) (off + n)), n).
Definition readValue (d : bytes) (off : Z) (l : Z) : option bytes * Z :=
  if l >? 0 then (Some (sub d off (off + l)), l) else readVarlena d off.

Fixpoint dec (cols : list col) (nulls : list bool) (d : bytes) (off : Z) : list (option bytes) :=
  match cols, nulls with
  | c :: cs, isnull :: ns =>
    if isnull then None :: dec cs ns d off else
    let a := if (clen c =? -1) && (off <? blen d) && negb (byte_at d off =? 0) then 1 else calign c in
    let off' := align off a in
    let '(v, n) := readValue d off' (clen c) in
    v :: dec cs ns d (off' + n)
  | _, _ => []
  end.

Definition isnull (d : datum) := match d with DNull => true | _ => false end.
Definition payload (d : datum) : option bytes :=
  match d with DNull => None | DFixed b | DShort b | DLong b => Some b end.

Definition wf_align a := a = 1 \/ a = 2 \/ a = 4 \/ a = 8.
Definition fits (c : col) (d : datum) : Prop :=
  wf_align (calign c) /\
  match d with
  | DNull => True
  | DFixed bs => clen c > 0 /\ blen bs = clen c
  | DShort bs => clen c = -1 /\ blen bs + 1 <= 127
  | DLong bs => clen c = -1 /\ blen bs + 4 < 2^30
  end.

Lemma align_ge off a : wf_align a -> 0 <= off -> off <= align off a < off + a /\ align off a mod a = 0.
Proof. unfold wf_align, align. intros [->|[->|[->| ->]]] H; lia. Qed.
Lemma align_1 off : align off 1 = off. Proof. unfold align. lia. Qed.
Lemma align_id off a : wf_align a -> 0 <= off -> off mod a = 0 -> align off a = off.
Proof. unfold wf_align, align. intros [->|[->|[->| ->]]] H H1; lia. Qed.

Lemma byte_at_app_r pre x i : i = blen pre -> byte_at (pre ++ x) i = byte_at x 0.
Proof. intros ->. unfold byte_at, blen. rewrite Nat2Z.id, app_nth2, Nat.sub_diag by lia. reflexivity. Qed.

Lemma byte_at_zeros p r : 0 < p -> byte_at (zeros p ++ r) 0 = 0.
Proof. intros. unfold byte_at, zeros. destruct (Z.to_nat p) eqn:E; [lia|]. reflexivity. Qed.

Theorem dec_fill : forall cols ds pre post,
  Forall2 fits cols ds ->
  dec cols (map isnull ds) (pre ++ fill (blen pre) cols ds ++ post) (blen pre) = map payload ds.
Proof.
  induction cols as [|c cs IH]; intros ds pre post HF; inversion HF as [|? d ? ds' [Ha Hd] HF']; subst; [reflexivity|].
  cbn [map isnull dec fill].
  assert (Hpre : 0 <= blen pre) by (unfold blen; lia).
  destruct d as [|bs|bs|bs]; cbn [isnull payload].
  - (* NULL *) f_equal. apply IH; auto.
  - (* fixed *)
    destruct Hd as [Hl Hb].
    replace (clen c =? -1) with false by lia. cbn [andb].
    set (p := align (blen pre) (calign c) - blen pre).
    pose proof (align_ge (blen pre) (calign c) Ha Hpre) as [Hal _].
    assert (Hp : 0 <= p) by (unfold p; lia).
    unfold readValue. replace (clen c >? 0) with true by lia.
    f_equal.
    + f_equal. rewrite <- !app_assoc.
      replace (pre ++ zeros p ++ bs ++ fill (blen pre + p + blen bs) cs ds' ++ post)
        with ((pre ++ zeros p) ++ bs ++ (fill (blen pre + p + blen bs) cs ds' ++ post)) by (rewrite <- !app_assoc; reflexivity).
      apply sub_mid; bl; unfold p; lia.
    + specialize (IH ds' (pre ++ zeros p ++ bs) post HF').
      assert (Hbl : blen (pre ++ zeros p ++ bs) = blen pre + p + blen bs) by (bl; lia).
      rewrite Hbl in IH. rewrite <- !app_assoc in *. cbn [app] in *.
      replace (align (blen pre) (calign c) + clen c) with (blen pre + p + blen bs) by (unfold p; lia).
      exact IH.
  - (* short *)
    destruct Hd as [Hl Hb]. rewrite Hl, Z.eqb_refl. cbn [andb].
    set (F := fill (blen pre + 1 + blen bs) cs ds').
    set (d := pre ++ _).
    pose proof (blen_nonneg bs) as Hbs. pose proof (blen_nonneg post) as Hpo. pose proof (blen_nonneg F) as HF0.
    assert (Hd0 : byte_at d (blen pre) = (blen bs + 1) * 2 + 1).
    { unfold d. rewrite byte_at_app_r by reflexivity. unfold byte_at. cbn [Z.to_nat nth app].
      unfold hdr1. rewrite b2z_z2b. lia. }
    assert (Hlt : blen pre <? blen d = true) by (unfold d; bl; lia).
    rewrite Hlt, Hd0. replace (negb ((blen bs + 1) * 2 + 1 =? 0)) with true by lia.
    cbn [andb]. rewrite align_1. unfold readValue. cbn [Z.gtb Z.compare]. unfold readVarlena.
    rewrite Hd0. replace (((blen bs + 1) * 2 + 1) mod 2 =? 1) with true by lia.
    replace (((blen bs + 1) * 2 + 1) / 2) with (blen bs + 1) by lia.
    f_equal.
    + f_equal. unfold d. ssub.
    + specialize (IH ds' (pre ++ [hdr1 (blen bs + 1)] ++ bs) post HF').
      assert (Hbl : blen (pre ++ [hdr1 (blen bs + 1)] ++ bs) = blen pre + 1 + blen bs) by (bl; lia).
      rewrite Hbl in IH. unfold d, F. rewrite <- !app_assoc in *.
      replace (blen pre + (blen bs + 1)) with (blen pre + 1 + blen bs) by lia. exact IH.
  - (* long *)
    destruct Hd as [Hl Hb]. rewrite Hl, Z.eqb_refl. cbn [andb].
    set (p := align (blen pre) (calign c) - blen pre).
    pose proof (align_ge (blen pre) (calign c) Ha Hpre) as [Hal Hmod].
    assert (Hp : 0 <= p) by (unfold p; lia).
    set (F := fill (blen pre + p + 4 + blen bs) cs ds').
    set (d := pre ++ _).
    pose proof (blen_nonneg bs) as Hbs. pose proof (blen_nonneg post) as Hpo. pose proof (blen_nonneg F) as HF0.
    assert (Hlt : blen pre <? blen d = true) by (unfold d, hdr4; bl; lia).
    rewrite Hlt. cbn [andb].
    (* whichever way the peek goes, the aligned offset is blen pre + p *)
    assert (Hoff : align (blen pre) (if negb (byte_at d (blen pre) =? 0) then 1 else calign c) = blen pre + p).
    { destruct (byte_at d (blen pre) =? 0) eqn:E; cbn [negb]; [unfold p; lia|].
      rewrite align_1. destruct (Z.eq_dec p 0) as [->|Hne]; [lia|]. exfalso.
      unfold d in E. rewrite byte_at_app_r in E by reflexivity. rewrite <- !app_assoc in E.
      rewrite byte_at_zeros in E by lia. lia. }
    rewrite Hoff. unfold readValue. cbn [Z.gtb Z.compare]. unfold readVarlena.
    assert (Hh : sub d (blen pre + p) (blen pre + p + 4) = hdr4 (blen bs + 4)) by (unfold d, hdr4; ssub).
    assert (Hb0 : byte_at d (blen pre + p) mod 2 = 0).
    { unfold d. replace (pre ++ (zeros p ++ hdr4 (blen bs + 4) ++ bs ++ F) ++ post)
        with ((pre ++ zeros p) ++ (hdr4 (blen bs + 4) ++ bs ++ F ++ post)) by (rewrite <- !app_assoc; reflexivity).
      rewrite byte_at_app_r by (bl; lia). unfold byte_at, hdr4. cbn [Z.to_nat nth le_enc app].
      rewrite b2z_z2b. lia. }
    replace (byte_at d (blen pre + p) mod 2 =? 1) with false by lia.
    rewrite Hh. unfold hdr4. rewrite le_dec_enc by (simpl; lia).
    replace ((blen bs + 4) * 4 / 4) with (blen bs + 4) by lia.
    f_equal.
    + f_equal. unfold d, hdr4. ssub.
    + specialize (IH ds' (pre ++ zeros p ++ hdr4 (blen bs + 4) ++ bs) post HF').
      assert (Hbl : blen (pre ++ zeros p ++ hdr4 (blen bs + 4) ++ bs) = blen pre + p + 4 + blen bs) by (unfold hdr4; bl; lia).
      rewrite Hbl in IH. unfold d, F. rewrite <- !app_assoc in *.
      replace (blen pre + p + (blen bs + 4)) with (blen pre + p + 4 + blen bs) by lia. exact IH.
Qed.
Print Assumptions dec_fill.
