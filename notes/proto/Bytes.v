From Coq Require Import ZArith List Lia ZifyBool Bool.
From Coq.Strings Require Import Byte.
Import ListNotations.
Open Scope bool_scope. Open Scope Z_scope.
Ltac Zify.zify_post_hook ::= Z.div_mod_to_equations.

Definition bytes := list byte.
Definition b2z (b : byte) : Z := Z.of_N (Byte.to_N b).
Definition z2b (z : Z) : byte :=
  match Byte.of_N (Z.to_N (z mod 256)) with Some b => b | None => x00 end.

Lemma b2z_range b : 0 <= b2z b < 256.
Proof. unfold b2z. pose proof (Byte.to_N_bounded b). lia. Qed.

Lemma b2z_z2b z : b2z (z2b z) = z mod 256.
Proof.
  unfold z2b, b2z.
  destruct (Byte.of_N (Z.to_N (z mod 256))) eqn:E.
  - apply Byte.to_of_N in E. rewrite E. lia.
  - apply Byte.of_N_None_iff in E. lia.
Qed.

Fixpoint le_enc (n : nat) (v : Z) : bytes :=
  match n with O => [] | S k => z2b v :: le_enc k (v / 256) end.
Fixpoint le_dec (bs : bytes) : Z :=
  match bs with [] => 0 | b :: r => b2z b + 256 * le_dec r end.

Lemma le_enc_length n v : length (le_enc n v) = n.
Proof. revert v; induction n; simpl; intros; auto. Qed.

Lemma le_dec_enc n : forall v, 0 <= v < 2 ^ (8 * Z.of_nat n) -> le_dec (le_enc n v) = v.
Proof.
  induction n as [|n IH]; intros v Hv.
  - simpl in *. lia.
  - cbn [le_enc le_dec]. rewrite b2z_z2b.
    replace (8 * Z.of_nat (S n)) with (8 + 8 * Z.of_nat n) in Hv by lia.
    rewrite Z.pow_add_r in Hv by lia. change (2^8) with 256 in Hv.
    rewrite IH; [lia|].
    split; [apply Z.div_pos; lia|]. apply Z.div_lt_upper_bound; lia.
Qed.

Lemma le_dec_range bs : 0 <= le_dec bs < 2 ^ (8 * Z.of_nat (length bs)).
Proof.
  induction bs as [|b r IH]; simpl length.
  - simpl. lia.
  - cbn [le_dec]. pose proof (b2z_range b).
    replace (8 * Z.of_nat (S (length r))) with (8 + 8 * Z.of_nat (length r)) by lia.
    rewrite Z.pow_add_r by lia. change (2^8) with 256. lia.
Qed.

(* Go slice with capacity tail *)
Record gslice := { vis : bytes; tail : bytes }.
Inductive res (A : Type) := Ok (a : A) | Panic.
Arguments Ok {A}. Arguments Panic {A}.
Definition bind {A B} (r : res A) (f : A -> res B) : res B :=
  match r with Ok a => f a | Panic => Panic end.
Notation "x <- e ;; k" := (bind e (fun x => k)) (at level 61, e at next level, right associativity).

Definition len (s : gslice) : Z := Z.of_nat (length (vis s)).
Definition sub (bs : bytes) (lo hi : Z) : bytes := firstn (Z.to_nat (hi - lo)) (skipn (Z.to_nat lo) bs).

(* binary.LittleEndian.UintN(data[off:]) *)
Definition uN (n : nat) (s : gslice) (off : Z) : res Z :=
  if (0 <=? off) && (off + Z.of_nat n <=? len s) then Ok (le_dec (sub (vis s) off (off + Z.of_nat n)))
  else Panic.
Definition u32 := uN 4. Definition u16 := uN 2. Definition u64 := uN 8.

Lemma sub_app_mid (a m b : bytes) :
  sub (a ++ m ++ b) (Z.of_nat (length a)) (Z.of_nat (length a) + Z.of_nat (length m)) = m.
Proof.
  unfold sub. rewrite Nat2Z.id.
  replace (Z.to_nat (Z.of_nat (length a) + Z.of_nat (length m) - Z.of_nat (length a))) with (length m) by lia.
  rewrite skipn_app, skipn_all, Nat.sub_diag. simpl.
  rewrite firstn_app, firstn_all, Nat.sub_diag. simpl. apply app_nil_r.
Qed.

Lemma uN_at n a v b t off :
  off = Z.of_nat (length a) -> 0 <= v < 2 ^ (8 * Z.of_nat n) ->
  uN n {| vis := a ++ le_enc n v ++ b; tail := t |} off = Ok v.
Proof.
  intros -> Hv. unfold uN, len. cbn [vis].
  rewrite !app_length, le_enc_length.
  destruct ((0 <=? Z.of_nat (length a)) && (Z.of_nat (length a) + Z.of_nat n <=? Z.of_nat (length a + (n + length b)))) eqn:E; [|lia].
  f_equal. pose proof (sub_app_mid a (le_enc n v) b) as H. rewrite le_enc_length in H. rewrite H.
  apply le_dec_enc; auto.
Qed.

Lemma sub_app_r (a b : bytes) lo hi : Z.of_nat (length a) <= lo -> sub (a ++ b) lo hi = sub b (lo - Z.of_nat (length a)) (hi - Z.of_nat (length a)).
Proof.
  intros H. unfold sub. rewrite skipn_app.
  rewrite skipn_all2 by lia. simpl.
  replace (Z.to_nat lo - length a)%nat with (Z.to_nat (lo - Z.of_nat (length a))) by lia.
  f_equal. lia.
Qed.
Lemma sub_app_l (a b : bytes) lo hi : 0 <= lo -> hi <= Z.of_nat (length a) -> sub (a ++ b) lo hi = sub a lo hi.
Proof.
  intros H0 H. unfold sub. rewrite skipn_app, firstn_app.
  replace (Z.to_nat (hi - lo) - length (skipn (Z.to_nat lo) a))%nat with 0%nat by (rewrite skipn_length; lia).
  simpl. apply app_nil_r.
Qed.
Lemma sub_exact (a : bytes) hi : hi = Z.of_nat (length a) -> sub a 0 hi = a.
Proof. intros ->. unfold sub. simpl. rewrite Z.sub_0_r, Nat2Z.id. apply firstn_all. Qed.

Lemma uN_sub n s off v : 0 <= off -> off + Z.of_nat n <= len s ->
  sub (vis s) off (off + Z.of_nat n) = le_enc n v -> 0 <= v < 2 ^ (8 * Z.of_nat n) -> uN n s off = Ok v.
Proof. intros. unfold uN. destruct (_ && _) eqn:E; [|lia]. rewrite H1, le_dec_enc; auto. Qed.

Create HintDb len.
#[export] Hint Rewrite app_length le_enc_length : len.
Ltac len := autorewrite with len in *; cbn [length] in *.
Ltac solve_sub :=
  repeat first [ rewrite sub_app_r by (len; lia) | rewrite sub_app_l by (len; lia) ];
  try (apply sub_exact; len; lia).

Lemma skipn_skipn' {A} (l : list A) n m : skipn n (skipn m l) = skipn (m + n) l.
Proof. revert l; induction m; intros l; simpl; auto. destruct l; [destruct n; reflexivity|apply IHm]. Qed.

Lemma sub_sub (a : bytes) lo hi x y :
  0 <= lo -> 0 <= x -> x <= y -> lo + y <= hi ->
  sub (sub a lo hi) x y = sub a (lo + x) (lo + y).
Proof.
  intros. unfold sub. rewrite skipn_firstn_comm, skipn_skipn', firstn_firstn.
  f_equal; [lia|]. f_equal. lia.
Qed.
