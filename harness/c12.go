package main

// Go side of property C12 (every access path exposes the same databases, tables and rows).
// One generated data directory is materialised under VERIF_TMP and read through: DumpDataDir, the custom
// file-reader interface (DumpDatabaseFromFiles per database with a closure reader), a RemoteClient whose reader
// opens the same files (every method, call sequences on ONE client), ListDatabases, and the command-line program
// ($PGREAD_CLI, built from the same tree) as a subprocess.  Rendering must agree with driver/C12/*.ml.

import (
	"bytes"
	"encoding/binary"
	"encoding/hex"
	"encoding/json"
	"errors"
	"fmt"
	"os"
	"os/exec"
	"path/filepath"
	"regexp"
	"sort"
	"strconv"
	"strings"

	"github.com/Chocapikk/pgread/pgdump"
)

// ---------------------------------------------------------------- the data directory

// pairs (relative path, file hex)
func c12Setup(a []string) string {
	d := c01Dir()
	for i := 0; i+1 < len(a); i += 2 {
		c01Write(filepath.Join(d, filepath.FromSlash(a[i])), unhex(a[i+1]))
	}
	return d
}

func c12Reader(dir string) pgdump.RemoteReader {
	return func(p string) ([]byte, error) { return os.ReadFile(filepath.Join(dir, filepath.FromSlash(p))) }
}

// ---------------------------------------------------------------- rendering

func c12Opt(isNil bool, f func() string) string {
	if isNil {
		return "nil"
	}
	return f()
}

func c12DBInfo(d pgdump.DatabaseInfo) string {
	return cRec(kv{"oid", fmt.Sprint(d.OID)}, kv{"name", cStr(d.Name)})
}

func c12TInfo(t pgdump.TableInfo) string {
	return cRec(kv{"oid", fmt.Sprint(t.OID)}, kv{"filenode", fmt.Sprint(t.Filenode)}, kv{"name", cStr(t.Name)}, kv{"kind", cStr(t.Kind)})
}

func c12AInfo(a pgdump.AttrInfo) string {
	return cRec(kv{"name", cStr(a.Name)}, kv{"typid", fmt.Sprint(a.TypID)}, kv{"num", fmt.Sprint(a.Num)},
		kv{"len", fmt.Sprint(a.Len)}, kv{"align", fmt.Sprint(a.Align)})
}

func c12Auth(a pgdump.AuthInfo) string {
	return cRec(kv{"oid", fmt.Sprint(a.OID)}, kv{"role", cStr(a.RoleName)}, kv{"password", cStr(a.Password)},
		kv{"super", cBool(a.RolSuper)}, kv{"login", cBool(a.RolLogin)})
}

func c12List[T any](l []T, f func(T) string) string {
	parts := make([]string, len(l))
	for i, x := range l {
		parts[i] = f(x)
	}
	return cList(parts)
}

func c12Rows(rows []map[string]any) string {
	parts := make([]string, len(rows))
	for i, r := range rows {
		parts[i] = cRowMap(r)
	}
	return cList(parts)
}

func c12Ctl(cf *pgdump.ControlFile) string {
	if cf == nil {
		return "nil"
	}
	return "ctl:" + hex.EncodeToString([]byte(fmt.Sprintf("%+v", *cf)))
}

// the Summary as a caller sees it: its JSON form and its text
func c12Summary(s pgdump.SummaryResult) string {
	js := "json-error"
	if b, err := json.Marshal(s); err == nil {
		var v pgdump.Summary
		if err := json.Unmarshal(b, &v); err == nil {
			keys := make([]string, 0, len(v.Databases))
			for k := range v.Databases {
				keys = append(keys, k)
			}
			sort.Strings(keys)
			dbs := make([]string, len(keys))
			for i, k := range keys {
				dbs[i] = hex.EncodeToString([]byte(k)) + ":" + c12List(v.Databases[k], cStr)
			}
			js = cRec(kv{"version", cStr(v.Version)}, kv{"credentials", c12List(v.Credentials, cStr)},
				kv{"databases", "m{" + strings.Join(dbs, ",") + "}"})
		}
	}
	return cRec(kv{"json", js}, kv{"text", cStr(s.String())})
}

var c12ResultNames = map[string]string{
	"pgdump.SummaryResult": "RSummary", "pgdump.VersionResult": "RVersion", "pgdump.ControlResult": "RControl",
	"pgdump.CredsResult": "RCreds", "pgdump.DatabasesResult": "RDatabases", "pgdump.TablesResult": "RTables",
	"pgdump.ColumnsResult": "RColumns", "pgdump.QueryResult": "RQuery", "pgdump.DumpDatabaseResult": "RDumpDatabase",
	"pgdump.DumpAllResult": "RDumpAll", "pgdump.ErrorResult": "RError"}

func c12Result(r pgdump.Result) string {
	t := fmt.Sprintf("%T", r)
	if n, ok := c12ResultNames[t]; ok {
		t = n
	}
	return cRec(kv{"type", t}, kv{"text", cStr(r.String())})
}

// ---------------------------------------------------------------- placeholders of the model
// Inside every s:<hex> token:  \0 t n <4 LE bytes>  ->  TypeName(id);   \0 c t l <pg_control bytes to the end>  ->
// the text ControlResult gives for those bytes.   ctlraw:<hex>  ->  the ControlFile ParseControlFile gives.
var c12StrToken = regexp.MustCompile(`s:([0-9a-f]+)`)
var c12CtlToken = regexp.MustCompile(`ctlraw:([0-9a-f]*)`)

func c12ParseCtl(b []byte) *pgdump.ControlFile {
	cf, err := pgdump.ParseControlFile(b)
	if err != nil {
		return nil
	}
	return cf
}

func c12Norm(expected string) string {
	s := c12CtlToken.ReplaceAllStringFunc(expected, func(tok string) string {
		b, _ := hex.DecodeString(c12CtlToken.FindStringSubmatch(tok)[1])
		return c12Ctl(c12ParseCtl(b))
	})
	s = c12StrToken.ReplaceAllStringFunc(s, func(tok string) string {
		if !strings.Contains(tok, "00") {
			return tok
		}
		b, err := hex.DecodeString(tok[2:])
		if err != nil || bytes.IndexByte(b, 0) < 0 {
			return tok
		}
		var out []byte
		for i := 0; i < len(b); {
			if b[i] == 0 && i+7 <= len(b) && b[i+1] == 't' && b[i+2] == 'n' {
				out = append(out, pgdump.TypeName(int(binary.LittleEndian.Uint32(b[i+3:i+7])))...)
				i += 7
			} else if b[i] == 0 && i+4 <= len(b) && string(b[i+1:i+4]) == "ctl" {
				out = append(out, pgdump.ControlResult{ControlFile: c12ParseCtl(b[i+4:])}.String()...)
				i = len(b)
			} else {
				out = append(out, b[i])
				i++
			}
		}
		return cStr(string(out))
	})
	return substDecodeType(s)
}

// ---------------------------------------------------------------- client calls

func c12Name(s string) string { return string(unhex(s)) }

func c12TI(s string) *pgdump.TableInfo {
	if s == "nil" {
		return nil
	}
	f := strings.Split(s, "/")
	if len(f) != 4 {
		panic("harness: bad table argument")
	}
	oid, _ := strconv.ParseUint(f[0], 10, 32)
	fn, _ := strconv.ParseUint(f[1], 10, 32)
	return &pgdump.TableInfo{OID: uint32(oid), Filenode: uint32(fn), Name: c12Name(f[2]), Kind: c12Name(f[3])}
}

func c12QO(s string) *pgdump.QueryOptions {
	if s == "nil" {
		return nil
	}
	f := strings.SplitN(s, "/", 2)
	lim, _ := strconv.Atoi(f[0])
	o := &pgdump.QueryOptions{Limit: lim}
	if len(f) > 1 && f[1] != "" {
		for _, c := range strings.Split(f[1], ",") {
			o.Columns = append(o.Columns, c12Name(c))
		}
	}
	return o
}

func c12U32(s string) uint32 {
	n, err := strconv.ParseUint(s, 10, 32)
	if err != nil {
		panic("harness: bad oid argument")
	}
	return uint32(n)
}

func c12Call(c *pgdump.RemoteClient, call string) string {
	f := strings.Split(call, ":")
	switch f[0] {
	case "version":
		return cStr(c.Version())
	case "control":
		return c12Ctl(c.Control())
	case "creds":
		return c12List(c.Credentials(), c12Auth)
	case "dbs":
		return c12List(c.Databases(), c12DBInfo)
	case "db":
		d := c.Database(c12Name(f[1]))
		return c12Opt(d == nil, func() string { return c12DBInfo(*d) })
	case "tables":
		return c12List(c.Tables(c12U32(f[1])), c12TInfo)
	case "tablesbyname":
		return c12List(c.TablesByName(c12Name(f[1])), c12TInfo)
	case "table":
		t := c.Table(c12U32(f[1]), c12Name(f[2]))
		return c12Opt(t == nil, func() string { return c12TInfo(*t) })
	case "columns":
		return c12List(c.Columns(c12U32(f[1]), c12U32(f[2])), c12AInfo)
	case "colnames":
		return c12List(c.ColumnNames(c12U32(f[1]), c12U32(f[2])), cStr)
	case "query":
		return c12Rows(c.Query(c12U32(f[1]), c12TI(f[2]), c12QO(f[3])))
	case "querybyname":
		return c12Rows(c.QueryByName(c12Name(f[1]), c12Name(f[2]), c12QO(f[3])))
	case "dumptable":
		t := c.DumpTable(c12U32(f[1]), c12TI(f[2]))
		return c12Opt(t == nil, func() string { return c01Table(*t) })
	case "dumpdb":
		d := c.DumpDatabase(c12U32(f[1]))
		return c12Opt(d == nil, func() string { return c01DB(*d) })
	case "dumpdbbyname":
		d := c.DumpDatabaseByName(c12Name(f[1]))
		return c12Opt(d == nil, func() string { return c01DB(*d) })
	case "dumpall":
		r := c.DumpAll()
		return c12Opt(r == nil, func() string { return c01Dump(r) })
	case "summary":
		return c12Summary(c.Summary())
	case "exec":
		var args []string
		if len(f) > 1 && f[1] != "" {
			for _, x := range strings.Split(f[1], ",") {
				args = append(args, c12Name(x))
			}
		}
		return c12Result(c.Exec(args))
	}
	panic("harness: unknown call " + f[0])
}

// ---------------------------------------------------------------- the command line

type c12Flags struct {
	d, list, sql, csv, listdb, b, index, control, version bool
	db, t, f, R, passwords, sequences, relmap              string
}

// k=v;k=v  (string values in hex, "-" = empty)
func c12ParseFlags(s string) c12Flags {
	var fl c12Flags
	if s == "" || s == "-" {
		return fl
	}
	for _, part := range strings.Split(s, ";") {
		kvp := strings.SplitN(part, "=", 2)
		v := ""
		if len(kvp) > 1 {
			v = kvp[1]
		}
		switch kvp[0] {
		case "d":
			fl.d = true
		case "list":
			fl.list = true
		case "sql":
			fl.sql = true
		case "csv":
			fl.csv = true
		case "listdb":
			fl.listdb = true
		case "b":
			fl.b = true
		case "index":
			fl.index = true
		case "control":
			fl.control = true
		case "version":
			fl.version = true
		case "db":
			fl.db = c12Name(v)
		case "t":
			fl.t = c12Name(v)
		case "f":
			fl.f = c12Name(v)
		case "R":
			fl.R = c12Name(v)
		case "passwords":
			fl.passwords = c12Name(v)
		case "sequences":
			fl.sequences = c12Name(v)
		case "relmap":
			fl.relmap = c12Name(v)
		default:
			panic("harness: unknown flag " + kvp[0])
		}
	}
	return fl
}

func (fl c12Flags) argv(dir string) []string {
	var a []string
	add := func(on bool, name string) {
		if on {
			a = append(a, name)
		}
	}
	adds := func(v, name string) {
		if v != "" {
			a = append(a, name, v)
		}
	}
	if fl.d {
		a = append(a, "-d", dir)
	}
	if fl.f != "" {
		a = append(a, "-f", filepath.Join(dir, filepath.FromSlash(fl.f)))
	}
	adds(fl.db, "-db")
	adds(fl.t, "-t")
	add(fl.list, "-list")
	add(fl.sql, "-sql")
	add(fl.csv, "-csv")
	add(fl.listdb, "-list-db")
	adds(fl.R, "-R")
	add(fl.b, "-b")
	add(fl.index, "-index")
	add(fl.control, "-control")
	adds(fl.passwords, "-passwords")
	adds(fl.sequences, "-sequences")
	adds(fl.relmap, "-relmap")
	add(fl.version, "-version")
	return a
}

type c12Out struct {
	stdout, stderr string
	code           int
}

func c12RunCLI(dir string, argv []string) c12Out {
	cli := os.Getenv("PGREAD_CLI")
	if cli == "" {
		panic("harness: PGREAD_CLI is not set")
	}
	cmd := exec.Command(cli, argv...)
	cmd.Env = []string{"HOME=" + dir, "PATH=/usr/bin:/bin"}
	cmd.Dir = dir
	var so, se bytes.Buffer
	cmd.Stdout, cmd.Stderr = &so, &se
	err := cmd.Run()
	code := 0
	if err != nil {
		var ee *exec.ExitError
		if errors.As(err, &ee) {
			code = ee.ExitCode()
		} else {
			panic("harness: cannot run the CLI: " + err.Error())
		}
	}
	return c12Out{so.String(), se.String(), code}
}

func c12JSON(v interface{}) string {
	var b bytes.Buffer
	enc := json.NewEncoder(&b)
	enc.SetIndent("", "  ")
	enc.Encode(v)
	return b.String()
}

func c12DropGenerated(s string) string {
	lines := strings.Split(s, "\n")
	out := lines[:0]
	for _, l := range lines {
		if !strings.HasPrefix(l, "-- Generated at:") {
			out = append(out, l)
		}
	}
	return strings.Join(out, "\n")
}

func c12SortedLines(s string) string {
	l := strings.Split(s, "\n")
	sort.Strings(l)
	return strings.Join(l, "\n")
}

// what the CLI's JSON dump says, as a DumpResult with int4 / text / NULL cells typed by the column list
func c12DecodeDump(stdout string) (*pgdump.DumpResult, error) {
	dec := json.NewDecoder(strings.NewReader(stdout))
	dec.UseNumber()
	var res pgdump.DumpResult
	if err := dec.Decode(&res); err != nil {
		return nil, err
	}
	for di := range res.Databases {
		for ti := range res.Databases[di].Tables {
			t := &res.Databases[di].Tables[ti]
			typ := map[string]int{}
			for _, c := range t.Columns {
				typ[c.Name] = c.TypID
			}
			for _, r := range t.Rows {
				for k, v := range r {
					switch x := v.(type) {
					case json.Number:
						n, err := strconv.ParseInt(string(x), 10, 64)
						if err != nil || typ[k] != pgdump.OidInt4 {
							return nil, fmt.Errorf("unexpected number %s in column %s", x, k)
						}
						r[k] = int32(n)
					case string, nil:
					default:
						return nil, fmt.Errorf("unexpected JSON value %v in column %s", v, k)
					}
				}
			}
		}
	}
	return &res, nil
}

type c12Cand struct {
	name string
	kind string // "lib" | "text" | "dump"
	out  c12Out
	res  *pgdump.DumpResult
	fmt_ string
	sort bool
}

func c12Fail(format string, a ...interface{}) c12Out {
	return c12Out{"", fmt.Sprintf(format, a...), 1}
}

// every library call a flag could select, rendered the way main.go renders it, computed in-process
func c12Candidates(dir string, fl c12Flags) []c12Cand {
	var cs []c12Cand
	lib := func(name string, o c12Out) { cs = append(cs, c12Cand{name: name, kind: "lib", out: o}) }
	lib("Version", c12Out{fmt.Sprintf("pgdump-offline %s\n", pgdump.Version), "", 0})
	if fl.f != "" {
		path := filepath.Join(dir, filepath.FromSlash(fl.f))
		lib("BinaryDump", func() c12Out {
			var br *pgdump.BlockRange
			if fl.R != "" {
				var err error
				if br, err = pgdump.ParseBlockRange(fl.R); err != nil {
					return c12Fail("Error parsing block range: %v\n", err)
				}
			}
			dumps, err := pgdump.DumpBinaryRange(path, br)
			if err != nil {
				return c12Fail("Error: %v\n", err)
			}
			var b strings.Builder
			for _, d := range dumps {
				fmt.Fprintf(&b, "Block %d (offset 0x%08X):\n", d.BlockNumber, d.Offset)
				fmt.Fprintln(&b, d.HexDump)
			}
			return c12Out{b.String(), "", 0}
		}())
		lib("IndexFile", func() c12Out {
			data, err := os.ReadFile(path)
			if err != nil {
				return c12Fail("Error: %v\n", err)
			}
			info, err := pgdump.ParseIndexFile(data)
			if err != nil {
				return c12Fail("Error parsing index: %v\n", err)
			}
			return c12Out{c12JSON(info), "", 0}
		}())
		if fl.R != "" {
			lib("BlockRange", func() c12Out {
				br, err := pgdump.ParseBlockRange(fl.R)
				if err != nil {
					return c12Fail("Error parsing block range: %v\n", err)
				}
				blocks, err := pgdump.DumpBlockRange(path, br)
				if err != nil {
					return c12Fail("Error: %v\n", err)
				}
				return c12Out{c12JSON(blocks), "", 0}
			}())
		}
		lib("Single", func() c12Out {
			data, err := os.ReadFile(path)
			if err != nil {
				return c12Fail("Error: %v\n", err)
			}
			var b strings.Builder
			switch filepath.Base(path) {
			case "1262":
				fmt.Fprintln(&b, "pg_database:")
				for _, db := range pgdump.ParsePGDatabase(data) {
					fmt.Fprintf(&b, "  %s (OID %d)\n", db.Name, db.OID)
				}
			case "1259", "1249":
				return c12Out{"(not compared: map order)", "", 0}
			default:
				fmt.Fprintf(&b, "Heap file: %d tuples\n", len(pgdump.ParseFile(data)))
			}
			return c12Out{b.String(), "", 0}
		}())
	}
	if !fl.d {
		return cs
	}
	cs = append(cs, c12Cand{name: "ListDatabases", kind: "text", out: func() c12Out {
		dbs := pgdump.ListDatabases(dir)
		if len(dbs) == 0 {
			return c12Out{"No databases found\n", "", 1}
		}
		var b strings.Builder
		for _, db := range dbs {
			fmt.Fprintf(&b, "%s (OID %d)\n", db.Name, db.OID)
		}
		return c12Out{b.String(), "", 0}
	}()})
	lib("Control", func() c12Out {
		cf, err := pgdump.ReadControlFile(dir)
		if err != nil {
			return c12Fail("Error reading pg_control: %v\n", err)
		}
		return c12Out{c12JSON(cf), "", 0}
	}())
	if fl.sequences != "" {
		cs = append(cs, c12Cand{name: "SequencesAll", kind: "lib", sort: true, out: func() c12Out {
			r, err := pgdump.ScanAllSequences(dir)
			if err != nil {
				return c12Fail("Error: %v\n", err)
			}
			return c12Out{c12JSON(r), "", 0}
		}()})
		cs = append(cs, c12Cand{name: "Sequences", kind: "lib", sort: true, out: func() c12Out {
			r, err := pgdump.FindSequences(dir, fl.sequences)
			if err != nil {
				return c12Fail("Error: %v\n", err)
			}
			return c12Out{c12JSON(r), "", 0}
		}()})
	}
	if fl.relmap != "" {
		lib("RelmapGlobal", func() c12Out {
			rm, err := pgdump.ReadGlobalRelMap(dir)
			if err != nil {
				return c12Fail("Error: %v\n", err)
			}
			return c12Out{c12JSON(rm), "", 0}
		}())
		lib("RelmapAll", func() c12Out {
			info, err := pgdump.ReadAllRelMaps(dir)
			if err != nil {
				return c12Fail("Error: %v\n", err)
			}
			return c12Out{c12JSON(info), "", 0}
		}())
		if oid, err := strconv.ParseUint(fl.relmap, 10, 32); err != nil {
			lib("RelmapInvalid", c12Fail("Invalid relmap option: %s (use 'global', 'all', or database OID)\n", fl.relmap))
		} else {
			lib(fmt.Sprintf("RelmapDb:%d", oid), func() c12Out {
				rm, err := pgdump.ReadDatabaseRelMap(dir, uint32(oid))
				if err != nil {
					return c12Fail("Error: %v\n", err)
				}
				return c12Out{c12JSON(rm), "", 0}
			}())
		}
	}
	if fl.passwords != "" {
		cs = append(cs, c12Cand{name: "Passwords", kind: "text", out: func() c12Out {
			auths, err := pgdump.ExtractPasswords(dir)
			if err != nil {
				return c12Fail("Error extracting passwords: %v\n", err)
			}
			if len(auths) == 0 {
				return c12Out{"No password hashes found\n", "", 0}
			}
			var b strings.Builder
			fmt.Fprintln(&b, "PostgreSQL Password Hashes:")
			fmt.Fprintln(&b, "===========================")
			for _, auth := range auths {
				if fl.passwords != "all" && auth.RoleName != fl.passwords {
					continue
				}
				flags := ""
				if auth.RolSuper {
					flags += " [SUPERUSER]"
				}
				if auth.RolLogin {
					flags += " [LOGIN]"
				}
				if auth.Password != "" {
					fmt.Fprintf(&b, "%s:%s%s\n", auth.RoleName, auth.Password, flags)
				} else {
					fmt.Fprintf(&b, "%s:(no password)%s\n", auth.RoleName, flags)
				}
			}
			return c12Out{b.String(), "", 0}
		}()})
	}
	// the dump: the library options the flags name, rendered three ways
	res, err := pgdump.DumpDataDir(dir, &pgdump.Options{DatabaseFilter: fl.db, TableFilter: fl.t, ListOnly: fl.list, SkipSystemTables: true})
	for _, f := range []string{"json", "sql", "csv"} {
		c := c12Cand{name: "Dump:" + f, kind: "dump", res: res, fmt_: f}
		if err != nil || res == nil {
			c.out = c12Fail("Error: %v\n", err)
			c.res = nil
		} else {
			var b bytes.Buffer
			switch f {
			case "json":
				c.out = c12Out{c12JSON(res), "", 0}
			case "sql":
				res.ToSQL(&b)
				c.out = c12Out{c12DropGenerated(b.String()), "", 0}
			case "csv":
				res.ToCSV(&b)
				c.out = c12Out{b.String(), "", 0}
			}
		}
		cs = append(cs, c)
	}
	return cs
}

func init() {
	// a[0] options; then the files
	register("C12DumpDataDir", func(a []string) string {
		d := c12Setup(a[1:])
		defer os.RemoveAll(d)
		res, err := pgdump.DumpDataDir(d, c01Opts(a[0]))
		if err != nil || res == nil {
			return "err"
		}
		return c01Dump(res)
	})
	// the custom file-reader interface: DumpDatabaseFromFiles per database of global/1262, with a reader that opens
	// base/<oid>/<filenode> (the assembling of theorem C12_custom_reader)
	register("C12CustomReader", func(a []string) string {
		d := c12Setup(a[1:])
		defer os.RemoveAll(d)
		opts := c01Opts(a[0])
		dbData, err := os.ReadFile(filepath.Join(d, "global", "1262"))
		if err != nil {
			return "err"
		}
		filter := ""
		if opts != nil {
			filter = opts.DatabaseFilter
		}
		res := &pgdump.DumpResult{}
		for _, db := range pgdump.ParsePGDatabase(dbData) {
			if strings.HasPrefix(db.Name, "template") || (filter != "" && db.Name != filter) {
				continue
			}
			base := filepath.Join(d, "base", fmt.Sprint(db.OID))
			classData, err := os.ReadFile(filepath.Join(base, "1259"))
			if err != nil || len(classData) == 0 {
				continue
			}
			attrData, _ := os.ReadFile(filepath.Join(base, "1249"))
			reader := func(fn uint32) ([]byte, error) { return os.ReadFile(filepath.Join(base, fmt.Sprint(fn))) }
			dump, err := pgdump.DumpDatabaseFromFiles(classData, attrData, reader, opts)
			if err != nil || dump == nil {
				return "err-db"
			}
			res.Databases = append(res.Databases, pgdump.DatabaseDump{OID: db.OID, Name: db.Name, Tables: dump.Tables})
		}
		return c01Dump(res)
	})
	// a[0] number of calls n; a[1..n] the calls, issued in order on ONE client; then the files
	register("C12Remote", func(a []string) string {
		n, _ := strconv.Atoi(a[0])
		d := c12Setup(a[1+n:])
		defer os.RemoveAll(d)
		c := pgdump.NewRemoteClient(c12Reader(d))
		parts := make([]string, n)
		for i := 0; i < n; i++ {
			parts[i] = c12Call(c, a[1+i])
		}
		return cList(parts)
	})
	register("C12ListDatabases", func(a []string) string {
		d := c12Setup(a)
		defer os.RemoveAll(d)
		return c12List(pgdump.ListDatabases(d), c12DBInfo)
	})
	// a[0] flags; then the files.  The result names the library call(s) whose rendering (stdout, stderr, exit code)
	// the program's output equals, plus what the output says for the branches made of C12 material.
	register("C12Cli", func(a []string) string {
		d := c12Setup(a[1:])
		defer os.RemoveAll(d)
		fl := c12ParseFlags(a[0])
		got := c12RunCLI(d, fl.argv(d))
		var names []string
		detail := ""
		for _, c := range c12Candidates(d, fl) {
			g, w := got, c.out
			if c.kind == "dump" && c.fmt_ == "sql" {
				g.stdout = c12DropGenerated(g.stdout)
			}
			if c.sort {
				g.stdout, w.stdout = c12SortedLines(g.stdout), c12SortedLines(w.stdout)
			}
			if g != w {
				continue
			}
			names = append(names, c.name)
			switch c.kind {
			case "text":
				detail = fmt.Sprintf(";exit=%d;out=%s", got.code, cStr(got.stdout))
			case "dump":
				if c.res == nil {
					detail = ";err"
				} else if c.fmt_ == "json" {
					r, err := c12DecodeDump(got.stdout)
					if err != nil {
						detail = ";dump=undecodable:" + err.Error()
					} else {
						detail = ";dump=" + c01Dump(r)
					}
				} else {
					detail = ";dump=" + c01Dump(c.res)
				}
			}
		}
		if len(names) == 0 {
			return fmt.Sprintf("act=none;exit=%d;stdout=%s;stderr=%s", got.code, cStr(got.stdout), cStr(got.stderr))
		}
		return "act=" + strings.Join(names, "|") + detail
	})
	for _, fn := range []string{"C12DumpDataDir", "C12CustomReader", "C12Remote", "C12ListDatabases", "C12Cli"} {
		registerNorm(fn, c12Norm)
	}
}
