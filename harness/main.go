// Command harness runs the real pgread functions (built from the working tree of the
// repository with -tags verif) on the cases produced by a property driver and compares the
// canonical result I with the spec-side expectation S and the Coq model's answer M.
//
//	harness <cases.tsv> <out.json> [maxMismatch] [listed-known-finding-ids,comma-separated]
//
// Case line:  fn \t tag \t kf \t S \t M \t arg1 \t arg2 ...
package main

import (
	"bufio"
	"crypto/sha256"
	"encoding/json"
	"fmt"
	"os"
	"runtime"
	"strconv"
	"strings"
	"time"
)

// Fn runs one implementation function on textual arguments and returns the canonical result.
type Fn func(args []string) string

var registry = map[string]Fn{}

func register(name string, f Fn) { registry[name] = f }

// normalizers rewrite the expected strings S and M of a function before comparison. They exist so
// that a model can leave a sub-decoder that belongs to ANOTHER property abstract: the model prints a
// placeholder token (e.g. num:<hex>, elem:<oid>:<hex>) and the normalizer replaces it by the
// canonical result of the real sub-decoder on those bytes (which that other property checks).
var normalizers = map[string]func(string) string{}

func registerNorm(name string, f func(string) string) { normalizers[name] = f }

// trivialTags lists generator branches whose cases are not counted as non-trivial.
var trivialTags = map[string]bool{"short": true, "empty": true, "trivial": true}

type mismatch struct {
	Index int      `json:"index"`
	Fn    string   `json:"fn"`
	Tag   string   `json:"tag"`
	KF    string   `json:"kf"`
	S     string   `json:"S"`
	M     string   `json:"M"`
	I     string   `json:"I"`
	EqS   bool     `json:"eqS"`
	EqM   bool     `json:"eqM"`
	Args  []string `json:"args"`
}

type summary struct {
	Evaluations        int            `json:"evaluations"`
	DistinctNontrivial int            `json:"distinct_nontrivial"`
	WithSpec           int            `json:"with_spec"`
	PerTag             map[string]int `json:"per_tag"`
	PerFn              map[string]int `json:"per_fn"`
	Mismatches         []mismatch     `json:"mismatches"`
	MismatchCount      int            `json:"mismatch_count"`
	KFSeen             map[string]int `json:"kf_seen"`
	Samples            []mismatch     `json:"samples"`
	Panics             int            `json:"impl_panics"`
	Timeouts           int            `json:"timeouts"`
	MaxCaseMillis      int64          `json:"max_case_ms"`
	MaxAllocBytes      uint64         `json:"max_alloc_bytes"`
	UnknownFns         []string       `json:"unknown_fns"`
}

// inputGuards: argument builders register a check for every object they hand to the implementation (it must come back
// unchanged); prevHeld: the values the previous case rendered (canon), re-rendered after this case and then scribbled over.
var inputGuards []func() string
var prevHeld []heldVal

func guardInput(g func() string) { inputGuards = append(inputGuards, g) }

func scribble(v interface{}) {
	switch x := v.(type) {
	case map[string]interface{}:
		for k, e := range x {
			scribble(e)
			delete(x, k)
		}
		x["\x00scribbled"] = "by-the-caller"
	case []interface{}:
		for i, e := range x {
			scribble(e)
			x[i] = "\x00scribbled"
		}
	case []byte:
		for i := range x {
			x[i] = 0xEE
		}
	}
}

// actAltEqual: the C12 CLI harness names every library call whose output equals the program's ("act=A|B;..."); when the
// outputs of two calls coincide on an input (an empty CSV dump and an empty listing, say) the program's dispatch cannot be
// told apart by what it prints, and the expected single action is accepted if it is among those named.
func actAltEqual(exp, got string) bool {
	if !strings.HasPrefix(exp, "act=") || !strings.HasPrefix(got, "act=") {
		return false
	}
	k := strings.IndexByte(got, ';')
	acts, rest := got[4:], ""
	if k >= 0 {
		acts, rest = got[4:k], got[k:]
	}
	if !strings.Contains(acts, "|") {
		return false
	}
	for _, a := range strings.Split(acts, "|") {
		if exp == "act="+a+rest {
			return true
		}
	}
	return false
}

func runCase(f Fn, args []string) (res string) {
	done := make(chan string, 1)
	go func() {
		defer func() {
			if r := recover(); r != nil {
				done <- "panic"
			}
		}()
		inputGuards = inputGuards[:0]
		heldVals = heldVals[:0]
		heldRenders = heldRenders[:0]
		holdOff = false
		out := f(args)
		for _, g := range inputGuards {
			if m := g(); m != "" {
				out = "MUTATED-INPUT:" + m
			}
		}
		// results handed out by the previous case belong to their caller: this case must not have changed them
		for _, h := range prevHeld {
			if canonRaw(h.v) != h.s {
				out = "SHARED-STATE:a result of the previous case changed while this case ran"
				break
			}
		}
		for _, h := range prevRenders {
			if h.f() != h.s {
				out = "SHARED-STATE:a result of the previous case changed while this case ran"
				break
			}
		}
		prevRenders = append(prevRenders[:0], heldRenders...)
		// ... and the caller may do with them what it likes: nothing of that may show in later results
		for _, h := range prevHeld {
			scribble(h.v)
		}
		prevHeld = append(prevHeld[:0], heldVals...)
		done <- out
	}()
	select {
	case r := <-done:
		return r
	case <-time.After(90 * time.Second): // generous: checks run next to other jobs; hangs are still caught
		return "timeout"
	}
}

func trunc(a []string) []string {
	out := make([]string, len(a))
	for i, s := range a {
		if len(s) > 400 {
			out[i] = s[:400] + fmt.Sprintf("...(%d chars)", len(s))
		} else {
			out[i] = s
		}
	}
	return out
}

func main() {
	if len(os.Args) < 3 {
		fmt.Fprintln(os.Stderr, "usage: harness cases.tsv out.json [maxMismatch]")
		os.Exit(2)
	}
	maxMis := 40
	if len(os.Args) > 3 {
		maxMis, _ = strconv.Atoi(os.Args[3])
	}
	listed := map[string]bool{}
	if len(os.Args) > 4 {
		for _, k := range strings.Split(os.Args[4], ",") {
			listed[k] = true
		}
	}
	prog, _ := os.Create("progress")
	f, err := os.Open(os.Args[1])
	if err != nil {
		fmt.Fprintln(os.Stderr, err)
		os.Exit(2)
	}
	defer f.Close()
	sc := bufio.NewScanner(f)
	sc.Buffer(make([]byte, 1<<20), 1<<30)
	sum := summary{PerTag: map[string]int{}, PerFn: map[string]int{}, KFSeen: map[string]int{}}
	seen := map[[32]byte]bool{}
	unknown := map[string]bool{}
	idx := -1
	var ms runtime.MemStats
	for sc.Scan() {
		line := sc.Text()
		if line == "" {
			continue
		}
		idx++
		p := strings.Split(line, "\t")
		if len(p) < 5 {
			fmt.Fprintf(os.Stderr, "bad case line %d\n", idx)
			os.Exit(2)
		}
		fn, tag, kf, S, M, args := p[0], p[1], p[2], p[3], p[4], p[5:]
		fun, ok := registry[fn]
		if !ok {
			unknown[fn] = true
			continue
		}
		if prog != nil {
			prog.WriteAt([]byte(fmt.Sprintf("%-12d", idx)), 0)
		}
		if nf, ok := normalizers[fn]; ok {
			if S != "-" {
				S = nf(S)
			}
			M = nf(M)
		}
		runtime.ReadMemStats(&ms)
		a0 := ms.TotalAlloc
		t0 := time.Now()
		I := runCase(fun, args)
		el := time.Since(t0).Milliseconds()
		runtime.ReadMemStats(&ms)
		if d := ms.TotalAlloc - a0; d > sum.MaxAllocBytes {
			sum.MaxAllocBytes = d
		}
		if el > sum.MaxCaseMillis {
			sum.MaxCaseMillis = el
		}
		sum.Evaluations++
		sum.PerTag[fn+"/"+tag]++
		sum.PerFn[fn]++
		if I == "panic" {
			sum.Panics++
		}
		if I == "timeout" {
			sum.Timeouts++
		}
		if !trivialTags[tag] {
			h := sha256.Sum256([]byte(fn + "\x00" + strings.Join(args, "\x00")))
			if !seen[h] {
				seen[h] = true
				sum.DistinctNontrivial++
			}
		}
		eqS := S == "-" || I == S || actAltEqual(S, I)
		eqM := I == M || actAltEqual(M, I)
		if S != "-" {
			sum.WithSpec++
		}
		rec := mismatch{Index: idx, Fn: fn, Tag: tag, KF: kf, S: S, M: M, I: I, EqS: eqS, EqM: eqM, Args: args}
		if len(sum.Samples) < 4 && (idx%7 == 0) {
			r2 := rec
			r2.Args = trunc(args)
			if len(r2.S) > 400 {
				r2.S = r2.S[:400] + "..."
			}
			if len(r2.M) > 400 {
				r2.M = r2.M[:400] + "..."
			}
			if len(r2.I) > 400 {
				r2.I = r2.I[:400] + "..."
			}
			sum.Samples = append(sum.Samples, r2)
		}
		if eqS && eqM {
			continue
		}
		if !eqS && eqM && kf != "-" && listed[kf] {
			// the implementation still gives exactly the listed (model-predicted) wrong answer
			sum.KFSeen[kf]++
			continue
		}
		sum.MismatchCount++
		if len(sum.Mismatches) < maxMis {
			sum.Mismatches = append(sum.Mismatches, rec)
		}
	}
	if err := sc.Err(); err != nil {
		fmt.Fprintln(os.Stderr, "scan:", err)
		os.Exit(2)
	}
	for k := range unknown {
		sum.UnknownFns = append(sum.UnknownFns, k)
	}
	out, _ := json.MarshalIndent(sum, "", " ")
	if err := os.WriteFile(os.Args[2], out, 0o644); err != nil {
		fmt.Fprintln(os.Stderr, err)
		os.Exit(2)
	}
}
