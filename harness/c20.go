package main

import (
	"fmt"
	"strconv"
	"strings"

	"github.com/Chocapikk/pgread/pgdump"
)

func relmapErr(err error) string {
	m := err.Error()
	switch {
	case strings.HasPrefix(m, "relmap file too small"):
		return "err:too_small"
	case strings.HasPrefix(m, "invalid relmap magic"):
		return "err:bad_magic"
	case strings.HasPrefix(m, "invalid number of mappings"):
		return "err:bad_count"
	}
	return "err:other"
}

func init() {
	register("ParseRelMapFile", func(a []string) string {
		return withBuf(a[0], a[1], func(b []byte) string {
			rm, err := pgdump.ParseRelMapFile(b)
			if err != nil {
				return relmapErr(err)
			}
			maps := make([]string, len(rm.Mappings))
			for i, m := range rm.Mappings {
				maps[i] = fmt.Sprintf("%d:%d", m.OID, m.Filenode)
			}
			return cRec(kv{"magic", fmt.Sprint(rm.Magic)}, kv{"num", fmt.Sprint(rm.NumMappings)},
				kv{"maps", cList(maps)}, kv{"crc", fmt.Sprint(rm.CRC)})
		})
	})
	register("RelMapLookup", func(a []string) string {
		return withBuf(a[0], "-", func(b []byte) string {
			rm, err := pgdump.ParseRelMapFile(b)
			if err != nil {
				return relmapErr(err)
			}
			key, _ := strconv.ParseUint(a[1], 10, 32)
			return fmt.Sprintf("%d,%d", rm.GetFilenode(uint32(key)), rm.GetOID(uint32(key)))
		})
	})
}
