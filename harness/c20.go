package main

import (
	"encoding/binary"
	"fmt"
	"os"
	"path/filepath"
	"sort"
	"strconv"
	"strings"

	"github.com/Chocapikk/pgread/pgdump"
)

// ---------------------------------------------------------------- relmap

func relmapErr(err error) string {
	m := err.Error()
	switch {
	case strings.HasPrefix(m, "relmap file too small"):
		return "err:too_small"
	case strings.HasPrefix(m, "invalid relmap magic"):
		return "err:bad_magic"
	case strings.HasPrefix(m, "invalid number of mappings"):
		return "err:bad_count"
	case strings.HasPrefix(m, "cannot read"):
		return "err:read"
	}
	return "err:other"
}

func rmFields(rm *pgdump.RelMapFile) []kv {
	maps := make([]string, len(rm.Mappings))
	for i, m := range rm.Mappings {
		maps[i] = fmt.Sprintf("%d:%d", m.OID, m.Filenode)
	}
	return []kv{{"magic", fmt.Sprint(rm.Magic)}, {"num", fmt.Sprint(rm.NumMappings)},
		{"maps", cList(maps)}, {"crc", fmt.Sprint(rm.CRC)}}
}

// rmFile renders a RelMapFile returned by the Read* functions; the path is made relative to dir.
func rmFile(rm *pgdump.RelMapFile, dir string) string {
	p := "other:" + rm.Path
	if rel, err := filepath.Rel(dir, rm.Path); err == nil {
		parts := strings.Split(filepath.ToSlash(rel), "/")
		switch {
		case len(parts) == 2 && parts[0] == "global" && parts[1] == "pg_filenode.map":
			p = "global"
		case len(parts) == 3 && parts[0] == "base" && parts[2] == "pg_filenode.map":
			p = "db:" + parts[1]
		}
	}
	return cRec(append(rmFields(rm), kv{"isglobal", cBool(rm.IsGlobal)}, kv{"path", p})...)
}

// ---------------------------------------------------------------- scratch clusters

var c20dirSeq int

func c20dir() string {
	c20dirSeq++
	d := filepath.Join(os.Getenv("VERIF_TMP"), fmt.Sprintf("c20-%d", c20dirSeq))
	os.RemoveAll(d)
	if err := os.MkdirAll(filepath.Join(d, "global"), 0o755); err != nil {
		panic("harness: " + err.Error())
	}
	return d
}

func mustWrite(path string, data []byte) {
	if err := os.MkdirAll(filepath.Dir(path), 0o755); err != nil {
		panic("harness: " + err.Error())
	}
	if err := os.WriteFile(path, data, 0o644); err != nil {
		panic("harness: " + err.Error())
	}
}

// heapFile lays rows (attribute data, natts columns, no NULLs) out as PostgreSQL heap pages:
// 24-byte page header, line pointers growing up, MAXALIGNed tuples growing down, 24-byte tuple
// headers with HEAP_XMIN_COMMITTED|HEAP_XMAX_INVALID.  Test scaffolding for the catalog files the
// listing functions read through ParsePGDatabase / ParsePGClass (those parsers belong to C01/C02).
func heapFile(rows [][]byte, natts int) []byte {
	var out []byte
	newPage := func() []byte {
		p := make([]byte, 8192)
		binary.LittleEndian.PutUint16(p[12:], 24)
		binary.LittleEndian.PutUint16(p[14:], 8192)
		binary.LittleEndian.PutUint16(p[16:], 8192)
		binary.LittleEndian.PutUint16(p[18:], 8192|4)
		return p
	}
	var page []byte
	flush := func() {
		if page != nil {
			out = append(out, page...)
			page = nil
		}
	}
	for _, data := range rows {
		tl := 24 + len(data)
		al := (tl + 7) &^ 7
		if page != nil {
			lower := int(binary.LittleEndian.Uint16(page[12:]))
			upper := int(binary.LittleEndian.Uint16(page[14:]))
			if upper-al < lower+4 {
				flush()
			}
		}
		if page == nil {
			page = newPage()
		}
		lower := int(binary.LittleEndian.Uint16(page[12:]))
		upper := int(binary.LittleEndian.Uint16(page[14:])) - al
		t := page[upper : upper+tl]
		binary.LittleEndian.PutUint32(t[0:], 700) // xmin
		binary.LittleEndian.PutUint16(t[18:], uint16(natts))
		binary.LittleEndian.PutUint16(t[20:], 0x0900)
		t[22] = 24
		copy(t[24:], data)
		binary.LittleEndian.PutUint32(page[lower:], uint32(upper)|1<<15|uint32(tl)<<17)
		binary.LittleEndian.PutUint16(page[12:], uint16(lower+4))
		binary.LittleEndian.PutUint16(page[14:], uint16(upper))
	}
	flush()
	return out
}

func nameData(s string) []byte {
	b := make([]byte, 64)
	copy(b, s)
	return b
}

// "oid:hexname,…" -> pg_database heap file (oid, datname, then the columns the tool does not read)
func pgDatabaseFile(arg string) []byte {
	var rows [][]byte
	if arg != "-" && arg != "" {
		for _, e := range strings.Split(arg, ",") {
			p := strings.SplitN(e, ":", 2)
			oid, _ := strconv.ParseUint(p[0], 10, 32)
			row := make([]byte, 4, 4+64+24)
			binary.LittleEndian.PutUint32(row, uint32(oid))
			row = append(row, nameData(string(unhex(p[1])))...)
			row = append(row, 10, 0, 0, 0, 6, 0, 0, 0, 'c', 0, 1, 0xff, 0xff, 0xff, 0xff, 0, 0xd6, 2, 0, 0, 1, 0, 0, 0)
			rows = append(rows, row)
		}
	}
	return heapFile(rows, 14)
}

// "oid:filenode:hexname:hexkind,…" -> pg_class heap file (the 17 leading columns of schemaPGClass)
func pgClassFile(arg string) []byte {
	var rows [][]byte
	if arg != "" {
		for _, e := range strings.Split(arg, ",") {
			p := strings.Split(e, ":")
			oid, _ := strconv.ParseUint(p[0], 10, 32)
			fn, _ := strconv.ParseUint(p[1], 10, 32)
			row := make([]byte, 116)
			binary.LittleEndian.PutUint32(row[0:], uint32(oid))
			copy(row[4:68], nameData(string(unhex(p[2]))))
			binary.LittleEndian.PutUint32(row[68:], 2200)  // relnamespace
			binary.LittleEndian.PutUint32(row[80:], 10)    // relowner
			binary.LittleEndian.PutUint32(row[88:], uint32(fn))
			binary.LittleEndian.PutUint32(row[96:], 1)     // relpages
			binary.LittleEndian.PutUint32(row[100:], 0x3f800000)
			row[114] = 'p'
			k := unhex(p[3])
			if len(k) > 0 {
				row[115] = k[0]
			}
			rows = append(rows, row)
		}
	}
	return heapFile(rows, 33)
}

// buildSeqCluster materialises global/1262, base/<db>/1259 and the relation files.
func buildSeqCluster(dbs, classes, files string) string {
	d := c20dir()
	if dbs != "!" {
		mustWrite(filepath.Join(d, "global", "1262"), pgDatabaseFile(dbs))
	}
	if classes != "-" && classes != "" {
		for _, e := range strings.Split(classes, ";") {
			p := strings.SplitN(e, "=", 2)
			mustWrite(filepath.Join(d, "base", p[0], "1259"), pgClassFile(p[1]))
		}
	}
	if files != "-" && files != "" {
		for _, e := range strings.Split(files, ";") {
			p := strings.SplitN(e, "=", 2)
			mustWrite(filepath.Join(d, "base", filepath.FromSlash(p[0])), unhex(p[1]))
		}
	}
	return d
}

// ---------------------------------------------------------------- sequences

func seqErr(err error) string {
	m := err.Error()
	switch {
	case strings.HasPrefix(m, "sequence file too small"):
		return "err:file_small"
	case strings.HasPrefix(m, "invalid special pointer"):
		return "err:bad_special"
	case strings.HasPrefix(m, "not a sequence file"):
		return "err:not_sequence"
	case strings.HasPrefix(m, "no items on page"):
		return "err:no_items"
	case strings.HasPrefix(m, "invalid item pointer"):
		return "err:bad_item"
	case strings.HasPrefix(m, "tuple too small"):
		return "err:tuple_small"
	case strings.HasPrefix(m, "sequence data too short for modern format"):
		return "err:modern_short"
	case strings.HasPrefix(m, "sequence data too short"):
		return "err:data_short"
	case strings.HasPrefix(m, "database "):
		return "err:not_found"
	}
	if os.IsNotExist(err) {
		return "err:read"
	}
	return "err:other"
}

func seqObs(s *pgdump.SequenceData) string {
	return cRec(kv{"last", fmt.Sprint(s.LastValue)}, kv{"called", cBool(s.IsCalled)})
}

func seqFull(s *pgdump.SequenceData) string {
	return cRec(kv{"last", fmt.Sprint(s.LastValue)}, kv{"start", fmt.Sprint(s.StartValue)},
		kv{"inc", fmt.Sprint(s.IncrementBy)}, kv{"max", fmt.Sprint(s.MaxValue)}, kv{"min", fmt.Sprint(s.MinValue)},
		kv{"cache", fmt.Sprint(s.CacheValue)}, kv{"cycled", cBool(s.IsCycled)}, kv{"called", cBool(s.IsCalled)})
}

func seqLines(l []pgdump.SequenceData) string {
	parts := make([]string, len(l))
	for i, s := range l {
		parts[i] = cRec(kv{"name", cStr(s.Name)}, kv{"oid", fmt.Sprint(s.OID)}, kv{"fn", fmt.Sprint(s.Filenode)},
			kv{"last", fmt.Sprint(s.LastValue)}, kv{"called", cBool(s.IsCalled)})
	}
	return cList(parts)
}

func init() {
	register("ParseRelMapFile", func(a []string) string {
		return withBuf(a[0], a[1], func(b []byte) string {
			rm, err := pgdump.ParseRelMapFile(b)
			if err != nil {
				return relmapErr(err)
			}
			return cRec(rmFields(rm)...)
		})
	})
	register("RelMapLookup", func(a []string) string {
		return withBuf(a[0], "-", func(b []byte) string {
			rm, err := pgdump.ParseRelMapFile(b)
			if err != nil {
				return relmapErr(err)
			}
			key, _ := strconv.ParseUint(a[1], 10, 32)
			return fmt.Sprintf("%d,%d", rm.GetFilenode(uint32(key)), rm.GetOID(uint32(key)))
		})
	})
	register("GetEnhancedMappings", func(a []string) string {
		return withBuf(a[0], "-", func(b []byte) string {
			rm, err := pgdump.ParseRelMapFile(b)
			if err != nil {
				return relmapErr(err)
			}
			en := rm.GetEnhancedMappings()
			parts := make([]string, len(en))
			for i, e := range en {
				parts[i] = fmt.Sprintf("%d:%d:%s", e.OID, e.Filenode, cStr(e.CatalogName))
			}
			return cList(parts)
		})
	})
	// a[0] global map file hex | "!" (absent); a[1] pg_database rows | "!" (no global/1262); a[2] "oid=hex;…"
	register("ReadAllRelMaps", func(a []string) string {
		d := c20dir()
		defer os.RemoveAll(d)
		if a[0] != "!" {
			mustWrite(filepath.Join(d, "global", "pg_filenode.map"), unhex(a[0]))
		}
		if a[1] != "!" {
			mustWrite(filepath.Join(d, "global", "1262"), pgDatabaseFile(a[1]))
		}
		if a[2] != "-" {
			for _, e := range strings.Split(a[2], ";") {
				p := strings.SplitN(e, "=", 2)
				mustWrite(filepath.Join(d, "base", p[0], "pg_filenode.map"), unhex(p[1]))
			}
		}
		info, err := pgdump.ReadAllRelMaps(d)
		if err != nil {
			return relmapErr(err)
		}
		dbs := make([]string, len(info.Databases))
		for i, m := range info.Databases {
			dbs[i] = rmFile(m, d)
		}
		// the single-file readers must agree with the aggregate
		if g, err := pgdump.ReadGlobalRelMap(d); err != nil || rmFile(g, d) != rmFile(info.Global, d) {
			return "inconsistent:ReadGlobalRelMap"
		}
		for _, m := range info.Databases {
			oid, _ := strconv.ParseUint(strings.TrimPrefix(filepath.Base(filepath.Dir(m.Path)), "db:"), 10, 32)
			if one, err := pgdump.ReadDatabaseRelMap(d, uint32(oid)); err != nil || rmFile(one, d) != rmFile(m, d) {
				return "inconsistent:ReadDatabaseRelMap"
			}
		}
		return cRec(kv{"global", rmFile(info.Global, d)}, kv{"dbs", cList(dbs)})
	})

	register("ParseSequenceFile", func(a []string) string {
		return withBuf(a[0], a[1], func(b []byte) string {
			s, err := pgdump.ParseSequenceFile(b)
			if err != nil {
				return seqErr(err)
			}
			return seqObs(s)
		})
	})
	register("ParseSequenceFileFull", func(a []string) string {
		return withBuf(a[0], a[1], func(b []byte) string {
			s, err := pgdump.ParseSequenceFile(b)
			if err != nil {
				return seqErr(err)
			}
			return seqFull(s)
		})
	})
	register("parseSequenceTuple", func(a []string) string {
		return withBuf(a[0], a[1], func(b []byte) string {
			s, err := pgdump.VerifParseSequenceTuple(b)
			if err != nil {
				return seqErr(err)
			}
			return seqFull(s)
		})
	})
	register("IsSequenceFile", func(a []string) string {
		return withBuf(a[0], a[1], func(b []byte) string { return cBool(pgdump.IsSequenceFile(b)) })
	})
	// a[0] pg_database rows | "!"; a[1] database name (hex); a[2] pg_class rows per database; a[3] files
	register("FindSequences", func(a []string) string {
		d := buildSeqCluster(a[0], a[2], a[3])
		defer os.RemoveAll(d)
		l, err := pgdump.FindSequences(d, string(unhex(a[1])))
		if err != nil {
			return seqErr(err)
		}
		// "a deterministic function of the input": a second call must give the same listing
		if l2, err2 := pgdump.FindSequences(d, string(unhex(a[1]))); err2 != nil || seqLines(l2) != seqLines(l) {
			return "unstable:" + seqLines(l) + "|" + seqLines(l2)
		}
		return seqLines(l)
	})
	register("ScanAllSequences", func(a []string) string {
		d := buildSeqCluster(a[0], a[1], a[2])
		defer os.RemoveAll(d)
		m, err := pgdump.ScanAllSequences(d)
		if err != nil {
			return seqErr(err)
		}
		keys := make([]string, 0, len(m))
		for k := range m {
			keys = append(keys, k)
		}
		sort.Strings(keys)
		parts := make([]string, len(keys))
		for i, k := range keys {
			parts[i] = fmt.Sprintf("%x:%s", k, seqLines(m[k]))
		}
		return "m{" + strings.Join(parts, ",") + "}"
	})
}
