package main

import (
	"fmt"
	"regexp"
	"sort"
	"strconv"
	"strings"

	"github.com/Chocapikk/pgread/pgdump"
)

// elemToken matches the placeholder the Coq model prints for one decoded element: the element type
// and exactly the bytes that were handed to the element decoder ("-" = no bytes).
var elemToken = regexp.MustCompile(`elem:(\d+):([0-9a-f]+|-)`)

// c07Norm replaces every placeholder by the canonical result of the real element decoder
// (pgdump.DecodeType, verified by C04) on those bytes.  If the element decoder panics on one of
// them, so does the array decoder that calls it: the whole expectation becomes "panic".
func c07Norm(expected string) (out string) {
	defer func() {
		if r := recover(); r != nil {
			out = "panic"
		}
	}()
	return elemToken.ReplaceAllStringFunc(expected, func(t string) string {
		m := elemToken.FindStringSubmatch(t)
		oid, _ := strconv.Atoi(m[1])
		return canon(pgdump.DecodeType(unhex(m[2]), oid))
	})
}

func c07Tables() string {
	dump := func(m map[int]int) string {
		keys := make([]int, 0, len(m))
		for k := range m {
			keys = append(keys, k)
		}
		sort.Ints(keys)
		parts := make([]string, len(keys))
		for i, k := range keys {
			parts[i] = fmt.Sprintf("%d:%d", k, m[k])
		}
		return strings.Join(parts, ",")
	}
	return "arr{" + dump(pgdump.VerifArrayElemTypes) + "}fixed{" + dump(pgdump.VerifFixedLengths) +
		"}align{" + dump(pgdump.VerifElemAligns) + "}"
}

func init() {
	register("DecodeTypeArr", func(a []string) string {
		oid, _ := strconv.Atoi(a[2])
		return withBuf(a[0], a[1], func(b []byte) string {
			if _, isArr := pgdump.VerifArrayElemTypes[oid]; !isArr && len(b) > 0 {
				// not an array type: DecodeType hands the value to decodeScalar (C04)
				return "scalar"
			}
			return canon(pgdump.DecodeType(b, oid))
		})
	})
	registerNorm("DecodeTypeArr", c07Norm)
	// decode A, decode B, and only then render A's result
	register("DecodeTypeArrPair", func(a []string) string {
		oidA, _ := strconv.Atoi(a[1])
		oidB, _ := strconv.Atoi(a[3])
		ra := pgdump.DecodeType(unhex(a[0]), oidA)
		rb := pgdump.DecodeType(unhex(a[2]), oidB)
		return canon(ra) + ";" + canon(rb)
	})
	registerNorm("DecodeTypeArrPair", c07Norm)

	register("decodeArray", func(a []string) string {
		eoid, _ := strconv.Atoi(a[2])
		return withBuf(a[0], a[1], func(b []byte) string {
			return canon(pgdump.VerifDecodeArray(b, eoid))
		})
	})
	registerNorm("decodeArray", c07Norm)

	register("parseArrayElements", func(a []string) string {
		off, _ := strconv.Atoi(a[2])
		count, _ := strconv.Atoi(a[3])
		eoid, _ := strconv.Atoi(a[4])
		elen, _ := strconv.Atoi(a[5])
		fixed := a[6] == "1"
		var nulls []byte
		if a[7] != "nil" {
			nulls = unhex(a[7])
		}
		return withBuf(a[0], a[1], func(b []byte) string {
			return canon(pgdump.VerifParseArrayElements(b, off, count, eoid, elen, fixed, nulls))
		})
	})
	registerNorm("parseArrayElements", c07Norm)

	register("ArrayTables", func(a []string) string { return c07Tables() })
}
