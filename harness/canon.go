package main

import (
	"encoding/hex"
	"fmt"
	"math"
	"sort"
	"strings"
)

// ---- argument decoding ----

func unhex(s string) []byte {
	if s == "-" || s == "" {
		return []byte{}
	}
	b, err := hex.DecodeString(s)
	if err != nil {
		panic("harness: bad hex argument")
	}
	return b
}

// withBuf builds one buffer vis++tail, hands f the slice buf[:len(vis)] (len < cap when tail is
// non-empty, as for sub-slices of a page or file in the real program) and checks afterwards that
// no byte of the buffer changed.
func withBuf(visHex, tailHex string, f func(b []byte) string) string {
	v, t := unhex(visHex), unhex(tailHex)
	buf := make([]byte, 0, len(v)+len(t))
	buf = append(buf, v...)
	buf = append(buf, t...)
	snap := append([]byte(nil), buf...)
	mark, markR := len(heldVals), len(heldRenders)
	r := f(buf[:len(v):len(v)+len(t)])
	for i := range snap {
		if snap[i] != buf[i] {
			return "MUTATED-INPUT:" + r
		}
	}
	// the caller reuses its buffer: what was handed out must not change with it
	if len(heldVals) > mark || len(heldRenders) > markR {
		for i := range buf {
			buf[i] = ^buf[i]
		}
		bad := false
		for _, h := range heldVals[mark:] {
			if canonRaw(h.v) != h.s {
				bad = true
			}
		}
		for _, h := range heldRenders[markR:] {
			if h.f() != h.s {
				bad = true
			}
		}
		copy(buf, snap)
		if bad {
			return "ALIASES-INPUT:" + r
		}
	}
	return r
}

// ---- canonical rendering (must agree with driver/common/util.ml) ----

func cList(xs []string) string { return "[" + strings.Join(xs, ",") + "]" }

type kv struct{ k, v string }

func cRec(fs ...kv) string {
	parts := make([]string, len(fs))
	for i, f := range fs {
		parts[i] = f.k + "=" + f.v
	}
	return "{" + strings.Join(parts, ",") + "}"
}
func cBool(b bool) string   { return fmt.Sprintf("%t", b) }
func cStr(s string) string  { return "s:" + hex.EncodeToString([]byte(s)) }
func cBytes(b []byte) string { return "y:" + hex.EncodeToString(b) }

// canon renders a dynamically typed pgread value.  Every value rendered at top level during a case is also HELD with its
// rendering (heldVals): withBuf re-renders the held values after overwriting the input buffer (a result that still points
// into the caller's buffer changes: seeded changes C06-16, C07-16), and the case runner re-renders the values of the
// previous case after the current one ran and then scribbles over them the way a caller may (main.go).
type heldVal struct {
	v interface{}
	s string
}

var heldVals []heldVal
var canonDepth int

// holdOff: set by harness functions that hold and scribble results themselves (C11's repetition harness)
var holdOff bool

func canon(v interface{}) string {
	s := canonRaw(v)
	if !holdOff {
		heldVals = append(heldVals, heldVal{v, s})
	}
	return s
}

// held is the same for results with a renderer of their own: the closure is kept with what it returned and called again
// after the input buffer was overwritten (withBuf) and after the next case ran (case runner).  No scribbling for these.
type heldRender struct {
	f func() string
	s string
}

var heldRenders, prevRenders []heldRender

func held(render func() string) string {
	s := render()
	if !holdOff {
		heldRenders = append(heldRenders, heldRender{render, s})
	}
	return s
}

func canonRaw(v interface{}) string {
	switch x := v.(type) {
	case nil:
		return "nil"
	case bool:
		return "b:" + cBool(x)
	case int16:
		return fmt.Sprintf("i16:%d", x)
	case int32:
		return fmt.Sprintf("i32:%d", x)
	case int64:
		return fmt.Sprintf("i64:%d", x)
	case int:
		return fmt.Sprintf("int:%d", x)
	case uint16:
		return fmt.Sprintf("u16:%d", x)
	case uint32:
		return fmt.Sprintf("u32:%d", x)
	case uint64:
		return fmt.Sprintf("u64:%d", x)
	case uint8:
		return fmt.Sprintf("u8:%d", x)
	case float32:
		return fmt.Sprintf("f32:%08x", math.Float32bits(x))
	case float64:
		return fmt.Sprintf("f64:%016x", math.Float64bits(x))
	case string:
		return cStr(x)
	case []byte:
		return cBytes(x)
	case []interface{}:
		if x == nil {
			return "lnil"
		}
		parts := make([]string, len(x))
		for i, e := range x {
			parts[i] = canonRaw(e)
		}
		return "l" + cList(parts)
	case map[string]interface{}:
		if x == nil {
			return "mnil"
		}
		keys := make([]string, 0, len(x))
		for k := range x {
			keys = append(keys, k)
		}
		sort.Strings(keys)
		parts := make([]string, len(keys))
		for i, k := range keys {
			parts[i] = hex.EncodeToString([]byte(k)) + ":" + canonRaw(x[k])
		}
		return "m{" + strings.Join(parts, ",") + "}"
	default:
		return fmt.Sprintf("other:%T:%v", v, v)
	}
}
