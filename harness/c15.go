package main

// C15 — search and secret scan.  Go side of driver/C15/gen.ml: the real pgdump functions run on the
// same dumps / patterns / strings; Go's regexp, fmt %v and (for ScanDumpReal) the trufflehog detectors
// are the oracles the Coq model abstracts as Section variables.

import (
	"context"
	"encoding/hex"
	"errors"
	"fmt"
	"math"
	"os"
	"path/filepath"
	"regexp"
	"sort"
	"strconv"
	"strings"
	"sync"

	"github.com/Chocapikk/pgread/pgdump"
	"github.com/trufflesecurity/trufflehog/v3/pkg/detectors"
	"github.com/trufflesecurity/trufflehog/v3/pkg/pb/detectorspb"
)

// ---------------------------------------------------------------- parsing the driver's encodings

type c15p struct {
	s string
	i int
}

func (p *c15p) peek() byte {
	if p.i < len(p.s) {
		return p.s[p.i]
	}
	return 0
}
func (p *c15p) expect(t string) {
	if !strings.HasPrefix(p.s[p.i:], t) {
		panic("harness: c15 parse error, expected " + t + " at " + strconv.Itoa(p.i))
	}
	p.i += len(t)
}
func (p *c15p) try(t string) bool {
	if strings.HasPrefix(p.s[p.i:], t) {
		p.i += len(t)
		return true
	}
	return false
}
func (p *c15p) atom() string { // up to one of , ] } ) space
	j := p.i
	for j < len(p.s) && !strings.ContainsRune(",]}) ", rune(p.s[j])) {
		j++
	}
	a := p.s[p.i:j]
	p.i = j
	return a
}
func (p *c15p) hexUntil(stop byte) string {
	j := p.i
	for j < len(p.s) && p.s[j] != stop {
		j++
	}
	b, err := hex.DecodeString(p.s[p.i:j])
	if err != nil {
		panic("harness: c15 bad hex")
	}
	p.i = j
	return string(b)
}
func c15int(a string, bits int) int64 {
	v, err := strconv.ParseInt(a, 10, bits)
	if err != nil {
		panic("harness: c15 bad int " + a)
	}
	return v
}
func c15uint(a string, bits int) uint64 {
	v, err := strconv.ParseUint(a, 10, bits)
	if err != nil {
		panic("harness: c15 bad uint " + a)
	}
	return v
}

// value parses the canonical rendering of a dynamically typed value (driver/common/value.ml c_gval).
func (p *c15p) value() interface{} {
	switch {
	case p.try("nil"):
		return nil
	case p.try("lnil"):
		return []interface{}(nil)
	case p.try("l["):
		out := []interface{}{}
		if p.try("]") {
			return out
		}
		for {
			out = append(out, p.value())
			if p.try("]") {
				return out
			}
			p.expect(",")
		}
	case p.try("m{"):
		return p.mapBody()
	case p.try("b:"):
		return p.atom() == "true"
	case p.try("i16:"):
		return int16(c15int(p.atom(), 16))
	case p.try("i32:"):
		return int32(c15int(p.atom(), 32))
	case p.try("i64:"):
		return c15int(p.atom(), 64)
	case p.try("int:"):
		return int(c15int(p.atom(), 64))
	case p.try("u16:"):
		return uint16(c15uint(p.atom(), 16))
	case p.try("u32:"):
		return uint32(c15uint(p.atom(), 32))
	case p.try("u64:"):
		return c15uint(p.atom(), 64)
	case p.try("f32:"):
		v, _ := strconv.ParseUint(p.atom(), 16, 32)
		return math.Float32frombits(uint32(v))
	case p.try("f64:"):
		v, _ := strconv.ParseUint(p.atom(), 16, 64)
		return math.Float64frombits(v)
	case p.try("s:"):
		b, _ := hex.DecodeString(p.atom())
		return string(b)
	case p.try("y:"):
		b, _ := hex.DecodeString(p.atom())
		return b
	}
	panic("harness: c15 bad value at " + strconv.Itoa(p.i))
}
func (p *c15p) mapBody() map[string]interface{} {
	m := map[string]interface{}{}
	if p.try("}") {
		return m
	}
	for {
		k := p.hexUntil(':')
		p.expect(":")
		m[k] = p.value()
		if p.try("}") {
			return m
		}
		p.expect(",")
	}
}
func (p *c15p) name() string { p.expect("h"); b, _ := hex.DecodeString(p.atom()); return string(b) }
var c15types = []int{0, 25, 19, 23, 1043, 16, 3802, 18, 20, 114, 1009, 2950, 17, 700, 1082}

func (p *c15p) sp()          { for p.peek() == ' ' { p.i++ } }

// table := "(" hname " (" hcol* ") (" row* "))"
func (p *c15p) table() pgdump.TableDump {
	p.expect("(")
	t := pgdump.TableDump{Name: p.name()}
	p.sp()
	p.expect("(")
	for p.sp(); p.peek() != ')'; p.sp() {
		// the declared type of a column is not part of the case encoding: search and scan look at values only, so each
		// column gets some type, chosen by its position and name (seeded change C15-18: the scan skipped columns by declared type)
		n := p.name()
		ty := c15types[(len(t.Columns)*7+len(n)*3+len(t.Name))%len(c15types)]
		t.Columns = append(t.Columns, pgdump.ColumnInfo{Name: n, TypID: ty, Type: pgdump.TypeName(ty)})
	}
	p.expect(")")
	p.sp()
	p.expect("(")
	for p.sp(); p.peek() != ')'; p.sp() {
		p.expect("m{")
		t.Rows = append(t.Rows, p.mapBody())
	}
	p.expect(")")
	p.expect(")")
	t.RowCount = len(t.Rows)
	return t
}
func c15dump(s string) *pgdump.DumpResult {
	if s == "nil" {
		return nil
	}
	p := &c15p{s: s}
	res := &pgdump.DumpResult{}
	p.expect("(")
	for p.sp(); p.peek() != ')'; p.sp() {
		p.expect("(")
		db := pgdump.DatabaseDump{Name: p.name()}
		for p.sp(); p.peek() != ')'; p.sp() {
			db.Tables = append(db.Tables, p.table())
		}
		p.expect(")")
		res.Databases = append(res.Databases, db)
	}
	p.expect(")")
	return res
}
func c15names(s string) []string { // "[h..,h..]"
	p := &c15p{s: s}
	p.expect("[")
	var out []string
	if p.try("]") {
		return out
	}
	for {
		out = append(out, p.name())
		if p.try("]") {
			return out
		}
		p.expect(",")
	}
}
func c15opts(a []string) *pgdump.SearchOptions {
	if a[0] == "nil" {
		return nil
	}
	mx, _ := strconv.Atoi(a[3])
	return &pgdump.SearchOptions{Pattern: string(unhex(a[0])), CaseSensitive: a[1] == "1", IncludeRow: a[2] == "1", MaxResults: mx}
}

// ---------------------------------------------------------------- rendering

func c15search(ms []pgdump.SearchResult, err error) string {
	if err != nil {
		m := err.Error()
		switch {
		case strings.HasPrefix(m, "search options required"):
			return "err:no_options"
		case strings.HasPrefix(m, "invalid pattern"):
			return "err:invalid_pattern"
		}
		return "err:dump"
	}
	parts := make([]string, len(ms))
	for i, h := range ms {
		incl := "none"
		if h.Row != nil {
			incl = canon(h.Row)
		}
		parts[i] = cRec(kv{"db", cStr(h.Database)}, kv{"table", cStr(h.Table)}, kv{"col", cStr(h.Column)},
			kv{"row", strconv.Itoa(h.RowNum)}, kv{"value", canon(h.Value)}, kv{"incl", incl})
	}
	return cList(parts)
}
func c15findings(fs []pgdump.SecretFinding) string {
	parts := make([]string, len(fs))
	for i, f := range fs {
		parts[i] = cRec(kv{"db", cStr(f.Database)}, kv{"table", cStr(f.Table)}, kv{"col", cStr(f.Column)},
			kv{"row", strconv.Itoa(f.RowIndex)}, kv{"det", f.DetectorName}, kv{"raw", cStr(f.Raw)})
	}
	return cList(parts)
}

// ---------------------------------------------------------------- fake detectors (= driver/C15/rx.ml fake_specs)

type c15fake struct {
	typ    detectorspb.DetectorType
	kws    []string
	prefix string
	nhex   int
	fail   string
}

func (d c15fake) Keywords() []string                 { return d.kws }
func (d c15fake) Type() detectorspb.DetectorType     { return d.typ }
func (d c15fake) Description() string                { return "verification stub" }
func (d c15fake) FromData(_ context.Context, _ bool, data []byte) ([]detectors.Result, error) {
	s := string(data)
	if d.fail != "" && strings.Contains(s, d.fail) {
		return nil, errors.New("stub failure")
	}
	var out []detectors.Result
	for i := 0; i+len(d.prefix)+d.nhex <= len(s); i++ {
		if !strings.HasPrefix(s[i:], d.prefix) {
			continue
		}
		ok := true
		for j := 0; j < d.nhex; j++ {
			c := s[i+len(d.prefix)+j]
			if !((c >= '0' && c <= '9') || (c >= 'a' && c <= 'f')) {
				ok = false
			}
		}
		if ok {
			out = append(out, detectors.Result{DetectorType: d.typ, Raw: []byte(s[i : i+len(d.prefix)+d.nhex])})
		}
	}
	return out, nil
}

var c15fakes = []c15fake{
	{detectorspb.DetectorType_Stripe, []string{"sk_live"}, "sk_live_", 8, ""},
	{detectorspb.DetectorType_AWS, []string{"AKIA", "aws"}, "AKIA", 8, ""},
	{detectorspb.DetectorType_Github, nil, "tok-", 8, ""},
	{detectorspb.DetectorType_Gitlab, []string{"gl-", "GITLAB"}, "gl-", 8, "boom"},
	{detectorspb.DetectorType_Slack, []string{"errkw"}, "errkw", 0, "errkw"},
	{detectorspb.DetectorType_Twilio, nil, "t-", 5, ""},
	{detectorspb.DetectorType_Square, []string{"SK_TEST"}, "sk_test_", 8, ""},
	{detectorspb.DetectorType_Mailgun, []string{"needkw"}, "mg-", 8, ""},
	{detectorspb.DetectorType_Heroku, []string{"hk1", "HK2"}, "hr-", 6, ""},
}

func c15scanner(arg string) *pgdump.SecretScanner {
	var ds []detectors.Detector
	if arg != "-" {
		for _, x := range strings.Split(arg, ",") {
			i, _ := strconv.Atoi(x)
			ds = append(ds, c15fakes[i])
		}
	}
	return pgdump.VerifNewSecretScannerWith(ds)
}

var (
	c15realOnce sync.Once
	c15real     *pgdump.SecretScanner
)

func init() {
	register("SearchInDump", func(a []string) string {
		return c15search(pgdump.SearchInDump(c15dump(a[0]), c15opts(a[1:])))
	})
	// Search on a directory without pg_database ("missing") or with an empty one ("empty")
	register("Search", func(a []string) string {
		dir := filepath.Join(os.Getenv("VERIF_TMP"), "c15-"+a[0])
		if a[0] == "empty" {
			os.MkdirAll(filepath.Join(dir, "global"), 0o755)
			os.WriteFile(filepath.Join(dir, "global", "1262"), nil, 0o644)
			defer os.RemoveAll(dir)
		}
		return c15search(pgdump.Search(dir, c15opts(a[1:])))
	})
	register("matchValue", func(a []string) string {
		re := regexp.MustCompile(string(unhex(a[0])))
		p := &c15p{s: a[1]}
		return cBool(pgdump.VerifMatchValue(p.value(), re))
	})
	register("matchMap", func(a []string) string {
		re := regexp.MustCompile(string(unhex(a[0])))
		p := &c15p{s: a[1]}
		return cBool(pgdump.VerifMatchMap(p.value().(map[string]interface{}), re))
	})
	register("rowKeys", func(a []string) string {
		var cols []pgdump.ColumnInfo
		for _, n := range c15names(a[0]) {
			cols = append(cols, pgdump.ColumnInfo{Name: n})
		}
		p := &c15p{s: a[1]}
		keys := pgdump.VerifRowKeys(cols, p.value().(map[string]interface{}))
		parts := make([]string, len(keys))
		for i, k := range keys {
			parts[i] = "h" + hex.EncodeToString([]byte(k))
		}
		return cList(parts)
	})
	register("containsIgnoreCase", func(a []string) string {
		return cBool(pgdump.VerifContainsIgnoreCase(string(unhex(a[0])), string(unhex(a[1]))))
	})
	register("bytesContains", func(a []string) string {
		return withBuf(a[0], a[1], func(s []byte) string {
			return withBuf(a[2], a[3], func(k []byte) string { return cBool(pgdump.VerifBytesContains(s, k)) })
		})
	})
	register("bytesEqual", func(a []string) string {
		return withBuf(a[0], a[1], func(s []byte) string {
			return withBuf(a[2], a[3], func(k []byte) string { return cBool(pgdump.VerifBytesEqual(s, k)) })
		})
	})
	register("ScanString", func(a []string) string {
		rs := c15scanner(a[0]).ScanString(string(unhex(a[1])))
		parts := make([]string, len(rs))
		for i, r := range rs {
			parts[i] = r.DetectorType.String() + ":" + hex.EncodeToString(r.Raw)
		}
		return cList(parts)
	})
	register("scanTable", func(a []string) string {
		p := &c15p{s: a[1]}
		dbn := p.name()
		p = &c15p{s: a[2]}
		t := p.table()
		return c15findings(pgdump.VerifScanTable(c15scanner(a[0]), dbn, &t))
	})
	register("ScanDumpResult", func(a []string) string {
		return c15findings(c15scanner(a[0]).ScanDumpResult(c15dump(a[1])))
	})
	// the real trufflehog detectors: which cells are reported (coordinates only)
	register("ScanDumpReal", func(a []string) string {
		c15realOnce.Do(func() { c15real = pgdump.NewSecretScanner() })
		seen := map[string]bool{}
		for _, f := range c15real.ScanDumpResult(c15dump(a[0])) {
			seen[fmt.Sprintf("%s/%s/%d/%s", f.Database, f.Table, f.RowIndex, f.Column)] = true
		}
		keys := make([]string, 0, len(seen))
		for k := range seen {
			keys = append(keys, k)
		}
		sort.Strings(keys)
		return cList(keys)
	})
}
