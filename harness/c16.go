package main

import (
	"fmt"
	"strconv"
	"strings"

	"github.com/Chocapikk/pgread/pgdump"
)

// c16Control renders every field of pgdump.ControlFile that property C16 observes (all but
// PGVersionMajor: inferPGVersion is not claimed), in the order of coq/C16/Types.v.
func c16Control(cf *pgdump.ControlFile) string {
	u := func(x uint32) string { return strconv.FormatUint(uint64(x), 10) }
	i := func(x int32) string { return strconv.FormatInt(int64(x), 10) }
	return cRec(
		kv{"ctlver", u(cf.PGControlVersion)}, kv{"catver", u(cf.CatalogVersionNo)},
		kv{"sysid", strconv.FormatUint(cf.SystemIdentifier, 10)},
		kv{"state", i(int32(cf.State))}, kv{"statestr", cStr(cf.StateString)},
		kv{"ckpt", cStr(cf.CheckpointLSN)}, kv{"redo", cStr(cf.RedoLSN)}, kv{"walfile", cStr(cf.RedoWALFile)},
		kv{"tli", u(cf.TimeLineID)}, kv{"prevtli", u(cf.PrevTimeLineID)}, kv{"fpw", cBool(cf.FullPageWrites)},
		kv{"epoch", u(cf.NextXIDEpoch)}, kv{"nextxid", u(cf.NextXID)}, kv{"nextoid", u(cf.NextOID)},
		kv{"nextmulti", u(cf.NextMulti)}, kv{"nextmoff", u(cf.NextMultiOffset)},
		kv{"oldestxid", u(cf.OldestXID)}, kv{"oldestxiddb", u(cf.OldestXIDDB)},
		kv{"oldestactive", u(cf.OldestActiveXID)}, kv{"oldestmulti", u(cf.OldestMulti)},
		kv{"oldestmultidb", u(cf.OldestMultiDB)}, kv{"oldestcts", u(cf.OldestCommitTsXID)},
		kv{"newestcts", u(cf.NewestCommitTsXID)},
		kv{"time", strconv.FormatInt(cf.CheckpointTime.Unix(), 10)},
		kv{"wallevel", cStr(cf.WALLevel)}, kv{"hints", cBool(cf.WALLogHints)},
		kv{"maxconn", i(cf.MaxConnections)}, kv{"maxwork", i(cf.MaxWorkerProcesses)},
		kv{"maxsend", i(cf.MaxWALSenders)}, kv{"maxprep", i(cf.MaxPreparedXacts)},
		kv{"maxlock", i(cf.MaxLocksPerXact)}, kv{"trackts", cBool(cf.TrackCommitTS)},
		kv{"maxalign", u(cf.MaxAlign)}, kv{"blcksz", u(cf.BlockSize)}, kv{"relseg", u(cf.BlocksPerSeg)},
		kv{"xlogblcksz", u(cf.WALBlockSize)}, kv{"xlogsegsz", u(cf.WALSegmentSize)},
		kv{"namelen", u(cf.NameDataLen)}, kv{"indexkeys", u(cf.IndexMaxKeys)},
		kv{"toastchunk", u(cf.TOASTMaxChunk)}, kv{"loblk", u(cf.LargeObjectChunk)},
		kv{"floatok", cBool(cf.FloatFormatOK)}, kv{"cksum", cBool(cf.DataChecksumsEnabled)},
		kv{"crc", u(cf.CRC)}, kv{"crcvalid", cBool(cf.CRCValid)})
}

func init() {
	register("ParseControlFile", func(a []string) string {
		return withBuf(a[0], a[1], func(b []byte) string {
			cf, err := pgdump.ParseControlFile(b)
			if err != nil {
				if strings.HasPrefix(err.Error(), "control file too small") {
					return "err:too_small"
				}
				return "err:other"
			}
			if cf == nil {
				return "nil"
			}
			return held(func() string { return c16Control(cf) })
		})
	})
	// a[0] is parsed first and its result held, then a[1]: the answer for a[1] must not depend on the earlier call, and
	// the held result must stay what it was
	register("ParseControlFileAfter", func(a []string) string {
		first, err0 := pgdump.ParseControlFile(unhex(a[0]))
		r0 := ""
		if err0 == nil && first != nil {
			r0 = c16Control(first)
		}
		out := withBuf(a[1], "", func(b []byte) string {
			cf, err := pgdump.ParseControlFile(b)
			if err != nil {
				if strings.HasPrefix(err.Error(), "control file too small") {
					return "err:too_small"
				}
				return "err:other"
			}
			if cf == nil {
				return "nil"
			}
			return c16Control(cf)
		})
		if err0 == nil && first != nil && c16Control(first) != r0 {
			return "SHARED-STATE:earlier result rewritten"
		}
		return out
	})
	register("formatLSN", func(a []string) string {
		lsn, _ := strconv.ParseUint(a[0], 10, 64)
		return cStr(pgdump.VerifFormatLSN(lsn))
	})
	register("formatWALFilename", func(a []string) string {
		lsn, _ := strconv.ParseUint(a[0], 10, 64)
		tli, _ := strconv.ParseUint(a[1], 10, 32)
		seg, _ := strconv.ParseUint(a[2], 10, 32)
		return cStr(pgdump.VerifFormatWALFilename(lsn, uint32(tli), uint32(seg)))
	})
	register("DBStateString", func(a []string) string {
		n, _ := strconv.ParseInt(a[0], 10, 32)
		return cStr(pgdump.DBState(int32(n)).String())
	})
	register("pgEpochToTime", func(a []string) string {
		n, _ := strconv.ParseInt(a[0], 10, 64)
		t := pgdump.VerifPgEpochToTime(n)
		// seconds since the Unix epoch and the zone (must be UTC)
		return fmt.Sprintf("%d,%s", t.Unix(), t.Location().String())
	})
	register("verifyCRC32C", func(a []string) string {
		exp, _ := strconv.ParseUint(a[2], 10, 32)
		return withBuf(a[0], a[1], func(b []byte) string {
			return cBool(pgdump.VerifVerifyCRC32C(b, uint32(exp)))
		})
	})
	register("makeCRC32CTable", func(a []string) string {
		t := pgdump.VerifMakeCRC32CTable()
		out := make([]string, len(t))
		for i, v := range t {
			out[i] = strconv.FormatUint(uint64(v), 10)
		}
		return cList(out)
	})
}
