package main

// Go side of property C01 (catalog-driven dump): DumpDataDir on a data directory materialised under
// VERIF_TMP, DumpDatabaseFromFiles with a closure reader, the three catalog parsers, detectAttrSchema,
// toInt, withDefaults.  Rendering must agree with driver/C01/gen.ml.

import (
	"encoding/binary"
	"encoding/hex"
	"errors"
	"fmt"
	"os"
	"path/filepath"
	"regexp"
	"sort"
	"strconv"
	"strings"

	"github.com/Chocapikk/pgread/pgdump"
)

// ---------------------------------------------------------------- arguments

// "nil" | dbfilterhex:tablefilterhex:listonly:skipsys:pgversion
func c01Opts(s string) *pgdump.Options {
	if s == "nil" {
		return nil
	}
	f := strings.Split(s, ":")
	if len(f) != 5 {
		panic("harness: bad options argument")
	}
	v, _ := strconv.Atoi(f[4])
	return &pgdump.Options{DatabaseFilter: string(unhex(f[0])), TableFilter: string(unhex(f[1])),
		ListOnly: f[2] == "1", SkipSystemTables: f[3] == "1", PostgresVersion: v}
}

func c01OptsC(o *pgdump.Options) string {
	if o == nil {
		return "nil"
	}
	return cRec(kv{"db", cStr(o.DatabaseFilter)}, kv{"table", cStr(o.TableFilter)}, kv{"listonly", cBool(o.ListOnly)},
		kv{"skipsys", cBool(o.SkipSystemTables)}, kv{"ver", fmt.Sprint(o.PostgresVersion)})
}

// ---------------------------------------------------------------- rendering

func c01Col(c pgdump.ColumnInfo) string {
	return cRec(kv{"name", cStr(c.Name)}, kv{"type", cStr(c.Type)}, kv{"typid", fmt.Sprint(c.TypID)})
}

func c01Table(t pgdump.TableDump) string {
	cols := make([]string, len(t.Columns))
	for i, c := range t.Columns {
		cols[i] = c01Col(c)
	}
	rows := make([]string, len(t.Rows))
	for i, r := range t.Rows {
		rows[i] = cRowMap(r)
	}
	return cRec(kv{"oid", fmt.Sprint(t.OID)}, kv{"name", cStr(t.Name)}, kv{"filenode", fmt.Sprint(t.Filenode)},
		kv{"kind", cStr(t.Kind)}, kv{"columns", cList(cols)}, kv{"rows", cList(rows)}, kv{"row_count", fmt.Sprint(t.RowCount)})
}

func c01DB(d pgdump.DatabaseDump) string {
	ts := make([]string, len(d.Tables))
	for i, t := range d.Tables {
		ts[i] = c01Table(t)
	}
	return cRec(kv{"oid", fmt.Sprint(d.OID)}, kv{"name", cStr(d.Name)}, kv{"tables", cList(ts)})
}

func c01Dump(r *pgdump.DumpResult) string {
	ds := make([]string, len(r.Databases))
	for i, d := range r.Databases {
		ds[i] = c01DB(d)
	}
	return cList(ds)
}

// ---------------------------------------------------------------- placeholders of the model
// type=s:00746e<4 LE bytes of the type id>  ->  type=s:<hex of the real TypeName(id)>
var c01TnToken = regexp.MustCompile(`type=s:00746e([0-9a-f]{8})\b`)

func c01Norm(expected string) string {
	s := c01TnToken.ReplaceAllStringFunc(expected, func(tok string) string {
		m := c01TnToken.FindStringSubmatch(tok)
		b, _ := hex.DecodeString(m[1])
		return "type=" + cStr(pgdump.TypeName(int(binary.LittleEndian.Uint32(b))))
	})
	// the C03 placeholder l[s:6474,int:<oid>,y:<hex>] -> the real DecodeType on those bytes; a decoder panic
	// (a slice shorter than the type needs: another property's domain) must not take the harness down
	return dtToken.ReplaceAllStringFunc(s, func(tok string) (out string) {
		defer func() {
			if r := recover(); r != nil {
				out = "DECODETYPE-PANIC:" + tok
			}
		}()
		return substDecodeType(tok)
	})
}

// ---------------------------------------------------------------- scratch directories

var c01Seq int

func c01Dir() string {
	c01Seq++
	d := filepath.Join(os.Getenv("VERIF_TMP"), fmt.Sprintf("c01-%d-%d", os.Getpid(), c01Seq))
	os.RemoveAll(d)
	if err := os.MkdirAll(d, 0o755); err != nil {
		panic("harness: " + err.Error())
	}
	return d
}

func c01Write(path string, data []byte) {
	if err := os.MkdirAll(filepath.Dir(path), 0o755); err != nil {
		panic("harness: " + err.Error())
	}
	if err := os.WriteFile(path, data, 0o644); err != nil {
		panic("harness: " + err.Error())
	}
}

// ---------------------------------------------------------------- catalog parser results

func c01Class(m map[uint32]pgdump.TableInfo) string {
	keys := make([]uint32, 0, len(m))
	for k := range m {
		keys = append(keys, k)
	}
	sort.Slice(keys, func(i, j int) bool { return keys[i] < keys[j] })
	parts := make([]string, len(keys))
	for i, k := range keys {
		t := m[k]
		if t.Filenode != k {
			return fmt.Sprintf("inconsistent:key=%d,filenode=%d", k, t.Filenode)
		}
		parts[i] = cRec(kv{"filenode", fmt.Sprint(k)}, kv{"oid", fmt.Sprint(t.OID)}, kv{"name", cStr(t.Name)}, kv{"kind", cStr(t.Kind)})
	}
	return cList(parts)
}

func c01Attrs(m map[uint32][]pgdump.AttrInfo) string {
	keys := make([]uint32, 0, len(m))
	for k := range m {
		keys = append(keys, k)
	}
	sort.Slice(keys, func(i, j int) bool { return keys[i] < keys[j] })
	parts := make([]string, len(keys))
	for i, k := range keys {
		as := make([]string, len(m[k]))
		for j, a := range m[k] {
			as[j] = cRec(kv{"name", cStr(a.Name)}, kv{"typid", fmt.Sprint(a.TypID)}, kv{"num", fmt.Sprint(a.Num)},
				kv{"len", fmt.Sprint(a.Len)}, kv{"align", fmt.Sprint(a.Align)})
		}
		parts[i] = cRec(kv{"relid", fmt.Sprint(k)}, kv{"attrs", cList(as)})
	}
	return cList(parts)
}

func init() {
	// a[0] options; then pairs (relative path, file hex)
	register("DumpDataDir", func(a []string) string {
		d := c01Dir()
		defer os.RemoveAll(d)
		for i := 1; i+1 < len(a); i += 2 {
			c01Write(filepath.Join(d, filepath.FromSlash(a[i])), unhex(a[i+1]))
		}
		// ONE options value for both runs: the caller's options are an input and must come back unchanged (a dump that
		// writes e.g. the detected catalog layout into them changes what the next dump with the same options does)
		opts := c01Opts(a[0])
		run := func() string {
			var before pgdump.Options
			if opts != nil {
				before = *opts
			}
			res, err := pgdump.DumpDataDir(d, opts)
			if opts != nil && *opts != before {
				return "MUTATED-OPTIONS"
			}
			if err != nil || res == nil {
				return "err"
			}
			return c01Dump(res)
		}
		r1 := run()
		// "a function of the files": Go map iteration differs between two runs of the same process
		if r2 := run(); r2 != r1 {
			return "unstable:" + r1 + "|" + r2
		}
		return r1
	})
	registerNorm("DumpDataDir", c01Norm)

	// a[0] options; a[1] "nil" (nil FileReader) | "fn"; a[2],a[3] pg_class bytes + spare capacity; a[4],a[5] pg_attribute
	// bytes + spare capacity; then pairs (filenode, file hex) the reader knows; every other filenode is an error
	register("DumpDatabaseFromFiles", func(a []string) string {
		files := map[uint32][]byte{}
		for i := 6; i+1 < len(a); i += 2 {
			n, err := strconv.ParseUint(a[i], 10, 32)
			if err != nil {
				panic("harness: bad filenode argument")
			}
			files[uint32(n)] = unhex(a[i+1])
		}
		var reader pgdump.FileReader
		if a[1] != "nil" {
			reader = func(fn uint32) ([]byte, error) {
				if b, ok := files[fn]; ok {
					return b, nil
				}
				return nil, errors.New("no such file")
			}
		}
		return withBuf(a[2], a[3], func(classData []byte) string {
			return withBuf(a[4], a[5], func(attrData []byte) string {
				opts := c01Opts(a[0])
				run := func() string {
					var before pgdump.Options
					if opts != nil {
						before = *opts
					}
					d, err := pgdump.DumpDatabaseFromFiles(classData, attrData, reader, opts)
					if opts != nil && *opts != before {
						return "MUTATED-OPTIONS"
					}
					if err != nil || d == nil {
						return "err"
					}
					return c01DB(*d)
				}
				r1 := run()
				if r2 := run(); r2 != r1 {
					return "unstable:" + r1 + "|" + r2
				}
				return r1
			})
		})
	})
	registerNorm("DumpDatabaseFromFiles", c01Norm)

	register("ParsePGDatabase", func(a []string) string {
		return withBuf(a[0], a[1], func(b []byte) string {
			l := pgdump.ParsePGDatabase(b)
			parts := make([]string, len(l))
			for i, d := range l {
				parts[i] = cRec(kv{"oid", fmt.Sprint(d.OID)}, kv{"name", cStr(d.Name)})
			}
			return cList(parts)
		})
	})
	register("ParsePGClass", func(a []string) string {
		return withBuf(a[0], a[1], func(b []byte) string { return c01Class(pgdump.ParsePGClass(b)) })
	})
	register("ParsePGAttribute", func(a []string) string {
		v, _ := strconv.Atoi(a[2])
		return withBuf(a[0], a[1], func(b []byte) string { return c01Attrs(pgdump.ParsePGAttribute(b, v)) })
	})
	register("detectAttrSchema", func(a []string) string {
		v, _ := strconv.Atoi(a[2])
		return withBuf(a[0], a[1], func(b []byte) string {
			switch n := len(pgdump.VerifDetectAttrSchema(b, v)); n {
			case 9:
				return "v16"
			case 10:
				return "v15"
			default:
				return fmt.Sprintf("other:%d", n)
			}
		})
	})
	for _, fn := range []string{"ParsePGDatabase", "ParsePGClass", "ParsePGAttribute", "detectAttrSchema"} {
		registerNorm(fn, c01Norm)
	}

	// a[0] dynamic type, a[1] value
	register("toInt", func(a []string) string {
		var v interface{}
		i, _ := strconv.ParseInt(a[1], 10, 64)
		u, _ := strconv.ParseUint(a[1], 10, 64)
		switch a[0] {
		case "int":
			v = int(i)
		case "int16":
			v = int16(i)
		case "int32":
			v = int32(i)
		case "int64":
			v = i
		case "uint16":
			v = uint16(u)
		case "uint32":
			v = uint32(u)
		case "uint64":
			v = u
		case "string":
			v = a[1]
		case "bool":
			v = a[1] == "1"
		case "float64":
			v = float64(i)
		case "float32":
			v = float32(i)
		case "bytes":
			v = []byte(a[1])
		case "nil":
			v = nil
		default:
			panic("harness: bad toInt kind")
		}
		return fmt.Sprint(pgdump.VerifToInt(v))
	})
	register("withDefaults", func(a []string) string {
		in := c01Opts(a[0])
		out := pgdump.VerifWithDefaults(in)
		if in != nil && out != in {
			return "copied:" + c01OptsC(out)
		}
		return c01OptsC(out)
	})
}
