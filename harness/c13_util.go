package main

// C13 helpers: parser for the canonical value text of driver/common/value.ml (arguments and the
// NUL 'J' placeholders), table / database / dump argument decoding, and the normalizers that
// replace the model's oracle placeholders (fmt %v of floats, json.Marshal) inside hex payloads.

import (
	"encoding/hex"
	"encoding/json"
	"fmt"
	"math"
	"strconv"
	"strings"
	"unicode"
	"unicode/utf8"

	"github.com/Chocapikk/pgread/pgdump"
)

// hexOrDash is the text convention of the C13 "Text" functions: lower-case hex, "-" when empty.
func hexOrDash(s string) string {
	if s == "" {
		return "-"
	}
	return hex.EncodeToString([]byte(s))
}

// ---------------------------------------------------------------- canonical value text -> Go value

type gvParser struct {
	s string
	i int
}

func (p *gvParser) fail(what string) {
	panic(fmt.Sprintf("harness: bad value text (%s) at %d in %q", what, p.i, p.s))
}

func (p *gvParser) has(pre string) bool {
	if strings.HasPrefix(p.s[p.i:], pre) {
		p.i += len(pre)
		return true
	}
	return false
}

func (p *gvParser) hexRun() []byte {
	j := p.i
	for j < len(p.s) && (p.s[j] >= '0' && p.s[j] <= '9' || p.s[j] >= 'a' && p.s[j] <= 'f') {
		j++
	}
	b, err := hex.DecodeString(p.s[p.i:j])
	if err != nil {
		p.fail("hex")
	}
	p.i = j
	return b
}

func (p *gvParser) decRun() string {
	j := p.i
	if j < len(p.s) && p.s[j] == '-' {
		j++
	}
	for j < len(p.s) && p.s[j] >= '0' && p.s[j] <= '9' {
		j++
	}
	r := p.s[p.i:j]
	p.i = j
	return r
}

func (p *gvParser) sint(bits int) int64 {
	v, err := strconv.ParseInt(p.decRun(), 10, bits)
	if err != nil {
		p.fail("int")
	}
	return v
}

func (p *gvParser) uint(bits int) uint64 {
	v, err := strconv.ParseUint(p.decRun(), 10, bits)
	if err != nil {
		p.fail("uint")
	}
	return v
}

func (p *gvParser) fixedHex(n int) uint64 {
	if p.i+n > len(p.s) {
		p.fail("float bits")
	}
	v, err := strconv.ParseUint(p.s[p.i:p.i+n], 16, 64)
	if err != nil {
		p.fail("float bits")
	}
	p.i += n
	return v
}

func (p *gvParser) val() interface{} {
	switch {
	case p.has("nil"):
		return nil
	case p.has("b:true"):
		return true
	case p.has("b:false"):
		return false
	case p.has("i16:"):
		return int16(p.sint(16))
	case p.has("i32:"):
		return int32(p.sint(32))
	case p.has("i64:"):
		return int64(p.sint(64))
	case p.has("int:"):
		return int(p.sint(64))
	case p.has("u16:"):
		return uint16(p.uint(16))
	case p.has("u32:"):
		return uint32(p.uint(32))
	case p.has("u64:"):
		return uint64(p.uint(64))
	case p.has("f32:"):
		return math.Float32frombits(uint32(p.fixedHex(8)))
	case p.has("f64:"):
		return math.Float64frombits(p.fixedHex(16))
	case p.has("s:"):
		return string(p.hexRun())
	case p.has("y:"):
		return p.hexRun()
	case p.has("lnil"):
		return []interface{}(nil)
	case p.has("l["):
		out := []interface{}{}
		if p.has("]") {
			return out
		}
		for {
			out = append(out, p.val())
			if p.has("]") {
				return out
			}
			if !p.has(",") {
				p.fail("list separator")
			}
		}
	case p.has("m{"):
		return p.mapBody()
	}
	p.fail("value")
	return nil
}

// after "m{"
func (p *gvParser) mapBody() map[string]interface{} {
	out := map[string]interface{}{}
	if p.has("}") {
		return out
	}
	for {
		k := string(p.hexRun())
		if !p.has(":") {
			p.fail("map colon")
		}
		out[k] = p.val() // a repeated key: the last binding wins, like successive Go map writes
		if p.has("}") {
			return out
		}
		if !p.has(",") {
			p.fail("map separator")
		}
	}
}

func parseGval(s string) interface{} {
	p := &gvParser{s: s}
	v := p.val()
	if p.i != len(s) {
		p.fail("trailing text")
	}
	return v
}

func parseGmap(s string) map[string]interface{} {
	m, ok := parseGval(s).(map[string]interface{})
	if !ok {
		panic("harness: map value expected")
	}
	return m
}

// ---------------------------------------------------------------- tables, databases, dumps

// c13Table decodes 4 arguments: name hex, row count, columns "namehex/typehex/typid,..." ("-" none),
// rows "l[m{..},..]".
func c13Table(a []string) pgdump.TableDump {
	t := pgdump.TableDump{Name: string(unhex(a[0]))}
	rc, err := strconv.Atoi(a[1])
	if err != nil {
		panic("harness: bad row count")
	}
	t.RowCount = rc
	if a[2] != "-" {
		for _, c := range strings.Split(a[2], ",") {
			f := strings.Split(c, "/")
			if len(f) != 3 {
				panic("harness: bad column triple")
			}
			id, err := strconv.Atoi(f[2])
			if err != nil {
				panic("harness: bad typid")
			}
			t.Columns = append(t.Columns, pgdump.ColumnInfo{Name: string(unhex(f[0])), Type: string(unhex(f[1])), TypID: id})
		}
	}
	rows, ok := parseGval(a[3]).([]interface{})
	if !ok {
		panic("harness: rows must be a list")
	}
	for _, r := range rows {
		m, ok := r.(map[string]interface{})
		if !ok {
			panic("harness: row must be a map")
		}
		t.Rows = append(t.Rows, m)
	}
	return t
}

// c13Database decodes: name hex, oid, ntables, 4 args per table; returns the rest of the args.
func c13Database(a []string) (pgdump.DatabaseDump, []string) {
	d := pgdump.DatabaseDump{Name: string(unhex(a[0]))}
	oid, err := strconv.ParseUint(a[1], 10, 32)
	if err != nil {
		panic("harness: bad database oid")
	}
	d.OID = uint32(oid)
	n, err := strconv.Atoi(a[2])
	if err != nil {
		panic("harness: bad table count")
	}
	a = a[3:]
	for i := 0; i < n; i++ {
		d.Tables = append(d.Tables, c13Table(a[:4]))
		a = a[4:]
	}
	return d, a
}

// c13Dump decodes: ndbs, then the databases.
func c13Dump(a []string) pgdump.DumpResult {
	n, err := strconv.Atoi(a[0])
	if err != nil {
		panic("harness: bad database count")
	}
	a = a[1:]
	var r pgdump.DumpResult
	for i := 0; i < n; i++ {
		var d pgdump.DatabaseDump
		d, a = c13Database(a)
		r.Databases = append(r.Databases, d)
	}
	if len(a) != 0 {
		panic("harness: trailing dump arguments")
	}
	return r
}

// ---------------------------------------------------------------- oracle placeholders

// placeholder modes
const (
	phPlain = iota // replace the placeholder by the oracle's text
	phCSV          // text of a CSV export: a json.Marshal cell is re-quoted by the csv.Writer rule
)

// oracleText returns the real text for one placeholder (tag 'F' 'G' 'J', body without the NULs).
func oracleText(tag byte, body string) (txt string, ok bool) {
	defer func() {
		if recover() != nil { // not a placeholder after all (normalizers run outside runCase)
			txt, ok = "", false
		}
	}()
	switch tag {
	case 'F':
		if len(body) != 16 {
			return "", false
		}
		bits, err := strconv.ParseUint(body, 16, 64)
		if err != nil {
			return "", false
		}
		return fmt.Sprintf("%v", math.Float64frombits(bits)), true
	case 'G':
		if len(body) != 8 {
			return "", false
		}
		bits, err := strconv.ParseUint(body, 16, 32)
		if err != nil {
			return "", false
		}
		return fmt.Sprintf("%v", math.Float32frombits(uint32(bits))), true
	case 'J':
		b, _ := json.Marshal(parseGval(body)) // csv.go ignores the error as well
		return string(b), true
	}
	return "", false
}

// csvQuote is encoding/csv Writer's rule for one field (Comma ',', UseCRLF false); it is only
// applied to json.Marshal output standing in a cell, whose quoting the model cannot decide from
// the placeholder. (What the reader makes of Go's real quoting is checked by TableToCSV.read.)
func csvQuote(f string) string {
	need := false
	switch {
	case f == "":
	case f == `\.`:
		need = true
	case strings.ContainsAny(f, "\n\r\","):
		need = true
	default:
		r, _ := utf8.DecodeRuneInString(f)
		need = unicode.IsSpace(r)
	}
	if !need {
		return f
	}
	return `"` + strings.ReplaceAll(f, `"`, `""`) + `"`
}

// substPlaceholders rewrites every NUL tag body NUL in b.
func substPlaceholders(b []byte, mode int) []byte {
	out := make([]byte, 0, len(b))
	i := 0
	for i < len(b) {
		if b[i] != 0 || i+1 >= len(b) {
			out = append(out, b[i])
			i++
			continue
		}
		tag := b[i+1]
		j := i + 2
		for j < len(b) && b[j] != 0 {
			j++
		}
		if j >= len(b) {
			out = append(out, b[i])
			i++
			continue
		}
		txt, ok := oracleText(tag, string(b[i+2:j]))
		if !ok {
			out = append(out, b[i])
			i++
			continue
		}
		if mode == phCSV && tag == 'J' {
			// the model's cell is the bare placeholder, quoted iff its text has a comma
			if len(out) > 0 && out[len(out)-1] == '"' && j+1 < len(b) && b[j+1] == '"' {
				out = out[:len(out)-1]
				j++
			}
			txt = csvQuote(txt)
			// json.Marshal fails on NaN/Inf and csv.go then has the empty text: when that cell is the
			// whole record, csv.go's writeCSVRecord writes it as "" (a placeholder is never empty, so
			// the model took the csv.Writer path for it)
			if txt == "" && (len(out) == 0 || out[len(out)-1] == '\n') && j+1 < len(b) && b[j+1] == '\n' {
				txt = `""`
			}
		}
		out = append(out, txt...)
		i = j + 1
	}
	return out
}

func isLowerHex(c byte) bool { return c >= '0' && c <= '9' || c >= 'a' && c <= 'f' }

// normHexRuns applies f to the decoded bytes of every maximal even-length run of lower-case hex
// digits of s that can contain a placeholder (a NUL byte).
func normHexRuns(s string, f func([]byte) []byte) string {
	if !strings.Contains(s, "00") {
		return s
	}
	var sb strings.Builder
	i := 0
	for i < len(s) {
		if !isLowerHex(s[i]) {
			sb.WriteByte(s[i])
			i++
			continue
		}
		j := i
		for j < len(s) && isLowerHex(s[j]) {
			j++
		}
		run := s[i:j]
		if len(run)%2 == 0 && strings.Contains(run, "00") {
			if b, err := hex.DecodeString(run); err == nil {
				run = hex.EncodeToString(f(b))
			}
		}
		sb.WriteString(run)
		i = j
	}
	return sb.String()
}

func normPlain(s string) string {
	return normHexRuns(s, func(b []byte) []byte { return substPlaceholders(b, phPlain) })
}

// normText is normPlain for the "Text" functions, whose empty text is "-".
func normText(s string) string {
	r := normPlain(s)
	if r == "" {
		return "-"
	}
	return r
}

func normCSVText(s string) string {
	r := normHexRuns(s, func(b []byte) []byte { return substPlaceholders(b, phCSV) })
	if r == "" {
		return "-"
	}
	return r
}

// canonDigits is the decimal text of the value of a digit string (TInt payload).
func canonDigits(d []byte) string {
	i := 0
	for i < len(d) && d[i] == '0' {
		i++
	}
	if i == len(d) {
		return "0"
	}
	return string(d[i:])
}

func allDigits(b []byte) bool {
	for _, c := range b {
		if c < '0' || c > '9' {
			return false
		}
	}
	return true
}

// numTokens is Spec.num_tokens: the tokens of a numeric text -?digits[.digits][e[+-]digits].
func numTokens(t []byte) string {
	sg := ""
	body := t
	if len(t) > 0 && t[0] == '-' {
		sg = "P:2d "
		body = t[1:]
	}
	if allDigits(body) {
		return sg + "Z:" + hex.EncodeToString([]byte(canonDigits(body)))
	}
	return sg + "N:" + hex.EncodeToString(body)
}

// normLex: a token N:<one float placeholder> becomes the tokens of the float's real text; every
// other payload gets the plain substitution.
func normLex(s string) string {
	if !strings.Contains(s, "00") {
		return s
	}
	toks := strings.Split(s, " ")
	for k, t := range toks {
		if strings.HasPrefix(t, "N:") {
			if b, err := hex.DecodeString(t[2:]); err == nil && len(b) >= 4 && b[0] == 0 && (b[1] == 'F' || b[1] == 'G') &&
				b[len(b)-1] == 0 && !strings.Contains(string(b[1:len(b)-1]), "\x00") {
				if txt, ok := oracleText(b[1], string(b[2:len(b)-1])); ok {
					toks[k] = numTokens([]byte(txt))
					continue
				}
			}
		}
		toks[k] = normPlain(t)
	}
	return strings.Join(toks, " ")
}
