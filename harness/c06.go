package main

// C06 — JSONB documents decode to an equal JSON document.
// Go side of the correspondence check: ParseJSONB, DecodeType(…, OidJSONB), and the unexported
// helpers endOffset / entryOffLen / totalLen / decodeJEntry / decodeJNumeric (through the
// build-tagged aliases in pgdump/verif_hooks.go).

import (
	"encoding/binary"
	"encoding/hex"
	"fmt"
	"regexp"
	"strconv"

	"github.com/Chocapikk/pgread/pgdump"
)

// The Coq model leaves DecodeNumeric (property C05) and safeString (utf8 scrubbing) abstract: it
// prints the token  s:004e554d00<hex>  ("\0NUM\0" + the bytes handed to DecodeNumeric) resp.
// s:0052415700<hex> ("\0RAW\0" + the bytes handed to safeString).  Replace each token by the
// canonical result of the real function on exactly those bytes.
var c06NumTok = regexp.MustCompile(`s:004e554d00([0-9a-f]*)`)
var c06RawTok = regexp.MustCompile(`s:0052415700([0-9a-f]*)`)

func c06Norm(e string) string {
	e = c06NumTok.ReplaceAllStringFunc(e, func(t string) string {
		b, err := hex.DecodeString(t[len("s:004e554d00"):])
		if err != nil {
			return t
		}
		return canon(pgdump.DecodeNumeric(b))
	})
	e = c06RawTok.ReplaceAllStringFunc(e, func(t string) string {
		b, err := hex.DecodeString(t[len("s:0052415700"):])
		if err != nil {
			return t
		}
		return canon(pgdump.VerifSafeString(b))
	})
	return e
}

// entries are passed as the little-endian image of the []uint32
func c06Entries(h string) []uint32 {
	b := unhex(h)
	out := make([]uint32, len(b)/4)
	for i := range out {
		out[i] = binary.LittleEndian.Uint32(b[4*i:])
	}
	return out
}

func c06Int(s string) int {
	v, err := strconv.ParseInt(s, 10, 64)
	if err != nil {
		panic("harness: bad integer argument")
	}
	return int(v)
}

func init() {
	register("ParseJSONB", func(a []string) string {
		return withBuf(a[0], a[1], func(b []byte) string { return canon(pgdump.ParseJSONB(b)) })
	})
	registerNorm("ParseJSONB", c06Norm)

	register("DecodeTypeJSONB", func(a []string) string {
		return withBuf(a[0], a[1], func(b []byte) string { return canon(pgdump.DecodeType(b, pgdump.OidJSONB)) })
	})
	registerNorm("DecodeTypeJSONB", c06Norm)

	register("endOffset", func(a []string) string {
		return fmt.Sprint(pgdump.VerifEndOffset(c06Entries(a[0]), c06Int(a[1])))
	})
	register("totalLen", func(a []string) string {
		return fmt.Sprint(pgdump.VerifTotalLen(c06Entries(a[0])))
	})
	register("entryOffLen", func(a []string) string {
		o, l := pgdump.VerifEntryOffLen(c06Entries(a[0]), c06Int(a[1]), c06Int(a[2]))
		return fmt.Sprintf("%d,%d", o, l)
	})
	register("decodeJEntry", func(a []string) string {
		return withBuf(a[0], a[1], func(b []byte) string {
			je, err := strconv.ParseUint(a[4], 10, 32)
			if err != nil {
				panic("harness: bad JEntry argument")
			}
			return canon(pgdump.VerifDecodeJEntry(b, c06Int(a[2]), c06Int(a[3]), uint32(je)))
		})
	})
	registerNorm("decodeJEntry", c06Norm)
	register("decodeJNumeric", func(a []string) string {
		return withBuf(a[0], a[1], func(b []byte) string { return canon(pgdump.VerifDecodeJNumeric(b)) })
	})
	registerNorm("decodeJNumeric", c06Norm)
}
