package main

// C19 helpers: run-length text codec for byte strings (must agree with driver/C19/aa_codec.ml),
// temp-file materialisation under $VERIF_TMP, error classification.

import (
	"errors"
	"fmt"
	"io"
	"io/fs"
	"os"
	"path/filepath"
	"strconv"
	"strings"
)

// runsDecode: items separated by '.', each "hh" or "hh*N"; "-" is the empty string.
func runsDecode(s string) []byte {
	if s == "-" || s == "" {
		return []byte{}
	}
	var out []byte
	for _, it := range strings.Split(s, ".") {
		h, n := it, 1
		if i := strings.IndexByte(it, '*'); i >= 0 {
			h = it[:i]
			v, err := strconv.Atoi(it[i+1:])
			if err != nil {
				panic("harness: bad run length")
			}
			n = v
		}
		b, err := strconv.ParseUint(h, 16, 8)
		if err != nil || len(h) != 2 {
			panic("harness: bad run byte")
		}
		for j := 0; j < n; j++ {
			out = append(out, byte(b))
		}
	}
	return out
}

// runsEncode: maximal runs, so the text is canonical.
func runsEncode(b []byte) string {
	if len(b) == 0 {
		return "-"
	}
	var sb strings.Builder
	i := 0
	for i < len(b) {
		j := i
		for j < len(b) && b[j] == b[i] {
			j++
		}
		if sb.Len() > 0 {
			sb.WriteByte('.')
		}
		fmt.Fprintf(&sb, "%02x", b[i])
		if j-i > 1 {
			fmt.Fprintf(&sb, "*%d", j-i)
		}
		i = j
	}
	return sb.String()
}

func cY(b []byte) string { return "y:" + runsEncode(b) }

// withRunsBuf is withBuf for run-length encoded arguments.
func withRunsBuf(visRuns, tailRuns string, f func(b []byte) string) string {
	v, t := runsDecode(visRuns), runsDecode(tailRuns)
	buf := make([]byte, 0, len(v)+len(t))
	buf = append(buf, v...)
	buf = append(buf, t...)
	snap := append([]byte(nil), buf...)
	r := f(buf[: len(v) : len(v)+len(t)])
	for i := range snap {
		if snap[i] != buf[i] {
			return "MUTATED-INPUT:" + r
		}
	}
	return r
}

var c19seq int

func c19tmp() string {
	root := os.Getenv("VERIF_TMP")
	if root == "" {
		root = os.TempDir()
	}
	c19seq++
	d := filepath.Join(root, fmt.Sprintf("c19-%d-%d", os.Getpid(), c19seq))
	if err := os.MkdirAll(d, 0o755); err != nil {
		panic("harness: cannot create temp dir")
	}
	return d
}

// single-file cache: consecutive cases on the same file content share one temp file
var c19fileKey, c19filePath, c19fileDir string

// c19file materialises a file argument ("!" = a path that does not exist) and returns its path.
func c19file(arg string) string {
	if arg == c19fileKey && c19filePath != "" {
		return c19filePath
	}
	if c19fileDir != "" {
		os.RemoveAll(c19fileDir)
	}
	c19fileDir = c19tmp()
	c19fileKey = arg
	c19filePath = filepath.Join(c19fileDir, "16384")
	if arg != "!" {
		if err := os.WriteFile(c19filePath, runsDecode(arg), 0o644); err != nil {
			panic("harness: cannot write temp file")
		}
	}
	return c19filePath
}

// c19fs materialises "name=runs;name=runs" in a fresh directory; the caller removes it.
func c19fs(arg string) string {
	d := c19tmp()
	if arg == "-" || arg == "" {
		return d
	}
	for _, e := range strings.Split(arg, ";") {
		i := strings.IndexByte(e, '=')
		if err := os.WriteFile(filepath.Join(d, e[:i]), runsDecode(e[i+1:]), 0o644); err != nil {
			panic("harness: cannot write temp file")
		}
	}
	return d
}

// c19tree materialises "d:path;f:path:runs;..." below a fresh directory; the caller removes it.
func c19tree(arg string) string {
	d := c19tmp()
	for _, e := range strings.Split(arg, ";") {
		p := strings.SplitN(e, ":", 3)
		full := filepath.Join(d, filepath.FromSlash(p[1]))
		if p[0] == "d" {
			if err := os.MkdirAll(full, 0o755); err != nil {
				panic("harness: mkdir")
			}
			continue
		}
		if err := os.MkdirAll(filepath.Dir(full), 0o755); err != nil {
			panic("harness: mkdir")
		}
		if err := os.WriteFile(full, runsDecode(p[2]), 0o644); err != nil {
			panic("harness: cannot write temp file")
		}
	}
	return d
}

// c19err maps an error to the small enum the model uses (never the message text beyond its class).
func c19err(err error) string {
	var pe *fs.PathError
	m := err.Error()
	switch {
	case errors.Is(err, io.EOF):
		return "err:io"
	case strings.HasPrefix(m, "cannot read base directory"):
		return "err:basedir"
	case errors.Is(err, fs.ErrNotExist):
		return "err:open"
	case errors.As(err, &pe):
		return "err:io"
	case strings.HasPrefix(m, "start block"), strings.Contains(m, "beyond segment size"):
		return "err:beyond"
	case strings.HasPrefix(m, "invalid range"):
		return "err:invalid"
	case strings.Contains(m, "cannot be negative"):
		return "err:negative"
	case strings.HasPrefix(m, "no segments found"):
		return "err:nosegments"
	}
	return "err:other"
}

func atoiArg(s string) int {
	v, err := strconv.Atoi(s)
	if err != nil {
		panic("harness: bad integer argument")
	}
	return v
}

func u32Arg(s string) uint32 {
	v, err := strconv.ParseUint(s, 10, 32)
	if err != nil {
		panic("harness: bad uint32 argument")
	}
	return uint32(v)
}
