package main

import (
	"bytes"
	"fmt"
	"runtime"
	"strconv"
	"time"

	"github.com/Chocapikk/pgread/pgdump"
)

// every []byte / string entry point; p is a type oid / small integer parameter
var c10Entries = map[string]func(b []byte, p int){
	"ParsePage":      func(b []byte, p int) { pgdump.ParsePage(b) },
	"ParseHeapTuple": func(b []byte, p int) { pgdump.ParseHeapTuple(b) },
	"ReadTuples":     func(b []byte, p int) { pgdump.ReadTuples(b, p%2 == 0) },
	"ParseFile":      func(b []byte, p int) { pgdump.ParseFile(b) },
	"ReadRows": func(b []byte, p int) {
		pgdump.ReadRows(b, []pgdump.Column{{Name: "a", TypID: pgdump.OidInt4, Len: 4, Align: 'i'}, {Name: "b", TypID: p, Len: -1, Align: 'i'}, {Name: "c", TypID: pgdump.OidName, Len: 64, Align: 'c'}}, p%2 == 0)
	},
	"ReadVarlena": func(b []byte, p int) { pgdump.ReadVarlena(b) },
	"DecodeTuple": func(b []byte, p int) {
		bm := b
		if len(bm) > 3 {
			bm = bm[:3]
		}
		pgdump.DecodeTuple(&pgdump.HeapTupleData{Header: &pgdump.HeapTupleHeader{Natts: p % 7, HasNull: p%2 == 0}, Bitmap: bm, Data: b},
			[]pgdump.Column{{Name: "a", TypID: p, Len: -1, Align: 'i'}, {Name: "b", TypID: p, Len: p % 40, Align: byte(p)}, {Name: "c", TypID: pgdump.OidText, Len: -2, Num: 9}, {Name: "d", TypID: p, Len: -1, Align: 'd'}})
	},
	"ParsePGDatabase":  func(b []byte, p int) { pgdump.ParsePGDatabase(b) },
	"ParsePGClass":     func(b []byte, p int) { pgdump.ParsePGClass(b) },
	"ParsePGAttribute": func(b []byte, p int) { pgdump.ParsePGAttribute(b, []int{0, 12, 15, 16}[p%4]) },
	"ParsePGAuthID":    func(b []byte, p int) { pgdump.ParsePGAuthID(b) },
	"ParseTOASTPointer": func(b []byte, p int) { pgdump.ParseTOASTPointer(b) },
	"IsTOASTPointer":    func(b []byte, p int) { pgdump.IsTOASTPointer(b) },
	"ReadTOASTTable":    func(b []byte, p int) { pgdump.ReadTOASTTable(b) },
	"GetTOASTVerboseInfo": func(b []byte, p int) { pgdump.GetTOASTVerboseInfo(uint32(p), b) },
	"ReassembleTOAST": func(b []byte, p int) {
		chunks := pgdump.ReadTOASTTable(b)
		chunks = append(chunks, pgdump.TOASTChunk{ChunkID: 7, ChunkSeq: 0, Data: b})
		ptr := pgdump.ParseTOASTPointer(b)
		pgdump.ReassembleTOAST(chunks, 7, ptr)
		if ptr != nil {
			pgdump.ReassembleTOAST(chunks, ptr.ValueID, ptr)
		}
		for _, m := range []int{0, 1} {
			pgdump.ReassembleTOAST(chunks, 7, &pgdump.TOASTPointer{RawSize: 0xFFFFFFFF, ExtSize: uint32(len(b)), ValueID: 7, IsCompressed: true, CompressionMethod: m})
			pgdump.ReassembleTOAST(chunks, 7, &pgdump.TOASTPointer{RawSize: uint32(p), ExtSize: uint32(len(b)), ValueID: 7, IsCompressed: true, CompressionMethod: m})
		}
	},
	"TOASTReader": func(b []byte, p int) {
		r := pgdump.NewTOASTReader()
		r.LoadTOASTTable(uint32(p), b)
		r.ReadValue(b)
	},
	"decompressPGLZ": func(b []byte, p int) {
		pgdump.VerifDecompressPGLZ(b, p)
		pgdump.VerifDecompressPGLZ(b, 1<<30)
		pgdump.VerifDecompressPGLZ(b, -1)
	},
	"decompressLZ4": func(b []byte, p int) {
		pgdump.VerifDecompressLZ4(b, p)
		pgdump.VerifDecompressLZ4(b, 1<<30)
		pgdump.VerifDecompressLZ4(b, -1)
	},
	"DecodeType": func(b []byte, p int) {
		pgdump.DecodeType(b, p)
		for _, oid := range c10Oids {
			pgdump.DecodeType(b, oid)
		}
	},
	"ParseJSONB":        func(b []byte, p int) { pgdump.ParseJSONB(b) },
	"DecodeNumeric":     func(b []byte, p int) { pgdump.DecodeNumeric(b) },
	"ParseControlFile":  func(b []byte, p int) { pgdump.ParseControlFile(b) },
	"ParseWALFile":      func(b []byte, p int) { pgdump.ParseWALFile(b) },
	"ParseIndexFile":    func(b []byte, p int) { pgdump.ParseIndexFile(b) },
	"ParseSequenceFile": func(b []byte, p int) { pgdump.ParseSequenceFile(b) },
	"IsSequenceFile":    func(b []byte, p int) { pgdump.IsSequenceFile(b) },
	"ParseRelMapFile":   func(b []byte, p int) { pgdump.ParseRelMapFile(b) },
	"VerifyPageChecksum":  func(b []byte, p int) { pgdump.VerifyPageChecksum(b, uint32(p)) },
	"VerifyFileChecksums": func(b []byte, p int) { pgdump.VerifyFileChecksums(b, uint32(p)) },
	"ParseBlockInfo":      func(b []byte, p int) { pgdump.ParseBlockInfo(b, uint32(p)) },
	"FormatBinaryDump":    func(b []byte, p int) { pgdump.FormatBinaryDump(b) },
	"ParseBlockRange":     func(b []byte, p int) { pgdump.ParseBlockRange(string(b)) },
	"quoteIdent":          func(b []byte, p int) { pgdump.VerifQuoteIdent(string(b)) },
	"quoteLiteral":        func(b []byte, p int) { pgdump.VerifQuoteLiteral(string(b)) },
	"formatSQLValue": func(b []byte, p int) {
		for _, v := range c10Values(b) {
			pgdump.VerifFormatSQLValue(v, p)
		}
	},
	"mapToJSON": func(b []byte, p int) {
		pgdump.VerifMapToJSON(map[string]interface{}{string(b): c10Values(b), "k": string(b)})
	},
	"formatCSVValue": func(b []byte, p int) {
		for _, v := range c10Values(b) {
			pgdump.VerifFormatCSVValue(v)
		}
	},
	"SearchInDump": func(b []byte, p int) {
		d := c10Dump(b)
		pgdump.SearchInDump(d, &pgdump.SearchOptions{Pattern: string(b), MaxResults: p % 3, IncludeRow: p%2 == 0, CaseSensitive: p%5 == 0})
	},
	"ToSQLCSV": func(b []byte, p int) {
		d := c10Dump(b)
		var w bytes.Buffer
		d.ToSQL(&w)
		d.ToCSV(&w)
	},
	"ReadDeletedRows": func(b []byte, p int) {
		pgdump.ReadDeletedRows(b, []pgdump.Column{{Name: "a", TypID: p, Len: -1, Align: 'i'}})
	},
	"ReadRowsWithDeleted": func(b []byte, p int) {
		pgdump.ReadRowsWithDeleted(b, []pgdump.Column{{Name: "a", TypID: pgdump.OidInt4, Len: 4, Align: 'i'}, {Name: "b", TypID: p, Len: -1, Align: 'i'}})
	},
	"parseBlockRefs":  func(b []byte, p int) { pgdump.VerifParseBlockRefs(b) },
	"parseWALPage":    func(b []byte, p int) { pgdump.VerifParseWALPage(b, uint64(p), p%3) },
	"detectIndexType": func(b []byte, p int) { pgdump.VerifDetectIndexType(b) },
}

var c10Oids = []int{16, 17, 18, 19, 20, 21, 23, 25, 26, 27, 28, 29, 114, 142, 600, 601, 602, 603, 604, 628, 650, 700, 701, 718, 774, 790, 829, 869,
	1042, 1043, 1082, 1083, 1114, 1184, 1186, 1266, 1560, 1562, 1700, 2950, 3220, 3614, 3615, 3802, 3904, 3906, 3908, 3910, 3912, 3926, 4072,
	1000, 1001, 1003, 1005, 1007, 1009, 1016, 1021, 1022, 1231, 1115, 1182, 2951, 3807, 1010, 1017, 1040, 1041, 1270, 1561, 0, 99999}

func c10Values(b []byte) []interface{} {
	s := string(b)
	return []interface{}{nil, s, []byte(s), true, int32(len(b)), float64(len(b)) / 3, []interface{}{s, nil, []interface{}{s}},
		map[string]interface{}{s: s, "n": []interface{}{s, map[string]interface{}{s: nil}}}}
}

func c10Dump(b []byte) *pgdump.DumpResult {
	s := string(b)
	row := map[string]interface{}{s: s, "c": c10Values(b)}
	t := pgdump.TableDump{Name: s, Kind: "r", Columns: []pgdump.ColumnInfo{{Name: s, Type: "text", TypID: 25}, {Name: "c", Type: s, TypID: 0}},
		Rows: []map[string]interface{}{row, row}, RowCount: 2}
	return &pgdump.DumpResult{Databases: []pgdump.DatabaseDump{{Name: s, Tables: []pgdump.TableDump{t, t}}}}
}

func init() {
	register("NoPanic", func(a []string) string {
		f, ok := c10Entries[a[0]]
		if !ok {
			return "harness-unknown-entry"
		}
		p, _ := strconv.Atoi(a[3])
		return withBuf(a[1], a[2], func(b []byte) string {
			var m0, m1 runtime.MemStats
			runtime.ReadMemStats(&m0)
			t0 := time.Now()
			f(b, p)
			el := time.Since(t0)
			runtime.ReadMemStats(&m1)
			alloc := m1.TotalAlloc - m0.TotalAlloc
			// "a small multiple of what the input size warrants": several passes over the input, each allowed to
			// build text/structures a few dozen times the input, plus a fixed allowance
			if alloc > uint64(8<<20+4096*(len(b)+1)) {
				return fmt.Sprintf("over-allocation:%d-bytes-for-%d-input", alloc, len(b))
			}
			if el > 3*time.Second+time.Duration(len(b))*40*time.Microsecond {
				return fmt.Sprintf("too-slow:%dms", el.Milliseconds())
			}
			return "ok"
		})
	})
	// replacing one page by other bytes must leave the entries of all other pages unchanged
	register("LocalityPage", func(a []string) string {
		file, repl := unhex(a[0]), unhex(a[2])
		j, _ := strconv.Atoi(a[1])
		vo := a[3] == "true"
		dam := append([]byte{}, file...)
		copy(dam[j*8192:(j+1)*8192], repl)
		others := func(f []byte) string {
			var parts []string
			for _, e := range pgdump.ReadTuples(f, vo) {
				if e.PageOffset != j*8192 {
					parts = append(parts, cTuple(e.Tuple, e.PageOffset))
				}
			}
			return cList(parts)
		}
		if others(file) == others(dam) {
			return "ok"
		}
		return "page-locality-violated"
	})
	// replacing the bytes of one tuple must leave every other line pointer's entry unchanged
	register("LocalityTuple", func(a []string) string {
		page, repl := unhex(a[0]), unhex(a[3])
		off, _ := strconv.Atoi(a[1])
		ln, _ := strconv.Atoi(a[2])
		dam := append([]byte{}, page...)
		copy(dam[off:off+ln], repl)
		others := func(pg []byte) string {
			var parts []string
			for _, e := range pgdump.ParsePage(pg) {
				start := cap(pg) - cap(e.Tuple.Data) - int(e.Tuple.Header.THoff) // item offset of this entry
				if start+0 >= off && start < off+ln {
					continue
				}
				parts = append(parts, fmt.Sprintf("%d:", start)+cTuple(e.Tuple, 0))
			}
			return cList(parts)
		}
		if others(page) == others(dam) {
			return "ok"
		}
		return "tuple-locality-violated"
	})
}
