package main

import (
	"bytes"
	"encoding/hex"
	"fmt"
	"math"
	"reflect"
	"runtime"
	"sort"
	"strconv"
	"strings"
	"time"

	"github.com/Chocapikk/pgread/pgdump"
)

// every []byte / string entry point; p is a type oid / small integer parameter
var c10Entries = map[string]func(b []byte, p int) interface{}{
	"ParsePage":      func(b []byte, p int) interface{} { return c10r(pgdump.ParsePage(b)) },
	"ParseHeapTuple": func(b []byte, p int) interface{} { return c10r(pgdump.ParseHeapTuple(b)) },
	"ReadTuples":     func(b []byte, p int) interface{} { return c10r(pgdump.ReadTuples(b, p%2 == 0)) },
	"ParseFile":      func(b []byte, p int) interface{} { return c10r(pgdump.ParseFile(b)) },
	"ReadRows": func(b []byte, p int) interface{} {
		return c10r(pgdump.ReadRows(b, c10cols([]pgdump.Column{{Name: "a", TypID: pgdump.OidInt4, Len: 4, Align: 'i'}, {Name: "b", TypID: p, Len: -1, Align: 'i'}, {Name: "c", TypID: pgdump.OidName, Len: 64, Align: 'c'}}), p%2 == 0))
	},
	"ReadVarlena": func(b []byte, p int) interface{} { return c10r(pgdump.ReadVarlena(b)) },
	"DecodeTuple": func(b []byte, p int) interface{} {
		bm := b
		if len(bm) > 3 {
			bm = bm[:3:3]
		}
		return c10r(pgdump.DecodeTuple(&pgdump.HeapTupleData{Header: &pgdump.HeapTupleHeader{Natts: p % 7, HasNull: p%2 == 0}, Bitmap: bm, Data: b},
			c10cols([]pgdump.Column{{Name: "a", TypID: p, Len: -1, Align: 'i'}, {Name: "b", TypID: p, Len: p % 40, Align: byte(p)}, {Name: "c", TypID: pgdump.OidText, Len: -2, Num: 9}, {Name: "d", TypID: p, Len: -1, Align: 'd'}})))
	},
	"ParsePGDatabase":     func(b []byte, p int) interface{} { return c10r(pgdump.ParsePGDatabase(b)) },
	"ParsePGClass":        func(b []byte, p int) interface{} { return c10r(pgdump.ParsePGClass(b)) },
	"ParsePGAttribute":    func(b []byte, p int) interface{} { return c10r(pgdump.ParsePGAttribute(b, []int{0, 12, 15, 16}[p%4])) },
	"ParsePGAuthID":       func(b []byte, p int) interface{} { return c10r(pgdump.ParsePGAuthID(b)) },
	// dropped.go: the pg_attribute readers that keep dropped columns, and the schema they rebuild
	"parseDroppedColumns": func(b []byte, p int) interface{} {
		return c10r(pgdump.VerifParseDroppedColumns(b, map[uint32]string{uint32(p): "t", 1259: "pg_class"}))
	},
	"parseAllAttributes": func(b []byte, p int) interface{} {
		a := pgdump.VerifParseAllAttributes(b, uint32(p))
		return c10r(a, pgdump.VerifBuildColumnsWithDropped(a))
	},
	"ParseTOASTPointer":   func(b []byte, p int) interface{} { return c10r(pgdump.ParseTOASTPointer(b)) },
	"IsTOASTPointer":      func(b []byte, p int) interface{} { return c10r(pgdump.IsTOASTPointer(b)) },
	"ReadTOASTTable":      func(b []byte, p int) interface{} { return c10r(pgdump.ReadTOASTTable(b)) },
	"GetTOASTVerboseInfo": func(b []byte, p int) interface{} { return c10r(pgdump.GetTOASTVerboseInfo(uint32(p), b)) },
	"ReassembleTOAST": func(b []byte, p int) interface{} {
		chunks := pgdump.ReadTOASTTable(b)
		chunks = append(chunks, pgdump.TOASTChunk{ChunkID: 7, ChunkSeq: 0, Data: b})
		ptr := pgdump.ParseTOASTPointer(b)
		out := []interface{}{pgdump.ReassembleTOAST(chunks, 7, ptr)}
		// every value stored in the relation itself (its chunk data slices alias the input file: reassembly must copy,
		// not append into them; seeded change C10-2), without a pointer and with pointers claiming each method
		seen := map[uint32]bool{}
		for _, c := range chunks {
			if !seen[c.ChunkID] && len(seen) < 12 {
				seen[c.ChunkID] = true
				out = append(out, pgdump.ReassembleTOAST(chunks, c.ChunkID, nil))
				out = append(out, pgdump.ReassembleTOAST(chunks, c.ChunkID, &pgdump.TOASTPointer{RawSize: uint32(p), ExtSize: uint32(len(c.Data)), ValueID: c.ChunkID, IsCompressed: p%2 == 1, CompressionMethod: p % 3}))
			}
		}
		if ptr != nil {
			out = append(out, pgdump.ReassembleTOAST(chunks, ptr.ValueID, ptr))
		}
		for _, m := range []int{0, 1} {
			out = append(out, pgdump.ReassembleTOAST(chunks, 7, &pgdump.TOASTPointer{RawSize: 0xFFFFFFFF, ExtSize: uint32(len(b)), ValueID: 7, IsCompressed: true, CompressionMethod: m}))
			out = append(out, pgdump.ReassembleTOAST(chunks, 7, &pgdump.TOASTPointer{RawSize: uint32(p), ExtSize: uint32(len(b)), ValueID: 7, IsCompressed: true, CompressionMethod: m}))
		}
		return out
	},
	"TOASTReader": func(b []byte, p int) interface{} {
		r := pgdump.NewTOASTReader()
		r.LoadTOASTTable(uint32(p), b)
		return c10r(r.ReadValue(b))
	},
	"decompressPGLZ": func(b []byte, p int) interface{} {
		return []interface{}{c10r(pgdump.VerifDecompressPGLZ(b, p)), c10r(pgdump.VerifDecompressPGLZ(b, 1<<30)), c10r(pgdump.VerifDecompressPGLZ(b, -1))}
	},
	"decompressLZ4": func(b []byte, p int) interface{} {
		return []interface{}{c10r(pgdump.VerifDecompressLZ4(b, p)), c10r(pgdump.VerifDecompressLZ4(b, 1<<30)), c10r(pgdump.VerifDecompressLZ4(b, -1))}
	},
	"DecodeType": func(b []byte, p int) interface{} {
		out := []interface{}{pgdump.DecodeType(b, p)}
		for _, oid := range c10Oids {
			out = append(out, pgdump.DecodeType(b, oid))
		}
		return out
	},
	"ParseJSONB":          func(b []byte, p int) interface{} { return c10r(pgdump.ParseJSONB(b)) },
	"DecodeNumeric":       func(b []byte, p int) interface{} { return c10r(pgdump.DecodeNumeric(b)) },
	"ParseControlFile":    func(b []byte, p int) interface{} { return c10r(pgdump.ParseControlFile(b)) },
	"ParseWALFile":        func(b []byte, p int) interface{} { return c10r(pgdump.ParseWALFile(b)) },
	"ParseIndexFile":      func(b []byte, p int) interface{} { return c10r(pgdump.ParseIndexFile(b)) },
	"ParseSequenceFile":   func(b []byte, p int) interface{} { return c10r(pgdump.ParseSequenceFile(b)) },
	"IsSequenceFile":      func(b []byte, p int) interface{} { return c10r(pgdump.IsSequenceFile(b)) },
	"ParseRelMapFile":     func(b []byte, p int) interface{} { return c10r(pgdump.ParseRelMapFile(b)) },
	"VerifyPageChecksum":  func(b []byte, p int) interface{} { return c10r(pgdump.VerifyPageChecksum(b, uint32(p))) },
	"VerifyFileChecksums": func(b []byte, p int) interface{} { return c10r(pgdump.VerifyFileChecksums(b, uint32(p))) },
	"ParseBlockInfo":      func(b []byte, p int) interface{} { return c10r(pgdump.ParseBlockInfo(b, uint32(p))) },
	"FormatBinaryDump":    func(b []byte, p int) interface{} { return c10r(pgdump.FormatBinaryDump(b)) },
	"ParseBlockRange":     func(b []byte, p int) interface{} { return c10r(pgdump.ParseBlockRange(string(b))) },
	"quoteIdent":          func(b []byte, p int) interface{} { return c10r(pgdump.VerifQuoteIdent(string(b))) },
	"quoteLiteral":        func(b []byte, p int) interface{} { return c10r(pgdump.VerifQuoteLiteral(string(b))) },
	"formatSQLValue": func(b []byte, p int) interface{} {
		var out []interface{}
		for _, v := range c10Values(b) {
			out = append(out, pgdump.VerifFormatSQLValue(v, p))
		}
		return out
	},
	"mapToJSON": func(b []byte, p int) interface{} {
		return c10r(pgdump.VerifMapToJSON(map[string]interface{}{string(b): c10Values(b), "k": string(b)}))
	},
	"formatCSVValue": func(b []byte, p int) interface{} {
		var out []interface{}
		for _, v := range c10Values(b) {
			out = append(out, pgdump.VerifFormatCSVValue(v))
		}
		return out
	},
	"SearchInDump": func(b []byte, p int) interface{} {
		d := c10Dump(b)
		return c10r(pgdump.SearchInDump(d, &pgdump.SearchOptions{Pattern: string(b), MaxResults: p % 3, IncludeRow: p%2 == 0, CaseSensitive: p%5 == 0}))
	},
	"ToSQLCSV": func(b []byte, p int) interface{} {
		d := c10Dump(b)
		var w bytes.Buffer
		d.ToSQL(&w)
		d.ToCSV(&w)
		return len(w.Bytes()) // the SQL text carries a generation timestamp; its length does not
	},
	"ReadDeletedRows": func(b []byte, p int) interface{} {
		return c10r(pgdump.ReadDeletedRows(b, c10cols([]pgdump.Column{{Name: "a", TypID: p, Len: -1, Align: 'i'}})))
	},
	"ReadRowsWithDeleted": func(b []byte, p int) interface{} {
		return c10r(pgdump.ReadRowsWithDeleted(b, c10cols([]pgdump.Column{{Name: "a", TypID: pgdump.OidInt4, Len: 4, Align: 'i'}, {Name: "b", TypID: p, Len: -1, Align: 'i'}})))
	},
	"parseBlockRefs":  func(b []byte, p int) interface{} { return c10r(pgdump.VerifParseBlockRefs(b)) },
	"parseWALPage":    func(b []byte, p int) interface{} { return c10r(pgdump.VerifParseWALPage(b, uint64(p), p%3)) },
	"detectIndexType": func(b []byte, p int) interface{} { return c10r(pgdump.VerifDetectIndexType(b)) },
	// unexported helpers that slice on their own: index special-space and metapage parsers (called with the raw
	// special space / page), WAL record and page headers, sequence tuple, JSONB helpers, scalar sub-decoders
	"parseSpecial": func(b []byte, p int) interface{} {
		var out []interface{}
		for _, f := range []func(*pgdump.IndexPageInfo, []byte){pgdump.VerifParseBTreePageSpecial, pgdump.VerifParseHashPageSpecial,
			pgdump.VerifParseGiSTPageSpecial, pgdump.VerifParseGINPageSpecial, pgdump.VerifParseSPGiSTPageSpecial, pgdump.VerifParseBRINPageSpecial} {
			info := pgdump.IndexPageInfo{}
			f(&info, b)
			out = append(out, info)
		}
		return out
	},
	"parseMeta": func(b []byte, p int) interface{} {
		return []interface{}{pgdump.VerifParseBTreeMeta(b), pgdump.VerifParseHashMeta(b), pgdump.VerifParseGINMeta(b)}
	},
	"parseIndexPage": func(b []byte, p int) interface{} {
		var out []interface{}
		for t := -1; t <= 7; t++ {
			out = append(out, pgdump.VerifParseIndexPage(b, uint32(p), pgdump.IndexType(t)))
		}
		return out
	},
	"parseXLogRecord":    func(b []byte, p int) interface{} { return c10r(pgdump.VerifParseXLogRecord(b, uint64(p))) },
	"parseSequenceTuple": func(b []byte, p int) interface{} { return c10r(pgdump.VerifParseSequenceTuple(b)) },
}

// c10r collects the (possibly several) results of a call
func c10r(vals ...interface{}) interface{} { return vals }

// schemas handed to entry points are inputs too: c10cols registers each one with a copy, c10colsChanged compares and
// empties the registry ("never modifies the input"; seeded change C10-17: DecodeTuple wrote defaulted attribute numbers
// back into the caller's columns)
type c10colSnap struct{ live, copy []pgdump.Column }

var c10colReg []c10colSnap

func c10cols(cols []pgdump.Column) []pgdump.Column {
	c10colReg = append(c10colReg, c10colSnap{cols, append([]pgdump.Column(nil), cols...)})
	return cols
}

func c10colsChanged() bool {
	bad := false
	for _, s := range c10colReg {
		for i := range s.copy {
			if s.live[i] != s.copy[i] {
				bad = true
			}
		}
	}
	c10colReg = c10colReg[:0]
	return bad
}

// deepStr renders any result structurally (pointers followed, map keys sorted, floats by bits, errors by text),
// so that two runs can be compared for equality
func deepStr(v interface{}) string {
	var sb strings.Builder
	deepWrite(&sb, reflect.ValueOf(v), 0)
	return sb.String()
}

func deepWrite(sb *strings.Builder, v reflect.Value, depth int) {
	if !v.IsValid() {
		sb.WriteString("nil")
		return
	}
	if depth > 40 {
		sb.WriteString("<deep>")
		return
	}
	if v.CanInterface() {
		switch x := v.Interface().(type) {
		case error:
			if x == nil {
				sb.WriteString("nil")
			} else {
				sb.WriteString("err(" + x.Error() + ")")
			}
			return
		case time.Time:
			fmt.Fprintf(sb, "time(%d)", x.UnixNano())
			return
		}
	}
	switch v.Kind() {
	case reflect.Ptr, reflect.Interface:
		if v.IsNil() {
			sb.WriteString("nil")
			return
		}
		sb.WriteString("&")
		deepWrite(sb, v.Elem(), depth+1)
	case reflect.Struct:
		sb.WriteString("{")
		for i := 0; i < v.NumField(); i++ {
			sb.WriteString(v.Type().Field(i).Name + ":")
			deepWrite(sb, v.Field(i), depth+1)
			sb.WriteString(";")
		}
		sb.WriteString("}")
	case reflect.Slice, reflect.Array:
		if v.Kind() == reflect.Slice && v.IsNil() {
			sb.WriteString("nilslice")
			return
		}
		if v.Type().Elem().Kind() == reflect.Uint8 {
			b := make([]byte, v.Len())
			for i := range b {
				b[i] = byte(v.Index(i).Uint())
			}
			sb.WriteString("y" + hex.EncodeToString(b))
			return
		}
		sb.WriteString("[")
		for i := 0; i < v.Len(); i++ {
			deepWrite(sb, v.Index(i), depth+1)
			sb.WriteString(",")
		}
		sb.WriteString("]")
	case reflect.Map:
		if v.IsNil() {
			sb.WriteString("nilmap")
			return
		}
		var parts []string
		it := v.MapRange()
		for it.Next() {
			var e strings.Builder
			deepWrite(&e, it.Key(), depth+1)
			e.WriteString("=>")
			deepWrite(&e, it.Value(), depth+1)
			parts = append(parts, e.String())
		}
		sort.Strings(parts)
		sb.WriteString("map[" + strings.Join(parts, ",") + "]")
	case reflect.Float32, reflect.Float64:
		fmt.Fprintf(sb, "f%016x", math.Float64bits(v.Float()))
	case reflect.String:
		sb.WriteString("s" + hex.EncodeToString([]byte(v.String())))
	case reflect.Bool:
		fmt.Fprintf(sb, "%t", v.Bool())
	case reflect.Int, reflect.Int8, reflect.Int16, reflect.Int32, reflect.Int64:
		fmt.Fprintf(sb, "%d", v.Int())
	case reflect.Uint, reflect.Uint8, reflect.Uint16, reflect.Uint32, reflect.Uint64, reflect.Uintptr:
		fmt.Fprintf(sb, "%d", v.Uint())
	default:
		sb.WriteString("<" + v.Kind().String() + ">")
	}
}

var c10Oids = []int{16, 17, 18, 19, 20, 21, 23, 25, 26, 27, 28, 29, 114, 142, 600, 601, 602, 603, 604, 628, 650, 700, 701, 718, 774, 790, 829, 869,
	1042, 1043, 1082, 1083, 1114, 1184, 1186, 1266, 1560, 1562, 1700, 2950, 3220, 3614, 3615, 3802, 3904, 3906, 3908, 3910, 3912, 3926, 4072,
	1000, 1001, 1003, 1005, 1007, 1009, 1016, 1021, 1022, 1231, 1115, 1182, 2951, 3807, 1010, 1017, 1040, 1041, 1270, 1561, 0, 99999}

func c10Values(b []byte) []interface{} {
	s := string(b)
	return []interface{}{nil, s, []byte(s), true, int32(len(b)), float64(len(b)) / 3, []interface{}{s, nil, []interface{}{s}},
		map[string]interface{}{s: s, "n": []interface{}{s, map[string]interface{}{s: nil}}}}
}

func c10Dump(b []byte) *pgdump.DumpResult {
	s := string(b)
	row := map[string]interface{}{s: s, "c": c10Values(b)}
	t := pgdump.TableDump{Name: s, Kind: "r", Columns: []pgdump.ColumnInfo{{Name: s, Type: "text", TypID: 25}, {Name: "c", Type: s, TypID: 0}},
		Rows: []map[string]interface{}{row, row}, RowCount: 2}
	return &pgdump.DumpResult{Databases: []pgdump.DatabaseDump{{Name: s, Tables: []pgdump.TableDump{t, t}}}}
}

// c10Sweep runs an entry point on a family of variants of one input inside ONE case (no model is involved, so this
// costs microseconds per variant): every prefix (all lengths up to 300, then every 61st), and single-bit flips /
// boundary byte values over the first 96 bytes and the last 16.  The first variant that panics or leaves the buffer
// changed is named in the result.
func c10Sweep(f func(b []byte, p int) interface{}, v []byte, p int, mode string) (res string) {
	try := func(x []byte, what string) (bad string) {
		buf := append(make([]byte, 0, len(x)+8), x...)
		buf = append(buf, 0xEE, 0xEE, 0xEE, 0xEE, 0xEE, 0xEE, 0xEE, 0xEE)
		snap := append([]byte(nil), buf...)
		defer func() {
			if r := recover(); r != nil {
				bad = "panic-on-" + what
			}
		}()
		f(buf[:len(x):len(x)+8], p)
		if !bytes.Equal(snap, buf) {
			return "MUTATED-INPUT-on-" + what
		}
		if c10colsChanged() {
			return "MUTATED-INPUT-schema-on-" + what
		}
		return ""
	}
	switch mode {
	case "prefix":
		for n := 0; n <= len(v); n++ {
			if n > 300 && n%61 != 0 && n != len(v) {
				continue
			}
			if bad := try(v[:n], fmt.Sprintf("prefix-%d-of-%d", n, len(v))); bad != "" {
				return bad
			}
		}
	case "lp":
		// page-shaped input: each of the first four line pointers gets every length 0..48 (tuple header guards 23/24, item
		// header 8) and a set of hostile offsets, the other fields kept (seeded change C10-4: lp_len exactly 23)
		if len(v) < 8192 {
			return "ok"
		}
		x := append([]byte(nil), v...)
		for i := 0; i < 4; i++ {
			base := 24 + 4*i
			w := uint32(x[base]) | uint32(x[base+1])<<8 | uint32(x[base+2])<<16 | uint32(x[base+3])<<24
			put := func(nw uint32) {
				x[base], x[base+1], x[base+2], x[base+3] = byte(nw), byte(nw>>8), byte(nw>>16), byte(nw>>24)
			}
			for l := uint32(0); l <= 48; l++ {
				put(w&0x0001ffff | l<<17)
				if bad := try(x, fmt.Sprintf("lp%d-len-%d", i, l)); bad != "" {
					return bad
				}
				put(w&0x00018000 | l<<17 | 1<<15 | (8192 - l)) // NORMAL, ending exactly at the page end
				if bad := try(x, fmt.Sprintf("lp%d-len-%d-at-page-end", i, l)); bad != "" {
					return bad
				}
			}
			for _, off := range []uint32{0, 1, 23, 24, 28, 8168, 8169, 8176, 8184, 8191, 8192, 32767} {
				put(w&0xffff8000 | off)
				if bad := try(x, fmt.Sprintf("lp%d-off-%d", i, off)); bad != "" {
					return bad
				}
			}
			put(w)
		}
	case "smallint":
		// every 4-aligned 32-bit word of the first 400 bytes gets the small values 0..9 and all-ones: enumeration fields
		// indexing a name table (state, wal_level, ...), counts and versions sit there (seeded change C10-7: wal_level 3)
		x := append([]byte(nil), v...)
		for off := 0; off+4 <= len(x) && off < 400; off += 4 {
			var old [4]byte
			copy(old[:], x[off:off+4])
			for _, val := range []uint32{0, 1, 2, 3, 4, 5, 6, 7, 8, 9, 0xFFFFFFFF} {
				x[off], x[off+1], x[off+2], x[off+3] = byte(val), byte(val>>8), byte(val>>16), byte(val>>24)
				if bad := try(x, fmt.Sprintf("u32-at-%d-set-to-%d", off, val)); bad != "" {
					return bad
				}
			}
			copy(x[off:off+4], old[:])
		}
	case "flip":
		x := append([]byte(nil), v...)
		for i := range x {
			if i >= 96 && i < len(x)-16 {
				continue
			}
			for bit := 0; bit < 8; bit++ {
				x[i] ^= 1 << bit
				if bad := try(x, fmt.Sprintf("bit-%d-of-byte-%d-flipped", bit, i)); bad != "" {
					return bad
				}
				x[i] ^= 1 << bit
			}
			for _, bv := range []byte{0x00, 0x7F, 0x80, 0xFF} {
				old := x[i]
				x[i] = bv
				if bad := try(x, fmt.Sprintf("byte-%d-set-to-%d", i, bv)); bad != "" {
					return bad
				}
				x[i] = old
			}
		}
	}
	return "ok"
}

func init() {
	register("NoPanicSweep", func(a []string) string {
		f, ok := c10Entries[a[0]]
		if !ok {
			return "harness-unknown-entry"
		}
		p, _ := strconv.Atoi(a[2])
		return c10Sweep(f, unhex(a[1]), p, a[3])
	})
	register("NoPanic", func(a []string) string {
		f, ok := c10Entries[a[0]]
		if !ok {
			return "harness-unknown-entry"
		}
		p, _ := strconv.Atoi(a[3])
		return withBuf(a[1], a[2], func(b []byte) string {
			var m0, m1 runtime.MemStats
			runtime.ReadMemStats(&m0)
			t0 := time.Now()
			c10colsChanged()
			r1 := f(b, p)
			el := time.Since(t0)
			runtime.ReadMemStats(&m1)
			if c10colsChanged() {
				return "MUTATED-INPUT-schema"
			}
			// the result must be a function of the len bytes only: run again on a copy whose spare capacity holds
			// the complemented tail plus 24 further bytes, and on an exact-size copy (cap = len)
			tl := b[len(b):cap(b)]
			b2 := make([]byte, 0, len(b)+len(tl)+24)
			b2 = append(b2, b...)
			for _, x := range tl {
				b2 = append(b2, ^x)
			}
			for i := 0; i < 24; i++ {
				b2 = append(b2, byte(0xA5+i))
			}
			b2 = b2[:len(b)]
			b3 := append(make([]byte, 0, len(b)), b...)
			s1 := deepStr(r1)
			// a difference counts only when it is reproducible: each buffer gives ONE result over eight more runs and
			// the two results differ (an operation whose result varies on the same buffer is nondeterministic - that is
			// property C11's business, and nothing about the tail follows from it)
			stable := func(x []byte, first string) bool {
				for i := 0; i < 8; i++ {
					if deepStr(f(x, p)) != first {
						return false
					}
				}
				return true
			}
			if s2 := deepStr(f(b2, p)); s2 != s1 && stable(b, s1) && stable(b2, s2) {
				return "result-depends-on-bytes-beyond-len"
			}
			if s3 := deepStr(f(b3, p)); s3 != s1 && stable(b, s1) && stable(b3, s3) {
				return "result-depends-on-capacity"
			}
			alloc := m1.TotalAlloc - m0.TotalAlloc
			// "a small multiple of what the input size warrants": several passes over the input, each allowed to
			// build text/structures a few dozen times the input, plus a fixed allowance
			if alloc > uint64(8<<20+4096*(len(b)+1)) {
				return fmt.Sprintf("over-allocation:%d-bytes-for-%d-input", alloc, len(b))
			}
			// time: 0.4 s + 40 us per input byte (a call normally takes microseconds; the allowance is two orders of
			// magnitude above that).  A measurement above the budget is repeated twice and the minimum counts, so that a
			// scheduling hiccup on a loaded machine is not mistaken for slow code.
			budget := 400*time.Millisecond + time.Duration(len(b))*40*time.Microsecond
			if el > budget {
				for i := 0; i < 2 && el > budget; i++ {
					t1 := time.Now()
					f(b, p)
					if e2 := time.Since(t1); e2 < el {
						el = e2
					}
				}
				if el > budget {
					return fmt.Sprintf("too-slow:%dms-for-%d-bytes", el.Milliseconds(), len(b))
				}
			}
			return "ok"
		})
	})
	// replacing one page by other bytes must leave the entries of all other pages unchanged
	register("LocalityPage", func(a []string) string {
		file, repl := unhex(a[0]), unhex(a[2])
		j, _ := strconv.Atoi(a[1])
		vo := a[3] == "true"
		dam := append([]byte{}, file...)
		copy(dam[j*8192:(j+1)*8192], repl)
		others := func(f []byte) string {
			var parts []string
			for _, e := range pgdump.ReadTuples(f, vo) {
				if e.PageOffset != j*8192 {
					parts = append(parts, cTuple(e.Tuple, e.PageOffset))
				}
			}
			return cList(parts)
		}
		if others(file) == others(dam) {
			return "ok"
		}
		return "page-locality-violated"
	})
	// functions that report on ONE page must not look at what follows it in the buffer: the result on data (>= one page)
	// equals the result on its first 8192 bytes (seeded change C10-9: ParseBlockInfo's empty-page test scanned the whole buffer)
	register("FirstPageOnly", func(a []string) string {
		data := unhex(a[1])
		if len(data) < 8192 {
			return "ok"
		}
		p, _ := strconv.Atoi(a[2])
		var f func(b []byte) interface{}
		switch a[0] {
		case "ParseBlockInfo":
			f = func(b []byte) interface{} { return pgdump.ParseBlockInfo(b, uint32(p)) }
		case "VerifyPageChecksum":
			f = func(b []byte) interface{} { return pgdump.VerifyPageChecksum(b, uint32(p)) }
		case "detectIndexType":
			f = func(b []byte) interface{} { return pgdump.VerifDetectIndexType(b) }
		default:
			return "harness-unknown-entry"
		}
		whole := append([]byte(nil), data...)
		first := append(make([]byte, 0, 8192), data[:8192]...)
		if deepStr(f(whole)) != deepStr(f(first)) {
			return "result-for-the-first-page-depends-on-later-bytes"
		}
		return "ok"
	})
	// overwriting the payload of ONE stored attribute must leave the decoded value of every other column unchanged
	// (theorem C10_value_local).  args: null bitmap (hex or "nil"), data area, damaged data area, attribute index
	register("LocalityValue", func(a []string) string {
		var bm []byte
		if a[0] != "nil" {
			bm = unhex(a[0])
		}
		j, _ := strconv.Atoi(a[3])
		cols := []pgdump.Column{{Name: "a", TypID: 23, Len: 4, Align: 'i'}, {Name: "b", TypID: 25, Len: -1, Align: 'i'},
			{Name: "c", TypID: 20, Len: 8, Align: 'd'}, {Name: "d", TypID: 25, Len: -1, Align: 'i'}, {Name: "e", TypID: 829, Len: 6, Align: 'i'}}
		dec := func(data []byte) map[string]interface{} {
			t := &pgdump.HeapTupleData{Header: &pgdump.HeapTupleHeader{Natts: 5, HasNull: bm != nil, THoff: 24}, Bitmap: bm, Data: data}
			return pgdump.DecodeTuple(t, cols)
		}
		r1, r2 := dec(unhex(a[1])), dec(unhex(a[2]))
		if r1 == nil || r2 == nil || len(r1) != 5 || len(r2) != 5 {
			return "row-missing"
		}
		for i, c := range cols {
			if i != j && canon(r1[c.Name]) != canon(r2[c.Name]) {
				return fmt.Sprintf("value-locality-violated:col-%s", c.Name)
			}
		}
		return "ok"
	})
	// WAL page locality (theorems C10_wal_page_local / C10_wal_page_damage_local): for the file as it is and with page j
	// replaced, the records ParseWALFile reports are those of the bytes before page j, then those parseWALPage reports for
	// page j ON ITS OWN (exact-size copy, a different base offset and page number), then those of the bytes after it -
	// so every other page's records are reported unchanged and in place.  args: file, page index, replacement page
	register("LocalityWAL", func(a []string) string {
		file, repl := unhex(a[0]), unhex(a[2])
		j, _ := strconv.Atoi(a[1])
		if len(repl) != 8192 || (j+1)*8192 > len(file) {
			return "harness-bad-case"
		}
		dam := append([]byte{}, file...)
		copy(dam[j*8192:(j+1)*8192], repl)
		strs := func(rs []pgdump.WALRecord) []string {
			out := make([]string, 0, len(rs))
			for _, r := range rs {
				out = append(out, deepStr(r))
			}
			return out
		}
		fileRecs := func(b []byte) []string { r, _ := pgdump.ParseWALFile(append([]byte{}, b...)); return strs(r) }
		pageRecs := func(b []byte) []string {
			r, _ := pgdump.VerifParseWALPage(append([]byte{}, b...), 0x123456789, 77)
			return strs(r)
		}
		split := func(f []byte) (string, string, string) { // "" when the decomposition fails
			pre, mid, post := fileRecs(f[:j*8192]), pageRecs(f[j*8192:(j+1)*8192]), fileRecs(f[(j+1)*8192:])
			all := append(append(append([]string{}, pre...), mid...), post...)
			if cList(all) != cList(fileRecs(f)) {
				return "", "", ""
			}
			return "p" + cList(pre), cList(mid), "s" + cList(post)
		}
		p1, _, s1 := split(file)
		p2, _, s2 := split(dam)
		if p1 == "" {
			return "wal-file-is-not-the-concatenation-of-its-pages"
		}
		if p2 == "" {
			return "wal-page-locality-violated:damaged-file-is-not-the-concatenation-of-its-pages"
		}
		if p1 != p2 || s1 != s2 {
			return "wal-page-locality-violated"
		}
		if len(file)/24 < len(fileRecs(file)) || len(dam)/24 < len(fileRecs(dam)) { // C10_cost_ParseWALFile
			return "wal-more-than-one-record-per-24-bytes"
		}
		return "ok"
	})
	// index page locality (theorems C10_index_entry_local / C10_index_page_damage_local): entry i of ParseIndexFile is
	// parseIndexPage of page i on its own (exact-size copy) with the method detectIndexType finds on the first page; and
	// when a page j <> 0 is replaced, type, totals, metapage summary and every entry but j are unchanged.
	register("LocalityIndex", func(a []string) string {
		file, repl := unhex(a[0]), unhex(a[2])
		j, _ := strconv.Atoi(a[1])
		if len(repl) != 8192 || (j+1)*8192 > len(file) {
			return "harness-bad-case"
		}
		dam := append([]byte{}, file...)
		copy(dam[j*8192:(j+1)*8192], repl)
		pointwise := func(f []byte) (*pgdump.IndexInfo, string) {
			info, err := pgdump.ParseIndexFile(append([]byte{}, f...))
			if err != nil || info == nil {
				return nil, "index-file-rejected"
			}
			ty := pgdump.VerifDetectIndexType(append([]byte{}, f[:8192]...))
			if info.Type != ty || info.TotalPages != len(f)/8192 || len(info.Pages) != len(f)/8192 { // C10_cost_ParseIndexFile
				return nil, "index-type-or-page-count-not-from-first-page-and-length"
			}
			for i := range info.Pages {
				own := pgdump.VerifParseIndexPage(append([]byte{}, f[i*8192:(i+1)*8192]...), uint32(i), ty)
				if deepStr(own) != deepStr(info.Pages[i]) {
					return nil, fmt.Sprintf("index-entry-%d-is-not-a-function-of-its-page", i)
				}
			}
			return info, ""
		}
		i1, e1 := pointwise(file)
		if e1 != "" {
			return e1
		}
		i2, e2 := pointwise(dam)
		if e2 != "" {
			return "damaged:" + e2
		}
		if j != 0 {
			if i1.Type != i2.Type || i1.TypeString != i2.TypeString || i1.TotalPages != i2.TotalPages || i1.Levels != i2.Levels ||
				i1.RootPage != i2.RootPage || deepStr(i1.Meta) != deepStr(i2.Meta) {
				return "index-page-locality-violated:summary"
			}
			for i := range i1.Pages {
				if i != j && deepStr(i1.Pages[i]) != deepStr(i2.Pages[i]) {
					return fmt.Sprintf("index-page-locality-violated:entry-%d", i)
				}
			}
		}
		return "ok"
	})
	// replacing the bytes of one tuple must leave every other line pointer's entry unchanged
	register("LocalityTuple", func(a []string) string {
		page, repl := unhex(a[0]), unhex(a[3])
		off, _ := strconv.Atoi(a[1])
		ln, _ := strconv.Atoi(a[2])
		dam := append([]byte{}, page...)
		copy(dam[off:off+ln], repl)
		others := func(pg []byte) string {
			var parts []string
			for _, e := range pgdump.ParsePage(pg) {
				start := cap(pg) - cap(e.Tuple.Data) - int(e.Tuple.Header.THoff) // item offset of this entry
				if start+0 >= off && start < off+ln {
					continue
				}
				parts = append(parts, fmt.Sprintf("%d:", start)+cTuple(e.Tuple, 0))
			}
			return cList(parts)
		}
		if others(page) == others(dam) {
			return "ok"
		}
		return "tuple-locality-violated"
	})
}
