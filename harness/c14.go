package main

import (
	"bytes"
	"errors"
	"fmt"
	"os"
	"os/exec"
	"path/filepath"

	"github.com/Chocapikk/pgread/pgdump"
)

// ---- canonical rendering (must agree with driver/C14/gen.ml) ----

func c14Auth(a pgdump.AuthInfo) string {
	return cRec(kv{"oid", fmt.Sprint(a.OID)}, kv{"name", cStr(a.RoleName)}, kv{"pw", cStr(a.Password)},
		kv{"super", cBool(a.RolSuper)}, kv{"login", cBool(a.RolLogin)})
}

func c14Auths(l []pgdump.AuthInfo) string {
	parts := make([]string, len(l))
	for i, a := range l {
		parts[i] = c14Auth(a)
	}
	return cList(parts)
}

func c14OptAuths(l []pgdump.AuthInfo, err error) string {
	if err != nil {
		return "err"
	}
	return c14Auths(l)
}

var c14seq int

// c14dir materialises a data directory: global/1260 (when present) plus decoy files a wrong path would hit.
func c14dir(present bool, file, decoy []byte) (string, map[string][]byte) {
	c14seq++
	d := filepath.Join(os.Getenv("VERIF_TMP"), fmt.Sprintf("c14-%d", c14seq))
	os.RemoveAll(d)
	files := map[string][]byte{}
	if present {
		files["global/1260"] = file
	}
	if len(decoy) > 0 {
		files["global/1261"] = decoy
		files["base/1/1260"] = decoy
		files["1260"] = decoy
	}
	if err := os.MkdirAll(filepath.Join(d, "global"), 0o755); err != nil {
		panic("harness: " + err.Error())
	}
	for rel, data := range files {
		p := filepath.Join(d, filepath.FromSlash(rel))
		if err := os.MkdirAll(filepath.Dir(p), 0o755); err != nil {
			panic("harness: " + err.Error())
		}
		if err := os.WriteFile(p, data, 0o644); err != nil {
			panic("harness: " + err.Error())
		}
	}
	return d, files
}

func init() {
	// two files parsed one after the other; the FIRST result is rendered only after the second parse: a returned list must
	// not share storage with what a later call returns (seeded change C14-14: package-level scratch slice)
	register("ParsePGAuthIDHold", func(a []string) string {
		ra := pgdump.ParsePGAuthID(unhex(a[0]))
		rb := pgdump.ParsePGAuthID(unhex(a[1]))
		return c14Auths(ra) + ";" + c14Auths(rb)
	})
	register("ParsePGAuthID", func(a []string) string {
		return withBuf(a[0], a[1], func(b []byte) string {
			r := pgdump.ParsePGAuthID(b)
			return held(func() string { return c14Auths(r) })
		})
	})

	// every library entry point on the same data directory
	register("Extract", func(a []string) string {
		present := a[0] == "1"
		file, decoy := unhex(a[1]), unhex(a[2])
		dir, files := c14dir(present, file, decoy)
		defer os.RemoveAll(dir)
		reader := func(path string) ([]byte, error) {
			if d, ok := files[path]; ok {
				// hand out a private copy with spare capacity, as a network reader would
				buf := make([]byte, len(d), len(d)+37)
				copy(buf, d)
				return buf, nil
			}
			return nil, errors.New("no such file")
		}
		ep, err1 := pgdump.ExtractPasswords(dir)
		epf, err2 := pgdump.ExtractPasswordsFromFiles(reader)
		cred := pgdump.NewRemoteClient(reader).Credentials()
		return cRec(kv{"ep", c14OptAuths(ep, err1)}, kv{"epf", c14OptAuths(epf, err2)}, kv{"cred", c14Auths(cred)})
	})

	// the CLI as a subprocess: pgread -d <dir> -passwords=<sel>
	register("CLI", func(a []string) string {
		cli := os.Getenv("PGREAD_CLI")
		if cli == "" {
			return "harness-no-cli"
		}
		sel := unhex(a[0])
		present := a[1] == "1"
		dir, _ := c14dir(present, unhex(a[2]), nil)
		defer os.RemoveAll(dir)
		cmd := exec.Command(cli, "-d", dir, "-passwords="+string(sel))
		var out, errb bytes.Buffer
		cmd.Stdout, cmd.Stderr = &out, &errb
		code := 0
		if err := cmd.Run(); err != nil {
			var ee *exec.ExitError
			if errors.As(err, &ee) {
				code = ee.ExitCode()
			} else {
				return "harness-exec-error:" + err.Error()
			}
		}
		return cRec(kv{"out", cStr(out.String())}, kv{"code", fmt.Sprint(code)})
	})
}
