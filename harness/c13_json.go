package main

// Go port of the RFC 8259 reader json_value / json_elements / json_members / json_string /
// json_num_ok / json_read of coq/C13/Spec.v (including its fuel), compared with the extracted Coq
// reader by JsonCheck.  Values are rendered canonically while reading.

import (
	"bytes"
	"encoding/hex"
	"strings"
)

func jsWs(c byte) bool { return c == ' ' || c == 9 || c == 10 || c == 13 }
func jsSkip(t []byte, i int) int {
	for i < len(t) && jsWs(t[i]) {
		i++
	}
	return i
}
func jsNumChar(c byte) bool {
	return lxDigit(c) || c == '-' || c == '+' || c == '.' || c == 'e' || c == 'E'
}

// json_exp_ok
func jsExpOK(r []byte) bool {
	if len(r) == 0 {
		return true
	}
	if r[0] != 'e' && r[0] != 'E' {
		return false
	}
	r2 := r[1:]
	if len(r2) > 0 && (r2[0] == '+' || r2[0] == '-') {
		r2 = r2[1:]
	}
	return len(r2) > 0 && allDigits(r2)
}

// json_num_ok
func jsNumOK(t []byte) bool {
	t1 := t
	if len(t) > 0 && t[0] == '-' {
		t1 = t[1:]
	}
	e := lxSpan(t1, 0, lxDigit)
	ip, r1 := t1[:e], t1[e:]
	if len(ip) == 0 || (len(ip) >= 2 && ip[0] == '0') {
		return false
	}
	if len(r1) == 0 {
		return true
	}
	if r1[0] == '.' {
		f := lxSpan(r1, 1, lxDigit)
		return f > 1 && jsExpOK(r1[f:])
	}
	return jsExpOK(r1)
}

func jsHexVal(c byte) (int, bool) {
	switch {
	case c >= '0' && c <= '9':
		return int(c - '0'), true
	case c >= 'a' && c <= 'f':
		return int(c-'a') + 10, true
	case c >= 'A' && c <= 'F':
		return int(c-'A') + 10, true
	}
	return 0, false
}

// utf8_enc: BMP code point, surrogates rejected
func jsUTF8(cp int) ([]byte, bool) {
	switch {
	case cp < 128:
		return []byte{byte(cp)}, true
	case cp < 2048:
		return []byte{byte(192 + cp/64), byte(128 + cp%64)}, true
	case cp >= 55296 && cp <= 57343:
		return nil, false
	}
	return []byte{byte(224 + cp/4096), byte(128 + (cp/64)%64), byte(128 + cp%64)}, true
}

// json_string: i is just after the opening quote
func jsString(t []byte, i int) ([]byte, int, bool) {
	out := []byte{}
	for {
		if i >= len(t) {
			return nil, 0, false
		}
		c := t[i]
		switch {
		case c == '"':
			return out, i + 1, true
		case c < 32:
			return nil, 0, false
		case c == '\\':
			if i+1 >= len(t) {
				return nil, 0, false
			}
			e := t[i+1]
			if e == 'u' {
				if i+6 > len(t) {
					return nil, 0, false
				}
				cp := 0
				for k := 2; k < 6; k++ {
					h, ok := jsHexVal(t[i+k])
					if !ok {
						return nil, 0, false
					}
					cp = cp*16 + h
				}
				u, ok := jsUTF8(cp)
				if !ok {
					return nil, 0, false
				}
				out = append(out, u...)
				i += 6
				continue
			}
			var x byte
			switch e {
			case '"', '\\', '/':
				x = e
			case 'b':
				x = 8
			case 'f':
				x = 12
			case 'n':
				x = 10
			case 'r':
				x = 13
			case 't':
				x = 9
			default:
				return nil, 0, false
			}
			out = append(out, x)
			i += 2
		default:
			out = append(out, c)
			i++
		}
	}
}

// json_value fuel t
func jsValue(fuel int, t []byte, i int) (string, int, bool) {
	if fuel <= 0 {
		return "", 0, false
	}
	f := fuel - 1
	i = jsSkip(t, i)
	if i >= len(t) {
		return "", 0, false
	}
	c := t[i]
	switch {
	case c == '"':
		s, rest, ok := jsString(t, i+1)
		if !ok {
			return "", 0, false
		}
		return "S:" + hex.EncodeToString(s), rest, true
	case c == '{':
		j := jsSkip(t, i+1)
		if j >= len(t) {
			return "", 0, false
		}
		if t[j] == '}' {
			return "O{}", j + 1, true
		}
		m, rest, ok := jsMembers(f, t, j)
		if !ok {
			return "", 0, false
		}
		return "O{" + strings.Join(m, ";") + "}", rest, true
	case c == '[':
		j := jsSkip(t, i+1)
		if j >= len(t) {
			return "", 0, false
		}
		if t[j] == ']' {
			return "A[]", j + 1, true
		}
		l, rest, ok := jsElements(f, t, j)
		if !ok {
			return "", 0, false
		}
		return "A[" + strings.Join(l, ";") + "]", rest, true
	case bytes.HasPrefix(t[i:], []byte("null")):
		return "NULL", i + 4, true
	case bytes.HasPrefix(t[i:], []byte("true")):
		return "T", i + 4, true
	case bytes.HasPrefix(t[i:], []byte("false")):
		return "F", i + 5, true
	}
	e := lxSpan(t, i, jsNumChar)
	if !jsNumOK(t[i:e]) {
		return "", 0, false
	}
	return "N:" + hex.EncodeToString(t[i:e]), e, true
}

// json_elements fuel t
func jsElements(fuel int, t []byte, i int) ([]string, int, bool) {
	var out []string
	for {
		if fuel <= 0 {
			return nil, 0, false
		}
		f := fuel - 1
		v, r, ok := jsValue(f, t, i)
		if !ok {
			return nil, 0, false
		}
		out = append(out, v)
		r = jsSkip(t, r)
		if r >= len(t) {
			return nil, 0, false
		}
		switch t[r] {
		case ',':
			fuel, i = f, r+1
		case ']':
			return out, r + 1, true
		default:
			return nil, 0, false
		}
	}
}

// json_members fuel t
func jsMembers(fuel int, t []byte, i int) ([]string, int, bool) {
	var out []string
	for {
		if fuel <= 0 {
			return nil, 0, false
		}
		f := fuel - 1
		i = jsSkip(t, i)
		if i >= len(t) || t[i] != '"' {
			return nil, 0, false
		}
		k, r1, ok := jsString(t, i+1)
		if !ok {
			return nil, 0, false
		}
		r1 = jsSkip(t, r1)
		if r1 >= len(t) || t[r1] != ':' {
			return nil, 0, false
		}
		v, r3, ok := jsValue(f, t, r1+1)
		if !ok {
			return nil, 0, false
		}
		out = append(out, hex.EncodeToString(k)+"="+v)
		r3 = jsSkip(t, r3)
		if r3 >= len(t) {
			return nil, 0, false
		}
		switch t[r3] {
		case ',':
			fuel, i = f, r3+1
		case '}':
			return out, r3 + 1, true
		default:
			return nil, 0, false
		}
	}
}

// jsonCanon is json_read rendered canonically (JSONFAIL for None): NULL T F N:<hex> S:<hex>
// A[v;v] O{<hexkey>=v;...} with members in document order.
func jsonCanon(t []byte) string {
	v, rest, ok := jsValue(len(t)+1, t, 0)
	if !ok || jsSkip(t, rest) != len(t) {
		return "JSONFAIL"
	}
	return v
}
