package main

import (
	"encoding/json"
	"fmt"
	"math"
	"math/big"
	"regexp"
	"strconv"
	"strings"

	"github.com/Chocapikk/pgread/pgdump"
)

// Floats inside the geometric strings ("%g") are parsed back with strconv.ParseFloat and
// rendered as the bit pattern token the Coq model prints: <16 hex digits>, all NaNs as <nan>.
var c04FloatRe = regexp.MustCompile(`[+-]?(?:Inf|NaN|[0-9]+(?:\.[0-9]+)?(?:e[+-][0-9]+)?)`)

func c04Refloat(s string) string {
	return c04FloatRe.ReplaceAllStringFunc(s, func(m string) string {
		f, err := strconv.ParseFloat(m, 64)
		if err != nil {
			return "<unparsable:" + m + ">"
		}
		if math.IsNaN(f) {
			return "<nan>"
		}
		return fmt.Sprintf("<%016x>", math.Float64bits(f))
	})
}

// "$-123.45" -> "$<-12345>": the decimal text is read back exactly as an integer number of cents.
var c04MoneyRe = regexp.MustCompile(`^\$(-?)([0-9]+)\.([0-9][0-9])$`)

func c04Remoney(s string) string {
	m := c04MoneyRe.FindStringSubmatch(s)
	if m == nil {
		return "<unparsable:" + s + ">"
	}
	n, ok := new(big.Int).SetString(m[2]+m[3], 10)
	if !ok {
		return "<unparsable:" + s + ">"
	}
	if m[1] == "-" {
		n.Neg(n)
	}
	return "$<" + n.String() + ">"
}

var c04Geometric = map[int]bool{600: true, 601: true, 602: true, 603: true, 604: true, 628: true, 718: true}

func c04Canon(v interface{}, oid int) string {
	if s, ok := v.(string); ok {
		if c04Geometric[oid] {
			return cStr(c04Refloat(s))
		}
		if oid == 790 {
			return cStr(c04Remoney(s))
		}
	}
	return canon(v)
}

// c04Norm replaces a placeholder printed by the model/spec (a sub-decoder owned by another
// property, or a library call that is not logic) by the canonical result of the real Go function
// on the bytes that were handed over.
func c04Norm(expected string) (out string) {
	if !strings.HasPrefix(expected, "@@") {
		return expected
	}
	defer func() {
		if r := recover(); r != nil {
			out = "panic"
		}
	}()
	p := strings.SplitN(expected[2:], ":", 3)
	switch p[0] {
	case "tovalid":
		return cStr(strings.ToValidUTF8(string(unhex(p[1])), "."))
	case "json":
		data := unhex(p[1])
		var v interface{}
		if err := json.Unmarshal(data, &v); err == nil {
			return canon(v)
		}
		return canon(pgdump.VerifSafeString(data))
	case "num":
		return canon(pgdump.DecodeNumeric(unhex(p[1])))
	case "jsonb":
		data := unhex(p[1])
		if v := pgdump.ParseJSONB(data); v != nil {
			return canon(v)
		}
		return canon(pgdump.VerifSafeString(data))
	case "arr":
		e, _ := strconv.Atoi(p[1])
		var r interface{} = pgdump.VerifDecodeArray(unhex(p[2]), e)
		return canon(r)
	}
	return expected
}

func init() {
	register("DecodeType", func(a []string) string {
		oid, _ := strconv.Atoi(a[2])
		return withBuf(a[0], a[1], func(b []byte) string {
			return c04Canon(pgdump.DecodeType(b, oid), oid)
		})
	})
	registerNorm("DecodeType", c04Norm)
	register("TypeName", func(a []string) string {
		oid, _ := strconv.ParseInt(a[0], 10, 64)
		return cStr(pgdump.TypeName(int(oid)))
	})
	register("cstring", func(a []string) string {
		mx, _ := strconv.Atoi(a[1])
		return withBuf(a[0], "-", func(b []byte) string { return cStr(pgdump.VerifCstring(b, mx)) })
	})
}
