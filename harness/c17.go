package main

// C17 — WAL records: Go side of the correspondence check (see driver/C17/gen.ml for the formats).

import (
	"fmt"
	"os"
	"path/filepath"
	"sort"
	"strconv"
	"strings"

	"github.com/Chocapikk/pgread/pgdump"
)

func c17Block(b pgdump.WALBlockRef) string {
	rel := "nil"
	if b.RelFileNode != nil {
		rel = fmt.Sprintf("%d/%d/%d", b.RelFileNode.SpcOID, b.RelFileNode.DbOID, b.RelFileNode.RelOID)
	}
	return cRec(kv{"id", fmt.Sprint(b.ID)}, kv{"fork", fmt.Sprint(b.ForkNum)}, kv{"flags", fmt.Sprint(b.Flags)},
		kv{"rel", rel}, kv{"blk", fmt.Sprint(b.BlockNum)})
}

func c17Blocks(bs []pgdump.WALBlockRef) string {
	parts := make([]string, len(bs))
	for i, b := range bs {
		parts[i] = c17Block(b)
	}
	return cList(parts)
}

// mask: one character '0'..'3' per record index; bit 0 = the resource-manager name is observable
// (PostgreSQL assigns one), bit 1 = the operation name is observable.  Missing entries mean 3.
func c17Rec(r pgdump.WALRecord, m byte) string {
	rm, op := "?", "?"
	if m&1 != 0 {
		rm = cStr(r.RMName)
	}
	if m&2 != 0 {
		op = cStr(r.Operation)
	}
	return cRec(kv{"len", fmt.Sprint(r.TotalLen)}, kv{"xid", fmt.Sprint(r.TransactionID)}, kv{"prev", fmt.Sprint(r.PrevLSN)},
		kv{"info", fmt.Sprint(r.Info)}, kv{"rmid", fmt.Sprint(r.ResourceMgr)}, kv{"crc", fmt.Sprint(r.CRC)},
		kv{"lsn", fmt.Sprint(r.LSN)}, kv{"rm", rm}, kv{"op", op}, kv{"blocks", c17Blocks(r.Blocks)})
}

func c17Recs(rs []pgdump.WALRecord, mask string) string {
	parts := make([]string, len(rs))
	for i, r := range rs {
		m := byte(3)
		if mask != "-" && i < len(mask) {
			m = mask[i] - '0'
		}
		parts[i] = c17Rec(r, m)
	}
	return cList(parts)
}

// c17MkDir materialises a directory listing under $VERIF_TMP/<n>/pg_wal.
// spec: entries separated by ';', each  <hex name>:<kind>:<hex content>  with kind f (regular file),
// d (directory), l (dangling symbolic link: ReadFile fails).
var c17DirSeq int

func c17MkDir(spec string) (string, func()) {
	c17DirSeq++
	root := filepath.Join(os.Getenv("VERIF_TMP"), fmt.Sprintf("c17-%d-%d", os.Getpid(), c17DirSeq))
	wal := filepath.Join(root, "pg_wal")
	if err := os.MkdirAll(wal, 0o755); err != nil {
		panic("harness: mkdir: " + err.Error())
	}
	if spec != "-" && spec != "" {
		for _, e := range strings.Split(spec, ";") {
			p := strings.Split(e, ":")
			name := string(unhex(p[0]))
			path := filepath.Join(wal, name)
			var err error
			switch p[1] {
			case "f":
				err = os.WriteFile(path, unhex(p[2]), 0o644)
			case "d":
				err = os.Mkdir(path, 0o755)
			case "l":
				err = os.Symlink(filepath.Join(root, "does-not-exist"), path)
			}
			if err != nil {
				panic("harness: materialise: " + err.Error())
			}
		}
	}
	return root, func() { os.RemoveAll(root) }
}

func init() {
	register("RmgrName", func(a []string) string {
		v, _ := strconv.Atoi(a[0])
		return cStr(pgdump.VerifRmgrName(uint8(v)))
	})
	register("OperationName", func(a []string) string {
		r, _ := strconv.Atoi(a[0])
		i, _ := strconv.Atoi(a[1])
		return cStr(pgdump.VerifOperationName(uint8(r), uint8(i)))
	})
	register("FormatLSN", func(a []string) string {
		v, _ := strconv.ParseUint(a[0], 10, 64)
		return cStr(pgdump.FormatLSN(v))
	})
	register("Magic", func(a []string) string {
		v, _ := strconv.Atoi(a[0])
		return cBool(pgdump.VerifIsValidMagic(uint16(v))) + "," + cStr(pgdump.VerifPgVersionFromMagic(uint16(v)))
	})
	register("Align8", func(a []string) string {
		v, _ := strconv.Atoi(a[0])
		return fmt.Sprint(pgdump.VerifAlign8(v))
	})
	register("IsZeroPadding", func(a []string) string {
		return withBuf(a[0], a[1], func(b []byte) string { return cBool(pgdump.VerifIsZeroPadding(b)) })
	})
	register("ParsePageHeader", func(a []string) string {
		return withBuf(a[0], a[1], func(b []byte) string {
			h := pgdump.VerifParsePageHeader(b)
			return cRec(kv{"magic", fmt.Sprint(h.Magic)}, kv{"info", fmt.Sprint(h.Info)}, kv{"tli", fmt.Sprint(h.TimelineID)},
				kv{"addr", fmt.Sprint(h.PageAddr)}, kv{"rem", fmt.Sprint(h.RemLen)}, kv{"sysid", fmt.Sprint(h.SystemID)},
				kv{"seg", fmt.Sprint(h.SegSize)}, kv{"blcksz", fmt.Sprint(h.BlockSize)})
		})
	})
	register("ParseBlockRefs", func(a []string) string {
		return withBuf(a[0], a[1], func(b []byte) string { return c17Blocks(pgdump.VerifParseBlockRefs(b)) })
	})
	register("ParseXLogRecord", func(a []string) string {
		return withBuf(a[0], a[1], func(b []byte) string {
			lsn, _ := strconv.ParseUint(a[2], 10, 64)
			rec, n := pgdump.VerifParseXLogRecord(b, lsn)
			if rec == nil {
				return fmt.Sprintf("nil,%d", n)
			}
			m := byte(3)
			if len(a) > 3 && a[3] != "-" {
				m = a[3][0] - '0'
			}
			return fmt.Sprintf("%s,%d", c17Rec(*rec, m), n)
		})
	})
	register("ParseWALPage", func(a []string) string {
		return withBuf(a[0], a[1], func(b []byte) string {
			base, _ := strconv.ParseUint(a[2], 10, 64)
			recs, err := pgdump.VerifParseWALPage(b, base, 0)
			if err != nil {
				if strings.HasPrefix(err.Error(), "page too small") {
					return "err:too_small"
				}
				if strings.HasPrefix(err.Error(), "invalid magic") {
					return "err:bad_magic"
				}
				return "err:other"
			}
			return c17Recs(recs, a[3])
		})
	})
	register("ParseWALFile", func(a []string) string {
		return withBuf(a[0], a[1], func(b []byte) string {
			recs, err := pgdump.ParseWALFile(b)
			if err != nil {
				return "err:too_small"
			}
			return c17Recs(recs, a[2])
		})
	})
	scan := func(a []string, version bool) string {
		root, cleanup := c17MkDir(a[0])
		defer cleanup()
		s, err := pgdump.ScanWALDirectory(root)
		if err != nil {
			return "err:readdir"
		}
		if version {
			return cStr(s.PGVersion) + "," + fmt.Sprint(s.TimelineID)
		}
		ops := make([]string, 0, len(s.Operations))
		for k, v := range s.Operations {
			ops = append(ops, cStr(k)+":"+fmt.Sprint(v))
		}
		sort.Strings(ops)
		tabs := make([]string, 0, len(s.AffectedTables))
		for k, v := range s.AffectedTables {
			tabs = append(tabs, k+":"+fmt.Sprint(v))
		}
		sort.Strings(tabs)
		txns := make([]string, len(s.Transactions))
		for i, t := range s.Transactions {
			txns[i] = fmt.Sprintf("%d:%s:%d", t.XID, t.Status, t.Operations)
		}
		return cRec(kv{"segments", fmt.Sprint(s.SegmentCount)}, kv{"records", fmt.Sprint(s.RecordCount)},
			kv{"first", cStr(s.FirstLSN)}, kv{"last", cStr(s.LastLSN)},
			kv{"ops", cList(ops)}, kv{"txns", cList(txns)}, kv{"tables", cList(tabs)})
	}
	register("ScanWALDirectory", func(a []string) string { return scan(a, false) })
	register("ScanWALVersion", func(a []string) string { return scan(a, true) })
	register("GetRecentWALRecords", func(a []string) string {
		root, cleanup := c17MkDir(a[0])
		defer cleanup()
		limit, _ := strconv.Atoi(a[1])
		recs, err := pgdump.GetRecentWALRecords(root, limit)
		if err != nil {
			return "err:readdir"
		}
		return c17Recs(recs, a[2])
	})
}
