package main

import (
	"encoding/hex"
	"fmt"

	"github.com/Chocapikk/pgread/pgdump"
)

func b01(b bool) string {
	if b {
		return "1"
	}
	return "0"
}

func cTuple(t *pgdump.HeapTupleData, pageOff int) string {
	bm := "nil"
	if t.Bitmap != nil {
		bm = "h" + hex.EncodeToString(t.Bitmap)
	}
	h := t.Header
	return cRec(kv{"po", fmt.Sprint(pageOff)}, kv{"hoff", fmt.Sprint(h.THoff)}, kv{"natts", fmt.Sprint(h.Natts)},
		kv{"mask", fmt.Sprint(h.Infomask)},
		kv{"fl", b01(h.HasNull) + b01(h.XminCommitted) + b01(h.XmaxInvalid) + b01(h.XmaxCommitted)},
		kv{"bm", bm}, kv{"data", "h" + hex.EncodeToString(t.Data)})
}

func cEntries(es []pgdump.TupleEntry, shift int) string {
	parts := make([]string, len(es))
	for i, e := range es {
		parts[i] = cTuple(e.Tuple, e.PageOffset+shift)
	}
	return cList(parts)
}

func init() {
	register("ReadTuples", func(a []string) string {
		return withBuf(a[0], a[1], func(b []byte) string {
			return cEntries(pgdump.ReadTuples(b, a[2] == "true"), 0)
		})
	})
	register("ParseHeapTuple", func(a []string) string {
		return withBuf(a[0], a[1], func(b []byte) string {
			t := pgdump.ParseHeapTuple(b)
			if t == nil {
				return "nil"
			}
			return cTuple(t, 0)
		})
	})
	// scanning f1++f2 == scan f1 ++ shift |f1| (scan f2), for |f1| a multiple of the page size
	register("ReadTuplesConcat", func(a []string) string {
		f1, f2 := unhex(a[0]), unhex(a[1])
		vo := a[2] == "true"
		both := append(append([]byte{}, f1...), f2...)
		l1 := cEntries(pgdump.ReadTuples(f1, vo), 0)
		l2 := cEntries(pgdump.ReadTuples(f2, vo), len(f1))
		l12 := cEntries(pgdump.ReadTuples(both, vo), 0)
		want := "[" + l1[1:len(l1)-1]
		if len(l1) > 2 && len(l2) > 2 {
			want += ","
		}
		want += l2[1:]
		if l12 == want {
			return "ok"
		}
		return "concat-law-violated"
	})
}
