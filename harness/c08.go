package main

import (
	"fmt"
	"sort"
	"strconv"
	"strings"

	"github.com/Chocapikk/pgread/pgdump"
	lz4 "github.com/pierrec/lz4/v4"
)

func c08Val(b []byte) string {
	if len(b) == 0 {
		return "empty"
	}
	return cBytes(b)
}

func c08Dres(b []byte, err error) string {
	if err != nil {
		m := err.Error()
		switch {
		case strings.HasPrefix(m, "data too short"):
			return "err:too_short"
		case strings.HasPrefix(m, "invalid offset"):
			return "err:invalid_offset"
		case strings.HasPrefix(m, "offset too large"):
			return "err:offset_too_large"
		}
		return "err:other"
	}
	return cBytes(b)
}

func c08U32(s string) uint32 {
	v, err := strconv.ParseUint(s, 10, 32)
	if err != nil {
		panic("harness: bad uint32 argument " + s)
	}
	return uint32(v)
}

func c08I32(s string) int32 {
	v, err := strconv.ParseInt(s, 10, 32)
	if err != nil {
		panic("harness: bad int32 argument " + s)
	}
	return int32(v)
}

// "id:seq:hex;id:seq:hex;..."  ("-" = no chunks)
func c08Chunks(s string) []pgdump.TOASTChunk {
	if s == "-" || s == "" {
		return nil
	}
	var out []pgdump.TOASTChunk
	for _, part := range strings.Split(s, ";") {
		f := strings.Split(part, ":")
		out = append(out, pgdump.TOASTChunk{ChunkID: c08U32(f[0]), ChunkSeq: c08I32(f[1]), Data: unhex(f[2])})
	}
	return out
}

// "raw:ext:vid:rel:comp:method"  ("-" = nil)
func c08Ptr(s string) *pgdump.TOASTPointer {
	if s == "-" {
		return nil
	}
	f := strings.Split(s, ":")
	m, _ := strconv.Atoi(f[5])
	return &pgdump.TOASTPointer{RawSize: c08U32(f[0]), ExtSize: c08U32(f[1]), ValueID: c08U32(f[2]), ToastRelID: c08U32(f[3]),
		IsCompressed: f[4] == "true", CompressionMethod: m}
}

func c08Int(s string) int {
	v, err := strconv.ParseInt(s, 10, 64)
	if err != nil {
		panic("harness: bad int argument " + s)
	}
	return int(v)
}

func init() {
	register("ParseTOASTPointer", func(a []string) string {
		return withBuf(a[0], a[1], func(b []byte) string {
			p := pgdump.ParseTOASTPointer(b)
			if p == nil {
				return "nil"
			}
			return cRec(kv{"raw", fmt.Sprint(p.RawSize)}, kv{"ext", fmt.Sprint(p.ExtSize)}, kv{"vid", fmt.Sprint(p.ValueID)},
				kv{"rel", fmt.Sprint(p.ToastRelID)}, kv{"comp", cBool(p.IsCompressed)}, kv{"method", fmt.Sprint(p.CompressionMethod)})
		})
	})
	register("IsTOASTPointer", func(a []string) string {
		return withBuf(a[0], a[1], func(b []byte) string { return cBool(pgdump.IsTOASTPointer(b)) })
	})
	register("decompressPGLZ", func(a []string) string {
		return withBuf(a[0], a[1], func(b []byte) string { return c08Dres(pgdump.VerifDecompressPGLZ(b, c08Int(a[2]))) })
	})
	register("decompressLZ4", func(a []string) string {
		return withBuf(a[0], a[1], func(b []byte) string { return c08Dres(pgdump.VerifDecompressLZ4(b, c08Int(a[2]))) })
	})
	// independent compressor: github.com/pierrec/lz4/v4 block compressor, then the tool's decompressor
	register("LZ4Independent", func(a []string) string {
		v := unhex(a[0])
		dst := make([]byte, lz4.CompressBlockBound(len(v)))
		var c lz4.Compressor
		n, err := c.CompressBlock(v, dst)
		if err != nil {
			return "harness:compress-error"
		}
		if n == 0 { // incompressible: store as one literal run, as the reference implementation would refuse to
			return cBytes(v)
		}
		return c08Dres(pgdump.VerifDecompressLZ4(dst[:n], len(v)))
	})
	register("decompressCap", func(a []string) string {
		return fmt.Sprint(pgdump.VerifDecompressCap(c08Int(a[0]), c08Int(a[1])))
	})
	register("ReassembleTOAST", func(a []string) string {
		chunks := c08Chunks(a[0])
		snap := make([]string, len(chunks))
		for i, c := range chunks {
			snap[i] = string(c.Data)
		}
		r := c08Val(pgdump.ReassembleTOAST(chunks, c08U32(a[1]), c08Ptr(a[2])))
		for i, c := range chunks {
			if snap[i] != string(c.Data) {
				return "MUTATED-INPUT:" + r
			}
		}
		return r
	})
	// "rel=chunks|rel=chunks" loaded in order into a fresh reader, then ReadValue(vis,tail)
	// one reader, three resolutions in a row (pointer A, pointer B, pointer A again)
	register("ReadValueSeq", func(a []string) string {
		rd := pgdump.NewTOASTReader()
		if a[0] != "-" {
			for _, part := range strings.Split(a[0], "|") {
				kv := strings.SplitN(part, "=", 2)
				pgdump.VerifTOASTReaderSetChunks(rd, c08U32(kv[0]), c08Chunks(kv[1]))
			}
		}
		pa, pb := unhex(a[1]), unhex(a[2])
		// all three results are HELD and rendered only at the end: a value handed to the caller must not be overwritten by a
		// later call (seeded change C08-13: concatenation buffer taken from a sync.Pool and returned to it)
		va := rd.ReadValue(pa)
		vb := rd.ReadValue(pb)
		va2 := rd.ReadValue(pa)
		return c08Val(va) + ";" + c08Val(vb) + ";" + c08Val(va2)
	})
	register("ReadValue", func(a []string) string {
		rd := pgdump.NewTOASTReader()
		if a[0] != "-" {
			for _, part := range strings.Split(a[0], "|") {
				kv := strings.SplitN(part, "=", 2)
				pgdump.VerifTOASTReaderSetChunks(rd, c08U32(kv[0]), c08Chunks(kv[1]))
			}
		}
		return withBuf(a[1], a[2], func(b []byte) string { return c08Val(rd.ReadValue(b)) })
	})
}

func c08ChunkList(cs []pgdump.TOASTChunk) string {
	parts := make([]string, len(cs))
	for i, c := range cs {
		d := "-"
		if len(c.Data) > 0 {
			d = fmt.Sprintf("%x", c.Data)
		}
		parts[i] = fmt.Sprintf("%d:%d:%s", c.ChunkID, c.ChunkSeq, d)
	}
	return cList(parts)
}

func init() {
	register("ReadTOASTTable", func(a []string) string {
		return withBuf(a[0], a[1], func(b []byte) string { return c08ChunkList(pgdump.ReadTOASTTable(b)) })
	})
	register("GetTOASTVerboseInfo", func(a []string) string {
		return withBuf(a[1], a[2], func(b []byte) string {
			info := pgdump.GetTOASTVerboseInfo(c08U32(a[0]), b)
			if info == nil {
				return "nil"
			}
			// map iteration order is not part of the property: keys and values are listed sorted
			ks := make([]int, 0, len(info.ChunkDistribution))
			for k := range info.ChunkDistribution {
				ks = append(ks, k)
			}
			sort.Ints(ks)
			dist := make([]string, len(ks))
			for i, k := range ks {
				dist[i] = fmt.Sprintf("%d:%d", k, info.ChunkDistribution[k])
			}
			vals := append([]pgdump.TOASTValueInfo(nil), info.Values...)
			sort.Slice(vals, func(i, j int) bool { return vals[i].ChunkID < vals[j].ChunkID })
			vs := make([]string, len(vals))
			for i, v := range vals {
				vs[i] = fmt.Sprintf("%d:%d:%d", v.ChunkID, v.NumChunks, v.TotalSize)
			}
			avg := "ok"
			if info.AverageChunkSize != float64(info.TotalSize)/float64(info.TotalChunks) {
				avg = "wrong"
			}
			return cRec(kv{"rel", fmt.Sprint(info.ToastRelID)}, kv{"chunks", fmt.Sprint(info.TotalChunks)},
				kv{"unique", fmt.Sprint(info.UniqueValues)}, kv{"size", fmt.Sprint(info.TotalSize)},
				kv{"max", fmt.Sprint(info.MaxChunksPerValue)}, kv{"dist", cList(dist)}, kv{"values", cList(vs)}, kv{"avg", avg})
		})
	})
	// heap file -> LoadTOASTTable -> ReadValue(pointer bytes)
	register("TableReadValueReload", func(a []string) string {
		return withBuf(a[1], a[2], func(b []byte) string {
			rd := pgdump.NewTOASTReader()
			rd.LoadTOASTTable(c08U32(a[0]), b)
			rd.LoadTOASTTable(c08U32(a[0]), b)
			return c08Val(rd.ReadValue(unhex(a[3])))
		})
	})
	register("TableReadValue", func(a []string) string {
		return withBuf(a[1], a[2], func(b []byte) string {
			rd := pgdump.NewTOASTReader()
			rd.LoadTOASTTable(c08U32(a[0]), b)
			return c08Val(rd.ReadValue(unhex(a[3])))
		})
	})
}
