package main

import (
	"encoding/hex"
	"fmt"
	"regexp"
	"strconv"
	"strings"

	"github.com/Chocapikk/pgread/pgdump"
)

func parseCols(s string) []pgdump.Column {
	if s == "-" || s == "" {
		return nil
	}
	var cols []pgdump.Column
	for _, part := range strings.Split(s, ";") {
		f := strings.Split(part, ":")
		typ, _ := strconv.Atoi(f[1])
		ln, _ := strconv.Atoi(f[2])
		num, _ := strconv.Atoi(f[3])
		al, _ := strconv.Atoi(f[4])
		cols = append(cols, pgdump.Column{Name: string(unhex(f[0])), TypID: typ, Len: ln, Num: num, Align: byte(al)})
	}
	return cols
}

func cRowMap(m map[string]interface{}) string {
	if m == nil {
		return "mnil"
	}
	return canon(m)
}

// placeholder  l[s:6474,int:<oid>,y:<hex>]  ->  canonical result of the real DecodeType on those bytes
var dtToken = regexp.MustCompile(`l\[s:6474,int:(-?\d+),y:([0-9a-f]*)\]`)

func substDecodeType(expected string) string {
	return dtToken.ReplaceAllStringFunc(expected, func(tok string) string {
		m := dtToken.FindStringSubmatch(tok)
		oid, _ := strconv.Atoi(m[1])
		b, _ := hex.DecodeString(m[2])
		return canon(pgdump.DecodeType(b, oid))
	})
}

func init() {
	register("DecodeTuple", func(a []string) string {
		var bm []byte
		if a[0] != "nil" {
			bm = unhex(a[0][1:])
			if bm == nil {
				bm = []byte{}
			}
		}
		natts, _ := strconv.Atoi(a[3])
		cols := parseCols(a[4])
		return withBuf(a[1], a[2], func(data []byte) string {
			t := &pgdump.HeapTupleData{Header: &pgdump.HeapTupleHeader{Natts: natts, HasNull: bm != nil, THoff: 24}, Bitmap: bm, Data: data}
			return cRowMap(pgdump.DecodeTuple(t, cols))
		})
	})
	registerNorm("DecodeTuple", substDecodeType)
	register("ReadVarlena", func(a []string) string {
		return withBuf(a[0], a[1], func(b []byte) string {
			p, c := pgdump.ReadVarlena(b)
			if p == nil {
				return fmt.Sprintf("nil,%d", c)
			}
			return fmt.Sprintf("h%s,%d", hex.EncodeToString(p), c)
		})
	})
	register("alignFromChar", func(a []string) string {
		c, _ := strconv.Atoi(a[0])
		return fmt.Sprint(pgdump.VerifAlignFromChar(byte(c)))
	})
	register("typeAlignRow", func(a []string) string {
		oid, _ := strconv.Atoi(a[0])
		var parts []string
		for _, l := range []int{-2, -1, 0, 1, 2, 3, 4, 7, 8, 9, 16, 64} {
			parts = append(parts, fmt.Sprint(pgdump.VerifTypeAlign(oid, l)))
		}
		return cList(parts)
	})
}
