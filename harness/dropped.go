package main

// Go side of the Dropped check (pgdump/dropped.go): the unexported parsers through the verif hooks,
// the exported entry points on a data directory materialised under $VERIF_TMP.
// Lists produced by sort.Slice are rendered modulo the order of TIED keys (sort.Slice is not
// stable): inside every maximal run of equal keys the renderings are sorted, exactly as
// driver/Dropped/gen.ml does, so a missing or wrong sort still shows.
// Values of dropped columns (type id 0) go through safeString; the model leaves
// strings.ToValidUTF8 as a token which composeNorm (compose.go) replaces by the real call.

import (
	"fmt"
	"os"
	"path/filepath"
	"sort"
	"strconv"
	"strings"

	"github.com/Chocapikk/pgread/pgdump"
)

func dDCI(c pgdump.DroppedColumnInfo) string {
	return cRec(kv{"rel", strconv.FormatUint(uint64(c.RelOID), 10)}, kv{"tbl", cStr(c.TableName)},
		kv{"num", strconv.Itoa(c.AttNum)}, kv{"orig", cStr(c.OriginalName)}, kv{"dname", cStr(c.DroppedName)},
		kv{"typ", strconv.FormatUint(uint64(c.TypeOID), 10)}, kv{"tname", cStr(c.TypeName)},
		kv{"len", strconv.Itoa(c.AttLen)}, kv{"align", strconv.Itoa(int(c.AttAlign))}, kv{"byval", cBool(c.AttByVal)})
}

// dCanonRuns sorts the renderings inside every maximal run of equal keys.
func dCanonRuns(keys, items []string) []string {
	out := make([]string, 0, len(items))
	i := 0
	for i < len(items) {
		j := i + 1
		for j < len(items) && keys[j] == keys[i] {
			j++
		}
		run := append([]string(nil), items[i:j]...)
		sort.Strings(run)
		out = append(out, run...)
		i = j
	}
	return out
}

func dAll(l []pgdump.DroppedColumnInfo) string {
	keys, items := make([]string, len(l)), make([]string, len(l))
	for i, c := range l {
		keys[i], items[i] = strconv.Itoa(c.AttNum), dDCI(c)
	}
	return cList(dCanonRuns(keys, items))
}

func dDropped(l []pgdump.DroppedColumnInfo) string {
	keys, items := make([]string, len(l)), make([]string, len(l))
	for i, c := range l {
		keys[i], items[i] = fmt.Sprintf("%d/%d", c.RelOID, c.AttNum), dDCI(c)
	}
	return cList(dCanonRuns(keys, items))
}

func dCols(cs []pgdump.Column) string {
	parts := make([]string, len(cs))
	for i, c := range cs {
		parts[i] = cRec(kv{"name", cStr(c.Name)}, kv{"typ", strconv.Itoa(c.TypID)}, kv{"len", strconv.Itoa(c.Len)},
			kv{"num", strconv.Itoa(c.Num)}, kv{"align", strconv.Itoa(int(c.Align))})
	}
	return cList(parts)
}

// the error returns by kind, never by message text beyond the fixed prefix that names the kind
func dErr(err error) string {
	msg := err.Error()
	switch {
	case strings.HasPrefix(msg, "database "):
		return "err:db"
	case strings.HasPrefix(msg, "table "):
		return "err:table"
	case strings.HasPrefix(msg, "column attnum "):
		return "err:column"
	}
	return "err:read"
}

var dSeq int

// a[i], a[i+1], ... = pairs (relative path, hex)
func dMaterialise(a []string) string {
	dSeq++
	d := filepath.Join(os.Getenv("VERIF_TMP"), fmt.Sprintf("dropped-%d-%d", os.Getpid(), dSeq))
	os.RemoveAll(d)
	for i := 0; i+1 < len(a); i += 2 {
		p := filepath.Join(d, filepath.FromSlash(a[i]))
		if err := os.MkdirAll(filepath.Dir(p), 0o755); err != nil {
			panic("harness: " + err.Error())
		}
		if err := os.WriteFile(p, unhex(a[i+1]), 0o644); err != nil {
			panic("harness: " + err.Error())
		}
	}
	if err := os.MkdirAll(d, 0o755); err != nil {
		panic("harness: " + err.Error())
	}
	return d
}

func dValues(vs []interface{}) string {
	parts := make([]string, len(vs))
	for i, v := range vs {
		parts[i] = canon(v)
	}
	return cList(parts)
}

func dRecover(dir, db, table string, attnum int) (values string, full string) {
	res, err := pgdump.RecoverDroppedColumnData(dir, db, table, attnum)
	if err != nil {
		return dErr(err), dErr(err)
	}
	rows := make([]string, len(res.Rows))
	for i, r := range res.Rows {
		rows[i] = canon(r)
	}
	v := dValues(res.Values)
	return v, cRec(kv{"col", dDCI(res.Column)}, kv{"values", v}, kv{"rows", cList(rows)})
}

func init() {
	// ParseAllAttributes  data tail relOID
	register("ParseAllAttributes", func(a []string) string {
		oid, _ := strconv.ParseUint(a[2], 10, 32)
		return withBuf(a[0], a[1], func(b []byte) string {
			return dAll(pgdump.VerifParseAllAttributes(b, uint32(oid)))
		})
	})
	// ParseDroppedColumns  data tail oid:hexname;...   (assignments in order: a later one overwrites)
	register("ParseDroppedColumns", func(a []string) string {
		tn := map[uint32]string{}
		if a[2] != "-" && a[2] != "" {
			for _, part := range strings.Split(a[2], ";") {
				f := strings.SplitN(part, ":", 2)
				oid, _ := strconv.ParseUint(f[0], 10, 32)
				tn[uint32(oid)] = string(unhex(f[1]))
			}
		}
		return withBuf(a[0], a[1], func(b []byte) string {
			return dDropped(pgdump.VerifParseDroppedColumns(b, tn))
		})
	})
	// BuildColumns  rel:num:orighex:typ:len:align;...
	register("BuildColumns", func(a []string) string {
		var attrs []pgdump.DroppedColumnInfo
		if a[0] != "-" && a[0] != "" {
			for _, part := range strings.Split(a[0], ";") {
				f := strings.Split(part, ":")
				rel, _ := strconv.ParseUint(f[0], 10, 32)
				num, _ := strconv.Atoi(f[1])
				typ, _ := strconv.ParseUint(f[3], 10, 32)
				ln, _ := strconv.Atoi(f[4])
				al, _ := strconv.Atoi(f[5])
				attrs = append(attrs, pgdump.DroppedColumnInfo{RelOID: uint32(rel), AttNum: num, OriginalName: string(unhex(f[2])),
					TypeOID: uint32(typ), AttLen: ln, AttAlign: byte(al)})
			}
		}
		return dCols(pgdump.VerifBuildColumnsWithDropped(attrs))
	})
	// DroppedName  hexname
	register("DroppedName", func(a []string) string {
		m := pgdump.VerifDroppedColumnSubmatch(string(unhex(a[0])))
		if len(m) > 1 {
			return cStr(m[1])
		}
		return "none"
	})
	// SchemaTables
	register("SchemaTables", func(a []string) string {
		v16, v15 := pgdump.VerifSchemaPGAttrDropped()
		return "v16=" + dCols(v16) + "|v15=" + dCols(v15)
	})
	// RecoverValues  dbhex tablehex attnum  path hex ...
	register("RecoverValues", func(a []string) string {
		dir := dMaterialise(a[3:])
		defer os.RemoveAll(dir)
		attnum, _ := strconv.Atoi(a[2])
		v, _ := dRecover(dir, string(unhex(a[0])), string(unhex(a[1])), attnum)
		return v
	})
	registerNorm("RecoverValues", composeNorm)
	// RecoverDir  full|lite dbhex tablehex attnum  path hex ...
	register("RecoverDir", func(a []string) string {
		dir := dMaterialise(a[4:])
		defer os.RemoveAll(dir)
		db, table := string(unhex(a[1])), string(unhex(a[2]))
		attnum, _ := strconv.Atoi(a[3])
		_, rec := dRecover(dir, db, table, attnum)
		if a[0] != "full" {
			return "recover=" + rec
		}
		find := ""
		if res, err := pgdump.FindDroppedColumns(dir, db); err != nil {
			find = dErr(err)
		} else {
			find = dDropped(res.Columns)
			if res.DroppedCount != len(res.Columns) || res.Database != db {
				find += "BAD-COUNT-OR-NAME"
			}
		}
		scan := ""
		if res, err := pgdump.ScanDroppedColumns(dir); err != nil {
			scan = dErr(err)
		} else {
			parts := make([]string, len(res))
			for i, x := range res {
				parts[i] = cRec(kv{"db", cStr(x.Database)}, kv{"cols", dDropped(x.Columns)})
				if x.DroppedCount != len(x.Columns) {
					parts[i] += "BAD-COUNT"
				}
			}
			scan = cList(parts)
		}
		schema := ""
		if cols, err := pgdump.GetDroppedColumnSchema(dir, db, table); err != nil {
			schema = dErr(err)
		} else {
			schema = dCols(cols)
		}
		return "find=" + find + "|scan=" + scan + "|schema=" + schema + "|recover=" + rec
	})
	registerNorm("RecoverDir", composeNorm)
}
