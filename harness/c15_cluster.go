package main

// C15 — a minimal on-disk cluster for pgdump.Search: global/1262 (pg_database), and per database
// base/<oid>/1259 (pg_class), 1249 (pg_attribute, PostgreSQL 12-15 layout) and one heap file.
// Restricted to what the Search cases need: one ordinary table per database, text (short varlena) and
// int4 columns, no NULLs, everything on one page per file.

import (
	"encoding/binary"
	"fmt"
	"os"
	"path/filepath"
	"regexp"
	"sort"

	"github.com/Chocapikk/pgread/pgdump"
)

var c15le = binary.LittleEndian

func c15tuple(natts int, data []byte) []byte {
	t := make([]byte, 24+len(data))
	c15le.PutUint32(t[0:], 700)           // t_xmin
	c15le.PutUint16(t[18:], uint16(natts)) // t_infomask2
	c15le.PutUint16(t[20:], 0x0100|0x0800) // HEAP_XMIN_COMMITTED | HEAP_XMAX_INVALID
	t[22] = 24                             // t_hoff
	copy(t[24:], data)
	return t
}

func c15page(tuples [][]byte) []byte {
	p := make([]byte, 8192)
	upper := 8192
	for i, t := range tuples {
		upper = (upper - len(t)) &^ 7
		if upper < 24+4*len(tuples) {
			panic("harness: c15 cluster page overflow")
		}
		copy(p[upper:], t)
		c15le.PutUint32(p[24+4*i:], uint32(upper)|1<<15|uint32(len(t))<<17)
	}
	c15le.PutUint16(p[12:], uint16(24+4*len(tuples)))
	c15le.PutUint16(p[14:], uint16(upper))
	c15le.PutUint16(p[16:], 8192)
	c15le.PutUint16(p[18:], 8192|4)
	return p
}

func c15name(s string) []byte {
	b := make([]byte, 64)
	if len(s) > 63 {
		panic("harness: c15 name too long")
	}
	copy(b, s)
	return b
}
func c15u32(v uint32) []byte { b := make([]byte, 4); c15le.PutUint32(b, v); return b }
func c15u16(v uint16) []byte { b := make([]byte, 2); c15le.PutUint16(b, v); return b }

func c15cat(parts ...[]byte) []byte {
	var out []byte
	for _, p := range parts {
		out = append(out, p...)
	}
	return out
}

// c15cluster writes the dump as a data directory and returns its path.
func c15cluster(d *pgdump.DumpResult, dir string) {
	must := func(err error) {
		if err != nil {
			panic("harness: c15 cluster: " + err.Error())
		}
	}
	must(os.MkdirAll(filepath.Join(dir, "global"), 0o755))
	var dbTuples [][]byte
	for i, db := range d.Databases {
		dbOID := uint32(16384 + i)
		dbTuples = append(dbTuples, c15tuple(2, c15cat(c15u32(dbOID), c15name(db.Name))))
		base := filepath.Join(dir, "base", fmt.Sprint(dbOID))
		must(os.MkdirAll(base, 0o755))
		if len(db.Tables) != 1 {
			panic("harness: c15 cluster wants one table per database")
		}
		t := db.Tables[0]
		relOID, filenode := uint32(20000+i), uint32(30000+i)
		// pg_class: oid, relname, relnamespace, reltype, reloftype, relowner, relam, relfilenode, reltablespace,
		// relpages, reltuples, relallvisible, reltoastrelid, relhasindex, relisshared, relpersistence, relkind
		class := c15cat(c15u32(relOID), c15name(t.Name), c15u32(2200), c15u32(relOID+1), c15u32(0), c15u32(10), c15u32(2),
			c15u32(filenode), c15u32(0), c15u32(1), c15u32(0), c15u32(0), c15u32(0), []byte{0, 0, 'p', 'r'})
		must(os.WriteFile(filepath.Join(base, "1259"), c15page([][]byte{c15tuple(17, class)}), 0o644))
		// column types from the first row (text unless int32)
		isInt := make([]bool, len(t.Columns))
		if len(t.Rows) > 0 {
			for j, c := range t.Columns {
				_, isInt[j] = t.Rows[0][c.Name].(int32)
			}
		}
		var attTuples [][]byte
		for j, c := range t.Columns {
			typ, alen, byval := uint32(25), uint16(0xFFFF), byte(0)
			if isInt[j] {
				typ, alen, byval = 23, 4, 1
			}
			// attrelid, attname, atttypid, attstattarget, attlen, attnum, atttypmod, attndims, attbyval, attalign
			att := c15cat(c15u32(relOID), c15name(c.Name), c15u32(typ), c15u32(0xFFFFFFFF), c15u16(alen), c15u16(uint16(j+1)),
				c15u32(0xFFFFFFFF), c15u16(0), []byte{byval, 'i'})
			attTuples = append(attTuples, c15tuple(10, att))
		}
		must(os.WriteFile(filepath.Join(base, "1249"), c15page(attTuples), 0o644))
		var rowTuples [][]byte
		for _, row := range t.Rows {
			var data []byte
			for j, c := range t.Columns {
				if isInt[j] {
					for len(data)%4 != 0 {
						data = append(data, 0)
					}
					data = append(data, c15u32(uint32(row[c.Name].(int32)))...)
				} else {
					s := row[c.Name].(string)
					if len(s) == 0 || len(s) > 120 {
						panic("harness: c15 cluster text length")
					}
					data = append(data, byte((len(s)+1)<<1|1))
					data = append(data, s...)
				}
			}
			rowTuples = append(rowTuples, c15tuple(len(t.Columns), data))
		}
		must(os.WriteFile(filepath.Join(base, fmt.Sprint(filenode)), c15page(rowTuples), 0o644))
	}
	must(os.WriteFile(filepath.Join(dir, "global", "1262"), c15page(dbTuples), 0o644))
}

func init() {
	// Search on a data directory holding exactly the given dump
	register("SearchDir", func(a []string) string {
		dir, err := os.MkdirTemp(os.Getenv("VERIF_TMP"), "c15-cluster-")
		if err != nil {
			panic("harness: c15 tmp dir")
		}
		defer os.RemoveAll(dir)
		c15cluster(c15dump(a[0]), dir)
		return c15search(pgdump.Search(dir, c15opts(a[1:])))
	})
	// QuickSearch (literal text, case-insensitive, rows attached) on such a directory
	register("QuickSearchDir", func(a []string) string {
		dir, err := os.MkdirTemp(os.Getenv("VERIF_TMP"), "c15-cluster-")
		if err != nil {
			panic("harness: c15 tmp dir")
		}
		defer os.RemoveAll(dir)
		c15cluster(c15dump(a[0]), dir)
		return c15search(pgdump.QuickSearch(dir, string(unhex(a[1]))))
	})
	// ScanForSecrets and its deprecated re-shaping SearchSecrets on such a directory (real detectors; coordinates only)
	register("SecretsDir", func(a []string) string {
		dir, err := os.MkdirTemp(os.Getenv("VERIF_TMP"), "c15-cluster-")
		if err != nil {
			panic("harness: c15 tmp dir")
		}
		defer os.RemoveAll(dir)
		c15cluster(c15dump(a[0]), dir)
		uniq := func(keys []string) string {
			sort.Strings(keys)
			var out []string
			for i, k := range keys {
				if i == 0 || k != keys[i-1] {
					out = append(out, k)
				}
			}
			return cList(out)
		}
		fs, err := pgdump.ScanForSecrets(dir, &pgdump.Options{})
		if err != nil {
			return "err"
		}
		var k1, k2 []string
		for _, f := range fs {
			k1 = append(k1, fmt.Sprintf("%s/%s/%d/%s", f.Database, f.Table, f.RowIndex, f.Column))
		}
		rs, err := pgdump.SearchSecrets(dir)
		if err != nil {
			return "err"
		}
		for _, r := range rs {
			k2 = append(k2, fmt.Sprintf("%s/%s/%d/%s", r.Database, r.Table, r.RowNum, r.Column))
		}
		return uniq(k1) + "|" + uniq(k2)
	})
	// Go's regexp.QuoteMeta: the library function the model of QuickSearch relies on
	register("QuoteMeta", func(a []string) string {
		return cStr(regexp.QuoteMeta(string(unhex(a[0]))))
	})
}
