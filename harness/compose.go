package main

// Go side of the Compose check: complete rows through pgdump.ReadRows and complete values through
// pgdump.DecodeType, compared with the composed Coq model WITHOUT any sub-decoder placeholder.
// Reuses parseCols (c03.go) and c04Refloat / c04Geometric (c04.go): floats printed with %g inside
// geometric strings are parsed back to bit-pattern tokens exactly as in C04's own run.  The other
// tokens in M/S are library calls that are not logic ("$%.2f" money text, strings.ToValidUTF8,
// encoding/json); they arrive hex-encoded inside a canonical string and are replaced here by the
// real call's result.

import (
	"encoding/hex"
	"encoding/json"
	"fmt"
	"regexp"
	"strconv"
	"strings"

	"github.com/Chocapikk/pgread/pgdump"
)

// composeCanon renders one decoded value of type oid; array elements are rendered as values of
// the element type (point[] / money[] elements need the float / money normalisation too).
func composeCanon(v interface{}, oid int) string {
	if e, ok := pgdump.VerifArrayElemTypes[oid]; ok {
		if l, ok := v.([]interface{}); ok && l != nil {
			parts := make([]string, len(l))
			for i, x := range l {
				parts[i] = composeCanon(x, e)
			}
			return "l" + cList(parts)
		}
	}
	if s, ok := v.(string); ok && c04Geometric[oid] {
		return cStr(c04Refloat(s))
	}
	return canon(v)
}

func composeRow(m map[string]interface{}, cols []pgdump.Column) string {
	if m == nil {
		return "mnil"
	}
	oidOf := map[string]int{}
	for _, c := range cols {
		oidOf[c.Name] = c.TypID // DecodeTuple: a later column of the same name overwrites
		if c.Len == -2 {
			oidOf[c.Name] = 0 // C strings are returned as they are, never handed to DecodeType
		}
	}
	keys := make([]string, 0, len(m))
	for k := range m {
		keys = append(keys, k)
	}
	sortStrings(keys)
	parts := make([]string, len(keys))
	for i, k := range keys {
		parts[i] = hex.EncodeToString([]byte(k)) + ":" + composeCanon(m[k], oidOf[k])
	}
	return "m{" + strings.Join(parts, ",") + "}"
}

func sortStrings(a []string) {
	for i := 1; i < len(a); i++ {
		for j := i; j > 0 && a[j] < a[j-1]; j-- {
			a[j], a[j-1] = a[j-1], a[j]
		}
	}
}

// s:<hex of "@@tovalid:" + hex(data)>   and   y:<hex of "json:" + hex(data)>
var composeToValid = regexp.MustCompile(`s:4040746f76616c69643a((?:3[0-9]|6[1-6])*)`)
var composeJSON = regexp.MustCompile(`y:6a736f6e3a((?:3[0-9]|6[1-6])*)`)

// s:<hex of "$<" + decimal cents + ">">  : the money oracle, by definition fmt.Sprintf("$%.2f", float64(cents)/100)
// (C04's own run compares cents exactly and keeps |cents| <= 10^15; here any int64 can reach the money branch)
var composeMoney = regexp.MustCompile(`s:243c((?:2d)?(?:3[0-9])+)3e`)

func composeInner(tok string, re *regexp.Regexp) []byte {
	m := re.FindStringSubmatch(tok)
	asc, _ := hex.DecodeString(m[1]) // the ASCII hex digits
	data, _ := hex.DecodeString(string(asc))
	if data == nil {
		data = []byte{}
	}
	return data
}

func composeNorm(expected string) string {
	if !strings.Contains(expected, "4040746f76616c69643a") && !strings.Contains(expected, "y:6a736f6e3a") &&
		!strings.Contains(expected, "s:243c") {
		return expected
	}
	expected = composeMoney.ReplaceAllStringFunc(expected, func(tok string) string {
		m := composeMoney.FindStringSubmatch(tok)
		asc, _ := hex.DecodeString(m[1])
		cents, err := strconv.ParseInt(string(asc), 10, 64)
		if err != nil {
			return tok
		}
		return cStr(fmt.Sprintf("$%.2f", float64(cents)/100))
	})
	expected = composeToValid.ReplaceAllStringFunc(expected, func(tok string) string {
		return cStr(strings.ToValidUTF8(string(composeInner(tok, composeToValid)), "."))
	})
	expected = composeJSON.ReplaceAllStringFunc(expected, func(tok string) string {
		data := composeInner(tok, composeJSON)
		var v interface{}
		if err := json.Unmarshal(data, &v); err == nil {
			return canon(v)
		}
		return canon(pgdump.VerifSafeString(data))
	})
	return expected
}

func init() {
	// ReadRowsFull  data tail cols visibleOnly
	register("ReadRowsFull", func(a []string) string {
		cols := parseCols(a[2])
		vo := a[3] == "1"
		return withBuf(a[0], a[1], func(data []byte) string {
			rows := pgdump.ReadRows(data, cols, vo)
			parts := make([]string, len(rows))
			for i, r := range rows {
				parts[i] = composeRow(r, cols)
			}
			return cList(parts)
		})
	})
	registerNorm("ReadRowsFull", composeNorm)
	// DecodeTypeFull  data tail oid
	register("DecodeTypeFull", func(a []string) string {
		oid, _ := strconv.Atoi(a[2])
		return withBuf(a[0], a[1], func(b []byte) string {
			return composeCanon(pgdump.DecodeType(b, oid), oid)
		})
	})
	registerNorm("DecodeTypeFull", composeNorm)
}
