package main

import (
	"math"
	"strconv"
	"strings"

	"github.com/Chocapikk/pgread/pgdump"
)

// c05canon renders a decoded numeric. A float NaN (0 * Inf for absurd weights) is rendered as the
// canonical quiet NaN: the payload/sign bit of a computed NaN is hardware-specific, not an observable.
func c05canon(v interface{}) string {
	if f, ok := v.(float64); ok && math.IsNaN(f) {
		return "f64:7ff8000000000000"
	}
	return canon(v)
}

func init() {
	register("DecodeNumeric", func(a []string) string {
		return withBuf(a[0], a[1], func(b []byte) string { return c05canon(pgdump.DecodeNumeric(b)) })
	})
	// DecodeNumericNear: "near" iff the result is a float64 whose bit pattern is within maxulp units in
	// the last place of the given nearest double (computed spec-side from the exact rational value).
	register("DecodeNumericNear", func(a []string) string {
		return withBuf(a[0], a[1], func(b []byte) string {
			v := pgdump.DecodeNumeric(b)
			f, ok := v.(float64)
			if !ok || math.IsNaN(f) {
				return c05canon(v)
			}
			want, err := strconv.ParseUint(a[2], 16, 64)
			maxulp, err2 := strconv.ParseUint(a[3], 10, 64)
			if err != nil || err2 != nil {
				panic("harness: bad DecodeNumericNear argument")
			}
			got := math.Float64bits(f)
			d := got - want
			if want > got {
				d = want - got
			}
			if d <= maxulp {
				return "near"
			}
			return c05canon(v)
		})
	})
	register("DecodeJNumeric", func(a []string) string {
		return withBuf(a[0], a[1], func(b []byte) string { return c05canon(pgdump.VerifDecodeJNumeric(b)) })
	})
	register("DecodeNumericShort", func(a []string) string {
		h, err := strconv.ParseUint(a[2], 10, 16)
		if err != nil {
			panic("harness: bad header argument")
		}
		return withBuf(a[0], a[1], func(b []byte) string { return c05canon(pgdump.VerifDecodeNumericShort(b, uint16(h))) })
	})
	register("DecodeNumericLong", func(a []string) string {
		return withBuf(a[0], a[1], func(b []byte) string { return c05canon(pgdump.VerifDecodeNumericLong(b)) })
	})
	register("ComputeNumeric", func(a []string) string {
		var digits []int
		if a[0] != "" && a[0] != "-" {
			for _, s := range strings.Split(a[0], ",") {
				d, err := strconv.Atoi(s)
				if err != nil {
					panic("harness: bad digit")
				}
				digits = append(digits, d)
			}
		}
		w, err1 := strconv.Atoi(a[1])
		sg, err2 := strconv.Atoi(a[2])
		if err1 != nil || err2 != nil {
			panic("harness: bad ComputeNumeric argument")
		}
		return c05canon(pgdump.VerifComputeNumeric(digits, w, sg))
	})
}
