package main

// C19: block-range syntax, block addressing and labels, segments, checksum accounting.

import (
	"encoding/hex"
	"fmt"
	"math"
	"os"
	"path/filepath"
	"regexp"
	"strconv"
	"strings"

	"github.com/Chocapikk/pgread/pgdump"
)

func c19range(a string) *pgdump.BlockRange {
	if a == "nil" {
		return nil
	}
	p := strings.Split(a, ",")
	r := &pgdump.BlockRange{Start: atoiArg(p[0]), End: atoiArg(p[1])}
	// the range is the caller's (it may be reused on the next file): it must come back unchanged (seeded change C19-18)
	c := *r
	guardInput(func() string {
		if *r != c {
			return "block-range"
		}
		return ""
	})
	return r
}

func c19opts(a string) *pgdump.SegmentOptions {
	if a == "nil" {
		return nil
	}
	p := strings.Split(a, ",")
	return &pgdump.SegmentOptions{SegmentNumber: atoiArg(p[0]), SegmentSize: atoiArg(p[1])}
}

func c19info(b *pgdump.BlockInfo) string {
	return cRec(kv{"num", fmt.Sprint(b.BlockNumber)}, kv{"lsn", b.LSN}, kv{"checksum", fmt.Sprint(b.Checksum)},
		kv{"flags", fmt.Sprint(b.Flags)}, kv{"lower", fmt.Sprint(b.Lower)}, kv{"upper", fmt.Sprint(b.Upper)},
		kv{"special", fmt.Sprint(b.Special)}, kv{"pagesize", fmt.Sprint(b.PageSize)}, kv{"version", fmt.Sprint(b.Version)},
		kv{"items", fmt.Sprint(b.ItemCount)}, kv{"free", fmt.Sprint(b.FreeSpace)}, kv{"empty", cBool(b.IsEmpty)})
}

func c19bindump(d *pgdump.BinaryBlockDump) string {
	return cRec(kv{"num", fmt.Sprint(d.BlockNumber)}, kv{"off", fmt.Sprint(d.Offset)},
		kv{"hex", "hexdump(" + hex.EncodeToString([]byte(d.HexDump)) + ")"}, kv{"size", fmt.Sprint(d.Size)})
}

func c19seginfo(s *pgdump.SegmentInfo, root string) string {
	rel, err := filepath.Rel(root, s.BasePath)
	if err != nil {
		rel = s.BasePath
	}
	return cRec(kv{"path", rel}, kv{"num", fmt.Sprint(s.SegmentNumber)}, kv{"size", fmt.Sprint(s.SegmentSize)},
		kv{"fsize", fmt.Sprint(s.FileSize)}, kv{"blocks", fmt.Sprint(s.TotalBlocks)}, kv{"goff", fmt.Sprint(s.GlobalOffset)})
}

func c19cr(c *pgdump.ChecksumResult) string {
	return cRec(kv{"num", fmt.Sprint(c.BlockNumber)}, kv{"stored", fmt.Sprint(c.StoredChecksum)},
		kv{"computed", fmt.Sprint(c.ComputedChecksum)}, kv{"valid", cBool(c.Valid)}, kv{"lsn", fmt.Sprint(c.LSN)}, kv{"lsnstr", c.LSNStr})
}

func c19fr(f *pgdump.FileChecksumResult) string {
	errs := make([]string, len(f.Errors))
	for i := range f.Errors {
		errs[i] = c19cr(&f.Errors[i])
	}
	return cRec(kv{"total", fmt.Sprint(f.TotalBlocks)}, kv{"valid", fmt.Sprint(f.ValidBlocks)},
		kv{"invalid", fmt.Sprint(f.InvalidBlocks)}, kv{"zero", fmt.Sprint(f.ZeroBlocks)}, kv{"errors", cList(errs)})
}

var (
	reHexdump = regexp.MustCompile(`hexdump\(([0-9a-f.*-]*)\)`)
	reFill    = regexp.MustCompile(`fill=(-?[0-9]+)/(-?[0-9]+)`)
)

// normHexdump replaces the model's token hexdump(<runs of the bytes handed to hex.Dump>) by the hex
// encoding of the real hex.Dump output for those bytes (hex.Dump itself is trusted, not modelled).
func normHexdump(s string) string {
	return reHexdump.ReplaceAllStringFunc(s, func(m string) string {
		sub := reHexdump.FindStringSubmatch(m)
		return "hexdump(" + hex.EncodeToString([]byte(hex.Dump(runsDecode(sub[1])))) + ")"
	})
}

// normFill replaces fill=<used>/<capacity> (integers from the model) by the float the Go expression
// float64(used)/float64(capacity)*100 yields, as a bit pattern.
func normFill(s string) string {
	return reFill.ReplaceAllStringFunc(s, func(m string) string {
		sub := reFill.FindStringSubmatch(m)
		u, _ := strconv.ParseInt(sub[1], 10, 64)
		c, _ := strconv.ParseInt(sub[2], 10, 64)
		v := 0.0
		if c != 0 {
			v = float64(u) / float64(c) * 100
		}
		return fmt.Sprintf("fill=f64:%016x", math.Float64bits(v))
	})
}

func init() {
	// ---- library models
	register("Atoi", func(a []string) string {
		v, err := strconv.Atoi(string(unhex(a[0])))
		if err != nil {
			return "err"
		}
		return fmt.Sprint(v)
	})
	register("ParseUint32", func(a []string) string {
		v, err := strconv.ParseUint(string(unhex(a[0])), 10, 32)
		if err != nil {
			return "err"
		}
		return fmt.Sprint(v)
	})
	register("Base", func(a []string) string { return cStr(filepath.Base(string(unhex(a[0])))) })

	// ---- blockrange.go
	register("ParseBlockRange", func(a []string) string {
		br, err := pgdump.ParseBlockRange(string(unhex(a[0])))
		if err != nil {
			return "err"
		}
		if br == nil {
			return "none"
		}
		return fmt.Sprintf("range:%d:%d", br.Start, br.End)
	})
	register("ReadBlockRange", func(a []string) string {
		data, err := pgdump.ReadBlockRange(c19file(a[0]), c19range(a[1]))
		if err != nil {
			return c19err(err)
		}
		return cY(data)
	})
	register("ParseBlockInfo", func(a []string) string {
		return withRunsBuf(a[0], a[1], func(b []byte) string {
			info := pgdump.ParseBlockInfo(b, u32Arg(a[2]))
			if info == nil {
				return "nil"
			}
			return c19info(info)
		})
	})
	register("DumpBlockRange", func(a []string) string {
		blocks, err := pgdump.DumpBlockRange(c19file(a[0]), c19range(a[1]))
		if err != nil {
			return c19err(err)
		}
		out := make([]string, len(blocks))
		for i := range blocks {
			out[i] = c19info(&blocks[i])
		}
		return cList(out)
	})
	register("GetBlockRangeStats", func(a []string) string {
		path := c19file(a[0])
		st, err := pgdump.GetBlockRangeStats(path, c19range(a[1]))
		if err != nil {
			return c19err(err)
		}
		if st.Path != path {
			return "wrong-path"
		}
		return cRec(kv{"total", fmt.Sprint(st.TotalBlocks)}, kv{"start", fmt.Sprint(st.StartBlock)}, kv{"end", fmt.Sprint(st.EndBlock)},
			kv{"empty", fmt.Sprint(st.EmptyBlocks)}, kv{"used", fmt.Sprint(st.UsedBlocks)}, kv{"items", fmt.Sprint(st.TotalItems)},
			kv{"free", fmt.Sprint(st.TotalFree)}, kv{"fill", fmt.Sprintf("f64:%016x", math.Float64bits(st.AvgFillPct))})
	})
	registerNorm("GetBlockRangeStats", normFill)
	register("DumpBinaryRange", func(a []string) string {
		dumps, err := pgdump.DumpBinaryRange(c19file(a[0]), c19range(a[1]))
		if err != nil {
			return c19err(err)
		}
		out := make([]string, len(dumps))
		for i := range dumps {
			out[i] = c19bindump(&dumps[i])
		}
		return cList(out)
	})
	registerNorm("DumpBinaryRange", normHexdump)
	register("DumpBinaryBlock", func(a []string) string {
		d, err := pgdump.DumpBinaryBlock(c19file(a[0]), atoiArg(a[1]))
		if err != nil {
			return c19err(err)
		}
		return c19bindump(d)
	})
	registerNorm("DumpBinaryBlock", normHexdump)

	// ---- segment.go
	register("GetSegmentNumberFromPath", func(a []string) string {
		return fmt.Sprint(pgdump.GetSegmentNumberFromPath(string(unhex(a[0]))))
	})
	register("GlobalBlockToSegment", func(a []string) string {
		s, l := pgdump.GlobalBlockToSegment(atoiArg(a[0]), atoiArg(a[1]))
		return fmt.Sprintf("%d,%d", s, l)
	})
	register("GetSegmentInfo", func(a []string) string {
		d := c19fs(a[0])
		defer os.RemoveAll(d)
		si, err := pgdump.GetSegmentInfo(filepath.Join(d, a[1]), c19opts(a[2]))
		if err != nil {
			return c19err(err)
		}
		return c19seginfo(si, d)
	})
	register("ListSegments", func(a []string) string {
		d := c19fs(a[0])
		defer os.RemoveAll(d)
		segs, err := pgdump.ListSegments(filepath.Join(d, a[1]))
		if err != nil {
			return c19err(err)
		}
		out := make([]string, len(segs))
		for i := range segs {
			out[i] = c19seginfo(&segs[i], d)
		}
		return cList(out)
	})
	register("ReadSegmentBlock", func(a []string) string {
		d := c19fs(a[0])
		defer os.RemoveAll(d)
		data, err := pgdump.ReadSegmentBlock(filepath.Join(d, a[1]), atoiArg(a[2]), c19opts(a[3]))
		if err != nil {
			return c19err(err)
		}
		return cY(data)
	})
	register("ReadMultiSegmentFile", func(a []string) string {
		d := c19fs(a[0])
		defer os.RemoveAll(d)
		data, err := pgdump.ReadMultiSegmentFile(filepath.Join(d, a[1]), atoiArg(a[2]), atoiArg(a[3]), c19opts(a[4]))
		if err != nil {
			return c19err(err)
		}
		return cY(data)
	})

	// ---- checksum.go
	register("checksumComp", func(a []string) string {
		return fmt.Sprint(pgdump.VerifChecksumComp(u32Arg(a[0]), u32Arg(a[1])))
	})
	register("computePageChecksum", func(a []string) string {
		return withRunsBuf(a[0], a[1], func(b []byte) string { return fmt.Sprint(pgdump.VerifComputePageChecksum(b, u32Arg(a[2]))) })
	})
	register("pgChecksumBlock", func(a []string) string {
		return withRunsBuf(a[0], a[1], func(b []byte) string { return fmt.Sprint(pgdump.VerifPgChecksumBlock(b, u32Arg(a[2]))) })
	})
	register("isZeroPage", func(a []string) string {
		return withRunsBuf(a[0], a[1], func(b []byte) string { return cBool(pgdump.VerifIsZeroPage(b)) })
	})
	register("VerifyPageChecksum", func(a []string) string {
		return withRunsBuf(a[0], a[1], func(b []byte) string {
			r := pgdump.VerifyPageChecksum(b, u32Arg(a[2]))
			return c19cr(&r)
		})
	})
	register("VerifyFileChecksums", func(a []string) string {
		return withRunsBuf(a[0], a[1], func(b []byte) string {
			return c19fr(pgdump.VerifyFileChecksums(b, u32Arg(a[2])))
		})
	})
	register("VerifyDataDirChecksums", func(a []string) string {
		d := c19tree(a[0])
		defer os.RemoveAll(d)
		r, err := pgdump.VerifyDataDirChecksums(d)
		if err != nil {
			return c19err(err)
		}
		if r.DataDir != d {
			return "wrong-datadir"
		}
		files := make([]string, len(r.Files))
		for i := range r.Files {
			rel, e := filepath.Rel(filepath.Join(d, "base"), r.Files[i].Path)
			if e != nil {
				rel = r.Files[i].Path
			}
			files[i] = filepath.ToSlash(rel) + "=" + c19fr(&r.Files[i])
		}
		return cRec(kv{"files", fmt.Sprint(r.TotalFiles)}, kv{"blocks", fmt.Sprint(r.TotalBlocks)}, kv{"valid", fmt.Sprint(r.ValidBlocks)},
			kv{"invalid", fmt.Sprint(r.InvalidBlocks)}, kv{"list", cList(files)})
	})
}
