package main

// C18 — index files: Go side of the correspondence check (see driver/C18/gen.ml for the
// matching printers). Only what the property observes is rendered; flag names are compared as a
// set (sorted), floats as bit patterns, the "too small" error as an enum.

import (
	"fmt"
	"math"
	"sort"
	"strconv"
	"strings"

	"github.com/Chocapikk/pgread/pgdump"
)

func c18Page(p pgdump.IndexPageInfo) string {
	names := make([]string, len(p.FlagStrings))
	for i, n := range p.FlagStrings {
		names[i] = cStr(n)
	}
	sort.Strings(names)
	return cRec(
		kv{"num", fmt.Sprint(p.PageNumber)}, kv{"type", fmt.Sprint(int(p.IndexType))}, kv{"tstr", cStr(p.TypeString)},
		kv{"meta", cBool(p.IsMeta)}, kv{"leaf", cBool(p.IsLeaf)}, kv{"root", cBool(p.IsRoot)}, kv{"deleted", cBool(p.IsDeleted)},
		kv{"flags", fmt.Sprint(p.Flags)}, kv{"names", cList(names)},
		kv{"level", fmt.Sprint(p.Level)}, kv{"prev", fmt.Sprint(p.PrevBlock)}, kv{"next", fmt.Sprint(p.NextBlock)},
		kv{"right", fmt.Sprint(p.RightLink)}, kv{"items", fmt.Sprint(p.ItemCount)}, kv{"free", fmt.Sprint(p.FreeSpace)},
		kv{"lsn", fmt.Sprint(p.LSN)}, kv{"lsnstr", cStr(p.LSNStr)})
}

func c18BT(m *pgdump.BTreeMetaPage) string {
	if m == nil {
		return "none"
	}
	return "bt" + cRec(kv{"magic", fmt.Sprint(m.Magic)}, kv{"version", fmt.Sprint(m.Version)}, kv{"root", fmt.Sprint(m.Root)},
		kv{"level", fmt.Sprint(m.Level)}, kv{"fastroot", fmt.Sprint(m.FastRoot)}, kv{"fastlevel", fmt.Sprint(m.FastLevel)})
}

func c18Hash(m *pgdump.HashMetaPage) string {
	if m == nil {
		return "none"
	}
	return "hash" + cRec(kv{"magic", fmt.Sprint(m.Magic)}, kv{"version", fmt.Sprint(m.Version)},
		kv{"nbuckets", fmt.Sprint(m.NumBuckets)}, kv{"maxbucket", fmt.Sprint(m.MaxBucket)},
		kv{"highmask", fmt.Sprint(m.HighMask)}, kv{"lowmask", fmt.Sprint(m.LowMask)},
		kv{"ffactor", fmt.Sprint(m.FFactor)}, kv{"ntuples", fmt.Sprint(math.Float64bits(m.NumTuples))})
}

func c18Gin(m *pgdump.GINMetaPage) string {
	if m == nil {
		return "none"
	}
	return "gin" + cRec(kv{"version", fmt.Sprint(m.Version)}, kv{"head", fmt.Sprint(m.Head)}, kv{"tail", fmt.Sprint(m.Tail)},
		kv{"tailfree", fmt.Sprint(m.TailFreeSize)}, kv{"npendpages", fmt.Sprint(m.NPendingPages)},
		kv{"npendtuples", fmt.Sprint(m.NPendingHeapTuples)}, kv{"ntotal", fmt.Sprint(m.NTotalPages)},
		kv{"nentry", fmt.Sprint(m.NEntryPages)}, kv{"ndata", fmt.Sprint(m.NDataPages)}, kv{"nentries", fmt.Sprint(m.NEntries)})
}

func c18Meta(v interface{}) string {
	switch m := v.(type) {
	case nil:
		return "none"
	case *pgdump.BTreeMetaPage:
		return c18BT(m)
	case *pgdump.HashMetaPage:
		return c18Hash(m)
	case *pgdump.GINMetaPage:
		return c18Gin(m)
	}
	return fmt.Sprintf("other:%T", v)
}

func c18Int(s string) int64 {
	n, err := strconv.ParseInt(s, 10, 64)
	if err != nil {
		panic("harness: bad integer argument")
	}
	return n
}

func init() {
	register("ParseIndexFile", func(a []string) string {
		return withBuf(a[0], a[1], func(b []byte) string {
			info, err := pgdump.ParseIndexFile(b)
			if err != nil {
				if strings.HasPrefix(err.Error(), "index file too small") {
					return "err:too_small"
				}
				return "err:other"
			}
			return held(func() string {
				pages := make([]string, len(info.Pages))
				for i, p := range info.Pages {
					pages[i] = c18Page(p)
				}
				return cRec(kv{"type", fmt.Sprint(int(info.Type))}, kv{"tstr", cStr(info.TypeString)},
					kv{"total", fmt.Sprint(info.TotalPages)}, kv{"meta", c18Meta(info.Meta)},
					kv{"levels", fmt.Sprint(info.Levels)}, kv{"root", fmt.Sprint(info.RootPage)}, kv{"pages", cList(pages)})
			})
		})
	})
	register("detectIndexType", func(a []string) string {
		return withBuf(a[0], a[1], func(b []byte) string {
			return fmt.Sprint(int(pgdump.VerifDetectIndexType(b)))
		})
	})
	register("parseIndexPage", func(a []string) string {
		return withBuf(a[0], a[1], func(b []byte) string {
			return c18Page(pgdump.VerifParseIndexPage(b, uint32(c18Int(a[2])), pgdump.IndexType(c18Int(a[3]))))
		})
	})
	// parseSpecial <which> <vis> <tail>: one of the six special-space parsers on an empty IndexPageInfo
	register("parseSpecial", func(a []string) string {
		return withBuf(a[1], a[2], func(b []byte) string {
			info := &pgdump.IndexPageInfo{}
			switch a[0] {
			case "btree":
				pgdump.VerifParseBTreePageSpecial(info, b)
			case "hash":
				pgdump.VerifParseHashPageSpecial(info, b)
			case "gist":
				pgdump.VerifParseGiSTPageSpecial(info, b)
			case "gin":
				pgdump.VerifParseGINPageSpecial(info, b)
			case "spgist":
				pgdump.VerifParseSPGiSTPageSpecial(info, b)
			case "brin":
				pgdump.VerifParseBRINPageSpecial(info, b)
			default:
				return "harness:unknown-parser"
			}
			return c18Page(*info)
		})
	})
	register("parseBTreeMeta", func(a []string) string {
		return withBuf(a[0], a[1], func(b []byte) string { return c18BT(pgdump.VerifParseBTreeMeta(b)) })
	})
	register("parseHashMeta", func(a []string) string {
		return withBuf(a[0], a[1], func(b []byte) string { return c18Hash(pgdump.VerifParseHashMeta(b)) })
	})
	register("parseGINMeta", func(a []string) string {
		return withBuf(a[0], a[1], func(b []byte) string { return c18Gin(pgdump.VerifParseGINMeta(b)) })
	})
	register("IndexTypeString", func(a []string) string {
		return cStr(pgdump.IndexType(c18Int(a[0])).String())
	})
}
