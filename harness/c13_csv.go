package main

// Go port of the RFC 4180 reader csv_go / csv_read of coq/C13/Spec.v, compared with the extracted
// Coq reader by CsvCheck; and a second, independent read-back oracle: Go's own encoding/csv Reader
// (goCSVCanon), which -- unlike the RFC 4180 reader -- skips empty lines.

import (
	"encoding/csv"
	"encoding/hex"
	"strings"
)

// csvRead returns the records, or ok=false where csv_read returns None.
func csvRead(t []byte) (recs [][][]byte, ok bool) {
	const (
		stStart = iota
		stUnq
		stQ
		stQQ
	)
	st := stStart
	cur := []byte{}
	var rec [][]byte
	recs = [][][]byte{}
	endField := func() { rec = append(rec, cur); cur = []byte{} }
	endRecord := func() { endField(); recs = append(recs, rec); rec = nil }
	i := 0
	for i < len(t) {
		c := t[i]
		switch st {
		case stStart, stUnq:
			switch {
			case c == ',':
				endField()
				st = stStart
				i++
			case c == '\n':
				endRecord()
				st = stStart
				i++
			case c == '\r':
				if i+1 < len(t) && t[i+1] == '\n' {
					endRecord()
					st = stStart
					i += 2
				} else {
					return nil, false
				}
			case c == '"':
				if st != stStart {
					return nil, false
				}
				// csv_go CsvQ [] rec r: the field restarts empty
				cur = []byte{}
				st = stQ
				i++
			default:
				cur = append(cur, c)
				st = stUnq
				i++
			}
		case stQ:
			if c == '"' {
				st = stQQ
			} else {
				cur = append(cur, c)
			}
			i++
		default: // stQQ
			switch {
			case c == '"':
				cur = append(cur, c)
				st = stQ
				i++
			case c == ',':
				endField()
				st = stStart
				i++
			case c == '\n':
				endRecord()
				st = stStart
				i++
			case c == '\r':
				if i+1 < len(t) && t[i+1] == '\n' {
					endRecord()
					st = stStart
					i += 2
				} else {
					return nil, false
				}
			default:
				return nil, false
			}
		}
	}
	switch st {
	case stStart:
		if len(rec) > 0 {
			endRecord()
		}
	case stUnq, stQQ:
		endRecord()
	default:
		return nil, false
	}
	return recs, true
}

// csvCanon: records separated by '|', fields by ';', a field is 'F' followed by its hex (so that a
// field stays visible when a normalizer empties it); NONE for no record.
func csvCanonRecs(recs [][][]byte) string {
	if len(recs) == 0 {
		return "NONE"
	}
	rs := make([]string, len(recs))
	for i, r := range recs {
		fs := make([]string, len(r))
		for j, f := range r {
			fs[j] = "F" + hex.EncodeToString(f)
		}
		rs[i] = strings.Join(fs, ";")
	}
	return strings.Join(rs, "|")
}

func csvCanon(t []byte) string {
	recs, ok := csvRead(t)
	if !ok {
		return "CSVFAIL"
	}
	return csvCanonRecs(recs)
}

// goCSVCanon reads t with Go's own encoding/csv Reader (any number of fields per record, strict
// quotes; comment = 0 for none) and prints the records like csvCanonRecs.  The Reader rewrites
// every "\r\n" inside a quoted field to "\n"; the expectation is normalised the same way by the
// generator (driver/C13/gen.ml crlf_norm).
func goCSVCanon(t string, comment rune) string {
	r := csv.NewReader(strings.NewReader(t))
	r.FieldsPerRecord = -1
	r.LazyQuotes = false
	r.TrimLeadingSpace = false
	r.Comment = comment
	recs, err := r.ReadAll()
	if err != nil {
		return "CSVFAIL"
	}
	out := make([][][]byte, len(recs))
	for i, rec := range recs {
		out[i] = make([][]byte, len(rec))
		for j, f := range rec {
			out[i][j] = []byte(f)
		}
	}
	return csvCanonRecs(out)
}
