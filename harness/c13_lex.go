package main

// Go port of the SQL lexer of coq/C13/Spec.v (lex_tok / lex, scan_dq, scan_sq, scan_dolq,
// lex_number, word_token, skip_ws).  It must fail exactly where the Coq functions return None;
// the differential function LexCheck compares it with the extracted Coq lexer.

import (
	"bytes"
	"encoding/hex"
	"strings"
)

func lxSpace(c byte) bool      { return c == ' ' || c >= 9 && c <= 13 }
func lxNewline(c byte) bool    { return c == '\n' || c == '\r' }
func lxDigit(c byte) bool      { return c >= '0' && c <= '9' }
func lxIdentStart(c byte) bool { return c >= 'a' && c <= 'z' || c >= 'A' && c <= 'Z' || c == '_' || c >= 128 }
func lxIdentCont(c byte) bool  { return lxIdentStart(c) || lxDigit(c) || c == '$' }
func lxDolqCont(c byte) bool   { return lxIdentStart(c) || lxDigit(c) }
func lxSelf(c byte) bool {
	return c == ',' || c == '(' || c == ')' || c == '[' || c == ']' || c == ';'
}

// Spec.pg_keywords (PostgreSQL 16 kwlist.h RESERVED_KEYWORD and TYPE_FUNC_NAME_KEYWORD)
var lxKeywords = func() map[string]bool {
	m := map[string]bool{}
	for _, w := range strings.Fields(`all analyse analyze and any array as asc asymmetric both case
  cast check collate column constraint create current_catalog current_date
  current_role current_time current_timestamp current_user default deferrable
  desc distinct do else end except false fetch for foreign from
  grant group having in initially intersect into lateral leading
  limit localtime localtimestamp not null offset on only or order
  placing primary references returning select session_user some symmetric
  system_user table then to trailing true union unique user using
  variadic when where window with
  authorization binary collation concurrently cross current_schema freeze
  full ilike inner is isnull join left like natural notnull outer
  overlaps right similar tablesample verbose`) {
		m[w] = true
	}
	return m
}()

func lxSpan(t []byte, i int, p func(byte) bool) int {
	for i < len(t) && p(t[i]) {
		i++
	}
	return i
}

func asciiLower(b []byte) []byte {
	out := make([]byte, len(b))
	for i, c := range b {
		if c >= 'A' && c <= 'Z' {
			c += 32
		}
		out[i] = c
	}
	return out
}

func tokHex(kind string, payload []byte) string { return kind + ":" + hex.EncodeToString(payload) }

// word_token
func lxWord(w []byte) string {
	lw := asciiLower(w)
	if lxKeywords[string(lw)] {
		return tokHex("K", lw)
	}
	return tokHex("I", lw)
}

// scan_dq: i is just after the opening double quote
func lxScanDq(t []byte, i int) ([]byte, int, bool) {
	var out []byte
	for {
		if i >= len(t) {
			return nil, 0, false
		}
		c := t[i]
		if c == '"' {
			if i+1 < len(t) && t[i+1] == '"' {
				out = append(out, '"')
				i += 2
				continue
			}
			return out, i + 1, true
		}
		out = append(out, c)
		i++
	}
}

// scan_sq SqIn: i is just after the opening quote
func lxScanSq(t []byte, i int) ([]byte, int, bool) {
	const (
		sqIn = iota
		sqClosed
		sqWs
	)
	st, nl, cr := sqIn, false, 0
	var out []byte
	for {
		if i >= len(t) {
			switch st {
			case sqIn:
				return nil, 0, false
			case sqClosed:
				return out, len(t), true
			default:
				return out, cr, true
			}
		}
		c := t[i]
		switch st {
		case sqIn:
			if c == '\'' {
				st = sqClosed
			} else {
				out = append(out, c)
			}
			i++
		case sqClosed:
			switch {
			case c == '\'':
				out = append(out, '\'')
				st = sqIn
				i++
			case lxSpace(c):
				st, nl, cr = sqWs, lxNewline(c), i
				i++
			case c == '-':
				return nil, 0, false
			default:
				return out, i, true
			}
		default: // sqWs
			switch {
			case lxSpace(c):
				nl = nl || lxNewline(c)
				i++
			case c == '\'':
				if !nl {
					return out, cr, true
				}
				st = sqIn
				i++
			case c == '-':
				return nil, 0, false
			default:
				return out, cr, true
			}
		}
	}
}

// lex_number: t[i] is a digit
func lxNumber(t []byte, i int) (string, int, bool) {
	ipEnd := lxSpan(t, i, lxDigit)
	ip := t[i:ipEnd]
	j := ipEnd
	hasFrac := false
	var fp []byte
	if j < len(t) && t[j] == '.' {
		hasFrac = true
		e := lxSpan(t, j+1, lxDigit)
		fp = t[j+1 : e]
		j = e
	}
	hasExp, badExp := false, false
	var ex []byte
	if j < len(t) && (t[j] == 'e' || t[j] == 'E') {
		hasExp = true
		k := j + 1
		if k < len(t) && (t[k] == '+' || t[k] == '-') {
			k++
		}
		e := lxSpan(t, k, lxDigit)
		badExp = e == k
		ex = t[j:e]
		j = e
	}
	junk := j < len(t) && (lxIdentStart(t[j]) || t[j] == '.')
	if len(ip) == 0 || junk || badExp {
		return "", 0, false
	}
	if !hasFrac && !hasExp {
		return "Z:" + hex.EncodeToString([]byte(canonDigits(ip))), j, true
	}
	text := append([]byte{}, ip...)
	if hasFrac {
		text = append(text, '.')
		text = append(text, fp...)
	}
	text = append(text, ex...)
	return tokHex("N", text), j, true
}

// lex_tok: i < len(t), t[i] is not white space
func lxTok(t []byte, i int) (string, int, bool) {
	c := t[i]
	switch {
	case c == '-':
		if i+1 >= len(t) {
			return "", 0, false
		}
		d := t[i+1]
		if d == '-' {
			e := lxSpan(t, i+2, func(x byte) bool { return !lxNewline(x) })
			return tokHex("C", t[i+2:e]), e, true
		}
		if lxDigit(d) {
			return tokHex("P", []byte{c}), i + 1, true
		}
		return "", 0, false
	case c == '"':
		name, rest, ok := lxScanDq(t, i+1)
		if !ok || len(name) == 0 {
			return "", 0, false
		}
		return tokHex("I", name), rest, true
	case c == '\'':
		s, rest, ok := lxScanSq(t, i+1)
		if !ok {
			return "", 0, false
		}
		return tokHex("S", s), rest, true
	case c == '$':
		e := lxSpan(t, i+1, lxDolqCont)
		body := t[i+1 : e]
		if e >= len(t) || t[e] != '$' || (len(body) > 0 && !lxIdentStart(body[0])) {
			return "", 0, false
		}
		tag := t[i : e+1]
		k := bytes.Index(t[e+1:], tag)
		if k < 0 {
			return "", 0, false
		}
		return tokHex("S", t[e+1:e+1+k]), e + 1 + k + len(tag), true
	case lxDigit(c):
		return lxNumber(t, i)
	case lxIdentStart(c):
		e := lxSpan(t, i, lxIdentCont)
		if e < len(t) && t[e] == '\'' {
			return "", 0, false
		}
		return lxWord(t[i:e]), e, true
	case lxSelf(c):
		return tokHex("P", []byte{c}), i + 1, true
	}
	return "", 0, false
}

// lexCanon is lex_all rendered canonically: tokens separated by one space, EMPTY for no token,
// LEXFAIL when the Coq lexer returns None.  (Every token consumes at least one byte, so the fuel
// S (length t) of lex_all is never exhausted.)
func lexCanon(t []byte) string {
	var toks []string
	i := 0
	for {
		i = lxSpan(t, i, lxSpace)
		if i >= len(t) {
			break
		}
		tok, rest, ok := lxTok(t, i)
		if !ok {
			return "LEXFAIL"
		}
		toks = append(toks, tok)
		i = rest
	}
	if len(toks) == 0 {
		return "EMPTY"
	}
	return strings.Join(toks, " ")
}
