package main

// Go side of property C11 (determinism, no shared mutable state).
//
//	Repeat      one operation, N times in a row, on one generated data directory: every output must be byte-identical
//	            to the first one; results handed out are scribbled over before the next call (aliasing); the files on
//	            disk and the in-memory input buffers must be unchanged at the end.
//	RepeatCLI   the same for the command-line binary ($PGREAD_CLI).
//	Concurrent  2..32 goroutines running a random mix of the operations on SHARED input buffers, one shared
//	            RemoteClient and one shared TOASTReader; every result is compared with the sequential one.  In the
//	            thorough tier the harness is built with -race, so a data race kills the process (bin/check reports it).
//	FindTableByName   the by-name lookup of dropped.go on a map built in several insertion orders (three-way S/M/I).
//
// Result: "deterministic" | "nondeterministic:<op>" | "unobservable:<op>:<n>" (the fixture did not make the order
// observable: fewer than the required number of items) | "MUTATED-INPUT:<op>".

import (
	"bytes"
	"encoding/binary"
	"encoding/json"
	"fmt"
	"math/rand"
	"os"
	"os/exec"
	"path/filepath"
	"reflect"
	"sort"
	"strconv"
	"strings"
	"sync"

	"github.com/Chocapikk/pgread/pgdump"
)

// ---------------------------------------------------------------- the generated data directory

type c11Env struct {
	dir   string
	names []string          // relative paths, in argument order
	files map[string][]byte // the bytes as generated (never handed to the implementation)
}

// a[i], a[i+1], ... = pairs (relative path, hex)
func c11Materialise(a []string) *c11Env {
	e := &c11Env{dir: c01Dir(), files: map[string][]byte{}}
	for i := 0; i+1 < len(a); i += 2 {
		b := unhex(a[i+1])
		e.names = append(e.names, a[i])
		e.files[a[i]] = b
		c01Write(filepath.Join(e.dir, filepath.FromSlash(a[i])), b)
	}
	return e
}

func (e *c11Env) cleanup() { os.RemoveAll(e.dir) }

// the files on disk are what was written
func (e *c11Env) diskUnchanged() bool {
	for _, n := range e.names {
		b, err := os.ReadFile(filepath.Join(e.dir, filepath.FromSlash(n)))
		if err != nil || !bytes.Equal(b, e.files[n]) {
			return false
		}
	}
	return true
}

// c11Bufs is a set of input buffers handed to the implementation (len < cap, like sub-slices of a file) with a
// snapshot to compare against afterwards.
type c11Bufs struct {
	bufs map[string][]byte
	snap map[string][]byte
}

func (e *c11Env) buffers() *c11Bufs {
	b := &c11Bufs{bufs: map[string][]byte{}, snap: map[string][]byte{}}
	for n, f := range e.files {
		buf := make([]byte, len(f), len(f)+16)
		copy(buf, f)
		for i := len(f); i < cap(buf); i++ {
			buf[:cap(buf)][i] = 0xA5
		}
		b.bufs[n] = buf
		b.snap[n] = append([]byte(nil), buf[:cap(buf)]...)
	}
	return b
}

func (b *c11Bufs) unchanged() bool {
	for n, s := range b.snap {
		if !bytes.Equal(b.bufs[n][:cap(b.bufs[n])], s) {
			return false
		}
	}
	return true
}

func (b *c11Bufs) reader() pgdump.RemoteReader {
	return func(path string) ([]byte, error) {
		if d, ok := b.bufs[path]; ok {
			return d, nil
		}
		return nil, os.ErrNotExist
	}
}

// ---------------------------------------------------------------- rendering

func c11JSON(v interface{}) string {
	b, err := json.Marshal(v)
	if err != nil {
		return fmt.Sprintf("jsonerr:%+v", v) // NaN / Inf in a row: no pointers in those results
	}
	return string(b)
}

func c11DumpText(r *pgdump.DumpResult) string {
	if r == nil {
		return "nil"
	}
	return c01Dump(r) + "|" + c11JSON(r)
}

// the SQL text without the "-- Generated at:" line
func c11DropGenerated(s string) string {
	lines := strings.Split(s, "\n")
	out := lines[:0]
	for _, l := range lines {
		if strings.HasPrefix(l, "-- Generated at:") {
			continue
		}
		out = append(out, l)
	}
	return strings.Join(out, "\n")
}

// c11Scribble overwrites everything reachable from a result the caller received: if the result aliases state the
// implementation keeps (a cache), the next call shows it.
func c11Scribble(v interface{}) {
	seen := map[uintptr]bool{}
	var walk func(x reflect.Value, depth int)
	walk = func(x reflect.Value, depth int) {
		if depth > 12 || !x.IsValid() {
			return
		}
		switch x.Kind() {
		case reflect.Ptr:
			if x.IsNil() || seen[x.Pointer()] {
				return
			}
			seen[x.Pointer()] = true
			walk(x.Elem(), depth+1)
		case reflect.Interface:
			if !x.IsNil() {
				walk(x.Elem(), depth+1)
			}
		case reflect.Slice:
			for i := 0; i < x.Len(); i++ {
				walk(x.Index(i), depth+1)
			}
			for i := 0; i < x.Len(); i++ {
				if x.Index(i).CanSet() {
					x.Index(i).Set(reflect.Zero(x.Type().Elem()))
				}
			}
		case reflect.Map:
			if x.IsNil() {
				return
			}
			for _, k := range x.MapKeys() {
				walk(x.MapIndex(k), depth+1)
			}
			for _, k := range x.MapKeys() {
				x.SetMapIndex(k, reflect.Value{})
			}
			// and a key of the caller's own goes in: a container shared between results (or with a later call) shows it
			if x.Type().Key().Kind() == reflect.String && x.Type().Elem().Kind() == reflect.Interface {
				x.SetMapIndex(reflect.ValueOf("\x00scribbled").Convert(x.Type().Key()), reflect.ValueOf("by-the-caller"))
			}
		case reflect.Struct:
			for i := 0; i < x.NumField(); i++ {
				if x.Type().Field(i).PkgPath == "" { // exported
					walk(x.Field(i), depth+1)
				}
			}
		}
	}
	walk(reflect.ValueOf(v), 0)
}

// ---------------------------------------------------------------- operations

// c11State: what lives across the repetitions of one operation (shared client / reader)
type c11State struct {
	env    *c11Env
	bufs   *c11Bufs // buffers the persistent client reads
	client *pgdump.RemoteClient
	reader *pgdump.TOASTReader
	scan   *pgdump.SecretScanner
	opts   *pgdump.Options // one options value shared by all repetitions of dump_shared_options
}

// an operation returns its output text and the number of "items whose order could leak" it saw
type c11Op func(st *c11State, param string, rep int) (string, int)

func c11Split(param string) []string {
	if param == "-" || param == "" {
		return nil
	}
	return strings.Split(param, "|")
}
func c11Str(h string) string { return string(unhex(h)) }

func c11MaxTables(r *pgdump.DumpResult) int {
	n := 0
	if r == nil {
		return 0
	}
	for _, d := range r.Databases {
		if len(d.Tables) > n {
			n = len(d.Tables)
		}
	}
	if len(r.Databases) < 2 {
		return 0
	}
	return n
}

// the client used by repetition rep: a fresh one on fresh buffers (even) or the persistent one (odd)
func (st *c11State) clientFor(rep int) (*pgdump.RemoteClient, *c11Bufs) {
	if rep%2 == 0 {
		b := st.env.buffers()
		return pgdump.NewRemoteClient(b.reader()), b
	}
	if st.client == nil {
		st.bufs = st.env.buffers()
		st.client = pgdump.NewRemoteClient(st.bufs.reader())
	}
	return st.client, st.bufs
}

func c11Remote(f func(c *pgdump.RemoteClient, p []string) (interface{}, string, int)) c11Op {
	return func(st *c11State, param string, rep int) (string, int) {
		c, b := st.clientFor(rep)
		res, text, n := f(c, c11Split(param))
		if !b.unchanged() {
			return "MUTATED-INPUT", n
		}
		if res != nil {
			c11Scribble(res)
		}
		return text, n
	}
}

var c11Ops = map[string]c11Op{}

func c11Dump(st *c11State) *pgdump.DumpResult {
	r, err := pgdump.DumpDataDir(st.env.dir, nil)
	if err != nil {
		return nil
	}
	return r
}

func init() {
	// ---- data-directory dump and the three renderings
	// one Options value (layout auto-detection on) reused for every repetition: it is an input, must come back unchanged, and
	// the dump must not depend on what an earlier dump left in it (seeded change C11-10)
	c11Ops["dump_shared_options"] = func(st *c11State, param string, rep int) (string, int) {
		if st.opts == nil {
			st.opts = &pgdump.Options{SkipSystemTables: true}
		}
		before := *st.opts
		r, err := pgdump.DumpDataDir(st.env.dir, st.opts)
		if *st.opts != before {
			return "MUTATED-INPUT:options", 0
		}
		if err != nil {
			return "err", 0
		}
		return c11DumpText(r), c11MaxTables(r)
	}
	c11Ops["dump_json"] = func(st *c11State, param string, rep int) (string, int) {
		var o *pgdump.Options
		if p := c11Split(param); len(p) == 2 {
			o = &pgdump.Options{DatabaseFilter: c11Str(p[0]), TableFilter: c11Str(p[1]), SkipSystemTables: true}
		}
		r, err := pgdump.DumpDataDir(st.env.dir, o)
		if err != nil {
			return "err", 0
		}
		t, n := c11DumpText(r), c11MaxTables(r)
		if o != nil { // one database selected: the tables of that database
			n = 0
			for _, d := range r.Databases {
				n += len(d.Tables)
			}
		}
		c11Scribble(r)
		return t, n
	}
	c11Ops["sql"] = func(st *c11State, param string, rep int) (string, int) {
		r := c11Dump(st)
		if r == nil {
			return "err", 0
		}
		var w bytes.Buffer
		if err := r.ToSQL(&w); err != nil {
			return "err:" + err.Error(), 0
		}
		n := strings.Count(w.String(), "::jsonb") + strings.Count(w.String(), "\":") // JSON objects written as literals
		return c11DropGenerated(w.String()), n
	}
	c11Ops["csv"] = func(st *c11State, param string, rep int) (string, int) {
		r := c11Dump(st)
		if r == nil {
			return "err", 0
		}
		var w bytes.Buffer
		if err := r.ToCSV(&w); err != nil {
			return "err:" + err.Error(), 0
		}
		return w.String(), c11MaxTables(r)
	}
	// ---- search: param = patternhex|max|includeRow
	searchOpts := func(param string) *pgdump.SearchOptions {
		p := c11Split(param)
		m, _ := strconv.Atoi(p[1])
		return &pgdump.SearchOptions{Pattern: c11Str(p[0]), MaxResults: m, IncludeRow: p[2] == "1"}
	}
	c11Ops["search_in_dump"] = func(st *c11State, param string, rep int) (string, int) {
		r := c11Dump(st)
		if r == nil {
			return "err", 0
		}
		before := c11DumpText(r)
		hits, err := pgdump.SearchInDump(r, searchOpts(param))
		if err != nil {
			return "err", 0
		}
		if c11DumpText(r) != before {
			return "MUTATED-INPUT", len(hits)
		}
		t := c11JSON(hits)
		n := len(hits)
		c11Scribble(hits)
		return t, n
	}
	// ---- no mutable state shared between calls: the same pattern text searched case-insensitively and case-sensitively in
	// one process, in both orders (rep parity), must give what an equivalent pattern with another text - "(?:" + P + ")",
	// same language - gives under the same flag: a cache keyed by the pattern text alone shows up here (seeded change C11-3)
	c11Ops["search_history"] = func(st *c11State, param string, rep int) (string, int) {
		r := c11Dump(st)
		if r == nil {
			return "err", 0
		}
		p := c11Split(param)
		pat := c11Str(p[0])
		run := func(pt string, cs bool) string {
			hits, err := pgdump.SearchInDump(r, &pgdump.SearchOptions{Pattern: pt, CaseSensitive: cs, IncludeRow: false})
			if err != nil {
				return "err"
			}
			return fmt.Sprintf("%d:", len(hits)) + c11JSON(hits)
		}
		var ins, sens string
		if rep%2 == 0 {
			ins, sens = run(pat, false), run(pat, true)
		} else {
			sens, ins = run(pat, true), run(pat, false)
		}
		if sens != run("(?:"+pat+")", true) || ins != run("(?:"+pat+")", false) {
			return "SHARED-STATE:result of a search depends on an earlier search with the same pattern text", 0
		}
		n, _ := strconv.Atoi(strings.SplitN(ins, ":", 2)[0])
		if ins == sens {
			n = 0 // unobservable: the data do not distinguish the two flags
		}
		return ins + "/" + sens, n
	}
	c11Ops["search"] = func(st *c11State, param string, rep int) (string, int) {
		hits, err := pgdump.Search(st.env.dir, searchOpts(param))
		if err != nil {
			return "err", 0
		}
		return c11JSON(hits), len(hits)
	}
	// ---- the convenience wrappers (search.go, secrets.go, deleted.go, csv.go, toast.go): same determinism obligations
	c11Ops["quick_search"] = func(st *c11State, param string, rep int) (string, int) {
		hits, err := pgdump.QuickSearch(st.env.dir, c11Str(param))
		if err != nil {
			return "err", 0
		}
		return c11JSON(hits), len(hits)
	}
	c11Ops["scan_for_secrets"] = func(st *c11State, param string, rep int) (string, int) {
		f, err := pgdump.ScanForSecrets(st.env.dir, nil)
		if err != nil {
			return "err", 0
		}
		r, err := pgdump.SearchSecrets(st.env.dir)
		if err != nil {
			return "err", 0
		}
		return c11JSON(f) + "\n" + c11JSON(r), len(f)
	}
	c11Ops["scan_all_deleted"] = func(st *c11State, param string, rep int) (string, int) {
		r, err := pgdump.ScanAllDeletedRows(st.env.dir, nil)
		if err != nil || r == nil {
			return "err", 0
		}
		return c11DumpText(r), c11MaxTables(r)
	}
	c11Ops["write_csv_file"] = func(st *c11State, param string, rep int) (string, int) {
		r := c11Dump(st)
		if r == nil {
			return "err", 0
		}
		var w bytes.Buffer
		if err := pgdump.WriteCSVFile(&w, r); err != nil {
			return "err:" + err.Error(), 0
		}
		return w.String(), c11MaxTables(r)
	}
	c11Ops["analyze_toast"] = func(st *c11State, param string, rep int) (string, int) {
		l, err := pgdump.AnalyzeTOAST(st.env.dir, c11Str(param))
		if err != nil {
			return "err", 0
		}
		return c11JSON(l), len(l)
	}
	c11Ops["scan_secrets"] = func(st *c11State, param string, rep int) (string, int) {
		r := c11Dump(st)
		if r == nil {
			return "err", 0
		}
		if st.scan == nil {
			st.scan = pgdump.NewSecretScanner()
		}
		before := c11DumpText(r)
		f := st.scan.ScanDumpResult(r)
		if c11DumpText(r) != before {
			return "MUTATED-INPUT", len(f)
		}
		return c11JSON(f), len(f)
	}
	// ---- RemoteClient
	c11Ops["remote_dumpall"] = c11Remote(func(c *pgdump.RemoteClient, p []string) (interface{}, string, int) {
		r := c.DumpAll()
		return r, c11DumpText(r), c11MaxTables(r)
	})
	c11Ops["remote_tables"] = c11Remote(func(c *pgdump.RemoteClient, p []string) (interface{}, string, int) {
		oid, _ := strconv.ParseUint(p[0], 10, 32)
		t := c.Tables(uint32(oid))
		return t, c11JSON(t), len(t)
	})
	c11Ops["remote_tables_by_name"] = c11Remote(func(c *pgdump.RemoteClient, p []string) (interface{}, string, int) {
		t := c.TablesByName(c11Str(p[0]))
		return t, c11JSON(t), len(t)
	})
	c11Ops["remote_databases"] = c11Remote(func(c *pgdump.RemoteClient, p []string) (interface{}, string, int) {
		d := c.Databases()
		return d, c11JSON(d), len(d)
	})
	c11Ops["remote_columns"] = c11Remote(func(c *pgdump.RemoteClient, p []string) (interface{}, string, int) {
		db := c.Database(c11Str(p[0]))
		if db == nil {
			return nil, "nodb", 0
		}
		t := c.Table(db.OID, c11Str(p[1]))
		if t == nil {
			return nil, "notable", 0
		}
		cols := c.Columns(db.OID, t.OID)
		return cols, c11JSON(cols), len(cols)
	})
	// lookups by name, exact and in other letter cases, of every relation of a database: relation names are unique per schema
	// only and lookups fall back to case-insensitive matching, so several relations can answer to one name; which one is
	// returned must not change from call to call (seeded change C11-13: the lookup ranged over the catalog map)
	c11Ops["remote_table_lookup"] = c11Remote(func(c *pgdump.RemoteClient, p []string) (interface{}, string, int) {
		db := c.Database(c11Str(p[0]))
		if db == nil {
			return nil, "nodb", 0
		}
		var sb strings.Builder
		ambiguous := 0
		seen := map[string]int{}
		tabs := c.Tables(db.OID)
		for _, t := range tabs {
			seen[strings.ToLower(t.Name)]++
		}
		for _, n := range seen {
			if n > 1 {
				ambiguous++
			}
		}
		for _, t := range tabs {
			for _, name := range []string{t.Name, strings.ToUpper(t.Name), strings.ToLower(t.Name), strings.Title(strings.ToLower(t.Name))} {
				got := c.Table(db.OID, name)
				if got == nil {
					fmt.Fprintf(&sb, "%s=nil;", name)
				} else {
					fmt.Fprintf(&sb, "%s=%d/%d;", name, got.OID, got.Filenode)
				}
				q := c.QueryByName(db.Name, name, nil)
				if q != nil {
					fmt.Fprintf(&sb, "q%d;", len(q))
				}
			}
		}
		return nil, sb.String(), ambiguous
	})
	c11Ops["remote_summary_string"] = c11Remote(func(c *pgdump.RemoteClient, p []string) (interface{}, string, int) {
		s := c.Summary()
		return nil, s.String(), strings.Count(s.String(), ", ") + 1
	})
	c11Ops["remote_summary_json"] = c11Remote(func(c *pgdump.RemoteClient, p []string) (interface{}, string, int) {
		s := c.Summary()
		b, err := s.MarshalJSON()
		if err != nil {
			return nil, "err", 0
		}
		return nil, string(b), strings.Count(string(b), ",") + 1
	})
	// param = the command words, hex, separated by |
	c11Ops["remote_exec"] = c11Remote(func(c *pgdump.RemoteClient, p []string) (interface{}, string, int) {
		args := make([]string, len(p))
		for i, h := range p {
			args[i] = c11Str(h)
		}
		r := c.Exec(args)
		t := r.String()
		return r, t, strings.Count(t, "\n")
	})
	// ---- listings from the data directory
	c11Ops["list_databases"] = func(st *c11State, param string, rep int) (string, int) {
		l := pgdump.ListDatabases(st.env.dir)
		t := c11JSON(l)
		n := len(l)
		c11Scribble(l)
		return t, n
	}
	c11Ops["find_sequences"] = func(st *c11State, param string, rep int) (string, int) {
		l, err := pgdump.FindSequences(st.env.dir, c11Str(param))
		if err != nil {
			return "err", 0
		}
		return c11JSON(l), len(l)
	}
	c11Ops["scan_all_sequences"] = func(st *c11State, param string, rep int) (string, int) {
		m, err := pgdump.ScanAllSequences(st.env.dir)
		if err != nil {
			return "err", 0
		}
		n := 0
		for _, l := range m {
			if len(l) > n {
				n = len(l)
			}
		}
		if len(m) < 2 {
			n = 0
		}
		return c11JSON(m), n
	}
	// param = relative path of the TOAST relation file | relation id
	c11Ops["toast_verbose"] = func(st *c11State, param string, rep int) (string, int) {
		p := c11Split(param)
		id, _ := strconv.ParseUint(p[1], 10, 32)
		b := st.env.buffers()
		info := pgdump.GetTOASTVerboseInfo(uint32(id), b.bufs[p[0]])
		if !b.unchanged() {
			return "MUTATED-INPUT", 0
		}
		if info == nil {
			return "nil", 0
		}
		t := c11JSON(info)
		n := len(info.Values)
		c11Scribble(info)
		return t, n
	}
	// TOASTReader with a data directory: param = db oid | toast relation id | value ids (comma separated) | sizes
	c11Ops["toast_read"] = func(st *c11State, param string, rep int) (string, int) {
		p := c11Split(param)
		db, _ := strconv.ParseUint(p[0], 10, 32)
		var rd *pgdump.TOASTReader
		if rep%2 == 0 {
			rd = pgdump.NewTOASTReaderForDB(st.env.dir, uint32(db))
		} else {
			if st.reader == nil {
				st.reader = pgdump.NewTOASTReaderForDB(st.env.dir, uint32(db))
			}
			rd = st.reader
		}
		ptrs := c11Pointers(p)
		var out []string
		var held [][]byte
		// an explicit load under another relation id before every read: on the persistent reader the chunk map is
		// written while other calls (other goroutines in Concurrent) read it
		if raw, ok := st.env.files["base/"+p[0]+"/"+p[1]]; ok {
			rel, _ := strconv.ParseUint(p[1], 10, 32)
			rd.LoadTOASTTable(uint32(rel)+1000+uint32(rep), append([]byte(nil), raw...))
			// every fourth repetition hands the persistent reader the relation itself once more: loading is idempotent, a
			// reload replaces what was loaded (seeded change C11-9: chunks appended to those already stored)
			if rep%4 == 3 {
				rd.LoadTOASTTable(uint32(rel), append([]byte(nil), raw...))
			}
		}
		for _, q := range ptrs {
			snap := append([]byte(nil), q...)
			v := rd.ReadValue(q)
			if !bytes.Equal(snap, q) {
				return "MUTATED-INPUT", 0
			}
			out = append(out, fmt.Sprintf("%x", v))
			held = append(held, v)
		}
		// every value handed out is held until all reads are done: a later read must not rewrite an earlier result
		// (seeded change C11-14: the values shared a recycled buffer)
		for i, v := range held {
			if fmt.Sprintf("%x", v) != out[i] {
				return "SHARED-STATE:a later read rewrote an earlier result", len(ptrs)
			}
		}
		for _, v := range held {
			for i := range v { // scribble over the values handed out
				v[i] = 0xEE
			}
		}
		return strings.Join(out, ","), len(ptrs)
	}
	c11Ops["extract_passwords"] = func(st *c11State, param string, rep int) (string, int) {
		l, err := pgdump.ExtractPasswords(st.env.dir)
		if err != nil {
			return "err", 0
		}
		return c11JSON(l), len(l)
	}
	c11Ops["scan_wal"] = func(st *c11State, param string, rep int) (string, int) {
		s, err := pgdump.ScanWALDirectory(st.env.dir)
		if err != nil || s == nil {
			return "err", 0
		}
		return c11JSON(s), len(s.Transactions)
	}
	c11Ops["recent_wal"] = func(st *c11State, param string, rep int) (string, int) {
		n, _ := strconv.Atoi(param)
		l, err := pgdump.GetRecentWALRecords(st.env.dir, n)
		if err != nil {
			return "err", 0
		}
		return c11JSON(l), len(l)
	}
	c11Ops["verify_checksums"] = func(st *c11State, param string, rep int) (string, int) {
		r, err := pgdump.VerifyDataDirChecksums(st.env.dir)
		if err != nil || r == nil {
			return "err", 0
		}
		return c11JSON(r), len(r.Files)
	}
	// VerifyFileChecksums / computePageChecksum on an in-memory buffer: param = relative path
	c11Ops["file_checksums"] = func(st *c11State, param string, rep int) (string, int) {
		// in the concurrent run every goroutine verifies the SAME buffer (the pages carry non-zero pd_checksum fields): code
		// that zeroes the checksum field in place "temporarily" instead of working on a copy shows up as a wrong stored
		// checksum / a modified buffer seen by another goroutine (seeded change C11-12)
		b := st.bufs
		if b == nil {
			b = st.env.buffers()
		}
		d := b.bufs[param]
		r := pgdump.VerifyFileChecksums(d, 0)
		t := c11JSON(r)
		if len(d) >= 8192 {
			t += fmt.Sprintf("|%d|%d", pgdump.VerifComputePageChecksum(d[:8192], 7), pgdump.VerifPgChecksumBlock(d[:8192], 7))
		}
		if !b.unchanged() {
			return "MUTATED-INPUT", 0
		}
		return t, len(d) / 8192
	}
	c11Ops["relmaps"] = func(st *c11State, param string, rep int) (string, int) {
		r, err := pgdump.ReadAllRelMaps(st.env.dir)
		if err != nil || r == nil {
			return "err", 0
		}
		return c11JSON(r), len(r.Databases)
	}
	// the catalog parsers and DumpDatabaseFromFiles on in-memory buffers: param = db oid
	c11Ops["files_dump"] = func(st *c11State, param string, rep int) (string, int) {
		b := st.env.buffers()
		base := "base/" + param + "/"
		rd := func(fn uint32) ([]byte, error) {
			if d, ok := b.bufs[base+fmt.Sprint(fn)]; ok {
				return d, nil
			}
			return nil, os.ErrNotExist
		}
		d, err := pgdump.DumpDatabaseFromFiles(b.bufs[base+"1259"], b.bufs[base+"1249"], rd, nil)
		if err != nil || d == nil {
			return "err", 0
		}
		if !b.unchanged() {
			return "MUTATED-INPUT", 0
		}
		t := c01DB(*d) + "|" + c11JSON(d)
		n := len(d.Tables)
		c11Scribble(d)
		return t, n
	}

	register("Repeat", func(a []string) string {
		holdOff = true // this harness holds, compares and scribbles results itself
		op, ok := c11Ops[a[0]]
		if !ok {
			panic("harness: unknown C11 operation " + a[0])
		}
		reps, _ := strconv.Atoi(a[1])
		need, _ := strconv.Atoi(a[2])
		env := c11Materialise(a[4:])
		defer env.cleanup()
		st := &c11State{env: env}
		// the package-level lookup tables (type names, array element types, ...) are constants of the program: an operation
		// that adds to them shares mutable state between calls (and races when called concurrently); seeded change C11-11
		tables := pgdump.VerifPackageTables()
		defer func() { _ = tables }()
		first, n := op(st, a[3], 0)
		if pgdump.VerifPackageTables() != tables {
			return "shared-state:package-level tables modified by " + a[0]
		}
		if strings.HasPrefix(first, "MUTATED-INPUT") {
			return "MUTATED-INPUT:" + a[0]
		}
		if strings.HasPrefix(first, "SHARED-STATE") {
			return "shared-state:" + a[0]
		}
		if n < need {
			return fmt.Sprintf("unobservable:%s:%d", a[0], n)
		}
		for i := 1; i < reps; i++ {
			out, _ := op(st, a[3], i)
			if strings.HasPrefix(out, "MUTATED-INPUT") {
				return "MUTATED-INPUT:" + a[0]
			}
			if strings.HasPrefix(out, "SHARED-STATE") {
				return "shared-state:" + a[0]
			}
			if out != first {
				return "nondeterministic:" + a[0]
			}
		}
		if st.bufs != nil && !st.bufs.unchanged() {
			return "MUTATED-INPUT:" + a[0]
		}
		if !env.diskUnchanged() {
			return "MUTATED-INPUT:" + a[0]
		}
		return "deterministic"
	})

	// a[0] tag of the command, a[1] repetitions, a[2] minimal number of output lines, a[3] = words separated by |
	// ({D} = the data directory, {D}/x = a file below it; words are hex), then the files
	register("RepeatCLI", func(a []string) string {
		holdOff = true // this harness holds, compares and scribbles results itself
		cli := os.Getenv("PGREAD_CLI")
		if cli == "" {
			panic("harness: PGREAD_CLI not set")
		}
		reps, _ := strconv.Atoi(a[1])
		need, _ := strconv.Atoi(a[2])
		env := c11Materialise(a[4:])
		defer env.cleanup()
		var words []string
		for _, h := range c11Split(a[3]) {
			words = append(words, strings.ReplaceAll(c11Str(h), "{D}", env.dir))
		}
		run := func() string {
			cmd := exec.Command(cli, words...)
			cmd.Dir = env.dir
			var so bytes.Buffer
			cmd.Stdout = &so
			err := cmd.Run()
			code := 0
			if err != nil {
				code = -1
				if ee, ok := err.(*exec.ExitError); ok {
					code = ee.ExitCode()
				}
			}
			return fmt.Sprintf("exit=%d\n%s", code, strings.ReplaceAll(c11DropGenerated(so.String()), env.dir, "{D}"))
		}
		// the repetitions are separate processes; they are started together (a process takes ~1 s to start)
		outs := c11Parallel(reps, run)
		first := outs[0]
		if n := strings.Count(first, "\n"); n < need {
			return fmt.Sprintf("unobservable:%s:%d", a[0], n)
		}
		for _, o := range outs[1:] {
			if o != first {
				return "nondeterministic:" + a[0]
			}
		}
		if !env.diskUnchanged() {
			return "MUTATED-INPUT:" + a[0]
		}
		return "deterministic"
	})

	// a[0] name (hex), a[1] repetitions, then entries filenode:oid:namehex:kindhex
	register("FindTableByName", func(a []string) string {
		name := c11Str(a[0])
		reps, _ := strconv.Atoi(a[1])
		type ent struct {
			k uint32
			t pgdump.TableInfo
		}
		var es []ent
		for _, s := range a[2:] {
			f := strings.Split(s, ":")
			fn, _ := strconv.ParseUint(f[0], 10, 32)
			oid, _ := strconv.ParseUint(f[1], 10, 32)
			es = append(es, ent{uint32(fn), pgdump.TableInfo{OID: uint32(oid), Name: c11Str(f[2]), Filenode: uint32(fn), Kind: c11Str(f[3])}})
		}
		render := func(t *pgdump.TableInfo) string {
			if t == nil {
				return "nil"
			}
			return fmt.Sprintf("found:%d:%d", t.Filenode, t.OID)
		}
		rng := rand.New(rand.NewSource(int64(len(a))*7919 + int64(reps)))
		first := ""
		for i := 0; i < reps; i++ {
			m := make(map[uint32]pgdump.TableInfo)
			for _, j := range rng.Perm(len(es)) { // another insertion order (and Go randomises the iteration anyway)
				m[es[j].k] = es[j].t
			}
			out := render(pgdump.VerifFindTableByName(m, name))
			if len(m) != len(es) {
				return "harness: duplicate key"
			}
			if i == 0 {
				first = out
			} else if out != first {
				return "unstable:" + first + "|" + out
			}
		}
		return first
	})

	// pgread -f <pg_class file>: a[0] repetitions, a[1] the file; the text printed (must be the same every time)
	register("CliClassListing", func(a []string) string {
		cli := os.Getenv("PGREAD_CLI")
		if cli == "" {
			panic("harness: PGREAD_CLI not set")
		}
		reps, _ := strconv.Atoi(a[0])
		d := c01Dir()
		defer os.RemoveAll(d)
		path := filepath.Join(d, "1259")
		c01Write(path, unhex(a[1]))
		outs := c11Parallel(reps, func() string {
			out, err := exec.Command(cli, "-f", path).Output()
			if err != nil {
				return "\x00err"
			}
			return string(out)
		})
		for _, o := range outs {
			if o == "\x00err" {
				return "err"
			}
			if o != outs[0] {
				return "unstable"
			}
		}
		return cStr(outs[0])
	})

	// a[0] goroutines, a[1] operations per goroutine, a[2] seed, a[3] = op specs "name~param" separated by ';', then files
	register("Concurrent", func(a []string) string {
		holdOff = true // this harness holds, compares and scribbles results itself
		ng, _ := strconv.Atoi(a[0])
		iters, _ := strconv.Atoi(a[1])
		seed, _ := strconv.ParseInt(a[2], 10, 64)
		env := c11Materialise(a[4:])
		defer env.cleanup()
		type spec struct{ name, param string }
		var specs []spec
		for _, s := range strings.Split(a[3], ";") {
			f := strings.SplitN(s, "~", 2)
			if _, ok := c11Ops[f[0]]; !ok {
				panic("harness: unknown C11 operation " + f[0])
			}
			specs = append(specs, spec{f[0], f[1]})
		}
		// sequential answers, each from its own state
		base := make([]string, len(specs))
		for i, s := range specs {
			base[i], _ = c11Ops[s.name](&c11State{env: env}, s.param, 0)
		}
		var mu sync.Mutex
		bad := ""
		// three rounds, each with a NEW shared state (the caches are filled at the start of a round, by whichever
		// goroutines get there first): one set of input buffers, one client, one TOAST reader, one scanner
		for round := 0; round < 3 && bad == ""; round++ {
			shared := &c11State{env: env}
			shared.bufs = env.buffers()
			shared.client = pgdump.NewRemoteClient(shared.bufs.reader())
			for _, s := range specs {
				if s.name == "toast_read" {
					db, _ := strconv.ParseUint(c11Split(s.param)[0], 10, 32)
					shared.reader = pgdump.NewTOASTReaderForDB(env.dir, uint32(db))
				}
			}
			shared.scan = pgdump.NewSecretScanner()
			start := make(chan struct{})
			var wg sync.WaitGroup
			for g := 0; g < ng; g++ {
				wg.Add(1)
				go func(g int) {
					defer wg.Done()
					defer func() {
						if r := recover(); r != nil {
							mu.Lock()
							if bad == "" {
								bad = "panic"
							}
							mu.Unlock()
						}
					}()
					rng := rand.New(rand.NewSource(seed*1000 + int64(round)*100 + int64(g)))
					<-start
					for i := 0; i < iters; i++ {
						k := rng.Intn(len(specs))
						// odd repetition index: the operation uses the SHARED client / reader
						out, _ := c11Ops[specs[k].name](shared, specs[k].param, 1)
						if out != base[k] {
							mu.Lock()
							if bad == "" {
								bad = specs[k].name
							}
							mu.Unlock()
							return
						}
					}
				}(g)
			}
			close(start)
			wg.Wait()
			if bad == "" && !shared.bufs.unchanged() {
				bad = "\x00mutated"
			}
		}
		if bad == "panic" {
			return "panic"
		}
		if bad == "\x00mutated" || !env.diskUnchanged() {
			return "MUTATED-INPUT:concurrent"
		}
		if bad != "" {
			return "nondeterministic:" + bad
		}
		return "deterministic"
	})
}

// varatt_external pointers for the values of a TOAST relation: p = db | relid | ids | sizes
func c11Pointers(p []string) [][]byte {
	rel, _ := strconv.ParseUint(p[1], 10, 32)
	ids := strings.Split(p[2], ",")
	sizes := strings.Split(p[3], ",")
	var out [][]byte
	for i := range ids {
		id, _ := strconv.ParseUint(ids[i], 10, 32)
		sz, _ := strconv.ParseUint(sizes[i], 10, 32)
		q := make([]byte, 18, 24)
		q[0], q[1] = 0x01, 0x12
		binary.LittleEndian.PutUint32(q[2:], uint32(sz)+4)
		binary.LittleEndian.PutUint32(q[6:], uint32(sz))
		binary.LittleEndian.PutUint32(q[10:], uint32(id))
		binary.LittleEndian.PutUint32(q[14:], uint32(rel))
		out = append(out, q)
	}
	return out
}

// c11Parallel runs f n times, at most 10 at once, and returns the results in start order
func c11Parallel(n int, f func() string) []string {
	if n < 1 {
		n = 1
	}
	out := make([]string, n)
	sem := make(chan struct{}, 10)
	var wg sync.WaitGroup
	for i := 0; i < n; i++ {
		wg.Add(1)
		sem <- struct{}{}
		go func(i int) {
			defer wg.Done()
			out[i] = f()
			<-sem
		}(i)
	}
	wg.Wait()
	return out
}

var _ = sort.Strings
