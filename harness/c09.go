package main

import (
	"encoding/binary"
	"fmt"
	"os"
	"path/filepath"
	"strconv"
	"strings"

	"github.com/Chocapikk/pgread/pgdump"
)

func idpo(es []pgdump.TupleEntry) string {
	parts := make([]string, len(es))
	for i, e := range es {
		id := -1
		if len(e.Tuple.Data) >= 4 {
			id = int(binary.LittleEndian.Uint32(e.Tuple.Data))
		}
		parts[i] = fmt.Sprintf("%d@%d", id, e.PageOffset)
	}
	return cList(parts)
}

func rowsC(rows []map[string]interface{}) string {
	parts := make([]string, len(rows))
	for i, r := range rows {
		parts[i] = cRowMap(r)
	}
	return cList(parts)
}

func delC(ds []pgdump.DeletedRow) string {
	parts := make([]string, len(ds))
	for i, d := range ds {
		parts[i] = fmt.Sprintf("{po=%d,raw=%d,data=%s}", d.PageOffset, d.RawSize, cRowMap(d.Data))
	}
	return cList(parts)
}

func init() {
	register("VisibilityViews", func(a []string) string {
		cols := []pgdump.Column{{Name: "id", TypID: pgdump.OidInt4, Len: 4, Num: 1, Align: 'i'}, {Name: "b", TypID: pgdump.OidInt4, Len: 4, Num: 2, Align: 'i'}, {Name: "c", TypID: pgdump.OidInt4, Len: 4, Num: 3, Align: 'i'}}
		lo, _ := strconv.Atoi(a[1])
		hi, _ := strconv.Atoi(a[2])
		return withBuf(a[0], "-", func(b []byte) string {
			path := filepath.Join(os.Getenv("VERIF_TMP"), "c09.heap")
			if err := os.WriteFile(path, b, 0o644); err != nil {
				return "harness-io-error"
			}
			defer os.Remove(path)
			rng := func(incl bool) string {
				es, err := pgdump.ReadTuplesInRange(path, &pgdump.BlockRange{Start: lo, End: hi}, incl)
				if err != nil {
					return "err"
				}
				return idpo(es)
			}
			rngNil := func(incl bool) string {
				es, err := pgdump.ReadTuplesInRange(path, nil, incl)
				if err != nil {
					return "err"
				}
				return idpo(es)
			}
			v, d := pgdump.ReadRowsWithDeleted(b, cols)
			return cRec(kv{"all", idpo(pgdump.ReadTuples(b, false))}, kv{"vis", idpo(pgdump.ReadTuples(b, true))},
				kv{"parsefile", idpo(pgdump.ParseFile(b))},
				kv{"rows_all", rowsC(pgdump.ReadRows(b, cols, false))}, kv{"rows_vis", rowsC(pgdump.ReadRows(b, cols, true))},
				kv{"del", delC(pgdump.ReadDeletedRows(b, cols))}, kv{"del_noschema", delC(pgdump.ReadDeletedRows(b, nil))},
				kv{"rwd_v", rowsC(v)}, kv{"rwd_d", rowsC(d)},
				kv{"range_incl", rng(true)}, kv{"range_excl", rng(false)},
				kv{"range_nil_incl", rngNil(true)}, kv{"range_nil_excl", rngNil(false)})
		})
	})
	register("TupleClass", func(a []string) string {
		return withBuf(a[0], "-", func(b []byte) string {
			t := pgdump.ParseHeapTuple(b)
			if t == nil {
				return "nil"
			}
			return fmt.Sprintf("live=%t,deleted=%t", t.IsVisible(), t.Header.XmaxCommitted && !t.Header.XmaxInvalid)
		})
	})
	registerNorm("VisibilityViews", func(s string) string { return strings.TrimSpace(substDecodeType(s)) })
}
