package main

import (
	"encoding/binary"
	"fmt"
	"os"
	"path/filepath"
	"strconv"
	"strings"

	"github.com/Chocapikk/pgread/pgdump"
)

func idpo(es []pgdump.TupleEntry) string {
	parts := make([]string, len(es))
	for i, e := range es {
		id := -1
		if len(e.Tuple.Data) >= 4 {
			id = int(binary.LittleEndian.Uint32(e.Tuple.Data))
		}
		parts[i] = fmt.Sprintf("%d@%d", id, e.PageOffset)
	}
	return cList(parts)
}

func rowsC(rows []map[string]interface{}) string {
	parts := make([]string, len(rows))
	for i, r := range rows {
		parts[i] = cRowMap(r)
	}
	return cList(parts)
}

func delC(ds []pgdump.DeletedRow) string {
	parts := make([]string, len(ds))
	for i, d := range ds {
		parts[i] = fmt.Sprintf("{po=%d,raw=%d,data=%s}", d.PageOffset, d.RawSize, cRowMap(d.Data))
	}
	return cList(parts)
}

func init() {
	register("VisibilityViews", func(a []string) string {
		cols := []pgdump.Column{{Name: "id", TypID: pgdump.OidInt4, Len: 4, Num: 1, Align: 'i'}, {Name: "b", TypID: pgdump.OidInt4, Len: 4, Num: 2, Align: 'i'}, {Name: "c", TypID: pgdump.OidInt4, Len: 4, Num: 3, Align: 'i'}}
		lo, _ := strconv.Atoi(a[1])
		hi, _ := strconv.Atoi(a[2])
		return withBuf(a[0], "-", func(b []byte) string {
			path := filepath.Join(os.Getenv("VERIF_TMP"), "c09.heap")
			if err := os.WriteFile(path, b, 0o644); err != nil {
				return "harness-io-error"
			}
			defer os.Remove(path)
			// every view is computed first and held while the others run, then all are rendered: a view handed out must
			// not change when another one is read (seeded change C09-16: one result buffer shared by all calls)
			rng := func(r *pgdump.BlockRange, incl bool) func() string {
				es, err := pgdump.ReadTuplesInRange(path, r, incl)
				return func() string {
					if err != nil {
						return "err"
					}
					return idpo(es)
				}
			}
			all := pgdump.ReadTuples(b, false)
			vis := pgdump.ReadTuples(b, true)
			pf := pgdump.ParseFile(b)
			rowsAll := pgdump.ReadRows(b, cols, false)
			rowsVis := pgdump.ReadRows(b, cols, true)
			del := pgdump.ReadDeletedRows(b, cols)
			delNo := pgdump.ReadDeletedRows(b, nil)
			v, d := pgdump.ReadRowsWithDeleted(b, cols)
			ri, re := rng(&pgdump.BlockRange{Start: lo, End: hi}, true), rng(&pgdump.BlockRange{Start: lo, End: hi}, false)
			ni, ne := rng(nil, true), rng(nil, false)
			return cRec(kv{"all", idpo(all)}, kv{"vis", idpo(vis)},
				kv{"parsefile", idpo(pf)},
				kv{"rows_all", rowsC(rowsAll)}, kv{"rows_vis", rowsC(rowsVis)},
				kv{"del", delC(del)}, kv{"del_noschema", delC(delNo)},
				kv{"rwd_v", rowsC(v)}, kv{"rwd_d", rowsC(d)},
				kv{"range_incl", ri()}, kv{"range_excl", re()},
				kv{"range_nil_incl", ni()}, kv{"range_nil_excl", ne()})
		})
	})
	register("TupleClass", func(a []string) string {
		return withBuf(a[0], "-", func(b []byte) string {
			t := pgdump.ParseHeapTuple(b)
			if t == nil {
				return "nil"
			}
			return fmt.Sprintf("live=%t,deleted=%t", t.IsVisible(), t.Header.XmaxCommitted && !t.Header.XmaxInvalid)
		})
	})
	registerNorm("VisibilityViews", func(s string) string { return strings.TrimSpace(substDecodeType(s)) })
}
