(* Instantiations used by the C11 driver: C01's (coq/C01/Inst.v: catalog decoder, placeholder TypeName, ASCII ToLower)
   plus a second visiting order for every site, so that the driver can run each model under two orders. *)
Require Import PG.Base.Bytes PG.Base.GoSlice PG.Base.Value.
Require Import PG.C01.Lib PG.C01.Model PG.C01.Inst.
Require Import PG.C11.CliModel.
Import ListNotations.

(* fmt %d for the magnitudes that occur (uint32: at most 10 digits) *)
Fixpoint dec_fuel11 (fuel : nat) (n : Z) (acc : bytes) : bytes :=
  match fuel with
  | O => acc
  | S f => let acc' := z2b (48 + n mod 10) :: acc in if n <? 10 then acc' else dec_fuel11 f (n / 10) acc'
  end.
Definition fmt_d11 (z : Z) : bytes := if z <? 0 then x2d :: dec_fuel11 40 (- z) [] else dec_fuel11 40 z [].

Definition DumpDataDir_rev11 := DumpDataDir hy_DecodeType i_ToLower ph_TypeName (@rev Z) i_slack.
Definition DumpDataDir_id11 := DumpDataDir hy_DecodeType i_ToLower ph_TypeName (fun l : list Z => l) i_slack.
Definition parseSingle_class_rev11 := parseSingle_class hy_DecodeType fmt_d11 (@rev Z).
Definition parseSingle_class_id11 := parseSingle_class hy_DecodeType fmt_d11 (fun l : list Z => l).
Definition parseSingle_attribute_rev11 := parseSingle_attribute hy_DecodeType ph_TypeName fmt_d11 (@rev Z).
Definition parseSingle_attribute_id11 := parseSingle_attribute hy_DecodeType ph_TypeName fmt_d11 (fun l : list Z => l).
