Require Import PG.Base.Bytes PG.Base.GoSlice PG.Base.Value PG.C02.Model PG.C02.Spec PG.C03.Model PG.C03.Spec PG.C03.Main PG.C09.Spec.
Require Import PG.C01.Lib PG.C01.Model PG.C01.Spec PG.C01.Inst.
Require Import PG.C11.CliModel PG.C11.Inst11.
Require Extraction. Require ExtrOcamlBasic.
Extraction "model.ml" ParsePGDatabase_i ParsePGClass_i ParsePGAttribute_i detectAttrSchema_i dumpTable_i
  DumpDatabaseFromFiles_i DumpDatabaseFromFiles_id DumpDataDir_i expected_dump_i expected_tables_i expected_row_hy
  enc_cluster enc_heap page_fits to_page live_rows rel_atts rel_cols dumpable detect_ok_attrs first_five_ok v15_looks_v16
  db_ds class_ds attr_ds attr_schema schemaPGDatabase schemaPGClass schemaPGAttrV15 schemaPGAttrV16
  map_get map_keys attrs_get ParseFile stored_tuple enc_tuple enc_page hy_decode cat_decode cat_len
  getOID getString toInt row_get withDefaults eff_opts find_dir find_file has_prefix contains lower_byte isort
  DumpDataDir_rev11 DumpDataDir_id11 parseSingle_class_rev11 parseSingle_class_id11
  parseSingle_attribute_rev11 parseSingle_attribute_id11 findTableByName findTableByName_historic fmt_d11.
