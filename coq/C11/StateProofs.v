(* C11 — proofs about the state-passing models of StateModel.v: the checksum routines leave the caller's page as it
   was and compute what C19's pure models compute; a TOASTReader that caches tables answers like a fresh one. *)
Require Import PG.Base.Bytes PG.Base.GoSlice.
Require Import PG.C19.BlockrangeModel PG.C19.ChecksumModel.
Require Import PG.C08.Model PG.C08.TableModel.
Require Import PG.C11.StateModel.

(* ------------------------------------------------------------------ list facts *)
Lemma zeros_split a b : 0 <= a -> 0 <= b -> zeros (a + b) = zeros a ++ zeros b.
Proof. intros. unfold zeros. rewrite Z2Nat.inj_add by lia. apply repeat_app. Qed.
Lemma zeros_0 : zeros 0 = []. Proof. reflexivity. Qed.

Lemma go_copy_zeros n page : 0 <= n ->
  go_copy (zeros n) page = sub page 0 (Z.min n (blen page)) ++ zeros (n - Z.min n (blen page)).
Proof.
  intros Hn. unfold go_copy. rewrite zeros_len by lia. pose proof (blen_nonneg page) as Hp.
  set (k := Z.min n (blen page)). assert (Hk : 0 <= k <= n) by (unfold k; lia).
  f_equal. replace n with (k + (n - k)) at 1 by lia. rewrite zeros_split by lia.
  rewrite sub_app_r by (rewrite zeros_len; lia). rewrite zeros_len by lia.
  apply sub_exact; [lia|rewrite zeros_len; lia].
Qed.

(* l[8] = 0; l[9] = 0 *)
Lemma upd_len l i v : 0 <= i < blen l -> blen (upd l i v) = blen l.
Proof.
  intros H. unfold upd. rewrite !blen_app, blen_cons, blen_nil.
  rewrite !sub_length by lia. lia.
Qed.
Lemma upd_8_9 c : 10 <= blen c ->
  upd (upd c 8 x00) 9 x00 = sub c 0 8 ++ [x00; x00] ++ sub c 10 (blen c).
Proof.
  intros H. assert (L1 : blen (upd c 8 x00) = blen c) by (apply upd_len; lia).
  unfold upd at 1. rewrite L1. unfold upd.
  assert (LA : blen (sub c 0 8) = 8) by (rewrite sub_length; lia).
  assert (LB : blen (sub c (8 + 1) (blen c)) = blen c - 9) by (rewrite sub_length; lia).
  rewrite (sub_split _ 0 8 9) by lia.
  rewrite (sub_app_l (sub c 0 8)) by lia. rewrite (sub_exact (sub c 0 8)) by lia.
  rewrite (sub_mid (sub c 0 8) [x00]) by (rewrite ?blen_cons, ?blen_nil; lia).
  rewrite sub_app_r by lia. rewrite LA.
  rewrite (sub_app_r [x00]) by (rewrite blen_cons, blen_nil; lia). rewrite blen_cons, blen_nil.
  rewrite sub_sub by lia. rewrite <- app_assoc. cbn [app].
  repeat f_equal; lia.
Qed.

(* ------------------------------------------------------------------ computePageChecksum *)
Theorem cpc_input_unchanged page blk : caller (snd (computePageChecksum_st page blk)) = page.
Proof. reflexivity. Qed.
Theorem cpc_agrees page tl blk :
  fst (computePageChecksum_st page blk) = computePageChecksum {| vis := page; tail := tl |} blk.
Proof.
  unfold computePageChecksum_st, cpc_body, computePageChecksum, copy_buf, set_byte, fold16.
  cbn [rd wr local caller fst vis].
  assert (HP : 0 <= PageSize) by (unfold PageSize; lia).
  rewrite go_copy_zeros by exact HP.
  unfold page_copy. set (n := Z.min PageSize (blen page)).
  set (c := sub page 0 n ++ zeros (PageSize - n)).
  pose proof (blen_nonneg page) as Hp.
  assert (Lc : blen c = PageSize).
  { unfold c. rewrite blen_app, zeros_len by (unfold n; lia). rewrite sub_length by (unfold n; lia). lia. }
  rewrite upd_8_9 by (rewrite Lc; unfold PageSize; lia). rewrite Lc. reflexivity.
Qed.
Theorem cpc_inplace_changes : exists page blk, caller (snd (computePageChecksum_inplace page blk)) <> page.
Proof. exists (repeat x01 12), 0. vm_compute. discriminate. Qed.

(* ------------------------------------------------------------------ pgChecksumBlock *)
Theorem pcb_input_unchanged page blk : caller (snd (pgChecksumBlock_st page blk)) = page.
Proof. unfold pgChecksumBlock_st, pcb_body. cbn [rd wr local caller copy_buf]. destruct (_ >? 9); reflexivity. Qed.
Theorem pcb_agrees page tl blk :
  fst (pgChecksumBlock_st page blk) = pgChecksumBlock {| vis := page; tail := tl |} blk.
Proof.
  unfold pgChecksumBlock_st, pcb_body, pgChecksumBlock, copy_buf, set_byte, fold16.
  cbn [rd wr local caller fst vis]. pose proof (blen_nonneg page) as Hp.
  rewrite go_copy_zeros by exact Hp. rewrite Z.min_id, Z.sub_diag, zeros_0, app_nil_r, sub_full.
  destruct (blen page >? 9) eqn:E; cbn [rd wr local caller fst]; [|reflexivity].
  rewrite upd_8_9 by lia. reflexivity.
Qed.
Theorem pcb_inplace_changes : exists page blk, caller (snd (pgChecksumBlock_inplace page blk)) <> page.
Proof. exists (repeat x01 12), 0. vm_compute. discriminate. Qed.

(* ------------------------------------------------------------------ TOASTReader: the chunk cache is transparent *)
Section Reader.
Variable zlib_inflate : bytes -> option bytes.
Variable toast_file : Z -> option gslice.
Local Notation ReadValue_dir := (ReadValue_dir zlib_inflate toast_file).

(* every table the reader holds is what reading its file gives *)
Definition cache_ok (r : reader) : Prop :=
  forall k cs, reader_get r k = Some cs -> exists s, toast_file k = Some s /\ ReadTOASTTable s = Ok cs.

Lemma cache_ok_nil : cache_ok [].
Proof. intros k cs H. discriminate H. Qed.
Lemma cache_ok_load r k s cs : cache_ok r -> toast_file k = Some s -> ReadTOASTTable s = Ok cs -> cache_ok (LoadChunks r k cs).
Proof.
  intros I F R k' cs' H. unfold LoadChunks in H. cbn [reader_get] in H. destruct (k =? k') eqn:E.
  - inversion H; subst. assert (k = k') by lia. subst. eauto.
  - apply I. exact H.
Qed.
Lemma reader_get_load r k cs : reader_get (LoadChunks r k cs) k = Some cs.
Proof. unfold LoadChunks. cbn [reader_get]. rewrite Z.eqb_refl. reflexivity. Qed.

(* one call: same value as on a fresh reader, and the cache stays consistent *)
Lemma read_value_fresh r d : cache_ok r ->
  match ReadValue_dir r d with
  | Panic => ReadValue_dir [] d = Panic
  | Ok (r', v) => cache_ok r' /\ exists r0, ReadValue_dir [] d = Ok (r0, v)
  end.
Proof.
  intros I. unfold StateModel.ReadValue_dir.
  destruct (ParseTOASTPointer d) as [[ptr|]|]; cbn [bind]; [| split; [exact I|eauto] | reflexivity].
  set (k := ToastRelID ptr). cbn [reader_get].
  destruct (reader_get r k) as [cs|] eqn:G.
  - (* cached *)
    destruct (I k cs G) as (s & F & R). cbn [bind]. rewrite G.
    unfold LoadTOASTTableFromFile, LoadTOASTTable. rewrite F, R. cbn [bind]. rewrite reader_get_load.
    destruct (ReassembleTOAST zlib_inflate cs (ValueID ptr) (Some ptr)) as [v|]; cbn [bind]; [|reflexivity].
    split; [exact I|eauto].
  - (* not cached: both load (or both fail to) *)
    unfold LoadTOASTTableFromFile, LoadTOASTTable. destruct (toast_file k) as [s|] eqn:F.
    + destruct (ReadTOASTTable s) as [cs|] eqn:R; cbn [bind]; [|reflexivity]. rewrite !reader_get_load.
      destruct (ReassembleTOAST zlib_inflate cs (ValueID ptr) (Some ptr)) as [v|]; cbn [bind]; [|reflexivity].
      split; [eapply cache_ok_load; eauto|eauto].
    + cbn [bind]. rewrite G. cbn [reader_get]. split; [exact I|eauto].
Qed.

Theorem run_reads_fresh ds : forall r, cache_ok r ->
  run_reads zlib_inflate toast_file r ds = fresh_reads zlib_inflate toast_file ds.
Proof.
  induction ds as [|d ds IH]; intros r I; cbn [run_reads fresh_reads]; [reflexivity|].
  pose proof (read_value_fresh r d I) as H.
  destruct (ReadValue_dir r d) as [[r' v]|].
  - destruct H as (I' & r0 & E). rewrite E. cbn [bind fst snd]. rewrite (IH r' I'). reflexivity.
  - rewrite H. reflexivity.
Qed.
End Reader.
