(* C11 — models of the sites repaired by this property's own fix: commits (the Go code as it is in the worktree
   after them), each with the order in which Go's `range` visits the map as an explicit argument:
     main.go parseSingle            case "1259" / case "1249"  (listing of a pg_class / pg_attribute file)
     pgdump/dropped.go              findTableByName            (by-name lookup over the pg_class map)
     pgdump/toast.go                GetTOASTVerboseInfo        (Values sorted by chunk id after the map loop)
   The catalog parsers are C01's models, the TOAST statistics C08's; nothing is re-modelled. *)
Require Import PG.Base.Bytes PG.Base.GoSlice PG.Base.Value.
Require Import PG.C01.Lib PG.C01.Model.
Require PG.C08.Model PG.C08.TableModel PG.C12.Lib.
Import ListNotations.

(* byte-string literals through a wrapper type with a String Notation (as in C13/Lib.v, C16/Types.v), so that no
   Coq string/ascii value reaches the extracted program *)
Inductive blit11 := BLit11 (l : list byte).
Definition blit11_parse (l : list byte) : blit11 := BLit11 l.
Definition blit11_print (b : blit11) : list byte := match b with BLit11 l => l end.
Declare Scope blit11_scope.
Delimit Scope blit11_scope with blit11.
String Notation blit11 blit11_parse blit11_print : blit11_scope.
Definition lit (s : blit11) : bytes := match s with BLit11 l => l end.
Arguments lit s%blit11.
Definition nl : bytes := [x0a].

Section Cli.
Variable DecodeType : gslice -> Z -> res gval.
Variable TypeName : Z -> bytes.
Variable fmt_d : Z -> bytes.                       (* fmt %d *)
(* the order in which `for k := range m` visits the keys of a map with key list l *)
Variable range_order : list Z -> list Z.

(* main.go:488-499 (as repaired): keys collected by ranging over the map, sorted, printed in that order *)
Definition class_line (t : TableInfo) : bytes :=
  lit "  " ++ ti_name t ++ lit " (OID " ++ fmt_d (ti_oid t) ++ lit ", filenode " ++ fmt_d (ti_filenode t) ++
  lit ", kind " ++ ti_kind t ++ lit ")" ++ nl.
Definition parseSingle_class (data : gslice) : res bytes :=
  tables <- ParsePGClass DecodeType data ;;
  let filenodes := isort (fun x => x) (range_order (map_keys tables)) in
  Ok (lit "pg_class:" ++ nl ++
      concat (map (fun fn => class_line (match map_get tables fn with Some t => t | None => zeroTableInfo end)) filenodes)).

(* main.go:500-514 (as repaired) *)
Definition attr_line (c : AttrInfo) : bytes :=
  lit "    " ++ fmt_d (ai_num c) ++ lit ": " ++ ai_name c ++ lit " (" ++ TypeName (ai_typid c) ++ lit ")" ++ nl.
Definition parseSingle_attribute (data : gslice) : res bytes :=
  attrs <- ParsePGAttribute DecodeType data 0 ;;
  let relids := isort (fun x => x) (range_order (map fst attrs)) in
  Ok (lit "pg_attribute:" ++ nl ++
      concat (map (fun relid => lit "  relation " ++ fmt_d relid ++ lit ":" ++ nl ++
                                concat (map attr_line (attrs_get attrs relid))) relids)).
End Cli.

(* dropped.go findTableByName (as repaired).  The map in its current state: entries with distinct keys; [visit] is the
   order in which `for _, t := range tables` meets them. *)
Definition ftn_step (name : bytes) (found : option TableInfo) (t : TableInfo) : option TableInfo :=
  if beq (ti_name t) name &&
     match found with None => true | Some f => ti_filenode t <? ti_filenode f end
  then Some t else found.
Definition findTableByName (visit : list (Z * TableInfo)) (name : bytes) : option TableInfo :=
  fold_left (ftn_step name) (map snd visit) None.
(* before the repair: the first match met wins *)
Definition findTableByName_historic (visit : list (Z * TableInfo)) (name : bytes) : option TableInfo :=
  find (fun t => beq (ti_name t) name) (map snd visit).

(* toast.go GetTOASTVerboseInfo (as repaired): C08's model, then sort.Slice(info.Values, ChunkID <) *)
Definition sort_values (i : PG.C08.Model.TOASTVerboseInfo) : PG.C08.Model.TOASTVerboseInfo :=
  {| PG.C08.Model.ti_relid := PG.C08.Model.ti_relid i; PG.C08.Model.ti_total_chunks := PG.C08.Model.ti_total_chunks i;
     PG.C08.Model.ti_unique := PG.C08.Model.ti_unique i; PG.C08.Model.ti_total_size := PG.C08.Model.ti_total_size i;
     PG.C08.Model.ti_max := PG.C08.Model.ti_max i; PG.C08.Model.ti_dist := PG.C08.Model.ti_dist i;
     PG.C08.Model.ti_values := PG.C12.Lib.ksort PG.C08.Model.vi_id (PG.C08.Model.ti_values i) |}.
Definition verbose_info_sorted (toastRelID : Z) (chunks : list PG.C08.Model.TOASTChunk) (order : list Z)
  : option PG.C08.Model.TOASTVerboseInfo :=
  option_map sort_values (PG.C08.Model.verbose_info_of_chunks toastRelID chunks order).
Definition GetTOASTVerboseInfo (toastRelID : Z) (s : gslice) (order : list Z) : res (option PG.C08.Model.TOASTVerboseInfo) :=
  cs <- PG.C08.TableModel.ReadTOASTTable s ;; Ok (verbose_info_sorted toastRelID cs order).
