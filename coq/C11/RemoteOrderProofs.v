(* C11 — the RemoteClient listings, dumps, summary and text renderers (remote.go, as repaired for D37) and the
   data-directory dump of C12's model do not depend on the order in which Go ranges over the pg_class map.

   C12's model (coq/C12/Model.v) carries the iteration order as the field e_range_order of the environment E.
   [with_order E ro] is E with that field replaced; every theorem compares two environments that differ ONLY there,
   for two arbitrary orders that are permutations (a `range` visits every entry once).  The statements are about
   the cache-free readings p_* of coq/C12/Spec.v; by C12_cache (run_calls_pure) these are what ANY client — fresh or
   after any sequence of earlier calls — answers.
   Hypothesis class_map_ok: what ParsePGClass returns is a Go map whose entry for key k carries Filenode = k
   (catalog.go:114-121: tables[filenode] = TableInfo{…, Filenode: filenode}), i.e. keys distinct and repeated in
   the value. *)
Require Import PG.Base.Bytes PG.Base.Value PG.C12.Lib PG.C12.Model PG.C12.Spec PG.C12.DumpProofs.
Require Import Coq.Sorting.Permutation.
Require Import Coq.Strings.String.
Import Coq.Init.Datatypes Coq.Lists.List ListNotations.

Definition order := list (Z * TableInfo) -> list (Z * TableInfo).
Definition with_order (E : env) (ro : order) : env :=
  {| e_ParsePGDatabase := e_ParsePGDatabase E; e_ParsePGClass := e_ParsePGClass E;
     e_ParsePGAttribute := e_ParsePGAttribute E; e_ReadRows := e_ReadRows E; e_TypeName := e_TypeName E;
     e_ParsePGAuthID := e_ParsePGAuthID E; e_ControlFile := e_ControlFile E;
     e_ParseControlFile := e_ParseControlFile E; e_ControlString := e_ControlString E;
     e_ToLower := e_ToLower E; e_EqualFold := e_EqualFold E; e_TrimSpace := e_TrimSpace E;
     e_ScanInt := e_ScanInt E; e_fmt_d := e_fmt_d E; e_pad := e_pad E; e_fmt_v := e_fmt_v E;
     e_range_order := ro;
     e_DetectDataDir := e_DetectDataDir E; e_ParseUint32 := e_ParseUint32 E |}.

Definition perm_order (ro : order) : Prop := forall l, Permutation (ro l) l.
Definition class_map_ok (E : env) : Prop :=
  forall d, NoDup (map fst (e_ParsePGClass E d)) /\ forall e, In e (e_ParsePGClass E d) -> ti_filenode (snd e) = fst e.

Lemma with_order_range_perm E ro : perm_order ro -> range_perm (with_order E ro).
Proof. intros P l. apply P. Qed.

Section Order.
Variable E : env.
Variables ro1 ro2 : order.
Hypothesis P1 : perm_order ro1.
Hypothesis P2 : perm_order ro2.
Hypothesis CM : class_map_ok E.
Let E1 := with_order E ro1.
Let E2 := with_order E ro2.
Variable fs : fsys.

Lemma class_entries_ok db :
  NoDup (map fst (p_class E fs db)) /\ forall e, In e (p_class E fs db) -> ti_filenode (snd e) = fst e.
Proof.
  unfold p_class. destruct (fs (PBase db 1259)) as [d|]; [apply CM|]. split; [constructor|intros e []].
Qed.

(* sorting the visited entries by Filenode gives the same list whatever the visiting order *)
Lemma sorted_entries (l : list (Z * TableInfo)) :
  NoDup (map fst l) -> (forall e, In e l -> ti_filenode (snd e) = fst e) ->
  ksort ti_filenode (map snd (ro1 l)) = ksort ti_filenode (map snd (ro2 l)).
Proof.
  intros ND FK. apply ksort_unique.
  - apply Permutation_map. rewrite (P1 l), (P2 l). reflexivity.
  - rewrite map_map. rewrite (map_ext_in _ fst).
    + eapply Permutation_NoDup; [apply Permutation_map; symmetry; apply P1|exact ND].
    + intros e He. apply FK. eapply Permutation_in; [apply P1|exact He].
Qed.
Lemma sorted_keys (l : list (Z * TableInfo)) :
  NoDup (map fst l) ->
  ksort (fun x => x) (map fst (ro1 l)) = ksort (fun x => x) (map fst (ro2 l)).
Proof.
  intros ND. apply ksort_unique.
  - apply Permutation_map. rewrite (P1 l), (P2 l). reflexivity.
  - rewrite map_id. eapply Permutation_NoDup; [apply Permutation_map; symmetry; apply P1|exact ND].
Qed.

(* ---------------- remote.go: Tables / TablesByName / Table ---------------- *)
Lemma tables_order db : p_tables E1 fs db = p_tables E2 fs db.
Proof.
  unfold p_tables. change (p_class E1 fs db) with (p_class E fs db). change (p_class E2 fs db) with (p_class E fs db).
  cbn [e_range_order E1 E2 with_order]. destruct (class_entries_ok db). apply sorted_entries; assumption.
Qed.
Lemma database_same n : p_database E1 fs n = p_database E2 fs n.
Proof. reflexivity. Qed.
Lemma tables_by_name_order n : p_tables_by_name E1 fs n = p_tables_by_name E2 fs n.
Proof.
  unfold p_tables_by_name. rewrite database_same. destruct (p_database E2 fs n); [apply tables_order|reflexivity].
Qed.
Lemma table_order db n : p_table E1 fs db n = p_table E2 fs db n.
Proof. unfold p_table. rewrite tables_order. reflexivity. Qed.

(* ---------------- Query / QueryByName / DumpTable / DumpDatabase / DumpAll ---------------- *)
Lemma query_same db t o : p_query E1 fs db t o = p_query E2 fs db t o.
Proof. reflexivity. Qed.
Lemma query_by_name_order dn tn o : p_query_by_name E1 fs dn tn o = p_query_by_name E2 fs dn tn o.
Proof.
  unfold p_query_by_name. rewrite database_same. destruct (p_database E2 fs dn) as [db|]; [|reflexivity].
  rewrite table_order. destruct (p_table E2 fs (db_oid db) tn); reflexivity.
Qed.
Lemma dump_tables_same db ts : p_dump_tables E1 fs db ts = p_dump_tables E2 fs db ts.
Proof. reflexivity. Qed.
Lemma dump_database_order db : p_dump_database E1 fs db = p_dump_database E2 fs db.
Proof.
  unfold p_dump_database. change (p_dbs E1 fs) with (p_dbs E2 fs).
  destruct (find _ (p_dbs E2 fs)); [|reflexivity]. rewrite tables_order, dump_tables_same. reflexivity.
Qed.
Lemma dump_database_by_name_order n : p_dump_database_by_name E1 fs n = p_dump_database_by_name E2 fs n.
Proof.
  unfold p_dump_database_by_name. rewrite database_same. destruct (p_database E2 fs n); [apply dump_database_order|reflexivity].
Qed.
Lemma dump_all_order : p_dump_all E1 fs = p_dump_all E2 fs.
Proof.
  unfold p_dump_all. change (p_dbs E1 fs) with (p_dbs E2 fs). apply flat_map_ext. intros db.
  unfold p_dump_all_db. rewrite tables_order, dump_database_order. reflexivity.
Qed.

(* ---------------- Summary and its two renderings ---------------- *)
Lemma summary_order : p_summary E1 fs = p_summary E2 fs.
Proof.
  unfold p_summary. change (p_dbs E1 fs) with (p_dbs E2 fs).
  change (Version E1 fs) with (Version E2 fs). change (Credentials E1 fs) with (Credentials E2 fs).
  f_equal. apply map_ext. intros db. rewrite tables_order. reflexivity.
Qed.
Lemma summary_json_order : MarshalJSON (p_summary E1 fs) = MarshalJSON (p_summary E2 fs).
Proof. rewrite summary_order. reflexivity. Qed.
Lemma summary_string_order : SummaryString E1 (p_summary E1 fs) = SummaryString E2 (p_summary E2 fs).
Proof. rewrite summary_order. reflexivity. Qed.

(* ---------------- Exec(args).String() for every command ---------------- *)
Lemma exec_string_order args : result_string E1 (p_exec E1 fs args) = result_string E2 (p_exec E2 fs args).
Proof.
  unfold p_exec.
  set (cmd := match args with a :: _ => a | [] => [] end).
  destruct (beq cmd [] || is_cmd cmd "summary"); [cbn [result_string]; apply summary_string_order|].
  destruct (is_cmd cmd "version"); [reflexivity|].
  destruct (is_cmd cmd "control"); [reflexivity|].
  destruct (is_cmd cmd "creds" || is_cmd cmd "credentials"); [reflexivity|].
  destruct (is_cmd cmd "dbs" || is_cmd cmd "databases"); [reflexivity|].
  destruct (is_cmd cmd "tables").
  { destruct (Z.of_nat (length args) <? 2); [reflexivity|]. cbn [result_string]. rewrite tables_by_name_order. reflexivity. }
  destruct (is_cmd cmd "columns").
  { destruct (Z.of_nat (length args) <? 3); [reflexivity|]. rewrite database_same.
    destruct (p_database E2 fs (nth 1 args [])) as [db|]; [|reflexivity]. rewrite table_order.
    destruct (p_table E2 fs (db_oid db) (nth 2 args [])); reflexivity. }
  destruct (is_cmd cmd "query").
  { destruct (Z.of_nat (length args) <? 3); [reflexivity|]. cbn [result_string]. rewrite query_by_name_order. reflexivity. }
  destruct (is_cmd cmd "dump"); [|reflexivity].
  destruct (Z.of_nat (length args) >=? 2); cbn [result_string].
  - rewrite dump_database_by_name_order. reflexivity.
  - rewrite dump_all_order. reflexivity.
Qed.

(* ---------------- pgdump.go: the data-directory dump of C12's model ---------------- *)
Lemma ddf_order cd ad rd o : DumpDatabaseFromFiles E1 cd ad rd o = DumpDatabaseFromFiles E2 cd ad rd o.
Proof.
  unfold DumpDatabaseFromFiles. cbn [e_range_order E1 E2 with_order e_ParsePGClass e_ParsePGAttribute].
  rewrite (sorted_keys (e_ParsePGClass E cd)) by apply CM. reflexivity.
Qed.
Lemma datadir_order opts : DumpDataDir E1 fs opts = DumpDataDir E2 fs opts.
Proof.
  unfold DumpDataDir. destruct (fs (PGlobal 1262)); [|reflexivity]. f_equal.
  change (e_ParsePGDatabase E1) with (e_ParsePGDatabase E2). apply flat_map_ext. intros db.
  unfold dump_db. rewrite ddf_order. reflexivity.
Qed.
End Order.
