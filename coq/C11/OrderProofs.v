(* C11 — order independence of the sites modelled in CliModel.v. *)
Require Import PG.Base.Bytes PG.Base.GoSlice PG.Base.Value.
Require Import PG.C01.Lib PG.C01.Model PG.C01.CatalogProofs.
Require PG.C08.Model PG.C08.Spec PG.C08.ReassembleProofs PG.C08.StatsProofs PG.C12.Lib.
Require Import PG.C11.CliModel.
Require Import Coq.Sorting.Permutation.
Import ListNotations.

(* ------------------------------------------------------------------ main.go parseSingle *)
Section Cli.
Variable DecodeType : gslice -> Z -> res gval.
Variable TypeName : Z -> bytes.
Variable fmt_d : Z -> bytes.
Variables ro1 ro2 : list Z -> list Z.
Hypothesis P1 : forall l, Permutation l (ro1 l).
Hypothesis P2 : forall l, Permutation l (ro2 l).

Theorem parseSingle_class_order data :
  parseSingle_class DecodeType fmt_d ro1 data = parseSingle_class DecodeType fmt_d ro2 data.
Proof.
  unfold parseSingle_class. destruct (ParsePGClass DecodeType data) as [tables|]; [|reflexivity]. cbn [bind].
  change (isort (fun x : Z => x)) with (isort idz).
  rewrite <- (isort_perm _ _ (P1 (map_keys tables))), <- (isort_perm _ _ (P2 (map_keys tables))). reflexivity.
Qed.
Theorem parseSingle_attribute_order data :
  parseSingle_attribute DecodeType TypeName fmt_d ro1 data = parseSingle_attribute DecodeType TypeName fmt_d ro2 data.
Proof.
  unfold parseSingle_attribute. destruct (ParsePGAttribute DecodeType data 0) as [attrs|]; [|reflexivity]. cbn [bind].
  change (isort (fun x : Z => x)) with (isort idz).
  rewrite <- (isort_perm _ _ (P1 (map fst attrs))), <- (isort_perm _ _ (P2 (map fst attrs))). reflexivity.
Qed.
End Cli.

(* ------------------------------------------------------------------ a fold whose steps commute on distinct keys *)
Lemma fold_left_perm_nodup {A B} (key : B -> Z) (f : A -> B -> A) :
  (forall a x y, key x <> key y -> f (f a x) y = f (f a y) x) ->
  forall l l', Permutation l l' -> NoDup (map key l) -> forall a, fold_left f l a = fold_left f l' a.
Proof.
  intros C l l' P. induction P as [|x l l' P IH|x y l|l l' l'' P1 IH1 P2 IH2]; intros ND a.
  - reflexivity.
  - cbn [fold_left]. apply IH. cbn [map] in ND. inversion ND; assumption.
  - cbn [fold_left]. rewrite C; [reflexivity|]. cbn [map] in ND. inversion ND as [|? ? Hn _]; subst.
    intros E. apply Hn. left. symmetry. exact E.
  - rewrite IH1 by exact ND. apply IH2. eapply Permutation_NoDup; [apply Permutation_map; exact P1|exact ND].
Qed.

(* ------------------------------------------------------------------ dropped.go findTableByName *)
Lemma ftn_step_comm name a x y : ti_filenode x <> ti_filenode y ->
  ftn_step name (ftn_step name a x) y = ftn_step name (ftn_step name a y) x.
Proof.
  intros D. unfold ftn_step.
  destruct (beq (ti_name x) name) eqn:Ex; destruct (beq (ti_name y) name) eqn:Ey; cbn [andb]; try reflexivity.
  destruct a as [f|]; cbn [andb].
    + destruct (ti_filenode x <? ti_filenode f) eqn:C1; destruct (ti_filenode y <? ti_filenode f) eqn:C2;
        cbn [andb]; rewrite ?C1, ?C2;
        destruct (ti_filenode y <? ti_filenode x) eqn:C3; destruct (ti_filenode x <? ti_filenode y) eqn:C4;
        try reflexivity; exfalso; lia.
    + destruct (ti_filenode y <? ti_filenode x) eqn:C3; destruct (ti_filenode x <? ti_filenode y) eqn:C4;
        try reflexivity; exfalso; lia.
Qed.

Theorem findTableByName_order (v1 v2 : list (Z * TableInfo)) name :
  Permutation v1 v2 -> NoDup (map fst v1) -> (forall e, In e v1 -> ti_filenode (snd e) = fst e) ->
  findTableByName v1 name = findTableByName v2 name.
Proof.
  intros P ND FK. unfold findTableByName.
  apply (fold_left_perm_nodup ti_filenode); [intros; apply ftn_step_comm; assumption|apply Permutation_map; exact P|].
  rewrite map_map. rewrite (map_ext_in _ fst); [exact ND|exact FK].
Qed.

(* before the repair two visiting orders of one map gave different answers *)
Definition ftn_a : TableInfo := {| ti_oid := 16384; ti_filenode := 16384; ti_name := [x74]; ti_kind := [x72] |}.
Definition ftn_b : TableInfo := {| ti_oid := 16390; ti_filenode := 16390; ti_name := [x74]; ti_kind := [x72] |}.
Theorem findTableByName_historic_refuted :
  exists v1 v2 name, Permutation v1 v2 /\ NoDup (map fst v1) /\ (forall e, In e v1 -> ti_filenode (snd e) = fst e) /\
    findTableByName_historic v1 name <> findTableByName_historic v2 name.
Proof.
  exists [(16384, ftn_a); (16390, ftn_b)], [(16390, ftn_b); (16384, ftn_a)], [x74].
  split; [apply perm_swap|]. split; [repeat constructor; cbn; intuition lia|].
  split; [intros e [<-|[<-|[]]]; reflexivity|]. vm_compute. intros H. discriminate H.
Qed.

(* ------------------------------------------------------------------ toast.go GetTOASTVerboseInfo *)
Module M8 := PG.C08.Model.
Module S8 := PG.C08.Spec.
Lemma sorted_values_order (cs : list S8.chunk) (o1 o2 : list Z) :
  Permutation o1 (S8.ids_of cs) -> Permutation o2 (S8.ids_of cs) ->
  PG.C12.Lib.ksort M8.vi_id (map (PG.C08.StatsProofs.expected_value cs) o1) =
  PG.C12.Lib.ksort M8.vi_id (map (PG.C08.StatsProofs.expected_value cs) o2).
Proof.
  intros Q1 Q2. apply PG.C12.Lib.ksort_unique.
  - apply Permutation_map. rewrite Q1, Q2. reflexivity.
  - rewrite map_map. cbn [PG.C08.StatsProofs.expected_value M8.vi_id]. rewrite map_id.
    eapply Permutation_NoDup; [symmetry; exact Q1|]. unfold S8.ids_of. apply NoDup_nodup.
Qed.

(* every field of the result is the same for any two visiting orders; ChunkDistribution is a Go map, compared by lookup *)
Theorem verbose_info_order relid (cs : list S8.chunk) (o1 o2 : list Z) :
  cs <> [] -> Permutation o1 (S8.ids_of cs) -> Permutation o2 (S8.ids_of cs) ->
  exists i1 i2,
    verbose_info_sorted relid (map PG.C08.ReassembleProofs.mchunk cs) o1 = Some i1 /\
    verbose_info_sorted relid (map PG.C08.ReassembleProofs.mchunk cs) o2 = Some i2 /\
    M8.ti_relid i1 = M8.ti_relid i2 /\ M8.ti_total_chunks i1 = M8.ti_total_chunks i2 /\
    M8.ti_unique i1 = M8.ti_unique i2 /\ M8.ti_total_size i1 = M8.ti_total_size i2 /\ M8.ti_max i1 = M8.ti_max i2 /\
    (forall k, M8.dist_get (M8.ti_dist i1) k = M8.dist_get (M8.ti_dist i2) k) /\
    M8.ti_values i1 = M8.ti_values i2.
Proof.
  intros NE Q1 Q2.
  destruct (PG.C08.StatsProofs.stats_spec relid cs o1 NE Q1) as (i1 & E1 & A1 & B1 & C1 & D1 & F1 & G1 & V1).
  destruct (PG.C08.StatsProofs.stats_spec relid cs o2 NE Q2) as (i2 & E2 & A2 & B2 & C2 & D2 & F2 & G2 & V2).
  exists (sort_values i1), (sort_values i2). unfold verbose_info_sorted. rewrite E1, E2. cbn [option_map].
  split; [reflexivity|]. split; [reflexivity|]. unfold sort_values.
  cbn [M8.ti_relid M8.ti_total_chunks M8.ti_unique M8.ti_total_size M8.ti_max M8.ti_dist M8.ti_values].
  split; [congruence|]. split; [congruence|]. split; [congruence|]. split; [congruence|]. split; [congruence|].
  split.
  - intros k. rewrite G1, G2. reflexivity.
  - rewrite V1, V2. apply sorted_values_order; assumption.
Qed.
