(* C11 — mapToJSON (sql.go:204-224, as repaired for D39) does not depend on the order in which Go's
   `for k := range m` visits the map.  The statement is about C13's model (coq/C13/Model.v), where a Go map is
   the list of its entries: two lists that are permutations of one another, with distinct keys, are two possible
   iteration orders of the same map.  The generic sorting facts are those of coq/C12/Lib.v (insertion sort on a
   boolean order: sorted_perm_eq, isort_unique). *)
Require Import PG.Base.Bytes PG.Base.Value.
Require PG.C12.Lib PG.C13.Lib PG.C13.Model PG.C13.ProofsLex PG.C13.ProofsJson.
Require Import Coq.Sorting.Permutation Coq.Sorting.Sorted.
Import ListNotations.
Module L12 := PG.C12.Lib.
Module L13 := PG.C13.Lib.
Module M13 := PG.C13.Model.

(* the two transcriptions of Go's string < are the same function *)
Lemma ltb_same a : forall b, L13.bytes_ltb a b = L12.bytes_ltb a b.
Proof.
  induction a as [|x a IH]; intros [|y b]; cbn; reflexivity.   (* the two fixpoints are convertible *)
Qed.

Section KV.
Context {A : Type}.
Definition kv_leb (a b : bytes * A) : bool := negb (L13.bytes_ltb (fst b) (fst a)).

Lemma kv_leb_total a b : kv_leb a b = true \/ kv_leb b a = true.
Proof.
  unfold kv_leb. change L13.bytes_ltb with L12.bytes_ltb.
  destruct (L12.bytes_ltb (fst b) (fst a)) eqn:E1; [|left; reflexivity].
  destruct (L12.bytes_ltb (fst a) (fst b)) eqn:E2; [|right; reflexivity].
  pose proof (L12.bytes_ltb_trans _ _ _ E1 E2) as H. rewrite L12.bytes_ltb_irrefl in H. discriminate H.
Qed.
Lemma kv_leb_trans a b c : kv_leb a b = true -> kv_leb b c = true -> kv_leb a c = true.
Proof.
  unfold kv_leb. change L13.bytes_ltb with L12.bytes_ltb. intros H1 H2.
  destruct (L12.bytes_ltb (fst c) (fst a)) eqn:E; [|reflexivity]. exfalso.
  apply Bool.negb_true_iff in H1, H2.
  destruct (L12.bytes_ltb (fst b) (fst c)) eqn:E3.
  - pose proof (L12.bytes_ltb_trans _ _ _ E3 E) as H. congruence.
  - pose proof (L12.bytes_ltb_total _ _ E3 H2) as Eq. rewrite Eq in H1. congruence.
Qed.
Lemma kv_antisym (l : list (bytes * A)) : NoDup (map fst l) ->
  forall a b, In a l -> In b l -> kv_leb a b = true -> kv_leb b a = true -> a = b.
Proof.
  intros ND a b Ha Hb H1 H2. eapply L12.nodup_map_inj; eauto.
  unfold kv_leb in *. change L13.bytes_ltb with L12.bytes_ltb in *. apply Bool.negb_true_iff in H1, H2.
  apply L12.bytes_ltb_total; assumption.
Qed.

(* sort_kv (C13) is the insertion sort of C12's library for this order *)
Lemma insert_kv_insert_by kv (l : list (bytes * A)) : L13.insert_kv kv l = L12.insert_by kv_leb kv l.
Proof.
  induction l as [|x r IH]; cbn; [reflexivity|]. unfold kv_leb at 1.
  destruct (L13.bytes_ltb (fst x) (fst kv)); cbn; [rewrite IH|]; reflexivity.
Qed.
Lemma sort_kv_isort (l : list (bytes * A)) : L13.sort_kv l = L12.isort kv_leb l.
Proof.
  unfold L13.sort_kv, L12.isort. induction l as [|a l IH]; cbn; [reflexivity|].
  rewrite IH. apply insert_kv_insert_by.
Qed.

(* THE GENERAL LEMMA (bytes keys): sorting two arrangements of the same entries gives the same list *)
Lemma sort_kv_canonical (l1 l2 : list (bytes * A)) :
  Permutation l1 l2 -> NoDup (map fst l1) -> L13.sort_kv l1 = L13.sort_kv l2.
Proof.
  intros P ND. rewrite !sort_kv_isort.
  apply L12.isort_unique; [apply kv_leb_total|apply kv_leb_trans|exact P|apply kv_antisym; exact ND].
Qed.

Lemma existsb_key_false k (l : list (bytes * A)) :
  ~ In k (map fst l) -> existsb (fun x => L13.bytes_eqb (fst x) k) l = false.
Proof.
  induction l as [|x l IH]; cbn; [reflexivity|]. intros H.
  destruct (L13.bytes_eqb (fst x) k) eqn:E.
  - apply PG.C13.ProofsLex.bytes_eqb_eq in E. exfalso. apply H. left. exact E.
  - cbn. apply IH. intros H'. apply H. right. exact H'.
Qed.
(* distinct keys: every assignment is the last one for its key *)
Lemma dedup_last_nodup (l : list (bytes * A)) : NoDup (map fst l) -> L13.dedup_last l = l.
Proof.
  unfold L13.dedup_last. induction l as [|a l IH]; cbn; [reflexivity|]. intros ND. inversion ND as [|? ? Hn ND']; subst.
  rewrite (IH ND'). rewrite existsb_key_false by exact Hn. reflexivity.
Qed.
Lemma map_entries_canonical (l1 l2 : list (bytes * A)) :
  Permutation l1 l2 -> NoDup (map fst l1) -> L13.map_entries l1 = L13.map_entries l2.
Proof.
  intros P ND. unfold L13.map_entries.
  assert (ND2 : NoDup (map fst l2)) by (eapply Permutation_NoDup; [apply Permutation_map; exact P|exact ND]).
  rewrite !dedup_last_nodup by assumption. apply sort_kv_canonical; assumption.
Qed.
End KV.

(* mapToJSON: for every float printer, every map (arbitrary keys and values, any nesting below) *)
Theorem mapToJSON_order (show_f64 show_f32 : Z -> bytes) (m1 m2 : list (bytes * gval)) :
  Permutation m1 m2 -> NoDup (map fst m1) ->
  M13.mapToJSON show_f64 show_f32 m1 = M13.mapToJSON show_f64 show_f32 m2.
Proof.
  intros P ND. unfold M13.mapToJSON, M13.mapToJSON_body.
  rewrite !PG.C13.ProofsJson.map_entries_map. rewrite (map_entries_canonical m1 m2 P ND). reflexivity.
Qed.
(* and therefore the SQL literal written for a jsonb/json cell *)
Theorem formatSQLValue_map_order (show_f64 show_f32 : Z -> bytes) (m1 m2 : list (bytes * gval)) :
  Permutation m1 m2 -> NoDup (map fst m1) ->
  M13.formatSQLValue show_f64 show_f32 (VMap m1) = M13.formatSQLValue show_f64 show_f32 (VMap m2).
Proof. intros P ND. cbn [M13.formatSQLValue]. rewrite (mapToJSON_order _ _ m1 m2 P ND). reflexivity. Qed.
