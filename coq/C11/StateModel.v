(* C11 — state-passing models of the places where pgread touches memory it shares with its caller or keeps between
   calls (checksum.go:189-218, 250-292; toast.go:346-400 as repaired).

   1. The two checksum routines.  C19 models them as pure functions of the page (coq/C19/ChecksumModel.v: "works on a
      copy" is built into page_copy).  Here the same code is written over an explicit memory with TWO buffers — the
      caller's page and the routine's local pageCopy — so that "the caller's buffer is not written" is a statement:
      every Go assignment `buf[i] = v` and `copy(dst, src)` names the buffer it writes.  The *_inplace variants are
      the same routines with the copy skipped (what the comment in the source warns against); they are only used
      to show that the statement is not vacuous.
   2. TOASTReader with a data directory: ReadValue loads a TOAST table on first use and keeps it in r.chunks.  The
      reader's map is explicit state threaded through the calls. *)
Require Import PG.Base.Bytes PG.Base.GoSlice.
Require Import PG.C19.BlockrangeModel PG.C19.ChecksumModel.
Require Import PG.C08.Model PG.C08.TableModel.

(* ------------------------------------------------------------------ memory *)
Inductive buf := Caller | Local.
Record mem := { caller : bytes; local : bytes }.
Definition rd (m : mem) (b : buf) : bytes := match b with Caller => caller m | Local => local m end.
Definition wr (m : mem) (b : buf) (v : bytes) : mem :=
  match b with
  | Caller => {| caller := v; local := local m |}
  | Local => {| caller := caller m; local := v |}
  end.
(* l[i] = v for 0 <= i < len(l) *)
Definition upd (l : bytes) (i : Z) (v : byte) : bytes := sub l 0 i ++ [v] ++ sub l (i + 1) (blen l).
(* buf[i] = v *)
Definition set_byte (m : mem) (b : buf) (i : Z) (v : byte) : mem := wr m b (upd (rd m b) i v).
(* the builtin copy(dst, src): the first min(len(dst), len(src)) bytes of dst are overwritten *)
Definition go_copy (dst src : bytes) : bytes :=
  let n := Z.min (blen dst) (blen src) in sub src 0 n ++ sub dst n (blen dst).
Definition copy_buf (m : mem) (dst src : buf) : mem := wr m dst (go_copy (rd m dst) (rd m src)).

Definition fold16 (c : Z) : Z := (Z.lxor (Z.shiftr c 16) (Z.land c 65535)) mod 2 ^ 16.

(* ------------------------------------------------------------------ checksum.go:192-218 *)
(* [work]: the buffer whose checksum field is zeroed and that is then summed *)
Definition cpc_body (m : mem) (work : buf) (blockNumber : Z) : Z * mem :=
  let m := set_byte m work 8 x00 in                               (* pageCopy[8] = 0 *)
  let m := set_byte m work 9 x00 in                               (* pageCopy[9] = 0 *)
  let c := cks_words (rd m work) 0 in                             (* the loop over 4-byte words *)
  (fold16 (Z.lxor c blockNumber), m).
Definition computePageChecksum_st (page : bytes) (blockNumber : Z) : Z * mem :=
  let m := {| caller := page; local := [] |} in
  let m := wr m Local (zeros PageSize) in                         (* pageCopy := make([]byte, PageSize) *)
  let m := copy_buf m Local Caller in                             (* copy(pageCopy, page) *)
  cpc_body m Local blockNumber.
(* NOT the code: zeroing the checksum field in the caller's page *)
Definition computePageChecksum_inplace (page : bytes) (blockNumber : Z) : Z * mem :=
  cpc_body {| caller := page; local := [] |} Caller blockNumber.

(* ------------------------------------------------------------------ checksum.go:250-292 *)
Definition pcb_body (m : mem) (work : buf) (blockNumber : Z) : Z * mem :=
  let m := if blen (rd m work) >? 9 then set_byte (set_byte m work 8 x00) work 9 x00 else m in
  let sums := pg_words (rd m work) O (repeat blockNumber 32) in
  let r := fold_left Z.lxor sums 0 in
  (fold16 r, m).
Definition pgChecksumBlock_st (page : bytes) (blockNumber : Z) : Z * mem :=
  let m := {| caller := page; local := [] |} in
  let m := wr m Local (zeros (blen page)) in                      (* pageCopy := make([]byte, len(page)) *)
  let m := copy_buf m Local Caller in                             (* copy(pageCopy, page) *)
  pcb_body m Local blockNumber.
Definition pgChecksumBlock_inplace (page : bytes) (blockNumber : Z) : Z * mem :=
  pcb_body {| caller := page; local := [] |} Caller blockNumber.

(* ------------------------------------------------------------------ toast.go: TOASTReader with a data directory *)
Section Reader.
Variable zlib_inflate : bytes -> option bytes.
(* os.ReadFile(<dataDir>/base/<dbOID>/<toastRelID>): None = error *)
Variable toast_file : Z -> option gslice.

(* toast.go:352-367 LoadTOASTTableFromFile: the error is ignored by ReadValue *)
Definition LoadTOASTTableFromFile (r : reader) (toastRelID : Z) : res reader :=
  match toast_file toastRelID with
  | None => Ok r
  | Some s => LoadTOASTTable r toastRelID s
  end.
(* toast.go:370-388 ReadValue, dataDir <> "": the reader after the call and the value *)
Definition ReadValue_dir (r : reader) (data : gslice) : res (reader * bytes) :=
  p <- ParseTOASTPointer data ;;
  match p with
  | None => Ok (r, vis data)
  | Some ptr =>
    r1 <- match reader_get r (ToastRelID ptr) with
          | Some _ => Ok r
          | None => LoadTOASTTableFromFile r (ToastRelID ptr)
          end ;;
    match reader_get r1 (ToastRelID ptr) with
    | None => Ok (r1, [])
    | Some chunks => v <- ReassembleTOAST zlib_inflate chunks (ValueID ptr) (Some ptr) ;; Ok (r1, v)
    end
  end.
(* a sequence of calls on ONE reader *)
Fixpoint run_reads (r : reader) (ds : list gslice) : res (list bytes) :=
  match ds with
  | [] => Ok []
  | d :: rest => rv <- ReadValue_dir r d ;; vs <- run_reads (fst rv) rest ;; Ok (snd rv :: vs)
  end.
(* the same calls, each on a fresh reader (NewTOASTReaderForDB) *)
Fixpoint fresh_reads (ds : list gslice) : res (list bytes) :=
  match ds with
  | [] => Ok []
  | d :: rest => rv <- ReadValue_dir [] d ;; vs <- fresh_reads rest ;; Ok (snd rv :: vs)
  end.
End Reader.
