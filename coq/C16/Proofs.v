(* C16/Proofs.v — ParseControlFile on the reference image of every well-formed control value
   reports exactly the stored fields; CRC verdict; no panic on any byte string. *)
Require Import PG.Base.Bytes PG.Base.GoSlice PG.C16.Types PG.C16.Model PG.C16.Spec.
Require Import PG.C16.CrcProofs PG.C16.FmtProofs PG.C16.LayoutProofs.

(* decimal constants of the model and the spec against their hexadecimal forms *)
Example constants_hex :
  float_1234567 = 0x4132D68700000000 /\ crc_poly = 0x82F63B78 /\ polynomial = 0x82F63B78 /\
  4294967295 = 0xFFFFFFFF /\ 4294967296 = 0x100000000.
Proof. repeat split; reflexivity. Qed.

Lemma parse_control_short s : len s < 296 -> ParseControlFile s = Ok (inl ETooSmall).
Proof. intros. unfold ParseControlFile. destruct (len s <? 296) eqn:E; [reflexivity|lia]. Qed.

(* ---------- reads that stay inside len ---------- *)
Lemma uN_at_val n s a b : 0 <= a -> b = a + Z.of_nat n -> b <= len s ->
  (d <- slice s a b ;; uN n d 0) = Ok (le_dec (sub (vis s) a b)).
Proof.
  intros Ha -> Hb. pose proof (len_le_cap s).
  destruct (slice_ok s a (a + Z.of_nat n)) as [d Hd]; [lia|lia|lia|]. rewrite Hd. cbn [bind].
  pose proof (slice_len _ _ _ _ Hd). rewrite uN_val by lia.
  rewrite (slice_vis_within _ _ _ _ Hd) by lia. do 2 f_equal.
  apply sub_exact; [reflexivity|]. rewrite sub_length; unfold len in *; lia.
Qed.
Lemma u32_at_val s a b : 0 <= a -> b = a + 4 -> b <= len s -> u32_at s a b = Ok (le_dec (sub (vis s) a b)).
Proof. intros. apply (uN_at_val 4); lia. Qed.
Lemma u64_at_val s a b : 0 <= a -> b = a + 8 -> b <= len s -> u64_at s a b = Ok (le_dec (sub (vis s) a b)).
Proof. intros. apply (uN_at_val 8); lia. Qed.
Lemma nz_at_val s i : 0 <= i < len s -> nz_at s i = Ok (negb (byte_at (vis s) i =? 0)).
Proof. intros. unfold nz_at. rewrite idx_ok by lia. reflexivity. Qed.

Lemma le_dec_sub_range (v : bytes) a b n : 0 <= a -> b = a + n -> b <= blen v -> 0 <= n ->
  0 <= le_dec (sub v a b) < 2 ^ (8 * n).
Proof.
  intros Ha -> Hb Hn. pose proof (le_dec_range (sub v a (a + n))) as R.
  assert (L : blen (sub v a (a + n)) = n) by (rewrite sub_length; lia).
  unfold blen in L. rewrite L in R. exact R.
Qed.

Lemma le_dec_enc_mod n : forall v, le_dec (le_enc n v) = v mod 2 ^ (8 * Z.of_nat n).
Proof.
  induction n as [|n IH]; intros v.
  - cbn. rewrite Z.mod_1_r. reflexivity.
  - cbn [le_enc le_dec]. rewrite b2z_z2b, IH.
    replace (8 * Z.of_nat (S n)) with (8 + 8 * Z.of_nat n) by lia.
    rewrite Z.pow_add_r by lia. change (2 ^ 8) with 256.
    rewrite Z.rem_mul_r; [reflexivity|lia|]. apply Z.pow_pos_nonneg; lia.
Qed.

Lemma sint32_wrap v : i32_ok v -> sint32 (wrap 32 v) = v.
Proof. unfold i32_ok. intros. apply sint_wrap; [lia|]. change (32 - 1) with 31. lia. Qed.
Lemma sint64_wrap v : i64_ok v -> sint64 (wrap 64 v) = v.
Proof. unfold i64_ok. intros. apply sint_wrap; [lia|]. change (64 - 1) with 63. lia. Qed.
Lemma nz_b2i b : negb (b2z (z2b (b2i b)) =? 0) = b.
Proof. destruct b; reflexivity. Qed.
Lemma walLevel_spec wl : 0 <= wl <= 2 ->
  (if (wl >=? 0) && (wl <? Z.of_nat (length walLevelNames)) then nth (Z.to_nat wl) walLevelNames [] else [])
  = wal_level_text wl.
Proof. intros H. assert (E : wl = 0 \/ wl = 1 \/ wl = 2) by lia. destruct E as [->|[->| ->]]; reflexivity. Qed.

(* ---------- the fields theorem ---------- *)
Section Fields.
  Variables (c : control) (pad t : bytes).
  Hypothesis W : wf_control c.
  Let s := {| vis := enc_control c ++ pad; tail := t |}.
  Let p := c_cp c.

  Lemma len_s : len s = 296 + blen pad.
  Proof. unfold s, len. cbn [vis]. rewrite blen_app, control_size. reflexivity. Qed.
  Lemma cap_s : cap s = 296 + blen pad + blen t.
  Proof. unfold s, cap. cbn [vis tail]. rewrite blen_app, control_size. reflexivity. Qed.

  Ltac wf_facts :=
    let W' := fresh "W'" in
    pose proof W as W'; unfold wf_control, wf_checkpoint, u32_ok, u64_ok, i32_ok, i64_ok in W';
    decompose [and] W'; clear W'.
  Ltac side := pose proof len_s; pose proof (blen_nonneg pad); lia.
  (* a 4-byte read of a stored 32-bit member *)
  Ltac rd32 L := rewrite u32_at_val by side; unfold s; cbn [vis]; rewrite L, le_dec_enc_mod;
                 change (2 ^ (8 * Z.of_nat 4)) with (2 ^ 32).
  Ltac rd64 L := rewrite u64_at_val by side; unfold s; cbn [vis]; rewrite L, le_dec_enc_mod;
                 change (2 ^ (8 * Z.of_nat 8)) with (2 ^ 64).
  Ltac small := unfold p; wf_facts; rewrite Z.mod_small by lia; reflexivity.
  Ltac rdb L := rewrite nz_at_val by side; unfold s; cbn [vis]; rewrite L, nz_b2i; reflexivity.

  Lemma R_sysid : u64_at s 0 8 = Ok (c_sysid c). Proof. rd64 at_sysid. small. Qed.
  Lemma R_ctlver : u32_at s 8 12 = Ok (c_ctlver c). Proof. rd32 at_ctlver. small. Qed.
  Lemma R_catver : u32_at s 12 16 = Ok (c_catver c). Proof. rd32 at_catver. small. Qed.
  Lemma R_state : u32_at s 16 20 = Ok (wrap 32 (c_state c)).
  Proof. rd32 at_state. unfold wrap. rewrite Z.mod_mod by lia. reflexivity. Qed.
  Lemma R_checkpoint : u64_at s 32 40 = Ok (c_checkpoint c). Proof. rd64 at_checkpoint. small. Qed.
  Lemma R_redo : u64_at s 40 48 = Ok (cp_redo p). Proof. rd64 at_redo. small. Qed.
  Lemma R_tli : u32_at s 48 52 = Ok (cp_tli p). Proof. rd32 at_tli. small. Qed.
  Lemma R_prevtli : u32_at s 52 56 = Ok (cp_prevtli p). Proof. rd32 at_prevtli. small. Qed.
  Lemma R_fpw : nz_at s 56 = Ok (cp_fpw p). Proof. rdb at_fpw. Qed.
  Lemma R_nextxid : u32_at s 64 68 = Ok (cp_nextxid p mod 2 ^ 32). Proof. rd32 at_nextxid_lo. reflexivity. Qed.
  Lemma R_epoch : u32_at s 68 72 = Ok (cp_nextxid p / 2 ^ 32).
  Proof. rd32 at_nextxid_hi. unfold p. wf_facts. f_equal. lia. Qed.
  Lemma R_nextoid : u32_at s 72 76 = Ok (cp_nextoid p). Proof. rd32 at_nextoid. small. Qed.
  Lemma R_nextmulti : u32_at s 76 80 = Ok (cp_nextmulti p). Proof. rd32 at_nextmulti. small. Qed.
  Lemma R_nextmoff : u32_at s 80 84 = Ok (cp_nextmoff p). Proof. rd32 at_nextmoff. small. Qed.
  Lemma R_oldestxid : u32_at s 84 88 = Ok (cp_oldestxid p). Proof. rd32 at_oldestxid. small. Qed.
  Lemma R_oldestxiddb : u32_at s 88 92 = Ok (cp_oldestxiddb p). Proof. rd32 at_oldestxiddb. small. Qed.
  Lemma R_oldestmulti : u32_at s 92 96 = Ok (cp_oldestmulti p). Proof. rd32 at_oldestmulti. small. Qed.
  Lemma R_oldestmultidb : u32_at s 96 100 = Ok (cp_oldestmultidb p). Proof. rd32 at_oldestmultidb. small. Qed.
  Lemma R_cptime : u64_at s 104 112 = Ok (wrap 64 (cp_time p)).
  Proof. rd64 at_cptime. unfold wrap. rewrite Z.mod_mod by lia. reflexivity. Qed.
  Lemma R_oldestcts : u32_at s 112 116 = Ok (cp_oldestcts p). Proof. rd32 at_oldestcts. small. Qed.
  Lemma R_newestcts : u32_at s 116 120 = Ok (cp_newestcts p). Proof. rd32 at_newestcts. small. Qed.
  Lemma R_oldestactive : u32_at s 120 124 = Ok (cp_oldestactive p). Proof. rd32 at_oldestactive. small. Qed.
  Lemma R_wal_level : u32_at s 172 176 = Ok (c_wal_level c).
  Proof. rd32 at_wal_level. unfold wrap. rewrite Z.mod_mod by lia. small. Qed.
  Lemma R_hints : nz_at s 176 = Ok (c_wal_log_hints c). Proof. rdb at_hints. Qed.
  Ltac wrapped := unfold wrap; rewrite Z.mod_mod by lia; reflexivity.
  Lemma R_maxconn : u32_at s 180 184 = Ok (wrap 32 (c_maxconn c)). Proof. rd32 at_maxconn. wrapped. Qed.
  Lemma R_maxwork : u32_at s 184 188 = Ok (wrap 32 (c_maxwork c)). Proof. rd32 at_maxwork. wrapped. Qed.
  Lemma R_maxsend : u32_at s 188 192 = Ok (wrap 32 (c_maxsend c)). Proof. rd32 at_maxsend. wrapped. Qed.
  Lemma R_maxprep : u32_at s 192 196 = Ok (wrap 32 (c_maxprep c)). Proof. rd32 at_maxprep. wrapped. Qed.
  Lemma R_maxlock : u32_at s 196 200 = Ok (wrap 32 (c_maxlock c)). Proof. rd32 at_maxlock. wrapped. Qed.
  Lemma R_trackts : nz_at s 200 = Ok (c_trackts c). Proof. rdb at_trackts. Qed.
  Lemma R_maxalign : u32_at s 204 208 = Ok (c_maxalign c). Proof. rd32 at_maxalign. small. Qed.
  Lemma R_floatformat : u64_at s 208 216 = Ok (c_floatformat c). Proof. rd64 at_floatformat. small. Qed.
  Lemma R_blcksz : u32_at s 216 220 = Ok (c_blcksz c). Proof. rd32 at_blcksz. small. Qed.
  Lemma R_relseg : u32_at s 220 224 = Ok (c_relseg c). Proof. rd32 at_relseg. small. Qed.
  Lemma R_xlogblcksz : u32_at s 224 228 = Ok (c_xlogblcksz c). Proof. rd32 at_xlogblcksz. small. Qed.
  Lemma R_xlogsegsz : u32_at s 228 232 = Ok (c_xlogsegsz c). Proof. rd32 at_xlogsegsz. small. Qed.
  Lemma R_namelen : u32_at s 232 236 = Ok (c_namelen c). Proof. rd32 at_namelen. small. Qed.
  Lemma R_indexkeys : u32_at s 236 240 = Ok (c_indexkeys c). Proof. rd32 at_indexkeys. small. Qed.
  Lemma R_toastchunk : u32_at s 240 244 = Ok (c_toastchunk c). Proof. rd32 at_toastchunk. small. Qed.
  Lemma R_loblk : u32_at s 244 248 = Ok (c_loblk c). Proof. rd32 at_loblk. small. Qed.
  Lemma R_cksumver : u32_at s 252 256 = Ok (c_cksumver c). Proof. rd32 at_cksumver. small. Qed.
  Lemma R_crc : u32_at s 288 (288 + 4) = Ok (c_crc c). Proof. rd32 at_crc. small. Qed.

  Lemma parse_control_fields : ParseControlFile s = Ok (inr (expected c)).
  Proof.
    unfold ParseControlFile. cbv zeta.
    pose proof len_s as L. pose proof cap_s as C. pose proof (blen_nonneg pad). pose proof (blen_nonneg t).
    destruct (len s <? 296) eqn:E; [lia|]. clear E.
    rewrite R_sysid, R_ctlver, R_catver, R_state, R_checkpoint, R_redo, R_tli, R_prevtli, R_fpw,
      R_nextxid, R_epoch, R_nextoid, R_nextmulti, R_nextmoff, R_oldestxid, R_oldestxiddb, R_oldestmulti,
      R_oldestmultidb, R_cptime, R_oldestcts, R_newestcts, R_oldestactive, R_wal_level, R_hints,
      R_maxconn, R_maxwork, R_maxsend, R_maxprep, R_maxlock, R_trackts, R_maxalign, R_floatformat,
      R_blcksz, R_relseg, R_xlogblcksz, R_xlogsegsz, R_namelen, R_indexkeys, R_toastchunk, R_loblk,
      R_cksumver, R_crc.
    cbn [bind]. unfold p.
    wf_facts.
    destruct (c_blcksz c =? 0) eqn:E1; [lia|]. destruct (c_xlogblcksz c =? 0) eqn:E2; [lia|].
    destruct (c_xlogsegsz c =? 0) eqn:E3; [lia|].
    rewrite formatWALFilename_spec by lia. cbn [bind].
    destruct (len s >? 288 + 4) eqn:E4; [|lia]. cbn [bind].
    unfold slice_to, slice. destruct ((0 <=? 0) && (0 <=? 288) && (288 <=? cap s)) eqn:E5; [|lia].
    cbn [bind]. rewrite verifyCRC32C_spec. cbn [vis]. unfold mem, s. cbn [vis tail].
    rewrite at_covered.
    rewrite !sint32_wrap by (unfold i32_ok; lia). unfold pgEpochToTime. rewrite sint64_wrap by (unfold i64_ok; lia).
    rewrite DBState_String_spec by lia. rewrite !formatLSN_spec by lia. rewrite walLevel_spec by lia.
    rewrite (Z.eqb_sym (crc32c (crc_covered c))).
    reflexivity.
  Qed.
End Fields.

(* ---------- every byte string: total behaviour, CRC verdict, no panic ---------- *)
Lemma parse_control_total s : 296 <= len s ->
  exists r, ParseControlFile s = Ok (inr r) /\
            SystemIdentifier r = le_dec (sub (vis s) 0 8) /\
            CRC r = le_dec (sub (vis s) 288 292) /\
            CRCValid r = (crc32c (firstn 288 (vis s)) =? CRC r).
Proof.
  intros H. pose proof (len_le_cap s) as HC.
  unfold ParseControlFile. cbv zeta. destruct (len s <? 296) eqn:E; [lia|]. clear E.
  rewrite !u64_at_val, !u32_at_val, !nz_at_val by lia. cbn [bind].
  match goal with |- context [formatWALFilename ?a ?b ?sz] =>
    assert (R : 0 <= sz < 2 ^ 32);
    [| destruct (formatWALFilename a b sz) as [w|] eqn:EW; [|exfalso; exact (formatWALFilename_no_panic a b sz R EW)] ]
  end.
  { pose proof (le_dec_sub_range (vis s) 228 232 4 ltac:(lia) ltac:(lia) ltac:(unfold len in H; lia) ltac:(lia)) as R.
    change (2 ^ (8 * 4)) with (2 ^ 32) in R.
    destruct (le_dec (sub (vis s) 228 232) =? 0); lia. }
  cbn [bind]. destruct (len s >? 288 + 4) eqn:E4; [|lia]. cbn [bind].
  unfold slice_to, slice. destruct ((0 <=? 0) && (0 <=? 288) && (288 <=? cap s)) eqn:E5; [|lia]. cbn [bind].
  eexists. split; [reflexivity|]. cbn [SystemIdentifier CRC CRCValid].
  split; [reflexivity|]. split; [reflexivity|].
  rewrite verifyCRC32C_spec. cbn [vis]. unfold mem. rewrite sub_app_l by (unfold len in H; lia).
  rewrite sub_firstn_skipn by lia. reflexivity.
Qed.

Theorem parse_control_no_panic s : ParseControlFile s <> Panic.
Proof.
  destruct (Z_lt_ge_dec (len s) 296) as [H|H].
  - rewrite parse_control_short by lia. discriminate.
  - destruct (parse_control_total s ltac:(lia)) as (r & -> & _). discriminate.
Qed.

(* the CRC verdict, for every byte string of at least 296 bytes (valid, corrupted, padded ...) *)
Theorem parse_control_crc_any s r : ParseControlFile s = Ok (inr r) ->
  CRC r = le_dec (sub (vis s) 288 292) /\
  (CRCValid r = true <-> le_dec (sub (vis s) 288 292) = crc32c (firstn 288 (vis s))).
Proof.
  intros HP. destruct (Z_lt_ge_dec (len s) 296) as [H|H].
  - rewrite parse_control_short in HP by lia. discriminate.
  - destruct (parse_control_total s ltac:(lia)) as (r' & HP' & _ & HC & HV).
    rewrite HP in HP'. injection HP' as <-. split; [exact HC|].
    rewrite HV, HC, Z.eqb_eq. split; congruence.
Qed.

(* the CRC verdict on reference images: valid iff the stored CRC is the CRC-32C of the bytes before it *)
Theorem parse_control_crc c pad t r : wf_control c ->
  ParseControlFile {| vis := enc_control c ++ pad; tail := t |} = Ok (inr r) ->
  CRC r = c_crc c /\ (CRCValid r = true <-> c_crc c = crc32c (firstn 288 (enc_control c ++ pad))).
Proof.
  intros W HP. rewrite parse_control_fields in HP by exact W. injection HP as <-.
  cbn [expected CRC CRCValid]. split; [reflexivity|]. rewrite Z.eqb_eq, covered_firstn with (pad := pad). reflexivity.
Qed.

(* ---------- non-vacuity: a realistic PostgreSQL 16 control value ---------- *)
Definition example_checkpoint : checkpoint :=
  {| cp_redo := 0x16B3748; cp_tli := 1; cp_prevtli := 1; cp_fpw := true; cp_nextxid := 0x2000002E6;
     cp_nextoid := 24576; cp_nextmulti := 1; cp_nextmoff := 0; cp_oldestxid := 722; cp_oldestxiddb := 1;
     cp_oldestmulti := 1; cp_oldestmultidb := 1; cp_time := 1768733183; cp_oldestcts := 11; cp_newestcts := 22;
     cp_oldestactive := 742 |}.
Definition example_control : control :=
  {| c_pg12 := false; c_sysid := 7123456789012345678; c_ctlver := 1300; c_catver := 202307071; c_state := 6;
     c_time := 1768733190; c_checkpoint := 0x16B3780; c_cp := example_checkpoint;
     c_unlogged := 1000; c_minrec := 0; c_minrectli := 0; c_backupstart := 0; c_backupend := 0;
     c_backupendreq := false; c_wal_level := 1; c_wal_log_hints := false; c_maxconn := 20000; c_maxwork := 0;
     c_maxsend := 10; c_maxprep := 0; c_maxlock := 64; c_trackts := true; c_maxalign := 8;
     c_floatformat := float_1234567; c_blcksz := 8192; c_relseg := 131072; c_xlogblcksz := 8192;
     c_xlogsegsz := 16777216; c_namelen := 64; c_indexkeys := 32; c_toastchunk := 1996; c_loblk := 2048;
     c_float4byval := true; c_float8byval := true; c_cksumver := 1; c_nonce := repeat x5a 32;
     c_crc := 0 |}.
Example example_control_wf : wf_control example_control.
Proof.
  unfold wf_control, wf_checkpoint, u32_ok, u64_ok, i32_ok, i64_ok. cbn. unfold float_1234567. repeat split; lia.
Qed.
Example example_control_parsed :
  exists r, ParseControlFile (exact (enc_control example_control ++ zeros (8192 - 296))) = Ok (inr r) /\
            MaxConnections r = 20000 /\ MaxWorkerProcesses r = 0 /\ DataChecksumsEnabled r = true /\
            BlockSize r = 8192 /\ OldestActiveXID r = 742 /\ NextXIDEpoch r = 2 /\ NextXID r = 742 /\
            RedoWALFile r = str "000000010000000000000001" /\ CRCValid r = false.
Proof.
  eexists. split; [unfold exact; apply parse_control_fields, example_control_wf|].
  repeat split.
Qed.
