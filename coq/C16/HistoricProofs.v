(* C16/HistoricProofs.v — the behaviour of pgdump/control.go BEFORE the fix: commits for D49, D50, D51,
   kept as small historic models with concrete refutations (the witness is example_control of
   Proofs.v: max_connections 20000, max_worker_processes 0, data_checksum_version 1, redo 0/16B3748;
   and LSN 1/0 for the WAL file name).  Not extracted, not part of the correspondence run. *)
Require Import PG.Base.Bytes PG.Base.GoSlice PG.C16.Types PG.C16.Model PG.C16.Spec PG.C16.Proofs.

Definition rd32 (v : bytes) (i : Z) : Z := le_dec (sub v i (i + 4)).

(* old findConfigSection (control.go:282-299 before the fix): first i = start, start+4, ... with
   i < len-24, i < 280 whose three int32 look like (1..10000, 1..1000, 0..1000); 0 = not found *)
Fixpoint findConfigSection_old (fuel : nat) (v : bytes) (i : Z) : Z :=
  match fuel with
  | O => 0
  | S k =>
    if (i <? blen v - 24) && (i <? 280) then
      let val1 := sint32 (rd32 v i) in
      let val2 := sint32 (rd32 v (i + 4)) in
      let val3 := sint32 (rd32 v (i + 8)) in
      if (1 <=? val1) && (val1 <=? 10000) && (1 <=? val2) && (val2 <=? 1000) && (0 <=? val3) && (val3 <=? 1000)
      then i else findConfigSection_old k v (i + 4)
    else 0
  end.
(* old findStorageSection (control.go:302-317 before the fix): u32 at i, i+8, i+16 = 8, 8192, 8192 *)
Fixpoint findStorageSection_old (fuel : nat) (v : bytes) (i : Z) : Z :=
  match fuel with
  | O => 0
  | S k =>
    if (i <? blen v - 48) && (i <? 300) then
      if (rd32 v i =? 8) && (rd32 v (i + 8) =? 8192) && (rd32 v (i + 16) =? 8192)
      then i else findStorageSection_old k v (i + 4)
    else 0
  end.
(* old formatWALFilename(lsn, timeline): 16 MiB hard-coded, uint32(segNo>>32), uint32(segNo);
   ParseControlFile passed timeline 1 *)
Definition formatWALFilename_old (lsn timeline : Z) : bytes :=
  let segNo := lsn / (16 * 1024 * 1024) in
  fmt08X timeline ++ fmt08X (wrap 32 (Z.shiftr segNo 32)) ++ fmt08X (wrap 32 segNo).

Definition example_file : bytes := enc_control example_control ++ zeros (8192 - 296).

(* D49a: max_worker_processes = 0 (and max_connections > 10000): the settings are not found at
   their place (180); the heuristic locks onto offset 196 and reports max_locks_per_xact (64) as
   MaxConnections. *)
Theorem historic_config_refuted :
  wf_control example_control /\
  findConfigSection_old 40 example_file 180 = 196 /\
  sint32 (rd32 example_file 196) = 64 /\ MaxConnections (expected example_control) = 20000.
Proof. split; [exact example_control_wf|]. repeat split; vm_compute; reflexivity. Qed.

(* D49b: the storage section is never found (the search starts behind maxAlign and uses the wrong
   spacing), so block sizes are defaults and DataChecksumsEnabled stays false although the stored
   data_checksum_version is 1. *)
Theorem historic_storage_refuted :
  wf_control example_control /\
  findStorageSection_old 40 example_file 220 = 0 /\ DataChecksumsEnabled (expected example_control) = true.
Proof. split; [exact example_control_wf|]. split; vm_compute; reflexivity. Qed.

(* D50: offset 112 was reported as OldestActiveXID; it holds oldestCommitTsXid *)
Theorem historic_xid_order_refuted :
  rd32 example_file 112 = cp_oldestcts example_checkpoint /\
  rd32 example_file 112 <> OldestActiveXID (expected example_control) /\
  rd32 example_file 120 = OldestActiveXID (expected example_control).
Proof. repeat split; vm_compute; congruence. Qed.

(* D51: LSN 1/0, timeline 1, 16 MiB segments: PostgreSQL names 000000010000000100000000 *)
Theorem historic_walname_refuted :
  legal_segsz 16777216 /\
  formatWALFilename_old 0x100000000 1 = str "000000010000000000000100" /\
  wal_file_name 1 16777216 0x100000000 = str "000000010000000100000000".
Proof. split; [exists 24; split; [lia|reflexivity]|]. split; vm_compute; reflexivity. Qed.
