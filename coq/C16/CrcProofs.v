(* C16/CrcProofs.v — the table-driven CRC loop of verifyCRC32C/makeCRC32CTable equals the
   bit-serial CRC-32C of Spec.v, for all byte strings. *)
Require Import PG.Base.Bytes PG.Base.GoSlice PG.C16.Types PG.C16.Model PG.C16.Spec.

(* one shift of the register with a zero message bit *)
Definition F (c : Z) : Z := crc_shift c false.

Lemma F_eq c : F c = Z.lxor (Z.div2 c) (if Z.odd c then crc_poly else 0).
Proof. unfold F, crc_shift. rewrite xorb_false_r. destruct (Z.odd c); [reflexivity|]. rewrite Z.lxor_0_r. reflexivity. Qed.

Lemma odd_lxor a b : Z.odd (Z.lxor a b) = xorb (Z.odd a) (Z.odd b).
Proof. rewrite <- !Z.bit0_odd. apply Z.lxor_spec. Qed.
Lemma div2_lxor a b : Z.div2 (Z.lxor a b) = Z.lxor (Z.div2 a) (Z.div2 b).
Proof. rewrite !Z.div2_spec. apply Z.shiftr_lxor. Qed.

(* the shift is linear over exclusive-or *)
Lemma F_lxor a b : F (Z.lxor a b) = Z.lxor (F a) (F b).
Proof.
  rewrite !F_eq, odd_lxor, div2_lxor.
  set (x := Z.div2 a). set (y := Z.div2 b).
  destruct (Z.odd a), (Z.odd b); cbn [xorb].
  - rewrite Z.lxor_0_r.
    rewrite (Z.lxor_assoc x crc_poly), <- (Z.lxor_assoc crc_poly y), (Z.lxor_comm crc_poly y),
            (Z.lxor_assoc y), Z.lxor_nilpotent, Z.lxor_0_r. reflexivity.
  - rewrite Z.lxor_0_r. rewrite (Z.lxor_assoc x crc_poly y), (Z.lxor_comm crc_poly y), <- Z.lxor_assoc. reflexivity.
  - rewrite Z.lxor_0_r. rewrite Z.lxor_assoc. reflexivity.
  - rewrite !Z.lxor_0_r. reflexivity.
Qed.
Lemma iterF_lxor k : forall a b, iter k F (Z.lxor a b) = Z.lxor (iter k F a) (iter k F b).
Proof. induction k; intros; cbn [iter]; [reflexivity|]. rewrite F_lxor. apply IHk. Qed.

(* k shifts of a register whose k low bits are zero just shift *)
Lemma iterF_shift k : forall q, iter k F (2 ^ Z.of_nat k * q) = q.
Proof.
  induction k; intros q.
  - cbn [iter]. change (2 ^ Z.of_nat 0) with 1. lia.
  - cbn [iter]. replace (2 ^ Z.of_nat (S k) * q) with (2 * (2 ^ Z.of_nat k * q)).
    2:{ rewrite Nat2Z.inj_succ, Z.pow_succ_r by lia. lia. }
    rewrite F_eq. rewrite Z.odd_mul. cbn [Z.odd andb]. rewrite Z.lxor_0_r.
    rewrite Z.div2_div, Z.mul_comm, Z.div_mul by lia. apply IHk.
Qed.

(* a message bit is exclusive-ored into the low end before the shift *)
Lemma crc_shift_F c bit : crc_shift c bit = F (Z.lxor c (b2i bit)).
Proof.
  destruct bit; cbn [b2i]; [|rewrite Z.lxor_0_r; reflexivity].
  unfold F, crc_shift. rewrite odd_lxor, div2_lxor. cbn [Z.odd Z.div2].
  rewrite Z.lxor_0_r, xorb_false_r. reflexivity.
Qed.

(* feeding bits is affine in the start value *)
Lemma fold_shift_affine l : forall c,
  fold_left crc_shift l c = Z.lxor (iter (length l) F c) (fold_left crc_shift l 0).
Proof.
  induction l as [|bit l IH]; intros c; cbn [fold_left length iter].
  - rewrite Z.lxor_0_r. reflexivity.
  - rewrite (crc_shift_F c), (crc_shift_F 0), Z.lxor_0_l, F_lxor.
    rewrite (IH (Z.lxor (F c) (F (b2i bit)))), (IH (F (b2i bit))), iterF_lxor, Z.lxor_assoc. reflexivity.
Qed.

(* the eight bits of a byte, fed serially into a zero register, give the table entry of that byte *)
Lemma byte_serial_zero b : fold_left crc_shift (bits_lsb_first b) 0 = iter 8 F (b2z b).
Proof. destruct b; vm_compute; reflexivity. Qed.

Lemma byte_serial c b : fold_left crc_shift (bits_lsb_first b) c = iter 8 F (Z.lxor c (b2z b)).
Proof.
  rewrite fold_shift_affine, byte_serial_zero, iterF_lxor.
  replace (length (bits_lsb_first b)) with 8%nat by (unfold bits_lsb_first; rewrite map_length, seq_length; reflexivity).
  reflexivity.
Qed.

(* ---------- the model's table ---------- *)
Lemma table_step_F c : table_step c = F c.
Proof.
  unfold table_step. rewrite F_eq, <- Z.div2_spec.
  change 1 with (Z.ones 1). rewrite Z.land_ones by lia. change (2 ^ 1) with 2.
  rewrite <- Z.bit0_mod, Z.bit0_odd. unfold polynomial, crc_poly.
  destruct (Z.odd c); cbn [Z.b2z Z.eqb negb]; [reflexivity|]. rewrite Z.lxor_0_r. reflexivity.
Qed.
Lemma iter_ext {A} (f g : A -> A) (H : forall x, f x = g x) n : forall x, iter n f x = iter n g x.
Proof. induction n; intros; cbn [iter]; [reflexivity|]. rewrite H. apply IHn. Qed.

Lemma table_nth i : 0 <= i < 256 -> nth (Z.to_nat i) makeCRC32CTable 0 = iter 8 F i.
Proof.
  intros Hi. unfold makeCRC32CTable.
  set (f := fun i0 : nat => iter 8 table_step (Z.of_nat i0)).
  rewrite (nth_indep _ 0 (f 0%nat)) by (rewrite map_length, seq_length; lia).
  rewrite map_nth. rewrite seq_nth by lia. unfold f. cbn [Nat.add]. rewrite Z2Nat.id by lia.
  apply iter_ext. exact table_step_F.
Qed.
Lemma table_length : length makeCRC32CTable = 256%nat.
Proof. unfold makeCRC32CTable. rewrite map_length, seq_length. reflexivity. Qed.

(* x = (x mod 2^n) xor (2^n * (x / 2^n)) *)
Lemma split_lxor x n : 0 <= n -> x = Z.lxor (x mod 2 ^ n) (2 ^ n * (x / 2 ^ n)).
Proof.
  intros Hn. rewrite <- Z.add_nocarry_lxor.
  - pose proof (Z.pow_pos_nonneg 2 n ltac:(lia) Hn). rewrite Z.add_comm. apply Z.div_mod. lia.
  - apply Z.bits_inj'. intros m Hm. rewrite Z.land_spec, Z.bits_0.
    destruct (Z_lt_ge_dec m n).
    + rewrite (Z.mul_comm (2 ^ n)), Z.mul_pow2_bits_low by lia. apply andb_false_r.
    + rewrite Z.mod_pow2_bits_high by lia. reflexivity.
Qed.

(* table[(crc^b)&0xFF] ^ (crc >> 8)  =  eight shifts of crc^b *)
Lemma crc_update_F crc b : crc_update makeCRC32CTable crc b = iter 8 F (Z.lxor crc (b2z b)).
Proof.
  unfold crc_update. set (x := Z.lxor crc (b2z b)).
  change 255 with (Z.ones 8). rewrite Z.land_ones by lia.
  rewrite table_nth by (change (2 ^ 8) with 256; apply Z.mod_pos_bound; lia).
  rewrite (split_lxor x 8) at 2 by lia. rewrite iterF_lxor.
  change 8 with (Z.of_nat 8) at 4. rewrite iterF_shift. f_equal.
  unfold x. rewrite <- Z.shiftr_div_pow2 by lia. rewrite Z.shiftr_lxor.
  assert (E : Z.shiftr (b2z b) 8 = 0).
  { rewrite Z.shiftr_div_pow2 by lia. pose proof (b2z_range b). apply Z.div_small.
    change (2 ^ 8) with 256. lia. }
  rewrite E, Z.lxor_0_r. reflexivity.
Qed.

Lemma crc_loop bs : forall c,
  fold_left (crc_update makeCRC32CTable) bs c = fold_left crc_shift (message_bits bs) c.
Proof.
  induction bs as [|b bs IH]; intros c; [reflexivity|].
  unfold message_bits. cbn [fold_left flat_map]. rewrite fold_left_app.
  rewrite byte_serial, <- crc_update_F. apply IH.
Qed.

(* verifyCRC32C decides equality with the bit-serial CRC-32C: every byte string, every 'expected' *)
Theorem verifyCRC32C_spec (data : gslice) (e : Z) : verifyCRC32C data e = (crc32c (vis data) =? e).
Proof. unfold verifyCRC32C, crc32c. rewrite crc_loop. reflexivity. Qed.

(* the standard check value *)
Example crc32c_check_value : crc32c (str "123456789") = 0xE3069283.
Proof. vm_compute. reflexivity. Qed.
(* and two more published vectors (RFC 3720 B.4): 32 bytes of zeros, 32 bytes of 0xFF *)
Example crc32c_zeros32 : crc32c (repeat x00 32) = 0x8A9136AA.
Proof. vm_compute. reflexivity. Qed.
Example crc32c_ones32 : crc32c (repeat xff 32) = 0x62A8AB43.
Proof. vm_compute. reflexivity. Qed.

(* the result is a 32-bit value (so comparing with a uint32 'expected' is meaningful) *)
Lemma F_range c : 0 <= c < 2 ^ 32 -> 0 <= F c < 2 ^ 32.
Proof.
  intros H. rewrite F_eq, Z.div2_div.
  assert (H1 : 0 <= c / 2 < 2 ^ 31) by (change (2 ^ 32) with (2 * 2 ^ 31) in H; lia).
  assert (P : 0 <= crc_poly < 2 ^ 32) by (unfold crc_poly; lia).
  assert (B : forall a b, 0 <= a < 2 ^ 32 -> 0 <= b < 2 ^ 32 -> 0 <= Z.lxor a b < 2 ^ 32).
  { intros a b Ha Hb. split; [apply Z.lxor_nonneg; lia|].
    destruct (Z.eq_dec (Z.lxor a b) 0) as [->|NZ]; [lia|].
    apply Z.log2_lt_pow2; [pose proof (proj2 (Z.lxor_nonneg a b)); lia|].
    eapply Z.le_lt_trans; [apply Z.log2_lxor; lia|].
    apply Z.max_lub_lt.
    - destruct (Z.eq_dec a 0) as [->|]; [cbn; lia|]. apply Z.log2_lt_pow2; lia.
    - destruct (Z.eq_dec b 0) as [->|]; [cbn; lia|]. apply Z.log2_lt_pow2; lia. }
  destruct (Z.odd c); apply B; lia.
Qed.
