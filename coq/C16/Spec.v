(* C16/Spec.v — specification, written from PostgreSQL's headers (src/include/catalog/pg_control.h,
   access/xlog_internal.h, port/pg_crc32c.h), independently of control.go.

   ControlFileData of PostgreSQL 12-16 on little-endian x86-64 is declared field by field with its C
   types; the byte image is COMPUTED from the declaration with the C layout rule (each member at the
   next multiple of its alignment, struct padded to its own alignment, padding bytes zero as
   PostgreSQL's memset leaves them) — no offset is typed in.  [control_offsets] in Proofs.v
   cross-checks the computed offsets against the numbers of DESIGN.md §5. *)
Require Import PG.Base.Bytes PG.C16.Types.

(* ---------- C struct layout ---------- *)
Inductive fld :=
| F8 (v : Z)                       (* bool / uint8 / char *)
| F32 (v : Z)                      (* uint32, int, Oid, TransactionId, TimeLineID, enum *)
| F64 (v : Z)                      (* uint64, XLogRecPtr, pg_time_t, double, FullTransactionId *)
| FChars (bs : bytes)              (* char[n] *)
| FStruct (al : Z) (bs : bytes).   (* nested struct: its alignment and its (already padded) image *)

Definition f_align (f : fld) : Z :=
  match f with F8 _ => 1 | F32 _ => 4 | F64 _ => 8 | FChars _ => 1 | FStruct a _ => a end.
Definition f_bytes (f : fld) : bytes :=
  match f with F8 v => le_enc 1 v | F32 v => le_enc 4 v | F64 v => le_enc 8 v | FChars b => b | FStruct _ b => b end.
(* number of padding bytes needed to bring [off] to a multiple of [a] *)
Definition pad_to (off a : Z) : Z := (a - off mod a) mod a.

Fixpoint lay (off : Z) (fs : list fld) : bytes :=
  match fs with
  | [] => []
  | f :: r => let p := pad_to off (f_align f) in
              zeros p ++ f_bytes f ++ lay (off + p + blen (f_bytes f)) r
  end.
Fixpoint lay_end (off : Z) (fs : list fld) : Z :=
  match fs with
  | [] => off
  | f :: r => lay_end (off + pad_to off (f_align f) + blen (f_bytes f)) r
  end.
Fixpoint offsets (off : Z) (fs : list fld) : list Z :=
  match fs with
  | [] => []
  | f :: r => let o := off + pad_to off (f_align f) in o :: offsets (o + blen (f_bytes f)) r
  end.
Definition struct_align (fs : list fld) : Z := fold_right (fun f a => Z.max (f_align f) a) 1 fs.
Definition enc_struct (fs : list fld) : bytes :=
  lay 0 fs ++ zeros (pad_to (lay_end 0 fs) (struct_align fs)).

(* char[n]: exactly n bytes (a shorter list is zero-extended, a longer one truncated) *)
Definition chars (n : nat) (l : bytes) : bytes := map (fun i => nth i l x00) (seq 0 n).

(* ---------- the abstract control data ---------- *)
Definition b2i (b : bool) : Z := if b then 1 else 0.

(* typedef struct CheckPoint *)
Record checkpoint := {
  cp_redo : Z;              (* XLogRecPtr *)
  cp_tli : Z;               (* TimeLineID ThisTimeLineID *)
  cp_prevtli : Z;           (* TimeLineID PrevTimeLineID *)
  cp_fpw : bool;            (* bool fullPageWrites *)
  cp_nextxid : Z;           (* FullTransactionId nextXid: epoch << 32 | xid *)
  cp_nextoid : Z;           (* Oid *)
  cp_nextmulti : Z;         (* MultiXactId *)
  cp_nextmoff : Z;          (* MultiXactOffset *)
  cp_oldestxid : Z;         (* TransactionId *)
  cp_oldestxiddb : Z;       (* Oid *)
  cp_oldestmulti : Z;       (* MultiXactId *)
  cp_oldestmultidb : Z;     (* Oid *)
  cp_time : Z;              (* pg_time_t (int64) *)
  cp_oldestcts : Z;         (* TransactionId oldestCommitTsXid *)
  cp_newestcts : Z;         (* TransactionId newestCommitTsXid *)
  cp_oldestactive : Z }.    (* TransactionId oldestActiveXid *)

Definition checkpoint_fields (p : checkpoint) : list fld :=
  [ F64 (cp_redo p); F32 (cp_tli p); F32 (cp_prevtli p); F8 (b2i (cp_fpw p)); F64 (cp_nextxid p);
    F32 (cp_nextoid p); F32 (cp_nextmulti p); F32 (cp_nextmoff p); F32 (cp_oldestxid p);
    F32 (cp_oldestxiddb p); F32 (cp_oldestmulti p); F32 (cp_oldestmultidb p);
    F64 (wrap 64 (cp_time p)); F32 (cp_oldestcts p); F32 (cp_newestcts p); F32 (cp_oldestactive p) ].

(* typedef struct ControlFileData *)
Record control := {
  c_pg12 : bool;            (* PostgreSQL 12: bool float4ByVal precedes float8ByVal (removed in 13) *)
  c_sysid : Z;              (* uint64 system_identifier *)
  c_ctlver : Z;             (* uint32 pg_control_version *)
  c_catver : Z;             (* uint32 catalog_version_no *)
  c_state : Z;              (* DBState state (enum, 4 bytes) *)
  c_time : Z;               (* pg_time_t time *)
  c_checkpoint : Z;         (* XLogRecPtr checkPoint *)
  c_cp : checkpoint;        (* CheckPoint checkPointCopy *)
  c_unlogged : Z;           (* XLogRecPtr unloggedLSN *)
  c_minrec : Z;             (* XLogRecPtr minRecoveryPoint *)
  c_minrectli : Z;          (* TimeLineID minRecoveryPointTLI *)
  c_backupstart : Z;        (* XLogRecPtr backupStartPoint *)
  c_backupend : Z;          (* XLogRecPtr backupEndPoint *)
  c_backupendreq : bool;    (* bool backupEndRequired *)
  c_wal_level : Z;          (* int wal_level *)
  c_wal_log_hints : bool;   (* bool wal_log_hints *)
  c_maxconn : Z;            (* int MaxConnections *)
  c_maxwork : Z;            (* int max_worker_processes *)
  c_maxsend : Z;            (* int max_wal_senders *)
  c_maxprep : Z;            (* int max_prepared_xacts *)
  c_maxlock : Z;            (* int max_locks_per_xact *)
  c_trackts : bool;         (* bool track_commit_timestamp *)
  c_maxalign : Z;           (* uint32 maxAlign *)
  c_floatformat : Z;        (* double floatFormat, as its IEEE-754 bit pattern *)
  c_blcksz : Z;             (* uint32 blcksz *)
  c_relseg : Z;             (* uint32 relseg_size *)
  c_xlogblcksz : Z;         (* uint32 xlog_blcksz *)
  c_xlogsegsz : Z;          (* uint32 xlog_seg_size *)
  c_namelen : Z;            (* uint32 nameDataLen *)
  c_indexkeys : Z;          (* uint32 indexMaxKeys *)
  c_toastchunk : Z;         (* uint32 toast_max_chunk_size *)
  c_loblk : Z;              (* uint32 loblksize *)
  c_float4byval : bool;     (* bool float4ByVal (PostgreSQL 12 only) *)
  c_float8byval : bool;     (* bool float8ByVal *)
  c_cksumver : Z;           (* uint32 data_checksum_version *)
  c_nonce : bytes;          (* char mock_authentication_nonce[32] *)
  c_crc : Z }.              (* pg_crc32c crc *)

Definition control_fields (c : control) : list fld :=
  [ F64 (c_sysid c); F32 (c_ctlver c); F32 (c_catver c); F32 (wrap 32 (c_state c));
    F64 (wrap 64 (c_time c)); F64 (c_checkpoint c);
    FStruct (struct_align (checkpoint_fields (c_cp c))) (enc_struct (checkpoint_fields (c_cp c)));
    F64 (c_unlogged c); F64 (c_minrec c); F32 (c_minrectli c); F64 (c_backupstart c); F64 (c_backupend c);
    F8 (b2i (c_backupendreq c));
    F32 (wrap 32 (c_wal_level c)); F8 (b2i (c_wal_log_hints c));
    F32 (wrap 32 (c_maxconn c)); F32 (wrap 32 (c_maxwork c)); F32 (wrap 32 (c_maxsend c));
    F32 (wrap 32 (c_maxprep c)); F32 (wrap 32 (c_maxlock c)); F8 (b2i (c_trackts c));
    F32 (c_maxalign c); F64 (c_floatformat c);
    F32 (c_blcksz c); F32 (c_relseg c); F32 (c_xlogblcksz c); F32 (c_xlogsegsz c);
    F32 (c_namelen c); F32 (c_indexkeys c); F32 (c_toastchunk c); F32 (c_loblk c) ]
  ++ (if c_pg12 c then [ F8 (b2i (c_float4byval c)); F8 (b2i (c_float8byval c)) ]
      else [ F8 (b2i (c_float8byval c)) ])
  ++ [ F32 (c_cksumver c); FChars (chars 32 (c_nonce c)); F32 (c_crc c) ].

(* the sizeof(ControlFileData) bytes PostgreSQL writes at the start of global/pg_control
   (the file itself is zero-padded to PG_CONTROL_FILE_SIZE = 8192) *)
Definition enc_control (c : control) : bytes := enc_struct (control_fields c).

(* ---------- ranges ---------- *)
Definition u32_ok (z : Z) : Prop := 0 <= z < 2 ^ 32.
Definition u64_ok (z : Z) : Prop := 0 <= z < 2 ^ 64.
Definition i32_ok (z : Z) : Prop := - 2 ^ 31 <= z < 2 ^ 31.
Definition i64_ok (z : Z) : Prop := - 2 ^ 63 <= z < 2 ^ 63.

Definition wf_checkpoint (p : checkpoint) : Prop :=
  u64_ok (cp_redo p) /\ u32_ok (cp_tli p) /\ u32_ok (cp_prevtli p) /\ u64_ok (cp_nextxid p) /\
  u32_ok (cp_nextoid p) /\ u32_ok (cp_nextmulti p) /\ u32_ok (cp_nextmoff p) /\ u32_ok (cp_oldestxid p) /\
  u32_ok (cp_oldestxiddb p) /\ u32_ok (cp_oldestmulti p) /\ u32_ok (cp_oldestmultidb p) /\
  i64_ok (cp_time p) /\ u32_ok (cp_oldestcts p) /\ u32_ok (cp_newestcts p) /\ u32_ok (cp_oldestactive p).

(* Every field over the full range of its C type; the three sizes the tool replaces by a default
   when they are 0 (blcksz, xlog_blcksz, xlog_seg_size) are non-zero, as every legal size is;
   wal_level is one of the three values PostgreSQL 12-16 store. *)
Definition wf_control (c : control) : Prop :=
  u64_ok (c_sysid c) /\ u32_ok (c_ctlver c) /\ u32_ok (c_catver c) /\ i32_ok (c_state c) /\
  i64_ok (c_time c) /\ u64_ok (c_checkpoint c) /\ wf_checkpoint (c_cp c) /\
  u64_ok (c_unlogged c) /\ u64_ok (c_minrec c) /\ u32_ok (c_minrectli c) /\
  u64_ok (c_backupstart c) /\ u64_ok (c_backupend c) /\
  0 <= c_wal_level c <= 2 /\
  i32_ok (c_maxconn c) /\ i32_ok (c_maxwork c) /\ i32_ok (c_maxsend c) /\ i32_ok (c_maxprep c) /\
  i32_ok (c_maxlock c) /\
  u32_ok (c_maxalign c) /\ u64_ok (c_floatformat c) /\
  u32_ok (c_blcksz c) /\ c_blcksz c <> 0 /\ u32_ok (c_relseg c) /\
  u32_ok (c_xlogblcksz c) /\ c_xlogblcksz c <> 0 /\ u32_ok (c_xlogsegsz c) /\ c_xlogsegsz c <> 0 /\
  u32_ok (c_namelen c) /\ u32_ok (c_indexkeys c) /\ u32_ok (c_toastchunk c) /\ u32_ok (c_loblk c) /\
  u32_ok (c_cksumver c) /\ u32_ok (c_crc c).

(* ---------- text renderings (positional definitions) ---------- *)
Definition digit_char (d : Z) : byte := nth (Z.to_nat d) (str "0123456789ABCDEF") x00.
(* the k least significant base-[base] digits of u, most significant first *)
Fixpoint digits_be (base : Z) (k : nat) (u : Z) : list Z :=
  match k with O => [] | S k' => digits_be base k' (u / base) ++ [u mod base] end.
(* drop leading zero digits, keeping at least one digit *)
Fixpoint strip0 (l : list Z) : list Z :=
  match l with
  | d :: ((_ :: _) as r) => if d =? 0 then strip0 r else l
  | _ => l
  end.
(* %08X of a 32-bit value: exactly eight upper-case hexadecimal digits *)
Definition hex8 (u : Z) : bytes := map digit_char (digits_be 16 8 u).
(* %X: upper-case hexadecimal without leading zeros *)
Definition hex_min (u : Z) : bytes := map digit_char (strip0 (digits_be 16 16 u)).
(* %d of a signed 64-bit value *)
Definition dec_signed (n : Z) : bytes :=
  if n <? 0 then "-"%byte :: map digit_char (strip0 (digits_be 10 20 (- n)))
  else map digit_char (strip0 (digits_be 10 20 n)).

(* XLogRecPtr as pg_controldata prints it: "%X/%X" of the high and low 32 bits *)
Definition lsn_text (lsn : Z) : bytes := hex_min (lsn / 2 ^ 32) ++ str "/" ++ hex_min (lsn mod 2 ^ 32).

(* XLogFileName(tli, XLByteToSeg(lsn, segsz), segsz) (xlog_internal.h), with its (uint32) casts:
   "%08X%08X%08X", tli, segno / XLogSegmentsPerXLogId, segno % XLogSegmentsPerXLogId,
   XLogSegmentsPerXLogId = 0x100000000 / segsz *)
Definition wal_file_name (tli segsz lsn : Z) : bytes :=
  let segno := lsn / segsz in
  let per := 2 ^ 32 / segsz in
  hex8 tli ++ hex8 (wrap 32 (segno / per)) ++ hex8 (wrap 32 (segno mod per)).
(* legal WAL segment sizes: powers of two from 1 MiB to 1 GiB *)
Definition legal_segsz (s : Z) : Prop := exists k, 20 <= k <= 30 /\ s = 2 ^ k.
(* for those, the name is (tli, high half of the LSN, low half / segment size) *)
Definition wal_file_name_legal (tli segsz lsn : Z) : bytes :=
  hex8 tli ++ hex8 (lsn / 2 ^ 32) ++ hex8 ((lsn mod 2 ^ 32) / segsz).

(* DBState as pg_controldata names it; other values are reported as "unknown (<n>)" *)
Definition state_names : list bytes :=
  [ str "starting up"; str "shut down"; str "shut down in recovery"; str "shutting down";
    str "in crash recovery"; str "in archive recovery"; str "in production" ].
Definition state_text (s : Z) : bytes :=
  if (0 <=? s) && (s <? 7) then nth (Z.to_nat s) state_names []
  else str "unknown (" ++ dec_signed s ++ str ")".
Definition wal_level_text (l : Z) : bytes :=
  if l =? 0 then str "minimal" else if l =? 1 then str "replica" else if l =? 2 then str "logical" else [].

(* ---------- CRC-32C (Castagnoli), bit-serial ---------- *)
(* Reflected form: polynomial 0x1EDC6F41 bit-reversed = 0x82F63B78; register initialised to all
   ones; message bits enter least-significant bit of each byte first; final complement.
   One message bit per step. *)
Definition crc_poly : Z := 2197175160. (* 0x82F63B78 *)
Definition crc_shift (c : Z) (bit : bool) : Z :=
  let fb := xorb (Z.odd c) bit in
  if fb then Z.lxor (Z.div2 c) crc_poly else Z.div2 c.   (* Z.div2 c = c / 2, the register shifted right by one *)
Definition bits_lsb_first (b : byte) : list bool :=
  map (fun i => Z.testbit (b2z b) (Z.of_nat i)) (seq 0 8).
Definition message_bits (bs : bytes) : list bool := flat_map bits_lsb_first bs.
Definition crc32c (bs : bytes) : Z :=
  Z.lxor (fold_left crc_shift (message_bits bs) 4294967295) 4294967295.

(* offsetof(ControlFileData, crc): the CRC covers the bytes before the crc member *)
Definition crc_offset (c : control) : Z := last (offsets 0 (control_fields c)) 0.
Definition crc_covered (c : control) : bytes := firstn (Z.to_nat (crc_offset c)) (enc_control c).

(* ---------- what the tool must report ---------- *)
Definition float_1234567 : Z := 4698053236609777664. (* IEEE-754 binary64 of 1234567.0 = 0x4132D68700000000 *)

Definition expected (c : control) : ControlFile :=
  let p := c_cp c in
  {| PGControlVersion := c_ctlver c; CatalogVersionNo := c_catver c; SystemIdentifier := c_sysid c;
     State := c_state c; StateString := state_text (c_state c);
     CheckpointLSN := lsn_text (c_checkpoint c); RedoLSN := lsn_text (cp_redo p);
     RedoWALFile := wal_file_name (cp_tli p) (c_xlogsegsz c) (cp_redo p);
     TimeLineID := cp_tli p; PrevTimeLineID := cp_prevtli p; FullPageWrites := cp_fpw p;
     NextXIDEpoch := cp_nextxid p / 2 ^ 32; NextXID := cp_nextxid p mod 2 ^ 32;
     NextOID := cp_nextoid p; NextMulti := cp_nextmulti p; NextMultiOffset := cp_nextmoff p;
     OldestXID := cp_oldestxid p; OldestXIDDB := cp_oldestxiddb p; OldestActiveXID := cp_oldestactive p;
     OldestMulti := cp_oldestmulti p; OldestMultiDB := cp_oldestmultidb p;
     OldestCommitTsXID := cp_oldestcts p; NewestCommitTsXID := cp_newestcts p;
     CheckpointTime := cp_time p;
     WALLevel := wal_level_text (c_wal_level c); WALLogHints := c_wal_log_hints c;
     MaxConnections := c_maxconn c; MaxWorkerProcesses := c_maxwork c; MaxWALSenders := c_maxsend c;
     MaxPreparedXacts := c_maxprep c; MaxLocksPerXact := c_maxlock c; TrackCommitTS := c_trackts c;
     MaxAlign := c_maxalign c; BlockSize := c_blcksz c; BlocksPerSeg := c_relseg c;
     WALBlockSize := c_xlogblcksz c; WALSegmentSize := c_xlogsegsz c; NameDataLen := c_namelen c;
     IndexMaxKeys := c_indexkeys c; TOASTMaxChunk := c_toastchunk c; LargeObjectChunk := c_loblk c;
     FloatFormatOK := c_floatformat c =? float_1234567;
     DataChecksumsEnabled := negb (c_cksumver c =? 0);
     CRC := c_crc c;
     CRCValid := c_crc c =? crc32c (crc_covered c) |}.
